HOOK_COMMITS = ["3c28e2b", "2f5b495", "25967af"]

_ALL = ["C%02d" % i for i in range(1, 21)]

CHECKS = [
 {"property_id": "C18",
  "text": "Coq theorems over an executable model of wsConn.Read/Write: for every list of WebSocket messages and every sequence of read sizes the bytes handed out are exactly the concatenation of the binary payloads (nothing lost, duplicated, reordered), text messages are rejected, writes are one binary message each. The model is tied to the code on every run by running the real wsConn (over a real gorilla connection) and the extracted model on the same generated message/read-size sequences and comparing chunk-by-chunk; the extracted oracle of the theorem is evaluated on the implementation's trace.",
  "design_ref": "DESIGN.md sec. 6 C18",
  "note": "Trusted: Coq kernel, extraction (ExtrOcamlBasic), the Go harness and gorilla/websocket as transport; bufio in front of wsConn is covered by quantifying over all read-size sequences. Correspondence is differential testing bounded by the generator.",
  "technique": "Coq proof (induction over read sequences, stream-conservation invariant) + extracted-model differential check against the real wsConn"},
 {"property_id": "C02",
  "text": "Coq theorems: (a) packets.TopicMatch, transcribed as a fuelled two-cursor loop, equals MQTT 4.7 level matching on every well-formed (name, filter) pair and always terminates; (b) [when Proofs/SubTrieP.v is in the build] the trie store (three tries, indexes, counters) refines a flat map (client, share, filter) -> subscription for all histories: lookups by topic / exact filter / client return exactly the matching stored entries, each once, counters equal the number of live entries. Tied to the code by running mem.NewStore() and packets.TopicMatch against the extracted model on generated histories (all pairs of strings over a 6-letter alphabet up to length 3 for TopicMatch) and by evaluating the extracted spec-level oracle on the implementation's answers.",
  "design_ref": "DESIGN.md sec. 6 C02",
  "note": "Trusted: Coq kernel, extraction, Go harness, generator coverage. Node pointers in the indexes are modelled as paths. Redis wrapper not yet driven.",
  "technique": "Coq proof (refinement of the trie store to a flat map; loop-invariant proof of TopicMatch) + extracted-model differential check"},
 {"property_id": "C11",
  "text": "Same model and refinement as C02 for the shared-subscription trie: lookups on shared subscriptions return exactly the members of each (group, filter); UnsubscribeAll/Unsubscribe change only the leaver's own entries (frame property on the spec, refinement on the store). Differential check of mem.NewStore() against the extracted model on histories with several groups and one client in several groups. The choice of one member per group (flush/pick) is covered with the wire-level broker model when present.",
  "design_ref": "DESIGN.md sec. 6 C11",
  "note": "Partial: delivery to exactly one member per group (server.flush) is not yet modelled; store level only. Dollar topics vs wildcard shared filters: tolerated either way (not claimed).",
  "technique": "Coq proof (refinement of the shared trie to a flat map, frame lemma) + extracted-model differential check"},
 {"property_id": "C07",
  "text": "Coq theorems over an executable model of the retained-message trie: after any history the store equals the flat map topic -> last retained non-empty message (empty payload forgets), and GetMatchedMessages(filter) returns exactly the kept messages whose topic matches under MQTT 4.7 incl. the $ rule, each once. Tied to the code by running trie.NewStore() against the extracted model on generated histories and evaluating the spec-level oracle on the implementation's answers.",
  "design_ref": "DESIGN.md sec. 6 C07",
  "note": "Partial: the subscribe-time replay rules (Retain Handling, RETAIN flag, QoS min) live in server/client.go and are covered only once the wire-level broker model exists.",
  "technique": "Coq proof (refinement of the retained trie to a flat map, nested induction) + extracted-model differential check"},
 {"property_id": "C10",
  "text": "Executable Coq model of mem.Queue (list + cursor, drop ladder, notifier events) and an abstract queue written from the statement (queued list + in-flight table; checker for the ladder, FIFO, id assignment, expiry/size filtering, replay after Init, counters = contents, bound). Every check runs the real mem.Queue with a recording notifier and the extracted model on the same generated operation histories, compares outputs step by step, and runs the abstract checker on the implementation's outputs. Theorems (Proofs/QueueP.v when in the build): length bound, no panic, and refinement of the model to the abstract queue for all histories.",
  "design_ref": "DESIGN.md sec. 6 C10",
  "note": "Redis queue backend not covered yet. Blocking Read is observed through a probe hook, not by blocking. Time passes through VerifShift.",
  "technique": "Coq proof (simulation between list+cursor model and abstract queue) + extracted-model differential check + abstract-spec oracle on implementation traces"},
]

_claimed = {c["property_id"] for c in CHECKS}
NOT_APPLICABLE = [{"property_id": p, "reason": "check not built yet in this round (planned, see DESIGN.md sec. 10); not claimed until its theorem and correspondence run"} for p in _ALL if p not in _claimed]
