HOOK_COMMITS = ["3c28e2b"]

_ALL = ["C%02d" % i for i in range(1, 21)]

CHECKS = [
 {"property_id": "C18",
  "text": "Coq theorems over an executable model of wsConn.Read/Write: for every list of WebSocket messages and every sequence of read sizes the bytes handed out are exactly the concatenation of the binary payloads (nothing lost, duplicated, reordered), text messages are rejected, writes are one binary message each. The model is tied to the code on every run by running the real wsConn (over a real gorilla connection) and the extracted model on the same generated message/read-size sequences and comparing chunk-by-chunk; the extracted oracle of the theorem is evaluated on the implementation's trace.",
  "design_ref": "DESIGN.md sec. 6 C18",
  "note": "Trusted: Coq kernel, extraction (ExtrOcamlBasic), the Go harness and gorilla/websocket as transport; bufio in front of wsConn is covered by quantifying over all read-size sequences. Correspondence is differential testing bounded by the generator.",
  "technique": "Coq proof (induction over read sequences, stream-conservation invariant) + extracted-model differential check against the real wsConn"},
]

_claimed = {c["property_id"] for c in CHECKS}
NOT_APPLICABLE = [{"property_id": p, "reason": "check not built yet in this round (planned, see DESIGN.md sec. 10); not claimed until its theorem and correspondence run"} for p in _ALL if p not in _claimed]
