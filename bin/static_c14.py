#!/usr/bin/env python3
"""Static half of property C14 for bin/check (props.py: 'static': static_c14.static).

The theorems over Gen/HookKinds.v live in Props/C14s.v (the dynamic half keeps Props/C14.v):
this module compiles Props/C14s.v (full .vo, through the Makefile when the file is listed in
_CoqProject, else with coqc directly), counts one obligation per Theorem and discharges it when
its Print Assumptions block is "Closed under the global context".  It also checks that the
translator still understands the source and that theories/Gen/HookKinds.v is what it produces.

A `_refuted` theorem that still checks means the defect is still in the source: it is reported
as KNOWN-FINDING when known_findings.json has an open entry with "kf": "kf_onreauth_not_applied"
for property C14, and as a violation (replay file = the table row) otherwise.
"""
import os, re, json, subprocess, tempfile, shutil, fcntl
import vosync

GO = 'go1.26.8'


def sh(cmd, **kw):
    return subprocess.run(cmd, stdout=subprocess.PIPE, stderr=subprocess.STDOUT, text=True, **kw)


def goenv():
    return dict(os.environ, GOFLAGS='-mod=mod', GOPROXY='off', GOSUMDB='off', GOTOOLCHAIN='local', CGO_ENABLED='0')


def compile_props(ROOT):
    coq = os.path.join(ROOT, 'coq')
    rel = 'theories/Props/C14s.vo'
    os.makedirs(os.path.join(ROOT, '.work'), exist_ok=True)
    with open(os.path.join(ROOT, '.work', 'coq.lock'), 'w') as lk:
        fcntl.flock(lk, fcntl.LOCK_EX)
        try:
            vo = os.path.join(coq, rel)
            if os.path.exists(vo):
                os.remove(vo)
            listed = 'theories/Props/C14s.v' in open(os.path.join(coq, '_CoqProject')).read()
            # every .vo is tied to the text of its .v before make looks at time stamps (bin/vosync.py)
            st = vosync.pre(ROOT)
            try:
                if listed and os.path.exists(os.path.join(coq, 'Makefile')):
                    r = sh(['timeout', '1800', 'make', '-j8', rel], cwd=coq)
                else:
                    r = sh(['timeout', '900', 'coqc', '-Q', 'theories', 'GM', 'theories/Props/C14s.v'], cwd=coq)
            finally:
                vosync.post(ROOT, st)
            return r.returncode == 0, r.stdout
        finally:
            fcntl.flock(lk, fcntl.LOCK_UN)


def static(ROOT, REPO, tier):
    notes, violations, cov = [], [], {}
    os.makedirs(os.path.join(ROOT, 'replays'), exist_ok=True)
    # translator agrees with theories/Gen
    out = tempfile.mkdtemp(prefix='verifgen-')
    try:
        r = sh([GO, 'run', '.', '-repo', REPO, '-out', out, '-only', 'hooks'], cwd=os.path.join(ROOT, 'gen'), env=goenv(), timeout=600)
        if r.returncode != 0:
            rp = os.path.join(ROOT, 'replays', 'C14-translator.txt')
            open(rp, 'w').write('the hooks translator no longer understands initPluginHooks / HookWrapper / Hooks:\n' + r.stdout[-3000:])
            violations.append(('correspondence', rp, ' no-failing-input-found'))
        else:
            cov['translator_summary'] = [l for l in r.stdout.splitlines() if l.startswith('verifgen:')]
            cur = os.path.join(ROOT, 'coq', 'theories', 'Gen', 'HookKinds.v')
            if not os.path.exists(cur) or open(cur).read() != open(os.path.join(out, 'HookKinds.v')).read():
                notes.append('theories/Gen/HookKinds.v is missing or differs from what the translator produces now')
    finally:
        shutil.rmtree(out, ignore_errors=True)
    src = open(os.path.join(ROOT, 'coq', 'theories', 'Props', 'C14s.v')).read()
    names = re.findall(r'^\s*Theorem\s+(\w+)', src, re.M)
    printed = re.findall(r'^\s*Print Assumptions\s+(\w+)\s*\.', src, re.M)
    ok, log = compile_props(ROOT)
    closed = [l for l in log.splitlines() if l.startswith('Closed under the global context') or l.startswith('Axioms:')]
    discharged = 0
    failed = []
    for i, n in enumerate(names):
        if ok and n in printed and printed.index(n) < len(closed) and closed[printed.index(n)].startswith('Closed'):
            discharged += 1
        else:
            failed.append(n)
    if failed:
        rp = os.path.join(ROOT, 'replays', 'C14-static-proof.txt')
        open(rp, 'w').write('theorems of Props/C14s.v over the regenerated Gen/HookKinds.v that no longer check:\n  '
                            + '\n  '.join(failed) + '\n--- coq output (tail) ---\n' + log[-4000:])
        violations.append(('proof', rp, ' no-failing-input-found'))
    # table numbers
    tab = os.path.join(ROOT, 'coq', 'theories', 'Gen', 'HookKinds.v')
    full = re.findall(r'mk_hook_row "(\w+)" "(\w+)" (true|false) (true|false) (\w+) "(\w*)" "(\w*)" (true|false) "(\w*)" "(\w*)" "(\w*)"',
                      open(tab).read()) if os.path.exists(tab) else []
    rows = [r[:5] for r in full]
    not_applied = [r[0] for r in rows if r[3] == 'false']
    not_collected = [r[0] for r in rows if r[2] == 'false']
    # apply blocks whose shape is not "fold right-to-left over the field's own slice, from and to the hook of its kind"
    bad_order = []
    for (field, kind, coll, appl, d, base, store, nd, slc, bound, indexed) in full:
        if appl != 'true':
            continue
        why = []
        if d != 'Desc':
            why.append('the loop runs %s (the wrapper of the first plugin would be innermost)' % d)
        if bound != slc:
            why.append('the loop is bounded by len(%s) but the wrappers of this field are collected into %s' % (bound, slc))
        if indexed != slc:
            why.append('the loop body takes its wrappers from %s but the wrappers of this field are collected into %s' % (indexed, slc))
        if base != kind:
            why.append('the fold starts from srv.hooks.%s instead of srv.hooks.%s' % (base, kind))
        if store != kind:
            why.append('the result is stored to srv.hooks.%s instead of srv.hooks.%s' % (store, kind))
        if why:
            bad_order.append((field, kind, why))
    cov.update({'hook_wrapper_fields': len(rows), 'hook_kinds_not_applied': not_applied, 'hook_kinds_not_collected': not_collected,
                'hook_apply_loops_descending': len([r for r in rows if r[4] == 'Desc']),
                'hook_apply_blocks_with_wrong_shape': [b[0] for b in bad_order], 'static_theorems': names,
                'static_failed': failed, 'notes_static': notes})
    if bad_order:
        # the concrete failing "input" of the static half: the row of the apply block
        rp = os.path.join(ROOT, 'replays', 'C14-order.txt')
        with open(rp, 'w') as f:
            f.write('; property C14 (wrappers nest with the first plugin in plugin_order outermost; every wrapper is installed) fails on the source:\n')
            for (field, kind, why) in bad_order:
                f.write('; row %s (hook %s) of Gen/HookKinds.v: %s\n' % (field, kind, '; '.join(why)))
            f.write('; theorem C14_order of Props/C14s.v no longer checks (row_order_ok is false for the row)\n'
                    '; replay: plugins p1..pn in plugin_order that all set this wrapper, and a different number of plugins that set\n'
                    ';         the wrapper of the other slice: what initPluginHooks installs is not compose [w_p1; ...; w_pn] base\n')
        violations[:] = [v for v in violations if v[0] != 'proof'] + [('oracle', rp, '')]
    if not_applied or not_collected:
        # the concrete failing "input" of the static half: the HookWrapper field that is not installed
        try:
            ks = json.load(open(os.path.join(ROOT, 'known_findings.json')))['findings']
        except Exception:
            ks = []
        open_rows = set(k.get('row') for k in ks if k.get('property') == 'C14' and k.get('status', 'open') == 'open' and k.get('row'))
        unknown = [r for r in not_applied + not_collected if r not in open_rows]
        for k in ks:
            if k.get('property') == 'C14' and k.get('status', 'open') == 'open' and k.get('row') in not_applied + not_collected:
                print('KNOWN-FINDING: property=C14 %s' % k['what'])
        if unknown:
            rp = os.path.join(ROOT, 'replays', 'C14-installed.txt')
            open(rp, 'w').write('; property C14 (every hook wrapper a plugin exposes is installed) fails on the source:\n'
                                '; HookWrapper fields collected by initPluginHooks but never applied to srv.hooks: %s\n'
                                '; HookWrapper fields never collected: %s\n'
                                '; (rows of Gen/HookKinds.v; theorem C14_installed in Props/C14s.v no longer checks)\n'
                                '; replay: a plugin whose HookWrapper sets this field never sees the event\n'
                                % (', '.join(not_applied) or '-', ', '.join(not_collected) or '-'))
            # the proof break of C14_installed is explained by this row: report the row, not no-failing-input-found
            violations[:] = [v for v in violations if v[0] != 'proof'] + [('oracle', rp, '')]
    if full and len(full) != len(re.findall(r'mk_hook_row "', open(tab).read())):
        notes.append('some rows of Gen/HookKinds.v were not parsed by static_c14 (layout changed?)')
    return {'violations': violations, 'obligations': len(names), 'discharged': discharged, 'coverage': cov}


if __name__ == '__main__':
    ROOT = os.path.dirname(os.path.dirname(os.path.abspath(__file__)))
    print(json.dumps(static(ROOT, '/repo', 'quick'), indent=1))
