#!/usr/bin/env python3
"""Tie every compiled .vo to the text of the .v it was compiled from.

`make` decides by modification time.  A .vo can be newer than its .v and still have been compiled from a different
text: /repo was patched and restored while a check was running (the translators rewrote theories/Gen/*.v twice), a
killed build left a coqc that finished later, a snapshot of the file system was restored half way.  The extracted
model and the proof obligations would then silently describe a tree that is not /repo's current one.

So, under the coq lock, around every `make`:
  pre():  a .vo is kept only when .work/vo_records.json holds, for it, the sha256 of the current .v AND the sha256
          of the .vo itself; any other .vo (and its .vos/.vok/.glob) is deleted, so that make rebuilds it and
          everything that depends on it.  No record file (fresh restore of an older snapshot): everything is rebuilt.
  post(): records are written for the .vo files that exist now, from the source hashes taken BEFORE make ran; a .v
          whose text changed while make ran gets no record (and its .vo is deleted).
"""
import os, json, hashlib


def _sha(p):
    h = hashlib.sha256()
    with open(p, 'rb') as f:
        h.update(f.read())
    return h.hexdigest()


def _vfiles(coq):
    out = []
    for r, _, fs in os.walk(os.path.join(coq, 'theories')):
        for f in fs:
            if f.endswith('.v'):
                out.append(os.path.join(r, f))
    return sorted(out)


def _recfile(root):
    return os.path.join(root, '.work', 'vo_records.json')


def _load(root):
    try:
        with open(_recfile(root)) as f:
            d = json.load(f)
        return d if isinstance(d, dict) else {}
    except Exception:
        return {}


def _save(root, rec):
    os.makedirs(os.path.join(root, '.work'), exist_ok=True)
    tmp = _recfile(root) + '.tmp'
    with open(tmp, 'w') as f:
        json.dump(rec, f, indent=0, sort_keys=True)
    os.replace(tmp, _recfile(root))


def _drop(v):
    base = v[:-2]
    d, b = os.path.dirname(base), os.path.basename(base)
    for p in (base + '.vo', base + '.vos', base + '.vok', base + '.glob', os.path.join(d, '.' + b + '.aux')):
        if os.path.exists(p):
            os.remove(p)


def pre(root):
    """call with the coq lock held, before make; returns the state post() needs"""
    coq = os.path.join(root, 'coq')
    rec = _load(root)
    src = {}
    dropped = []
    for v in _vfiles(coq):
        rel = os.path.relpath(v, coq)
        s = _sha(v)
        src[rel] = s
        vo = v + 'o'
        if os.path.exists(vo):
            r = rec.get(rel)
            if not (isinstance(r, list) and len(r) == 2 and r[0] == s and r[1] == _sha(vo)):
                _drop(v)
                dropped.append(rel)
    # records of files that are gone or were dropped must not survive a make that fails or is killed
    rec = {k: r for k, r in rec.items() if k in src and k not in dropped and os.path.exists(os.path.join(coq, k + 'o'))}
    _save(root, rec)
    return {'src': src, 'dropped': dropped}


def post(root, state):
    """call with the coq lock still held, after make (whether it succeeded or not)"""
    coq = os.path.join(root, 'coq')
    rec = {}
    for rel, s in state['src'].items():
        v = os.path.join(coq, rel)
        vo = v + 'o'
        if not os.path.exists(vo) or not os.path.exists(v):
            continue
        if _sha(v) != s:
            _drop(v)          # the source changed while make ran: nothing is known about this .vo
            continue
        rec[rel] = [s, _sha(vo)]
    _save(root, rec)
