#!/usr/bin/env python3
"""Static + stress half of property C15 for bin/check (props.py: 'static': static_c15.static).

static(ROOT, REPO, tier) ->
  {'violations': [(kind, replay_path, tail)], 'obligations': n, 'discharged': n, 'coverage': {...}}

What it does
  1. runs the translators into a scratch directory (they must succeed on the current /repo, and
     what they produce must be what theories/Gen holds - bin/check has regenerated it just before)
     and reads the coverage numbers of Gen/LockOrder.v;
  2. builds /verif/stress with the race detector (falls back to a plain build when -race cannot
     be built) and runs
        quick    : the random stress (persistent sessions; clean sessions only) ~6 s each and the
                   eight probes, in parallel (about 20 s wall);
        thorough : more seeds, more clients, 60 s runs, delivery_mode=overlap as well;
  3. turns every `STRESS FAIL` into a violation ('oracle', replay file, '') unless an OPEN entry
     of known_findings.json (property C15) matches it through its "stress" key
        {"mode": "probe:<name>", "kind": "leak", "match": "<optional regex on the detail>"}
     in which case `KNOWN-FINDING: property=C15 <what>` is printed instead.
No finding of C15 is open at present: every probe guards a repaired defect (a regression is a violation).
The theorems of Props/C15.v are counted by bin/check itself (proof_obligations); this module adds
no proof obligations of its own.

Replay:  python3 bin/static_c15.py --replay replays/C15-stress-....txt
"""
import os, sys, re, json, subprocess, tempfile, time, shutil
from concurrent.futures import ThreadPoolExecutor

GO = 'go1.26.8'
PROBES = ['flood-after-disconnect', 'stop-during-connect', 'stop-vs-late-connect', 'stop-vs-inflight-accept', 'once-deadlock', 'same-id-storm', 'slow-subscriber', 'overlap-lock-cycle', 'stop-waits-teardown', 'terminate-vs-reconnect']


def goenv(cgo):
    return dict(os.environ, GOFLAGS='-mod=mod', GOPROXY='off', GOSUMDB='off', GOTOOLCHAIN='local', CGO_ENABLED='1' if cgo else '0')


def sh(cmd, **kw):
    return subprocess.run(cmd, stdout=subprocess.PIPE, stderr=subprocess.STDOUT, text=True, **kw)


def run_translators(ROOT, REPO, notes):
    """translators must succeed on the current source and agree with theories/Gen"""
    gen = os.path.join(ROOT, 'gen')
    out = tempfile.mkdtemp(prefix='verifgen-')
    try:
        r = sh([GO, 'run', '.', '-repo', REPO, '-out', out], cwd=gen, env=goenv(False), timeout=600)
        if r.returncode != 0:
            return False, r.stdout[-3000:], {}
        info = {'translator_summary': [l for l in r.stdout.splitlines() if l.startswith('verifgen:')]}
        for f in ('LockOrder.v', 'HookKinds.v', 'Consts.v', 'StopOrder.v'):
            cur = os.path.join(ROOT, 'coq', 'theories', 'Gen', f)
            if not os.path.exists(cur):
                notes.append('theories/Gen/%s is missing (gen/READY not set?)' % f)
            elif open(cur).read() != open(os.path.join(out, f)).read():
                notes.append('theories/Gen/%s differs from what the translator produces now: the proofs were checked against a stale table' % f)
        return True, r.stdout, info
    finally:
        shutil.rmtree(out, ignore_errors=True)


def table_counts(ROOT):
    p = os.path.join(ROOT, 'coq', 'theories', 'Gen', 'LockOrder.v')
    cov = {}
    if not os.path.exists(p):
        return cov
    txt = open(p).read()

    def block(name):
        m = re.search(r'Definition %s\b.*?:=\s*\[(.*?)\n\]\.' % name, txt, re.S)
        return m.group(1) if m else ''
    cov['lock_functions_parsed'] = int((re.search(r'n_functions : nat := (\d+)', txt) or [0, 0])[1])
    cov['lock_acquisitions'] = int((re.search(r'n_acquisitions : nat := (\d+)', txt) or [0, 0])[1])
    cov['lock_call_events'] = int((re.search(r'n_call_events : nat := (\d+)', txt) or [0, 0])[1])
    cov['lock_classes'] = len(re.findall(r'^\s+"', block('lock_classes'), re.M))
    cov['lock_edges'] = len(re.findall(r'^\s+\("', block('lock_edges'), re.M))
    cov['blocking_under_lock_pairs'] = len(re.findall(r'^\s+\("', block('blocking_under_lock'), re.M))
    cov['dyncalls_under_lock_pairs'] = len(re.findall(r'^\s+\("', block('dyncalls_under_lock'), re.M))
    cov['guarded_call_sites_checked'] = len(re.findall(r'mk_guarded_call ', block('guarded_calls')))
    return cov


STOP_REQUIRED = [
    ('SDeferCloseExited', 'SExit', 'the deferred close(exitedChan) must be registered first'),
    ('SExit', 'SSnapshotCloseClients', 'exit() must precede the snapshot of srv.clients'),
    ('SCloseListeners', 'SSnapshotCloseClients', 'the TCP listeners must be closed before the snapshot of srv.clients: a client accepted and registered in between is never closed nor waited for'),
    ('SShutdownWebsockets', 'SSnapshotCloseClients', 'the websocket servers must be shut down before the snapshot of srv.clients: a client accepted and registered in between is never closed nor waited for'),
    ('SLock', 'SSnapshotCloseClients', 'the snapshot must be taken under srv.mu'),
    ('SSnapshotCloseClients', 'SUnlock', 'the snapshot must be taken under srv.mu'),
    ('SExit', 'SSnapshotCloseConnecting', 'exit() must precede the snapshot of srv.connecting'),
    ('SCloseListeners', 'SSnapshotCloseConnecting', 'the TCP listeners must be closed before the snapshot of srv.connecting: a connection accepted in between is never closed nor waited for'),
    ('SShutdownWebsockets', 'SSnapshotCloseConnecting', 'the websocket servers must be shut down before the snapshot of srv.connecting'),
    ('SLock', 'SSnapshotCloseConnecting', 'the snapshot must be taken under srv.mu'),
    ('SSnapshotCloseConnecting', 'SUnlock', 'the snapshot must be taken under srv.mu'),
    ('SUnlock', 'SStartWaiter', 'the wait must be outside srv.mu'),
    ('SStartWaiter', 'SWait', 'the waiter must be started before the select'),
    ('SUnlock', 'SWait', 'the wait must be outside srv.mu'),
    ('SWait', 'SUnload', 'plugins are unloaded after all remembered connections are closed'),
    ('SUnload', 'SOnStop', 'OnStop comes after Unload'),
]
STOP_OPS = ['SDeferCloseExited', 'SExit', 'SCloseListeners', 'SShutdownWebsockets', 'SLock', 'SSnapshotCloseClients', 'SSnapshotCloseConnecting',
            'SUnlock', 'SStartWaiter', 'SWait', 'SUnload', 'SOnStop']


def stop_order_check(ROOT):
    """mirror of theorem C15_stop_order (Proofs/StopLifeP.v: required_order) over Gen/StopOrder.v;
    returns (sequence, list of broken requirements)"""
    p = os.path.join(ROOT, 'coq', 'theories', 'Gen', 'StopOrder.v')
    if not os.path.exists(p):
        return None, ['theories/Gen/StopOrder.v is missing']
    m = re.search(r'Definition stop_ops : list stop_op := \[(.*?)\n\]\.', open(p).read(), re.S)
    if not m:
        return None, ['stop_ops not found in Gen/StopOrder.v']
    seq = re.findall(r'^\s+(S\w+)', m.group(1), re.M)
    broken = []
    for o in STOP_OPS:
        if seq.count(o) != 1:
            broken.append('%s occurs %d times in the body of stopOnce.Do (want exactly once)' % (o, seq.count(o)))
    for (a, b, why) in STOP_REQUIRED:
        if a in seq and b in seq and not seq.index(a) < seq.index(b):
            broken.append('%s comes after %s: %s' % (a, b, why))
    return seq, broken


def build_stress(ROOT, notes):
    st = os.path.join(ROOT, 'stress')
    work = os.path.join(ROOT, '.work')
    os.makedirs(work, exist_ok=True)
    shutil.copy('/repo/go.sum', os.path.join(st, 'go.sum'))
    exe = os.path.join(work, 'stress')
    r = sh([GO, 'build', '-race', '-tags', 'verif', '-o', exe, '.'], cwd=st, env=goenv(True), timeout=1800)
    if r.returncode == 0:
        return exe, True, ''
    notes.append('stress: -race build failed, falling back to a build without the race detector: ' + r.stdout[-400:].replace('\n', ' | '))
    r2 = sh([GO, 'build', '-tags', 'verif', '-o', exe, '.'], cwd=st, env=goenv(False), timeout=1800)
    if r2.returncode == 0:
        return exe, False, ''
    return None, False, r.stdout[-2000:] + '\n' + r2.stdout[-2000:]


def run_one(exe, args, ROOT, name):
    os.makedirs(os.path.join(ROOT, 'replays'), exist_ok=True)
    report = os.path.join(ROOT, '.work', 'stress-%s.report' % name)
    t0 = time.time()
    try:
        r = sh([exe] + args + ['-report', report], timeout=1200)
        out = r.stdout
    except subprocess.TimeoutExpired:
        out = 'STRESS FAIL kind=watchdog detail=stress process did not finish within 1200s'
    line = ''
    for l in out.splitlines():
        if l.startswith('STRESS '):
            line = l
    if not line:
        line = 'STRESS FAIL kind=panic detail=no result line: ' + out[-300:].replace('\n', ' | ')
    return {'name': name, 'args': args, 'line': line, 'report': report, 'wall_s': round(time.time() - t0, 1)}


def parse_line(line):
    d = {'ok': line.startswith('STRESS ok')}
    for k in ('kind', 'mode', 'seed', 'requests', 'maxlatency_ms', 'sessions', 'stop_ms'):
        m = re.search(r'\b%s=(\S+)' % k, line)
        if m:
            d[k] = m.group(1)
    m = re.search(r'detail=(.*)$', line)
    d['detail'] = m.group(1) if m else ''
    return d


def load_known(ROOT):
    try:
        ks = json.load(open(os.path.join(ROOT, 'known_findings.json')))['findings']
    except Exception:
        return []
    return [k for k in ks if k.get('property') == 'C15' and k.get('status', 'open') == 'open' and isinstance(k.get('stress'), dict)]


def matches(k, d):
    s = k['stress']
    if s.get('mode') and s['mode'] != d.get('mode'):
        return False
    if s.get('kind') and s['kind'] != d.get('kind'):
        return False
    if s.get('match') and not re.search(s['match'], d.get('detail', '')):
        return False
    return True


def plan(tier, seed):
    runs = []
    if tier == 'quick':
        runs.append(('stress-persist-%d' % seed, ['-seed', str(seed), '-rounds', '40', '-clients', '8', '-seconds', '6']))
        runs.append(('stress-clean-%d' % seed, ['-seed', str(seed), '-rounds', '40', '-clients', '8', '-seconds', '6', '-persist=false']))
        for p in PROBES:
            runs.append(('probe-%s' % p, ['-seed', str(seed), '-probe', p, '-seconds', '6']))
    else:
        for i in range(3):
            s = seed + i
            runs.append(('stress-persist-%d' % s, ['-seed', str(s), '-rounds', '400', '-clients', '32', '-seconds', '60']))
            runs.append(('stress-clean-%d' % s, ['-seed', str(s), '-rounds', '400', '-clients', '32', '-seconds', '60', '-persist=false']))
        runs.append(('stress-clean-smallpool-%d' % seed, ['-seed', str(seed), '-rounds', '400', '-clients', '32', '-seconds', '60', '-persist=false', '-idpool', '4']))
        runs.append(('stress-overlap-%d' % seed, ['-seed', str(seed), '-rounds', '400', '-clients', '32', '-seconds', '60', '-persist=false', '-delivery', 'overlap']))
        for p in PROBES:
            runs.append(('probe-%s' % p, ['-seed', str(seed), '-probe', p, '-seconds', '30']))
    return runs


def static(ROOT, REPO, tier):
    notes, violations = [], []
    cov = {}
    os.makedirs(os.path.join(ROOT, 'replays'), exist_ok=True)
    seed = int(os.environ.get('VERIF_SEED', '1') or '1')
    ok, out, info = run_translators(ROOT, REPO, notes)
    cov.update(info)
    if not ok:
        rp = os.path.join(ROOT, 'replays', 'C15-translator.txt')
        os.makedirs(os.path.dirname(rp), exist_ok=True)
        open(rp, 'w').write('the translators no longer understand the source (the tables of theories/Gen cannot be regenerated):\n' + out)
        violations.append(('correspondence', rp, ' no-failing-input-found'))
    cov.update(table_counts(ROOT))
    seq, broken = stop_order_check(ROOT)
    cov['stop_order'] = seq
    if broken:
        # The order theorem no longer checks. Since registration and recording of a connection check exitChan
        # themselves (repairs 1d02d65, 9fa9d46), a different order need not break the property: whether a run
        # really fails is decided by the stress probes below (each failing run is reported as its own violation
        # with its replay); the broken obligation alone is reported without a failing input.
        rp = os.path.join(ROOT, 'replays', 'C15-stop-order.txt')
        with open(rp, 'w') as f:
            f.write('; property C15 (Stop returns after closing all listeners and connections ...) fails on the source:\n')
            f.write('; order of the operations in the body of stopOnce.Do (Gen/StopOrder.v): %s\n' % ' '.join(seq or []))
            for b in broken:
                f.write('; offending order: %s\n' % b)
            f.write('; theorem C15_stop_order of Props/C15.v no longer checks: the Stop theorems of Props/C15.v are about a model whose order is no longer the order of the source\n'
                    '; related probes: stress -probe stop-vs-late-connect, stop-vs-inflight-accept, stop-during-connect\n')
        violations.append(('proof', rp, ' no-failing-input-found'))
    exe, race, err = build_stress(ROOT, notes)
    cov['stress_race_detector'] = race
    if exe is None:
        rp = os.path.join(ROOT, 'replays', 'C15-stress-build.txt')
        open(rp, 'w').write('the stress harness does not build against /repo:\n' + err)
        violations.append(('correspondence', rp, ' no-failing-input-found'))
        return {'violations': violations, 'obligations': 0, 'discharged': 0, 'coverage': dict(cov, notes_static=notes)}
    runs = plan(tier, seed)
    workers = 4 if tier == 'quick' else 3
    with ThreadPoolExecutor(max_workers=workers) as ex:
        results = list(ex.map(lambda r: run_one(exe, r[1], ROOT, r[0]), runs))
    known = load_known(ROOT)
    seen = set()
    total_req, maxlat = 0, 0.0
    summary = []
    for res in results:
        d = parse_line(res['line'])
        summary.append({'run': res['name'], 'wall_s': res['wall_s'], 'result': res['line'][:400]})
        if d['ok']:
            total_req += int(d.get('requests', '0') or 0)
            try:
                maxlat = max(maxlat, float(d.get('maxlatency_ms', '0')))
            except ValueError:
                pass
            continue
        k = next((k for k in known if matches(k, d)), None)
        if k is not None:
            if k['kf'] not in seen:
                seen.add(k['kf'])
                print('KNOWN-FINDING: property=C15 %s' % k['what'])
            continue
        rp = os.path.join(ROOT, 'replays', 'C15-%s.txt' % res['name'])
        with open(rp, 'w') as f:
            f.write('; property C15 fails on the implementation: %s\n' % res['line'])
            f.write('; replay: python3 bin/static_c15.py --replay %s\n' % rp)
            f.write('args: %s\n' % ' '.join(res['args']))
            f.write('race_detector: %s\n' % race)
            try:
                f.write('--- captured report ---\n' + open(res['report']).read()[-60000:])
            except OSError:
                pass
        violations.append(('oracle', rp, ''))
    cov.update({'stress_runs': len(results), 'stress_requests': total_req, 'stress_max_latency_ms': maxlat,
                'stress_results': summary, 'stress_known_findings_reported': sorted(seen), 'notes_static': notes})
    return {'violations': violations, 'obligations': 0, 'discharged': 0, 'coverage': cov}


def probes_only(pid, names):
    """static callable for another property (C05): build the stress harness and run the named schedule probes only;
    a failing probe is a violation of `pid` with the probe's report as replay (replayed with bin/static_c15.py --replay)"""
    def run(ROOT, REPO, tier):
        notes, violations, cov = [], [], {}
        seed = int(os.environ.get('VERIF_SEED', '1') or '1')
        exe, race, err = build_stress(ROOT, notes)
        cov['stress_race_detector'] = race
        if exe is None:
            rp = os.path.join(ROOT, 'replays', '%s-stress-build.txt' % pid)
            os.makedirs(os.path.dirname(rp), exist_ok=True)
            open(rp, 'w').write('the stress harness does not build against /repo:\n' + err)
            violations.append(('correspondence', rp, ' no-failing-input-found'))
            return {'violations': violations, 'obligations': 0, 'discharged': 0, 'coverage': dict(cov, notes_static=notes)}
        reps = 1 if tier == 'quick' else 5
        runs = [('%s-probe-%s-%d' % (pid, n, seed + i), ['-seed', str(seed + i), '-probe', n, '-seconds', '6' if tier == 'quick' else '30'])
                for n in names for i in range(reps)]
        with ThreadPoolExecutor(max_workers=2) as ex:
            results = list(ex.map(lambda r: run_one(exe, r[1], ROOT, r[0]), runs))
        summary = []
        for res in results:
            d = parse_line(res['line'])
            summary.append({'run': res['name'], 'wall_s': res['wall_s'], 'result': res['line'][:400]})
            if d['ok']:
                continue
            rp = os.path.join(ROOT, 'replays', '%s.txt' % res['name'])
            with open(rp, 'w') as f:
                f.write('; property %s fails on the implementation under this schedule: %s\n' % (pid, res['line']))
                f.write('; replay: python3 bin/static_c15.py --replay %s\n' % rp)
                f.write('args: %s\n' % ' '.join(res['args']))
                try:
                    f.write('--- captured report ---\n' + open(res['report']).read()[-60000:])
                except OSError:
                    pass
            violations.append(('oracle', rp, ''))
        cov.update({'schedule_probes': summary, 'notes_static': notes})
        return {'violations': violations, 'obligations': 0, 'discharged': 0, 'coverage': cov}
    return run


def replay(path):
    ROOT = os.path.dirname(os.path.dirname(os.path.abspath(__file__)))
    args = None
    for l in open(path):
        if l.startswith('args: '):
            args = l[len('args: '):].split()
    if args is None:
        print('no "args:" line in', path)
        return 2
    notes = []
    exe, race, err = build_stress(ROOT, notes)
    if exe is None:
        print(err)
        return 2
    res = run_one(exe, args, ROOT, 'replay')
    print(res['line'])
    print('race detector: %s; full report: %s' % (race, res['report']))
    return 0 if res['line'].startswith('STRESS ok') else 1


if __name__ == '__main__':
    if len(sys.argv) == 3 and sys.argv[1] == '--replay':
        sys.exit(replay(sys.argv[2]))
    ROOT = os.path.dirname(os.path.dirname(os.path.abspath(__file__)))
    tier = sys.argv[1] if len(sys.argv) > 1 else 'quick'
    r = static(ROOT, '/repo', tier)
    print(json.dumps(r, indent=1)[:6000])
