#!/usr/bin/env python3
"""writes MANIFEST.json from bin/manifest_data.py (kept in one place so it stays valid)"""
import json, os, sys
ROOT = os.path.dirname(os.path.dirname(os.path.abspath(__file__)))
sys.path.insert(0, os.path.join(ROOT, 'bin'))
from manifest_data import CHECKS, NOT_APPLICABLE, HOOK_COMMITS
man = {
 "version": 1,
 "setup_cmd": "bin/check build",
 "hooks": {
  "guard": "verif",
  "enable": "go1.26.8 build -tags verif (GOTOOLCHAIN=local GOFLAGS=-mod=mod GOPROXY=off GOSUMDB=off); hook files are add-only //go:build verif files",
  "baseline_off_cmd": "cd /repo && GOFLAGS=-mod=mod GOPROXY=off go test -json -vet=off -count=1 -timeout 25m ./...",
  "source_commits": HOOK_COMMITS,
  "add_only": True
 },
 "engines": [
  {"name": "coq", "path": "coq/", "serves_properties": [c["property_id"] for c in CHECKS],
   "kind_free_text": "Coq 8.16.1 development: executable Gallina models (theories/Model), proofs (theories/Proofs), property theorems (theories/Props), oracles (theories/Oracle); extracted to OCaml and run against the Go implementation by harness/ on every check"}
 ],
 "checks": [],
 "not_applicable": NOT_APPLICABLE,
 "notes": "bin/check <id> quick|thorough: regenerates translator tables, rebuilds the property's theorems (full .vo), re-extracts the model, rebuilds the Go harness from /repo's working tree with -tags verif, runs corpus + generated cases on implementation and model, compares observables and evaluates the extracted property oracle on the implementation's traces. known_findings.json lists recorded findings and fixes."
}
for c in CHECKS:
    pid = c["property_id"]
    man["checks"].append({
        "property_id": pid,
        "quick_cmd": "bin/check %s quick" % pid,
        "thorough_cmd": "bin/check %s thorough" % pid,
        "evidence_file": "evidence/%s.json" % pid,
        "replay_cmd_template": "bin/check %s --replay {path}" % pid,
        "engine": "coq",
        "level_claimed": {"category": "proof", "text": c["text"], "design_ref": c["design_ref"]},
        "level_note": c["note"],
        "technique": c["technique"],
    })
json.dump(man, open(os.path.join(ROOT, 'MANIFEST.json'), 'w'), indent=1)
print("wrote MANIFEST.json with %d checks, %d not_applicable" % (len(man["checks"]), len(NOT_APPLICABLE)))
