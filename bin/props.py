"""Per-property configuration of bin/check."""

TRUSTED_BASE = [
    'Coq 8.16.1 kernel (coqc; coqchk in the thorough tier); vm_compute for computed obligations; no native_compute',
    'no axioms declared by the development (grep for Axiom/Parameter/Admitted/... is part of every check)',
    'extraction: ExtrOcamlBasic only (Extract Inductive bool/option/unit/list/prod/sumbool, Extract Inlined Constant andb/orb); nat/N/Z/positive stay inductive; OCaml 4.13.1; ocaml/*.ml driver',
    'correspondence harness (Go, /verif/harness) and its generators: differential testing, bounded by generator coverage',
    'Go runtime, net, bufio, gorilla/websocket, redigo, grpc, serf: modelled or used as is, not verified',
]

PROPS = {
    'C18': {
        'suites': [('c18', 400, 20000)],
        'rule': 'c18: random lists of 0-5 websocket messages (sizes around 0/1/1023/1024/1025/2048, 4% text) x random read-size sequences '
                '(bufio-like 1024, mixed, tiny); non-trivial = total payload > 0, more than one read, and some read size strictly inside a message; '
                'distinct = distinct case inputs',
        'assumptions': ['gorilla/websocket delivers the messages the client sent, in order (it is the transport under test, not modelled further)',
                        'bufio.Reader in front of wsConn only issues Read calls of some sizes: the theorem quantifies over all size sequences'],
        'trusted': ['server/verif_hooks.go: VerifNewWsConn builds the wsConn exactly as wsHandler does'],
    },
}
