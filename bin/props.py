"""Per-property configuration of bin/check."""

TRUSTED_BASE = [
    'Coq 8.16.1 kernel (coqc; coqchk in the thorough tier); vm_compute for computed obligations; no native_compute',
    'no axioms declared by the development (grep for Axiom/Parameter/Admitted/... is part of every check)',
    'extraction: ExtrOcamlBasic only (Extract Inductive bool/option/unit/list/prod/sumbool, Extract Inlined Constant andb/orb); nat/N/Z/positive stay inductive; OCaml 4.13.1; ocaml/*.ml driver',
    'correspondence harness (Go, /verif/harness) and its generators: differential testing, bounded by generator coverage',
    'Go runtime, net, bufio, gorilla/websocket, redigo, grpc, serf: modelled or used as is, not verified',
]

PROPS = {
    'C18': {
        'suites': [('c18', 400, 20000)],
        'rule': 'c18: random lists of 0-5 websocket messages (sizes around 0/1/1023/1024/1025/2048, 4% text) x random read-size sequences '
                '(bufio-like 1024, mixed, tiny); non-trivial = total payload > 0, more than one read, and some read size strictly inside a message; '
                'distinct = distinct case inputs',
        'assumptions': ['gorilla/websocket delivers the messages the client sent, in order (it is the transport under test, not modelled further)',
                        'bufio.Reader in front of wsConn only issues Read calls of some sizes: the theorem quantifies over all size sequences'],
        'trusted': ['server/verif_hooks.go: VerifNewWsConn builds the wsConn exactly as wsHandler does'],
    },
    'C02': {
        'suites': [('sub', 1500, 60000), ('tm', 72000, 400000)],
        'rule': 'sub: random histories (0-30 ops) of Subscribe/Unsubscribe/UnsubscribeAll by 3 clients over a pool of 2-8 filters built from levels {a,b,"",+,$s,ab,#} '
                '(shared and non-shared, near-legal filters 3%), then ~30 lookups (by topic, by exact filter, by client, all type masks) + GetStats/GetClientStats; '
                'non-trivial = >=3 ops and at least one lookup returns an entry. tm: all pairs of strings over {a,b,/,+,#,$} up to length 3 (67081 pairs) + random structured pairs; '
                'non-trivial = both strings well-formed (name, filter). distinct = distinct case inputs',
        'assumptions': ['node pointers held in the indexes are modelled as paths into the trie (pointer identity is what the differential run checks)',
                        'share names contain no "/" and client ids are non-empty (wf_ops): what the broker passes to the store'],
        'trusted': [],
    },
    'C11': {
        'suites': [('subsh', 1500, 60000)],
        'rule': 'subsh: same generator as sub (40% of subscriptions shared, 2 groups, 3 clients incl. one client in several groups on one filter); '
                'oracle on the purely-shared and mixed lookups; non-trivial = >=3 ops and at least one lookup returns an entry',
        'assumptions': ['share names contain no "/" (wf_ops)'],
        'trusted': [],
    },
    'C07': {
        'suites': [('ret', 1500, 60000)],
        'rule': 'ret: random histories (0-25 ops) of AddOrReplace/Remove/ClearAll over a pool of 2-8 topics built from levels {a,b,"",$s,ab} (prefix-related, $ topics), '
                'then lookups: GetMatchedMessages for ~10 filters of every shape, GetRetainedMessage, Iterate; non-trivial = >=3 ops and a non-empty answer',
        'assumptions': ['messages are compared field by field (all Message fields)'],
        'trusted': [],
    },
    'C10': {
        'suites': [('queue', 1500, 60000)],
        'rule': 'queue: random interleavings (3-40 ops + drain epilogue) of Add/Read(ids)/ReadInflight(n)/Remove/Replace/Init(clean or not)/Close/clock-shift on mem.Queue '
                'with capacities 1-6, QoS mix, expiry none/past/+1h/+3h, clock shifts of 2h, read limits 30/40/1000 bytes, in-flight expiry 0 or 30 min; '
                'non-trivial = at least one Read returned something and (a drop at Add or a non-empty in-flight replay) occurred',
        'assumptions': ['time passes only through the verif hook VerifShift (timestamps are hours apart, scheduling jitter is irrelevant)',
                        'redis queue backend: not covered by this check yet'],
        'trusted': ['persistence/queue/mem/verif_hooks.go (VerifShift, VerifReadWouldBlock, VerifDrained)'],
    },
    'C03': {
        'suites': [('lim', 2000, 100000)],
        'rule': 'lim: random histories of poll/release/batchRelease/markUsed/close on the real packetIDLimiter (limits 1..65535, forced wrap 65535->1 by presetting the cursor); '
                'non-trivial = a poll returned ids and (a poll blocked or the ids wrapped)',
        'assumptions': ['markUsed is only called for ids that are not in use (what pollInflights does)'],
        'trusted': ['server/verif_hooks.go: VerifLimiter'],
    },
    'C04': {
        'suites': [('unack', 2000, 100000)],
        'rule': 'unack: random histories of Init/Set/Remove on the mem unack store; non-trivial = a duplicate was reported',
        'assumptions': [], 'trusted': [],
    },
    'C13': {
        'suites': [('alias', 2000, 100000)],
        'rule': 'alias: topic sequences over a pool of 1-8 topics against the fifo alias manager with maxima 0,1,2,3,5,65535; non-trivial = an alias was reused and an eviction happened',
        'assumptions': [], 'trusted': [],
    },
}
