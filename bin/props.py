import os, sys
sys.path.insert(0, os.path.dirname(os.path.abspath(__file__)))
import static_c15, static_c14
"""Per-property configuration of bin/check."""

TRUSTED_BASE = [
    'Coq 8.16.1 kernel (coqc; coqchk in the thorough tier); vm_compute for computed obligations; no native_compute',
    'no axioms declared by the development (grep for Axiom/Parameter/Admitted/... is part of every check)',
    'extraction: ExtrOcamlBasic only (Extract Inductive bool/option/unit/list/prod/sumbool, Extract Inlined Constant andb/orb); nat/N/Z/positive stay inductive; OCaml 4.13.1; ocaml/*.ml driver',
    'build machinery: coq_makefile + make (full .vo), bin/vosync.py (each .vo tied by sha256 to the text of its .v, rebuilt otherwise), model stamp over sources and loaded .vo',
    'correspondence harness (Go, /verif/harness) and its generators: differential testing, bounded by generator coverage',
    'Go runtime, net, bufio, gorilla/websocket, redigo, grpc, serf: modelled or used as is, not verified',
]

PROPS = {
    'C18': {
        'suites': [('c18', 400, 20000), ('c18w', 120, 1500)],
        'rule': 'c18: random lists of 0-5 websocket messages (sizes around 0/1/1023/1024/1025/2048, 4% text) x random read-size sequences '
                '(bufio-like 1024, mixed, tiny); non-trivial = total payload > 0, more than one read, and some read size strictly inside a message; '
                'distinct = distinct case inputs. c18w (wire level): one MQTT byte stream (CONNECT, SUBSCRIBE, 1-12 QoS 1 PUBLISH of 0-1500 bytes to the own subscription, PINGREQ; 3.1 / 3.1.1 / 5; '
                'configured max_packet_size default or 2048 / 4096 / 65536) sent to one in-process broker over TCP in one write and over its WebSocket listener cut into binary messages (all in one, one byte each, 1024-byte messages, '
                'random cuts incl. empty messages); the answers (CONNACK, SUBACK, PUBACKs, PINGRESP, forwarded PUBLISH count) must be the same',
        'assumptions': ['gorilla/websocket delivers the messages the client sent, in order (it is the transport under test, not modelled further)',
                        'bufio.Reader in front of wsConn only issues Read calls of some sizes: the theorem quantifies over all size sequences'],
        'trusted': ['server/verif_hooks.go: VerifNewWsConn builds the wsConn exactly as wsHandler does'],
    },
    'C02': {
        'suites': [('sub', 1500, 60000), ('tm', 72000, 400000)],
        'rule': 'sub: random histories (0-30 ops) of Subscribe/Unsubscribe/UnsubscribeAll by 3 clients over a pool of 2-8 filters built from levels {a,b,"",+,$s,ab,#} '
                '(shared and non-shared, near-legal filters 3%), then ~30 lookups (by topic, by exact filter, by client, all type masks) + GetStats/GetClientStats; '
                'non-trivial = >=3 ops and at least one lookup returns an entry. tm: all pairs of strings over {a,b,/,+,#,$} up to length 3 (67081 pairs) + random structured pairs; '
                'non-trivial = both strings well-formed (name, filter). distinct = distinct case inputs',
        'assumptions': ['node pointers held in the indexes are modelled as paths into the trie (pointer identity is what the differential run checks)',
                        'share names contain no "/" and client ids are non-empty (wf_ops): what the broker passes to the store'],
        'trusted': [],
    },
    'C11': {
        'props': ['C11', 'C11w'], 'suites': [('subsh', 1500, 60000), ('w_c11', 150, 5500)],
        'rule': 'subsh: same generator as sub (40% of subscriptions shared, 2 groups, 3 clients incl. one client in several groups on one filter); '
                'oracle on the purely-shared and mixed lookups; non-trivial = >=3 ops and at least one lookup returns an entry',
        'assumptions': ['share names contain no "/" (wf_ops)'],
        'trusted': [],
    },
    'C07': {
        'props': ['C07', 'C07w'], 'suites': [('ret', 1500, 60000), ('w_c07', 150, 6000)],
        'rule': 'ret: random histories (0-25 ops) of AddOrReplace/Remove/ClearAll over a pool of 2-8 topics built from levels {a,b,"",$s,ab} (prefix-related, $ topics), '
                'then lookups: GetMatchedMessages for ~10 filters of every shape, GetRetainedMessage, Iterate; non-trivial = >=3 ops and a non-empty answer',
        'assumptions': ['messages are compared field by field (all Message fields)'],
        'trusted': [],
    },
    'C10': {
        'suites': [('queue', 1500, 60000), ('rqueue', 800, 40000)],
        'rule': 'queue: random interleavings (3-40 ops + drain epilogue) of Add/Read(ids)/ReadInflight(n)/Remove/Replace/Init(clean or not)/Close/clock-shift on mem.Queue '
                'with capacities 1-6, QoS mix, expiry none/past/+1h/+3h, clock shifts of 2h, read limits 30/40/1000 bytes, in-flight expiry 0 or 30 min; '
                'non-trivial = at least one Read returned something and (a drop at Add or a non-empty in-flight replay) occurred',
        'assumptions': ['time passes only through the verif hook VerifShift (timestamps are hours apart, scheduling jitter is irrelevant)',
                        'redis queue: driven over an in-process RESP stand-in for redis (harness/resp.go) incl. broker restarts; its refinement to the abstract queue is checked by the run (c10r_ok), not proved'],
        'trusted': ['persistence/queue/mem/verif_hooks.go (VerifShift, VerifReadWouldBlock, VerifDrained)'],
    },
    'C03': {
        'props': ['C03', 'C03w', 'C03g', 'C03u'], 'suites': [('lim', 2000, 100000), ('w_c03', 250, 10000)],
        'rule': 'lim: random histories of poll/release/batchRelease/markUsed/close on the real packetIDLimiter (limits 1..65535, forced wrap 65535->1 by presetting the cursor); '
                'non-trivial = a poll returned ids and (a poll blocked or the ids wrapped). '
                'w_c03: wire scenarios: 1-2 persistent subscriber sessions (v3.1/3.1.1/5, Receive Maximum absent/1/2/3/5/65535, max_inflight 1..65535), a publisher and api_publish, acks prompt/late/out of order/never/'
                'PUBREC without PUBCOMP/error codes, cuts by close, DISCONNECT, take-over, resumes (also with another version or Receive Maximum), bursts > 100; oracle: replay before new messages in order with same id and DUP=1 or PUBREL, '
                'first transmission DUP=0, ids of outstanding publishes distinct and non-zero, window never exceeded, nothing held back while the window has room',
        'assumptions': ['markUsed is only called for ids that are not in use (what pollInflights does)'],
        'trusted': ['server/verif_hooks.go: VerifLimiter'],
    },
    'C04': {
        'suites': [('unack', 2000, 100000), ('w_c04', 300, 12000)],
        'rule': 'unack: random histories of Init/Set/Remove on the mem unack store; non-trivial = a duplicate was reported. '
                'w_c04: wire scenarios: 1-2 subscribers (v3.1/3.1.1/5, all option bits) stay connected, 1-2 publishers send QoS 0/1/2 with ids from {1,2,3,7,255,256,65535}, '
                'retransmissions (same/other content, interleaved ids), PUBREL in any order / repeated / unknown, close/DISCONNECT/take-over, reconnect with Clean Start 0/1, expiry; '
                'oracle: exactly one ack per packet with the same id, a PUBLISH whose id is outstanding in the sender session is forwarded to nobody, a free id is forwarded per subscription table',
        'props': ['C04', 'C04w'],
        'assumptions': [], 'trusted': [],
    },
    'C13': {
        'props': ['C13', 'C13w', 'C13v', 'C13b'], 'suites': [('alias', 2000, 100000), ('cfgv', 1500, 20000), ('w_c13', 200, 6000)],
        'rule': 'alias: topic sequences over a pool of 1-8 topics against the fifo alias manager with maxima 0,1,2,3,5,65535; non-trivial = an alias was reused and an eviction happened. '
                'cfgv: configurations (maximum_qos, max_queued_messages incl. <= 0, server_receive_maximum, max_packet_size, max_inflight at 0 / 1 / = / > max_queued_messages, delivery modes incl. unknown ones) through the real config.MQTT.Validate '
                'and through the guard list regenerated from its source (Gen/ValidateTable.v); oracle: accepted iff the documented constraints hold',
        'assumptions': [], 'trusted': [],
    },
    'C05': {
        'static': static_c15.probes_only('C05', ['same-id-storm', 'terminate-vs-reconnect']),
        'suites': [('w_c05', 300, 12000)],
        'rule': 'w_c05: wire histories of 3 client ids: connect (v3.1/3.1.1/5, Clean Start 0/1, Session Expiry absent/0/1/2/5/30/100/7200/100000/0xFFFFFFFF, also while the id is attached elsewhere), '
                'subscribe/unsubscribe, publish to online/offline/dead-but-attached sessions, acks via symbolic ids, DISCONNECT with/without new expiry, abrupt close, TerminateSession, '
                'clock advances just below/above the expiry in play, expire_check; oracle: Session Present iff the statement says so, CONNACK expiry = min(requested, configured), '
                'resumed sessions get exactly their unacknowledged messages and keep their subscriptions, fresh sessions get nothing, displaced sockets are closed and get nothing afterwards; '
                'non-trivial = at least one PUBLISH delivered and >= 5 steps',
        'assumptions': ['simultaneous CONNECTs are serialised by the wire runner (one step at a time); the locking that makes every interleaving a serialisation is C15; two schedules the wire runner cannot produce are driven by the stress harness as part of this check: same-id-storm (several CONNECTs of one client id at once: one connection per id) and terminate-vs-reconnect (CONNECT during the tear-down of an administratively terminated session)'],
        'trusted': ['harness/wire_runner.go quiescence barrier and independent codec (harness/WIRE.md)'],
    },
    'C12': {
        'props': ['C12', 'C12w'], 'suites': [('w_c12', 300, 12000)],
        'rule': 'w_c12: publishers p1,p2 and subscribers s1..s3 (v3.1/3.1.1/5, Receive Maximum 1-3 or absent), one subscription each, publishes with Message Expiry absent/0/1/2/3/5/60/61/7200/7201/100000/2^32-1, '
                'configured maximum 0/1/2/60/7200/100000, subscribers offline / window full / slow to ack, clock advances aimed just below/above deadlines (100 ms mod 1 s), one real sleep in 1/16 scenarios; '
                'oracle: an expired copy is never delivered and is reported dropped exactly once, a v5 subscriber gets original minus whole seconds waited (>= 1), unexpired copies are delivered as soon as the window allows',
        'assumptions': ['time passes through VerifAdvance (queue timestamps shifted) except for the scripted sleeps'],
        'trusted': ['harness/wire_runner.go', 'server/verif_hooks.go VerifAdvance'],
    },
    'C01': {
        'props': ['C01', 'C01o'], 'suites': [('w_c01', 300, 12000), ('wv', 200, 8000)],
        'rule': 'w_c01: 2-4 clients (v3.1/3.1.1/5) stay connected; SUBSCRIBE/re-SUBSCRIBE/UNSUBSCRIBE over 23 non-shared filters with every QoS x NoLocal x RAP x RetainHandling x subscription id; publishes over 13 topics '
                '(QoS 0-2, RETAIN, empty and long payloads, v5 properties, inbound aliases, id reuse, retransmissions), api_publish, correct acks only or no acks (windows fill), both delivery modes, OnSubscribe hook in 1/4; '
                'oracle: every received PUBLISH is a due copy (topic, payload, properties, QoS = min, RETAIN = published and RAP, subscription ids as a set, DUP 0), one copy per matching subscription (overlap) / one at the highest QoS (onlyonce), '
                'NoLocal, nothing unaccounted, per-publisher order, nothing pending unless the window is full, exactly one ack with the same id',
        'assumptions': ['concurrently publishing connections are serialised by the runner (one step at a time): every interleaving is explored as an order of steps, true races are the business of C15'],
        'trusted': ['harness/wire_runner.go quiescence barrier and independent codec (harness/WIRE.md)'],
    },
    'C08': {
        'suites': [('w_c08', 150, 3000)],
        'rule': 'w_c08: 1-3 observers with arbitrary (incl. shared, $-topic) subscriptions, 2-3 will clients (v3.1/3.1.1/5, will QoS/retain/properties/Will Delay absent,0,1,100, Session Expiry absent,0,1,100,2^32-1), '
                'every way of ending a connection (close, DISCONNECT 0x00/0x04 with or without expiry, protocol errors, keep-alive timeout, take-over, TerminateSession online/offline), real sleeps of 0.4/1.3/1.8 s around 1 s timers, '
                'OnWillPublish drop/rewrite hook; oracle: the will is published exactly once, when due, to the then-matching subscribers with its fields, never after DISCONNECT 0x00 nor after a resume, retained wills are stored and replayed',
        'assumptions': ['inside one (sleep ..) step the model fires keep-alive timeouts before delayed wills; the real order is decided by the clock: the generator never lets a keep-alive timeout and a 1 s timer (will delay / session expiry of 1 s) meet in one scenario', 'delayed wills use real timers: scenarios sleep 0.4 s (surely not fired) or >= 1.3 s (surely fired) around 1 s delays'],
        'trusted': ['harness/wire_runner.go'],
    },
    'C06': {
        'props': ['C06', 'C06t', 'C06m'], 'suites': [('codec', 8000, 400000), ('cenc', 3000, 100000), ('ctopic', 8000, 400000), ('cmsg', 2000, 50000), ('ctb', 400, 5000)],
        'rule': 'codec: valid packets of all 15 types and all properties encoded by an independent encoder, CONNECT+following packets on one reader, truncation at every offset, remaining length +/-/huge, non-canonical and 5-9 byte varints, '
                '7 property mutations, 4 UTF-8 mutations, flag flips, trailing bytes, byte flip/insert/delete, version mismatch, raw bytes, under v3.1/3.1.1/5; compared: every decoded field, consumed bytes, TotalBytes, re-encoding and its re-decode, error class, allocation. '
                'cenc: encode side; ctopic: the four validity predicates on strings over {a,b,/,+,#,$,NUL,U+FFFD,...}; ctb: packets.TotalBytes (the size the statistics book) for all 15 packet types at every boundary of the Remaining Length encoding (127/128, 16383/16384, 2097151/2097152, 268435455) and random lengths; cmsg: Message.TotalBytes vs encoded PUBLISH, MessageToPublish and MessageFromPublish of it (the queued message keeps the application fields and drops the packet id); non-trivial = at least two bytes / a valid packet',
        'assumptions': ['bufio/io.ReadFull are modelled as "the byte list, then EOF"', 'allocation is observed as runtime.MemStats.TotalAlloc delta with a tolerance for size-class rounding'],
        'trusted': ['harness/codec.go independent encoder'],
    },
    'C09': {
        'props': ['C09', 'C09e', 'C09s'], 'suites': [('rsub', 600, 40000), ('runack', 600, 40000), ('rsess', 1000, 20000), ('penc', 1500, 8000), ('crash', 24, 1500)],
        'rule': 'crash: broker-level histories (3 clients, 6-24 steps: persistent sessions, subscriptions with all options, unsubscribes, QoS1/2 publishes to online/offline subscribers, partial ack flows) on the redis backend over an in-process RESP stand-in '
                'that journals every write command; for EVERY prefix of the journal a fresh broker is started on the prefix state (start-up must succeed) and sessions, subscriptions, redelivery and QoS2 duplicate recognition are inspected against what had been acknowledged. '
                'rsub/runack: store-level histories incl. restarts against the extracted models. '
                'penc: queue elements (PUBLISH with every optional field, strings of 0/255/256/65534/65535 bytes, payloads of 65534..200000 bytes in 1/12, PUBREL) and subscriptions encoded by queue.Elem.Encode / EncodeSubscription '
                'and decoded again, plus 2-6 mutations (truncate, bit flip, byte set, append, insert/delete, raw bytes) decoded by the real decoders; compared byte for byte and field for field with Model/PersistEnc.v; '
                'oracle: decode(encode v) = v on the implementation. '
                'rsess: histories (3-25 ops) of Set/Get/Remove/SetSessionExpiry/Iterate on the mem session store and on the redis session store over the RESP stand-in (with restarts of the store object), '
                '6 client ids incl. the empty one and ids that look like keys ("sub:1", "session:x"), wills with every optional field; every answer compared with the abstract machine Model/SessStore.v '
                '(a missing session must be answered none, never an empty session). crash: at every other cut the stored connect times are two hours old (a long-running broker): sessions must still resume; '
                'the session gauges of the live broker must not have wrapped',
        'assumptions': ['the RESP stand-in (harness/resp.go) implements the commands used (hset hmget hgetall hdel del llen lrange lrem lset rpush scan ping select auth ...) as redis documents them',
                        'crash points are between storage commands of quiescent steps; a crash while two handlers interleave their commands is not enumerated'],
        'trusted': ['harness/resp.go', 'harness/redis.go scripted client'],
    },
    'C16': {
        'suites': [('fedq', 1500, 100000)],
        'rule': 'fedq: the real eventQueue + sessionMgr + Hello + eventStreamHandler + EventStream loop driven through an in-memory stream double by generated schedules of emit (subscribe/unsubscribe/session end/message), send, deliver, ack, cut, '
                'hello (ok / request lost / reply lost / open fails), peer lost / join, bursts of 95-130 events across the 100-event batch and LRU; non-trivial = >= 3 applied events and a fault or peer loss',
        'assumptions': ['gRPC/serf are replaced by an in-memory stream double; a cut drops both in-flight buffers atomically'],
        'trusted': ['plugin/federation/verif_hooks.go'],
    },
    'C17': {
        'suites': [('fedr', 2500, 200000), ('fedq', 600, 20000)],
        'rule': 'fedr: sendMessage on a Federation with 1-3 injected peers and generated subscription distributions (plain, wildcard, $, shared groups spanning nodes) consistent with the federation tree, 1-6 publishes (retained / empty payload / through OnMsgArrived or OnWillPublish wrappers), '
                'receiver side applying message events; observables: events appended per peer queue, drop flag, rewritten iteration options, receiver publishes and retained store',
        'assumptions': ['the federation tree equals the peers local subscriptions (stable state, as the statement requires); that the event stream establishes this state is C16, whose suite fedq (emission of subscription events from the local subscription index, stream, application) is run by this check as well'],
        'trusted': ['plugin/federation/verif_hooks.go'],
    },
    'C19': {
        'props': ['C19', 'C19w'], 'suites': [('auth', 500, 30000), ('authwire', 40, 2500)],
        'rule': 'auth: a real auth.Auth per hash algorithm (plain/md5/sha256/bcrypt cost 4), histories of Update/Delete through the gRPC handlers incl. failing saves, validations of right / near-miss / empty / 65535-byte credentials, reload by a second instance from another working directory, directory of the password file renamed away and back; '
                'authwire: in-process broker with the plugin, CONNECTs of v3.1/3.1.1/5 with every flag combination and AuthMethod, unauthenticated packets of every type before CONNECT and after a refused one, then inspection of sessions/subscriptions/retained',
        'assumptions': ['md5/sha256/bcrypt are abstract functions of the model (Section variables); their values are supplied per case by the harness and cross-checked', 'gen_sound: every bcrypt hash generated during a run verifies its password, checked on the bcrypt table sent with the case'],
        'trusted': ['plugin/auth/verif_hooks.go', 'x/crypto/bcrypt, yaml.v2 round trip'],
    },
    'C15': {
        'suites': [], 'static': static_c15.static,
        'rule': 'static: lock table / life-cycle models regenerated from the source; stress: random clients + 4 API goroutines + concurrent Stop under -race, 6 probes',
        'assumptions': ['every socket read/write eventually returns (peer, deadline or Close)',
                        'lock classes identify all instances of a mutex field; RLock = Lock',
                        'ConnLife bounds: rx0=3, msgs0=2, channel cap 1, fuel 400; StopLife: 2 callers, 2 connections'],
        'trusted': ['/verif/gen translators report what the source says (go/parser + go/types based; loud failure on constructs they do not understand)', '/verif/stress harness; Go race detector'],
    },
    'C14': {
        'suites': [('w_c14', 200, 6000)], 'static': static_c14.static, 'props': ['C14'],
        'rule': 'static: Gen/HookKinds.v regenerated from server/plugin.go, hook.go, server.go (one row per HookWrapper field: collected / applied / loop direction / base / store)',
        'assumptions': [], 'trusted': ['/verif/gen translators report what the source says'],
    },
    'C20': {
        'suites': [('w_c20', 200, 6000), ('c20r', 30, 300), ('ctb', 400, 5000)],
        'rule': 'c20r: a session with client id x1 (3.1 / 3.1.1 / 5) and 1-3 refused v5 CONNECTs (Authentication Method, no enhanced authentication configured) that claim the same client id, before the session connects or while it is online; the per-client counters of x1 must show exactly its own CONNECT and CONNACK. w_c20: wire workloads of up to three client ids (v3.1/3.1.1/5; all packet types incl. AUTH, QoS 0-2, drops of every kind: queue full, expired, in-flight expired, exceeds maximum packet size; reconnects, take-overs, terminate, session expiry) with an (inspect) after every step; '
                'the statistics returned by StatsManager are compared field by field with (a) the extracted Coq model of stats.go driven by the event log and (b) the ground truth computed from the packet log, queue contents and session tables',
        'assumptions': ['PINGREQ/PINGRESP counters are removed by the runner (its barrier pings)', 'drop ground truth is the OnMsgDropped hook log',
                        'steps where the queue prediction is contradicted by the packets (silent eviction of an expired PUBREL entry) are outside the family'],
        'trusted': ['harness/w_c20.go, ocaml/o_c20.ml (event log construction)'],
    },
}
