(* private extraction used while developing the redis slice: Extract.v's list + the redis models *)
From Coq Require Import Extraction ExtrOcamlBasic.
From GM Require Import Base.Topic Model.WsConn Model.SubTrie Model.SubSpec Model.TopicMatch Base.Msg Model.RetTrie Oracle.C18O Oracle.C02O Oracle.C07O Model.Queue Oracle.C10O Model.Limiter Oracle.C03O.
From GM Require Import Model.Redis Model.RQueue Model.Crash Oracle.C09O.
Extraction Language OCaml.
Set Extraction KeepSingleton.
Extraction "model.ml"
  C18O.model_obs C18O.c18_ok C18O.c18_obs_eqb
  SubTrie.db_run SubTrie.db_iterate SubTrie.db_client_stats SubTrie.db_init SubSpec.spec_run SubSpec.wf_ops
  C02O.c02_query_ok C02O.c11_query_ok C02O.mixed_query_ok C02O.expect_gstats C02O.expect_cstats
  C02O.expect_already C02O.model_already C02O.ires_eqb C02O.tm_ok C02O.tm_model
  RetTrie.rdb_run RetTrie.rspec_run RetTrie.retain_op C07O.rmodel_answer C07O.c07_store_ok C07O.mmeq Msg.msg_total_bytes
  C10O.c10_ok C10O.model_outs C10O.oout_of
  C03O.c03_lim_ok C03O.lim_model C03O.alias_ok C03O.am_run Limiter.am_new C03O.unack_run C03O.unack_ok
  TopicMatch.valid_name_spec TopicMatch.valid_filter_spec Topic.topic_match
  Redis.exec_all Redis.blob_eqb RQueue.rq_model RQueue.abstract_ops
  Crash.cur_code Crash.all_fixed Crash.code_fixes Crash.sops_cmds Crash.sops_flat Crash.ru_run Crash.trim_left
  C09O.kf_redis_hdel_slice C09O.kf_redis_trimleft C09O.reload_ops C09O.runack_ok C09O.kf_redis_unack_reload C09O.c10r_ok C09O.rq_class
  Topic.split_topic C09O.crash_prefix_fails C09O.explain C09O.model_journal C09O.model_prefix Crash.jcmds.
