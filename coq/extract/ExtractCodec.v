(* private extraction used while developing the C06 slice; the integrator merges the
   additional items into Extract.v *)
From Coq Require Import Extraction ExtrOcamlBasic.
From GM Require Import Base.Topic Model.WsConn Model.SubTrie Model.SubSpec Model.TopicMatch Base.Msg Model.RetTrie Oracle.C18O Oracle.C02O Oracle.C07O Model.Queue Oracle.C10O.
From GM Require Import Model.CodecBase Model.CodecProps Model.CodecPackets Model.CodecSpec Oracle.C06O.
Extraction Language OCaml.
Set Extraction KeepSingleton.
Extraction "model.ml"
  C18O.model_obs C18O.c18_ok C18O.c18_obs_eqb
  SubTrie.db_run SubTrie.db_iterate SubTrie.db_client_stats SubTrie.db_init SubSpec.spec_run SubSpec.wf_ops
  C02O.c02_query_ok C02O.c11_query_ok C02O.mixed_query_ok C02O.expect_gstats C02O.expect_cstats
  C02O.expect_already C02O.model_already C02O.ires_eqb C02O.tm_ok C02O.tm_model
  RetTrie.rdb_run RetTrie.rspec_run RetTrie.retain_op C07O.rmodel_answer C07O.c07_store_ok C07O.mmeq Msg.msg_total_bytes
  C10O.c10_ok C10O.model_outs C10O.oout_of
  TopicMatch.valid_name_spec TopicMatch.valid_filter_spec Topic.topic_match
  CodecPackets.read_packet CodecPackets.read_packet_full CodecPackets.pack_full CodecPackets.pack CodecPackets.total_bytes
  CodecPackets.message_to_publish CodecPackets.next_version
  CodecSpec.spec_decode CodecSpec.spec_encode CodecSpec.wf_packet CodecSpec.spec_utf8 CodecSpec.has_ctl
  C06O.model_stream C06O.model_stream_alloc C06O.model_dec1 C06O.model_reenc C06O.c06_decode_ok C06O.stream_ok C06O.alloc_ok C06O.alloc_agree
  C06O.body_eqb C06O.may_reject
  C06O.kf_auth_v3 C06O.kf_pubrel_v3
  C06O.c06_encode_ok C06O.step_ok
  C06O.model_topic_obs C06O.topic_obs_eqb C06O.c06_topic_ok
  C06O.c06_msg_ok C06O.model_msg_obs C06O.spec_reason.
