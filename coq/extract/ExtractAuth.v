(* private extraction used while developing the C19 slice; the integrator merges the
   additional items into Extract.v *)
From Coq Require Import Extraction ExtrOcamlBasic.
From GM Require Import Base.Topic Model.WsConn Model.SubTrie Model.SubSpec Model.TopicMatch Base.Msg Model.RetTrie Oracle.C18O Oracle.C02O Oracle.C07O Model.Queue Oracle.C10O Model.Limiter Oracle.C03O.
From GM Require Import Model.Auth Oracle.C19O.
Extraction Language OCaml.
Set Extraction KeepSingleton.
Extraction "model.ml"
  C18O.model_obs C18O.c18_ok C18O.c18_obs_eqb
  SubTrie.db_run SubTrie.db_iterate SubTrie.db_client_stats SubTrie.db_init SubSpec.spec_run SubSpec.wf_ops
  C02O.c02_query_ok C02O.c11_query_ok C02O.mixed_query_ok C02O.expect_gstats C02O.expect_cstats
  C02O.expect_already C02O.model_already C02O.ires_eqb C02O.tm_ok C02O.tm_model
  RetTrie.rdb_run RetTrie.rspec_run RetTrie.retain_op C07O.rmodel_answer C07O.c07_store_ok C07O.mmeq Msg.msg_total_bytes
  C10O.c10_ok C10O.model_outs C10O.oout_of
  C03O.c03_lim_ok C03O.lim_model C03O.alias_ok C03O.am_run Limiter.am_new C03O.unack_run C03O.unack_ok
  TopicMatch.valid_name_spec TopicMatch.valid_filter_spec Topic.topic_match
  Auth.au_model_outs Auth.au_start Auth.au_step Auth.au_run Auth.au_validate Auth.broker_connect Auth.load_path Auth.au_load
  C19O.c19_ok C19O.o_step C19O.file_wf C19O.cred_ok C19O.c19_connect_ok C19O.connect_servable
  C19O.o_avail C19O.kf_authmethod_present C19O.known_version.
