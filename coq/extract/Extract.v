From Coq Require Import Extraction ExtrOcamlBasic.
From GM Require Import Base.Topic Model.WsConn Model.SubTrie Model.SubSpec Model.TopicMatch Base.Msg Model.RetTrie Oracle.C18O Oracle.C02O Oracle.C07O Model.Queue Oracle.C10O Model.Limiter Oracle.C03O Model.Broker
  Model.CodecBase Model.CodecProps Model.CodecPackets Model.CodecSpec Oracle.C06O
  Model.Redis Model.PersistEnc Model.SessStore Model.ConfigV Model.RQueue Model.Crash Oracle.C09O Model.Auth Oracle.C19O
  Model.FedQueue Oracle.C16O Model.FedRoute Oracle.C17O Model.Stats Oracle.C20O.
Extraction Language OCaml.
Set Extraction KeepSingleton.
Extraction "model.ml"
  C18O.model_obs C18O.c18_ok C18O.c18_obs_eqb
  SubTrie.db_run SubTrie.db_iterate SubTrie.db_client_stats SubTrie.db_init SubSpec.spec_run SubSpec.wf_ops
  C02O.c02_query_ok C02O.c11_query_ok C02O.mixed_query_ok C02O.expect_gstats C02O.expect_cstats
  C02O.expect_already C02O.model_already C02O.ires_eqb C02O.tm_ok C02O.tm_model
  RetTrie.rdb_run RetTrie.rspec_run RetTrie.retain_op C07O.rmodel_answer C07O.c07_store_ok C07O.mmeq Msg.msg_total_bytes
  C10O.c10_ok C10O.model_outs C10O.oout_of
  C03O.c03_lim_ok C03O.lim_model C03O.alias_ok C03O.am_run Limiter.am_new C03O.unack_run C03O.unack_ok
  Broker.st_init Broker.step Broker.run Broker.no_hooks Broker.set_picks_tag
  TopicMatch.valid_name_spec TopicMatch.valid_filter_spec Topic.topic_match
  CodecPackets.read_packet CodecPackets.read_packet_full CodecPackets.pack_full CodecPackets.pack CodecPackets.total_bytes
  CodecPackets.message_to_publish CodecPackets.message_from_publish CodecPackets.msg_core Msg.msg_eqb CodecPackets.next_version
  CodecSpec.spec_decode CodecSpec.spec_encode CodecSpec.wf_packet CodecSpec.spec_utf8 CodecSpec.has_ctl
  C06O.model_stream C06O.model_stream_alloc C06O.model_dec1 C06O.model_reenc C06O.c06_decode_ok C06O.stream_ok C06O.alloc_ok C06O.alloc_agree
  C06O.body_eqb C06O.may_reject
  C06O.kf_auth_v3 C06O.kf_pubrel_v3
  C06O.c06_encode_ok C06O.step_ok
  C06O.model_topic_obs C06O.topic_obs_eqb C06O.c06_topic_ok
  C06O.c06_msg_ok C06O.model_msg_obs C06O.spec_reason
  Redis.exec_all Redis.blob_eqb RQueue.rq_model RQueue.abstract_ops
  Crash.cur_code Crash.all_fixed Crash.code_fixes Crash.sops_cmds Crash.sops_flat Crash.ru_run Crash.jcmds Crash.trim_left
  C09O.kf_redis_hdel_slice C09O.kf_redis_trimleft C09O.reload_ops C09O.runack_ok C09O.kf_redis_unack_reload
  C09O.c10r_ok C09O.rq_class Topic.split_topic C09O.crash_prefix_fails C09O.explain C09O.model_journal C09O.model_prefix
  PersistEnc.enc_elem PersistEnc.dec_elem PersistEnc.enc_sub PersistEnc.dec_sub PersistEnc.wf_pelem PersistEnc.wf_psub
  SessStore.ss_run SessStore.ss_ok SessStore.ssout_eqb
  ConfigV.mqtt_validate ConfigV.env_of ConfigV.accepted_b
  PersistEnc.put64 PersistEnc.be64 PersistEnc.penc_elem_ok PersistEnc.penc_sub_ok
  Auth.au_model_outs Auth.au_start Auth.au_step Auth.au_run Auth.au_validate Auth.broker_connect Auth.load_path Auth.au_load
  C19O.c19_ok C19O.o_step C19O.file_wf C19O.cred_ok C19O.c19_connect_ok C19O.connect_servable
  C19O.o_avail C19O.kf_authmethod_present C19O.known_version
  FedQueue.fq_init FedQueue.fq_step FedQueue.view_of FedQueue.local_of FedQueue.fq_idle FedQueue.msg_event_form FedQueue.plain_sub
  RetTrie.rdb_all FedRoute.fr_init FedRoute.fr_run FedRoute.fr_receive_all
  C17O.c17_pub_ok C17O.plain_ok C17O.shared_ok C17O.retained_ok C17O.c17_recv_ok C17O.kf_shared_span C17O.pub_obs_of
  C16O.c16_ok C16O.c16_safety_ok C16O.fq_model_obs C16O.kf_hello_reply_lost C16O.kf_event_not_utf8
  Stats.sts_run Stats.sts_view_of Stats.sts_all_ctrs Stats.sts_all_cctrs Stats.sts_get Stats.sts_M64
  C20O.c20_truth C20O.c20_model C20O.c20_calls C20O.c20_ok C20O.c20_class C20O.c20_vec_diff C20O.c20_cvec_diff
  C20O.c20_signed C20O.c20_gauges_wrapped C20O.c20_obs_ctrs.
