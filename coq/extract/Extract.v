From Coq Require Import Extraction ExtrOcamlBasic.
From GM Require Import Base.Topic Model.WsConn Model.SubTrie Model.SubSpec Model.TopicMatch Oracle.C18O Oracle.C02O.
Extraction Language OCaml.
Set Extraction KeepSingleton.
Extraction "model.ml"
  C18O.model_obs C18O.c18_ok C18O.c18_obs_eqb
  SubTrie.db_run SubTrie.db_iterate SubTrie.db_client_stats SubTrie.db_init SubSpec.spec_run SubSpec.wf_ops
  C02O.c02_query_ok C02O.c11_query_ok C02O.mixed_query_ok C02O.expect_gstats C02O.expect_cstats
  C02O.expect_already C02O.model_already C02O.ires_eqb C02O.tm_ok C02O.tm_model
  TopicMatch.valid_name_spec TopicMatch.valid_filter_spec Topic.topic_match.
