From Coq Require Import Extraction ExtrOcamlBasic.
From GM Require Import Model.WsConn Oracle.C18O.
Extraction Language OCaml.
Set Extraction KeepSingleton.
Extraction "model.ml"
  C18O.model_obs C18O.c18_ok C18O.c18_obs_eqb.
