(* private extraction used while developing the federation slice (C16/C17): the list of
   Extract.v plus the federation models and oracles *)
From Coq Require Import Extraction ExtrOcamlBasic.
From GM Require Import Base.Topic Model.WsConn Model.SubTrie Model.SubSpec Model.TopicMatch Base.Msg Model.RetTrie Oracle.C18O Oracle.C02O Oracle.C07O Model.Queue Oracle.C10O Model.Limiter Oracle.C03O.
From GM Require Import Model.FedQueue Oracle.C16O Model.FedRoute Oracle.C17O.
Extraction Language OCaml.
Set Extraction KeepSingleton.
Extraction "model.ml"
  C18O.model_obs C18O.c18_ok C18O.c18_obs_eqb
  SubTrie.db_run SubTrie.db_iterate SubTrie.db_client_stats SubTrie.db_init SubSpec.spec_run SubSpec.wf_ops
  C02O.c02_query_ok C02O.c11_query_ok C02O.mixed_query_ok C02O.expect_gstats C02O.expect_cstats
  C02O.expect_already C02O.model_already C02O.ires_eqb C02O.tm_ok C02O.tm_model
  RetTrie.rdb_run RetTrie.rspec_run RetTrie.retain_op C07O.rmodel_answer C07O.c07_store_ok C07O.mmeq Msg.msg_total_bytes
  C10O.c10_ok C10O.model_outs C10O.oout_of
  C03O.c03_lim_ok C03O.lim_model C03O.alias_ok C03O.am_run Limiter.am_new C03O.unack_run C03O.unack_ok
  TopicMatch.valid_name_spec TopicMatch.valid_filter_spec Topic.topic_match
  FedQueue.fq_init FedQueue.fq_step FedQueue.view_of FedQueue.local_of FedQueue.fq_idle FedQueue.msg_event_form
  RetTrie.rdb_all
  FedQueue.plain_sub FedRoute.fr_init FedRoute.fr_run FedRoute.fr_receive_all
  C17O.c17_pub_ok C17O.plain_ok C17O.shared_ok C17O.retained_ok C17O.c17_recv_ok C17O.kf_shared_span C17O.pub_obs_of
  C16O.c16_ok C16O.c16_safety_ok C16O.fq_model_obs C16O.kf_hello_reply_lost C16O.kf_event_not_utf8.
