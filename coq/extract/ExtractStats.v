(* private extraction of the C20 slice (statistics): Model/Stats.v + Oracle/C20O.v.
   The integrator adds `Model.Stats Oracle.C20O` to the Require line of Extract.v and the items below to its list;
   ocaml/o_c20.ml says `module SM = Model`. *)
From Coq Require Import Extraction ExtrOcamlBasic.
From GM Require Import Model.Stats Oracle.C20O.
Extraction Language OCaml.
Set Extraction KeepSingleton.
Extraction "stats_model.ml"
  Stats.sts_run Stats.sts_view_of Stats.sts_all_ctrs Stats.sts_all_cctrs Stats.sts_get Stats.sts_M64
  C20O.c20_truth C20O.c20_model C20O.c20_calls C20O.c20_ok C20O.c20_class C20O.c20_vec_diff C20O.c20_cvec_diff
  C20O.c20_signed C20O.c20_gauges_wrapped C20O.c20_obs_ctrs.
