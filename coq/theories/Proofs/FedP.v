(* Proofs about the federation event-stream model (Model/FedQueue.v), for all schedules:
   the sequence B applies is, epoch by epoch, a duplicate-free prefix of what A emitted;
   nextRead never dangles. *)
From Coq Require Import List NArith Bool Arith Lia ZifyN ZifyNat ZifyBool.
Import ListNotations.
From GM Require Import Base.Topic Base.Msg Model.SubTrie Model.SubSpec Model.RetTrie Model.FedQueue Oracle.C16O Proofs.SubTrieP.
Open Scope N_scope.

(* ------------------------------------------------------------------ *)
(* 0. lists of numbered events                                         *)
(* ------------------------------------------------------------------ *)

Definition nlen {A} (l : list A) : N := N.of_nat (length l).

Lemma nlen_nil {A} : nlen (@nil A) = 0.
Proof. reflexivity. Qed.
Lemma nlen_cons {A} (x : A) l : nlen (x :: l) = nlen l + 1.
Proof. unfold nlen. cbn [length]. lia. Qed.
Lemma nlen_one {A} (x : A) : nlen [x] = 1.
Proof. reflexivity. Qed.
Lemma nlen_app {A} (a b : list A) : nlen (a ++ b) = nlen a + nlen b.
Proof. unfold nlen. rewrite app_length. lia. Qed.
Lemma nlen_0 {A} (l : list A) : nlen l = 0 -> l = [].
Proof. destruct l; [reflexivity|rewrite nlen_cons; lia]. Qed.

Notation ievent := (N * fevent)%type.

(* ids b, b+1, b+2, ... *)
Fixpoint consec (b : N) (l : list ievent) : Prop :=
  match l with
  | [] => True
  | (i, _) :: r => i = b /\ consec (b + 1) r
  end.

Lemma consec_app b l1 l2 : consec b (l1 ++ l2) <-> consec b l1 /\ consec (b + nlen l1) l2.
Proof.
  revert b. induction l1 as [|[i e] r IH]; intros b; cbn [app consec].
  - rewrite nlen_nil, N.add_0_r. tauto.
  - rewrite IH, nlen_cons. replace (b + 1 + nlen r) with (b + (nlen r + 1)) by lia. tauto.
Qed.

Lemma consec_head b X x e Y : consec b (X ++ (x, e) :: Y) -> x = b + nlen X.
Proof. intros H. apply consec_app in H as [_ H]. cbn [consec] in H. tauto. Qed.

Lemma has_id_consec b l id : consec b l -> has_id id l = (b <=? id) && (id <? b + nlen l).
Proof.
  revert b. induction l as [|[i e] r IH]; intros b H; cbn [has_id existsb].
  - rewrite nlen_nil. lia.
  - cbn [consec] in H. destruct H as [-> H]. unfold has_id in IH. rewrite (IH _ H), nlen_cons.
    cbn [fst]. lia.
Qed.

Lemma drop_until_consec b l1 l2 : consec b (l1 ++ l2) -> l2 <> [] ->
  drop_until (b + nlen l1) (l1 ++ l2) = l2.
Proof.
  revert b. induction l1 as [|[i e] r IH]; intros b H Hne; cbn [app].
  - rewrite nlen_nil, N.add_0_r. destruct l2 as [|[i e] r]; [congruence|].
    cbn [consec] in H. destruct H as [-> _]. cbn [drop_until]. now rewrite N.eqb_refl.
  - cbn [app consec] in H. destruct H as [-> H]. cbn [drop_until]. rewrite nlen_cons.
    destruct (N.eqb_spec b (b + (nlen r + 1))) as [E|_]; [lia|].
    replace (b + (nlen r + 1)) with (b + 1 + nlen r) by lia. now apply IH.
Qed.

Lemma ack_list_consec b l1 id e l2 : consec b (l1 ++ (id, e) :: l2) -> ack_list id (l1 ++ (id, e) :: l2) = l2.
Proof.
  revert b. induction l1 as [|[i e'] r IH]; intros b H; cbn [app ack_list].
  - now rewrite N.eqb_refl.
  - pose proof (consec_head b ((i, e') :: r) id e l2 H) as Hid. rewrite nlen_cons in Hid.
    cbn [app consec] in H. destruct H as [-> H].
    destruct (N.eqb_spec b id) as [E|_]; [lia|].
    destruct (N.leb_spec b id) as [_|E]; [|lia]. now apply IH with (b := b + 1).
Qed.

Lemma ack_list_below b l id : consec b l -> id < b -> ack_list id l = l.
Proof.
  revert b. induction l as [|[i e] r IH]; intros b H Hlt; cbn [ack_list]; [reflexivity|].
  cbn [consec] in H. destruct H as [-> H].
  destruct (N.eqb_spec b id) as [E|_]; [lia|].
  destruct (N.leb_spec b id) as [E|_]; [lia|]. f_equal. apply IH with (b := b + 1); [exact H|lia].
Qed.

(* position id in a consecutive list *)
Lemma consec_split b l id : consec b l -> b <= id -> id < b + nlen l ->
  exists l1 e l2, l = l1 ++ (id, e) :: l2 /\ nlen l1 = id - b.
Proof.
  revert b. induction l as [|[i e] r IH]; intros b H Hle Hlt.
  - rewrite nlen_nil in Hlt. lia.
  - cbn [consec] in H. destruct H as [-> H]. rewrite nlen_cons in Hlt.
    destruct (N.eq_dec id b) as [->|Hne].
    + exists [], e, r. split; [reflexivity|]. rewrite nlen_nil. lia.
    + destruct (IH (b + 1) H) as (l1 & e' & l2 & -> & Hl); [lia|lia|].
      exists ((b, e) :: l1), e', l2. split; [reflexivity|]. rewrite nlen_cons. lia.
Qed.

Lemma app_eq_prefix {A} (pre L X U : list A) :
  pre ++ L = X ++ U -> (length pre <= length X)%nat -> exists l1, L = l1 ++ U /\ X = pre ++ l1.
Proof.
  revert X. induction pre as [|a pre IH]; intros X H Hlen; cbn [app] in *.
  - exists X. now split.
  - destruct X as [|x X]; cbn [length] in Hlen; [lia|]. cbn [app] in H. injection H as -> H.
    destruct (IH X H) as (l1 & -> & ->); [lia|]. exists l1. now split.
Qed.

Definition head_id (l : list ievent) : option N := match l with [] => None | (i, _) :: _ => Some i end.

Lemma In_tl {A} (x : A) l : In x (tl l) -> In x l.
Proof. destruct l; cbn; auto. Qed.

Lemma mem_n_In x l : mem_n x l = true <-> In x l.
Proof.
  unfold mem_n. rewrite existsb_exists. split.
  - intros (y & Hy & E). apply N.eqb_eq in E. now subst.
  - intros H. exists x. split; [exact H|apply N.eqb_refl].
Qed.

(* ------------------------------------------------------------------ *)
(* 1. projections of the logs                                          *)
(* ------------------------------------------------------------------ *)

Definition untag (t : tagged) : ievent := (snd (fst t), snd t).
Definition proj (ep : N) (l : list tagged) : list ievent :=
  map untag (filter (fun t : tagged => fst (fst t) =? ep) l).
Definition tag (ep : N) (ie : ievent) : tagged := (ep, fst ie, snd ie).

Definition prefix {A} (a b : list A) : Prop := exists r, b = a ++ r.

Lemma proj_app ep a b : proj ep (a ++ b) = proj ep a ++ proj ep b.
Proof. unfold proj. now rewrite filter_app, map_app. Qed.

Lemma proj_one_same ep id e : proj ep [(ep, id, e)] = [(id, e)].
Proof. unfold proj. cbn [filter fst]. now rewrite N.eqb_refl. Qed.

Lemma proj_one_other ep ep' id e : ep' <> ep -> proj ep [(ep', id, e)] = [].
Proof. intros H. unfold proj. cbn [filter fst]. destruct (N.eqb_spec ep' ep); [congruence|reflexivity]. Qed.

Lemma proj_none ep l : (forall t, In t l -> fst (fst t) <> ep) -> proj ep l = [].
Proof.
  intros H. unfold proj. induction l as [|t r IH]; [reflexivity|]. cbn [filter].
  destruct (N.eqb_spec (fst (fst t)) ep) as [E|_].
  - exfalso. apply (H t); [now left|exact E].
  - apply IH. intros t' Ht'. apply H. now right.
Qed.

Lemma prefix_refl {A} (a : list A) : prefix a a.
Proof. exists []. now rewrite app_nil_r. Qed.
Lemma prefix_app_r {A} (a b c : list A) : prefix a b -> prefix a (b ++ c).
Proof. intros [r ->]. exists (r ++ c). now rewrite app_assoc. Qed.

(* ------------------------------------------------------------------ *)
(* 2. the invariant                                                    *)
(* ------------------------------------------------------------------ *)

Definition Eof (s : fstate) : list ievent := proj (a_epoch s) (emitted s).
Definition Aof (s : fstate) : list ievent := proj (a_epoch s) (applied s).

(* the session B holds is the one A's peer presents: the events of the current epoch are
   E = D ++ C ++ U - D handled and acknowledged by B's loop (|D| = nextEventID), C in
   flight, U not yet sent on this stream; what B applied is D, or D and the next event
   (applied, ack not sent: its id is in the LRU) *)
Definition MI (E A : list ievent) (ep : N) (up : bool) (cs : list tagged) (sc : list N)
           (rd : option N) (nx : N) (seen : list N) (pre : list ievent) : Prop :=
  exists D C U,
    E = D ++ C ++ U /\ nlen D = nx /\ nlen pre <= nlen D /\ cs = map (tag ep) C /\
    (up = true -> rd = head_id U) /\
    (up = false -> C = [] /\ (rd = None \/ exists r, rd = Some r /\ nx <= r)) /\
    (A = D \/ exists x e rest, C ++ U = (x, e) :: rest /\ A = D ++ [(x, e)] /\ In nx seen) /\
    (forall i, In i seen -> i < nlen A) /\
    (forall i, In i sc -> i < nx).

(* the queue holds the events of the current epoch minus an acknowledged front part *)
Definition QI (E A : list ievent) (ep : N) (up : bool) (cs : list tagged) (sc : list N)
           (q : equeue) (sess : option fsession) (sid : N) : Prop :=
  exists pre,
    E = pre ++ evq_l q /\ consec 0 E /\ evq_next q = nlen E /\ evq_bad q = false /\
    (evq_read q = None \/ exists r, evq_read q = Some r /\ nlen pre <= r /\ r < nlen E) /\
    match sess with
    | Some se => if fs_id se =? sid then MI E A ep up cs sc (evq_read q) (fs_next se) (fs_seen se) pre else up = false
    | None => up = false
    end.

Definition INV (s : fstate) : Prop :=
  (forall e, prefix (proj e (applied s)) (proj e (emitted s))) /\
  (forall t, In t (emitted s) -> fst (fst t) <= a_epoch s) /\
  (forall t, In t (applied s) -> fst (fst t) <= a_epoch s) /\
  (forall t, In t (c2s s) -> fst (fst t) = a_epoch s) /\
  (st_up s = false -> c2s s = [] /\ s2c s = []) /\
  (forall se, fb_sess s = Some se -> fs_id se < a_sidctr s /\ fb_peer s = true) /\
  match a_peer s with
  | None => st_up s = false
  | Some p => p_sid p < a_sidctr s /\
              QI (Eof s) (Aof s) (a_epoch s) (st_up s) (c2s s) (s2c s) (p_q p) (fb_sess s) (p_sid p)
  end.

Ltac sfields :=
  cbn [a_index a_topics a_ret a_peer a_sidctr a_epoch st_up c2s s2c fb_peer fb_sess fb_fed fb_ret fb_ops
       emitted applied published handled set_local set_peer set_stream set_server add_handled
       p_sid p_q evq_next evq_l evq_read evq_closed evq_bad fs_id fs_next fs_seen] in *.

Lemma INV_init ret : INV (fq_init ret).
Proof.
  unfold INV, fq_init. sfields.
  split; [intros e; apply prefix_refl|]. split; [intros t []|]. split; [intros t []|]. split; [intros t []|].
  split; [intros _; now split|]. split; [intros se H; discriminate|reflexivity].
Qed.

Lemma INV_set_local ix tp s : INV s -> INV (set_local ix tp s).
Proof. intros H. exact H. Qed.

(* ---- emitting an event ---- *)
Lemma MI_emit E A ep up cs sc rd nx seen pre x :
  MI E A ep up cs sc rd nx seen pre -> consec 0 E -> fst x = nlen E ->
  MI (E ++ [x]) A ep up cs sc (match rd with None => Some (fst x) | r => r end) nx seen pre.
Proof.
  intros (D & C & U & HD & HnD & Hpd & Hc2 & Hup & Hdn & HA & Hseen & Hs2) Hcons Hx.
  exists D, C, (U ++ [x]).
  split; [rewrite HD, <- !app_assoc; reflexivity|]. split; [exact HnD|]. split; [exact Hpd|]. split; [exact Hc2|].
  split.
  { intros Hu. rewrite (Hup Hu). destruct U as [|[i e'] U']; [destruct x|]; reflexivity. }
  split.
  { intros Hd. destruct (Hdn Hd) as [-> Hr]. split; [reflexivity|]. right.
    destruct Hr as [->|(r & -> & Hr)].
    - exists (fst x). split; [reflexivity|]. rewrite Hx, HD, !nlen_app. lia.
    - exists r. now split. }
  split; [|split; [exact Hseen|exact Hs2]].
  destruct HA as [HA|(y & e' & rest & HCU & HA & Hin)]; [now left|right].
  exists y, e', (rest ++ [x]). split; [rewrite app_assoc, HCU; reflexivity|now split].
Qed.

Lemma QI_emit E A ep up cs sc q sess sid e :
  QI E A ep up cs sc q sess sid -> QI (E ++ [(evq_next q, e)]) A ep up cs sc (eq_add e q) sess sid.
Proof.
  intros (pre & HEq & Hcons & Hnext & Hbad & Hread & Hm). unfold eq_add. exists pre. sfields.
  split; [rewrite HEq at 1; now rewrite app_assoc|].
  split; [apply consec_app; split; [exact Hcons|cbn [consec]; rewrite Hnext; split; [lia|exact I]]|].
  split; [rewrite nlen_app, Hnext; reflexivity|]. split; [exact Hbad|].
  split.
  { right. destruct Hread as [->|(r & -> & H1 & H2)].
    - exists (evq_next q). split; [reflexivity|]. rewrite nlen_app, Hnext.
      assert (nlen pre <= nlen E) by (rewrite HEq, nlen_app; lia). rewrite nlen_one. lia.
    - exists r. split; [reflexivity|]. rewrite nlen_app. lia. }
  destruct sess as [se|]; [|exact Hm]. destruct (fs_id se =? sid); [|exact Hm].
  pose proof (MI_emit E A ep up cs sc (evq_read q) (fs_next se) (fs_seen se) pre (evq_next q, e) Hm Hcons Hnext) as H.
  cbn [fst] in H. destruct (evq_read q); exact H.
Qed.

Lemma INV_emit1 e s : INV s -> INV (emit1 e s).
Proof.
  intros H. unfold emit1. destruct (a_peer s) as [p|] eqn:Hp; [|exact H].
  destruct H as (Hpre & Hem & Hap & Hc & Hdown & Hsess & Hq). rewrite Hp in Hq. destruct Hq as [Hsid Hq].
  unfold INV. sfields.
  assert (HE : proj (a_epoch s) (emitted s ++ [(a_epoch s, evq_next (p_q p), e)]) = Eof s ++ [(evq_next (p_q p), e)]).
  { rewrite proj_app, proj_one_same. reflexivity. }
  split; [|split; [|split; [exact Hap|split; [exact Hc|split; [exact Hdown|split; [exact Hsess|split; [exact Hsid|]]]]]]].
  - intros ep. rewrite proj_app. now apply prefix_app_r.
  - intros t Ht. apply in_app_or in Ht as [Ht|[<-|[]]]; [now apply Hem|cbn [fst]; lia].
  - unfold Eof, Aof. sfields. rewrite HE. now apply QI_emit.
Qed.

Lemma INV_emit_list es s : INV s -> INV (emit_list es s).
Proof. unfold emit_list. revert s. induction es as [|e r IH]; intros s H; cbn [fold_left]; [exact H|]. apply IH. now apply INV_emit1. Qed.

(* ---- closing / opening the queue does not matter ---- *)
Lemma QI_closed E A ep up cs sc q sess sid b :
  QI E A ep up cs sc q sess sid -> QI E A ep up cs sc (eq_set_closed b q) sess sid.
Proof. intros H. exact H. Qed.

(* ---- cutting the stream ---- *)
Lemma MI_cut E A ep cs sc rd nx seen pre :
  MI E A ep true cs sc rd nx seen pre -> consec 0 E -> MI E A ep false [] [] rd nx seen pre.
Proof.
  intros (D & C & U & HD & HnD & Hpd & Hc2 & Hup & Hdn & HA & Hseen & Hs2) Hcons.
  exists D, [], (C ++ U). cbn [app map].
  split; [exact HD|]. split; [exact HnD|]. split; [exact Hpd|]. split; [reflexivity|].
  split; [discriminate|]. split.
  { intros _. split; [reflexivity|]. rewrite (Hup eq_refl). destruct U as [|[r e] U']; [now left|right].
    exists r. split; [reflexivity|]. rewrite HD, app_assoc in Hcons. apply consec_head in Hcons.
    rewrite nlen_app in Hcons. lia. }
  split; [exact HA|]. split; [exact Hseen|intros i []].
Qed.

Lemma QI_cut E A ep up cs sc q sess sid :
  QI E A ep up cs sc q sess sid -> QI E A ep false [] [] q sess sid.
Proof.
  intros (pre & HEq & Hcons & Hnext & Hbad & Hread & Hm). exists pre.
  split; [exact HEq|]. split; [exact Hcons|]. split; [exact Hnext|]. split; [exact Hbad|]. split; [exact Hread|].
  destruct sess as [se|]; [|reflexivity]. destruct (fs_id se =? sid); [|reflexivity].
  destruct up; [now apply MI_cut with (cs := cs) (sc := sc)|].
  destruct Hm as (D & C & U & HD & HnD & Hpd & Hc2 & Hup & Hdn & HA & Hseen & Hs2).
  destruct (Hdn eq_refl) as [-> Hr]. exists D, [], U. cbn [map app] in *.
  split; [exact HD|]. split; [exact HnD|]. split; [exact Hpd|]. split; [reflexivity|]. split; [discriminate|].
  split; [intros _; now split|]. split; [exact HA|]. split; [exact Hseen|intros i []].
Qed.

Lemma set_queue_some q s p : a_peer s = Some p ->
  set_queue q s = set_peer (Some {| p_sid := p_sid p; p_q := q |}) (a_sidctr s) (a_epoch s) (emitted s) s.
Proof. intros H. unfold set_queue. now rewrite H. Qed.

Lemma INV_cut s : INV s -> INV (fq_cut s).
Proof.
  intros H. unfold fq_cut. destruct (st_up s) eqn:Hup; [|exact H].
  destruct H as (Hpre & Hem & Hap & Hc & Hdown & Hsess & Hq).
  destruct (a_peer s) as [p|] eqn:Hp; [|congruence]. destruct Hq as [Hsid Hq].
  sfields. rewrite Hp. rewrite (set_queue_some _ _ p) by (sfields; exact Hp).
  unfold INV, Eof, Aof. sfields.
  split; [exact Hpre|]. split; [exact Hem|]. split; [exact Hap|]. split; [intros t []|].
  split; [intros _; now split|]. split; [exact Hsess|]. split; [exact Hsid|].
  apply QI_closed. eapply QI_cut; exact Hq.
Qed.

(* ---- one sendEvents iteration ---- *)
Lemma eq_fetch_events q batch q' : eq_fetch q = (FEvents batch, q') ->
  exists r, evq_read q = Some r /\ batch = firstn FETCH_MAX (drop_until r (evq_l q)) /\
    q' = {| evq_next := evq_next q; evq_l := evq_l q;
            evq_read := head_id (skipn FETCH_MAX (drop_until r (evq_l q)));
            evq_closed := evq_closed q; evq_bad := evq_bad q |}.
Proof.
  unfold eq_fetch. destruct (evq_closed q); [discriminate|].
  destruct (evq_l q) as [|x l] eqn:Hl; [discriminate|]. destruct (evq_read q) as [r|]; [|discriminate].
  intros H. injection H as <- <-. exists r. split; [reflexivity|]. split; [reflexivity|]. reflexivity.
Qed.

Lemma eq_fetch_other q x q' : eq_fetch q = (x, q') -> (forall b, x <> FEvents b) -> q' = q.
Proof.
  unfold eq_fetch. destruct (evq_closed q); [intros H; now injection H|].
  destruct (evq_l q) as [|y l]; [intros H; now injection H|]. destruct (evq_read q) as [r|]; [|intros H; now injection H].
  intros H Hne. injection H as <- _. now destruct (Hne _ eq_refl).
Qed.

Lemma MI_send E A ep cs sc r nx seen pre L k :
  MI E A ep true cs sc (Some r) nx seen pre -> E = pre ++ L -> consec 0 E ->
  MI E A ep true (cs ++ map (tag ep) (firstn k (drop_until r L))) sc (head_id (skipn k (drop_until r L))) nx seen pre.
Proof.
  intros (D & C & U & HD & HnD & Hpd & Hc2 & Hup & Hdn & HA & Hseen & Hs2) HEq Hcons.
  pose proof (Hup eq_refl) as Hr. destruct U as [|[r' e0] U1]; [discriminate|]. cbn [head_id] in Hr. injection Hr as <-.
  assert (Hsplit : exists l1, L = l1 ++ (r, e0) :: U1 /\ D ++ C = pre ++ l1).
  { apply app_eq_prefix; [rewrite <- HEq, HD, app_assoc; reflexivity|].
    assert (nlen pre <= nlen (D ++ C)) by (rewrite nlen_app; lia). unfold nlen in *. lia. }
  destruct Hsplit as (l1 & HL & HDC).
  assert (Hdrop : drop_until r L = (r, e0) :: U1).
  { rewrite HL. pose proof Hcons as Hc'. rewrite HEq, HL in Hc'. apply consec_app in Hc' as [_ Hc'].
    pose proof (consec_head _ _ _ _ _ Hc') as Hrr. rewrite Hrr at 1. apply drop_until_consec; [exact Hc'|discriminate]. }
  rewrite Hdrop. set (U0 := (r, e0) :: U1) in *.
  exists D, (C ++ firstn k U0), (skipn k U0).
  split; [rewrite <- app_assoc, firstn_skipn; exact HD|]. split; [exact HnD|]. split; [exact Hpd|].
  split; [rewrite map_app, Hc2; reflexivity|]. split; [reflexivity|]. split; [discriminate|].
  split; [|split; [exact Hseen|exact Hs2]].
  rewrite <- app_assoc, firstn_skipn. exact HA.
Qed.

Lemma QI_send E A ep cs sc q sess sid batch q' :
  QI E A ep true cs sc q sess sid -> eq_fetch q = (FEvents batch, q') ->
  QI E A ep true (cs ++ map (tag ep) batch) sc q' sess sid.
Proof.
  intros (pre & HEq & Hcons & Hnext & Hbad & Hread & Hm) Hf.
  destruct (eq_fetch_events _ _ _ Hf) as (r & Hr & -> & ->).
  destruct sess as [se|]; [|discriminate]. destruct (fs_id se =? sid) eqn:Hid; [|discriminate].
  rewrite Hr in Hm. pose proof (MI_send _ _ _ _ _ _ _ _ _ _ FETCH_MAX Hm HEq Hcons) as Hm'.
  exists pre. sfields. rewrite Hid.
  split; [exact HEq|]. split; [exact Hcons|]. split; [exact Hnext|]. split; [exact Hbad|]. split; [|exact Hm'].
  (* the new read position is the head of the unsent part *)
  destruct Hm' as (D & C & U & HD & HnD & Hpd & Hc2 & Hup & _).
  rewrite (Hup eq_refl). destruct U as [|[i e] U']; [now left|right]. exists i. split; [reflexivity|].
  pose proof Hcons as Hc'. rewrite HD, app_assoc in Hc'. apply consec_head in Hc'.
  rewrite HD, !nlen_app, nlen_cons. rewrite nlen_app in Hc'. lia.
Qed.

Lemma INV_send s : INV s -> INV (fq_send s).
Proof.
  intros H. unfold fq_send. destruct (st_up s) eqn:Hup; [|exact H].
  destruct (a_peer s) as [p|] eqn:Hp; [|exact H].
  destruct (eq_fetch (p_q p)) as [[| |batch] q'] eqn:Hf; try exact H.
  (* the state in which the whole batch is in flight *)
  set (s1 := set_queue q' s).
  set (s2 := set_stream true (c2s s1 ++ map (fun ie : ievent => (a_epoch s1, fst ie, snd ie)) batch) (s2c s1) s1).
  assert (H2 : INV s2).
  { destruct H as (Hpre & Hem & Hap & Hc & Hdown & Hsess & Hq). rewrite Hp in Hq. destruct Hq as [Hsid Hq].
    subst s2 s1. rewrite (set_queue_some _ _ p Hp). unfold INV, Eof, Aof. sfields. rewrite Hup in Hq.
    split; [exact Hpre|]. split; [exact Hem|]. split; [exact Hap|].
    split. { intros t Ht. apply in_app_or in Ht as [Ht|Ht]; [now apply Hc|].
             apply in_map_iff in Ht as (ie & <- & _). reflexivity. }
    split; [discriminate|]. split; [exact Hsess|]. split; [exact Hsid|].
    exact (QI_send _ _ _ _ _ _ _ _ _ _ Hq Hf). }
  destruct (forallb (fun ie : ievent => marshal_ok (snd ie)) batch); [exact H2|].
  replace (fq_cut s1) with (fq_cut s2); [now apply INV_cut|].
  subst s2 s1. rewrite (set_queue_some _ _ p Hp). unfold fq_cut. sfields. now rewrite Hup.
Qed.

(* ---- one EventStream iteration ---- *)
Lemma tag_inj ep a b : tag ep a = tag ep b -> a = b.
Proof. destruct a, b. unfold tag. cbn [fst snd]. intros H. now injection H as -> ->. Qed.

Lemma MI_deliver E A ep id e cs' sc rd nx seen pre :
  MI E A ep true ((ep, id, e) :: cs') sc rd nx seen pre -> consec 0 E ->
  let dup := fst (lru_set id seen) in
  let seen' := snd (lru_set id seen) in
  let A' := if dup then A else A ++ [(id, e)] in
  id = nx /\ prefix A' E /\
  MI E A' ep true cs' (sc ++ [id]) rd (id + 1) seen' pre /\
  MI E A' ep false [] [] rd nx seen' pre.
Proof.
  intros (D & C & U & HD & HnD & Hpd & Hc2 & Hup & Hdn & HA & Hseen & Hs2) Hcons.
  destruct C as [|[id' e'] C']; [discriminate|]. cbn [map] in Hc2. injection Hc2 as Hid He Hc2. cbn [fst snd] in Hid, He. subst id' e'.
  assert (Hidx : id = nlen D).
  { pose proof Hcons as Hc'. rewrite HD in Hc'. cbn [app] in Hc'. apply consec_head in Hc'. lia. }
  cbv zeta.
  assert (Hcases : (A = D /\ lru_set id seen = (false, (if Nat.eqb (length seen) LRU_SIZE then tl seen else seen) ++ [id])) \/
                   (A = D ++ [(id, e)] /\ lru_set id seen = (true, seen) /\ In id seen)).
  { destruct HA as [HA|(x & e0 & rest & HCU & HA & Hin)].
    - left. split; [exact HA|]. unfold lru_set. destruct (mem_n id seen) eqn:Hm; [|reflexivity].
      apply mem_n_In in Hm. apply Hseen in Hm. rewrite HA in Hm. lia.
    - right. cbn [app] in HCU. injection HCU as <- <- _. rewrite <- HnD, <- Hidx in Hin.
      split; [exact HA|]. split; [|exact Hin]. unfold lru_set. apply mem_n_In in Hin. now rewrite Hin. }
  split; [lia|].
  assert (HE' : E = (D ++ [(id, e)]) ++ C' ++ U) by (rewrite HD, <- app_assoc; reflexivity).
  destruct Hcases as [[HAD Hl]|(HAD & Hl & Hin)]; rewrite Hl; cbn [fst snd].
  - (* applied now *)
    split; [exists (C' ++ U); rewrite HAD; exact HE'|].
    assert (Hseen' : forall i, In i ((if Nat.eqb (length seen) LRU_SIZE then tl seen else seen) ++ [id]) -> i < nlen (A ++ [(id, e)])).
    { intros i Hi. rewrite nlen_app, nlen_one. apply in_app_or in Hi as [Hi|[<-|[]]].
      - assert (In i seen) by (destruct (Nat.eqb (length seen) LRU_SIZE); [now apply In_tl|exact Hi]).
        apply Hseen in H. lia.
      - rewrite HAD. lia. }
    split.
    + exists (D ++ [(id, e)]), C', U. split; [exact HE'|]. split; [rewrite nlen_app, nlen_one; lia|].
      split; [rewrite nlen_app; lia|]. split; [exact Hc2|]. split; [exact Hup|]. split; [discriminate|].
      split; [left; now rewrite HAD|]. split; [exact Hseen'|].
      intros i Hi. apply in_app_or in Hi as [Hi|[<-|[]]]; [apply Hs2 in Hi; lia|lia].
    + exists D, [], ((id, e) :: C' ++ U). cbn [app map].
      split; [exact HD|]. split; [exact HnD|]. split; [exact Hpd|]. split; [reflexivity|]. split; [discriminate|].
      split.
      { intros _. split; [reflexivity|]. rewrite (Hup eq_refl). destruct U as [|[r e0] U']; [now left|right].
        exists r. split; [reflexivity|]. pose proof Hcons as Hc'. rewrite HD, app_assoc in Hc'. apply consec_head in Hc'.
        rewrite nlen_app in Hc'. lia. }
      split.
      { right. exists id, e, (C' ++ U). split; [reflexivity|]. split; [now rewrite HAD|].
        apply in_or_app. right. left. lia. }
      split; [exact Hseen'|intros i []].
  - (* duplicate: suppressed *)
    split; [exists (C' ++ U); rewrite HAD; exact HE'|].
    split.
    + exists (D ++ [(id, e)]), C', U. split; [exact HE'|]. split; [rewrite nlen_app, nlen_one; lia|].
      split; [rewrite nlen_app; lia|]. split; [exact Hc2|]. split; [exact Hup|]. split; [discriminate|].
      split; [now left|]. split; [exact Hseen|].
      intros i Hi. apply in_app_or in Hi as [Hi|[<-|[]]]; [apply Hs2 in Hi; lia|lia].
    + exists D, [], ((id, e) :: C' ++ U). cbn [app map].
      split; [exact HD|]. split; [exact HnD|]. split; [exact Hpd|]. split; [reflexivity|]. split; [discriminate|].
      split.
      { intros _. split; [reflexivity|]. rewrite (Hup eq_refl). destruct U as [|[r e0] U']; [now left|right].
        exists r. split; [reflexivity|]. pose proof Hcons as Hc'. rewrite HD, app_assoc in Hc'. apply consec_head in Hc'.
        rewrite nlen_app in Hc'. lia. }
      split.
      { right. exists id, e, (C' ++ U). split; [reflexivity|]. split; [exact HAD|]. rewrite <- HnD, <- Hidx. exact Hin. }
      split; [exact Hseen|intros i []].
Qed.

(* what the invariant depends on *)
Definition core (s : fstate) :=
  (a_peer s, a_sidctr s, a_epoch s, st_up s, c2s s, s2c s, fb_peer s, fb_sess s, emitted s, applied s).

Lemma INV_core s s' : core s = core s' -> INV s -> INV s'.
Proof.
  unfold core. intros H. injection H as H1 H2 H3 H4 H5 H6 H7 H8 H9 H10.
  unfold INV, Eof, Aof. now rewrite H1, H2, H3, H4, H5, H6, H7, H8, H9, H10.
Qed.

Lemma proj_snoc_other ep ep' l id e : ep' <> ep -> proj ep (l ++ [(ep', id, e)]) = proj ep l.
Proof. intros H. rewrite proj_app, proj_one_other by exact H. apply app_nil_r. Qed.

Lemma proj_snoc_same ep l id e : proj ep (l ++ [(ep, id, e)]) = proj ep l ++ [(id, e)].
Proof. now rewrite proj_app, proj_one_same. Qed.

Lemma INV_deliver b s : INV s -> INV (fq_deliver b s).
Proof.
  intros H. unfold fq_deliver. destruct (st_up s) eqn:Hup; [|exact H].
  destruct H as (Hpre & Hem & Hap & Hc & Hdown & Hsess & Hq).
  destruct (c2s s) as [|[[ep id] e] rest] eqn:Hcs; [unfold INV; now rewrite Hcs|].
  destruct (fb_sess s) as [se|] eqn:Hse; [|unfold INV; now rewrite Hcs, Hse].
  destruct (a_peer s) as [p|] eqn:Hp; [|congruence]. destruct Hq as [Hsid Hq].
  assert (Hep : ep = a_epoch s) by (apply (Hc (ep, id, e)); now left). subst ep.
  destruct Hq as (pre & HEq & Hcons & Hnext & Hbad & Hread & Hm).
  destruct (fs_id se =? p_sid p) eqn:Hmatch; [|congruence].
  rewrite Hup in Hm.
  destruct (MI_deliver _ _ _ _ _ _ _ _ _ _ _ Hm Hcons) as (Hidn & HpreA & Hok & Hfail).
  destruct (lru_set id (fs_seen se)) as [dup seen'] eqn:Hl. cbn [fst snd] in HpreA, Hok, Hfail.
  set (ap' := if dup then applied s else applied s ++ [(a_epoch s, id, e)]).
  assert (HA' : proj (a_epoch s) ap' = (if dup then Aof s else Aof s ++ [(id, e)])).
  { subst ap'. destruct dup; [reflexivity|]. apply proj_snoc_same. }
  assert (Hpre' : forall e0, prefix (proj e0 ap') (proj e0 (emitted s))).
  { intros e0. destruct (N.eq_dec e0 (a_epoch s)) as [->|Hne].
    - rewrite HA'. exact HpreA.
    - subst ap'. destruct dup; [apply Hpre|]. rewrite proj_snoc_other by congruence. apply Hpre. }
  assert (Hap' : forall t, In t ap' -> fst (fst t) <= a_epoch s).
  { subst ap'. intros t Ht. destruct dup; [now apply Hap|].
    apply in_app_or in Ht as [Ht|[<-|[]]]; [now apply Hap|cbn [fst]; lia]. }
  destruct (Hsess se eq_refl) as [Hsidse Hbp].
  destruct b.
  - (* the ack is sent: nextEventID advances *)
    apply INV_core with (s := set_server (fb_peer s) (Some {| fs_id := fs_id se; fs_next := id + 1; fs_seen := seen' |})
                                        (fb_fed s) (fb_ret s) (fb_ops s) ap' (published s)
                                        (set_stream true rest (s2c s ++ [id]) s)).
    { subst ap'. destruct dup; [reflexivity|]. destruct e; reflexivity. }
    unfold INV, Eof, Aof. sfields. rewrite Hp.
    split; [exact Hpre'|]. split; [exact Hem|]. split; [exact Hap'|].
    split; [intros t Ht; apply Hc; now right|]. split; [discriminate|].
    split; [intros se' Hs'; injection Hs' as <-; now split|]. split; [exact Hsid|].
    exists pre. sfields. rewrite Hmatch, HA'. fold (Eof s).
    split; [exact HEq|]. split; [exact Hcons|]. split; [exact Hnext|]. split; [exact Hbad|]. split; [exact Hread|exact Hok].
  - (* the ack cannot be sent: the stream is gone, nextEventID stays *)
    apply INV_core with (s := set_peer (Some {| p_sid := p_sid p; p_q := eq_set_closed true (p_q p) |}) (a_sidctr s) (a_epoch s) (emitted s)
                                (set_server (fb_peer s) (Some {| fs_id := fs_id se; fs_next := fs_next se; fs_seen := seen' |})
                                        (fb_fed s) (fb_ret s) (fb_ops s) ap' (published s)
                                        (set_stream false [] [] s))).
    { subst ap'. unfold fq_cut, set_queue. destruct dup; [sfields; rewrite Hp; reflexivity|].
      destruct e; unfold apply_event, fed_op; sfields; rewrite Hp; reflexivity. }
    unfold INV, Eof, Aof. sfields.
    split; [exact Hpre'|]. split; [exact Hem|]. split; [exact Hap'|].
    split; [intros t []|]. split; [intros _; now split|].
    split; [intros se' Hs'; injection Hs' as <-; now split|]. split; [exact Hsid|].
    exists pre. sfields. rewrite Hmatch, HA'. fold (Eof s).
    split; [exact HEq|]. split; [exact Hcons|]. split; [exact Hnext|]. split; [exact Hbad|]. split; [exact Hread|exact Hfail].
Qed.

(* ---- one readLoop iteration ---- *)
Lemma QI_ack E A ep cs id sc' q sess sid :
  QI E A ep true cs (id :: sc') q sess sid -> QI E A ep true cs sc' (eq_ack id q) sess sid.
Proof.
  intros (pre & HEq & Hcons & Hnext & Hbad & Hread & Hm).
  destruct sess as [se|]; [|discriminate]. destruct (fs_id se =? sid) eqn:Hid; [|discriminate].
  destruct Hm as (D & C & U & HD & HnD & Hpd & Hc2 & Hup & Hdn & HA & Hseen & Hs2).
  assert (Hlt : id < nlen D) by (rewrite HnD; apply Hs2; now left).
  pose proof Hcons as HcL. rewrite HEq in HcL. apply consec_app in HcL as [_ HcL]. rewrite N.add_0_l in HcL.
  assert (HlenE : nlen E = nlen pre + nlen (evq_l q)) by (rewrite HEq at 1; apply nlen_app).
  assert (HDE : nlen D <= nlen E) by (rewrite HD, !nlen_app; lia).
  (* the new list, and the acknowledged front part *)
  assert (Hnew : exists pre', E = pre' ++ ack_list id (evq_l q) /\ nlen pre <= nlen pre' /\ nlen pre' <= nlen D).
  { destruct (N.ltb_spec id (nlen pre)) as [Hb|Hb].
    - exists pre. rewrite (ack_list_below _ _ _ HcL Hb). split; [exact HEq|]. lia.
    - destruct (consec_split _ _ id HcL Hb) as (l1 & e & l2 & HL & Hl1); [lia|].
      exists (pre ++ l1 ++ [(id, e)]). rewrite HL in HcL |- *. rewrite (ack_list_consec _ _ _ _ _ HcL).
      split; [rewrite HEq, HL, <- !app_assoc; reflexivity|]. rewrite !nlen_app, nlen_one. lia. }
  destruct Hnew as (pre' & HEq' & Hpp & Hpd').
  assert (HcL' : consec (nlen pre') (ack_list id (evq_l q))).
  { pose proof Hcons as Hc'. rewrite HEq' in Hc'. apply consec_app in Hc' as [_ Hc']. now rewrite N.add_0_l in Hc'. }
  assert (HlenE' : nlen E = nlen pre' + nlen (ack_list id (evq_l q))) by (rewrite HEq' at 1; apply nlen_app).
  (* the read position is beyond what was acknowledged *)
  assert (Hrd : evq_read q = None \/ exists r, evq_read q = Some r /\ nlen D <= r /\ r < nlen E).
  { rewrite (Hup eq_refl). destruct U as [|[r e] U']; [now left|right]. exists r. split; [reflexivity|].
    pose proof Hcons as Hc'. rewrite HD, app_assoc in Hc'. apply consec_head in Hc'. rewrite nlen_app in Hc'.
    rewrite HD, !nlen_app, nlen_cons. lia. }
  exists pre'. unfold eq_ack. sfields. rewrite Hid.
  split; [exact HEq'|]. split; [exact Hcons|]. split; [exact Hnext|].
  split.
  { rewrite Hbad. cbn [orb]. destruct Hrd as [->|(r & -> & Hr1 & Hr2)]; [reflexivity|].
    rewrite (has_id_consec _ _ r HcL'). apply andb_false_intro2. apply negb_false_iff. lia. }
  split.
  { destruct Hrd as [->|(r & -> & Hr1 & Hr2)]; [now left|right]. exists r. split; [reflexivity|]. lia. }
  exists D, C, U. split; [exact HD|]. split; [exact HnD|]. split; [exact Hpd'|]. split; [exact Hc2|].
  split; [exact Hup|]. split; [discriminate|]. split; [exact HA|]. split; [exact Hseen|].
  intros i Hi. apply Hs2. now right.
Qed.

Lemma INV_ack_deliver s : INV s -> INV (fq_ack_deliver s).
Proof.
  intros H. unfold fq_ack_deliver. destruct (st_up s) eqn:Hup; [|exact H].
  destruct (s2c s) as [|id rest] eqn:Hsc; [exact H|].
  destruct (a_peer s) as [p|] eqn:Hp; [|exact H].
  destruct H as (Hpre & Hem & Hap & Hc & Hdown & Hsess & Hq). rewrite Hp in Hq. destruct Hq as [Hsid Hq].
  rewrite (set_queue_some _ _ p) by (sfields; exact Hp).
  unfold INV, Eof, Aof. sfields.
  split; [exact Hpre|]. split; [exact Hem|]. split; [exact Hap|]. split; [exact Hc|]. split; [discriminate|].
  split; [exact Hsess|]. split; [exact Hsid|]. rewrite Hup, Hsc in Hq. now apply QI_ack.
Qed.

(* ---- the handshake ---- *)
(* resume: setReadPosition(nextEventID), then (if the stream opens) open *)
Lemma QI_resume E A ep q se sid up' :
  QI E A ep false [] [] q (Some se) sid -> (fs_id se =? sid) = true ->
  QI E A ep up' [] [] (eq_set_read (fs_next se) q) (Some se) sid.
Proof.
  intros (pre & HEq & Hcons & Hnext & Hbad & Hread & Hm) Hid. rewrite Hid in Hm.
  destruct Hm as (D & C & U & HD & HnD & Hpd & Hc2 & Hup & Hdn & HA & Hseen & Hs2).
  destruct (Hdn eq_refl) as [-> Hrd]. cbn [app] in HD, HA.
  pose proof Hcons as HcL. rewrite HEq in HcL. apply consec_app in HcL as [_ HcL]. rewrite N.add_0_l in HcL.
  assert (HlenE : nlen E = nlen pre + nlen (evq_l q)) by (rewrite HEq at 1; apply nlen_app).
  assert (HlenU : nlen E = nlen D + nlen U) by (rewrite HD at 1; apply nlen_app).
  assert (Hnew : (if has_id (fs_next se) (evq_l q) then Some (fs_next se) else evq_read q) = head_id U).
  { rewrite (has_id_consec _ _ _ HcL). destruct U as [|[r e] U'].
    - rewrite nlen_nil in HlenU. replace ((nlen pre <=? fs_next se) && (fs_next se <? nlen pre + nlen (evq_l q))) with false by lia.
      destruct Hrd as [->|(r & Hr & Hge)]; [reflexivity|].
      destruct Hread as [Hn|(r' & Hr' & _ & Hlt)]; [congruence|]. rewrite Hr in Hr'. injection Hr' as <-. lia.
    - rewrite nlen_cons in HlenU. replace ((nlen pre <=? fs_next se) && (fs_next se <? nlen pre + nlen (evq_l q))) with true by lia.
      pose proof Hcons as Hc'. rewrite HD in Hc'. apply consec_head in Hc'. cbn [head_id]. f_equal. lia. }
  exists pre. unfold eq_set_read. sfields. rewrite Hid, Hnew.
  split; [exact HEq|]. split; [exact Hcons|]. split; [exact Hnext|]. split; [exact Hbad|].
  assert (HU : head_id U = None \/ exists r, head_id U = Some r /\ nlen D <= r /\ r < nlen E).
  { destruct U as [|[r e] U']; [now left|right]. exists r. split; [reflexivity|].
    pose proof Hcons as Hc'. rewrite HD in Hc'. apply consec_head in Hc'. rewrite nlen_cons in HlenU. lia. }
  split.
  { destruct HU as [->|(r & -> & H1 & H2)]; [now left|right]. exists r. split; [reflexivity|]. lia. }
  exists D, [], U. cbn [app map]. split; [exact HD|]. split; [exact HnD|]. split; [exact Hpd|]. split; [reflexivity|].
  split; [reflexivity|]. split.
  { intros _. split; [reflexivity|]. destruct HU as [->|(r & -> & H1 & H2)]; [now left|right]. exists r. split; [reflexivity|]. lia. }
  split; [exact HA|]. split; [exact Hseen|intros i []].
Qed.

Lemma INV_resume s p se (up' closed' : bool) :
  INV s -> st_up s = false -> a_peer s = Some p -> fb_sess s = Some se -> (fs_id se =? p_sid p) = true ->
  INV (set_stream up' [] [] (set_queue (eq_set_closed closed' (eq_set_read (fs_next se) (p_q p))) s)).
Proof.
  intros H Hup Hp Hse Hid. destruct H as (Hpre & Hem & Hap & Hc & Hdown & Hsess & Hq).
  rewrite Hp in Hq. destruct Hq as [Hsid Hq]. rewrite (set_queue_some _ _ p Hp).
  destruct (Hdown Hup) as [Hc0 Hs0]. rewrite Hup, Hc0, Hs0, Hse in Hq.
  unfold INV, Eof, Aof. sfields. rewrite Hse.
  split; [exact Hpre|]. split; [exact Hem|]. split; [exact Hap|]. split; [intros t []|]. split; [intros _; now split|].
  split; [rewrite <- Hse; exact Hsess|]. split; [exact Hsid|].
  apply QI_closed. now apply QI_resume.
Qed.

(* clean start: B made a fresh session for A's session id; A clears its queue *)
Lemma INV_clean s p (fed : db) (ops : list op) :
  INV s -> st_up s = false -> a_peer s = Some p -> fb_peer s = true ->
  INV (set_peer (Some {| p_sid := p_sid p; p_q := eq_clear (p_q p) |}) (a_sidctr s) (a_epoch s + 1) (emitted s)
         (set_server true (Some {| fs_id := p_sid p; fs_next := 0; fs_seen := [] |}) fed (fb_ret s) ops (applied s) (published s) s)).
Proof.
  intros H Hup Hp Hbp. destruct H as (Hpre & Hem & Hap & Hc & Hdown & Hsess & Hq).
  rewrite Hp in Hq. destruct Hq as [Hsid Hq]. destruct (Hdown Hup) as [Hc0 Hs0].
  destruct Hq as (pre & HEq & Hcons & Hnext & Hbad & Hread & Hm).
  unfold INV, Eof, Aof. sfields. rewrite Hc0, Hs0, Hup.
  split; [exact Hpre|]. split; [intros t Ht; apply Hem in Ht; lia|]. split; [intros t Ht; apply Hap in Ht; lia|].
  split; [intros t []|]. split; [intros _; now split|].
  split; [intros se Hs; injection Hs as <-; now split|]. split; [exact Hsid|].
  assert (HE0 : proj (a_epoch s + 1) (emitted s) = []) by (apply proj_none; intros t Ht; apply Hem in Ht; lia).
  assert (HA0 : proj (a_epoch s + 1) (applied s) = []) by (apply proj_none; intros t Ht; apply Hap in Ht; lia).
  rewrite HE0, HA0. exists []. unfold eq_clear. sfields. rewrite N.eqb_refl.
  split; [reflexivity|]. split; [exact I|]. split; [reflexivity|]. split; [exact Hbad|]. split; [now left|].
  exists [], [], []. cbn [app map]. split; [reflexivity|]. split; [reflexivity|]. split; [rewrite nlen_nil; lia|].
  split; [reflexivity|]. split; [discriminate|]. split; [intros _; split; [reflexivity|now left]|].
  split; [now left|]. split; [intros i []|intros i []].
Qed.

(* what the steps leave alone *)
Definition kcore (s : fstate) := (option_map p_sid (a_peer s), fb_peer s, option_map fs_id (fb_sess s), a_sidctr s).

Lemma kcore_emit1 e s : kcore (emit1 e s) = kcore s /\ st_up (emit1 e s) = st_up s /\ fb_sess (emit1 e s) = fb_sess s.
Proof. unfold emit1, kcore. destruct (a_peer s) as [p|] eqn:Hp; sfields; rewrite ?Hp; auto. Qed.

Lemma kcore_emit_list es s :
  kcore (emit_list es s) = kcore s /\ st_up (emit_list es s) = st_up s /\ fb_sess (emit_list es s) = fb_sess s.
Proof.
  unfold emit_list. revert s. induction es as [|e r IH]; intros s; cbn [fold_left]; [auto|].
  destruct (IH (emit1 e s)) as (H1 & H2 & H3). destruct (kcore_emit1 e s) as (H4 & H5 & H6).
  rewrite H1, H2, H3. auto.
Qed.

Lemma kcore_cut s : kcore (fq_cut s) = kcore s /\ st_up (fq_cut s) = false /\ fb_sess (fq_cut s) = fb_sess s.
Proof.
  unfold fq_cut, kcore, set_queue. destruct (st_up s) eqn:Hup; [|auto]. sfields.
  destruct (a_peer s) as [p|] eqn:Hp; sfields; rewrite ?Hp; auto.
Qed.

Lemma eq_set_closed_same q : eq_set_closed (evq_closed q) q = q.
Proof. destruct q; reflexivity. Qed.

Definition matched (s : fstate) : bool :=
  match a_peer s, fb_sess s with
  | Some p, Some se => fs_id se =? p_sid p
  | _, _ => false
  end.

Definition is_some {A} (o : option A) : bool := match o with Some _ => true | None => false end.

(* the state of the known-finding scan that corresponds to a model state *)
Definition kof (s : fstate) : kst :=
  {| k_apeer := is_some (a_peer s); k_bpeer := fb_peer s; k_match := matched s |}.

Lemma kof_kcore s s' : kcore s = kcore s' -> kof s = kof s'.
Proof.
  unfold kcore, kof, matched. intros H. injection H as H1 H2 H3 H4.
  destruct (a_peer s) as [p|], (a_peer s') as [p'|]; try discriminate; cbn [option_map is_some] in *;
    destruct (fb_sess s) as [se|], (fb_sess s') as [se'|]; try discriminate; cbn [option_map] in *; try congruence.
Qed.

(* the part of the handshake after B has answered and A has (if told so) rebuilt its queue *)
Lemma INV_hello_tail (fail_open : bool) s p se :
  INV s -> st_up s = false -> a_peer s = Some p -> fb_sess s = Some se -> (fs_id se =? p_sid p) = true ->
  let s3 := set_queue (eq_set_read (fs_next se) (p_q p)) s in
  let s4 := if fail_open then s3
            else match a_peer s3 with
                 | Some p3 => set_stream true [] [] (set_queue (eq_set_closed false (p_q p3)) s3)
                 | None => s3
                 end in
  INV s4 /\ kcore s4 = kcore s.
Proof.
  intros H Hup Hp Hse Hid. cbv zeta. destruct fail_open.
  - split.
    + apply INV_core with (s := set_stream false [] [] (set_queue (eq_set_closed (evq_closed (p_q p)) (eq_set_read (fs_next se) (p_q p))) s)).
      * destruct H as (_ & _ & _ & _ & Hdown & _). destruct (Hdown Hup) as [Hc0 Hs0].
        rewrite !(set_queue_some _ _ p Hp). unfold core. sfields. rewrite Hup, Hc0, Hs0.
        replace (evq_closed (p_q p)) with (evq_closed (eq_set_read (fs_next se) (p_q p))) by reflexivity.
        now rewrite eq_set_closed_same.
      * now apply INV_resume.
    + rewrite (set_queue_some _ _ p Hp). unfold kcore. sfields. now rewrite Hp.
  - rewrite (set_queue_some _ _ p Hp). sfields. unfold set_queue. sfields. split.
    + pose proof (INV_resume s p se true false H Hup Hp Hse Hid) as H'.
      rewrite (set_queue_some _ _ p Hp) in H'. exact H'.
    + unfold kcore. sfields. now rewrite Hp.
Qed.

Lemma fed_op_core s o : core (fed_op s o) = core s /\ fb_ret (fed_op s o) = fb_ret s /\ published (fed_op s o) = published s.
Proof. unfold fed_op, core. sfields. auto. Qed.

Lemma INV_clean_resync s p evs :
  INV s -> st_up s = false -> a_peer s = Some p -> fb_peer s = true ->
  let s1 := fed_op s (OUnsubAll NODE_A) in
  let s1c := set_server (fb_peer s1) (Some {| fs_id := p_sid p; fs_next := 0; fs_seen := [] |})
                        (fb_fed s1) (fb_ret s1) (fb_ops s1) (applied s1) (published s1) s1 in
  let s2 := emit_list evs (set_peer (Some {| p_sid := p_sid p; p_q := eq_clear (p_q p) |})
                                    (a_sidctr s1c) (a_epoch s1c + 1) (emitted s1c) s1c) in
  INV s2 /\ st_up s2 = false /\ (exists p2, a_peer s2 = Some p2 /\ p_sid p2 = p_sid p) /\
  fb_sess s2 = Some {| fs_id := p_sid p; fs_next := 0; fs_seen := [] |} /\
  kcore s2 = (Some (p_sid p), true, Some (p_sid p), a_sidctr s).
Proof.
  intros H Hup Hp Hbp. cbv zeta.
  match goal with |- INV (emit_list evs ?X) /\ _ => set (sC := X) end.
  assert (HC : INV sC).
  { apply INV_core with (s := set_peer (Some {| p_sid := p_sid p; p_q := eq_clear (p_q p) |}) (a_sidctr s) (a_epoch s + 1) (emitted s)
         (set_server true (Some {| fs_id := p_sid p; fs_next := 0; fs_seen := [] |}) (db_step (fb_fed s) (OUnsubAll NODE_A))
                     (fb_ret s) (fb_ops s ++ [OUnsubAll NODE_A]) (applied s) (published s) s)).
    - subst sC. unfold core, fed_op. sfields. now rewrite Hbp.
    - now apply INV_clean. }
  destruct (kcore_emit_list evs sC) as (Hk & Hu & Hs).
  split; [now apply INV_emit_list|]. split; [rewrite Hu; subst sC; sfields; exact Hup|].
  assert (HkC : kcore sC = (Some (p_sid p), true, Some (p_sid p), a_sidctr s)).
  { subst sC. unfold kcore, fed_op. sfields. now rewrite Hbp. }
  split.
  { rewrite HkC in Hk. unfold kcore in Hk. injection Hk as Hk1 _ _ _.
    destruct (a_peer (emit_list evs sC)) as [p2|]; [|discriminate]. exists p2. split; [reflexivity|].
    cbn [option_map] in Hk1. congruence. }
  split; [rewrite Hs; subst sC; reflexivity|]. now rewrite Hk.
Qed.
Ltac clean_branch fo s p H Hup Hp Hbps Hctr :=
  let HI := fresh "HI" in let Hu2 := fresh "Hu2" in let p2 := fresh "p2" in let Hp2 := fresh "Hp2" in
  let Hsid2 := fresh "Hsid2" in let Hse2 := fresh "Hse2" in let Hk2 := fresh "Hk2" in
  let HI' := fresh "HI'" in let HK' := fresh "HK'" in
  match goal with |- context [emit_list ?evs _] =>
    destruct (INV_clean_resync s p evs H Hup Hp Hbps) as (HI & Hu2 & (p2 & Hp2 & Hsid2) & Hse2 & Hk2) end;
  cbv zeta in HI, Hu2, Hp2, Hse2, Hk2; rewrite Hp2;
  assert (Hid2 : (p_sid p =? p_sid p2) = true) by (apply N.eqb_eq; congruence);
  destruct (INV_hello_tail fo _ p2 _ HI Hu2 Hp2 Hse2 Hid2) as [HI' HK'];
  cbv zeta in HI', HK'; cbn [fs_next] in HI', HK';
  split; [exact HI'|rewrite HK', Hk2, Hctr; reflexivity].

Lemma INV_reconnect mode order s0 :
  INV s0 ->
  (mode = HsLostResp -> is_some (a_peer s0) = true -> fb_peer s0 = true -> matched s0 = true) ->
  INV (fq_reconnect mode order s0) /\
  kcore (fq_reconnect mode order s0) =
    (if match mode with HsLostReq => false | _ => true end && is_some (a_peer s0) && fb_peer s0
     then (option_map p_sid (a_peer s0), true, option_map p_sid (a_peer s0), a_sidctr s0)
     else kcore s0).
Proof.
  intros H0 Hno. unfold fq_reconnect.
  pose proof (INV_cut _ H0) as H. destruct (kcore_cut s0) as (Hk & Hup & Hse0).
  assert (Hpeer : option_map p_sid (a_peer (fq_cut s0)) = option_map p_sid (a_peer s0)) by (unfold kcore in Hk; congruence).
  assert (Hbp : fb_peer (fq_cut s0) = fb_peer s0) by (unfold kcore in Hk; congruence).
  assert (Hctr : a_sidctr (fq_cut s0) = a_sidctr s0) by (unfold kcore in Hk; congruence).
  assert (Hmatched : matched (fq_cut s0) = matched s0).
  { pose proof (kof_kcore _ _ Hk) as Hkk. unfold kof in Hkk. now injection Hkk. }
  set (s := fq_cut s0) in *.
  destruct (a_peer s) as [p|] eqn:Hp.
  2:{ split; [exact H|]. destruct (a_peer s0); [discriminate|]. cbn [is_some]. rewrite andb_false_r. exact Hk. }
  assert (Hsome : is_some (a_peer s0) = true) by (destruct (a_peer s0); [reflexivity|discriminate]).
  assert (Hsid0 : option_map p_sid (a_peer s0) = Some (p_sid p)) by (rewrite <- Hpeer; reflexivity).
  rewrite Hsome, Hsid0.
  destruct mode eqn:Hmode; cbn [andb]; try (split; [exact H|exact Hk]).
  all: unfold server_hello; rewrite Hbp; destruct (fb_peer s0) eqn:Hbp0; try (split; [exact H|exact Hk]).
  all: assert (Hbps : fb_peer s = true) by congruence.
  all: destruct (fb_sess s) as [se|] eqn:Hse; [destruct (fs_id se =? p_sid p) eqn:Hid|].
  (* 1: HsOk, resume *)
  - rewrite Hp. destruct (INV_hello_tail false s p se H Hup Hp Hse Hid) as [HI HK]. cbv zeta in HI, HK.
    split; [exact HI|]. rewrite HK. unfold kcore. rewrite Hp, Hse, Hbp, Hctr. cbn [option_map].
    apply N.eqb_eq in Hid. now rewrite Hid.
  (* 2, 3: HsOk, clean start (other session / no session) *)
  - clean_branch false s p H Hup Hp Hbps Hctr.
  - clean_branch false s p H Hup Hp Hbps Hctr.
  (* HsLostResp *)
  - split; [exact H|]. unfold kcore. rewrite Hp, Hse, Hbp, Hctr. cbn [option_map]. apply N.eqb_eq in Hid. now rewrite Hid.
  - exfalso. specialize (Hno eq_refl Hsome eq_refl). rewrite <- Hmatched in Hno. unfold matched in Hno. rewrite Hp, Hse in Hno. congruence.
  - exfalso. specialize (Hno eq_refl Hsome eq_refl). rewrite <- Hmatched in Hno. unfold matched in Hno. rewrite Hp, Hse in Hno. congruence.
  (* HsFailOpen *)
  - rewrite Hp. destruct (INV_hello_tail true s p se H Hup Hp Hse Hid) as [HI HK]. cbv zeta in HI, HK.
    split; [exact HI|]. rewrite HK. unfold kcore. rewrite Hp, Hse, Hbp, Hctr. cbn [option_map].
    apply N.eqb_eq in Hid. now rewrite Hid.
  - clean_branch true s p H Hup Hp Hbps Hctr.
  - clean_branch true s p H Hup Hp Hbps Hctr.
Qed.

(* ---- frame facts: what the stream operations leave alone ---- *)
Lemma kcore_send s : kcore (fq_send s) = kcore s.
Proof.
  unfold fq_send. destruct (st_up s); [|reflexivity]. destruct (a_peer s) as [p|] eqn:Hp; [|reflexivity].
  destruct (eq_fetch (p_q p)) as [[| |batch] q']; try reflexivity.
  destruct (forallb _ batch).
  - rewrite (set_queue_some _ _ p Hp). unfold kcore. sfields. now rewrite Hp.
  - destruct (kcore_cut (set_queue q' s)) as [-> _]. rewrite (set_queue_some _ _ p Hp). unfold kcore. sfields. now rewrite Hp.
Qed.

Lemma kcore_deliver b s : kcore (fq_deliver b s) = kcore s.
Proof.
  unfold fq_deliver. destruct (st_up s); [|reflexivity]. destruct (c2s s) as [|[[ep id] e] rest]; [reflexivity|].
  destruct (fb_sess s) as [se|] eqn:Hse; [|reflexivity].
  destruct (lru_set id (fs_seen se)) as [dup seen'].
  destruct b.
  - destruct dup; [unfold kcore; sfields; now rewrite Hse|].
    destruct e; unfold apply_event, fed_op, kcore; sfields; now rewrite Hse.
  - match goal with |- kcore (fq_cut ?X) = _ => destruct (kcore_cut X) as [-> _] end.
    destruct dup; [unfold kcore; sfields; now rewrite Hse|].
    destruct e; unfold apply_event, fed_op, kcore; sfields; now rewrite Hse.
Qed.

Lemma kcore_ack_deliver s : kcore (fq_ack_deliver s) = kcore s.
Proof.
  unfold fq_ack_deliver. destruct (st_up s); [|reflexivity]. destruct (s2c s) as [|id rest]; [reflexivity|].
  destruct (a_peer s) as [p|] eqn:Hp; [|reflexivity].
  rewrite (set_queue_some _ _ p) by (sfields; exact Hp). unfold kcore. sfields. now rewrite Hp.
Qed.

(* ---- both loops until idle ---- *)
Lemma INV_deliver_all n s : INV s -> INV (fq_deliver_all n s) /\ kcore (fq_deliver_all n s) = kcore s.
Proof.
  revert s. induction n as [|n IH]; intros s H; cbn [fq_deliver_all]; [now split|].
  destruct (st_up s && negb (is_nil (c2s s))); [|now split].
  destruct (IH _ (INV_deliver true s H)) as [H1 H2]. split; [exact H1|]. now rewrite H2, kcore_deliver.
Qed.

Lemma INV_ack_all n s : INV s -> INV (fq_ack_all n s) /\ kcore (fq_ack_all n s) = kcore s.
Proof.
  revert s. induction n as [|n IH]; intros s H; cbn [fq_ack_all]; [now split|].
  destruct (st_up s && negb (is_nil (s2c s))); [|now split].
  destruct (IH _ (INV_ack_deliver s H)) as [H1 H2]. split; [exact H1|]. now rewrite H2, kcore_ack_deliver.
Qed.

Lemma INV_drain_round s : INV s -> INV (fq_drain_round s) /\ kcore (fq_drain_round s) = kcore s.
Proof.
  intros H. unfold fq_drain_round.
  pose proof (INV_send s H) as H1.
  destruct (INV_deliver_all (length (c2s (fq_send s))) _ H1) as [H2 K2].
  destruct (INV_ack_all (length (s2c (fq_deliver_all (length (c2s (fq_send s))) (fq_send s)))) _ H2) as [H3 K3].
  split; [exact H3|]. now rewrite K3, K2, kcore_send.
Qed.

Lemma INV_drain_loop n s : INV s -> INV (fq_drain_loop n s) /\ kcore (fq_drain_loop n s) = kcore s.
Proof.
  revert s. induction n as [|n IH]; intros s H; cbn [fq_drain_loop]; [now split|].
  destruct (negb (st_up s) || fq_idle s); [now split|].
  destruct (INV_drain_round s H) as [H1 K1]. destruct (IH _ H1) as [H2 K2]. split; [exact H2|]. now rewrite K2, K1.
Qed.

Lemma INV_drain s : INV s -> INV (fq_drain s) /\ kcore (fq_drain s) = kcore s.
Proof. intros H. unfold fq_drain. destruct (a_peer s) as [p|]; [now apply INV_drain_loop|now split]. Qed.

(* ---- membership changes ---- *)
Lemma INV_forget s bp fed ret ops :
  INV s -> st_up s = false -> INV (set_server bp None fed ret ops (applied s) (published s) s).
Proof.
  intros (Hpre & Hem & Hap & Hc & Hdown & Hsess & Hq) Hup. unfold INV, Eof, Aof. sfields.
  split; [exact Hpre|]. split; [exact Hem|]. split; [exact Hap|]. split; [exact Hc|]. split; [exact Hdown|].
  split; [intros se Hs; discriminate|].
  destruct (a_peer s) as [p|]; [|exact Hq]. destruct Hq as [Hsid (pre & HEq & Hcons & Hnext & Hbad & Hread & Hm)].
  split; [exact Hsid|]. exists pre. repeat (split; [assumption|]). exact Hup.
Qed.

Lemma INV_peer_lost s : INV s ->
  let s1 := fed_op s (OUnsubAll NODE_A) in
  INV (fq_cut (set_server false None (fb_fed s1) (fb_ret s1) (fb_ops s1) (applied s1) (published s1) s1)).
Proof.
  intros H. cbv zeta.
  apply INV_core with (s := set_server false None (db_step (fb_fed s) (OUnsubAll NODE_A)) (fb_ret s) (fb_ops s ++ [OUnsubAll NODE_A])
                                        (applied (fq_cut s)) (published (fq_cut s)) (fq_cut s)).
  - unfold fq_cut, fed_op, set_queue, core. sfields. destruct (st_up s); [|reflexivity]. sfields.
    destruct (a_peer s); reflexivity.
  - apply INV_forget; [now apply INV_cut|]. now destruct (kcore_cut s) as (_ & -> & _).
Qed.

Lemma INV_peer_join s : INV s -> INV (set_server true (fb_sess s) (fb_fed s) (fb_ret s) (fb_ops s) (applied s) (published s) s).
Proof.
  intros (Hpre & Hem & Hap & Hc & Hdown & Hsess & Hq). unfold INV, Eof, Aof. sfields.
  split; [exact Hpre|]. split; [exact Hem|]. split; [exact Hap|]. split; [exact Hc|]. split; [exact Hdown|].
  split; [intros se Hs; split; [now apply Hsess|reflexivity]|exact Hq].
Qed.

Lemma INV_drop_peer s : INV s -> INV (set_peer None (a_sidctr (fq_cut s)) (a_epoch (fq_cut s)) (emitted (fq_cut s)) (fq_cut s)).
Proof.
  intros H. pose proof (INV_cut s H) as (Hpre & Hem & Hap & Hc & Hdown & Hsess & Hq).
  destruct (kcore_cut s) as (_ & Hup & _).
  unfold INV, Eof, Aof. sfields.
  split; [exact Hpre|]. split; [exact Hem|]. split; [exact Hap|]. split; [exact Hc|]. split; [exact Hdown|].
  split; [exact Hsess|exact Hup].
Qed.

Lemma INV_join_peer s : INV s -> a_peer s = None ->
  INV (set_peer (Some {| p_sid := a_sidctr s; p_q := eq_new |}) (a_sidctr s + 1) (a_epoch s + 1) (emitted s) s).
Proof.
  intros (Hpre & Hem & Hap & Hc & Hdown & Hsess & Hq) Hp. rewrite Hp in Hq.
  unfold INV, Eof, Aof. sfields. destruct (Hdown Hq) as [Hc0 Hs0].
  split; [exact Hpre|]. split; [intros t Ht; apply Hem in Ht; lia|]. split; [intros t Ht; apply Hap in Ht; lia|].
  split; [rewrite Hc0; intros t []|]. split; [exact Hdown|].
  split; [intros se Hs; destruct (Hsess se Hs); split; [lia|assumption]|]. split; [lia|].
  assert (HE0 : proj (a_epoch s + 1) (emitted s) = []) by (apply proj_none; intros t Ht; apply Hem in Ht; lia).
  assert (HA0 : proj (a_epoch s + 1) (applied s) = []) by (apply proj_none; intros t Ht; apply Hap in Ht; lia).
  rewrite HE0, HA0. exists []. unfold eq_new. sfields.
  split; [reflexivity|]. split; [exact I|]. split; [reflexivity|]. split; [reflexivity|]. split; [now left|].
  destruct (fb_sess s) as [se|] eqn:Hse; [|exact Hq].
  destruct (Hsess se eq_refl) as [Hlt _]. destruct (N.eqb_spec (fs_id se) (a_sidctr s)) as [E|_]; [lia|exact Hq].
Qed.

(* ---- one step of the schedule ---- *)
Lemma kof_matched s x b c : kcore s = (Some x, b, Some x, c) -> kof s = {| k_apeer := true; k_bpeer := b; k_match := true |}.
Proof.
  unfold kcore, kof, matched. intros H. injection H as H1 H2 H3 _.
  destruct (a_peer s) as [p|]; [|discriminate]. destruct (fb_sess s) as [se|]; [|discriminate].
  cbn [option_map] in H1, H3. injection H1 as ->. injection H3 as ->. cbn [is_some]. now rewrite N.eqb_refl, H2.
Qed.

Lemma step_inv s ev order : INV s -> snd (kstep (kof s) ev) = false ->
  INV (fq_step s ev order) /\ kof (fq_step s ev order) = fst (kstep (kof s) ev).
Proof.
  intros H Hno. destruct ev; cbn [fq_step kstep fst snd] in *.
  - (* QSub *)
    destruct (ls_subscribe c (fed_full_topic share filter) (a_index s) (a_topics s)) as [[ix tp] fresh].
    destruct fresh; [|split; [exact H|reflexivity]].
    split; [apply INV_emit1; exact H|]. apply kof_kcore. now destruct (kcore_emit1 (ESub share filter) (set_local ix tp s)) as [-> _].
  - (* QUnsub *)
    destruct (ls_unsubscribe c topic (a_index s) (a_topics s)) as [[ix tp] gone].
    destruct gone; [|split; [exact H|reflexivity]].
    split; [apply INV_emit1; exact H|]. apply kof_kcore. now destruct (kcore_emit1 (EUnsub topic) (set_local ix tp s)) as [-> _].
  - (* QTerm *)
    destruct (ls_unsubscribe_all c (a_index s) (a_topics s)) as [[ix tp] rm].
    split; [apply INV_emit_list; exact H|]. apply kof_kcore.
    now destruct (kcore_emit_list (fq_resolve (map EUnsub rm) order) (set_local ix tp s)) as [-> _].
  - (* QMsg *)
    split; [now apply INV_emit1|]. apply kof_kcore. now destruct (kcore_emit1 (EMsg (msg_event_form m)) s) as [-> _].
  - split; [now apply INV_send|apply kof_kcore, kcore_send].
  - split; [now apply INV_deliver|apply kof_kcore, kcore_deliver].
  - split; [now apply INV_ack_deliver|apply kof_kcore, kcore_ack_deliver].
  - split; [now apply INV_cut|apply kof_kcore; now destruct (kcore_cut s) as [-> _]].
  - (* QReconnect *)
    assert (Hcond : mode = HsLostResp -> is_some (a_peer s) = true -> fb_peer s = true -> matched s = true).
    { intros -> Ha Hb. cbn [kof k_apeer k_bpeer k_match] in Hno. rewrite Ha, Hb in Hno. cbn [andb snd] in Hno.
      destruct (matched s); [reflexivity|discriminate]. }
    destruct (INV_reconnect mode order s H Hcond) as [HI HK]. split; [exact HI|].
    destruct mode; cbn [andb] in HK.
    + cbn [kof k_apeer k_bpeer] in *. destruct (is_some (a_peer s)) eqn:Ha, (fb_peer s) eqn:Hb; cbn [andb fst] in *;
        try (apply kof_kcore in HK; rewrite HK; unfold kof; now rewrite Ha, Hb).
      destruct (a_peer s) as [p|]; [|discriminate]. cbn [option_map] in HK. exact (kof_matched _ _ _ _ HK).
    + apply kof_kcore in HK. exact HK.
    + cbn [kof k_apeer k_bpeer] in *. destruct (is_some (a_peer s)) eqn:Ha, (fb_peer s) eqn:Hb; cbn [andb fst] in *;
        try (apply kof_kcore in HK; rewrite HK; unfold kof; now rewrite Ha, Hb).
      destruct (a_peer s) as [p|]; [|discriminate]. cbn [option_map] in HK. exact (kof_matched _ _ _ _ HK).
    + cbn [kof k_apeer k_bpeer] in *. destruct (is_some (a_peer s)) eqn:Ha, (fb_peer s) eqn:Hb; cbn [andb fst] in *;
        try (apply kof_kcore in HK; rewrite HK; unfold kof; now rewrite Ha, Hb).
      destruct (a_peer s) as [p|]; [|discriminate]. cbn [option_map] in HK. exact (kof_matched _ _ _ _ HK).
  - (* QDrain *)
    destruct (INV_drain s H) as [HI HK]. split; [exact HI|now apply kof_kcore].
  - (* QPeerLost *)
    cbn [kof k_bpeer]. destruct (fb_peer s) eqn:Hb; cbn [fst]; [|split; [exact H|unfold kof; now rewrite Hb]].
    split; [exact (INV_peer_lost s H)|].
    match goal with |- kof (fq_cut ?X) = _ => destruct (kcore_cut X) as (Hk & _ & _); rewrite (kof_kcore _ _ Hk) end.
    unfold kof, matched, fed_op. sfields. now destruct (a_peer s).
  - (* QPeerJoin *)
    split; [now apply INV_peer_join|]. unfold kof, matched. sfields. reflexivity.
  - (* QDropPeer *)
    destruct (a_peer s) as [p|] eqn:Hp.
    + split; [exact (INV_drop_peer s H)|]. unfold kof, matched. sfields. cbn [is_some].
      destruct (kcore_cut s) as (Hk & _ & _). unfold kcore in Hk. injection Hk as _ -> _ _. reflexivity.
    + split; [exact H|]. unfold kof, matched. rewrite Hp. reflexivity.
  - (* QJoinPeer *)
    destruct (a_peer s) as [p|] eqn:Hp.
    + split; [exact H|]. unfold kof. rewrite Hp. reflexivity.
    + split; [now apply INV_join_peer|]. unfold kof, matched. sfields. rewrite Hp. cbn [is_some].
      destruct (fb_sess s) as [se|] eqn:Hse; [|reflexivity].
      destruct H as (_ & _ & _ & _ & _ & Hsess & _). destruct (Hsess se Hse) as [Hlt _].
      destruct (N.eqb_spec (fs_id se) (a_sidctr s)); [lia|reflexivity].
Qed.

Lemma run_inv evs : forall s orders, INV s -> kscan (kof s) evs = false -> INV (fq_run s evs orders).
Proof.
  induction evs as [|ev r IH]; intros s orders H Hk; cbn [fq_run]; [exact H|].
  cbn [kscan] in Hk. destruct (kstep (kof s) ev) as [k' hit] eqn:Hst. apply orb_false_iff in Hk as [Hhit Hk].
  destruct (step_inv s ev (hd [] orders) H) as [HI HK]; [rewrite Hst; exact Hhit|].
  apply IH; [exact HI|]. rewrite HK, Hst. exact Hk.
Qed.

(* ------------------------------------------------------------------ *)
(* the statements                                                      *)
(* ------------------------------------------------------------------ *)

(* what B applied is, epoch by epoch, a prefix of what A emitted: in emission order,
   without gaps and without duplicates *)
Definition prefix_ok (s : fstate) : Prop :=
  forall ep, exists rest, proj ep (emitted s) = proj ep (applied s) ++ rest.

Definition no_dangling (s : fstate) : Prop :=
  match a_peer s with Some p => evq_bad (p_q p) = false | None => True end.

Lemma fq_prefix_partial ret evs orders :
  kf_hello_reply_lost evs = false ->
  prefix_ok (fq_run (fq_init ret) evs orders) /\ no_dangling (fq_run (fq_init ret) evs orders).
Proof.
  intros Hk. assert (H : INV (fq_run (fq_init ret) evs orders)) by (apply run_inv; [apply INV_init|exact Hk]).
  destruct H as (Hpre & _ & _ & _ & _ & _ & Hq). split; [exact Hpre|].
  unfold no_dangling. destruct (a_peer _) as [p|]; [|exact I].
  destruct Hq as [_ (pre & _ & _ & _ & Hbad & _)]. exact Hbad.
Qed.

(* the full statement is false of the code: a Hello reply lost while B starts a fresh
   session makes A resume with its old queue - event 0 is applied twice *)
Definition ex_msg : msg :=
  {| m_dup := false; m_qos := 1; m_retained := false; m_topic := [97]; m_payload := [49]; m_pid := 0;
     m_ctype := []; m_corr := []; m_expiry := 0; m_pfmt := 0; m_resp := []; m_subids := []; m_uprops := [] |}.

Definition ex_lost_hello : list fqev :=
  [QPeerJoin; QJoinPeer; QReconnect HsOk; QMsg ex_msg; QSend; QDeliver true; QCut;
   QPeerLost; QPeerJoin; QReconnect HsLostResp; QReconnect HsOk; QSend; QDeliver true].

Lemma fq_prefix_refuted : exists ret evs orders, ~ prefix_ok (fq_run (fq_init ret) evs orders).
Proof.
  exists [], ex_lost_hello, []. intros H. destruct (H 2) as [rest Hr]. vm_compute in Hr. discriminate.
Qed.

Lemma ex_lost_hello_kf : kf_hello_reply_lost ex_lost_hello = true.
Proof. vm_compute. reflexivity. Qed.

(* ------------------------------------------------------------------ *)
(* completeness: both loops run to idle                                *)
(* ------------------------------------------------------------------ *)

(* shape of the state while the loops run without a fault *)
Lemma deliver_true_shape s ep id e rest se :
  st_up s = true -> c2s s = (ep, id, e) :: rest -> fb_sess s = Some se ->
  let s' := fq_deliver true s in
  st_up s' = true /\ c2s s' = rest /\ s2c s' = s2c s ++ [id] /\ a_peer s' = a_peer s /\
  a_epoch s' = a_epoch s /\ emitted s' = emitted s /\
  exists se', fb_sess s' = Some se' /\ fs_id se' = fs_id se /\ fs_next se' = id + 1.
Proof.
  intros Hup Hc Hse. cbv zeta. unfold fq_deliver. rewrite Hup, Hc, Hse.
  destruct (lru_set id (fs_seen se)) as [dup seen'].
  destruct dup; [sfields; repeat split; eexists; repeat split|].
  destruct e; unfold apply_event, fed_op; sfields; repeat split; eexists; repeat split.
Qed.

Lemma deliver_all_shape : forall cs s se,
  st_up s = true -> c2s s = cs -> fb_sess s = Some se ->
  let s' := fq_deliver_all (length cs) s in
  st_up s' = true /\ c2s s' = [] /\ s2c s' = s2c s ++ map (fun t : tagged => snd (fst t)) cs /\ a_peer s' = a_peer s /\
  a_epoch s' = a_epoch s /\ emitted s' = emitted s /\
  exists se', fb_sess s' = Some se' /\ fs_id se' = fs_id se /\
              fs_next se' = match rev cs with [] => fs_next se | t :: _ => snd (fst t) + 1 end.
Proof.
  induction cs as [|[[ep id] e] rest IH]; intros s se Hup Hc Hse; cbv zeta; cbn [length fq_deliver_all].
  - rewrite app_nil_r. repeat split; try assumption. now exists se.
  - rewrite Hup, Hc. cbn [is_nil negb andb].
    destruct (deliver_true_shape s ep id e rest se Hup Hc Hse) as (H1 & H2 & H3 & H4 & H5 & H6 & se1 & Hs1 & Hi1 & Hn1).
    destruct (IH _ se1 H1 H2 Hs1) as (G1 & G2 & G3 & G4 & G5 & G6 & se2 & Hs2 & Hi2 & Hn2).
    split; [exact G1|]. split; [exact G2|]. split; [rewrite G3, H3, <- app_assoc; reflexivity|].
    split; [congruence|]. split; [congruence|]. split; [congruence|].
    exists se2. split; [exact Hs2|]. split; [congruence|]. rewrite Hn2. cbn [rev].
    destruct (rev rest) as [|t r] eqn:Hr; cbn [app]; [exact Hn1|reflexivity].
Qed.

Lemma ack_all_shape : forall sc s p,
  st_up s = true -> s2c s = sc -> a_peer s = Some p ->
  let s' := fq_ack_all (length sc) s in
  st_up s' = true /\ c2s s' = c2s s /\ s2c s' = [] /\ fb_sess s' = fb_sess s /\ a_epoch s' = a_epoch s /\ emitted s' = emitted s /\
  exists p', a_peer s' = Some p' /\ p_sid p' = p_sid p /\ evq_read (p_q p') = evq_read (p_q p) /\
             evq_closed (p_q p') = evq_closed (p_q p).
Proof.
  induction sc as [|id rest IH]; intros s p Hup Hs Hp; cbv zeta; cbn [length fq_ack_all].
  - repeat split; try assumption. now exists p.
  - rewrite Hup, Hs. cbn [is_nil negb andb].
    assert (Hstep : let s1 := fq_ack_deliver s in
                    st_up s1 = true /\ c2s s1 = c2s s /\ s2c s1 = rest /\ fb_sess s1 = fb_sess s /\ a_epoch s1 = a_epoch s /\
                    emitted s1 = emitted s /\
                    a_peer s1 = Some {| p_sid := p_sid p; p_q := eq_ack id (p_q p) |}).
    { cbv zeta. unfold fq_ack_deliver. rewrite Hup, Hs, Hp. rewrite (set_queue_some _ _ p) by (sfields; exact Hp).
      sfields. repeat split; assumption. }
    cbv zeta in Hstep. destruct Hstep as (H1 & H2 & H3 & H4 & H5 & H6 & H7).
    destruct (IH _ _ H1 H3 H7) as (G1 & G2 & G3 & G4 & G5 & G6 & p' & Hp' & Hi & Hr & Hc).
    split; [exact G1|]. split; [congruence|]. split; [exact G3|]. split; [congruence|]. split; [congruence|]. split; [congruence|].
    exists p'. split; [exact Hp'|]. split; [exact Hi|]. split; [exact Hr|exact Hc].
Qed.

Lemma consec_skipn_head b l k x : consec b l -> head_id (skipn k l) = Some x -> x = b + N.of_nat k.
Proof.
  revert b l. induction k as [|k IH]; intros b l Hc H.
  - cbn [skipn] in H. destruct l as [|[i e] r]; [discriminate|]. cbn [consec head_id] in *. destruct Hc as [-> _]. injection H as <-. lia.
  - destruct l as [|[i e] r]; [discriminate|]. cbn [skipn] in H. cbn [consec] in Hc. destruct Hc as [-> Hc].
    rewrite (IH _ _ Hc H). lia.
Qed.

Lemma In_firstn {A} (x : A) k l : In x (firstn k l) -> In x l.
Proof. revert l. induction k as [|k IH]; intros [|y r] H; cbn [firstn] in H; try contradiction. destruct H as [->|H]; [now left|right; now apply IH]. Qed.

Lemma In_drop_until x id l : In x (drop_until id l) -> In x l.
Proof.
  induction l as [|[i e] r IH]; cbn [drop_until]; [tauto|]. destruct (i =? id); [tauto|]. intros H. right. now apply IH.
Qed.

Lemma In_proj ep x l : In x (proj ep l) -> exists t, In t l /\ untag t = x.
Proof. unfold proj. intros H. apply in_map_iff in H as (t & Ht & Hin). apply filter_In in Hin as [Hin _]. now exists t. Qed.

(* position of the next event to read *)
Definition rpos (s : fstate) : N :=
  match a_peer s with
  | Some p => match evq_read (p_q p) with Some r => r | None => nlen (Eof s) end
  | None => 0
  end.
Definition unread (s : fstate) : N := nlen (Eof s) - rpos s.

(* the stream is up, nothing is in flight, the queue is open, every emitted event can be marshalled *)
Definition DS (s : fstate) : Prop :=
  INV s /\ st_up s = true /\ c2s s = [] /\ s2c s = [] /\
  (exists p, a_peer s = Some p /\ evq_closed (p_q p) = false) /\
  (forall t, In t (emitted s) -> marshal_ok (snd t) = true).

Lemma DS_round s : DS s -> fq_idle s = false ->
  DS (fq_drain_round s) /\ unread (fq_drain_round s) < unread s.
Proof.
  intros (HI & Hup & Hc & Hs & (p & Hp & Hopen) & Hmok) Hidle.
  pose proof HI as (Hpre & Hem & Hap & Hcep & Hdown & Hsess & Hq). rewrite Hp in Hq. destruct Hq as [Hsid Hq].
  destruct Hq as (pre & HEq & Hcons & Hnext & Hbad & Hread & Hm).
  destruct (fb_sess s) as [se|] eqn:Hse; [|congruence]. destruct (fs_id se =? p_sid p) eqn:Hid; [|congruence].
  rewrite Hup, Hc, Hs in Hm.
  destruct Hm as (D & C & U & HD & HnD & Hpd & Hc2 & HupU & _ & HA & Hseen & Hs2).
  destruct C as [|? ?]; [|discriminate]. cbn [app] in HD, HA.
  (* not idle: there is something to read *)
  unfold fq_idle in Hidle. rewrite Hup, Hc, Hs, Hp in Hidle. cbn [is_nil andb] in Hidle.
  destruct (evq_read (p_q p)) as [r|] eqn:Hr; [|discriminate].
  pose proof (HupU eq_refl) as HrU. destruct U as [|[r' e0] U1]; [discriminate|]. cbn [head_id] in HrU. injection HrU as <-.
  assert (Hsplit : exists l1, evq_l (p_q p) = l1 ++ (r, e0) :: U1 /\ D = pre ++ l1).
  { apply app_eq_prefix; [rewrite <- HEq; exact HD|]. unfold nlen in Hpd. lia. }
  destruct Hsplit as (l1 & HL & HDl).
  assert (HrD : r = nlen D) by (pose proof Hcons as Hc'; rewrite HD in Hc'; apply consec_head in Hc'; lia).
  assert (HconsU : consec r ((r, e0) :: U1)).
  { pose proof Hcons as Hc'. rewrite HD in Hc'. apply consec_app in Hc' as [_ Hc']. rewrite N.add_0_l, <- HrD in Hc'. exact Hc'. }
  assert (Hdrop : drop_until r (evq_l (p_q p)) = (r, e0) :: U1).
  { rewrite HL. pose proof Hcons as Hc'. rewrite HEq, HL in Hc'. apply consec_app in Hc' as [_ Hc'].
    pose proof (consec_head _ _ _ _ _ Hc') as Hrr. rewrite Hrr at 1. apply drop_until_consec; [exact Hc'|discriminate]. }
  (* the send step *)
  set (U0 := (r, e0) :: U1) in *.
  set (batch := firstn FETCH_MAX U0).
  set (q' := {| evq_next := evq_next (p_q p); evq_l := evq_l (p_q p); evq_read := head_id (skipn FETCH_MAX U0);
                evq_closed := evq_closed (p_q p); evq_bad := evq_bad (p_q p) |}).
  assert (Hfetch : eq_fetch (p_q p) = (FEvents batch, q')).
  { unfold eq_fetch. rewrite Hopen, Hr. destruct (evq_l (p_q p)) as [|x l] eqn:Hl.
    - destruct l1; discriminate.
    - rewrite Hdrop. subst q' batch. rewrite Hopen. reflexivity. }
  assert (Hbm : forallb (fun ie : N * fevent => marshal_ok (snd ie)) batch = true).
  { apply forallb_forall. intros x Hx. apply In_firstn in Hx.
    assert (HxE : In x (Eof s)) by (rewrite HD; apply in_or_app; now right).
    apply In_proj in HxE as (t & Ht & <-). now apply Hmok. }
  set (s1 := fq_send s).
  assert (Hs1 : s1 = set_stream true (map (fun ie : N * fevent => (a_epoch s, fst ie, snd ie)) batch) [] (set_queue q' s)).
  { subst s1. unfold fq_send. rewrite Hup, Hp, Hfetch, Hbm. rewrite (set_queue_some _ _ p Hp). sfields. now rewrite Hc, Hs. }
  assert (Hp1 : a_peer s1 = Some {| p_sid := p_sid p; p_q := q' |}) by (rewrite Hs1, (set_queue_some _ _ p Hp); reflexivity).
  assert (Hup1 : st_up s1 = true) by (rewrite Hs1; reflexivity).
  assert (Hse1 : fb_sess s1 = Some se) by (rewrite Hs1, (set_queue_some _ _ p Hp); exact Hse).
  (* deliver everything, acknowledge everything *)
  destruct (deliver_all_shape (c2s s1) s1 se Hup1 eq_refl Hse1) as (G1 & G2 & G3 & G4 & G5 & G6 & se2 & Hs2' & Hi2 & Hn2).
  set (s2 := fq_deliver_all (length (c2s s1)) s1) in *.
  rewrite Hp1 in G4.
  destruct (ack_all_shape (s2c s2) s2 _ G1 eq_refl G4) as (K1 & K2 & K3 & K4 & K5 & K6 & p3 & Hp3 & Hi3 & Hr3 & Hc3).
  set (s3 := fq_ack_all (length (s2c s2)) s2) in *.
  assert (Hround : fq_drain_round s = s3) by reflexivity.
  rewrite Hround.
  assert (HE3 : Eof s3 = Eof s).
  { unfold Eof. rewrite K5, K6, G5, G6, Hs1, (set_queue_some _ _ p Hp). reflexivity. }
  split.
  - split; [rewrite <- Hround; now apply INV_drain_round|]. split; [exact K1|]. split; [rewrite K2; exact G2|]. split; [exact K3|].
    split; [exists p3; split; [exact Hp3|]; rewrite Hc3; exact Hopen|].
    intros t Ht. apply Hmok. rewrite K6, G6, Hs1, (set_queue_some _ _ p Hp) in Ht. exact Ht.
  - unfold unread, rpos. rewrite HE3, Hp3, Hr3, Hp. cbn [p_q q' evq_read]. rewrite Hr.
    assert (Hlt : r < nlen (Eof s)) by (rewrite HD, nlen_app; subst U0; rewrite nlen_cons; lia).
    destruct (head_id (skipn FETCH_MAX U0)) as [r2|] eqn:Hh; [|lia].
    pose proof (consec_skipn_head _ _ _ _ HconsU Hh) as Hr2. unfold FETCH_MAX in Hr2. lia.
Qed.

Lemma DS_loop : forall n s, DS s -> unread s < N.of_nat n ->
  DS (fq_drain_loop n s) /\ fq_idle (fq_drain_loop n s) = true.
Proof.
  induction n as [|n IH]; intros s Hds Hlt; [lia|]. cbn [fq_drain_loop].
  pose proof Hds as (_ & Hup & _). rewrite Hup. cbn [negb orb].
  destruct (fq_idle s) eqn:Hidle; [now split|].
  destruct (DS_round s Hds Hidle) as [Hds' Hlt']. apply IH; [exact Hds'|lia].
Qed.

Lemma DS_unread_bound s p : DS s -> a_peer s = Some p -> unread s <= nlen (evq_l (p_q p)).
Proof.
  intros (HI & _) Hp. destruct HI as (_ & _ & _ & _ & _ & _ & Hq). rewrite Hp in Hq.
  destruct Hq as [_ (pre & HEq & _ & _ & _ & Hread & _)].
  unfold unread, rpos. rewrite Hp. assert (nlen (Eof s) = nlen pre + nlen (evq_l (p_q p))) by (rewrite HEq at 1; apply nlen_app).
  destruct Hread as [->|(r & -> & H1 & H2)]; lia.
Qed.

Lemma DS_drain s : DS s -> DS (fq_drain s) /\ fq_idle (fq_drain s) = true.
Proof.
  intros Hds. pose proof Hds as (_ & _ & _ & _ & (p & Hp & _) & _). unfold fq_drain. rewrite Hp.
  apply DS_loop; [exact Hds|]. pose proof (DS_unread_bound s p Hds Hp). unfold nlen in *. lia.
Qed.

(* idle: everything emitted in the current epoch has been applied *)
Lemma DS_idle_complete s : DS s -> fq_idle s = true -> Aof s = Eof s.
Proof.
  intros (HI & Hup & Hc & Hs & (p & Hp & _) & _) Hidle.
  destruct HI as (_ & _ & _ & _ & _ & _ & Hq). rewrite Hp in Hq. destruct Hq as [_ (pre & _ & _ & _ & _ & _ & Hm)].
  destruct (fb_sess s) as [se|]; [|congruence]. destruct (fs_id se =? p_sid p); [|congruence].
  rewrite Hup, Hc in Hm. destruct Hm as (D & C & U & HD & _ & _ & Hc2 & HupU & _ & HA & _).
  destruct C; [|discriminate]. unfold fq_idle in Hidle. rewrite Hup, Hc, Hs, Hp in Hidle. cbn [is_nil andb] in Hidle.
  destruct (evq_read (p_q p)) eqn:Hr; [discriminate|]. pose proof (HupU eq_refl) as HU.
  destruct U as [|[? ?] ?]; [|discriminate]. cbn [app] in HD, HA. rewrite app_nil_r in HD.
  destruct HA as [HA|(x & e & rest & Habs & _)]; [congruence|discriminate].
Qed.

(* ------------------------------------------------------------------ *)
(* every emitted event can be marshalled (when the schedule carries no   *)
(* string that is not UTF-8)                                            *)
(* ------------------------------------------------------------------ *)

Definition goodt (t : str) : Prop :=
  utf8_valid t = true /\ marshal_ok (ESub (fst (split_topic t)) (snd (split_topic t))) = true.

Definition LT (s : fstate) : Prop :=
  (forall c keys, In (c, keys) (a_index s) -> forall t, In t keys -> goodt t) /\
  (forall t n, In (t, n) (a_topics s) -> goodt t) /\
  (forall m, In m (a_ret s) -> marshal_ok (EMsg m) = true) /\
  (forall t, In t (emitted s) -> marshal_ok (snd t) = true).

Definition lcore (s : fstate) := (a_index s, a_topics s, a_ret s, emitted s).

Lemma LT_lcore s s' : lcore s = lcore s' -> LT s -> LT s'.
Proof. unfold lcore, LT. intros H. injection H as H1 H2 H3 H4. now rewrite H1, H2, H3, H4. Qed.

Lemma lcore_cut s : lcore (fq_cut s) = lcore s.
Proof. unfold fq_cut, set_queue, lcore. destruct (st_up s); [|reflexivity]. sfields. destruct (a_peer s); reflexivity. Qed.

Lemma lcore_send s : lcore (fq_send s) = lcore s.
Proof.
  unfold fq_send. destruct (st_up s); [|reflexivity]. destruct (a_peer s) as [p|] eqn:Hp; [|reflexivity].
  destruct (eq_fetch (p_q p)) as [[| |batch] q']; try reflexivity.
  destruct (forallb _ batch); [|rewrite lcore_cut]; rewrite (set_queue_some _ _ p Hp); reflexivity.
Qed.

Lemma lcore_deliver b s : lcore (fq_deliver b s) = lcore s.
Proof.
  unfold fq_deliver. destruct (st_up s); [|reflexivity]. destruct (c2s s) as [|[[ep id] e] rest]; [reflexivity|].
  destruct (fb_sess s) as [se|]; [|reflexivity]. destruct (lru_set id (fs_seen se)) as [dup seen'].
  destruct b; [|rewrite lcore_cut]; (destruct dup; [reflexivity|destruct e; reflexivity]).
Qed.

Lemma lcore_ack_deliver s : lcore (fq_ack_deliver s) = lcore s.
Proof.
  unfold fq_ack_deliver. destruct (st_up s); [|reflexivity]. destruct (s2c s) as [|id rest]; [reflexivity|].
  destruct (a_peer s) as [p|] eqn:Hp; [|reflexivity]. rewrite (set_queue_some _ _ p) by (sfields; exact Hp). reflexivity.
Qed.

Lemma lcore_deliver_all n s : lcore (fq_deliver_all n s) = lcore s.
Proof. revert s. induction n as [|n IH]; intros s; cbn [fq_deliver_all]; [reflexivity|]. destruct (_ && _); [|reflexivity]. now rewrite IH, lcore_deliver. Qed.
Lemma lcore_ack_all n s : lcore (fq_ack_all n s) = lcore s.
Proof. revert s. induction n as [|n IH]; intros s; cbn [fq_ack_all]; [reflexivity|]. destruct (_ && _); [|reflexivity]. now rewrite IH, lcore_ack_deliver. Qed.
Lemma lcore_drain_loop n s : lcore (fq_drain_loop n s) = lcore s.
Proof.
  revert s. induction n as [|n IH]; intros s; cbn [fq_drain_loop]; [reflexivity|]. destruct (_ || _); [reflexivity|].
  rewrite IH. unfold fq_drain_round. now rewrite lcore_ack_all, lcore_deliver_all, lcore_send.
Qed.
Lemma lcore_drain s : lcore (fq_drain s) = lcore s.
Proof. unfold fq_drain. destruct (a_peer s); [apply lcore_drain_loop|reflexivity]. Qed.

Lemma LT_emit1 e s : LT s -> marshal_ok e = true -> LT (emit1 e s).
Proof.
  intros (H1 & H2 & H3 & H4) He. unfold emit1. destruct (a_peer s) as [p|]; [|exact (conj H1 (conj H2 (conj H3 H4)))].
  unfold LT. sfields. split; [exact H1|]. split; [exact H2|]. split; [exact H3|].
  intros t Ht. apply in_app_or in Ht as [Ht|[<-|[]]]; [now apply H4|exact He].
Qed.

Lemma LT_emit_list es s : LT s -> (forall e, In e es -> marshal_ok e = true) -> LT (emit_list es s).
Proof.
  unfold emit_list. revert s. induction es as [|e r IH]; intros s H He; cbn [fold_left]; [exact H|].
  apply IH; [apply LT_emit1; [exact H|apply He; now left]|intros e' He'; apply He; now right].
Qed.

(* boolean equality of events is equality as far as marshalling goes *)
Lemma fevent_eqb_marshal a b : fevent_eqb a b = true -> marshal_ok b = marshal_ok a.
Proof.
  destruct a as [g f|t|m], b as [g' f'|t'|m']; cbn [fevent_eqb]; try discriminate.
  - intros H. apply andb_true_iff in H as [H1 H2].
    destruct (str_eqb_spec g g'), (str_eqb_spec f f'); try discriminate. now subst.
  - intros H. destruct (str_eqb_spec t t'); [now subst|discriminate].
  - unfold msg_eqb. intros H. repeat (apply andb_true_iff in H as [H ?]).
    cbn [marshal_ok].
    repeat match goal with Hx : str_eqb ?a ?b = true |- _ => destruct (str_eqb_spec a b); [|discriminate]; clear Hx end.
    congruence.
Qed.

Lemma ev_remove1_in x l l' : ev_remove1 x l = Some l' ->
  exists y, fevent_eqb x y = true /\ forall z, In z l -> z = y \/ In z l'.
Proof.
  revert l'. induction l as [|y r IH]; intros l' H; cbn [ev_remove1] in H; [discriminate|].
  destruct (fevent_eqb x y) eqn:E.
  - injection H as <-. exists y. split; [exact E|]. intros z [<-|Hz]; [now left|now right].
  - destruct (ev_remove1 x r) as [r'|] eqn:Hr; [|discriminate]. injection H as <-.
    destruct (IH r' eq_refl) as (y0 & Hy0 & Hin). exists y0. split; [exact Hy0|].
    intros z [<-|Hz]; [right; now left|]. destruct (Hin z Hz) as [->|Hz']; [now left|right; now right].
Qed.

Lemma ev_perm_in a : forall b, ev_perm a b = true -> forall z, In z b -> exists y, In y a /\ fevent_eqb y z = true.
Proof.
  induction a as [|x a' IH]; intros b H z Hz; cbn [ev_perm] in H.
  - destruct b; [destruct Hz|discriminate].
  - destruct (ev_remove1 x b) as [b'|] eqn:Hr; [|discriminate].
    destruct (ev_remove1_in _ _ _ Hr) as (y & Hy & Hin). destruct (Hin z Hz) as [->|Hz'].
    + exists x. split; [now left|exact Hy].
    + destruct (IH b' H z Hz') as (y' & Hy' & E). exists y'. split; [now right|exact E].
Qed.

Lemma resolve_marshal expected given :
  (forall e, In e expected -> marshal_ok e = true) -> forall e, In e (fq_resolve expected given) -> marshal_ok e = true.
Proof.
  intros H e He. unfold fq_resolve in He. destruct (ev_perm expected given) eqn:Hp; [|now apply H].
  destruct (ev_perm_in _ _ Hp e He) as (y & Hy & E). rewrite (fevent_eqb_marshal _ _ E). now apply H.
Qed.

Lemma in_aset_pair_q {V} (k' k : str) (v' v : V) l : In (k', v') (aset k v l) -> (k', v') = (k, v) \/ In (k', v') l.
Proof.
  induction l as [|[k0 v0] r IH]; cbn [aset In]; intros H.
  - destruct H as [H|[]]. left. now symmetry.
  - destruct (str_eqb k k0); cbn [In] in H.
    + destruct H as [H|H]; [left; now symmetry|right; now right].
    + destruct H as [H|H]; [right; now left|]. apply IH in H as [H|H]; [now left|right; now right].
Qed.

Lemma in_adel_pair {V} (x : str * V) k l : In x (adel k l) -> In x l.
Proof.
  induction l as [|[k0 v0] r IH]; cbn [adel]; [tauto|]. destruct (str_eqb k k0); [now right|].
  intros [H|H]; [now left|right; now apply IH].
Qed.

Lemma in_del_str x k l : In x (del_str k l) -> In x l.
Proof.
  induction l as [|y r IH]; cbn [del_str]; [tauto|]. destruct (str_eqb k y); [now right|].
  intros [H|H]; [now left|right; now apply IH].
Qed.

Lemma ls_dec_good t tp : (forall t' n, In (t', n) tp -> goodt t') -> forall t' n, In (t', n) (ls_dec t tp) -> goodt t'.
Proof.
  intros H t' n Hin. unfold ls_dec in Hin. destruct (aget t tp) as [c|] eqn:Hg; [|now apply (H t' n)].
  destruct (c <=? 1).
  - apply in_adel_pair in Hin. now apply (H t' n).
  - apply in_aset_pair_q in Hin as [E|Hin]; [|now apply (H t' n)]. injection E as -> _. apply aget_In in Hg. now apply (H t c).
Qed.

Lemma ls_dec_all_good keys : forall tp, (forall t' n, In (t', n) tp -> goodt t') ->
  forall t' n, In (t', n) (fst (ls_dec_all keys tp)) -> goodt t'.
Proof.
  induction keys as [|t r IH]; intros tp H t' n Hin; cbn [ls_dec_all] in Hin; [now apply (H t' n)|].
  destruct (ls_dec_all r (ls_dec t tp)) as [tp'' rm] eqn:Hd. cbn [fst] in Hin.
  apply (IH (ls_dec t tp) (ls_dec_good t tp H) t' n). now rewrite Hd.
Qed.

Lemma ls_dec_all_rm keys : forall tp x, In x (snd (ls_dec_all keys tp)) -> In x keys.
Proof.
  induction keys as [|t r IH]; intros tp x Hin; cbn [ls_dec_all] in Hin; [destruct Hin|].
  destruct (ls_dec_all r (ls_dec t tp)) as [tp'' rm] eqn:Hd. cbn [snd] in Hin.
  destruct (ahas t (ls_dec t tp)).
  - right. apply (IH (ls_dec t tp)). now rewrite Hd.
  - destruct Hin as [<-|Hin]; [now left|right]. apply (IH (ls_dec t tp)). now rewrite Hd.
Qed.

Lemma keys_of_client_good c ix : (forall c' keys, In (c', keys) ix -> forall t, In t keys -> goodt t) ->
  forall t, In t (keys_of_client c ix) -> goodt t.
Proof.
  intros H t Ht. unfold keys_of_client in Ht. destruct (aget c ix) as [k|] eqn:Hg; [|destruct Ht].
  apply aget_In in Hg. now apply (H c k).
Qed.

Lemma goodt_unsub t : goodt t -> marshal_ok (EUnsub t) = true.
Proof. now intros [H _]. Qed.

Lemma lcore_set_queue q s : lcore (set_queue q s) = lcore s.
Proof. unfold set_queue. destruct (a_peer s); reflexivity. Qed.

Lemma lcore_hello_tail (fo : bool) next X :
  lcore (let s3 := match a_peer X with Some p2 => set_queue (eq_set_read next (p_q p2)) X | None => X end in
         if fo then s3
         else match a_peer s3 with
              | Some p3 => set_stream true [] [] (set_queue (eq_set_closed false (p_q p3)) s3)
              | None => s3
              end) = lcore X.
Proof.
  cbv zeta. destruct (a_peer X) as [p2|] eqn:Hp.
  - destruct fo; [apply lcore_set_queue|]. rewrite (set_queue_some _ _ p2 Hp). sfields. unfold set_queue. sfields. reflexivity.
  - destruct fo; [reflexivity|]. now rewrite Hp.
Qed.

Lemma LT_reconnect mode order s : LT s -> LT (fq_reconnect mode order s).
Proof.
  intros H. unfold fq_reconnect.
  assert (Hc : LT (fq_cut s)) by (apply LT_lcore with (s := s); [now rewrite lcore_cut|exact H]).
  destruct (a_peer (fq_cut s)) as [p|] eqn:Hp; [|exact Hc].
  destruct mode; try exact Hc.
  all: destruct (server_hello (p_sid p) (fq_cut s)) as [[[clean next] s1]|] eqn:Hsh; [|exact Hc].
  all: assert (H1 : LT s1 /\ lcore s1 = lcore (fq_cut s))
         by (unfold server_hello in Hsh; destruct (fb_peer (fq_cut s)); [|discriminate];
             destruct (fb_sess (fq_cut s)) as [se|]; [destruct (fs_id se =? p_sid p)|];
             injection Hsh as _ _ <-; (split; [apply LT_lcore with (s := fq_cut s); [reflexivity|exact Hc]|reflexivity])).
  all: destruct H1 as [H1 Hl1]; try exact H1.
  all: match goal with
       | |- LT (match a_peer ?X with _ => _ end) => idtac
       | |- LT ?Y => idtac
       end.
  - (* HsOk *)
    match goal with |- LT ?Y => apply LT_lcore with (s := if clean then emit_list (resync_events s1 order)
        (set_peer (Some {| p_sid := p_sid p; p_q := eq_clear (p_q p) |}) (a_sidctr s1) (a_epoch s1 + 1) (emitted s1) s1) else s1) end.
    + symmetry. apply (lcore_hello_tail false).
    + destruct clean; [|exact H1]. apply LT_emit_list; [exact H1|].
      intros e He. unfold resync_events in He. destruct H1 as (_ & G2 & G3 & _).
      apply in_app_or in He as [He|He]; revert e He; apply resolve_marshal.
      * intros e He. unfold resync_subs in He. apply in_map_iff in He as ([t n] & <- & Hin). cbn [fst].
        destruct (G2 t n Hin) as [_ Hg]. destruct (split_topic t). exact Hg.
      * intros e He. unfold resync_msgs in He. apply in_map_iff in He as (m & <- & Hin). exact (G3 m Hin).
  - (* HsFailOpen *)
    match goal with |- LT ?Y => apply LT_lcore with (s := if clean then emit_list (resync_events s1 order)
        (set_peer (Some {| p_sid := p_sid p; p_q := eq_clear (p_q p) |}) (a_sidctr s1) (a_epoch s1 + 1) (emitted s1) s1) else s1) end.
    + symmetry. apply (lcore_hello_tail true).
    + destruct clean; [|exact H1]. apply LT_emit_list; [exact H1|].
      intros e He. unfold resync_events in He. destruct H1 as (_ & G2 & G3 & _).
      apply in_app_or in He as [He|He]; revert e He; apply resolve_marshal.
      * intros e He. unfold resync_subs in He. apply in_map_iff in He as ([t n] & <- & Hin). cbn [fst].
        destruct (G2 t n Hin) as [_ Hg]. destruct (split_topic t). exact Hg.
      * intros e He. unfold resync_msgs in He. apply in_map_iff in He as (m & <- & Hin). exact (G3 m Hin).
Qed.

Lemma LT_step s ev order : LT s -> fqev_unmarshallable ev = false -> LT (fq_step s ev order).
Proof.
  intros H Hok. destruct ev; cbn [fq_step fqev_unmarshallable] in *.
  - (* QSub *)
    apply orb_false_iff in Hok as [Hok Hok3]. apply orb_false_iff in Hok as [Hok1 Hok2].
    apply negb_false_iff in Hok1, Hok2, Hok3.
    assert (Hgood : goodt (fed_full_topic share filter)) by (split; assumption).
    destruct H as (H1 & H2 & H3 & H4).
    unfold ls_subscribe. destruct (mem_str (fed_full_topic share filter) (keys_of_client c (a_index s))).
    + exact (conj H1 (conj H2 (conj H3 H4))).
    + assert (HI : forall c' keys, In (c', keys) (aset c (keys_of_client c (a_index s) ++ [fed_full_topic share filter]) (a_index s)) ->
                   forall t, In t keys -> goodt t).
      { intros c' keys Hin t Ht. apply in_aset_pair_q in Hin as [E|Hin]; [|now apply (H1 c' keys)].
        injection E as _ ->. apply in_app_or in Ht as [Ht|[<-|[]]]; [now apply (keys_of_client_good c (a_index s) H1)|exact Hgood]. }
      assert (HT : forall n0 t n, In (t, n) (aset (fed_full_topic share filter) n0 (a_topics s)) -> goodt t).
      { intros n0 t n Hin. apply in_aset_pair_q in Hin as [E|Hin]; [injection E as -> _; exact Hgood|now apply (H2 t n)]. }
      match goal with |- LT (if ?b then _ else _) => destruct b end; [apply LT_emit1; [|exact Hok1]|].
      all: unfold LT; sfields; (split; [exact HI|split; [apply HT|split; [exact H3|exact H4]]]).
  - (* QUnsub *)
    apply negb_false_iff in Hok. cbn [marshal_ok] in Hok.
    destruct H as (H1 & H2 & H3 & H4). unfold ls_unsubscribe.
    destruct (aget c (a_index s)) as [keys|] eqn:Hk; [|exact (conj H1 (conj H2 (conj H3 H4)))].
    destruct (mem_str topic keys); [|exact (conj H1 (conj H2 (conj H3 H4)))].
    assert (HI : forall c' k', In (c', k') (match del_str topic keys with [] => adel c (a_index s) | _ => aset c (del_str topic keys) (a_index s) end) ->
                 forall t, In t k' -> goodt t).
    { intros c' k' Hin t Ht. destruct (del_str topic keys) as [|x r] eqn:Hd.
      - apply in_adel_pair in Hin. now apply (H1 c' k').
      - apply in_aset_pair_q in Hin as [E|Hin]; [|now apply (H1 c' k')]. injection E as _ ->. rewrite <- Hd in Ht. apply in_del_str in Ht. apply aget_In in Hk. now apply (H1 c keys). }
    match goal with |- LT (if ?b then _ else _) => destruct b end; [apply LT_emit1; [|exact Hok]|].
    all: unfold LT; sfields; (split; [exact HI|split; [apply ls_dec_good; exact H2|split; [exact H3|exact H4]]]).
  - (* QTerm *)
    destruct H as (H1 & H2 & H3 & H4). unfold ls_unsubscribe_all.
    destruct (ls_dec_all (keys_of_client c (a_index s)) (a_topics s)) as [tp' rm] eqn:Hd.
    apply LT_emit_list.
    + unfold LT. sfields. split; [intros c' k' Hin; apply in_adel_pair in Hin; now apply (H1 c' k')|].
      split; [|split; [exact H3|exact H4]].
      intros t n Hin. apply (ls_dec_all_good (keys_of_client c (a_index s)) (a_topics s) H2 t n). now rewrite Hd.
    + apply resolve_marshal. intros e He. apply in_map_iff in He as (t & <- & Ht). apply goodt_unsub.
      apply (keys_of_client_good c (a_index s) H1). apply (ls_dec_all_rm _ (a_topics s)). now rewrite Hd.
  - (* QMsg *)
    apply LT_emit1; [exact H|]. apply negb_false_iff in Hok. exact Hok.
  - apply LT_lcore with (s := s); [now rewrite lcore_send|exact H].
  - apply LT_lcore with (s := s); [now rewrite lcore_deliver|exact H].
  - apply LT_lcore with (s := s); [now rewrite lcore_ack_deliver|exact H].
  - apply LT_lcore with (s := s); [now rewrite lcore_cut|exact H].
  - now apply LT_reconnect.
  - apply LT_lcore with (s := s); [now rewrite lcore_drain|exact H].
  - destruct (fb_peer s); [|exact H]. apply LT_lcore with (s := s); [|exact H]. rewrite lcore_cut. reflexivity.
  - exact H.
  - destruct (a_peer s); [|exact H]. apply LT_lcore with (s := s); [|exact H]. pose proof (lcore_cut s) as Hc. unfold lcore in *. sfields. symmetry. exact Hc.
  - destruct (a_peer s); exact H.
Qed.

Lemma LT_init ret : (forall m, In m ret -> marshal_ok (EMsg m) = true) -> LT (fq_init ret).
Proof. intros H. unfold LT, fq_init. sfields. split; [intros c k []|]. split; [intros t n []|]. split; [exact H|intros t []]. Qed.

Lemma LT_run evs : forall s orders, LT s -> existsb fqev_unmarshallable evs = false -> LT (fq_run s evs orders).
Proof.
  induction evs as [|ev r IH]; intros s orders H Hk; cbn [fq_run]; [exact H|].
  cbn [existsb] in Hk. apply orb_false_iff in Hk as [Hk1 Hk2]. apply IH; [now apply LT_step|exact Hk2].
Qed.

(* ---- the fault-free suffix ---- *)
Lemma hello_tail_shape next X p2 :
  a_peer X = Some p2 ->
  let s3 := match a_peer X with Some p2 => set_queue (eq_set_read next (p_q p2)) X | None => X end in
  let s4 := match a_peer s3 with
            | Some p3 => set_stream true [] [] (set_queue (eq_set_closed false (p_q p3)) s3)
            | None => s3
            end in
  st_up s4 = true /\ c2s s4 = [] /\ s2c s4 = [] /\ exists p', a_peer s4 = Some p' /\ evq_closed (p_q p') = false.
Proof.
  intros Hp. cbv zeta. rewrite Hp, (set_queue_some _ _ p2 Hp). sfields. unfold set_queue. sfields.
  repeat split. eexists. split; reflexivity.
Qed.

Lemma reconnect_ok_shape order s p :
  a_peer s = Some p -> fb_peer s = true ->
  let s' := fq_reconnect HsOk order s in
  st_up s' = true /\ c2s s' = [] /\ s2c s' = [] /\ exists p', a_peer s' = Some p' /\ evq_closed (p_q p') = false.
Proof.
  intros Hp Hbp. cbv zeta. unfold fq_reconnect.
  destruct (kcore_cut s) as (Hk & _ & _). unfold kcore in Hk. injection Hk as Hk1 Hk2 _ _.
  rewrite Hp in Hk1. destruct (a_peer (fq_cut s)) as [p0|] eqn:Hp0; [|discriminate].
  unfold server_hello. rewrite Hk2, Hbp.
  destruct (fb_sess (fq_cut s)) as [se|]; [destruct (fs_id se =? p_sid p0)|].
  - now apply (hello_tail_shape _ _ p0).
  - match goal with |- context [emit_list ?evs ?X] => destruct (kcore_emit_list evs X) as (Hke & _ & _) end.
    apply (f_equal (fun t => fst (fst (fst t)))) in Hke. unfold kcore in Hke. cbn [fst] in Hke. sfields.
    match goal with |- context [emit_list ?evs ?X] =>
      assert (Hex : exists p2, a_peer (emit_list evs X) = Some p2)
        by (destruct (a_peer (emit_list evs X)) as [p2|]; [now exists p2|discriminate]) end.
    destruct Hex as [p2 Hp2]. now apply (hello_tail_shape _ _ p2).
  - match goal with |- context [emit_list ?evs ?X] => destruct (kcore_emit_list evs X) as (Hke & _ & _) end.
    apply (f_equal (fun t => fst (fst (fst t)))) in Hke. unfold kcore in Hke. cbn [fst] in Hke. sfields.
    match goal with |- context [emit_list ?evs ?X] =>
      assert (Hex : exists p2, a_peer (emit_list evs X) = Some p2)
        by (destruct (a_peer (emit_list evs X)) as [p2|]; [now exists p2|discriminate]) end.
    destruct Hex as [p2 Hp2]. now apply (hello_tail_shape _ _ p2).
Qed.

Lemma fq_run_app a : forall s b orders,
  fq_run s (a ++ b) orders = fq_run (fq_run s a orders) b (skipn (length a) orders).
Proof.
  induction a as [|ev r IH]; intros s b orders; cbn [app fq_run length skipn]; [reflexivity|].
  rewrite IH. destruct orders; cbn [tl hd skipn]; [|reflexivity]. now destruct (length r).
Qed.

(* after ANY schedule (without the two known findings), once both nodes know each other,
   the handshake succeeds and both loops run until idle: the stream is idle and everything
   A emitted in the current epoch has been applied by B *)
Lemma fq_stable_complete ret evs orders :
  kf_hello_reply_lost evs = false -> kf_event_not_utf8 ret evs = false ->
  let s := fq_run (fq_init ret) (evs ++ EPILOGUE) orders in
  fq_idle s = true /\ proj (a_epoch s) (applied s) = proj (a_epoch s) (emitted s).
Proof.
  intros Hk1 Hk2. cbv zeta. rewrite fq_run_app.
  set (s0 := fq_run (fq_init ret) evs orders). set (os := skipn (length evs) orders).
  assert (HI0 : INV s0) by (apply run_inv; [apply INV_init|exact Hk1]).
  unfold kf_event_not_utf8 in Hk2. apply orb_false_iff in Hk2 as [Hr He].
  assert (HL0 : LT s0).
  { apply LT_run; [|exact He]. apply LT_init. intros m Hm.
    destruct (marshal_ok (EMsg m)) eqn:E; [reflexivity|]. exfalso.
    assert (existsb (fun m => negb (marshal_ok (EMsg m))) ret = true) by (apply existsb_exists; exists m; split; [exact Hm|now rewrite E]).
    congruence. }
  unfold EPILOGUE. cbn [fq_run].
  (* QPeerJoin *)
  set (s1 := fq_step s0 QPeerJoin (hd [] os)).
  assert (HI1 : INV s1) by (apply INV_peer_join; exact HI0).
  assert (HL1 : LT s1) by (apply LT_step; [exact HL0|reflexivity]).
  assert (Hb1 : fb_peer s1 = true) by reflexivity.
  (* QJoinPeer *)
  set (s2 := fq_step s1 QJoinPeer (hd [] (tl os))).
  assert (HL2 : LT s2) by (apply LT_step; [exact HL1|reflexivity]).
  assert (H2 : INV s2 /\ fb_peer s2 = true /\ exists p, a_peer s2 = Some p).
  { subst s2. cbn [fq_step]. destruct (a_peer s1) as [p|] eqn:Hp.
    - split; [exact HI1|]. split; [exact Hb1|]. now exists p.
    - split; [now apply INV_join_peer|]. split; [exact Hb1|]. eexists. reflexivity. }
  destruct H2 as (HI2 & Hb2 & p2 & Hp2).
  (* QReconnect HsOk *)
  set (s3 := fq_step s2 (QReconnect HsOk) (hd [] (tl (tl os)))).
  assert (HL3 : LT s3) by (apply LT_step; [exact HL2|reflexivity]).
  assert (HI3 : INV s3) by (subst s3; cbn [fq_step]; apply INV_reconnect; [exact HI2|discriminate]).
  destruct (reconnect_ok_shape (hd [] (tl (tl os))) s2 p2 Hp2 Hb2) as (Hu3 & Hc3 & Hs3 & p3 & Hp3 & Ho3).
  assert (HD3 : DS s3).
  { split; [exact HI3|]. split; [exact Hu3|]. split; [exact Hc3|]. split; [exact Hs3|].
    split; [now exists p3|]. now destruct HL3 as (_ & _ & _ & H4). }
  (* QDrain *)
  cbn [fq_step]. destruct (DS_drain s3 HD3) as [HD4 Hidle]. fold s3.
  split; [exact Hidle|]. apply (DS_idle_complete _ HD4 Hidle).
Qed.

(* the two side conditions of the completeness statement are needed *)
Definition ex_bad_corr : msg :=
  {| m_dup := false; m_qos := 1; m_retained := false; m_topic := [97]; m_payload := [49]; m_pid := 0;
     m_ctype := []; m_corr := [255]; m_expiry := 0; m_pfmt := 0; m_resp := []; m_subids := []; m_uprops := [] |}.

Lemma fq_stable_complete_refuted :
  (exists ret evs orders,
     let s := fq_run (fq_init ret) (evs ++ EPILOGUE) orders in
     fq_idle s = true /\ view_of (fb_fed s) = Some [] /\ local_of s <> []) /\
  (exists ret evs orders, fq_idle (fq_run (fq_init ret) (evs ++ EPILOGUE) orders) = false).
Proof.
  split.
  - exists [], [QSub [99] [] [97]; QPeerJoin; QJoinPeer; QReconnect HsLostResp], []. vm_compute.
    split; [reflexivity|]. split; [reflexivity|discriminate].
  - exists [], [QPeerJoin; QJoinPeer; QReconnect HsOk; QMsg ex_bad_corr], []. vm_compute. reflexivity.
Qed.
