(* Proofs about the federation event-stream model (Model/FedQueue.v), for all schedules:
   the sequence B applies is, epoch by epoch, a duplicate-free prefix of what A emitted;
   nextRead never dangles. *)
From Coq Require Import List NArith Bool Arith Lia ZifyN ZifyNat ZifyBool.
Import ListNotations.
From GM Require Import Base.Topic Base.Msg Model.SubTrie Model.RetTrie Model.FedQueue Oracle.C16O.
Open Scope N_scope.

(* ------------------------------------------------------------------ *)
(* 0. lists of numbered events                                         *)
(* ------------------------------------------------------------------ *)

Definition nlen {A} (l : list A) : N := N.of_nat (length l).

Lemma nlen_nil {A} : nlen (@nil A) = 0.
Proof. reflexivity. Qed.
Lemma nlen_cons {A} (x : A) l : nlen (x :: l) = nlen l + 1.
Proof. unfold nlen. cbn [length]. lia. Qed.
Lemma nlen_app {A} (a b : list A) : nlen (a ++ b) = nlen a + nlen b.
Proof. unfold nlen. rewrite app_length. lia. Qed.
Lemma nlen_0 {A} (l : list A) : nlen l = 0 -> l = [].
Proof. destruct l; [reflexivity|rewrite nlen_cons; lia]. Qed.

Definition ievent := (N * fevent)%type.

(* ids b, b+1, b+2, ... *)
Fixpoint consec (b : N) (l : list ievent) : Prop :=
  match l with
  | [] => True
  | (i, _) :: r => i = b /\ consec (b + 1) r
  end.

Lemma consec_app b l1 l2 : consec b (l1 ++ l2) <-> consec b l1 /\ consec (b + nlen l1) l2.
Proof.
  revert b. induction l1 as [|[i e] r IH]; intros b; cbn [app consec].
  - rewrite nlen_nil, N.add_0_r. tauto.
  - rewrite IH, nlen_cons. replace (b + 1 + nlen r) with (b + (nlen r + 1)) by lia. tauto.
Qed.

Lemma consec_head b X x e Y : consec b (X ++ (x, e) :: Y) -> x = b + nlen X.
Proof. intros H. apply consec_app in H as [_ H]. cbn [consec] in H. tauto. Qed.

Lemma has_id_consec b l id : consec b l -> has_id id l = (b <=? id) && (id <? b + nlen l).
Proof.
  revert b. induction l as [|[i e] r IH]; intros b H; cbn [has_id existsb].
  - rewrite nlen_nil. lia.
  - cbn [consec] in H. destruct H as [-> H]. unfold has_id in IH. rewrite (IH _ H), nlen_cons.
    cbn [fst]. lia.
Qed.

Lemma drop_until_consec b l1 l2 : consec b (l1 ++ l2) -> l2 <> [] ->
  drop_until (b + nlen l1) (l1 ++ l2) = l2.
Proof.
  revert b. induction l1 as [|[i e] r IH]; intros b H Hne; cbn [app].
  - rewrite nlen_nil, N.add_0_r. destruct l2 as [|[i e] r]; [congruence|].
    cbn [consec] in H. destruct H as [-> _]. cbn [drop_until]. now rewrite N.eqb_refl.
  - cbn [app consec] in H. destruct H as [-> H]. cbn [drop_until]. rewrite nlen_cons.
    destruct (N.eqb_spec b (b + (nlen r + 1))) as [E|_]; [lia|].
    replace (b + (nlen r + 1)) with (b + 1 + nlen r) by lia. now apply IH.
Qed.

Lemma ack_list_consec b l1 id e l2 : consec b (l1 ++ (id, e) :: l2) -> ack_list id (l1 ++ (id, e) :: l2) = l2.
Proof.
  revert b. induction l1 as [|[i e'] r IH]; intros b H; cbn [app ack_list].
  - now rewrite N.eqb_refl.
  - pose proof (consec_head b ((i, e') :: r) id e l2 H) as Hid. rewrite nlen_cons in Hid.
    cbn [app consec] in H. destruct H as [-> H].
    destruct (N.eqb_spec b id) as [E|_]; [lia|].
    destruct (N.leb_spec b id) as [_|E]; [|lia]. now apply IH with (b := b + 1).
Qed.

Lemma ack_list_below b l id : consec b l -> id < b -> ack_list id l = l.
Proof.
  revert b. induction l as [|[i e] r IH]; intros b H Hlt; cbn [ack_list]; [reflexivity|].
  cbn [consec] in H. destruct H as [-> H].
  destruct (N.eqb_spec b id) as [E|_]; [lia|].
  destruct (N.leb_spec b id) as [E|_]; [lia|]. f_equal. apply IH with (b := b + 1); [exact H|lia].
Qed.

(* position id in a consecutive list *)
Lemma consec_split b l id : consec b l -> b <= id -> id < b + nlen l ->
  exists l1 e l2, l = l1 ++ (id, e) :: l2 /\ nlen l1 = id - b.
Proof.
  revert b. induction l as [|[i e] r IH]; intros b H Hle Hlt.
  - rewrite nlen_nil in Hlt. lia.
  - cbn [consec] in H. destruct H as [-> H]. rewrite nlen_cons in Hlt.
    destruct (N.eq_dec id b) as [->|Hne].
    + exists [], e, r. split; [reflexivity|]. rewrite nlen_nil. lia.
    + destruct (IH (b + 1) H) as (l1 & e' & l2 & -> & Hl); [lia|lia|].
      exists ((b, e) :: l1), e', l2. split; [reflexivity|]. rewrite nlen_cons. lia.
Qed.

Lemma app_eq_prefix {A} (pre L X U : list A) :
  pre ++ L = X ++ U -> (length pre <= length X)%nat -> exists l1, L = l1 ++ U /\ X = pre ++ l1.
Proof.
  revert X. induction pre as [|a pre IH]; intros X H Hlen; cbn [app] in *.
  - exists X. now split.
  - destruct X as [|x X]; cbn [length] in Hlen; [lia|]. cbn [app] in H. injection H as -> H.
    destruct (IH X H) as (l1 & -> & ->); [lia|]. exists l1. now split.
Qed.

Definition head_id (l : list ievent) : option N := match l with [] => None | (i, _) :: _ => Some i end.

Lemma In_tl {A} (x : A) l : In x (tl l) -> In x l.
Proof. destruct l; cbn; auto. Qed.

Lemma mem_n_In x l : mem_n x l = true <-> In x l.
Proof.
  unfold mem_n. rewrite existsb_exists. split.
  - intros (y & Hy & E). apply N.eqb_eq in E. now subst.
  - intros H. exists x. split; [exact H|apply N.eqb_refl].
Qed.

(* ------------------------------------------------------------------ *)
(* 1. projections of the logs                                          *)
(* ------------------------------------------------------------------ *)

Definition untag (t : tagged) : ievent := (snd (fst t), snd t).
Definition proj (ep : N) (l : list tagged) : list ievent :=
  map untag (filter (fun t : tagged => fst (fst t) =? ep) l).
Definition tag (ep : N) (ie : ievent) : tagged := (ep, fst ie, snd ie).

Definition prefix {A} (a b : list A) : Prop := exists r, b = a ++ r.

Lemma proj_app ep a b : proj ep (a ++ b) = proj ep a ++ proj ep b.
Proof. unfold proj. now rewrite filter_app, map_app. Qed.

Lemma proj_one_same ep id e : proj ep [(ep, id, e)] = [(id, e)].
Proof. unfold proj. cbn [filter fst]. now rewrite N.eqb_refl. Qed.

Lemma proj_one_other ep ep' id e : ep' <> ep -> proj ep [(ep', id, e)] = [].
Proof. intros H. unfold proj. cbn [filter fst]. destruct (N.eqb_spec ep' ep); [congruence|reflexivity]. Qed.

Lemma proj_none ep l : (forall t, In t l -> fst (fst t) <> ep) -> proj ep l = [].
Proof.
  intros H. unfold proj. induction l as [|t r IH]; [reflexivity|]. cbn [filter].
  destruct (N.eqb_spec (fst (fst t)) ep) as [E|_].
  - exfalso. apply (H t); [now left|exact E].
  - apply IH. intros t' Ht'. apply H. now right.
Qed.

Lemma prefix_refl {A} (a : list A) : prefix a a.
Proof. exists []. now rewrite app_nil_r. Qed.
Lemma prefix_app_r {A} (a b c : list A) : prefix a b -> prefix a (b ++ c).
Proof. intros [r ->]. exists (r ++ c). now rewrite app_assoc. Qed.
