(* Proofs about the federation event-stream model (Model/FedQueue.v), for all schedules:
   the sequence B applies is, epoch by epoch, a duplicate-free prefix of what A emitted;
   nextRead never dangles. *)
From Coq Require Import List NArith Bool Arith Lia ZifyN ZifyNat ZifyBool.
Import ListNotations.
From GM Require Import Base.Topic Base.Msg Model.SubTrie Model.RetTrie Model.FedQueue Oracle.C16O.
Open Scope N_scope.

(* ------------------------------------------------------------------ *)
(* 0. lists of numbered events                                         *)
(* ------------------------------------------------------------------ *)

Definition nlen {A} (l : list A) : N := N.of_nat (length l).

Lemma nlen_nil {A} : nlen (@nil A) = 0.
Proof. reflexivity. Qed.
Lemma nlen_cons {A} (x : A) l : nlen (x :: l) = nlen l + 1.
Proof. unfold nlen. cbn [length]. lia. Qed.
Lemma nlen_one {A} (x : A) : nlen [x] = 1.
Proof. reflexivity. Qed.
Lemma nlen_app {A} (a b : list A) : nlen (a ++ b) = nlen a + nlen b.
Proof. unfold nlen. rewrite app_length. lia. Qed.
Lemma nlen_0 {A} (l : list A) : nlen l = 0 -> l = [].
Proof. destruct l; [reflexivity|rewrite nlen_cons; lia]. Qed.

Notation ievent := (N * fevent)%type.

(* ids b, b+1, b+2, ... *)
Fixpoint consec (b : N) (l : list ievent) : Prop :=
  match l with
  | [] => True
  | (i, _) :: r => i = b /\ consec (b + 1) r
  end.

Lemma consec_app b l1 l2 : consec b (l1 ++ l2) <-> consec b l1 /\ consec (b + nlen l1) l2.
Proof.
  revert b. induction l1 as [|[i e] r IH]; intros b; cbn [app consec].
  - rewrite nlen_nil, N.add_0_r. tauto.
  - rewrite IH, nlen_cons. replace (b + 1 + nlen r) with (b + (nlen r + 1)) by lia. tauto.
Qed.

Lemma consec_head b X x e Y : consec b (X ++ (x, e) :: Y) -> x = b + nlen X.
Proof. intros H. apply consec_app in H as [_ H]. cbn [consec] in H. tauto. Qed.

Lemma has_id_consec b l id : consec b l -> has_id id l = (b <=? id) && (id <? b + nlen l).
Proof.
  revert b. induction l as [|[i e] r IH]; intros b H; cbn [has_id existsb].
  - rewrite nlen_nil. lia.
  - cbn [consec] in H. destruct H as [-> H]. unfold has_id in IH. rewrite (IH _ H), nlen_cons.
    cbn [fst]. lia.
Qed.

Lemma drop_until_consec b l1 l2 : consec b (l1 ++ l2) -> l2 <> [] ->
  drop_until (b + nlen l1) (l1 ++ l2) = l2.
Proof.
  revert b. induction l1 as [|[i e] r IH]; intros b H Hne; cbn [app].
  - rewrite nlen_nil, N.add_0_r. destruct l2 as [|[i e] r]; [congruence|].
    cbn [consec] in H. destruct H as [-> _]. cbn [drop_until]. now rewrite N.eqb_refl.
  - cbn [app consec] in H. destruct H as [-> H]. cbn [drop_until]. rewrite nlen_cons.
    destruct (N.eqb_spec b (b + (nlen r + 1))) as [E|_]; [lia|].
    replace (b + (nlen r + 1)) with (b + 1 + nlen r) by lia. now apply IH.
Qed.

Lemma ack_list_consec b l1 id e l2 : consec b (l1 ++ (id, e) :: l2) -> ack_list id (l1 ++ (id, e) :: l2) = l2.
Proof.
  revert b. induction l1 as [|[i e'] r IH]; intros b H; cbn [app ack_list].
  - now rewrite N.eqb_refl.
  - pose proof (consec_head b ((i, e') :: r) id e l2 H) as Hid. rewrite nlen_cons in Hid.
    cbn [app consec] in H. destruct H as [-> H].
    destruct (N.eqb_spec b id) as [E|_]; [lia|].
    destruct (N.leb_spec b id) as [_|E]; [|lia]. now apply IH with (b := b + 1).
Qed.

Lemma ack_list_below b l id : consec b l -> id < b -> ack_list id l = l.
Proof.
  revert b. induction l as [|[i e] r IH]; intros b H Hlt; cbn [ack_list]; [reflexivity|].
  cbn [consec] in H. destruct H as [-> H].
  destruct (N.eqb_spec b id) as [E|_]; [lia|].
  destruct (N.leb_spec b id) as [E|_]; [lia|]. f_equal. apply IH with (b := b + 1); [exact H|lia].
Qed.

(* position id in a consecutive list *)
Lemma consec_split b l id : consec b l -> b <= id -> id < b + nlen l ->
  exists l1 e l2, l = l1 ++ (id, e) :: l2 /\ nlen l1 = id - b.
Proof.
  revert b. induction l as [|[i e] r IH]; intros b H Hle Hlt.
  - rewrite nlen_nil in Hlt. lia.
  - cbn [consec] in H. destruct H as [-> H]. rewrite nlen_cons in Hlt.
    destruct (N.eq_dec id b) as [->|Hne].
    + exists [], e, r. split; [reflexivity|]. rewrite nlen_nil. lia.
    + destruct (IH (b + 1) H) as (l1 & e' & l2 & -> & Hl); [lia|lia|].
      exists ((b, e) :: l1), e', l2. split; [reflexivity|]. rewrite nlen_cons. lia.
Qed.

Lemma app_eq_prefix {A} (pre L X U : list A) :
  pre ++ L = X ++ U -> (length pre <= length X)%nat -> exists l1, L = l1 ++ U /\ X = pre ++ l1.
Proof.
  revert X. induction pre as [|a pre IH]; intros X H Hlen; cbn [app] in *.
  - exists X. now split.
  - destruct X as [|x X]; cbn [length] in Hlen; [lia|]. cbn [app] in H. injection H as -> H.
    destruct (IH X H) as (l1 & -> & ->); [lia|]. exists l1. now split.
Qed.

Definition head_id (l : list ievent) : option N := match l with [] => None | (i, _) :: _ => Some i end.

Lemma In_tl {A} (x : A) l : In x (tl l) -> In x l.
Proof. destruct l; cbn; auto. Qed.

Lemma mem_n_In x l : mem_n x l = true <-> In x l.
Proof.
  unfold mem_n. rewrite existsb_exists. split.
  - intros (y & Hy & E). apply N.eqb_eq in E. now subst.
  - intros H. exists x. split; [exact H|apply N.eqb_refl].
Qed.

(* ------------------------------------------------------------------ *)
(* 1. projections of the logs                                          *)
(* ------------------------------------------------------------------ *)

Definition untag (t : tagged) : ievent := (snd (fst t), snd t).
Definition proj (ep : N) (l : list tagged) : list ievent :=
  map untag (filter (fun t : tagged => fst (fst t) =? ep) l).
Definition tag (ep : N) (ie : ievent) : tagged := (ep, fst ie, snd ie).

Definition prefix {A} (a b : list A) : Prop := exists r, b = a ++ r.

Lemma proj_app ep a b : proj ep (a ++ b) = proj ep a ++ proj ep b.
Proof. unfold proj. now rewrite filter_app, map_app. Qed.

Lemma proj_one_same ep id e : proj ep [(ep, id, e)] = [(id, e)].
Proof. unfold proj. cbn [filter fst]. now rewrite N.eqb_refl. Qed.

Lemma proj_one_other ep ep' id e : ep' <> ep -> proj ep [(ep', id, e)] = [].
Proof. intros H. unfold proj. cbn [filter fst]. destruct (N.eqb_spec ep' ep); [congruence|reflexivity]. Qed.

Lemma proj_none ep l : (forall t, In t l -> fst (fst t) <> ep) -> proj ep l = [].
Proof.
  intros H. unfold proj. induction l as [|t r IH]; [reflexivity|]. cbn [filter].
  destruct (N.eqb_spec (fst (fst t)) ep) as [E|_].
  - exfalso. apply (H t); [now left|exact E].
  - apply IH. intros t' Ht'. apply H. now right.
Qed.

Lemma prefix_refl {A} (a : list A) : prefix a a.
Proof. exists []. now rewrite app_nil_r. Qed.
Lemma prefix_app_r {A} (a b c : list A) : prefix a b -> prefix a (b ++ c).
Proof. intros [r ->]. exists (r ++ c). now rewrite app_assoc. Qed.

(* ------------------------------------------------------------------ *)
(* 2. the invariant                                                    *)
(* ------------------------------------------------------------------ *)

Definition Eof (s : fstate) : list ievent := proj (a_epoch s) (emitted s).
Definition Aof (s : fstate) : list ievent := proj (a_epoch s) (applied s).

(* the session B holds is the one A's peer presents: the events of the current epoch are
   E = D ++ C ++ U - D handled and acknowledged by B's loop (|D| = nextEventID), C in
   flight, U not yet sent on this stream; what B applied is D, or D and the next event
   (applied, ack not sent: its id is in the LRU) *)
Definition MI (E A : list ievent) (ep : N) (up : bool) (cs : list tagged) (sc : list N)
           (rd : option N) (nx : N) (seen : list N) (pre : list ievent) : Prop :=
  exists D C U,
    E = D ++ C ++ U /\ nlen D = nx /\ nlen pre <= nlen D /\ cs = map (tag ep) C /\
    (up = true -> rd = head_id U) /\
    (up = false -> C = [] /\ (rd = None \/ exists r, rd = Some r /\ nx <= r)) /\
    (A = D \/ exists x e rest, C ++ U = (x, e) :: rest /\ A = D ++ [(x, e)] /\ In nx seen) /\
    (forall i, In i seen -> i < nlen A) /\
    (forall i, In i sc -> i < nx).

(* the queue holds the events of the current epoch minus an acknowledged front part *)
Definition QI (E A : list ievent) (ep : N) (up : bool) (cs : list tagged) (sc : list N)
           (q : equeue) (sess : option fsession) (sid : N) : Prop :=
  exists pre,
    E = pre ++ evq_l q /\ consec 0 E /\ evq_next q = nlen E /\ evq_bad q = false /\
    (evq_read q = None \/ exists r, evq_read q = Some r /\ nlen pre <= r /\ r < nlen E) /\
    match sess with
    | Some se => if fs_id se =? sid then MI E A ep up cs sc (evq_read q) (fs_next se) (fs_seen se) pre else up = false
    | None => up = false
    end.

Definition INV (s : fstate) : Prop :=
  (forall e, prefix (proj e (applied s)) (proj e (emitted s))) /\
  (forall t, In t (emitted s) -> fst (fst t) <= a_epoch s) /\
  (forall t, In t (applied s) -> fst (fst t) <= a_epoch s) /\
  (forall t, In t (c2s s) -> fst (fst t) = a_epoch s) /\
  (st_up s = false -> c2s s = [] /\ s2c s = []) /\
  (forall se, fb_sess s = Some se -> fs_id se < a_sidctr s /\ fb_peer s = true) /\
  match a_peer s with
  | None => st_up s = false
  | Some p => p_sid p < a_sidctr s /\
              QI (Eof s) (Aof s) (a_epoch s) (st_up s) (c2s s) (s2c s) (p_q p) (fb_sess s) (p_sid p)
  end.

Ltac sfields :=
  cbn [a_index a_topics a_ret a_peer a_sidctr a_epoch st_up c2s s2c fb_peer fb_sess fb_fed fb_ret fb_ops
       emitted applied published handled set_local set_peer set_stream set_server add_handled
       p_sid p_q evq_next evq_l evq_read evq_closed evq_bad fs_id fs_next fs_seen] in *.

Lemma INV_init ret : INV (fq_init ret).
Proof.
  unfold INV, fq_init. sfields.
  split; [intros e; apply prefix_refl|]. split; [intros t []|]. split; [intros t []|]. split; [intros t []|].
  split; [intros _; now split|]. split; [intros se H; discriminate|reflexivity].
Qed.

Lemma INV_set_local ix tp s : INV s -> INV (set_local ix tp s).
Proof. intros H. exact H. Qed.

(* ---- emitting an event ---- *)
Lemma MI_emit E A ep up cs sc rd nx seen pre x :
  MI E A ep up cs sc rd nx seen pre -> consec 0 E -> fst x = nlen E ->
  MI (E ++ [x]) A ep up cs sc (match rd with None => Some (fst x) | r => r end) nx seen pre.
Proof.
  intros (D & C & U & HD & HnD & Hpd & Hc2 & Hup & Hdn & HA & Hseen & Hs2) Hcons Hx.
  exists D, C, (U ++ [x]).
  split; [rewrite HD, <- !app_assoc; reflexivity|]. split; [exact HnD|]. split; [exact Hpd|]. split; [exact Hc2|].
  split.
  { intros Hu. rewrite (Hup Hu). destruct U as [|[i e'] U']; [destruct x|]; reflexivity. }
  split.
  { intros Hd. destruct (Hdn Hd) as [-> Hr]. split; [reflexivity|]. right.
    destruct Hr as [->|(r & -> & Hr)].
    - exists (fst x). split; [reflexivity|]. rewrite Hx, HD, !nlen_app. lia.
    - exists r. now split. }
  split; [|split; [exact Hseen|exact Hs2]].
  destruct HA as [HA|(y & e' & rest & HCU & HA & Hin)]; [now left|right].
  exists y, e', (rest ++ [x]). split; [rewrite app_assoc, HCU; reflexivity|now split].
Qed.

Lemma QI_emit E A ep up cs sc q sess sid e :
  QI E A ep up cs sc q sess sid -> QI (E ++ [(evq_next q, e)]) A ep up cs sc (eq_add e q) sess sid.
Proof.
  intros (pre & HEq & Hcons & Hnext & Hbad & Hread & Hm). unfold eq_add. exists pre. sfields.
  split; [rewrite HEq at 1; now rewrite app_assoc|].
  split; [apply consec_app; split; [exact Hcons|cbn [consec]; rewrite Hnext; split; [lia|exact I]]|].
  split; [rewrite nlen_app, Hnext; reflexivity|]. split; [exact Hbad|].
  split.
  { right. destruct Hread as [->|(r & -> & H1 & H2)].
    - exists (evq_next q). split; [reflexivity|]. rewrite nlen_app, Hnext.
      assert (nlen pre <= nlen E) by (rewrite HEq, nlen_app; lia). rewrite nlen_one. lia.
    - exists r. split; [reflexivity|]. rewrite nlen_app. lia. }
  destruct sess as [se|]; [|exact Hm]. destruct (fs_id se =? sid); [|exact Hm].
  pose proof (MI_emit E A ep up cs sc (evq_read q) (fs_next se) (fs_seen se) pre (evq_next q, e) Hm Hcons Hnext) as H.
  cbn [fst] in H. destruct (evq_read q); exact H.
Qed.

Lemma INV_emit1 e s : INV s -> INV (emit1 e s).
Proof.
  intros H. unfold emit1. destruct (a_peer s) as [p|] eqn:Hp; [|exact H].
  destruct H as (Hpre & Hem & Hap & Hc & Hdown & Hsess & Hq). rewrite Hp in Hq. destruct Hq as [Hsid Hq].
  unfold INV. sfields.
  assert (HE : proj (a_epoch s) (emitted s ++ [(a_epoch s, evq_next (p_q p), e)]) = Eof s ++ [(evq_next (p_q p), e)]).
  { rewrite proj_app, proj_one_same. reflexivity. }
  split; [|split; [|split; [exact Hap|split; [exact Hc|split; [exact Hdown|split; [exact Hsess|split; [exact Hsid|]]]]]]].
  - intros ep. rewrite proj_app. now apply prefix_app_r.
  - intros t Ht. apply in_app_or in Ht as [Ht|[<-|[]]]; [now apply Hem|cbn [fst]; lia].
  - unfold Eof, Aof. sfields. rewrite HE. now apply QI_emit.
Qed.

Lemma INV_emit_list es s : INV s -> INV (emit_list es s).
Proof. unfold emit_list. revert s. induction es as [|e r IH]; intros s H; cbn [fold_left]; [exact H|]. apply IH. now apply INV_emit1. Qed.

(* ---- closing / opening the queue does not matter ---- *)
Lemma QI_closed E A ep up cs sc q sess sid b :
  QI E A ep up cs sc q sess sid -> QI E A ep up cs sc (eq_set_closed b q) sess sid.
Proof. intros H. exact H. Qed.

(* ---- cutting the stream ---- *)
Lemma MI_cut E A ep cs sc rd nx seen pre :
  MI E A ep true cs sc rd nx seen pre -> consec 0 E -> MI E A ep false [] [] rd nx seen pre.
Proof.
  intros (D & C & U & HD & HnD & Hpd & Hc2 & Hup & Hdn & HA & Hseen & Hs2) Hcons.
  exists D, [], (C ++ U). cbn [app map].
  split; [exact HD|]. split; [exact HnD|]. split; [exact Hpd|]. split; [reflexivity|].
  split; [discriminate|]. split.
  { intros _. split; [reflexivity|]. rewrite (Hup eq_refl). destruct U as [|[r e] U']; [now left|right].
    exists r. split; [reflexivity|]. rewrite HD, app_assoc in Hcons. apply consec_head in Hcons.
    rewrite nlen_app in Hcons. lia. }
  split; [exact HA|]. split; [exact Hseen|intros i []].
Qed.

Lemma QI_cut E A ep up cs sc q sess sid :
  QI E A ep up cs sc q sess sid -> QI E A ep false [] [] q sess sid.
Proof.
  intros (pre & HEq & Hcons & Hnext & Hbad & Hread & Hm). exists pre.
  split; [exact HEq|]. split; [exact Hcons|]. split; [exact Hnext|]. split; [exact Hbad|]. split; [exact Hread|].
  destruct sess as [se|]; [|reflexivity]. destruct (fs_id se =? sid); [|reflexivity].
  destruct up; [now apply MI_cut with (cs := cs) (sc := sc)|].
  destruct Hm as (D & C & U & HD & HnD & Hpd & Hc2 & Hup & Hdn & HA & Hseen & Hs2).
  destruct (Hdn eq_refl) as [-> Hr]. exists D, [], U. cbn [map app] in *.
  split; [exact HD|]. split; [exact HnD|]. split; [exact Hpd|]. split; [reflexivity|]. split; [discriminate|].
  split; [intros _; now split|]. split; [exact HA|]. split; [exact Hseen|intros i []].
Qed.

Lemma set_queue_some q s p : a_peer s = Some p ->
  set_queue q s = set_peer (Some {| p_sid := p_sid p; p_q := q |}) (a_sidctr s) (a_epoch s) (emitted s) s.
Proof. intros H. unfold set_queue. now rewrite H. Qed.

Lemma INV_cut s : INV s -> INV (fq_cut s).
Proof.
  intros H. unfold fq_cut. destruct (st_up s) eqn:Hup; [|exact H].
  destruct H as (Hpre & Hem & Hap & Hc & Hdown & Hsess & Hq).
  destruct (a_peer s) as [p|] eqn:Hp; [|congruence]. destruct Hq as [Hsid Hq].
  sfields. rewrite Hp. rewrite (set_queue_some _ _ p) by (sfields; exact Hp).
  unfold INV, Eof, Aof. sfields.
  split; [exact Hpre|]. split; [exact Hem|]. split; [exact Hap|]. split; [intros t []|].
  split; [intros _; now split|]. split; [exact Hsess|]. split; [exact Hsid|].
  apply QI_closed. eapply QI_cut; exact Hq.
Qed.

(* ---- one sendEvents iteration ---- *)
Lemma eq_fetch_events q batch q' : eq_fetch q = (FEvents batch, q') ->
  exists r, evq_read q = Some r /\ batch = firstn FETCH_MAX (drop_until r (evq_l q)) /\
    q' = {| evq_next := evq_next q; evq_l := evq_l q;
            evq_read := head_id (skipn FETCH_MAX (drop_until r (evq_l q)));
            evq_closed := evq_closed q; evq_bad := evq_bad q |}.
Proof.
  unfold eq_fetch. destruct (evq_closed q); [discriminate|].
  destruct (evq_l q) as [|x l] eqn:Hl; [discriminate|]. destruct (evq_read q) as [r|]; [|discriminate].
  intros H. injection H as <- <-. exists r. split; [reflexivity|]. split; [reflexivity|]. reflexivity.
Qed.

Lemma eq_fetch_other q x q' : eq_fetch q = (x, q') -> (forall b, x <> FEvents b) -> q' = q.
Proof.
  unfold eq_fetch. destruct (evq_closed q); [intros H; now injection H|].
  destruct (evq_l q) as [|y l]; [intros H; now injection H|]. destruct (evq_read q) as [r|]; [|intros H; now injection H].
  intros H Hne. injection H as <- _. now destruct (Hne _ eq_refl).
Qed.

Lemma MI_send E A ep cs sc r nx seen pre L k :
  MI E A ep true cs sc (Some r) nx seen pre -> E = pre ++ L -> consec 0 E ->
  MI E A ep true (cs ++ map (tag ep) (firstn k (drop_until r L))) sc (head_id (skipn k (drop_until r L))) nx seen pre.
Proof.
  intros (D & C & U & HD & HnD & Hpd & Hc2 & Hup & Hdn & HA & Hseen & Hs2) HEq Hcons.
  pose proof (Hup eq_refl) as Hr. destruct U as [|[r' e0] U1]; [discriminate|]. cbn [head_id] in Hr. injection Hr as <-.
  assert (Hsplit : exists l1, L = l1 ++ (r, e0) :: U1 /\ D ++ C = pre ++ l1).
  { apply app_eq_prefix; [rewrite <- HEq, HD, app_assoc; reflexivity|].
    assert (nlen pre <= nlen (D ++ C)) by (rewrite nlen_app; lia). unfold nlen in *. lia. }
  destruct Hsplit as (l1 & HL & HDC).
  assert (Hdrop : drop_until r L = (r, e0) :: U1).
  { rewrite HL. pose proof Hcons as Hc'. rewrite HEq, HL in Hc'. apply consec_app in Hc' as [_ Hc'].
    pose proof (consec_head _ _ _ _ _ Hc') as Hrr. rewrite Hrr at 1. apply drop_until_consec; [exact Hc'|discriminate]. }
  rewrite Hdrop. set (U0 := (r, e0) :: U1) in *.
  exists D, (C ++ firstn k U0), (skipn k U0).
  split; [rewrite <- app_assoc, firstn_skipn; exact HD|]. split; [exact HnD|]. split; [exact Hpd|].
  split; [rewrite map_app, Hc2; reflexivity|]. split; [reflexivity|]. split; [discriminate|].
  split; [|split; [exact Hseen|exact Hs2]].
  rewrite <- app_assoc, firstn_skipn. exact HA.
Qed.

Lemma QI_send E A ep cs sc q sess sid batch q' :
  QI E A ep true cs sc q sess sid -> eq_fetch q = (FEvents batch, q') ->
  QI E A ep true (cs ++ map (tag ep) batch) sc q' sess sid.
Proof.
  intros (pre & HEq & Hcons & Hnext & Hbad & Hread & Hm) Hf.
  destruct (eq_fetch_events _ _ _ Hf) as (r & Hr & -> & ->).
  destruct sess as [se|]; [|discriminate]. destruct (fs_id se =? sid) eqn:Hid; [|discriminate].
  rewrite Hr in Hm. pose proof (MI_send _ _ _ _ _ _ _ _ _ _ FETCH_MAX Hm HEq Hcons) as Hm'.
  exists pre. sfields. rewrite Hid.
  split; [exact HEq|]. split; [exact Hcons|]. split; [exact Hnext|]. split; [exact Hbad|]. split; [|exact Hm'].
  (* the new read position is the head of the unsent part *)
  destruct Hm' as (D & C & U & HD & HnD & Hpd & Hc2 & Hup & _).
  rewrite (Hup eq_refl). destruct U as [|[i e] U']; [now left|right]. exists i. split; [reflexivity|].
  pose proof Hcons as Hc'. rewrite HD, app_assoc in Hc'. apply consec_head in Hc'.
  rewrite HD, !nlen_app, nlen_cons. rewrite nlen_app in Hc'. lia.
Qed.

Lemma INV_send s : INV s -> INV (fq_send s).
Proof.
  intros H. unfold fq_send. destruct (st_up s) eqn:Hup; [|exact H].
  destruct (a_peer s) as [p|] eqn:Hp; [|exact H].
  destruct (eq_fetch (p_q p)) as [[| |batch] q'] eqn:Hf; try exact H.
  (* the state in which the whole batch is in flight *)
  set (s1 := set_queue q' s).
  set (s2 := set_stream true (c2s s1 ++ map (fun ie : ievent => (a_epoch s1, fst ie, snd ie)) batch) (s2c s1) s1).
  assert (H2 : INV s2).
  { destruct H as (Hpre & Hem & Hap & Hc & Hdown & Hsess & Hq). rewrite Hp in Hq. destruct Hq as [Hsid Hq].
    subst s2 s1. rewrite (set_queue_some _ _ p Hp). unfold INV, Eof, Aof. sfields. rewrite Hup in Hq.
    split; [exact Hpre|]. split; [exact Hem|]. split; [exact Hap|].
    split. { intros t Ht. apply in_app_or in Ht as [Ht|Ht]; [now apply Hc|].
             apply in_map_iff in Ht as (ie & <- & _). reflexivity. }
    split; [discriminate|]. split; [exact Hsess|]. split; [exact Hsid|].
    exact (QI_send _ _ _ _ _ _ _ _ _ _ Hq Hf). }
  destruct (forallb (fun ie : ievent => marshal_ok (snd ie)) batch); [exact H2|].
  replace (fq_cut s1) with (fq_cut s2); [now apply INV_cut|].
  subst s2 s1. rewrite (set_queue_some _ _ p Hp). unfold fq_cut. sfields. now rewrite Hup.
Qed.

(* ---- one EventStream iteration ---- *)
Lemma tag_inj ep a b : tag ep a = tag ep b -> a = b.
Proof. destruct a, b. unfold tag. cbn [fst snd]. intros H. now injection H as -> ->. Qed.

Lemma MI_deliver E A ep id e cs' sc rd nx seen pre :
  MI E A ep true ((ep, id, e) :: cs') sc rd nx seen pre -> consec 0 E ->
  let dup := fst (lru_set id seen) in
  let seen' := snd (lru_set id seen) in
  let A' := if dup then A else A ++ [(id, e)] in
  id = nx /\ prefix A' E /\
  MI E A' ep true cs' (sc ++ [id]) rd (id + 1) seen' pre /\
  MI E A' ep false [] [] rd nx seen' pre.
Proof.
  intros (D & C & U & HD & HnD & Hpd & Hc2 & Hup & Hdn & HA & Hseen & Hs2) Hcons.
  destruct C as [|[id' e'] C']; [discriminate|]. cbn [map] in Hc2. injection Hc2 as Hid He Hc2. cbn [fst snd] in Hid, He. subst id' e'.
  assert (Hidx : id = nlen D).
  { pose proof Hcons as Hc'. rewrite HD in Hc'. cbn [app] in Hc'. apply consec_head in Hc'. lia. }
  cbv zeta.
  assert (Hcases : (A = D /\ lru_set id seen = (false, (if Nat.eqb (length seen) LRU_SIZE then tl seen else seen) ++ [id])) \/
                   (A = D ++ [(id, e)] /\ lru_set id seen = (true, seen) /\ In id seen)).
  { destruct HA as [HA|(x & e0 & rest & HCU & HA & Hin)].
    - left. split; [exact HA|]. unfold lru_set. destruct (mem_n id seen) eqn:Hm; [|reflexivity].
      apply mem_n_In in Hm. apply Hseen in Hm. rewrite HA in Hm. lia.
    - right. cbn [app] in HCU. injection HCU as <- <- _. rewrite <- HnD, <- Hidx in Hin.
      split; [exact HA|]. split; [|exact Hin]. unfold lru_set. apply mem_n_In in Hin. now rewrite Hin. }
  split; [lia|].
  assert (HE' : E = (D ++ [(id, e)]) ++ C' ++ U) by (rewrite HD, <- app_assoc; reflexivity).
  destruct Hcases as [[HAD Hl]|(HAD & Hl & Hin)]; rewrite Hl; cbn [fst snd].
  - (* applied now *)
    split; [exists (C' ++ U); rewrite HAD; exact HE'|].
    assert (Hseen' : forall i, In i ((if Nat.eqb (length seen) LRU_SIZE then tl seen else seen) ++ [id]) -> i < nlen (A ++ [(id, e)])).
    { intros i Hi. rewrite nlen_app, nlen_one. apply in_app_or in Hi as [Hi|[<-|[]]].
      - assert (In i seen) by (destruct (Nat.eqb (length seen) LRU_SIZE); [now apply In_tl|exact Hi]).
        apply Hseen in H. lia.
      - rewrite HAD. lia. }
    split.
    + exists (D ++ [(id, e)]), C', U. split; [exact HE'|]. split; [rewrite nlen_app, nlen_one; lia|].
      split; [rewrite nlen_app; lia|]. split; [exact Hc2|]. split; [exact Hup|]. split; [discriminate|].
      split; [left; now rewrite HAD|]. split; [exact Hseen'|].
      intros i Hi. apply in_app_or in Hi as [Hi|[<-|[]]]; [apply Hs2 in Hi; lia|lia].
    + exists D, [], ((id, e) :: C' ++ U). cbn [app map].
      split; [exact HD|]. split; [exact HnD|]. split; [exact Hpd|]. split; [reflexivity|]. split; [discriminate|].
      split.
      { intros _. split; [reflexivity|]. rewrite (Hup eq_refl). destruct U as [|[r e0] U']; [now left|right].
        exists r. split; [reflexivity|]. pose proof Hcons as Hc'. rewrite HD, app_assoc in Hc'. apply consec_head in Hc'.
        rewrite nlen_app in Hc'. lia. }
      split.
      { right. exists id, e, (C' ++ U). split; [reflexivity|]. split; [now rewrite HAD|].
        apply in_or_app. right. left. lia. }
      split; [exact Hseen'|intros i []].
  - (* duplicate: suppressed *)
    split; [exists (C' ++ U); rewrite HAD; exact HE'|].
    split.
    + exists (D ++ [(id, e)]), C', U. split; [exact HE'|]. split; [rewrite nlen_app, nlen_one; lia|].
      split; [rewrite nlen_app; lia|]. split; [exact Hc2|]. split; [exact Hup|]. split; [discriminate|].
      split; [now left|]. split; [exact Hseen|].
      intros i Hi. apply in_app_or in Hi as [Hi|[<-|[]]]; [apply Hs2 in Hi; lia|lia].
    + exists D, [], ((id, e) :: C' ++ U). cbn [app map].
      split; [exact HD|]. split; [exact HnD|]. split; [exact Hpd|]. split; [reflexivity|]. split; [discriminate|].
      split.
      { intros _. split; [reflexivity|]. rewrite (Hup eq_refl). destruct U as [|[r e0] U']; [now left|right].
        exists r. split; [reflexivity|]. pose proof Hcons as Hc'. rewrite HD, app_assoc in Hc'. apply consec_head in Hc'.
        rewrite nlen_app in Hc'. lia. }
      split.
      { right. exists id, e, (C' ++ U). split; [reflexivity|]. split; [exact HAD|]. rewrite <- HnD, <- Hidx. exact Hin. }
      split; [exact Hseen|intros i []].
Qed.

(* what the invariant depends on *)
Definition core (s : fstate) :=
  (a_peer s, a_sidctr s, a_epoch s, st_up s, c2s s, s2c s, fb_peer s, fb_sess s, emitted s, applied s).

Lemma INV_core s s' : core s = core s' -> INV s -> INV s'.
Proof.
  unfold core. intros H. injection H as H1 H2 H3 H4 H5 H6 H7 H8 H9 H10.
  unfold INV, Eof, Aof. now rewrite H1, H2, H3, H4, H5, H6, H7, H8, H9, H10.
Qed.

Lemma proj_snoc_other ep ep' l id e : ep' <> ep -> proj ep (l ++ [(ep', id, e)]) = proj ep l.
Proof. intros H. rewrite proj_app, proj_one_other by exact H. apply app_nil_r. Qed.

Lemma proj_snoc_same ep l id e : proj ep (l ++ [(ep, id, e)]) = proj ep l ++ [(id, e)].
Proof. now rewrite proj_app, proj_one_same. Qed.

Lemma INV_deliver b s : INV s -> INV (fq_deliver b s).
Proof.
  intros H. unfold fq_deliver. destruct (st_up s) eqn:Hup; [|exact H].
  destruct H as (Hpre & Hem & Hap & Hc & Hdown & Hsess & Hq).
  destruct (c2s s) as [|[[ep id] e] rest] eqn:Hcs; [unfold INV; now rewrite Hcs|].
  destruct (fb_sess s) as [se|] eqn:Hse; [|unfold INV; now rewrite Hcs, Hse].
  destruct (a_peer s) as [p|] eqn:Hp; [|congruence]. destruct Hq as [Hsid Hq].
  assert (Hep : ep = a_epoch s) by (apply (Hc (ep, id, e)); now left). subst ep.
  destruct Hq as (pre & HEq & Hcons & Hnext & Hbad & Hread & Hm).
  destruct (fs_id se =? p_sid p) eqn:Hmatch; [|congruence].
  rewrite Hup in Hm.
  destruct (MI_deliver _ _ _ _ _ _ _ _ _ _ _ Hm Hcons) as (Hidn & HpreA & Hok & Hfail).
  destruct (lru_set id (fs_seen se)) as [dup seen'] eqn:Hl. cbn [fst snd] in HpreA, Hok, Hfail.
  set (ap' := if dup then applied s else applied s ++ [(a_epoch s, id, e)]).
  assert (HA' : proj (a_epoch s) ap' = (if dup then Aof s else Aof s ++ [(id, e)])).
  { subst ap'. destruct dup; [reflexivity|]. apply proj_snoc_same. }
  assert (Hpre' : forall e0, prefix (proj e0 ap') (proj e0 (emitted s))).
  { intros e0. destruct (N.eq_dec e0 (a_epoch s)) as [->|Hne].
    - rewrite HA'. exact HpreA.
    - subst ap'. destruct dup; [apply Hpre|]. rewrite proj_snoc_other by congruence. apply Hpre. }
  assert (Hap' : forall t, In t ap' -> fst (fst t) <= a_epoch s).
  { subst ap'. intros t Ht. destruct dup; [now apply Hap|].
    apply in_app_or in Ht as [Ht|[<-|[]]]; [now apply Hap|cbn [fst]; lia]. }
  destruct (Hsess se eq_refl) as [Hsidse Hbp].
  destruct b.
  - (* the ack is sent: nextEventID advances *)
    apply INV_core with (s := set_server (fb_peer s) (Some {| fs_id := fs_id se; fs_next := id + 1; fs_seen := seen' |})
                                        (fb_fed s) (fb_ret s) (fb_ops s) ap' (published s)
                                        (set_stream true rest (s2c s ++ [id]) s)).
    { subst ap'. destruct dup; [reflexivity|]. destruct e; reflexivity. }
    unfold INV, Eof, Aof. sfields. rewrite Hp.
    split; [exact Hpre'|]. split; [exact Hem|]. split; [exact Hap'|].
    split; [intros t Ht; apply Hc; now right|]. split; [discriminate|].
    split; [intros se' Hs'; injection Hs' as <-; now split|]. split; [exact Hsid|].
    exists pre. sfields. rewrite Hmatch, HA'. fold (Eof s).
    split; [exact HEq|]. split; [exact Hcons|]. split; [exact Hnext|]. split; [exact Hbad|]. split; [exact Hread|exact Hok].
  - (* the ack cannot be sent: the stream is gone, nextEventID stays *)
    apply INV_core with (s := set_peer (Some {| p_sid := p_sid p; p_q := eq_set_closed true (p_q p) |}) (a_sidctr s) (a_epoch s) (emitted s)
                                (set_server (fb_peer s) (Some {| fs_id := fs_id se; fs_next := fs_next se; fs_seen := seen' |})
                                        (fb_fed s) (fb_ret s) (fb_ops s) ap' (published s)
                                        (set_stream false [] [] s))).
    { subst ap'. unfold fq_cut, set_queue. destruct dup; [sfields; rewrite Hp; reflexivity|].
      destruct e; unfold apply_event, fed_op; sfields; rewrite Hp; reflexivity. }
    unfold INV, Eof, Aof. sfields.
    split; [exact Hpre'|]. split; [exact Hem|]. split; [exact Hap'|].
    split; [intros t []|]. split; [intros _; now split|].
    split; [intros se' Hs'; injection Hs' as <-; now split|]. split; [exact Hsid|].
    exists pre. sfields. rewrite Hmatch, HA'. fold (Eof s).
    split; [exact HEq|]. split; [exact Hcons|]. split; [exact Hnext|]. split; [exact Hbad|]. split; [exact Hread|exact Hfail].
Qed.

(* ---- one readLoop iteration ---- *)
Lemma QI_ack E A ep cs id sc' q sess sid :
  QI E A ep true cs (id :: sc') q sess sid -> QI E A ep true cs sc' (eq_ack id q) sess sid.
Proof.
  intros (pre & HEq & Hcons & Hnext & Hbad & Hread & Hm).
  destruct sess as [se|]; [|discriminate]. destruct (fs_id se =? sid) eqn:Hid; [|discriminate].
  destruct Hm as (D & C & U & HD & HnD & Hpd & Hc2 & Hup & Hdn & HA & Hseen & Hs2).
  assert (Hlt : id < nlen D) by (rewrite HnD; apply Hs2; now left).
  pose proof Hcons as HcL. rewrite HEq in HcL. apply consec_app in HcL as [_ HcL]. rewrite N.add_0_l in HcL.
  assert (HlenE : nlen E = nlen pre + nlen (evq_l q)) by (rewrite HEq at 1; apply nlen_app).
  assert (HDE : nlen D <= nlen E) by (rewrite HD, !nlen_app; lia).
  (* the new list, and the acknowledged front part *)
  assert (Hnew : exists pre', E = pre' ++ ack_list id (evq_l q) /\ nlen pre <= nlen pre' /\ nlen pre' <= nlen D).
  { destruct (N.ltb_spec id (nlen pre)) as [Hb|Hb].
    - exists pre. rewrite (ack_list_below _ _ _ HcL Hb). split; [exact HEq|]. lia.
    - destruct (consec_split _ _ id HcL Hb) as (l1 & e & l2 & HL & Hl1); [lia|].
      exists (pre ++ l1 ++ [(id, e)]). rewrite HL in HcL |- *. rewrite (ack_list_consec _ _ _ _ _ HcL).
      split; [rewrite HEq, HL, <- !app_assoc; reflexivity|]. rewrite !nlen_app, nlen_one. lia. }
  destruct Hnew as (pre' & HEq' & Hpp & Hpd').
  assert (HcL' : consec (nlen pre') (ack_list id (evq_l q))).
  { pose proof Hcons as Hc'. rewrite HEq' in Hc'. apply consec_app in Hc' as [_ Hc']. now rewrite N.add_0_l in Hc'. }
  assert (HlenE' : nlen E = nlen pre' + nlen (ack_list id (evq_l q))) by (rewrite HEq' at 1; apply nlen_app).
  (* the read position is beyond what was acknowledged *)
  assert (Hrd : evq_read q = None \/ exists r, evq_read q = Some r /\ nlen D <= r /\ r < nlen E).
  { rewrite (Hup eq_refl). destruct U as [|[r e] U']; [now left|right]. exists r. split; [reflexivity|].
    pose proof Hcons as Hc'. rewrite HD, app_assoc in Hc'. apply consec_head in Hc'. rewrite nlen_app in Hc'.
    rewrite HD, !nlen_app, nlen_cons. lia. }
  exists pre'. unfold eq_ack. sfields. rewrite Hid.
  split; [exact HEq'|]. split; [exact Hcons|]. split; [exact Hnext|].
  split.
  { rewrite Hbad. cbn [orb]. destruct Hrd as [->|(r & -> & Hr1 & Hr2)]; [reflexivity|].
    rewrite (has_id_consec _ _ r HcL'). apply andb_false_intro2. apply negb_false_iff. lia. }
  split.
  { destruct Hrd as [->|(r & -> & Hr1 & Hr2)]; [now left|right]. exists r. split; [reflexivity|]. lia. }
  exists D, C, U. split; [exact HD|]. split; [exact HnD|]. split; [exact Hpd'|]. split; [exact Hc2|].
  split; [exact Hup|]. split; [discriminate|]. split; [exact HA|]. split; [exact Hseen|].
  intros i Hi. apply Hs2. now right.
Qed.

Lemma INV_ack_deliver s : INV s -> INV (fq_ack_deliver s).
Proof.
  intros H. unfold fq_ack_deliver. destruct (st_up s) eqn:Hup; [|exact H].
  destruct (s2c s) as [|id rest] eqn:Hsc; [exact H|].
  destruct (a_peer s) as [p|] eqn:Hp; [|exact H].
  destruct H as (Hpre & Hem & Hap & Hc & Hdown & Hsess & Hq). rewrite Hp in Hq. destruct Hq as [Hsid Hq].
  rewrite (set_queue_some _ _ p) by (sfields; exact Hp).
  unfold INV, Eof, Aof. sfields.
  split; [exact Hpre|]. split; [exact Hem|]. split; [exact Hap|]. split; [exact Hc|]. split; [discriminate|].
  split; [exact Hsess|]. split; [exact Hsid|]. rewrite Hup, Hsc in Hq. now apply QI_ack.
Qed.

(* ---- the handshake ---- *)
(* resume: setReadPosition(nextEventID), then (if the stream opens) open *)
Lemma QI_resume E A ep q se sid up' :
  QI E A ep false [] [] q (Some se) sid -> (fs_id se =? sid) = true ->
  QI E A ep up' [] [] (eq_set_read (fs_next se) q) (Some se) sid.
Proof.
  intros (pre & HEq & Hcons & Hnext & Hbad & Hread & Hm) Hid. rewrite Hid in Hm.
  destruct Hm as (D & C & U & HD & HnD & Hpd & Hc2 & Hup & Hdn & HA & Hseen & Hs2).
  destruct (Hdn eq_refl) as [-> Hrd]. cbn [app] in HD, HA.
  pose proof Hcons as HcL. rewrite HEq in HcL. apply consec_app in HcL as [_ HcL]. rewrite N.add_0_l in HcL.
  assert (HlenE : nlen E = nlen pre + nlen (evq_l q)) by (rewrite HEq at 1; apply nlen_app).
  assert (HlenU : nlen E = nlen D + nlen U) by (rewrite HD at 1; apply nlen_app).
  assert (Hnew : (if has_id (fs_next se) (evq_l q) then Some (fs_next se) else evq_read q) = head_id U).
  { rewrite (has_id_consec _ _ _ HcL). destruct U as [|[r e] U'].
    - rewrite nlen_nil in HlenU. replace ((nlen pre <=? fs_next se) && (fs_next se <? nlen pre + nlen (evq_l q))) with false by lia.
      destruct Hrd as [->|(r & Hr & Hge)]; [reflexivity|].
      destruct Hread as [Hn|(r' & Hr' & _ & Hlt)]; [congruence|]. rewrite Hr in Hr'. injection Hr' as <-. lia.
    - rewrite nlen_cons in HlenU. replace ((nlen pre <=? fs_next se) && (fs_next se <? nlen pre + nlen (evq_l q))) with true by lia.
      pose proof Hcons as Hc'. rewrite HD in Hc'. apply consec_head in Hc'. cbn [head_id]. f_equal. lia. }
  exists pre. unfold eq_set_read. sfields. rewrite Hid, Hnew.
  split; [exact HEq|]. split; [exact Hcons|]. split; [exact Hnext|]. split; [exact Hbad|].
  assert (HU : head_id U = None \/ exists r, head_id U = Some r /\ nlen D <= r /\ r < nlen E).
  { destruct U as [|[r e] U']; [now left|right]. exists r. split; [reflexivity|].
    pose proof Hcons as Hc'. rewrite HD in Hc'. apply consec_head in Hc'. rewrite nlen_cons in HlenU. lia. }
  split.
  { destruct HU as [->|(r & -> & H1 & H2)]; [now left|right]. exists r. split; [reflexivity|]. lia. }
  exists D, [], U. cbn [app map]. split; [exact HD|]. split; [exact HnD|]. split; [exact Hpd|]. split; [reflexivity|].
  split; [reflexivity|]. split.
  { intros _. split; [reflexivity|]. destruct HU as [->|(r & -> & H1 & H2)]; [now left|right]. exists r. split; [reflexivity|]. lia. }
  split; [exact HA|]. split; [exact Hseen|intros i []].
Qed.

Lemma INV_resume s p se (up' closed' : bool) :
  INV s -> st_up s = false -> a_peer s = Some p -> fb_sess s = Some se -> (fs_id se =? p_sid p) = true ->
  INV (set_stream up' [] [] (set_queue (eq_set_closed closed' (eq_set_read (fs_next se) (p_q p))) s)).
Proof.
  intros H Hup Hp Hse Hid. destruct H as (Hpre & Hem & Hap & Hc & Hdown & Hsess & Hq).
  rewrite Hp in Hq. destruct Hq as [Hsid Hq]. rewrite (set_queue_some _ _ p Hp).
  destruct (Hdown Hup) as [Hc0 Hs0]. rewrite Hup, Hc0, Hs0, Hse in Hq.
  unfold INV, Eof, Aof. sfields. rewrite Hse.
  split; [exact Hpre|]. split; [exact Hem|]. split; [exact Hap|]. split; [intros t []|]. split; [intros _; now split|].
  split; [rewrite <- Hse; exact Hsess|]. split; [exact Hsid|].
  apply QI_closed. now apply QI_resume.
Qed.

(* clean start: B made a fresh session for A's session id; A clears its queue *)
Lemma INV_clean s p (fed : db) (ops : list op) :
  INV s -> st_up s = false -> a_peer s = Some p -> fb_peer s = true ->
  INV (set_peer (Some {| p_sid := p_sid p; p_q := eq_clear (p_q p) |}) (a_sidctr s) (a_epoch s + 1) (emitted s)
         (set_server true (Some {| fs_id := p_sid p; fs_next := 0; fs_seen := [] |}) fed (fb_ret s) ops (applied s) (published s) s)).
Proof.
  intros H Hup Hp Hbp. destruct H as (Hpre & Hem & Hap & Hc & Hdown & Hsess & Hq).
  rewrite Hp in Hq. destruct Hq as [Hsid Hq]. destruct (Hdown Hup) as [Hc0 Hs0].
  destruct Hq as (pre & HEq & Hcons & Hnext & Hbad & Hread & Hm).
  unfold INV, Eof, Aof. sfields. rewrite Hc0, Hs0, Hup.
  split; [exact Hpre|]. split; [intros t Ht; apply Hem in Ht; lia|]. split; [intros t Ht; apply Hap in Ht; lia|].
  split; [intros t []|]. split; [intros _; now split|].
  split; [intros se Hs; injection Hs as <-; now split|]. split; [exact Hsid|].
  assert (HE0 : proj (a_epoch s + 1) (emitted s) = []) by (apply proj_none; intros t Ht; apply Hem in Ht; lia).
  assert (HA0 : proj (a_epoch s + 1) (applied s) = []) by (apply proj_none; intros t Ht; apply Hap in Ht; lia).
  rewrite HE0, HA0. exists []. unfold eq_clear. sfields. rewrite N.eqb_refl.
  split; [reflexivity|]. split; [exact I|]. split; [reflexivity|]. split; [exact Hbad|]. split; [now left|].
  exists [], [], []. cbn [app map]. split; [reflexivity|]. split; [reflexivity|]. split; [rewrite nlen_nil; lia|].
  split; [reflexivity|]. split; [discriminate|]. split; [intros _; split; [reflexivity|now left]|].
  split; [now left|]. split; [intros i []|intros i []].
Qed.

(* what the steps leave alone *)
Definition kcore (s : fstate) := (option_map p_sid (a_peer s), fb_peer s, option_map fs_id (fb_sess s), a_sidctr s).

Lemma kcore_emit1 e s : kcore (emit1 e s) = kcore s /\ st_up (emit1 e s) = st_up s /\ fb_sess (emit1 e s) = fb_sess s.
Proof. unfold emit1, kcore. destruct (a_peer s) as [p|] eqn:Hp; sfields; rewrite ?Hp; auto. Qed.

Lemma kcore_emit_list es s :
  kcore (emit_list es s) = kcore s /\ st_up (emit_list es s) = st_up s /\ fb_sess (emit_list es s) = fb_sess s.
Proof.
  unfold emit_list. revert s. induction es as [|e r IH]; intros s; cbn [fold_left]; [auto|].
  destruct (IH (emit1 e s)) as (H1 & H2 & H3). destruct (kcore_emit1 e s) as (H4 & H5 & H6).
  rewrite H1, H2, H3. auto.
Qed.

Lemma kcore_cut s : kcore (fq_cut s) = kcore s /\ st_up (fq_cut s) = false /\ fb_sess (fq_cut s) = fb_sess s.
Proof.
  unfold fq_cut, kcore, set_queue. destruct (st_up s) eqn:Hup; [|auto]. sfields.
  destruct (a_peer s) as [p|] eqn:Hp; sfields; rewrite ?Hp; auto.
Qed.

Lemma eq_set_closed_same q : eq_set_closed (evq_closed q) q = q.
Proof. destruct q; reflexivity. Qed.

Definition matched (s : fstate) : bool :=
  match a_peer s, fb_sess s with
  | Some p, Some se => fs_id se =? p_sid p
  | _, _ => false
  end.

Definition is_some {A} (o : option A) : bool := match o with Some _ => true | None => false end.

(* the state of the known-finding scan that corresponds to a model state *)
Definition kof (s : fstate) : kst :=
  {| k_apeer := is_some (a_peer s); k_bpeer := fb_peer s; k_match := matched s |}.

Lemma kof_kcore s s' : kcore s = kcore s' -> kof s = kof s'.
Proof.
  unfold kcore, kof, matched. intros H. injection H as H1 H2 H3 H4.
  destruct (a_peer s) as [p|], (a_peer s') as [p'|]; try discriminate; cbn [option_map is_some] in *;
    destruct (fb_sess s) as [se|], (fb_sess s') as [se'|]; try discriminate; cbn [option_map] in *; try congruence.
Qed.

(* the part of the handshake after B has answered and A has (if told so) rebuilt its queue *)
Lemma INV_hello_tail (fail_open : bool) s p se :
  INV s -> st_up s = false -> a_peer s = Some p -> fb_sess s = Some se -> (fs_id se =? p_sid p) = true ->
  let s3 := set_queue (eq_set_read (fs_next se) (p_q p)) s in
  let s4 := if fail_open then s3
            else match a_peer s3 with
                 | Some p3 => set_stream true [] [] (set_queue (eq_set_closed false (p_q p3)) s3)
                 | None => s3
                 end in
  INV s4 /\ kcore s4 = kcore s.
Proof.
  intros H Hup Hp Hse Hid. cbv zeta. destruct fail_open.
  - split.
    + apply INV_core with (s := set_stream false [] [] (set_queue (eq_set_closed (evq_closed (p_q p)) (eq_set_read (fs_next se) (p_q p))) s)).
      * destruct H as (_ & _ & _ & _ & Hdown & _). destruct (Hdown Hup) as [Hc0 Hs0].
        rewrite !(set_queue_some _ _ p Hp). unfold core. sfields. rewrite Hup, Hc0, Hs0.
        replace (evq_closed (p_q p)) with (evq_closed (eq_set_read (fs_next se) (p_q p))) by reflexivity.
        now rewrite eq_set_closed_same.
      * now apply INV_resume.
    + rewrite (set_queue_some _ _ p Hp). unfold kcore. sfields. now rewrite Hp.
  - rewrite (set_queue_some _ _ p Hp). sfields. unfold set_queue. sfields. split.
    + pose proof (INV_resume s p se true false H Hup Hp Hse Hid) as H'.
      rewrite (set_queue_some _ _ p Hp) in H'. exact H'.
    + unfold kcore. sfields. now rewrite Hp.
Qed.

Lemma fed_op_core s o : core (fed_op s o) = core s /\ fb_ret (fed_op s o) = fb_ret s /\ published (fed_op s o) = published s.
Proof. unfold fed_op, core. sfields. auto. Qed.
