(* C08: the will message is published exactly when, and only when, it should be - proved of the broker
   model Model/Broker.v.  Where can a will be published?  Only through send_will, which is called from
   unregister (at once), fire_wills (the delay timer), release_will (the session ended) and handle_connect
   (the old session is discarded).  Sections 1-5 characterise each call site; section 6 is the ghost-state
   theorem: along any event list every registered will is handed to send_will at most once. *)
From Coq Require Import List NArith ZArith Bool Arith Lia ZifyN ZifyNat ZifyBool.
Import ListNotations.
From GM Require Import Base.Topic Base.Msg Model.SubTrie Model.RetTrie Model.Queue Model.Limiter Model.TopicMatch
  Model.Broker Proofs.TopicP Proofs.SubTrieP Proofs.LimiterP Proofs.BrokerBasicP Proofs.BrokerQos2P.
Open Scope N_scope.

(* ================================================================== *)
(* 0. what send_will leaves alone                                      *)
(* ================================================================== *)

(* dframe without the retained store (a retained will replaces the retained message of its topic) *)
Definition wproj (s : st) :=
  (b_cfg s, b_hooks s, b_now s, b_rt s, (b_sessions s, b_online s, b_offline s, b_wills s), (b_subs s, b_unacks s, b_auto s)).

Definition wframe (s s' : st) : Prop := wproj s' = wproj s /\ forall c, cstat s' c = cstat s c.

Lemma wframe_refl s : wframe s s. Proof. split; reflexivity. Qed.
Lemma wframe_trans s1 s2 s3 : wframe s1 s2 -> wframe s2 s3 -> wframe s1 s3.
Proof. intros [A1 B1] [A2 B2]. split; [congruence|]. intros c. now rewrite B2, B1. Qed.
Lemma dframe_wframe s s' : dframe s s' -> wframe s s'.
Proof. intros [A B]. split; [|exact B]. unfold dproj in A. unfold wproj. congruence. Qed.
Lemma wframe_retain_update m s : wframe s (retain_update m s).
Proof. unfold retain_update. destruct (m_retained m); split; reflexivity. Qed.

Section WframeFields.
  Variables s s' : st.
  Hypothesis H : wframe s s'.
  Lemma wf_cfg : b_cfg s' = b_cfg s. Proof. destruct H as [A _]. unfold wproj in A. congruence. Qed.
  Lemma wf_hooks : b_hooks s' = b_hooks s. Proof. destruct H as [A _]. unfold wproj in A. congruence. Qed.
  Lemma wf_now : b_now s' = b_now s. Proof. destruct H as [A _]. unfold wproj in A. congruence. Qed.
  Lemma wf_rt : b_rt s' = b_rt s. Proof. destruct H as [A _]. unfold wproj in A. congruence. Qed.
  Lemma wf_sessions : b_sessions s' = b_sessions s. Proof. destruct H as [A _]. unfold wproj in A. congruence. Qed.
  Lemma wf_online : b_online s' = b_online s. Proof. destruct H as [A _]. unfold wproj in A. congruence. Qed.
  Lemma wf_offline : b_offline s' = b_offline s. Proof. destruct H as [A _]. unfold wproj in A. congruence. Qed.
  Lemma wf_wills : b_wills s' = b_wills s. Proof. destruct H as [A _]. unfold wproj in A. congruence. Qed.
  Lemma wf_subs : b_subs s' = b_subs s. Proof. destruct H as [A _]. unfold wproj in A. congruence. Qed.
  Lemma wf_unacks : b_unacks s' = b_unacks s. Proof. destruct H as [A _]. unfold wproj in A. congruence. Qed.
  Lemma wf_cstat c : cstat s' c = cstat s c. Proof. destruct H as [_ B]. apply B. Qed.
End WframeFields.

(* the message send_will publishes: what the OnWillPublish hook returns *)
Definition will_effective (cid : str) (m : msg) (s : st) : option msg :=
  match will_action cid s with
  | MAccept => Some m
  | MRewrite t p q => Some (with_topic_payload_qos t p q m)
  | _ => None
  end.

Lemma send_will_eq cid m s :
  send_will cid m s =
  match will_effective cid m s with
  | Some m' => let '(s', o, _) := deliver cid m' (retain_update m' s) in (s', o)
  | None => (s, [])
  end.
Proof. unfold send_will, will_effective. destruct (will_action cid s); reflexivity. Qed.

Lemma send_will_frame cid m s : wframe s (fst (send_will cid m s)) /\ only_drops (snd (send_will cid m s)).
Proof.
  rewrite send_will_eq. destruct (will_effective cid m s) as [m'|]; [|split; [apply wframe_refl|constructor]].
  pose proof (deliver_frame cid m' (retain_update m' s)) as [F D].
  destruct (deliver cid m' (retain_update m' s)) as [[s' o] mt]. cbn [fst snd] in *.
  split; [|exact D]. eapply wframe_trans; [apply (wframe_retain_update m')|apply dframe_wframe; exact F].
Qed.

(* ================================================================== *)
(* 1./2. unregister: suppressed, immediate or pending                  *)
(* ================================================================== *)

(* the stages of unregister *)
Definition ur_expiry (k : conn) (se : session) (s : st) : N :=
  if negb (k_force_remove k) && (k_v k =? 5) && k_got_disconnect k
  then N.min (opt_or (k_disc_sei k) (se_expiry se)) (c_session_expiry (b_cfg s)) else se_expiry se.

Definition ur_store (k : conn) (se : session) (s : st) : bool :=
  negb (k_force_remove k) && negb (ur_expiry k se s =? 0).

(* min(will delay interval, session expiry interval) *)
Definition ur_delay (k : conn) (se : session) (s : st) : N :=
  if ur_expiry k se s <=? se_will_delay se then ur_expiry k se s else se_will_delay se.

Lemma ur_delay_min k se s : ur_delay k se s = N.min (se_will_delay se) (ur_expiry k se s).
Proof. unfold ur_delay. destruct (ur_expiry k se s <=? se_will_delay se) eqn:E; lia. Qed.

(* store the session as detached, or remove it *)
Definition ur_finish (cid : str) (se : session) (expiry : N) (store : bool) (s1 : st) (o1 : list out) : st * list out :=
  if store then
    (set_tables (aset cid {| se_will := se_will se; se_will_delay := se_will_delay se;
                             se_connected_at := se_connected_at se; se_expiry := expiry |} (b_sessions s1))
                (adel cid (b_online s1)) (aset cid (b_now s1 + expiry * 1000) (b_offline s1)) (b_wills s1)
                (b_queues s1) (b_unacks s1) s1, o1)
  else (remove_session cid s1, o1).

Definition ur_arm (cid : str) (w : msg) (at_ : N) (s : st) : st :=
  set_tables (b_sessions s) (b_online s) (b_offline s) (aset cid (w, at_) (b_wills s)) (b_queues s) (b_unacks s) s.

Lemma unregister_stages c k s :
  unregister c k s =
  let cid := k_cid k in
  match aget cid (b_sessions s) with
  | None => (remove_session cid s, [])
  | Some se =>
      let '(s1, o1) :=
        match se_will se with
        | Some w =>
            if k_clean_will k then (s, [])
            else if negb (ur_delay k se s =? 0) && ur_store k se s
                 then (ur_arm cid w (b_rt s + ur_delay k se s * 1000) s, [])
                 else send_will cid w s
        | None => (s, [])
        end in
      ur_finish cid se (ur_expiry k se s) (ur_store k se s) s1 o1
  end.
Proof. reflexivity. Qed.

Lemma ur_finish_wills cid se expiry store s1 o1 :
  b_wills (fst (ur_finish cid se expiry store s1 o1)) = b_wills s1 /\ snd (ur_finish cid se expiry store s1 o1) = o1.
Proof. unfold ur_finish. destruct store; split; reflexivity. Qed.

(* Target 1a.  A DISCONNECT that suppresses the will (k_clean_will): unregister neither publishes nor arms it -
   send_will is not applied, nothing is written, the table of pending wills is as before; the state is the one a
   session without will would get (ur_finish applied to the untouched state) *)
Theorem will_suppressed_by_disconnect c k s se :
  aget (k_cid k) (b_sessions s) = Some se ->
  k_clean_will k = true ->
  unregister c k s = ur_finish (k_cid k) se (ur_expiry k se s) (ur_store k se s) s [] /\
  snd (unregister c k s) = [] /\ b_wills (fst (unregister c k s)) = b_wills s.
Proof.
  intros Hse Hcw. rewrite unregister_stages. cbv zeta. rewrite Hse, Hcw.
  assert (E : (let '(s1, o1) := match se_will se with Some _ => (s, []) | None => (s, @nil out) end in
               ur_finish (k_cid k) se (ur_expiry k se s) (ur_store k se s) s1 o1) =
              ur_finish (k_cid k) se (ur_expiry k se s) (ur_store k se s) s []) by (destruct (se_will se); reflexivity).
  rewrite E. split; [reflexivity|].
  destruct (ur_finish_wills (k_cid k) se (ur_expiry k se s) (ur_store k se s) s []) as [A B]. now split.
Qed.

Lemma aset_aset_same {V} (k : str) (v v' : V) l : aset k v (aset k v' l) = aset k v l.
Proof.
  induction l as [|[k0 v0] r IH]; cbn [aset]; [now rewrite str_eqb_refl|].
  destruct (str_eqb k k0) eqn:E0; cbn [aset]; [now rewrite str_eqb_refl|]. now rewrite E0, IH.
Qed.

Lemma adel_aset_same {V} (k : str) (v : V) l : adel k (aset k v l) = adel k l.
Proof.
  induction l as [|[k0 v0] r IH]; cbn [aset adel]; [now rewrite str_eqb_refl|].
  destruct (str_eqb k k0) eqn:E0; cbn [adel]; [now rewrite str_eqb_refl|]. now rewrite E0, IH.
Qed.

(* the same call on the same state with the will erased from the session gives the same outputs, the same
   pending wills, and the same state up to the will field of the stored session *)
Definition erase_will (cid : str) (s : st) : st :=
  match aget cid (b_sessions s) with
  | Some se => set_tables (aset cid {| se_will := None; se_will_delay := se_will_delay se;
                                       se_connected_at := se_connected_at se; se_expiry := se_expiry se |} (b_sessions s))
                          (b_online s) (b_offline s) (b_wills s) (b_queues s) (b_unacks s) s
  | None => s
  end.

Theorem will_suppressed_same_as_no_will c k s :
  k_clean_will k = true ->
  snd (unregister c k s) = snd (unregister c k (erase_will (k_cid k) s)) /\
  erase_will (k_cid k) (fst (unregister c k s)) = erase_will (k_cid k) (fst (unregister c k (erase_will (k_cid k) s))).
Proof.
  intros Hcw. unfold erase_will at 1 4.
  destruct (aget (k_cid k) (b_sessions s)) as [se|] eqn:Hse; [|split; reflexivity].
  set (s0 := set_tables _ _ _ _ _ _ s).
  rewrite !unregister_stages. cbv zeta. rewrite Hse, Hcw.
  assert (Hse0 : aget (k_cid k) (b_sessions s0) = Some {| se_will := None; se_will_delay := se_will_delay se;
                    se_connected_at := se_connected_at se; se_expiry := se_expiry se |})
    by (unfold s0; rewrite b_sessions_set_tables; apply aget_aset_same).
  rewrite Hse0. cbn [se_will].
  assert (E : (let '(s1, o1) := match se_will se with Some _ => (s, []) | None => (s, @nil out) end in
               ur_finish (k_cid k) se (ur_expiry k se s) (ur_store k se s) s1 o1) =
              ur_finish (k_cid k) se (ur_expiry k se s) (ur_store k se s) s []) by (destruct (se_will se); reflexivity).
  rewrite E. clear E.
  unfold ur_finish, ur_store, ur_expiry. cbn [se_expiry se_will se_will_delay se_connected_at].
  change (b_cfg s0) with (b_cfg s).
  match goal with |- context [if ?b then (set_tables _ _ _ _ _ _ s, _) else _] => destruct b end; cbn [fst snd].
  - split; [reflexivity|]. unfold erase_will. rewrite !b_sessions_set_tables, !aget_aset_same.
    unfold s0. rewrite !b_sessions_set_tables, !aset_aset_same. reflexivity.
  - split; [reflexivity|]. unfold erase_will, remove_session. rewrite !b_sessions_set_subs, !b_sessions_set_tables.
    unfold s0. rewrite !b_sessions_set_tables, adel_aset_same. reflexivity.
Qed.

(* Target 1b.  When is the DISCONNECT request recorded?  Always for a v3 client; for a v5 client unless the
   packet asks for a session expiry although the session had none (a protocol error: the handler gives up before
   it records anything) or the session is unknown. *)
Definition disc_recorded (k : conn) (props : list prop) (s : st) : bool :=
  if k_v k =? 5 then
    match aget (k_cid k) (b_sessions s) with
    | Some se => negb ((se_expiry se =? 0) && negb (opt_or (p_sei props) 0 =? 0))
    | None => false
    end
  else true.

(* k_clean_will is set iff not (v5 and reason code 4 = "Disconnect with Will Message") *)
Theorem disconnect_sets_clean_will c k code props s :
  disc_recorded k props s = true ->
  exists s' k',
    handle_packet c k (KDisconnect code props) s = HErr s' [] None /\
    nget c (b_conns s') = Some k' /\
    k_clean_will k' = negb ((k_v k =? 5) && (code =? 4)) /\
    k_got_disconnect k' = true /\ k_cid k' = k_cid k /\ k_phase k' = k_phase k /\ k_v k' = k_v k /\
    k_force_remove k' = k_force_remove k /\
    b_wills s' = b_wills s /\ b_online s' = b_online s /\
    (forall cid, option_map se_will (aget cid (b_sessions s')) = option_map se_will (aget cid (b_sessions s))).
Proof.
  unfold disc_recorded. intros H. cbn [handle_packet].
  destruct (k_v k =? 5) eqn:Ev.
  - destruct (aget (k_cid k) (b_sessions s)) as [se|] eqn:Hse; [|discriminate].
    apply negb_true_iff in H. rewrite H.
    eexists _, _. split; [reflexivity|]. rewrite b_conns_upd_conn, nget_nset_same.
    split; [reflexivity|]. cbn [andb]. rewrite k_clean_will_set_disc, k_got_disconnect_set_disc, k_cid_set_disc, k_phase_set_disc,
      k_v_set_disc, k_force_remove_set_disc.
    repeat (split; [reflexivity|]).
    rewrite b_wills_upd_conn, b_online_upd_conn, b_sessions_upd_conn.
    destruct (p_sei props) as [x|]; [|repeat split].
    destruct (x =? 0); [repeat split|].
    rewrite b_wills_set_tables, b_online_set_tables, b_sessions_set_tables.
    split; [reflexivity|]. split; [reflexivity|]. intros cid. rewrite aget_aset.
    destruct (str_eqb_spec cid (k_cid k)) as [->|_]; [|reflexivity]. now rewrite Hse.
  - eexists _, _. split; [reflexivity|]. rewrite b_conns_upd_conn, nget_nset_same.
    split; [reflexivity|]. repeat split.
Qed.

(* ... and when it is not recorded nothing changes: the will stays armed.  (The MQTT 5 DISCONNECT that asks for
   a session expiry after CONNECT asked for none is a protocol error, so publishing the will is what the
   specification wants; the v5 reason code 0 alone does not suppress the will in that case.) *)
Theorem disconnect_not_recorded c k code props s :
  disc_recorded k props s = false ->
  handle_packet c k (KDisconnect code props) s = HErr s [] None.
Proof.
  unfold disc_recorded. intros H. cbn [handle_packet].
  destruct (k_v k =? 5); [|discriminate].
  destruct (aget (k_cid k) (b_sessions s)) as [se|]; [|reflexivity].
  apply negb_false_iff in H. now rewrite H.
Qed.

(* the whole path: a recorded DISCONNECT (not "with will") on a connected socket, then the socket goes away -
   in whatever state the poll loops have left the broker - and nothing of the will is seen: the only output is
   the close of the socket, no pending will is armed *)
Theorem normal_disconnect_then_close_no_will c k code props s s1 o1 s1' :
  nget c (b_conns s) = Some k -> k_phase k = PhConnected ->
  disc_recorded k props s = true -> (k_v k =? 5) && (code =? 4) = false ->
  step_event s (ESend c (KDisconnect code props)) = (s1, o1) ->
  dframe s1 s1' ->
  o1 = [] /\ snd (conn_gone c s1') = [OClose c] /\ b_wills (fst (conn_gone c s1')) = b_wills s.
Proof.
  intros Hk Hph Hrec Hcode Hstep F.
  destruct (disconnect_sets_clean_will c k code props s Hrec)
    as (s' & k' & E & Hk' & Hcw & _ & Hcid & Hph' & _ & _ & Hw & _).
  cbn [step_event] in Hstep. rewrite Hk, Hph, E in Hstep.
  unfold fail_conn in Hstep. rewrite Hk', Hph', Hph in Hstep. cbn [orb] in Hstep.
  injection Hstep as <- <-. split; [reflexivity|].
  rewrite Hcode in Hcw. cbn [negb] in Hcw.
  set (kz := set_phase PhZombie k') in *.
  assert (Hkz : nget c (b_conns (upd_conn c kz s')) = Some kz) by (rewrite b_conns_upd_conn; apply nget_nset_same).
  destruct (df_conn _ _ F c kz Hkz) as (k2 & Hk2 & Hs2).
  assert (Hp2 : k_phase k2 = PhZombie) by (rewrite (ks_phase _ _ Hs2); reflexivity).
  assert (Hc2 : k_clean_will k2 = true) by (rewrite (ks_clean_will _ _ Hs2); exact Hcw).
  assert (Hw1 : b_wills s1' = b_wills s) by (rewrite (df_wills _ _ F); exact Hw).
  unfold conn_gone. rewrite Hk2, Hp2.
  set (s0 := match aget (k_cid k2) (b_queues s1') with Some q => _ | None => s1' end).
  assert (Hw0 : b_wills s0 = b_wills s1') by (unfold s0; destruct (aget (k_cid k2) (b_queues s1')); reflexivity).
  set (kc := set_phase PhClosed k2). set (sx := upd_conn c kc s0).
  assert (Hcc : k_clean_will kc = true) by exact Hc2.
  destruct (aget (k_cid kc) (b_sessions sx)) as [se|] eqn:Hse.
  - destruct (will_suppressed_by_disconnect c kc sx se Hse Hcc) as (_ & Ho & Hwl).
    destruct (unregister c kc sx) as [sy oy]. cbn [fst snd] in *. subst oy.
    split; [reflexivity|]. rewrite Hwl. unfold sx. rewrite b_wills_upd_conn. congruence.
  - rewrite unregister_stages. cbv zeta. rewrite Hse. cbn [fst snd app].
    split; [reflexivity|]. unfold remove_session. rewrite b_wills_set_subs, b_wills_set_tables.
    unfold sx. rewrite b_wills_upd_conn. congruence.
Qed.

(* Target 2.  The will is armed (no suppressing DISCONNECT): it is sent at once when the effective delay
   min(will delay, session expiry) is 0 or the session is not kept ... *)
Theorem will_immediate c k s se w :
  aget (k_cid k) (b_sessions s) = Some se -> se_will se = Some w -> k_clean_will k = false ->
  ur_delay k se s = 0 \/ ur_store k se s = false ->
  unregister c k s =
    (let '(s1, o1) := send_will (k_cid k) w s in
     ur_finish (k_cid k) se (ur_expiry k se s) (ur_store k se s) s1 o1) /\
  b_wills (fst (unregister c k s)) = b_wills s.
Proof.
  intros Hse Hw Hcw Hnow. rewrite unregister_stages. cbv zeta. rewrite Hse, Hw, Hcw.
  assert (E : negb (ur_delay k se s =? 0) && ur_store k se s = false).
  { destruct Hnow as [->| ->]; [reflexivity|apply andb_false_r]. }
  rewrite E. split; [reflexivity|].
  pose proof (send_will_frame (k_cid k) w s) as [F _].
  destruct (send_will (k_cid k) w s) as [s1 o1]. cbn [fst] in F.
  destruct (ur_finish_wills (k_cid k) se (ur_expiry k se s) (ur_store k se s) s1 o1) as [A _].
  rewrite A. apply (wf_wills _ _ F).
Qed.

(* ... otherwise nothing is sent and the will waits in b_wills until real time b_rt + delay *)
Theorem will_pending c k s se w :
  aget (k_cid k) (b_sessions s) = Some se -> se_will se = Some w -> k_clean_will k = false ->
  ur_delay k se s <> 0 -> ur_store k se s = true ->
  unregister c k s =
    ur_finish (k_cid k) se (ur_expiry k se s) true (ur_arm (k_cid k) w (b_rt s + ur_delay k se s * 1000) s) [] /\
  snd (unregister c k s) = [] /\
  b_wills (fst (unregister c k s)) = aset (k_cid k) (w, b_rt s + ur_delay k se s * 1000) (b_wills s).
Proof.
  intros Hse Hw Hcw Hd Hst. rewrite unregister_stages. cbv zeta. rewrite Hse, Hw, Hcw, Hst.
  apply N.eqb_neq in Hd. rewrite Hd. cbn [negb andb].
  split; [reflexivity|]. split; reflexivity.
Qed.

(* ================================================================== *)
(* 3. CONNECT and a pending will                                       *)
(* ================================================================== *)

Lemma hc_wills_one cid w s : hc_wills [(cid, w)] s = let '(s', o') := send_will cid w s in (s', [] ++ o').
Proof. reflexivity. Qed.

(* the session is detached (its connection is gone, the will waits): a CONNECT that resumes the session removes
   the pending entry and publishes nothing *)
Theorem pending_will_cancelled_by_resume c cn s se q u :
  connect_accepted cn s = true ->
  let cid := hc_cid cn s in
  aget cid (b_online s) = None ->
  aget cid (b_sessions s) = Some se -> hc_resume0 cid cn s = true ->
  aget cid (b_queues s) = Some q -> aget cid (b_unacks s) = Some u ->
  exists props s', handle_connect c cn s = (s', [OSend c (KConnack true 0 props)]) /\
                   b_wills s' = adel cid (b_wills s).
Proof.
  intros Hacc cid Hon Hse Hres Hq Hu.
  destruct (handle_connect_stages c cn s Hacc) as (k & props & _ & _ & _ & _ & E). rewrite E. clear E.
  cbv zeta. fold cid.
  assert (Ha : forall X : Type, forall f : st -> X, (forall a s0, f (set_auto a s0) = f s0) -> f (hc_auto cn s) = f s).
  { intros X f Hf. unfold hc_auto. destruct (is_empty (cn_cid cn)); [apply Hf|reflexivity]. }
  unfold hc_takeover.
  rewrite (Ha _ (fun s0 => aget cid (b_online s0))) by reflexivity. rewrite Hon.
  unfold hc_old.
  rewrite (Ha _ (fun s0 => aget cid (b_sessions s0))) by reflexivity. rewrite Hse.
  rewrite (Ha _ (fun s0 => hc_resume0 cid cn s0)) by reflexivity. rewrite Hres.
  rewrite (Ha _ (fun s0 => aget cid (b_queues s0))) by reflexivity. rewrite Hq.
  rewrite (Ha _ (fun s0 => aget cid (b_unacks s0))) by reflexivity. rewrite Hu.
  unfold hc_fresh. destruct (hc_wd cn (b_cfg s)) as [wdelay expiry]. cbn [hc_wills fold_left app].
  eexists _, _. split; [reflexivity|].
  transitivity (adel cid (b_wills (hc_auto cn s))); [reflexivity|]. apply (Ha _ (fun s0 => adel cid (b_wills s0))). reflexivity.
Qed.

(* ... one that does not resume it (clean start, or the session has expired) sends the pending will exactly once,
   after the old session - and its subscriptions - are gone, and removes the entry *)
Theorem pending_will_sent_when_session_discarded c cn s se w t :
  connect_accepted cn s = true ->
  let cid := hc_cid cn s in
  aget cid (b_online s) = None ->
  aget cid (b_sessions s) = Some se -> hc_resume0 cid cn s = false ->
  aget cid (b_wills s) = Some (w, t) ->
  exists props s4,
    handle_connect c cn s = (let '(s5, o5) := send_will cid w s4 in (s5, [OSend c (KConnack false 0 props)] ++ o5)) /\
    b_wills s4 = adel cid (b_wills s) /\ b_subs s4 = db_unsubscribe_all cid (b_subs s) /\ b_ret s4 = b_ret s /\
    b_hooks s4 = b_hooks s /\
    b_wills (fst (handle_connect c cn s)) = adel cid (b_wills s).
Proof.
  intros Hacc cid Hon Hse Hres Hw.
  destruct (handle_connect_stages c cn s Hacc) as (k & props & _ & _ & _ & _ & E). rewrite E. clear E.
  cbv zeta. fold cid.
  assert (Ha : forall X : Type, forall f : st -> X, (forall a s0, f (set_auto a s0) = f s0) -> f (hc_auto cn s) = f s).
  { intros X f Hf. unfold hc_auto. destruct (is_empty (cn_cid cn)); [apply Hf|reflexivity]. }
  unfold hc_takeover.
  rewrite (Ha _ (fun s0 => aget cid (b_online s0))) by reflexivity. rewrite Hon.
  unfold hc_old.
  rewrite (Ha _ (fun s0 => aget cid (b_sessions s0))) by reflexivity. rewrite Hse.
  rewrite (Ha _ (fun s0 => hc_resume0 cid cn s0)) by reflexivity. rewrite Hres.
  cbv zeta.
  assert (Hw1 : aget cid (b_wills (remove_session cid (hc_auto cn s))) = Some (w, t)).
  { unfold remove_session. rewrite b_wills_set_subs, b_wills_set_tables.
    rewrite (Ha _ (fun s0 => aget cid (b_wills s0))) by reflexivity. exact Hw. }
  rewrite Hw1. unfold hc_fresh. destruct (hc_wd cn (b_cfg s)) as [wdelay expiry].
  rewrite hc_wills_one.
  match goal with |- context [send_will cid w ?X] => set (s4 := X) end.
  assert (W4 : b_wills s4 = adel cid (b_wills s)).
  { transitivity (adel cid (b_wills (hc_auto cn s))); [reflexivity|]. apply (Ha _ (fun s0 => adel cid (b_wills s0))). reflexivity. }
  exists props, s4. split; [destruct (send_will cid w s4); reflexivity|].
  split; [exact W4|]. split.
  { transitivity (db_unsubscribe_all cid (b_subs (hc_auto cn s))); [reflexivity|]. apply (Ha _ (fun s0 => db_unsubscribe_all cid (b_subs s0))). reflexivity. }
  split.
  { transitivity (b_ret (hc_auto cn s)); [reflexivity|]. apply (Ha _ (fun s0 => b_ret s0)). reflexivity. }
  split.
  { transitivity (b_hooks (hc_auto cn s)); [reflexivity|]. apply (Ha _ (fun s0 => b_hooks s0)). reflexivity. }
  pose proof (send_will_frame cid w s4) as [F _]. destruct (send_will cid w s4) as [s5 o5]. cbn [fst] in *.
  rewrite (wf_wills _ _ F). exact W4.
Qed.

(* ================================================================== *)
(* 4. the delay timer and the end of the session                        *)
(* ================================================================== *)

Definition del_will (cid : str) (s : st) : st :=
  set_tables (b_sessions s) (b_online s) (b_offline s) (adel cid (b_wills s)) (b_queues s) (b_unacks s) s.

Definition due (rt : N) (e : str * (msg * N)) : bool := snd (snd e) <=? rt.

(* what fire_wills should do: for every due entry, in table order: take it out and send it - exactly once each *)
Definition fire_seq (l : list (str * (msg * N))) (s : st) (o : list out) : st * list out :=
  fold_left (fun acc e => let '(s0, o0) := acc in
                          let '(s2, o2) := send_will (fst e) (fst (snd e)) (del_will (fst e) s0) in (s2, o0 ++ o2))
            l (s, o).

Definition fire_step (acc : st * list out) (w : str * (msg * N)) : st * list out :=
  let '(s0, o0) := acc in
  let '(cid, (m, at_)) := w in
  if at_ <=? b_rt s0 then
    match aget cid (b_wills s0) with
    | Some _ =>
        let s1 := set_tables (b_sessions s0) (b_online s0) (b_offline s0) (adel cid (b_wills s0)) (b_queues s0) (b_unacks s0) s0 in
        let '(s2, o2) := send_will cid m s1 in (s2, o0 ++ o2)
    | None => (s0, o0)
    end
  else (s0, o0).

Lemma fire_wills_fold s : fire_wills s = fold_left fire_step (b_wills s) (s, []).
Proof. reflexivity. Qed.

Definition adel_all {V} (ks : list str) (w : list (str * V)) : list (str * V) := fold_left (fun w k => adel k w) ks w.

Lemma adel_all_cons_other {V} ks : forall (h : str * V) r, ~ In (fst h) ks -> adel_all ks (h :: r) = h :: adel_all ks r.
Proof.
  induction ks as [|k ks IH]; intros h r Hn; [reflexivity|].
  cbn [adel_all fold_left]. destruct h as [k0 v0]. cbn [adel].
  destruct (str_eqb_spec k k0) as [->|Hne]; [exfalso; apply Hn; now left|].
  apply IH. intros Hin. apply Hn. now right.
Qed.

Lemma adel_all_filter {V} (P : str * V -> bool) (w : list (str * V)) :
  NoDup (map fst w) -> adel_all (map fst (filter P w)) w = filter (fun e => negb (P e)) w.
Proof.
  induction w as [|[k v] r IH]; intros Hnd; [reflexivity|].
  inversion Hnd as [|x xs Hx Hnd']; subst. cbn [filter].
  destruct (P (k, v)) eqn:Ep; cbn [negb map fst].
  - cbn [adel_all fold_left adel]. rewrite str_eqb_refl. apply IH. exact Hnd'.
  - rewrite adel_all_cons_other.
    + f_equal. apply IH. exact Hnd'.
    + cbn [fst]. intros Hin. apply Hx. apply in_map_iff in Hin as [e [He Hin]]. apply filter_In in Hin as [Hin _].
      apply in_map_iff. exists e. now split.
Qed.

Lemma fire_step_due s0 o0 cid m at_ :
  fire_step (s0, o0) (cid, (m, at_)) =
  if at_ <=? b_rt s0 then
    match aget cid (b_wills s0) with
    | Some _ => let '(s2, o2) := send_will cid m (del_will cid s0) in (s2, o0 ++ o2)
    | None => (s0, o0)
    end
  else (s0, o0).
Proof. reflexivity. Qed.

Lemma fire_fold_spec : forall (l : list (str * (msg * N))) s0 o0,
  NoDup (map fst l) ->
  (forall e, In e l -> aget (fst e) (b_wills s0) <> None) ->
  fold_left fire_step l (s0, o0) = fire_seq (filter (due (b_rt s0)) l) s0 o0 /\
  b_wills (fst (fold_left fire_step l (s0, o0))) = adel_all (map fst (filter (due (b_rt s0)) l)) (b_wills s0) /\
  b_rt (fst (fold_left fire_step l (s0, o0))) = b_rt s0.
Proof.
  induction l as [|[cid [m at_]] r IH]; intros s0 o0 Hnd Hpres.
  - cbn. repeat split.
  - inversion Hnd as [|x xs Hx Hnd']; subst.
    cbn [fold_left filter]. rewrite fire_step_due.
    replace (due (b_rt s0) (cid, (m, at_))) with (at_ <=? b_rt s0) by reflexivity.
    destruct (at_ <=? b_rt s0) eqn:Ed.
    + assert (Hp : aget cid (b_wills s0) <> None) by (apply (Hpres (cid, (m, at_))); now left).
      destruct (aget cid (b_wills s0)) as [x|] eqn:Ea; [|congruence].
      pose proof (send_will_frame cid m (del_will cid s0)) as [F _].
      destruct (send_will cid m (del_will cid s0)) as [s2 o2] eqn:Es. cbn [fst] in F.
      assert (Hw2 : b_wills s2 = adel cid (b_wills s0)) by (rewrite (wf_wills _ _ F); reflexivity).
      assert (Hrt : b_rt s2 = b_rt s0) by (rewrite (wf_rt _ _ F); reflexivity).
      destruct (IH s2 (o0 ++ o2) Hnd') as (I1 & I2 & I3).
      { intros e He. rewrite Hw2. rewrite aget_adel_other.
        - apply Hpres. now right.
        - intros Heq. apply Hx. rewrite <- Heq. apply in_map. exact He. }
      rewrite Hrt in I1, I2, I3.
      split; [|split; [rewrite I2, Hw2; reflexivity|exact I3]].
      rewrite I1. unfold fire_seq. cbn [fold_left fst snd]. rewrite Es. reflexivity.
    + apply IH; [exact Hnd'|]. intros e He. apply Hpres. now right.
Qed.

(* Target 4a.  The timer: every entry whose time has come is taken out of the table and sent, exactly once each;
   the entries not yet due stay as they are *)
Theorem pending_will_fires_once s :
  NoDup (map fst (b_wills s)) ->
  fire_wills s = fire_seq (filter (due (b_rt s)) (b_wills s)) s [] /\
  b_wills (fst (fire_wills s)) = filter (fun e => negb (due (b_rt s) e)) (b_wills s).
Proof.
  intros Hnd. rewrite fire_wills_fold.
  destruct (fire_fold_spec (b_wills s) s [] Hnd) as (A & B & _).
  - intros [cid [m t]] He. cbn [fst]. rewrite (In_aget cid (m, t) (b_wills s) Hnd He). discriminate.
  - split; [exact A|]. rewrite B. now apply adel_all_filter.
Qed.

Lemma filter_none {A} (P : A -> bool) l : forallb (fun e => negb (P e)) l = true -> filter P l = [].
Proof.
  induction l as [|e r IH]; cbn [forallb filter]; intros H; [reflexivity|].
  apply andb_prop in H as [He Hr]. apply negb_true_iff in He. rewrite He. now apply IH.
Qed.

(* nothing is due: nothing happens *)
Corollary no_will_before_its_time s :
  NoDup (map fst (b_wills s)) -> forallb (fun e => negb (due (b_rt s) e)) (b_wills s) = true ->
  fire_wills s = (s, []).
Proof.
  intros Hnd Hall. destruct (pending_will_fires_once s Hnd) as [A _]. rewrite A.
  assert (E : filter (due (b_rt s)) (b_wills s) = []) by (apply filter_none; exact Hall).
  rewrite E. reflexivity.
Qed.

(* Target 4b.  The session ends (expiry / administrative termination) *)
Theorem release_will_spec cid s :
  release_will cid s =
    match aget cid (b_wills s) with
    | Some (w, _) => send_will cid w (del_will cid s)
    | None => (s, [])
    end /\
  b_wills (fst (release_will cid s)) = adel cid (b_wills s).
Proof.
  split; [reflexivity|]. unfold release_will.
  destruct (aget cid (b_wills s)) as [[w t]|] eqn:E.
  - pose proof (send_will_frame cid w (del_will cid s)) as [F _]. fold (del_will cid s).
    destruct (send_will cid w (del_will cid s)) as [s2 o2]. cbn [fst] in *. rewrite (wf_wills _ _ F). reflexivity.
  - cbn [fst]. symmetry. now apply adel_absent.
Qed.

(* ================================================================== *)
(* 5. what is published                                                 *)
(* ================================================================== *)

(* the will registered at CONNECT is will_msg of the CONNECT packet's will *)
Theorem connect_registers_will c cn s s' o :
  connect_accepted cn s = true -> handle_connect c cn s = (s', o) ->
  exists se, aget (hc_cid cn s) (b_sessions s') = Some se /\
             se_will se = match cn_will cn with Some w => Some (will_msg w) | None => None end /\
             (cn_ver cn = 5 -> se_will_delay se = match cn_will cn with Some w => opt_or (p_willdelay (w_props w)) 0 | None => 0 end) /\
             (cn_ver cn <> 5 -> se_will_delay se = 0).
Proof.
  intros Hacc Hc.
  destruct (handle_connect_stages c cn s Hacc) as (k & props & _ & _ & _ & _ & E). rewrite E in Hc. clear E.
  cbv zeta in Hc. set (cid := hc_cid cn s) in *.
  destruct (hc_takeover cid (hc_auto cn s)) as [s1 o_dup].
  match type of Hc with context [hc_old cid cn ?v ?m s1] => destruct (hc_old cid cn v m s1) as [[s2 o_will] resume] end.
  destruct (hc_wd cn (b_cfg s)) as [wdelay expiry] eqn:Ewd.
  match type of Hc with context [hc_wills o_will ?X] => set (s4 := X) in * end.
  assert (Hs4 : aget cid (b_sessions s4) = Some (hc_session cn wdelay expiry (b_now (hc_fresh cid (cn_ver cn =? 5)
                   (if cn_ver cn =? 5 then opt_or (p_maxpkt (cn_props cn)) U32MAX else U32MAX) (b_cfg s) resume s2)))).
  { unfold s4. rewrite b_sessions_set_tables. apply aget_aset_same. }
  assert (Hfold : forall l sx ox, b_sessions (fst (fold_left (fun acc cw => let '(s0, o0) := acc in
                     let '(s', o') := send_will (fst cw) (snd cw) s0 in (s', o0 ++ o')) l (sx, ox))) = b_sessions sx).
  { induction l as [|cw r IH]; intros sx ox; [reflexivity|]. cbn [fold_left].
    pose proof (send_will_frame (fst cw) (snd cw) sx) as [F _]. destruct (send_will (fst cw) (snd cw) sx) as [sy oy].
    cbn [fst] in F. rewrite IH. apply (wf_sessions _ _ F). }
  pose proof (Hfold o_will s4 []) as Hf. fold (hc_wills o_will s4) in Hf.
  destruct (hc_wills o_will s4) as [s5 o_w]. cbn [fst] in Hf. injection Hc as <- _.
  eexists. rewrite Hf. split; [exact Hs4|]. cbn [hc_session se_will se_will_delay]. split; [reflexivity|].
  unfold hc_wd in Ewd. split.
  - intros Hv. rewrite Hv in Ewd. cbn in Ewd. injection Ewd as <- _. reflexivity.
  - intros Hv. apply N.eqb_neq in Hv. rewrite Hv in Ewd. cbn [negb andb] in Ewd.
    destruct (negb (cn_clean cn)); injection Ewd as <- _; reflexivity.
Qed.

(* the fields of the registered will are those of the CONNECT packet *)
Theorem will_msg_fields w :
  m_topic (will_msg w) = w_topic w /\ m_payload (will_msg w) = w_payload w /\ m_qos (will_msg w) = w_qos w /\
  m_retained (will_msg w) = w_retain w /\
  m_ctype (will_msg w) = opt_or (p_ctype (w_props w)) [] /\ m_corr (will_msg w) = opt_or (p_corr (w_props w)) [] /\
  m_expiry (will_msg w) = opt_or (p_msgexpiry (w_props w)) 0 /\ m_pfmt (will_msg w) = opt_or (p_pfmt (w_props w)) 0 /\
  m_resp (will_msg w) = opt_or (p_resp (w_props w)) [] /\ m_uprops (will_msg w) = p_users (w_props w) /\
  m_dup (will_msg w) = false /\ m_subids (will_msg w) = [].
Proof. repeat split. Qed.

(* Target 5.  send_will delivers - to the subscribers matching at that moment - the registered will, or the
   hook's rewrite of its topic / payload / QoS / RETAIN flag; a retained will updates the retained store by retain_update, the
   function the publish handler applies for a retained PUBLISH (pub_fwd, Proofs/BrokerQos2P.v) *)
Theorem will_message_fields cid m s :
  match will_effective cid m s with
  | Some m' =>
      send_will cid m s = (let '(s', o, _) := deliver cid m' (retain_update m' s) in (s', o)) /\
      b_ret (fst (send_will cid m s)) = b_ret (retain_update m' s) /\
      (m' = m \/ exists t p q, m' = with_topic_payload_qos t p q m) /\
      m_retained m' = (match will_action cid s with MRewrite _ _ q => rw_retain q (m_retained m) | _ => m_retained m end) /\
      m_ctype m' = m_ctype m /\ m_corr m' = m_corr m /\ m_expiry m' = m_expiry m /\
      m_pfmt m' = m_pfmt m /\ m_resp m' = m_resp m /\ m_uprops m' = m_uprops m
  | None => send_will cid m s = (s, [])
  end.
Proof.
  rewrite send_will_eq. unfold will_effective.
  destruct (will_action cid s) as [|cd| |t p q]; try reflexivity.
  - split; [reflexivity|]. split; [|split; [now left|repeat split]].
    pose proof (deliver_frame cid m (retain_update m s)) as [F _].
    destruct (deliver cid m (retain_update m s)) as [[s' o] mt]. cbn [fst] in *. apply (df_ret _ _ F).
  - set (m' := with_topic_payload_qos t p q m). split; [reflexivity|]. split; [|split; [right; exists t, p, q; reflexivity|repeat split]].
    pose proof (deliver_frame cid m' (retain_update m' s)) as [F _].
    destruct (deliver cid m' (retain_update m' s)) as [[s' o] mt]. cbn [fst] in *. apply (df_ret _ _ F).
Qed.

(* without an OnWillPublish hook the will is delivered as registered *)
Corollary will_delivered_as_registered cid m s :
  h_will_on (b_hooks s) = false ->
  send_will cid m s = (let '(s', o, _) := deliver cid m (retain_update m s) in (s', o)).
Proof. intros H. unfold send_will, will_action. rewrite H. reflexivity. Qed.

Lemma retain_update_ret m s :
  b_ret (retain_update m s) = if m_retained m then rdb_step (b_ret s) (retain_op m) else b_ret s.
Proof. unfold retain_update. destruct (m_retained m); reflexivity. Qed.

(* ================================================================== *)
(* 6. the ghost-state theorem: every will is sent at most once          *)
(* ================================================================== *)

(* ---- 6.1 where a will lives ---- *)
Definition attachedb (k : conn) : bool :=
  match k_phase k with PhConnected | PhZombie => true | _ => false end.

(* the client id a socket is attached to (its connection has not been unregistered yet) *)
Definition att (s : st) (c : N) : option str :=
  match nget c (b_conns s) with
  | Some k => if attachedb k then Some (k_cid k) else None
  | None => None
  end.

Definition swill (s : st) (cid : str) : option (option msg) := option_map se_will (aget cid (b_sessions s)).

(* w is ARMED on socket c: c is attached to a session whose will is w *)
Definition armed (w : msg) (s : st) (c : N) : Prop := exists cid, att s c = Some cid /\ swill s cid = Some (Some w).
(* w is PENDING for cid: it waits in b_wills for its delay *)
Definition pend (w : msg) (s : st) (cid : str) : Prop := exists t, aget cid (b_wills s) = Some (w, t).

Definition NoH (w : msg) (s : st) : Prop := (forall c, ~ armed w s c) /\ (forall cid, ~ pend w s cid).
Definition AMO (w : msg) (s : st) : Prop :=
  (forall c1 c2, armed w s c1 -> armed w s c2 -> c1 = c2) /\
  (forall a b, pend w s a -> pend w s b -> a = b) /\
  (forall c cid, armed w s c -> pend w s cid -> False).

(* "n + number of places where w lives <= 1" *)
Definition le1 (w : msg) (s : st) (n : nat) : Prop := (n = 0%nat /\ AMO w s) \/ (n = 1%nat /\ NoH w s).

Lemma NoH_AMO w s : NoH w s -> AMO w s.
Proof.
  intros [A B]. split; [|split].
  - intros c1 c2 H. now apply A in H.
  - intros a b H. now apply B in H.
  - intros c cid H. now apply A in H.
Qed.

Lemma le1_bound w s n : le1 w s n -> (n <= 1)%nat.
Proof. intros [[-> _]|[-> _]]; lia. Qed.

Lemma le1_NoH w s : NoH w s -> le1 w s 1. Proof. intros H. right. now split. Qed.
Lemma le1_1 w s : le1 w s 1 -> NoH w s. Proof. intros [[E _]|[_ H]]; [discriminate|exact H]. Qed.
Lemma le1_S w s n : le1 w s (S n) -> n = 0%nat /\ NoH w s.
Proof. intros [[E _]|[E H]]; [discriminate|]. split; [lia|exact H]. Qed.

(* the invariants that make "at most once" true *)
Record winv (s : st) : Prop := {
  wi_online : forall c cid, att s c = Some cid -> aget cid (b_online s) = Some c;
  wi_offline : forall c cid, att s c = Some cid -> aget cid (b_offline s) = None;
  wi_nd_off : NoDup (map fst (b_offline s));
  wi_nd_wills : NoDup (map fst (b_wills s));
  wi_nd_sess : NoDup (map fst (b_sessions s)) }.

(* ---- 6.2 steps that move no will ---- *)
Definition sess_wills (s : st) := map (fun e => (fst e, se_will (snd e))) (b_sessions s).

Definition gframe (s s' : st) : Prop :=
  (forall c, att s' c = att s c) /\ b_online s' = b_online s /\ b_offline s' = b_offline s /\
  b_wills s' = b_wills s /\ sess_wills s' = sess_wills s.

Lemma gframe_refl s : gframe s s. Proof. repeat split. Qed.
Lemma gframe_trans s1 s2 s3 : gframe s1 s2 -> gframe s2 s3 -> gframe s1 s3.
Proof.
  intros (A1 & B1 & C1 & D1 & E1) (A2 & B2 & C2 & D2 & E2).
  split; [intros c; now rewrite A2, A1|]. repeat split; congruence.
Qed.

Lemma aget_map_will (l : list (str * session)) cid :
  aget cid (map (fun e => (fst e, se_will (snd e))) l) = option_map se_will (aget cid l).
Proof.
  induction l as [|[k0 v0] r IH]; cbn [map aget fst snd]; [reflexivity|].
  destruct (str_eqb cid k0); [reflexivity|exact IH].
Qed.

Lemma gframe_swill s s' : gframe s s' -> forall cid, swill s' cid = swill s cid.
Proof.
  intros (_ & _ & _ & _ & E) cid. unfold swill. rewrite <- !aget_map_will. fold (sess_wills s') (sess_wills s). now rewrite E.
Qed.

Lemma gframe_sess_keys s s' : gframe s s' -> map fst (b_sessions s') = map fst (b_sessions s).
Proof.
  intros (_ & _ & _ & _ & E). unfold sess_wills in E.
  assert (H : forall l : list (str * session), map fst l = map fst (map (fun e => (fst e, se_will (snd e))) l)).
  { intros l. rewrite map_map. reflexivity. }
  rewrite (H (b_sessions s')), (H (b_sessions s)). now rewrite E.
Qed.

Lemma gframe_winv s s' : gframe s s' -> winv s -> winv s'.
Proof.
  intros G [I1 I2 I3 I4 I5]. pose proof G as (A & B & C & D & E).
  constructor.
  - intros c cid H. rewrite A in H. rewrite B. now apply I1.
  - intros c cid H. rewrite A in H. rewrite C. now eapply I2; eauto.
  - now rewrite C.
  - now rewrite D.
  - now rewrite (gframe_sess_keys _ _ G).
Qed.

Lemma gframe_armed w s s' c : gframe s s' -> (armed w s' c <-> armed w s c).
Proof.
  intros G. pose proof G as (A & _). unfold armed. split; intros (cid & H1 & H2); exists cid.
  - rewrite A in H1. rewrite (gframe_swill _ _ G) in H2. now split.
  - rewrite A. rewrite (gframe_swill _ _ G). now split.
Qed.

Lemma gframe_pend w s s' cid : gframe s s' -> (pend w s' cid <-> pend w s cid).
Proof. intros (_ & _ & _ & D & _). unfold pend. now rewrite D. Qed.

Lemma gframe_le1 w s s' n : gframe s s' -> le1 w s n -> le1 w s' n.
Proof.
  intros G [[-> (A1 & A2 & A3)]|[-> (N1 & N2)]].
  - left. split; [reflexivity|]. split; [|split].
    + intros c1 c2 H1 H2. apply (gframe_armed w _ _ _ G) in H1, H2. now apply A1.
    + intros a b H1 H2. apply (gframe_pend w _ _ _ G) in H1, H2. now apply A2.
    + intros c cid H1 H2. apply (gframe_armed w _ _ _ G) in H1. apply (gframe_pend w _ _ _ G) in H2. eapply A3; eauto.
  - right. split; [reflexivity|]. split.
    + intros c H. apply (gframe_armed w _ _ _ G) in H. now apply N1 in H.
    + intros cid H. apply (gframe_pend w _ _ _ G) in H. now apply N2 in H.
Qed.

Lemma att_cstat s s' : (forall c, cstat s' c = cstat s c) -> forall c, att s' c = att s c.
Proof.
  intros H c. specialize (H c). unfold cstat, att in *.
  destruct (nget c (b_conns s')) as [k'|], (nget c (b_conns s)) as [k|]; cbn [option_map] in H; try discriminate; [|reflexivity].
  assert (H' : kstat k' = kstat k) by congruence. unfold attachedb. rewrite (ks_phase _ _ H'), (ks_cid _ _ H'). reflexivity.
Qed.

Lemma wframe_gframe s s' : wframe s s' -> gframe s s'.
Proof.
  intros F. split; [apply att_cstat; intros c; apply (wf_cstat _ _ F)|].
  unfold sess_wills. rewrite (wf_online _ _ F), (wf_offline _ _ F), (wf_wills _ _ F), (wf_sessions _ _ F). repeat split.
Qed.

Lemma dframe_gframe s s' : dframe s s' -> gframe s s'.
Proof. intros F. apply wframe_gframe. now apply dframe_wframe. Qed.

(* a setter that touches none of the will tables and no connection *)
Lemma gframe_same s s' :
  b_conns s' = b_conns s -> b_online s' = b_online s -> b_offline s' = b_offline s -> b_wills s' = b_wills s ->
  b_sessions s' = b_sessions s -> gframe s s'.
Proof. intros A B C D E. split; [intros c; unfold att; now rewrite A|]. unfold sess_wills. rewrite B, C, D, E. repeat split. Qed.

Lemma att_upd_conn c' c k s :
  att (upd_conn c k s) c' = if c' =? c then (if attachedb k then Some (k_cid k) else None) else att s c'.
Proof. unfold att. rewrite b_conns_upd_conn, nget_nset. destruct (c' =? c); reflexivity. Qed.

(* updating a connection record without changing whether - and to whom - it is attached *)
Lemma gframe_upd_conn c k s :
  att s c = (if attachedb k then Some (k_cid k) else None) -> gframe s (upd_conn c k s).
Proof.
  intros H. split; [|repeat split].
  intros c'. rewrite att_upd_conn. destruct (c' =? c) eqn:E; [|reflexivity]. apply N.eqb_eq in E. subst c'. now rewrite H.
Qed.

Lemma gframe_upd_self c k k' s :
  nget c (b_conns s) = Some k -> attachedb k' = attachedb k -> k_cid k' = k_cid k -> gframe s (upd_conn c k' s).
Proof. intros Hk Ha Hc. apply gframe_upd_conn. unfold att. rewrite Hk, Ha, Hc. reflexivity. Qed.

Lemma gframe_quota_back c s : gframe s (quota_back c s).
Proof.
  unfold quota_back. destruct (nget c (b_conns s)) as [k1|] eqn:E; [|apply gframe_refl].
  destruct (k_quota k1 <? k_recv_max k1); [|apply gframe_refl]. eapply gframe_upd_self; [exact E| |]; reflexivity.
Qed.

(* ---- 6.3 counting, and the abstract transfer lemmas ---- *)
Definition msg_dec (a b : msg) : {a = b} + {a <> b}.
Proof.
  decide equality; try apply N.eq_dec; try apply bool_dec;
    try (apply list_eq_dec; apply N.eq_dec).
  apply list_eq_dec. intros [x1 x2] [y1 y2]. decide equality; apply list_eq_dec; apply N.eq_dec.
Defined.

Definition wlog := list (str * msg).

(* how often send_will was applied to the will w *)
Definition cnt (w : msg) (l : wlog) : nat := length (filter (fun e => if msg_dec (snd e) w then true else false) l).

Lemma cnt_app w a b : cnt w (a ++ b) = (cnt w a + cnt w b)%nat.
Proof. unfold cnt. now rewrite filter_app, app_length. Qed.
Lemma cnt_nil w : cnt w [] = 0%nat. Proof. reflexivity. Qed.
Lemma cnt_one_same w cid : cnt w [(cid, w)] = 1%nat.
Proof. unfold cnt. cbn [filter snd]. destruct (msg_dec w w); [reflexivity|congruence]. Qed.
Lemma cnt_one_other w w' cid : w' <> w -> cnt w [(cid, w')] = 0%nat.
Proof. intros H. unfold cnt. cbn [filter snd]. destruct (msg_dec w' w); [congruence|reflexivity]. Qed.

(* the places where w lives can only disappear *)
Lemma le1_mono w s s' n :
  (forall c, armed w s' c -> armed w s c) -> (forall x, pend w s' x -> pend w s x) -> le1 w s n -> le1 w s' n.
Proof.
  intros Ha Hp [[-> (A1 & A2 & A3)]|[-> (N1 & N2)]].
  - left. split; [reflexivity|]. split; [|split].
    + intros c1 c2 H1 H2. apply A1; auto.
    + intros a b H1 H2. apply A2; auto.
    + intros c cid H1 H2. eapply A3; eauto.
  - right. split; [reflexivity|]. split.
    + intros c H. apply Ha in H. now apply N1 in H.
    + intros x H. apply Hp in H. now apply N2 in H.
Qed.

Lemma le1_add0 w s n : le1 w s n -> le1 w s (n + 0). Proof. now rewrite Nat.add_0_r. Qed.

(* the socket c, attached to cid, is unregistered: it is closed; the session is stored as detached or removed;
   the session's will is dropped (pw = sent = None), armed as pending (pw) or sent at once (sent) *)
Lemma close_transfer s s' c cid (pw : option (msg * N)) (sent : option msg) :
  winv s -> att s c = Some cid ->
  (forall c2, att s' c2 = if c2 =? c then None else att s c2) ->
  b_online s' = adel cid (b_online s) ->
  (b_offline s' = adel cid (b_offline s) \/ exists d, b_offline s' = aset cid d (b_offline s)) ->
  b_wills s' = match pw with Some e => aset cid e (b_wills s) | None => b_wills s end ->
  (forall cid2, cid2 <> cid -> swill s' cid2 = swill s cid2) ->
  NoDup (map fst (b_sessions s')) ->
  (forall w' t, pw = Some (w', t) -> swill s cid = Some (Some w')) ->
  (forall w', sent = Some w' -> swill s cid = Some (Some w')) ->
  (pw = None \/ sent = None) ->
  winv s' /\ forall w n, le1 w s n -> le1 w s' (n + cnt w (match sent with Some w' => [(cid, w')] | None => [] end)).
Proof.
  intros [I1 I2 I3 I4 I5] Hc Hatt Hon Hoff Hw Hsw Hnd Hpw Hsent Hex.
  (* no other socket is attached to cid *)
  assert (Huniq : forall c2, att s c2 = Some cid -> c2 = c).
  { intros c2 H2. pose proof (I1 _ _ H2) as E2. pose proof (I1 _ _ Hc) as E1. congruence. }
  assert (Hatt' : forall c2 cid2, att s' c2 = Some cid2 -> c2 <> c /\ att s c2 = Some cid2 /\ cid2 <> cid).
  { intros c2 cid2 H2. rewrite Hatt in H2. destruct (c2 =? c) eqn:E; [discriminate|]. apply N.eqb_neq in E.
    split; [exact E|]. split; [exact H2|]. intros ->. apply E. now apply Huniq. }
  split.
  - constructor.
    + intros c2 cid2 H2. apply Hatt' in H2 as (_ & H2 & Hne). rewrite Hon, aget_adel_other by exact Hne. now apply I1.
    + intros c2 cid2 H2. apply Hatt' in H2 as (_ & H2 & Hne).
      destruct Hoff as [->|[d ->]]; [rewrite aget_adel_other by exact Hne|rewrite aget_aset_other by exact Hne]; eapply I2; eauto.
    + destruct Hoff as [->|[d ->]]; [now apply NoDup_adel|now apply NoDup_aset].
    + rewrite Hw. destruct pw; [now apply NoDup_aset|exact I4].
    + exact Hnd.
  - intros w n Hle.
    (* armed places: only those that were armed, and never c *)
    assert (Harm : forall c2, armed w s' c2 -> armed w s c2 /\ c2 <> c).
    { intros c2 (cid2 & H2 & H3). apply Hatt' in H2 as (Hne & H2 & Hnc). split; [|exact Hne].
      exists cid2. split; [exact H2|]. now rewrite <- Hsw. }
    (* pending places *)
    assert (Hpend : forall x, pend w s' x -> (x <> cid /\ pend w s x) \/ (x = cid /\ match pw with Some (w', _) => w' = w | None => pend w s x end)).
    { intros x [t Ht]. rewrite Hw in Ht. destruct pw as [[w' t']|].
      - rewrite aget_aset in Ht. destruct (str_eqb_spec x cid) as [->|Hne].
        + right. split; [reflexivity|]. congruence.
        + left. split; [exact Hne|]. now exists t.
      - destruct (str_eqb_spec x cid) as [->|Hne]; [right|left]; split; try reflexivity; try exact Hne; now exists t. }
    assert (Hcarm : forall w', swill s cid = Some (Some w') -> armed w' s c) by (intros w' H; exists cid; now split).
    destruct sent as [ws|].
    + (* sent at once *)
      assert (pw = None) by (destruct Hex as [H|H]; [exact H|discriminate]). subst pw.
      destruct (msg_dec ws w) as [->|Hne].
      * rewrite cnt_one_same. pose proof (Hcarm w (Hsent w eq_refl)) as Hca.
        destruct Hle as [[-> (A1 & A2 & A3)]|[-> (N1 & _)]]; [|now apply N1 in Hca].
        right. split; [reflexivity|]. split.
        -- intros c2 H2. apply Harm in H2 as [H2 Hne]. apply Hne. now apply A1.
        -- intros x H2. apply Hpend in H2 as [[_ H2]|[_ H2]]; eapply A3; eauto.
      * rewrite cnt_one_other by exact Hne. apply le1_add0. eapply le1_mono; [| |exact Hle].
        -- intros c2 H2. now apply Harm in H2.
        -- intros x H2. apply Hpend in H2 as [[_ H2]|[_ H2]]; exact H2.
    + rewrite cnt_nil. apply le1_add0.
      destruct pw as [[w' t']|].
      * destruct (msg_dec w' w) as [->|Hne].
        -- (* the will moves from "armed on c" to "pending for cid" *)
           pose proof (Hcarm w (Hpw w t' eq_refl)) as Hca.
           destruct Hle as [[-> (A1 & A2 & A3)]|[-> (N1 & _)]]; [|now apply N1 in Hca].
           left. split; [reflexivity|]. split; [|split].
           ++ intros c1 c2 H1 H2. apply Harm in H1 as [H1 Hn1]. exfalso. apply Hn1. now apply A1.
           ++ intros a b Ha Hb. apply Hpend in Ha as [[_ Ha]|[-> _]]; [exfalso; eapply A3; eauto|].
              apply Hpend in Hb as [[_ Hb]|[-> _]]; [exfalso; eapply A3; eauto|reflexivity].
           ++ intros c2 x H2 _. apply Harm in H2 as [H2 Hn2]. apply Hn2. now apply A1.
        -- eapply le1_mono; [| |exact Hle].
           ++ intros c2 H2. now apply Harm in H2.
           ++ intros x H2. apply Hpend in H2 as [[_ H2]|[_ H2]]; [exact H2|congruence].
      * eapply le1_mono; [| |exact Hle].
        -- intros c2 H2. now apply Harm in H2.
        -- intros x H2. apply Hpend in H2 as [[_ H2]|[_ H2]]; exact H2.
Qed.

(* a pending entry is taken out of b_wills (and, when [sent], handed to send_will) *)
Lemma unpend_transfer s s' cid (sent : option (msg * N)) :
  winv s ->
  (forall c, att s' c = att s c) -> b_online s' = b_online s -> b_offline s' = b_offline s -> sess_wills s' = sess_wills s ->
  b_wills s' = adel cid (b_wills s) ->
  (forall w' t, sent = Some (w', t) -> aget cid (b_wills s) = Some (w', t)) ->
  winv s' /\ forall w n, le1 w s n -> le1 w s' (n + cnt w (match sent with Some (w', _) => [(cid, w')] | None => [] end)).
Proof.
  intros I Hatt Hon Hoff Hse Hw Hs. pose proof I as [I1 I2 I3 I4 I5].
  assert (Hsw : forall x, swill s' x = swill s x).
  { intros x. unfold swill. rewrite <- !aget_map_will. fold (sess_wills s') (sess_wills s). now rewrite Hse. }
  assert (Hkeys : map fst (b_sessions s') = map fst (b_sessions s)).
  { assert (H : forall l : list (str * session), map fst l = map fst (map (fun e => (fst e, se_will (snd e))) l))
      by (intros l; rewrite map_map; reflexivity).
    rewrite (H (b_sessions s')), (H (b_sessions s)). fold (sess_wills s') (sess_wills s). now rewrite Hse. }
  split.
  - constructor.
    + intros c x H. rewrite Hatt in H. rewrite Hon. now apply I1.
    + intros c x H. rewrite Hatt in H. rewrite Hoff. eapply I2; eauto.
    + now rewrite Hoff.
    + rewrite Hw. now apply NoDup_adel.
    + now rewrite Hkeys.
  - intros w n Hle.
    assert (Harm : forall c, armed w s' c -> armed w s c).
    { intros c (x & H1 & H2). exists x. rewrite Hatt in H1. rewrite Hsw in H2. now split. }
    assert (Hpend : forall x, pend w s' x -> x <> cid /\ pend w s x).
    { intros x [tx Hx]. rewrite Hw, aget_adel in Hx by exact I4.
      destruct (str_eqb_spec x cid) as [->|Hne]; [discriminate|]. split; [exact Hne|now exists tx]. }
    destruct sent as [[w' t]|].
    + specialize (Hs w' t eq_refl). destruct (msg_dec w' w) as [->|Hne].
      * rewrite cnt_one_same. assert (Hp : pend w s cid) by now exists t.
        destruct Hle as [[-> (A1 & A2 & A3)]|[-> (_ & N2)]]; [|now apply N2 in Hp].
        right. split; [reflexivity|]. split.
        -- intros c H. apply Harm in H. eapply A3; eauto.
        -- intros x H. apply Hpend in H as [Hne H]. apply Hne. now apply A2.
      * rewrite cnt_one_other by exact Hne. apply le1_add0. eapply le1_mono; [exact Harm| |exact Hle].
        intros x H. now apply Hpend in H.
    + rewrite cnt_nil. apply le1_add0. eapply le1_mono; [exact Harm| |exact Hle].
      intros x H. now apply Hpend in H.
Qed.

(* the session of cid - to which no socket is attached - is removed *)
Lemma remove_transfer s s' cid :
  winv s -> (forall c, att s c <> Some cid) ->
  (forall c, att s' c = att s c) ->
  b_online s' = adel cid (b_online s) -> b_offline s' = adel cid (b_offline s) -> b_wills s' = b_wills s ->
  b_sessions s' = adel cid (b_sessions s) ->
  winv s' /\ forall w n, le1 w s n -> le1 w s' n.
Proof.
  intros [I1 I2 I3 I4 I5] Hno Hatt Hon Hoff Hw Hse.
  assert (Hne : forall c x, att s c = Some x -> x <> cid) by (intros c x H ->; now apply (Hno c)).
  split.
  - constructor.
    + intros c x H. rewrite Hatt in H. rewrite Hon, aget_adel_other by (eapply Hne; eauto). now apply I1.
    + intros c x H. rewrite Hatt in H. rewrite Hoff, aget_adel_other by (eapply Hne; eauto). eapply I2; eauto.
    + rewrite Hoff. now apply NoDup_adel.
    + now rewrite Hw.
    + rewrite Hse. now apply NoDup_adel.
  - intros w n. apply le1_mono.
    + intros c (x & H1 & H2). rewrite Hatt in H1. exists x. split; [exact H1|].
      unfold swill in *. rewrite Hse, aget_adel_other in H2 by (eapply Hne; eauto). exact H2.
    + intros x [t H]. exists t. now rewrite <- Hw.
Qed.

(* CONNECT installs the session of cid on socket c (not attached before; no socket is attached to cid) *)
Lemma install_transfer s s' c cid (wn : option msg) :
  winv s -> att s c = None -> (forall c2, att s c2 <> Some cid) ->
  (forall c2, att s' c2 = if c2 =? c then Some cid else att s c2) ->
  b_online s' = aset cid c (b_online s) -> b_offline s' = adel cid (b_offline s) -> b_wills s' = b_wills s ->
  (forall x, swill s' x = if str_eqb x cid then Some wn else swill s x) ->
  NoDup (map fst (b_sessions s')) ->
  winv s' /\ forall w n, le1 w s (n + (if match wn with Some w' => if msg_dec w' w then true else false | None => false end then 1 else 0)) ->
                         le1 w s' n.
Proof.
  intros [I1 I2 I3 I4 I5] Hc Hno Hatt Hon Hoff Hw Hsw Hnd.
  assert (Hatt' : forall c2 x, att s' c2 = Some x -> (c2 = c /\ x = cid) \/ (c2 <> c /\ att s c2 = Some x /\ x <> cid)).
  { intros c2 x H. rewrite Hatt in H. destruct (c2 =? c) eqn:E.
    - apply N.eqb_eq in E. left. split; [exact E|congruence].
    - apply N.eqb_neq in E. right. split; [exact E|]. split; [exact H|]. intros ->. now apply (Hno c2). }
  split.
  - constructor.
    + intros c2 x H. apply Hatt' in H as [[-> ->]|(_ & H & Hne)].
      * rewrite Hon. apply aget_aset_same.
      * rewrite Hon, aget_aset_other by exact Hne. now apply I1.
    + intros c2 x H. apply Hatt' in H as [[-> ->]|(_ & H & Hne)].
      * rewrite Hoff. now apply aget_adel_same.
      * rewrite Hoff, aget_adel_other by exact Hne. eapply I2; eauto.
    + rewrite Hoff. now apply NoDup_adel.
    + now rewrite Hw.
    + exact Hnd.
  - intros w n Hle.
    assert (Harm : forall c2, armed w s' c2 -> (c2 = c /\ wn = Some w) \/ armed w s c2).
    { intros c2 (x & H1 & H2). apply Hatt' in H1 as [[-> ->]|(_ & H1 & Hne)].
      - left. split; [reflexivity|]. rewrite Hsw, str_eqb_refl in H2. congruence.
      - right. exists x. split; [exact H1|]. rewrite Hsw in H2. apply str_eqb_neq in Hne. now rewrite Hne in H2. }
    assert (Hpend : forall x, pend w s' x -> pend w s x) by (intros x [t H]; exists t; now rewrite <- Hw).
    destruct wn as [w'|]; [destruct (msg_dec w' w) as [->|Hne]|].
    + (* the CONNECT registers w: it lived nowhere before, now it is armed on c only *)
      rewrite Nat.add_1_r in Hle. apply le1_S in Hle as [-> [N1 N2]]. left. split; [reflexivity|]. split; [|split].
      * intros c1 c2 H1 H2. apply Harm in H1 as [[-> _]|H1]; [|now apply N1 in H1].
        apply Harm in H2 as [[-> _]|H2]; [reflexivity|now apply N1 in H2].
      * intros a b Ha _. apply Hpend in Ha. now apply N2 in Ha.
      * intros c2 x _ Hx. apply Hpend in Hx. now apply N2 in Hx.
    + rewrite Nat.add_0_r in Hle. eapply le1_mono; [|exact Hpend|exact Hle].
      intros c2 H2. apply Harm in H2 as [[_ E]|H2]; [congruence|exact H2].
    + rewrite Nat.add_0_r in Hle. eapply le1_mono; [|exact Hpend|exact Hle].
      intros c2 H2. apply Harm in H2 as [[_ E]|H2]; [discriminate|exact H2].
Qed.

(* ---- 6.4 the instrumented functions: the model's text with a log of the send_will applications ---- *)

(* one step of the broker as a relation on the invariants and the places of each will *)
Definition wstep (s s' : st) (l : wlog) : Prop :=
  winv s -> winv s' /\ forall w n, le1 w s n -> le1 w s' (n + cnt w l).

Lemma wstep_refl s : wstep s s [].
Proof. intros I. split; [exact I|]. intros w n H. now apply le1_add0. Qed.

Lemma wstep_gframe s s' : gframe s s' -> wstep s s' [].
Proof. intros G I. split; [eapply gframe_winv; eauto|]. intros w n H. apply le1_add0. eapply gframe_le1; eauto. Qed.

Lemma wstep_trans s1 s2 s3 l1 l2 : wstep s1 s2 l1 -> wstep s2 s3 l2 -> wstep s1 s3 (l1 ++ l2).
Proof.
  intros H1 H2 I. destruct (H1 I) as [I2 L1]. destruct (H2 I2) as [I3 L2]. split; [exact I3|].
  intros w n H. rewrite cnt_app, Nat.add_assoc. apply L2. now apply L1.
Qed.

Definition release_will_w (cid : str) (s : st) : (st * list out) * wlog :=
  match aget cid (b_wills s) with
  | Some (w, _) => (send_will cid w (del_will cid s), [(cid, w)])
  | None => ((s, []), [])
  end.

Lemma release_will_w_fst cid s : fst (release_will_w cid s) = release_will cid s.
Proof. unfold release_will_w, release_will. destruct (aget cid (b_wills s)) as [[w t]|]; reflexivity. Qed.

Definition unregister_w (c : N) (k : conn) (s : st) : (st * list out) * wlog :=
  let cid := k_cid k in
  match aget cid (b_sessions s) with
  | None => ((remove_session cid s, []), [])
  | Some se =>
      let '((s1, o1), l) :=
        match se_will se with
        | Some w =>
            if k_clean_will k then ((s, []), [])
            else if negb (ur_delay k se s =? 0) && ur_store k se s
                 then ((ur_arm cid w (b_rt s + ur_delay k se s * 1000) s, []), [])
                 else (send_will cid w s, [(cid, w)])
        | None => ((s, []), [])
        end in
      (ur_finish cid se (ur_expiry k se s) (ur_store k se s) s1 o1, l)
  end.

Lemma unregister_w_fst c k s : fst (unregister_w c k s) = unregister c k s.
Proof.
  rewrite unregister_stages. unfold unregister_w. cbv zeta.
  destruct (aget (k_cid k) (b_sessions s)) as [se|]; [|reflexivity].
  destruct (se_will se) as [w|]; [|reflexivity].
  destruct (k_clean_will k); [reflexivity|].
  destruct (negb (ur_delay k se s =? 0) && ur_store k se s); [reflexivity|].
  destruct (send_will (k_cid k) w s). reflexivity.
Qed.

Definition conn_gone_w (c : N) (s : st) : (st * list out) * wlog :=
  match nget c (b_conns s) with
  | None => ((s, []), [])
  | Some k =>
      match k_phase k with
      | PhClosed => ((s, []), [])
      | PhFresh | PhDead => ((upd_conn c (set_phase PhClosed k) s, [OClose c]), [])
      | PhConnected | PhZombie =>
          let k' := set_phase PhClosed k in
          let s0 := match aget (k_cid k) (b_queues s) with
                    | Some q => set_queues (aset (k_cid k) (q_close q) (b_queues s)) s
                    | None => s
                    end in
          let '((s', o'), l) := unregister_w c k' (upd_conn c k' s0) in
          ((s', [OClose c] ++ o'), l)
      end
  end.

Lemma conn_gone_w_fst c s : fst (conn_gone_w c s) = conn_gone c s.
Proof.
  unfold conn_gone_w, conn_gone. destruct (nget c (b_conns s)) as [k|]; [|reflexivity].
  destruct (k_phase k); try reflexivity; cbv zeta;
    match goal with |- context [unregister_w c ?a ?b] => rewrite <- (unregister_w_fst c a b); destruct (unregister_w c a b) as [[s' o'] l] end;
    reflexivity.
Qed.

Definition fail_conn_w (c : N) (code : option N) (by_reader : bool) (s : st) : (st * list out) * wlog :=
  match nget c (b_conns s) with
  | None => ((s, []), [])
  | Some k =>
      match k_phase k with
      | PhConnected =>
          let disc := match code with
                      | Some cd => if k_v k =? 5 then [OSend c (KDisconnect cd [])] else []
                      | None => []
                      end in
          if by_reader || match disc with [] => false | _ => true end
          then let '((s', o), l) := conn_gone_w c s in ((s', disc ++ o), l)
          else ((upd_conn c (set_phase PhZombie k) s, []), [])
      | _ => ((s, []), [])
      end
  end.

Lemma fail_conn_w_fst c code br s : fst (fail_conn_w c code br s) = fail_conn c code br s.
Proof.
  unfold fail_conn_w, fail_conn. destruct (nget c (b_conns s)) as [k|]; [|reflexivity].
  destruct (k_phase k); try reflexivity. cbv zeta.
  match goal with |- context [if ?b then _ else _] => destruct b end; [|reflexivity].
  rewrite <- conn_gone_w_fst. destruct (conn_gone_w c s) as [[s' o] l]. reflexivity.
Qed.

(* ---- 6.5 closing a socket ---- *)
Lemma ur_finish_obs cid se expiry store s1 o1 :
  let s' := fst (ur_finish cid se expiry store s1 o1) in
  (forall c, att s' c = att s1 c) /\ b_online s' = adel cid (b_online s1) /\
  (b_offline s' = adel cid (b_offline s1) \/ exists d, b_offline s' = aset cid d (b_offline s1)) /\
  b_wills s' = b_wills s1 /\
  (forall cid2, cid2 <> cid -> swill s' cid2 = swill s1 cid2) /\
  (NoDup (map fst (b_sessions s1)) -> NoDup (map fst (b_sessions s'))).
Proof.
  unfold ur_finish. destruct store; cbn [fst].
  - split; [intros c; reflexivity|]. split; [reflexivity|]. split; [right; eexists; reflexivity|]. split; [reflexivity|].
    split.
    + intros cid2 Hne. unfold swill. rewrite b_sessions_set_tables, aget_aset_other by exact Hne. reflexivity.
    + rewrite b_sessions_set_tables. apply NoDup_aset.
  - split; [intros c; reflexivity|]. split; [reflexivity|]. split; [left; reflexivity|]. split; [reflexivity|].
    split.
    + intros cid2 Hne. unfold swill, remove_session. rewrite b_sessions_set_subs, b_sessions_set_tables, aget_adel_other by exact Hne. reflexivity.
    + unfold remove_session. rewrite b_sessions_set_subs, b_sessions_set_tables. apply NoDup_adel.
Qed.

Lemma wframe_obs s s' : wframe s s' ->
  (forall c, att s' c = att s c) /\ b_online s' = b_online s /\ b_offline s' = b_offline s /\ b_wills s' = b_wills s /\
  b_sessions s' = b_sessions s.
Proof.
  intros F. split; [apply att_cstat; intros c; apply (wf_cstat _ _ F)|].
  rewrite (wf_online _ _ F), (wf_offline _ _ F), (wf_wills _ _ F), (wf_sessions _ _ F). repeat split.
Qed.

Lemma conn_gone_w_step c s :
  let s' := fst (fst (conn_gone_w c s)) in
  wstep s s' (snd (conn_gone_w c s)) /\ att s' c = None /\ (forall c2 x, att s' c2 = Some x -> att s c2 = Some x).
Proof.
  unfold conn_gone_w.
  destruct (nget c (b_conns s)) as [k|] eqn:Hk.
  2:{ cbn [fst snd]. split; [apply wstep_refl|]. split; [unfold att; now rewrite Hk|auto]. }
  assert (Hattc : att s c = if attachedb k then Some (k_cid k) else None) by (unfold att; now rewrite Hk).
  assert (Hnot : attachedb k = false ->
                 let s' := upd_conn c (set_phase PhClosed k) s in
                 wstep s s' [] /\ att s' c = None /\ (forall c2 x, att s' c2 = Some x -> att s c2 = Some x)).
  { intros Hn. cbv zeta. rewrite Hn in Hattc.
    assert (G : gframe s (upd_conn c (set_phase PhClosed k) s)) by (apply gframe_upd_conn; now rewrite Hattc).
    split; [now apply wstep_gframe|]. destruct G as (A & _). split; [now rewrite A|]. intros c2 x. now rewrite A. }
  assert (Hyes : attachedb k = true ->
     let k' := set_phase PhClosed k in
     let s0 := match aget (k_cid k) (b_queues s) with
               | Some q => set_queues (aset (k_cid k) (q_close q) (b_queues s)) s
               | None => s
               end in
     let r := unregister_w c k' (upd_conn c k' s0) in
     wstep s (fst (fst r)) (snd r) /\ att (fst (fst r)) c = None /\ (forall c2 x, att (fst (fst r)) c2 = Some x -> att s c2 = Some x)).
  { intros Hy. cbv zeta. rewrite Hy in Hattc.
    set (k' := set_phase PhClosed k). set (cid := k_cid k) in *.
    set (s0 := match aget cid (b_queues s) with Some q => _ | None => s end).
    assert (G0 : gframe s s0) by (unfold s0; destruct (aget cid (b_queues s)); [apply gframe_same; reflexivity|apply gframe_refl]).
    set (sx := upd_conn c k' s0).
    assert (Hax : forall c2, att sx c2 = if c2 =? c then None else att s c2).
    { intros c2. unfold sx. rewrite att_upd_conn. destruct (c2 =? c); [reflexivity|]. destruct G0 as (A & _). apply A. }
    destruct G0 as (_ & Gon & Goff & Gw & Gse).
    assert (Hsx : b_online sx = b_online s /\ b_offline sx = b_offline s /\ b_wills sx = b_wills s /\ sess_wills sx = sess_wills s)
      by (repeat split; assumption).
    destruct Hsx as (Xon & Xoff & Xw & Xse).
    assert (Xsw : forall x, swill sx x = swill s x).
    { intros x. unfold swill. rewrite <- !aget_map_will. fold (sess_wills sx) (sess_wills s). now rewrite Xse. }
    assert (Xkeys : map fst (b_sessions sx) = map fst (b_sessions s)).
    { assert (H : forall l : list (str * session), map fst l = map fst (map (fun e => (fst e, se_will (snd e))) l))
        by (intros l; rewrite map_map; reflexivity).
      rewrite (H (b_sessions sx)), (H (b_sessions s)). fold (sess_wills sx) (sess_wills s). now rewrite Xse. }
    (* reduce to close_transfer *)
    assert (Hgoal : forall s' l (pw : option (msg * N)) (sent : option msg),
              (forall c2, att s' c2 = att sx c2) -> b_online s' = adel cid (b_online sx) ->
              (b_offline s' = adel cid (b_offline sx) \/ exists d, b_offline s' = aset cid d (b_offline sx)) ->
              b_wills s' = match pw with Some e => aset cid e (b_wills sx) | None => b_wills sx end ->
              (forall cid2, cid2 <> cid -> swill s' cid2 = swill sx cid2) ->
              (NoDup (map fst (b_sessions sx)) -> NoDup (map fst (b_sessions s'))) ->
              (forall w' t, pw = Some (w', t) -> swill sx cid = Some (Some w')) ->
              (forall w', sent = Some w' -> swill sx cid = Some (Some w')) -> (pw = None \/ sent = None) ->
              l = match sent with Some w' => [(cid, w')] | None => [] end ->
              wstep s s' l /\ att s' c = None /\ (forall c2 x, att s' c2 = Some x -> att s c2 = Some x)).
    { intros s' l pw sent Ha Hon Hoff Hw Hsw Hnd Hpw Hsent Hex ->.
      assert (Ha' : forall c2, att s' c2 = if c2 =? c then None else att s c2) by (intros c2; now rewrite Ha, Hax).
      split; [|split].
      - intros I. eapply (close_transfer s s' c cid pw sent I Hattc Ha').
        + now rewrite Hon, Xon.
        + rewrite Xoff in Hoff. exact Hoff.
        + now rewrite Hw, Xw.
        + intros cid2 Hne. rewrite Hsw by exact Hne. apply Xsw.
        + apply Hnd. rewrite Xkeys. apply I.
        + intros w' t E. rewrite <- Xsw. eapply Hpw; eauto.
        + intros w' E. rewrite <- Xsw. now apply Hsent.
        + exact Hex.
      - rewrite Ha', N.eqb_refl. reflexivity.
      - intros c2 x H. rewrite Ha' in H. destruct (c2 =? c); [discriminate|exact H]. }
    unfold unregister_w. cbv zeta. change (k_cid k') with cid.
    destruct (aget cid (b_sessions sx)) as [se|] eqn:Hse.
    - assert (Hswc : swill sx cid = Some (se_will se)) by (unfold swill; now rewrite Hse).
      (* the three fates of the will *)
      assert (Hfin : forall s1 o1 l (pw : option (msg * N)) (sent : option msg),
                (forall c2, att s1 c2 = att sx c2) -> b_online s1 = b_online sx -> b_offline s1 = b_offline sx ->
                b_sessions s1 = b_sessions sx ->
                b_wills s1 = match pw with Some e => aset cid e (b_wills sx) | None => b_wills sx end ->
                (forall w' t, pw = Some (w', t) -> se_will se = Some w') -> (forall w', sent = Some w' -> se_will se = Some w') ->
                (pw = None \/ sent = None) -> l = match sent with Some w' => [(cid, w')] | None => [] end ->
                let r := (ur_finish cid se (ur_expiry k' se sx) (ur_store k' se sx) s1 o1, l) in
                wstep s (fst (fst r)) (snd r) /\ att (fst (fst r)) c = None /\
                (forall c2 x, att (fst (fst r)) c2 = Some x -> att s c2 = Some x)).
      { intros s1 o1 l pw sent Ha Hon Hoff Hses Hw Hpw Hsent Hex Hl. cbv zeta. cbn [fst snd].
        destruct (ur_finish_obs cid se (ur_expiry k' se sx) (ur_store k' se sx) s1 o1) as (F1 & F2 & F3 & F4 & F5 & F6).
        cbv zeta in F1, F2, F3, F4, F5, F6.
        apply (Hgoal _ l pw sent).
        - intros c2. now rewrite F1, Ha.
        - now rewrite F2, Hon.
        - rewrite Hoff in F3. exact F3.
        - now rewrite F4, Hw.
        - intros cid2 Hne. rewrite F5 by exact Hne. unfold swill. now rewrite Hses.
        - intros Hnd. apply F6. now rewrite Hses.
        - intros w' t E. rewrite Hswc. f_equal. eapply Hpw; eauto.
        - intros w' E. rewrite Hswc. f_equal. now apply Hsent.
        - exact Hex.
        - exact Hl. }
      destruct (se_will se) as [w|] eqn:Hwill.
      + destruct (k_clean_will k').
        * apply (Hfin sx [] [] None None); auto; try discriminate.
        * destruct (negb (ur_delay k' se sx =? 0) && ur_store k' se sx).
          -- apply (Hfin _ [] [] (Some (w, b_rt sx + ur_delay k' se sx * 1000)) None); auto; try discriminate;
               try (intros w' t E; congruence).
          -- pose proof (send_will_frame cid w sx) as [F _]. destruct (send_will cid w sx) as [s1 o1]. cbn [fst] in F.
             destruct (wframe_obs _ _ F) as (O1 & O2 & O3 & O4 & O5).
             apply (Hfin s1 o1 [(cid, w)] None (Some w)); auto; try discriminate; try (intros w' E; congruence).
      + apply (Hfin sx [] [] None None); auto; discriminate.
    - cbn [fst snd]. apply (Hgoal _ [] None None); try discriminate; auto.
      + intros cid2 Hne. unfold swill, remove_session. rewrite b_sessions_set_subs, b_sessions_set_tables, aget_adel_other by exact Hne. reflexivity.
      + intros Hnd. unfold remove_session. rewrite b_sessions_set_subs, b_sessions_set_tables. now apply NoDup_adel. }
  destruct (k_phase k) eqn:Hph.
  - apply Hnot. unfold attachedb. now rewrite Hph.
  - specialize (Hyes ltac:(unfold attachedb; now rewrite Hph)). cbv zeta in Hyes |- *.
    match goal with |- context [unregister_w c ?a ?b] => destruct (unregister_w c a b) as [[s' o'] l] end. exact Hyes.
  - specialize (Hyes ltac:(unfold attachedb; now rewrite Hph)). cbv zeta in Hyes |- *.
    match goal with |- context [unregister_w c ?a ?b] => destruct (unregister_w c a b) as [[s' o'] l] end. exact Hyes.
  - apply Hnot. unfold attachedb. now rewrite Hph.
  - cbn [fst snd]. split; [apply wstep_refl|]. split; [|auto]. rewrite Hattc. unfold attachedb. now rewrite Hph.
Qed.

(* ---- 6.6 the other places where send_will is applied ---- *)
Lemma att_same_conns s s' : b_conns s' = b_conns s -> forall c, att s' c = att s c.
Proof. intros E c. unfold att. now rewrite E. Qed.

Lemma release_will_w_step cid s :
  wstep s (fst (fst (release_will_w cid s))) (snd (release_will_w cid s)) /\
  forall c, att (fst (fst (release_will_w cid s))) c = att s c.
Proof.
  unfold release_will_w. destruct (aget cid (b_wills s)) as [[w t]|] eqn:E.
  - pose proof (send_will_frame cid w (del_will cid s)) as [F _].
    destruct (send_will cid w (del_will cid s)) as [s2 o2]. cbn [fst snd] in *.
    destruct (wframe_obs _ _ F) as (O1 & O2 & O3 & O4 & O5).
    split; [|intros c; now rewrite O1].
    intros I. apply (unpend_transfer s s2 cid (Some (w, t)) I).
    + intros c. now rewrite O1.
    + exact O2.
    + exact O3.
    + unfold sess_wills. now rewrite O5.
    + exact O4.
    + intros w' t' Hs. now injection Hs as <- <-.
  - cbn [fst snd]. split; [apply wstep_refl|reflexivity].
Qed.

Lemma remove_session_step cid s : (forall c, att s c <> Some cid) -> wstep s (remove_session cid s) [].
Proof.
  intros Hno I. destruct (remove_transfer s (remove_session cid s) cid I Hno) as [I' L]; try reflexivity.
  split; [exact I'|]. intros w n H. apply le1_add0. now apply L.
Qed.

Definition fire_step_w (acc : (st * list out) * wlog) (w : str * (msg * N)) : (st * list out) * wlog :=
  let '((s0, o0), l0) := acc in
  let '(cid, (m, at_)) := w in
  if at_ <=? b_rt s0 then
    match aget cid (b_wills s0) with
    | Some _ => let '(s2, o2) := send_will cid m (del_will cid s0) in ((s2, o0 ++ o2), l0 ++ [(cid, m)])
    | None => acc
    end
  else acc.

Definition fire_wills_w (s : st) : (st * list out) * wlog := fold_left fire_step_w (b_wills s) ((s, []), []).

Lemma fold_erase {A B L} (fw : (B * L) -> A -> (B * L)) (f : B -> A -> B) l :
  (forall acc x, fst (fw acc x) = f (fst acc) x) -> forall a, fst (fold_left fw l a) = fold_left f l (fst a).
Proof. intros H. induction l as [|x r IH]; intros a; cbn [fold_left]; [reflexivity|]. now rewrite IH, H. Qed.

Lemma fire_wills_w_fst s : fst (fire_wills_w s) = fire_wills s.
Proof.
  rewrite fire_wills_fold. unfold fire_wills_w. rewrite (fold_erase fire_step_w fire_step); [reflexivity|].
  intros [[s0 o0] l0] [cid [m at_]]. cbn [fst]. rewrite fire_step_due. cbn [fire_step_w].
  destruct (at_ <=? b_rt s0); [|reflexivity].
  destruct (aget cid (b_wills s0)); [|reflexivity].
  destruct (send_will cid m (del_will cid s0)). reflexivity.
Qed.

(* the timer sends the message stored in the table entry; for the ghost theorem the table must be the one the
   entry was read from, which needs the entries to be read from the current table *)
Lemma fire_fold_w_step : forall (l : list (str * (msg * N))) s0 o0 l0,
  NoDup (map fst l) ->
  (forall e, In e l -> aget (fst e) (b_wills s0) = Some (snd e)) ->
  exists l', snd (fold_left fire_step_w l ((s0, o0), l0)) = l0 ++ l' /\
             wstep s0 (fst (fst (fold_left fire_step_w l ((s0, o0), l0)))) l' /\
             forall c, att (fst (fst (fold_left fire_step_w l ((s0, o0), l0)))) c = att s0 c.
Proof.
  induction l as [|[cid [m at_]] r IH]; intros s0 o0 l0 Hnd Hpres.
  - exists []. cbn [fold_left fst snd]. rewrite app_nil_r. split; [reflexivity|]. split; [apply wstep_refl|reflexivity].
  - inversion Hnd as [|x xs Hx Hnd']; subst. cbn [fold_left]. cbn [fire_step_w].
    assert (Hhd : aget cid (b_wills s0) = Some (m, at_)) by (apply (Hpres (cid, (m, at_))); now left).
    destruct (at_ <=? b_rt s0).
    + rewrite Hhd.
      pose proof (send_will_frame cid m (del_will cid s0)) as [F _].
      destruct (send_will cid m (del_will cid s0)) as [s2 o2]. cbn [fst] in F.
      destruct (wframe_obs _ _ F) as (O1 & O2 & O3 & O4 & O5).
      destruct (IH s2 (o0 ++ o2) (l0 ++ [(cid, m)]) Hnd') as (l' & E & W & A).
      { intros e He. rewrite O4. cbn [del_will]. unfold del_will. rewrite b_wills_set_tables, aget_adel_other.
        - apply Hpres. now right.
        - intros Heq. apply Hx. rewrite <- Heq. apply in_map. exact He. }
      exists ([(cid, m)] ++ l'). split; [exact (eq_trans E (eq_sym (app_assoc _ _ _)))|]. split.
      * eapply wstep_trans; [|exact W].
        intros I. apply (unpend_transfer s0 s2 cid (Some (m, at_)) I).
        -- intros c. now rewrite O1.
        -- exact O2.
        -- exact O3.
        -- unfold sess_wills. now rewrite O5.
        -- exact O4.
        -- intros w' t' Hs. now injection Hs as <- <-.
      * intros c. rewrite A. now rewrite O1.
    + apply IH; [exact Hnd'|]. intros e He. apply Hpres. now right.
Qed.

Lemma fire_wills_w_step s :
  wstep s (fst (fst (fire_wills_w s))) (snd (fire_wills_w s)) /\ forall c, att (fst (fst (fire_wills_w s))) c = att s c.
Proof.
  unfold fire_wills_w.
  assert (H : winv s -> exists l', snd (fold_left fire_step_w (b_wills s) ((s, []), [])) = [] ++ l' /\
             wstep s (fst (fst (fold_left fire_step_w (b_wills s) ((s, []), [])))) l' /\
             forall c, att (fst (fst (fold_left fire_step_w (b_wills s) ((s, []), [])))) c = att s c).
  { intros I. apply fire_fold_w_step; [apply I|]. intros [cid e] He. cbn [fst snd]. apply In_aget; [apply I|exact He]. }
  split.
  - intros I. destruct (H I) as (l' & E & W & _). cbn [app] in E. rewrite E. now apply W.
  - (* att does not depend on the invariant: every step is a send_will on a table update *)
    assert (G : forall l a, forall c, att (fst (fst (fold_left fire_step_w l a))) c = att (fst (fst a)) c).
    { induction l as [|[cid [m at_]] r IH]; intros [[s0 o0] l0] c; [reflexivity|]. cbn [fold_left]. rewrite IH.
      cbn [fire_step_w]. destruct (at_ <=? b_rt s0); [|reflexivity].
      destruct (aget cid (b_wills s0)); [|reflexivity].
      pose proof (send_will_frame cid m (del_will cid s0)) as [F _].
      destruct (send_will cid m (del_will cid s0)) as [s2 o2]. cbn [fst] in *.
      destruct (wframe_obs _ _ F) as (O1 & _). now rewrite O1. }
    intros c. now rewrite G.
Qed.

Lemma fail_conn_w_step c code br s :
  let s' := fst (fst (fail_conn_w c code br s)) in
  wstep s s' (snd (fail_conn_w c code br s)) /\ (forall c2 x, att s' c2 = Some x -> att s c2 = Some x).
Proof.
  unfold fail_conn_w. destruct (nget c (b_conns s)) as [k|] eqn:Hk; [|cbn [fst snd]; split; [apply wstep_refl|auto]].
  destruct (k_phase k) eqn:Hph; try (cbn [fst snd]; split; [apply wstep_refl|auto]).
  cbv zeta. match goal with |- context [if ?b then _ else _] => destruct b end.
  - pose proof (conn_gone_w_step c s) as (W & _ & A). cbv zeta in W, A.
    destruct (conn_gone_w c s) as [[s' o] l]. cbn [fst snd] in *. now split.
  - cbn [fst snd].
    assert (G : gframe s (upd_conn c (set_phase PhZombie k) s)).
    { eapply gframe_upd_self; [exact Hk| |reflexivity]. unfold attachedb. rewrite k_phase_set_phase, Hph. reflexivity. }
    split; [now apply wstep_gframe|]. destruct G as (A & _). intros c2 x. now rewrite A.
Qed.

(* ---- 6.7 CONNECT ---- *)
Definition hc_takeover_w (cid : str) (s : st) : (st * list out) * wlog :=
  match aget cid (b_online s) with
  | Some oldc => conn_gone_w oldc s
  | None => ((s, []), [])
  end.

Lemma hc_takeover_w_fst cid s : fst (hc_takeover_w cid s) = hc_takeover cid s.
Proof. unfold hc_takeover_w, hc_takeover. destruct (aget cid (b_online s)); [apply conn_gone_w_fst|reflexivity]. Qed.

(* the send_will applications of handle_connect: those of the take-over of an online duplicate, then the pending
   will of a discarded session (o_will, which hc_wills hands to send_will entry by entry: handle_connect_stages) *)
Definition hc_log (c : N) (cn : connect) (s : st) : wlog :=
  if connect_accepted cn s then
    let v5 := cn_ver cn =? 5 in
    let cid := hc_cid cn s in
    let cmax := if v5 then opt_or (p_maxpkt (cn_props cn)) U32MAX else U32MAX in
    let '((s1, _), l1) := hc_takeover_w cid (hc_auto cn s) in
    let '(_, o_will, _) := hc_old cid cn v5 cmax s1 in
    l1 ++ o_will
  else [].

Definition handle_connect_w (c : N) (cn : connect) (s : st) : (st * list out) * wlog :=
  (handle_connect c cn s, hc_log c cn s).

Definition cn_willmsg (cn : connect) : option msg := match cn_will cn with Some w => Some (will_msg w) | None => None end.
Definition registers (w : msg) (cn : connect) : bool :=
  match cn_willmsg cn with Some w' => if msg_dec w' w then true else false | None => false end.

Lemma hc_wills_gframe l : forall s, gframe s (fst (hc_wills l s)).
Proof.
  unfold hc_wills.
  assert (G : forall l s o, gframe s (fst (fold_left (fun acc cw => let '(s0, o0) := acc in
                     let '(s', o') := send_will (fst cw) (snd cw) s0 in (s', o0 ++ o')) l (s, o)))).
  { clear l. induction l as [|cw r IH]; intros s o; [apply gframe_refl|]. cbn [fold_left].
    pose proof (send_will_frame (fst cw) (snd cw) s) as [F _]. destruct (send_will (fst cw) (snd cw) s) as [s' o'].
    cbn [fst] in F. eapply gframe_trans; [apply wframe_gframe; exact F|apply IH]. }
  intros s. apply G.
Qed.

Lemma hc_old_step cid cn v5 cmax s1 :
  (forall c2, att s1 c2 <> Some cid) ->
  let r := hc_old cid cn v5 cmax s1 in
  wstep s1 (fst (fst r)) (snd (fst r)) /\ (forall c2, att (fst (fst r)) c2 = att s1 c2).
Proof.
  intros Hno. cbv zeta. unfold hc_old.
  destruct (aget cid (b_sessions s1)) as [se|]; [|cbn [fst snd]; split; [apply wstep_refl|reflexivity]].
  destruct (hc_resume0 cid cn s1).
  - destruct (aget cid (b_queues s1)) as [q|]; [|cbn [fst snd]; split; [apply wstep_refl|reflexivity]].
    destruct (aget cid (b_unacks s1)) as [u|]; [|cbn [fst snd]; split; [apply wstep_refl|reflexivity]].
    cbn [fst snd]. split; [|reflexivity].
    intros J. apply (unpend_transfer s1 _ cid None J); try reflexivity. intros w' t Hs. discriminate.
  - cbv zeta. set (s1' := remove_session cid s1).
    pose proof (remove_session_step cid s1 Hno) as Wr. fold s1' in Wr.
    destruct (aget cid (b_wills s1')) as [[w t]|] eqn:Ew; cbn [fst snd].
    + split; [|reflexivity].
      change [(cid, w)] with ([] ++ [(cid, w)]). eapply wstep_trans; [exact Wr|].
      intros J. apply (unpend_transfer s1' _ cid (Some (w, t)) J); try reflexivity.
      intros w' t' Hs. injection Hs as <- <-. exact Ew.
    + split; [exact Wr|reflexivity].
Qed.

Lemma handle_connect_w_step c cn s :
  winv s -> att s c = None ->
  let s' := fst (handle_connect c cn s) in
  winv s' /\ forall w n, le1 w s (n + (if registers w cn then 1 else 0)) -> le1 w s' (n + cnt w (hc_log c cn s)).
Proof.
  intros I Hc. cbv zeta. unfold hc_log.
  destruct (connect_accepted cn s) eqn:Hacc.
  2:{ (* refused *)
    destruct (connect_refused c cn s Hacc) as (k & code & E & _ & Hph). rewrite E. cbn [fst].
    assert (G : gframe s (upd_conn c k s)).
    { apply gframe_upd_conn. rewrite Hc. unfold attachedb. now rewrite Hph. }
    split; [eapply gframe_winv; eauto|]. intros w n H. rewrite cnt_nil. apply le1_add0.
    eapply gframe_le1; [exact G|]. destruct (registers w cn).
    - rewrite Nat.add_1_r in H. apply le1_S in H as [-> H]. left. split; [reflexivity|now apply NoH_AMO].
    - now rewrite Nat.add_0_r in H. }
  destruct (handle_connect_stages c cn s Hacc) as (k & props & Hkc & Hkp & _ & _ & E). rewrite E. clear E.
  cbv zeta. set (cid := hc_cid cn s) in *.
  set (v5 := cn_ver cn =? 5). set (cmax := if v5 then opt_or (p_maxpkt (cn_props cn)) U32MAX else U32MAX).
  (* hc_auto *)
  assert (Ga : gframe s (hc_auto cn s)) by (unfold hc_auto; destruct (is_empty (cn_cid cn)); [apply gframe_same; reflexivity|apply gframe_refl]).
  pose proof (gframe_winv _ _ Ga I) as Ia.
  assert (Hca : att (hc_auto cn s) c = None) by (destruct Ga as (A & _); now rewrite A).
  (* take-over *)
  rewrite <- hc_takeover_w_fst.
  assert (Ht : let r := hc_takeover_w cid (hc_auto cn s) in
               wstep (hc_auto cn s) (fst (fst r)) (snd r) /\ att (fst (fst r)) c = None /\
               (forall c2, att (fst (fst r)) c2 <> Some cid)).
  { cbv zeta. unfold hc_takeover_w. destruct (aget cid (b_online (hc_auto cn s))) as [oldc|] eqn:Eon.
    - pose proof (conn_gone_w_step oldc (hc_auto cn s)) as (W & A0 & A1). cbv zeta in W, A0, A1.
      split; [exact W|]. split.
      + destruct (att (fst (fst (conn_gone_w oldc (hc_auto cn s)))) c) as [x|] eqn:Ex; [|reflexivity].
        apply A1 in Ex. congruence.
      + intros c2 H2. pose proof (A1 _ _ H2) as H3. pose proof (wi_online _ Ia _ _ H3) as H4.
        rewrite Eon in H4. injection H4 as ->. congruence.
    - cbn [fst snd]. split; [apply wstep_refl|]. split; [exact Hca|].
      intros c2 H2. pose proof (wi_online _ Ia _ _ H2) as H4. congruence. }
  cbv zeta in Ht. destruct (hc_takeover_w cid (hc_auto cn s)) as [[s1 o_dup] l1]. cbn [fst snd] in Ht |- *.
  destruct Ht as (W1 & Hc1 & Hno1).
  destruct (W1 Ia) as [I1 L1].
  (* the old session *)
  pose proof (hc_old_step cid cn v5 cmax s1 Hno1) as [W2 A2]. cbv zeta in W2, A2.
  destruct (hc_old cid cn v5 cmax s1) as [[s2 o_will] resume]. cbn [fst snd] in W2, A2.
  destruct (W2 I1) as [I2 L2].
  (* fresh queue / unack store *)
  set (s3 := hc_fresh cid v5 cmax (b_cfg s) resume s2).
  assert (G3 : gframe s2 s3) by (unfold s3, hc_fresh; destruct resume; [apply gframe_refl|apply gframe_same; reflexivity]).
  pose proof (gframe_winv _ _ G3 I2) as I3.
  assert (A3 : forall c2, att s3 c2 = att s1 c2) by (intros c2; destruct G3 as (A & _); now rewrite A, A2).
  destruct (hc_wd cn (b_cfg s)) as [wdelay expiry].
  (* the new session is installed on c *)
  set (se := hc_session cn wdelay expiry (b_now s3)).
  set (s4 := set_tables (aset cid se (b_sessions s3)) (aset cid c (b_online s3)) (adel cid (b_offline s3)) (b_wills s3)
                        (b_queues s3) (b_unacks s3) (upd_conn c k s3)).
  assert (T4 : winv s4 /\ forall w n, le1 w s3 (n + (if registers w cn then 1 else 0)) -> le1 w s4 n).
  { apply (install_transfer s3 s4 c cid (cn_willmsg cn) I3).
    - now rewrite A3.
    - intros c2. rewrite A3. apply Hno1.
    - intros c2. unfold s4, att. rewrite b_conns_set_tables. fold (att (upd_conn c k s3) c2). rewrite att_upd_conn.
      unfold attachedb. rewrite Hkp, Hkc. reflexivity.
    - reflexivity.
    - reflexivity.
    - reflexivity.
    - intros x. unfold swill, s4. rewrite b_sessions_set_tables, aget_aset. destruct (str_eqb x cid); reflexivity.
    - unfold s4. rewrite b_sessions_set_tables. apply NoDup_aset. apply I3. }
  destruct T4 as [I4 L4].
  pose proof (hc_wills_gframe o_will s4) as G5. fold s4.
  destruct (hc_wills o_will s4) as [s5 o_w]. cbn [fst] in G5 |- *.
  split; [eapply gframe_winv; eauto|].
  intros w n H. eapply gframe_le1; [exact G5|]. apply L4.
  rewrite cnt_app.
  replace (n + (cnt w l1 + cnt w o_will) + (if registers w cn then 1 else 0))%nat
    with (n + (if registers w cn then 1 else 0) + cnt w l1 + cnt w o_will)%nat by lia.
  eapply gframe_le1; [exact G3|]. apply L2. apply L1. eapply gframe_le1; [exact Ga|exact H].
Qed.

(* ---- 6.8 the packet handlers move no will ---- *)
Definition hres_st (r : hres) : st := match r with HOk s _ => s | HErr s _ _ => s | HErrRead s _ => s end.

Lemma pub_mark_gframe c k v5 qos pid s : gframe s (fst (pub_mark c k v5 qos pid s)).
Proof.
  unfold pub_mark. destruct (qos =? 2); [|apply gframe_refl].
  destruct (unack_set pid (opt_or (aget (k_cid k) (b_unacks s)) [])) as [u' ex]. cbn [fst].
  set (s1 := set_unacks _ s). assert (G1 : gframe s s1) by (apply gframe_same; reflexivity).
  destruct (ex && v5); [|exact G1].
  eapply gframe_trans; [exact G1|]. apply (gframe_quota_back c s1).
Qed.

Lemma pub_fwd_gframe k m isdup s : gframe s (fst (fst (fst (pub_fwd k m isdup s)))).
Proof.
  unfold pub_fwd. destruct isdup; [apply gframe_refl|].
  destruct (pub_action m s) as [|cd| |t p q]; try apply gframe_refl.
  - pose proof (deliver_frame (k_cid k) m (retain_update m s)) as [F _].
    destruct (deliver (k_cid k) m (retain_update m s)) as [[s' o] mt]. cbn [fst] in *.
    eapply gframe_trans; [apply wframe_gframe, (wframe_retain_update m)|apply dframe_gframe; exact F].
  - set (m' := rewrite_msg t p q m).
    pose proof (deliver_frame (k_cid k) m' (retain_update m' s)) as [F _].
    destruct (deliver (k_cid k) m' (retain_update m' s)) as [[s' o] mt]. cbn [fst] in *.
    eapply gframe_trans; [apply wframe_gframe, (wframe_retain_update m')|apply dframe_gframe; exact F].
Qed.

Lemma pub_finish_gframe c k v5 qos pid s o mt err : gframe s (hres_st (pub_finish c k v5 qos pid (s, o, mt, err))).
Proof.
  unfold pub_finish.
  set (sa := if (qos =? 2) && (128 <=? pub_code v5 mt err) then _ else s).
  assert (Ga : gframe s sa) by (unfold sa; destruct ((qos =? 2) && (128 <=? pub_code v5 mt err)); [apply gframe_same; reflexivity|apply gframe_refl]).
  clearbody sa. destruct (nget c (b_conns sa)) as [k1|] eqn:E; [|exact Ga].
  match goal with |- context [if ?b then upd_conn _ _ _ else _] => destruct b end; [|exact Ga].
  cbn [hres_st]. eapply gframe_trans; [exact Ga|]. eapply gframe_upd_self; [exact E| |]; reflexivity.
Qed.

Lemma charge_att k qos : attachedb (charge k qos) = attachedb k /\ k_cid (charge k qos) = k_cid k.
Proof. unfold charge. destruct ((k_v k =? 5) && (0 <? qos)); split; reflexivity. Qed.

Lemma replay_retained_gframe c k sb s : gframe s (fst (replay_retained c k sb s)).
Proof.
  unfold replay_retained.
  apply (fold_left_inv (fun acc : st * list out => gframe s (fst acc))); [|apply gframe_refl].
  intros [s0 o0] m G. cbn [fst] in G.
  destruct (aget (k_cid k) (b_queues s0)) as [q|]; [|exact G].
  match goal with |- context [q_add ?a ?b ?c] => destruct (q_add a b c) as [[q' evs]| | |] end; try exact G.
  cbn [fst]. eapply gframe_trans; [exact G|].
  eapply gframe_trans; [|apply dframe_gframe, release_dropped_frame]. apply gframe_same; reflexivity.
Qed.

Lemma handle_subscribe_gframe c k pid props topics s : gframe s (hres_st (handle_subscribe c k pid props topics s)).
Proof.
  unfold handle_subscribe.
  match goal with |- context [if ?b then HErr s [] (Some 161) else _] => destruct b end; [apply gframe_refl|].
  destruct (h_sub_all (b_hooks s)); [apply gframe_refl|].
  match goal with |- context [fold_left ?f topics ?a] =>
    assert (G : (fun acc : st * list out * list N => gframe s (fst (fst acc))) (fold_left f topics a));
      [|destruct (fold_left f topics a) as [[s1 o1] cs]; exact G] end.
  apply fold_left_inv; [|apply gframe_refl].
  intros [[s0 o0] cs] t G. cbn [fst] in G |- *.
  match goal with |- context [if ?b then _ else (s0, o0, cs ++ [?x])] => destruct b end; [|exact G].
  match goal with |- context [db_subscribe ?a ?b ?d] => destruct (db_subscribe a b d) as [d' existed] end.
  match goal with |- context [if ?b then replay_retained c k ?sb ?s1 else _] =>
    pose proof (replay_retained_gframe c k sb s1) as Gr; destruct b; [destruct (replay_retained c k sb s1) as [s2 o2]|] end;
    cbn [fst] in *.
  - eapply gframe_trans; [exact G|]. eapply gframe_trans; [|exact Gr]. apply gframe_same; reflexivity.
  - eapply gframe_trans; [exact G|]. apply gframe_same; reflexivity.
Qed.

Lemma release_id_gframe c pid s : gframe s (release_id c pid s).
Proof.
  unfold release_id. destruct (nget c (b_conns s)) as [k|] eqn:E; [|apply gframe_refl].
  eapply gframe_upd_self; [exact E| |]; reflexivity.
Qed.

Lemma queue_op_gframe cid f s : gframe s (queue_op cid f s).
Proof. unfold queue_op. destruct (aget cid (b_queues s)); [apply gframe_same; reflexivity|apply gframe_refl]. Qed.

Lemma sess_wills_aset_same cid se se' l :
  aget cid l = Some se -> se_will se' = se_will se ->
  map (fun e : str * session => (fst e, se_will (snd e))) (aset cid se' l) = map (fun e => (fst e, se_will (snd e))) l.
Proof.
  intros H E. induction l as [|[k0 v0] r IH]; cbn [aget] in H; [discriminate|].
  cbn [aset]. destruct (str_eqb_spec cid k0) as [->|Hne]; cbn [map fst snd].
  - injection H as ->. now rewrite E.
  - now rewrite IH.
Qed.

Theorem handle_packet_gframe c k p s :
  nget c (b_conns s) = Some k -> gframe s (hres_st (handle_packet c k p s)).
Proof.
  intros Hk. destruct p; cbn [handle_packet hres_st]; try apply gframe_refl.
  - (* PUBLISH *)
    destruct (has_wild topic); [apply gframe_refl|].
    match goal with |- context [if ?b then HErrRead s (Some 148) else _] => destruct b end; [apply gframe_refl|].
    match goal with |- context [if ?b then HErrRead s (Some 130) else _] => destruct b end; [apply gframe_refl|].
    match goal with |- context [if ?b then HErrRead s (Some 147) else _] => destruct b end; [apply gframe_refl|].
    change (if (k_v k =? 5) && (0 <? qos) then set_quota (k_quota k - 1) k else k) with (charge k qos).
    destruct (charge_att k qos) as [Ha Hc].
    set (kq := charge k qos) in *. set (s_in := upd_conn c kq s).
    assert (Gin : gframe s s_in) by (eapply gframe_upd_self; eauto).
    assert (Hkin : nget c (b_conns s_in) = Some kq) by (unfold s_in; rewrite b_conns_upd_conn; apply nget_nset_same).
    rewrite handle_publish_stages. cbv zeta.
    destruct (negb (k_retain_avail kq) && retain); [exact Gin|].
    match goal with |- context [pub_alias ?a ?b ?d ?e ?f] => destruct (pub_alias a b d e f) as [[[k' m]|]|cd] eqn:Hal end;
      try exact Gin.
    apply pub_alias_cid in Hal as (Hc' & _ & _ & _ & Hp' & _).
    set (s_b := upd_conn c k' s_in).
    assert (Gb : gframe s_in s_b).
    { eapply gframe_upd_self; [exact Hkin| |exact Hc']. unfold attachedb. now rewrite Hp'. }
    pose proof (pub_mark_gframe c k' (k_v kq =? 5) qos pid s_b) as Gm.
    destruct (pub_mark c k' (k_v kq =? 5) qos pid s_b) as [s1 isdup]. cbn [fst] in Gm.
    pose proof (pub_fwd_gframe k' m isdup s1) as Gf.
    destruct (pub_fwd k' m isdup s1) as [[[s2 o2] mt] err]. cbn [fst] in Gf.
    pose proof (pub_finish_gframe c k' (k_v kq =? 5) qos pid s2 o2 mt err) as Gz.
    eapply gframe_trans; [exact Gin|]. eapply gframe_trans; [exact Gb|]. eapply gframe_trans; [exact Gm|].
    eapply gframe_trans; [exact Gf|exact Gz].
  - (* PUBACK *) eapply gframe_trans; [apply queue_op_gframe|apply release_id_gframe].
  - (* PUBREC *)
    destruct ((k_v k =? 5) && (128 <=? code)); cbn [hres_st].
    + eapply gframe_trans; [apply queue_op_gframe|apply release_id_gframe].
    + apply queue_op_gframe.
  - (* PUBREL *)
    set (s1 := set_unacks _ s). assert (G1 : gframe s s1) by (apply gframe_same; reflexivity).
    destruct (nget c (b_conns s1)) as [k1|] eqn:E; [|exact G1].
    destruct ((k_v k =? 5) && (k_quota k1 <? k_recv_max k1)); [|exact G1].
    cbn [hres_st]. eapply gframe_trans; [exact G1|]. eapply gframe_upd_self; [exact E| |]; reflexivity.
  - (* PUBCOMP *) eapply gframe_trans; [apply queue_op_gframe|apply release_id_gframe].
  - (* SUBSCRIBE *)
    match goal with |- context [if ?b then handle_subscribe _ _ _ _ _ _ else _] => destruct b end;
      [apply handle_subscribe_gframe|apply gframe_refl].
  - (* UNSUBSCRIBE *) unfold handle_unsubscribe. cbn [hres_st]. apply gframe_same; reflexivity.
  - (* DISCONNECT *)
    destruct (k_v k =? 5).
    + destruct (aget (k_cid k) (b_sessions s)) as [se|] eqn:Hse; [|apply gframe_refl].
      match goal with |- context [if ?b then HErr s [] None else _] => destruct b end; [apply gframe_refl|].
      cbn [hres_st].
      set (s1 := match p_sei props with Some x => _ | None => s end).
      assert (G1 : gframe s s1).
      { unfold s1. destruct (p_sei props) as [x|]; [|apply gframe_refl]. destruct (x =? 0); [apply gframe_refl|].
        split; [intros c'; reflexivity|]. repeat split. unfold sess_wills. rewrite b_sessions_set_tables.
        now apply (sess_wills_aset_same (k_cid k) se). }
      eapply gframe_trans; [exact G1|].
      assert (Hk1 : nget c (b_conns s1) = Some k).
      { unfold s1. destruct (p_sei props) as [x|]; [|exact Hk]. destruct (x =? 0); exact Hk. }
      eapply gframe_upd_self; [exact Hk1| |]; reflexivity.
    + cbn [hres_st]. eapply gframe_upd_self; [exact Hk| |]; reflexivity.
Qed.

(* a packet larger than the server's maximum: the same frame (nothing is handled) *)
Lemma handle_packet_sz_gframe c k p n s :
  nget c (b_conns s) = Some k -> gframe s (hres_st (handle_packet_sz c k p n s)).
Proof.
  intros Hk. destruct (too_big k n s) eqn:Hb; [|rewrite handle_packet_sz_small by exact Hb; now apply handle_packet_gframe].
  destruct (handle_packet_sz_big c k p n s Hb) as [code| |q]; cbn [hres_st]; try apply gframe_refl.
  eapply gframe_upd_self; [exact Hk| |]; reflexivity.
Qed.

(* ---- 6.9 the instrumented step and run ---- *)
(* what the read loop does with the handler's result *)
Definition finish_w (c : N) (r : hres) : (st * list out) * wlog :=
  match r with
  | HOk s' o => ((s', o), [])
  | HErr s' o code => let '((s'', o'), l) := fail_conn_w c code false s' in ((s'', o ++ o'), l)
  | HErrRead s' code => fail_conn_w c code true s'
  end.

Definition send_unconnected_w (c : N) (k : conn) (p : pkt) (s : st) : (st * list out) * wlog :=
  match k_phase k with
  | PhFresh => ((upd_conn c (set_phase PhDead k) s, [OSend c (KConnack false 129 [])]), [])
  | PhZombie =>
      match p with
      | KPublish _ qos _ _ _ _ _ =>
          if (k_v k =? 5) && (0 <? qos) then
            if k_quota k =? 0 then conn_gone_w c s
            else ((upd_conn c (set_quota (k_quota k - 1) k) s, []), [])
          else ((s, []), [])
      | _ => ((s, []), [])
      end
  | PhDead =>
      match p with
      | KPublish _ qos _ _ _ _ _ => if (k_v k =? 5) && (0 <? qos) then conn_gone_w c s else ((s, []), [])
      | _ => ((s, []), [])
      end
  | _ => ((s, []), [])
  end.

Definition step_event_w (s : st) (e : event) : (st * list out) * wlog :=
  match e with
  | EConnect c cn =>
      let '((s0, o0), l0) := conn_gone_w c s in
      let '((s1, o1), l1) := handle_connect_w c cn s0 in
      ((s1, filter (fun x => match x with OClose c' => negb (c' =? c) | _ => true end) o0 ++ o1), l0 ++ l1)
  | EOpen c => let '((s0, o0), l0) := conn_gone_w c s in ((upd_conn c (fresh_conn [] 0) s0, o0), l0)
  | ESend c p =>
      match nget c (b_conns s) with
      | Some k =>
          match k_phase k with
          | PhConnected => finish_w c (handle_packet c k p s)
          | _ => send_unconnected_w c k p s
          end
      | None => ((s, []), [])
      end
  | ESendSz c p n =>
      match nget c (b_conns s) with
      | Some k =>
          match k_phase k with
          | PhConnected => finish_w c (handle_packet_sz c k p n s)
          | _ => send_unconnected_w c k p s
          end
      | None => ((s, []), [])
      end
  | EClose c => let '((s', o), l) := conn_gone_w c s in
                ((s', filter (fun x => match x with OClose _ => false | _ => true end) o), l)
  | EApiPublish m => (let '(s', o, _) := deliver [] m s in (s', o), [])
  | ETerminate cid =>
      match aget cid (b_online s) with
      | Some c =>
          match nget c (b_conns s) with
          | Some k => conn_gone_w c (upd_conn c (set_force k) s)
          | None => ((s, []), [])
          end
      | None => if ahas cid (b_offline s) then release_will_w cid (remove_session cid s) else ((s, []), [])
      end
  | EAdvance ms => ((set_time (b_now s + ms) (b_rt s) s, []), [])
  | EExpireCheck =>
      let expired := filter (fun cd => snd cd <? b_now s) (b_offline s) in
      let s1 := fold_left (fun s0 cd => remove_session (fst cd) s0) expired s in
      fold_left (fun acc cd => let '((s0, o0), l0) := acc in
                               let '((s', o'), l') := release_will_w (fst cd) s0 in ((s', o0 ++ o'), l0 ++ l'))
                expired ((s1, []), [])
  | ESleep ms =>
      let s0 := set_time (b_now s + ms) (b_rt s + ms) s in
      let '((s1, o1), l1) :=
        fold_left (fun acc ck => let '((sa, oa), la) := acc in
                                 let k := snd ck in
                                 match k_phase k with
                                 | PhConnected | PhZombie =>
                                     if (0 <? k_keepalive k) && ((k_keepalive k / 2 + k_keepalive k) * 1000 <? ms)
                                     then let '((sb, ob), lb) := conn_gone_w (fst ck) sa in ((sb, oa ++ ob), la ++ lb)
                                     else ((sa, oa), la)
                                 | _ => ((sa, oa), la)
                                 end) (b_conns s0) ((s0, []), []) in
      let '((s2, o2), l2) := fire_wills_w s1 in ((s2, o1 ++ o2), l1 ++ l2)
  | EInspect => ((s, []), [])
  end.

Lemma finish_w_fst c r :
  fst (finish_w c r) = match r with
                       | HOk s' o => (s', o)
                       | HErr s' o code => let '(s'', o') := fail_conn c code false s' in (s'', o ++ o')
                       | HErrRead s' code => fail_conn c code true s'
                       end.
Proof.
  destruct r as [s' o|s' o code|s' code]; cbn [finish_w]; try reflexivity.
  - rewrite <- fail_conn_w_fst. destruct (fail_conn_w c code false s') as [[s'' o'] l]. reflexivity.
  - apply fail_conn_w_fst.
Qed.

Lemma send_unconnected_w_fst c k p s : fst (send_unconnected_w c k p s) = send_unconnected c k p s.
Proof.
  unfold send_unconnected_w, send_unconnected. destruct (k_phase k); try reflexivity.
  - destruct p; try reflexivity. destruct ((k_v k =? 5) && (0 <? qos)); [|reflexivity].
    destruct (k_quota k =? 0); [apply conn_gone_w_fst|reflexivity].
  - destruct p; try reflexivity. destruct ((k_v k =? 5) && (0 <? qos)); [apply conn_gone_w_fst|reflexivity].
Qed.

Lemma step_event_w_erase s e : fst (step_event_w s e) = step_event s e.
Proof.
  destruct e; cbn [step_event_w step_event]; try reflexivity.
  - rewrite <- conn_gone_w_fst. destruct (conn_gone_w c s) as [[s0 o0] l0]. cbn [fst handle_connect_w].
    destruct (handle_connect c cn s0). reflexivity.
  - rewrite <- conn_gone_w_fst. destruct (conn_gone_w c s) as [[s0 o0] l0]. reflexivity.
  - destruct (nget c (b_conns s)) as [k|]; [|reflexivity].
    destruct (k_phase k); try apply send_unconnected_w_fst. apply finish_w_fst.
  - destruct (nget c (b_conns s)) as [k|]; [|reflexivity].
    destruct (k_phase k); try apply send_unconnected_w_fst. apply finish_w_fst.
  - rewrite <- conn_gone_w_fst. destruct (conn_gone_w c s) as [[s0 o0] l0]. reflexivity.
  - destruct (aget cid (b_online s)) as [c|].
    + destruct (nget c (b_conns s)); [apply conn_gone_w_fst|reflexivity].
    + destruct (ahas cid (b_offline s)); [apply release_will_w_fst|reflexivity].
  - match goal with |- fst (fold_left ?fw ?l ?a) = fold_left ?f ?l ?b => rewrite (fold_erase fw f) end; [reflexivity|].
    intros [[s0 o0] l0] cd. cbn [fst]. rewrite <- release_will_w_fst. destruct (release_will_w (fst cd) s0) as [[s' o'] l']. reflexivity.
  - match goal with |- context [fold_left ?fw (b_conns ?s0) (?s0, [], [])] =>
      match goal with |- context [fold_left ?f (b_conns s0) (s0, [])] =>
        pose proof (fold_erase fw f (b_conns s0)) as Hf end end.
    match type of Hf with ?P -> _ => assert (Hp : P) end.
    { intros [[sa oa] la] ck. cbn [fst]. destruct (k_phase (snd ck)); try reflexivity;
        (match goal with |- context [if ?b then _ else _] => destruct b end; [|reflexivity]);
        rewrite <- conn_gone_w_fst; destruct (conn_gone_w (fst ck) sa) as [[sb ob] lb]; reflexivity. }
    specialize (Hf Hp ((set_time (b_now s + ms) (b_rt s + ms) s, []), [])). cbn [fst] in Hf. rewrite <- Hf.
    match goal with |- context [fold_left ?fw ?l ?a] => destruct (fold_left fw l a) as [[s1 o1] l1] end. cbn [fst].
    rewrite <- fire_wills_w_fst. destruct (fire_wills_w s1) as [[s2 o2] l2]. reflexivity.
Qed.

Definition step_w (s : st) (e : event) : (st * list out) * wlog :=
  let '((s1, o1), l) := step_event_w s e in
  let '(s2, o2) := poll_all s1 in
  ((s2, o1 ++ o2), l).

Fixpoint run_w (s : st) (es : list event) : (st * list (list out)) * wlog :=
  match es with
  | [] => ((s, []), [])
  | e :: r => let '((s', o), l1) := step_w s e in
              let '((s'', os), l2) := run_w s' r in ((s'', o :: os), l1 ++ l2)
  end.

Lemma step_w_erase s e : fst (step_w s e) = step s e.
Proof.
  unfold step_w, step. rewrite <- step_event_w_erase. destruct (step_event_w s e) as [[s1 o1] l]. cbn [fst].
  destruct (poll_all s1). reflexivity.
Qed.

(* forgetting the log gives the real run *)
Theorem run_w_erase es : forall s, fst (run_w s es) = run s es.
Proof.
  induction es as [|e r IH]; intros s; cbn [run_w run]; [reflexivity|].
  rewrite <- step_w_erase. destruct (step_w s e) as [[s' o] l1]. cbn [fst].
  rewrite <- IH. destruct (run_w s' r) as [[s'' os] l2]. reflexivity.
Qed.

Lemma aget_none_notin {V} (k : str) (l : list (str * V)) : aget k l = None -> ~ In k (map fst l).
Proof.
  induction l as [|[k0 v0] r IH]; cbn [aget map fst In]; intros H; [tauto|].
  destruct (str_eqb_spec k k0) as [->|Hne]; [discriminate|]. intros [E|Hin]; [congruence|now apply IH].
Qed.

(* ---- 6.10 every event keeps the invariants and never duplicates a will ---- *)
Definition ev_registers (w : msg) (e : event) : nat :=
  match e with EConnect _ cn => if registers w cn then 1%nat else 0%nat | _ => 0%nat end.

Definition estep (e : event) (s s' : st) (l : wlog) : Prop :=
  winv s -> winv s' /\ forall w n, le1 w s (n + ev_registers w e) -> le1 w s' (n + cnt w l).

Lemma estep_of_wstep e s s' l : (forall w, ev_registers w e = 0%nat) -> wstep s s' l -> estep e s s' l.
Proof. intros He W I. destruct (W I) as [I' L]. split; [exact I'|]. intros w n H. rewrite He, Nat.add_0_r in H. now apply L. Qed.

Lemma finish_w_step c s r :
  gframe s (hres_st r) -> wstep s (fst (fst (finish_w c r))) (snd (finish_w c r)).
Proof.
  intros G. destruct r as [s' o|s' o code|s' code]; cbn [hres_st finish_w] in *.
  - cbn [fst snd]. now apply wstep_gframe.
  - pose proof (fail_conn_w_step c code false s') as [W _]. cbv zeta in W.
    destruct (fail_conn_w c code false s') as [[s'' o'] l]. cbn [fst snd] in *.
    change l with ([] ++ l). eapply wstep_trans; [apply wstep_gframe; exact G|exact W].
  - pose proof (fail_conn_w_step c code true s') as [W _]. cbv zeta in W.
    change (snd (fail_conn_w c code true s')) with ([] ++ snd (fail_conn_w c code true s')).
    eapply wstep_trans; [apply wstep_gframe; exact G|exact W].
Qed.

Lemma send_unconnected_w_step c k p s :
  nget c (b_conns s) = Some k ->
  wstep s (fst (fst (send_unconnected_w c k p s))) (snd (send_unconnected_w c k p s)).
Proof.
  intros Hk. unfold send_unconnected_w. destruct (k_phase k) eqn:Hph; try apply wstep_refl.
  - cbn [fst snd]. apply wstep_gframe. eapply gframe_upd_self; [exact Hk| |reflexivity].
    unfold attachedb. rewrite k_phase_set_phase, Hph. reflexivity.
  - destruct p; try apply wstep_refl.
    destruct ((k_v k =? 5) && (0 <? qos)); [|apply wstep_refl].
    destruct (k_quota k =? 0).
    + pose proof (conn_gone_w_step c s) as (W0 & _). exact W0.
    + cbn [fst snd]. apply wstep_gframe. eapply gframe_upd_self; [exact Hk| |]; reflexivity.
  - destruct p; try apply wstep_refl.
    destruct ((k_v k =? 5) && (0 <? qos)); [|apply wstep_refl].
    pose proof (conn_gone_w_step c s) as (W0 & _). exact W0.
Qed.

Lemma step_event_w_estep s e : estep e s (fst (fst (step_event_w s e))) (snd (step_event_w s e)).
Proof.
  destruct e; cbn [step_event_w].
  - (* CONNECT *)
    pose proof (conn_gone_w_step c s) as (W0 & A0 & _). cbv zeta in W0, A0.
    destruct (conn_gone_w c s) as [[s0 o0] l0]. cbn [fst snd] in W0, A0.
    cbn [handle_connect_w]. destruct (handle_connect c cn s0) as [s1 o1] eqn:Ec. cbn [fst snd].
    intros I. destruct (W0 I) as [I0 L0].
    pose proof (handle_connect_w_step c cn s0 I0 A0) as [I1 L1]. rewrite Ec in I1, L1. cbn [fst] in I1, L1.
    split; [exact I1|]. intros w n H. cbn [ev_registers] in H. rewrite cnt_app.
    replace (n + (cnt w l0 + cnt w (hc_log c cn s0)))%nat with ((n + cnt w l0) + cnt w (hc_log c cn s0))%nat by lia.
    apply L1. replace (n + cnt w l0 + (if registers w cn then 1 else 0))%nat
      with ((n + (if registers w cn then 1 else 0)) + cnt w l0)%nat by lia.
    now apply L0.
  - (* OPEN *)
    apply estep_of_wstep; [reflexivity|].
    pose proof (conn_gone_w_step c s) as (W0 & A0 & _). cbv zeta in W0, A0.
    destruct (conn_gone_w c s) as [[s0 o0] l0]. cbn [fst snd] in *.
    rewrite <- (app_nil_r l0). eapply wstep_trans; [exact W0|]. apply wstep_gframe.
    apply gframe_upd_conn. rewrite A0. reflexivity.
  - (* a packet *)
    apply estep_of_wstep; [reflexivity|].
    destruct (nget c (b_conns s)) as [k|] eqn:Hk; [|apply wstep_refl].
    destruct (k_phase k) eqn:Hph; try (now apply send_unconnected_w_step).
    apply finish_w_step. now apply handle_packet_gframe.
  - (* a packet with its size *)
    apply estep_of_wstep; [reflexivity|].
    destruct (nget c (b_conns s)) as [k|] eqn:Hk; [|apply wstep_refl].
    destruct (k_phase k) eqn:Hph; try (now apply send_unconnected_w_step).
    apply finish_w_step. now apply handle_packet_sz_gframe.
  - (* CLOSE *)
    apply estep_of_wstep; [reflexivity|].
    pose proof (conn_gone_w_step c s) as (W0 & _). cbv zeta in W0.
    destruct (conn_gone_w c s) as [[s0 o0] l0]. exact W0.
  - (* API publish *)
    apply estep_of_wstep; [reflexivity|].
    pose proof (deliver_frame [] m s) as [F _]. destruct (deliver [] m s) as [[s' o] mt]. cbn [fst snd] in *.
    apply wstep_gframe. now apply dframe_gframe.
  - (* terminate *)
    apply estep_of_wstep; [reflexivity|].
    destruct (aget cid (b_online s)) as [c|] eqn:Eon.
    + destruct (nget c (b_conns s)) as [k|] eqn:Hk; [|apply wstep_refl].
      pose proof (conn_gone_w_step c (upd_conn c (set_force k) s)) as (W0 & _). cbv zeta in W0.
      change (snd (conn_gone_w c (upd_conn c (set_force k) s))) with ([] ++ snd (conn_gone_w c (upd_conn c (set_force k) s))).
      eapply wstep_trans; [|exact W0]. apply wstep_gframe. eapply gframe_upd_self; [exact Hk| |]; reflexivity.
    + destruct (ahas cid (b_offline s)) eqn:Eoff; [|apply wstep_refl].
      pose proof (release_will_w_step cid (remove_session cid s)) as [W _].
      change (snd (release_will_w cid (remove_session cid s))) with ([] ++ snd (release_will_w cid (remove_session cid s))).
      intros I. revert I. eapply wstep_trans; [|exact W].
      intros I. apply (remove_session_step cid s); [|exact I].
      intros c Hc. pose proof (wi_offline _ I _ _ Hc) as H. unfold ahas in Eoff. rewrite H in Eoff. discriminate.
  - (* advance *)
    apply estep_of_wstep; [reflexivity|]. cbn [fst snd]. apply wstep_gframe. apply gframe_same; reflexivity.
  - (* expiry check *)
    apply estep_of_wstep; [reflexivity|]. cbv zeta.
    set (expired := filter (fun cd => snd cd <? b_now s) (b_offline s)).
    (* removing the expired sessions *)
    assert (R : forall (l : list (str * N)) s0, (forall cd c, In cd l -> att s0 c <> Some (fst cd)) ->
                  wstep s0 (fold_left (fun s0 cd => remove_session (fst cd) s0) l s0) [] /\
                  forall c, att (fold_left (fun s0 cd => remove_session (fst cd) s0) l s0) c = att s0 c).
    { induction l as [|cd r IH]; intros s0 Hno; cbn [fold_left]; [split; [apply wstep_refl|reflexivity]|].
      destruct (IH (remove_session (fst cd) s0)) as [W A].
      - intros cd' c Hin. apply (Hno cd' c). now right.
      - split; [|intros c; now rewrite A].
        change (@nil (str * msg)) with (@nil (str * msg) ++ []). eapply wstep_trans; [|exact W].
        apply remove_session_step. intros c. apply (Hno cd c). now left. }
    (* releasing their pending wills *)
    assert (Q : forall (l : list (str * N)) sb s0 o0 l0, wstep sb s0 l0 ->
                  let r := fold_left (fun (acc : st * list out * wlog) cd => let '((s0, o0), l0) := acc in
                                                    let '((s', o'), l') := release_will_w (fst cd) s0 in ((s', o0 ++ o'), l0 ++ l'))
                                     l ((s0, o0), l0) in
                  wstep sb (fst (fst r)) (snd r)).
    { induction l as [|cd r IH]; intros sb s0 o0 l0 Hb; cbn [fold_left]; [exact Hb|].
      pose proof (release_will_w_step (fst cd) s0) as [W _].
      destruct (release_will_w (fst cd) s0) as [[s' o'] l']. cbn [fst snd] in W.
      apply IH. eapply wstep_trans; eassumption. }
    intros I.
    assert (Hno : forall cd c, In cd expired -> att s c <> Some (fst cd)).
    { intros [cid d] c Hin Hc. apply filter_In in Hin as [Hin _]. cbn [fst] in Hc.
      pose proof (wi_offline _ I _ _ Hc) as H. apply aget_none_notin in H. apply H. apply in_map_iff. exists (cid, d). now split. }
    destruct (R expired s Hno) as [W1 _].
    revert I. apply Q. exact W1.
  - (* sleep *)
    apply estep_of_wstep; [reflexivity|]. cbv zeta.
    set (s0 := set_time (b_now s + ms) (b_rt s + ms) s).
    assert (G0 : gframe s s0) by (apply gframe_same; reflexivity).
    assert (K : forall (l : list (N * conn)) sb sa oa la, wstep sb sa la ->
                  let r := fold_left (fun (acc : st * list out * wlog) ck => let '((sa, oa), la) := acc in
                                 let k := snd ck in
                                 match k_phase k with
                                 | PhConnected | PhZombie =>
                                     if (0 <? k_keepalive k) && ((k_keepalive k / 2 + k_keepalive k) * 1000 <? ms)
                                     then let '((sb, ob), lb) := conn_gone_w (fst ck) sa in ((sb, oa ++ ob), la ++ lb)
                                     else ((sa, oa), la)
                                 | _ => ((sa, oa), la)
                                 end) l ((sa, oa), la) in
                  wstep sb (fst (fst r)) (snd r)).
    { induction l as [|ck r IH]; intros sb sa oa la Hb; cbn [fold_left]; [exact Hb|].
      cbv zeta.
      assert (Hgo : forall acc', acc' = (let '((sb, ob), lb) := conn_gone_w (fst ck) sa in ((sb, oa ++ ob), la ++ lb)) ->
                    wstep sb (fst (fst acc')) (snd acc')).
      { intros acc' ->. pose proof (conn_gone_w_step (fst ck) sa) as (W & _). cbv zeta in W.
        destruct (conn_gone_w (fst ck) sa) as [[sb' ob] lb]. cbn [fst snd] in *. eapply wstep_trans; eassumption. }
      destruct (k_phase (snd ck)); try (apply IH; exact Hb);
        (destruct ((0 <? k_keepalive (snd ck)) && ((k_keepalive (snd ck) / 2 + k_keepalive (snd ck)) * 1000 <? ms));
         [|apply IH; exact Hb]);
        specialize (Hgo _ eq_refl);
        destruct (conn_gone_w (fst ck) sa) as [[sb' ob] lb]; apply IH; exact Hgo. }
    match goal with |- context [fold_left ?f (b_conns s0) ?a] => set (F := fold_left f (b_conns s0) a) end.
    assert (W1 : wstep s (fst (fst F)) (snd F)) by (apply K; apply wstep_gframe; exact G0).
    clearbody F. destruct F as [[s1 o1] l1]. cbn [fst snd] in W1.
    pose proof (fire_wills_w_step s1) as [W2 _]. destruct (fire_wills_w s1) as [[s2 o2] l2]. cbn [fst snd] in *.
    exact (wstep_trans _ _ _ _ _ W1 W2).
  - apply estep_of_wstep; [reflexivity|]. apply wstep_refl.
Qed.

Lemma step_w_estep s e : estep e s (fst (fst (step_w s e))) (snd (step_w s e)).
Proof.
  unfold step_w. pose proof (step_event_w_estep s e) as H.
  destruct (step_event_w s e) as [[s1 o1] l]. cbn [fst snd] in H.
  pose proof (poll_all_frame s1) as [F _]. destruct (poll_all s1) as [s2 o2]. cbn [fst snd] in *.
  intros I. destruct (H I) as [I1 L1]. apply dframe_gframe in F.
  split; [eapply gframe_winv; eauto|]. intros w n Hle. eapply gframe_le1; [exact F|]. now apply L1.
Qed.

(* the number of CONNECT packets in the history that carry the will w *)
Fixpoint reg_count (w : msg) (es : list event) : nat :=
  match es with [] => 0%nat | e :: r => (ev_registers w e + reg_count w r)%nat end.

Theorem run_w_inv : forall es s,
  winv s ->
  winv (fst (fst (run_w s es))) /\
  forall w n, le1 w s (n + reg_count w es) -> le1 w (fst (fst (run_w s es))) (n + cnt w (snd (run_w s es))).
Proof.
  induction es as [|e r IH]; intros s I; cbn [run_w reg_count].
  - cbn [fst snd]. split; [exact I|]. intros w n H. rewrite cnt_nil. exact H.
  - pose proof (step_w_estep s e I) as [I1 L1].
    destruct (step_w s e) as [[s' o] l1]. cbn [fst snd] in I1, L1.
    destruct (IH s' I1) as [I2 L2]. destruct (run_w s' r) as [[s'' os] l2]. cbn [fst snd] in *.
    split; [exact I2|]. intros w n H. rewrite cnt_app.
    replace (n + (cnt w l1 + cnt w l2))%nat with ((n + cnt w l1) + cnt w l2)%nat by lia.
    apply L2.
    replace (n + cnt w l1 + reg_count w r)%nat with ((n + reg_count w r) + cnt w l1)%nat by lia.
    apply L1.
    replace (n + reg_count w r + ev_registers w e)%nat with (n + (ev_registers w e + reg_count w r))%nat by lia.
    exact H.
Qed.

(* Target 6.  Along any event list, from any state that satisfies the invariants and in which the will w lives
   nowhere: if at most one CONNECT of the history registers w, then send_will is applied to w at most once;
   and if none does, never. *)
Theorem C08_at_most_once es s w :
  winv s -> NoH w s -> (reg_count w es <= 1)%nat -> (cnt w (snd (run_w s es)) <= 1)%nat.
Proof.
  intros I Hn Hr. destruct (run_w_inv es s I) as [_ L].
  assert (H0 : le1 w s (0 + reg_count w es)).
  { destruct (reg_count w es) as [|[|k]]; [left; split; [reflexivity|now apply NoH_AMO]|right; now split|lia]. }
  apply L in H0. apply le1_bound in H0. exact H0.
Qed.

Theorem C08_never_unregistered es s w :
  winv s -> NoH w s -> reg_count w es = 0%nat -> cnt w (snd (run_w s es)) = 0%nat.
Proof.
  intros I Hn Hr. destruct (run_w_inv es s I) as [_ L].
  assert (H1 : le1 w s (1 + reg_count w es)) by (rewrite Hr; right; now split).
  apply L in H1. apply le1_bound in H1. lia.
Qed.

Lemma winv_init cfg h picks : winv (st_init cfg h picks).
Proof. constructor; cbn; try constructor; intros c cid H; discriminate. Qed.

Lemma NoH_init w cfg h picks : NoH w (st_init cfg h picks).
Proof. split; [intros c (cid & H & _); discriminate|intros cid [t H]; discriminate]. Qed.

Corollary C08_at_most_once_from_start cfg h picks es w :
  (reg_count w es <= 1)%nat -> (cnt w (snd (run_w (st_init cfg h picks) es)) <= 1)%nat.
Proof. intros H. apply C08_at_most_once; [apply winv_init|apply NoH_init|exact H]. Qed.

(* ================================================================== *)
(* 7. non-vacuity                                                      *)
(* ================================================================== *)
Definition ex_W : str := [119].      (* "w": the client with a will *)
Definition ex_will (payload : str) (props : list prop) : willspec :=
  {| w_topic := ex_T; w_payload := payload; w_qos := 1; w_retain := false; w_props := props |}.

Definition ex_sub_events : list event :=
  [EConnect 1 (ex_connect 4 ex_S true None []);
   ESend 1 (KSubscribe 1 [] [{| tq_name := ex_T; tq_qos := 1; tq_nl := false; tq_rap := false; tq_rh := 0 |}])].

(* a v5 client with a will of delay 5 s and a session of 100 s *)
Definition ex_will_connect : event :=
  EConnect 2 (ex_connect 5 ex_W false (Some (ex_will [7] [PWillDelay 5])) [PSei 100]).
(* a v3 client with a will (no delay, no stored session when clean) *)
Definition ex_will_connect3 : event := EConnect 2 (ex_connect 4 ex_W true (Some (ex_will [8] [])) []).

Definition ex_wstate : st := fst (run (st_init ex_cfg no_hooks []) (ex_sub_events ++ [ex_will_connect])).
Definition ex_wstate3 : st := fst (run (st_init ex_cfg no_hooks []) (ex_sub_events ++ [ex_will_connect3])).
Definition ex_wmsg : msg := will_msg (ex_will [7] [PWillDelay 5]).
Definition ex_wmsg3 : msg := will_msg (ex_will [8] []).

Definition count_to_sub (o : list (list out)) : nat :=
  length (filter (fun x => match x with OSend 1 (KPublish _ _ _ _ _ _ _) => true | _ => false end) (concat o)).

(* the hypotheses of will_pending hold for the v5 client when its socket is lost, those of will_immediate for the
   v3 client *)
Example ex_will_pending_hyps :
  exists k se, nget 2 (b_conns ex_wstate) = Some k /\ aget (k_cid k) (b_sessions ex_wstate) = Some se /\
               se_will se = Some ex_wmsg /\ k_clean_will k = false /\ ur_delay k se ex_wstate = 5 /\ ur_store k se ex_wstate = true.
Proof. eexists _, _. split; [vm_compute; reflexivity|]. split; [vm_compute; reflexivity|]. vm_compute. repeat split. Qed.

Example ex_will_immediate_hyps :
  exists k se, nget 2 (b_conns ex_wstate3) = Some k /\ aget (k_cid k) (b_sessions ex_wstate3) = Some se /\
               se_will se = Some ex_wmsg3 /\ k_clean_will k = false /\ ur_store k se ex_wstate3 = false.
Proof. eexists _, _. split; [vm_compute; reflexivity|]. split; [vm_compute; reflexivity|]. vm_compute. repeat split. Qed.

(* the socket is lost: nothing yet; 6 s later the will is published once; later sleeps publish nothing more *)
Example ex_delayed_will :
  map count_to_sub [snd (run ex_wstate [EClose 2]); snd (run ex_wstate [EClose 2; ESleep 4000]);
                    snd (run ex_wstate [EClose 2; ESleep 4000; ESleep 2000]);
                    snd (run ex_wstate [EClose 2; ESleep 4000; ESleep 2000; ESleep 10000])] = [0; 0; 1; 1]%nat.
Proof. vm_compute. reflexivity. Qed.

(* the client comes back within the delay and resumes its session: the will is never published *)
Example ex_resume_cancels :
  count_to_sub (snd (run ex_wstate [EClose 2; ESleep 4000; EConnect 3 (ex_connect 5 ex_W false None [PSei 100]);
                                    ESleep 10000; ESleep 10000])) = 0%nat /\
  aget ex_W (b_wills (fst (run ex_wstate [EClose 2]))) <> None /\
  aget ex_W (b_wills (fst (run ex_wstate [EClose 2; ESleep 4000; EConnect 3 (ex_connect 5 ex_W false None [PSei 100])]))) = None.
Proof. vm_compute. repeat split. discriminate. Qed.

(* a clean start discards the session: the pending will is published at once, exactly once *)
Example ex_clean_start_sends :
  count_to_sub (snd (run ex_wstate [EClose 2; ESleep 1000; EConnect 3 (ex_connect 5 ex_W true None []);
                                    ESleep 10000])) = 1%nat.
Proof. vm_compute. reflexivity. Qed.

(* a normal DISCONNECT suppresses the will, DISCONNECT with reason code 4 does not *)
Example ex_disconnect :
  count_to_sub (snd (run ex_wstate [ESend 2 (KDisconnect 0 []); EClose 2; ESleep 10000])) = 0%nat /\
  count_to_sub (snd (run ex_wstate [ESend 2 (KDisconnect 4 []); EClose 2; ESleep 10000])) = 1%nat /\
  count_to_sub (snd (run ex_wstate3 [ESend 2 (KDisconnect 0 []); EClose 2])) = 0%nat /\
  count_to_sub (snd (run ex_wstate3 [EClose 2])) = 1%nat.
Proof. vm_compute. repeat split. Qed.

(* the instrumented run on the whole history: the will is registered once and handed to send_will once *)
Definition ex_whist : list event :=
  ex_sub_events ++ [ex_will_connect; EClose 2; ESleep 4000; ESleep 2000; EConnect 3 (ex_connect 5 ex_W false None [PSei 100]);
                    EClose 3; ESleep 100000].
Example ex_ghost :
  reg_count ex_wmsg ex_whist = 1%nat /\ cnt ex_wmsg (snd (run_w (st_init ex_cfg no_hooks []) ex_whist)) = 1%nat.
Proof. vm_compute. split; reflexivity. Qed.

(* the protocol-error DISCONNECT (session expiry asked for after CONNECT asked for none) is not recorded: the
   handler returns before it stores anything, the will stays armed and is published when the socket goes *)
Definition ex_will_connect0 : event := EConnect 2 (ex_connect 5 ex_W true (Some (ex_will [9] [])) []).
Definition ex_wstate0 : st := fst (run (st_init ex_cfg no_hooks []) (ex_sub_events ++ [ex_will_connect0])).
Example ex_disconnect_not_recorded :
  (exists k, nget 2 (b_conns ex_wstate0) = Some k /\ disc_recorded k [PSei 10] ex_wstate0 = false) /\
  count_to_sub (snd (run ex_wstate0 [ESend 2 (KDisconnect 0 [PSei 10]); EClose 2])) = 1%nat.
Proof. split; [eexists; split; vm_compute; reflexivity|vm_compute; reflexivity]. Qed.
