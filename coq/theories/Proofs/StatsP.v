(* Proofs for property C20 (statistics): conservation laws of the model of server/stats.go (Model/Stats.v, the repaired
   code of /repo af01428) for ALL event lists, and the agreement of the model - driven by the broker's reporting
   discipline C20O.c20_calls - with the ground truth C20O.c20_truth for ALL logs. *)
From Coq Require Import List NArith ZArith Bool Lia.
Import ListNotations.
From GM Require Import Model.Stats Oracle.C20O.
Open Scope N_scope.



Lemma sts_M64_pos : 0 < sts_M64. Proof. reflexivity. Qed.
Lemma sts_M64_nz : sts_M64 <> 0. Proof. discriminate. Qed.

(* ---------- the client table ---------- *)
Lemma sts_sum_upd_exact : forall (g : sts_vec -> sts_vec) (k : sts_ctr) (dlt : N) (c : N) (l : sts_tab),
  (forall v, g v k = v k + dlt) -> sts_sum (sts_upd c g l) k = sts_sum l k + dlt.
Proof.
  intros g k dlt c l Hg. induction l as [|[c' v] r IH]; simpl.
  - rewrite Hg. unfold sts_zero. lia.
  - destruct (c =? c'); simpl; [rewrite Hg | rewrite IH]; lia.
Qed.

Lemma sts_sum_upd_mod : forall (g : sts_vec -> sts_vec) (k : sts_ctr) (dlt : N) (c : N) (l : sts_tab),
  (forall v, g v k = (v k + dlt) mod sts_M64) ->
  (sts_sum (sts_upd c g l) k) mod sts_M64 = (sts_sum l k + dlt) mod sts_M64.
Proof.
  intros g k dlt c l Hg. induction l as [|[c' v] r IH]; simpl.
  - rewrite Hg. unfold sts_zero. rewrite N.add_0_r, N.mod_mod by apply sts_M64_nz. reflexivity.
  - destruct (c =? c'); simpl.
    + rewrite Hg. rewrite N.add_mod_idemp_l by apply sts_M64_nz. f_equal. lia.
    + rewrite <- N.add_mod_idemp_r by apply sts_M64_nz. rewrite IH.
      rewrite N.add_mod_idemp_r by apply sts_M64_nz. f_equal. lia.
Qed.

Lemma sts_sum_del : forall c l k, sts_sum (sts_del c l) k + sts_val c l k = sts_sum l k.
Proof.
  intros c l k. unfold sts_val. induction l as [|[c' v] r IH]; simpl.
  - reflexivity.
  - destruct (c =? c'); simpl; [lia|]. rewrite <- IH. destruct (sts_get c r); lia.
Qed.

(* ---------- the client table: look-up after update / delete ---------- *)
Ltac eqb := repeat match goal with |- context [N.eqb ?a ?b] => destruct (N.eqb_spec a b) end; subst; try congruence.

Lemma sts_val_upd : forall c c' g l k,
  sts_val c' (sts_upd c g l) k = if c =? c' then g (sts_val c l) k else sts_val c' l k.
Proof.
  intros c c' g l k. unfold sts_val. induction l as [|[x v] r IH]; simpl.
  - eqb; try reflexivity.
  - destruct (N.eqb_spec c x); subst; simpl.
    + eqb; try reflexivity.
    + destruct (N.eqb_spec c' x); subst; simpl.
      * eqb; try reflexivity.
      * exact IH.
Qed.

Fixpoint sts_fresh (c : N) (l : sts_tab) : Prop := match l with [] => True | (c', _) :: r => c <> c' /\ sts_fresh c r end.
Fixpoint sts_nodup (l : sts_tab) : Prop := match l with [] => True | (c, _) :: r => sts_fresh c r /\ sts_nodup r end.

Lemma sts_fresh_upd : forall c0 c g l, c0 <> c -> sts_fresh c0 l -> sts_fresh c0 (sts_upd c g l).
Proof.
  intros c0 c g l Hne. induction l as [|[x v] r IH]; simpl; intros H.
  - auto.
  - destruct H as [H1 H2]. destruct (N.eqb_spec c x); subst; simpl; auto.
Qed.
Lemma sts_nodup_upd : forall c g l, sts_nodup l -> sts_nodup (sts_upd c g l).
Proof.
  intros c g l. induction l as [|[x v] r IH]; simpl; intros H.
  - auto.
  - destruct H as [H1 H2]. destruct (N.eqb_spec c x); subst; simpl; auto.
    split; [apply sts_fresh_upd; auto | auto].
Qed.
Lemma sts_fresh_del : forall c0 c l, sts_fresh c0 l -> sts_fresh c0 (sts_del c l).
Proof.
  intros c0 c l. induction l as [|[x v] r IH]; simpl; intros H; auto.
  destruct H as [H1 H2]. destruct (c =? x); simpl; auto.
Qed.
Lemma sts_nodup_del : forall c l, sts_nodup l -> sts_nodup (sts_del c l).
Proof.
  intros c l. induction l as [|[x v] r IH]; simpl; intros H; auto.
  destruct H as [H1 H2]. destruct (c =? x); simpl; auto. split; [apply sts_fresh_del; auto | auto].
Qed.
Lemma sts_get_fresh : forall c l, sts_fresh c l -> sts_get c l = None.
Proof.
  intros c l. induction l as [|[x v] r IH]; simpl; intros H; auto.
  destruct H as [H1 H2]. destruct (N.eqb_spec c x); [congruence | auto].
Qed.
Lemma sts_val_del : forall c c' l k, sts_nodup l ->
  sts_val c' (sts_del c l) k = if c =? c' then 0 else sts_val c' l k.
Proof.
  intros c c' l k. unfold sts_val. induction l as [|[x v] r IH]; simpl; intros H.
  - destruct (c =? c'); reflexivity.
  - destruct H as [H1 H2]. destruct (N.eqb_spec c x); subst; simpl.
    + destruct (N.eqb_spec x c'); subst.
      * rewrite sts_get_fresh by assumption. reflexivity.
      * destruct (N.eqb_spec c' x); [congruence | reflexivity].
    + destruct (N.eqb_spec c' x); subst.
      * destruct (N.eqb_spec c x); [congruence | reflexivity].
      * apply IH; assumption.
Qed.

(* ---------- uint64 arithmetic ---------- *)
Ltac Zify.zify_post_hook ::= Z.div_mod_to_equations.
Lemma sts_wadd_small : forall v d, v + d < sts_M64 -> (v + d) mod sts_M64 = v + d.
Proof. intros. apply N.mod_small. assumption. Qed.
Lemma sts_wsub_exact : forall v d, d <= v -> v < sts_M64 -> (v + sts_neg d) mod sts_M64 = v - d.
Proof.
  intros v d H1 H2. unfold sts_neg.
  rewrite (N.mod_small d) by lia.
  destruct (N.eq_dec d 0) as [->|Hd].
  - rewrite N.sub_0_r, N.mod_same by apply sts_M64_nz. rewrite N.add_0_r, N.sub_0_r. apply N.mod_small; assumption.
  - rewrite (N.mod_small (sts_M64 - d)) by lia.
    replace (v + (sts_M64 - d)) with ((v - d) + 1 * sts_M64) by lia.
    rewrite N.mod_add by apply sts_M64_nz. apply N.mod_small. lia.
Qed.


Ltac eqdec := repeat match goal with |- context [sts_ctr_eq_dec ?a ?b] => destruct (sts_ctr_eq_dec a b); try discriminate end.

Lemma sts_run_from_ind : forall (P : sts_state -> Prop),
  (forall s e, P s -> P (sts_step s e)) -> forall evs s, P s -> P (sts_run_from s evs).
Proof. intros P Hs. induction evs as [|e r IH]; intros s H; simpl; [exact H|]. apply IH, Hs, H. Qed.
Lemma sts_run_from_app : forall l1 l2 s, sts_run_from s (l1 ++ l2) = sts_run_from (sts_run_from s l1) l2.
Proof. intros. unfold sts_run_from. apply fold_left_app. Qed.

Definition sts_total (s : sts_state) (k : sts_ctr) : N := sts_sum (sts_clients s) k + sts_gone s k.

(* the counters (everything but the two gauges) *)
Definition sts_is_gauge (k : sts_ctr) : bool := match k with StsInflight | StsQueued => true | _ => false end.
Definition sts_exact (k : sts_ctr) : bool := negb (sts_is_gauge k).
Lemma sts_exact_not_gauge : forall k, sts_exact k = true -> StsQueued <> k /\ StsInflight <> k.
Proof. intros k H; split; intro; subst; discriminate. Qed.

Lemma sts_add_at : forall v k d k', sts_add v k d k' = v k' + (if sts_ctr_eq_dec k k' then d else 0).
Proof. intros. unfold sts_add. destruct (sts_ctr_eq_dec k k'); lia. Qed.
Lemma sts_wadd_other : forall v k d k', k <> k' -> sts_wadd v k d k' = v k'.
Proof. intros. unfold sts_wadd. destruct (sts_ctr_eq_dec k k'); congruence. Qed.
Lemma sts_wadd_same : forall v k d, sts_wadd v k d k = (v k + d) mod sts_M64.
Proof. intros. unfold sts_wadd. destruct (sts_ctr_eq_dec k k); congruence. Qed.

Definition sts_pdelta (d : sts_dir) (t : sts_ptype) (sz : N) (k : sts_ctr) : N :=
  (if sts_ctr_eq_dec (StsBytes d t) k then sz else 0) + (if sts_ctr_eq_dec (StsCount d t) k then 1 else 0) +
  (if sts_ctr_eq_dec (StsBytesTotal d) k then sz else 0) + (if sts_ctr_eq_dec (StsCountTotal d) k then 1 else 0).
Lemma sts_packet_add_at : forall v d t sz k, sts_packet_add v d t sz k = v k + sts_pdelta d t sz k.
Proof. intros. unfold sts_packet_add, sts_pdelta. rewrite !sts_add_at. lia. Qed.

(* the global block after sessionTerminated *)
Definition sts_term_glob (s : sts_state) (c : N) : sts_vec :=
  match sts_get c (sts_clients s) with
  | Some v => sts_wsub (sts_wsub (sts_glob s) StsQueued (v StsQueued)) StsInflight (v StsInflight)
  | None => sts_glob s
  end.
Lemma sts_term_glob_counter : forall s c k, sts_exact k = true -> sts_term_glob s c k = sts_glob s k.
Proof.
  intros s c k Hk. apply sts_exact_not_gauge in Hk. destruct Hk. unfold sts_term_glob.
  destruct (sts_get c (sts_clients s)); [|reflexivity]. unfold sts_wsub. rewrite !sts_wadd_other by assumption. reflexivity.
Qed.
Lemma sts_term_glob_gauge : forall s c k, sts_is_gauge k = true ->
  sts_glob s k < sts_M64 -> sts_term_glob s c k = (sts_glob s k + sts_neg (sts_val c (sts_clients s) k)) mod sts_M64.
Proof.
  intros s c k Hk Hlt. unfold sts_term_glob, sts_val. destruct (sts_get c (sts_clients s)) as [v|].
  - unfold sts_wsub. destruct k; try discriminate.
    + rewrite sts_wadd_same. rewrite sts_wadd_other by discriminate. reflexivity.
    + rewrite sts_wadd_other by discriminate. rewrite sts_wadd_same. reflexivity.
  - unfold sts_zero. change (sts_neg 0) with 0. rewrite N.add_0_r. symmetry. apply N.mod_small. assumption.
Qed.

(* ---------- every global counter = sum over the live entries + the deleted ones ---------- *)
Lemma sts_both_exact : forall s c f g k dlt,
  (forall v, f v k = v k + dlt) -> (forall v, g v k = v k + dlt) ->
  sts_glob s k = sts_total s k -> sts_glob (sts_both s c f g) k = sts_total (sts_both s c f g) k.
Proof.
  intros s c f g k dlt Hf Hg H. unfold sts_total, sts_both; simpl.
  rewrite Hf, (sts_sum_upd_exact g k dlt) by assumption. unfold sts_total in H. lia.
Qed.

Theorem sts_global_is_sum_step : forall s e k, sts_exact k = true ->
  sts_glob s k = sts_total s k -> sts_glob (sts_step s e) k = sts_total (sts_step s e) k.
Proof.
  intros s e k Hk H. pose proof (sts_exact_not_gauge k Hk) as [Hq Hi].
  destruct e; cbn [sts_step];
    try (eapply sts_both_exact; [| |exact H]; intros; rewrite ?sts_packet_add_at; unfold sts_dropped_add; rewrite ?sts_add_at; reflexivity);
    try exact H.
  - eapply (sts_both_exact _ _ _ _ _ 0); [| |exact H]; intros; rewrite sts_wadd_other; try lia; assumption.
  - destruct (_ =? 0); eapply (sts_both_exact _ _ _ _ _ 0); try exact H; intros; try lia;
      unfold sts_wsub; rewrite sts_wadd_other; try lia; assumption.
  - eapply (sts_both_exact _ _ _ _ _ 0); [| |exact H]; intros; rewrite sts_wadd_other; try lia; assumption.
  - destruct (_ =? 0); eapply (sts_both_exact _ _ _ _ _ 0); try exact H; intros; try lia;
      unfold sts_wsub; rewrite sts_wadd_other; try lia; assumption.
  - (* terminated *)
    change (sts_term_glob s c k = sts_sum (sts_del c (sts_clients s)) k + (sts_gone s k + sts_val c (sts_clients s) k)).
    rewrite sts_term_glob_counter by assumption. unfold sts_total in H. rewrite H.
    pose proof (sts_sum_del c (sts_clients s) k). lia.
Qed.

Theorem sts_global_is_sum : forall evs k, sts_exact k = true -> sts_glob (sts_run evs) k = sts_total (sts_run evs) k.
Proof.
  intros evs k Hk. unfold sts_run.
  apply (sts_run_from_ind (fun s => sts_glob s k = sts_total s k)); [|reflexivity].
  intros; apply sts_global_is_sum_step; assumption.
Qed.

(* ---------- the global gauges = sum over the LIVE entries, as uint64 ---------- *)
Lemma sts_neg_cancel : forall v, (v + sts_neg v) mod sts_M64 = 0.
Proof.
  intros v. unfold sts_neg. pose proof sts_M64_nz as Hnz.
  pose proof (N.mod_upper_bound v sts_M64 Hnz) as Hb.
  pose proof (N.div_mod v sts_M64 Hnz) as Hv.
  set (r := v mod sts_M64) in *. set (q := v / sts_M64) in *.
  destruct (N.eq_dec r 0) as [E|E].
  - rewrite E, N.sub_0_r, N.mod_same, N.add_0_r by assumption. rewrite Hv, E, N.add_0_r, N.mul_comm. apply N.mod_mul; assumption.
  - rewrite (N.mod_small (sts_M64 - r)) by (clear Hv; lia).
    replace (v + (sts_M64 - r)) with ((q + 1) * sts_M64).
    + apply N.mod_mul; assumption.
    + rewrite Hv, N.mul_add_distr_r, N.mul_1_l, (N.mul_comm q). clear Hv. lia.
Qed.
Lemma sts_mod_sub : forall a v, v <= a -> (a mod sts_M64 + sts_neg v) mod sts_M64 = (a - v) mod sts_M64.
Proof.
  intros a v H. pose proof sts_M64_nz as Hnz. rewrite N.add_mod_idemp_l by assumption.
  replace (a + sts_neg v) with ((a - v) + (v + sts_neg v)) by lia.
  rewrite N.add_mod by assumption. rewrite sts_neg_cancel, N.add_0_r. apply N.mod_mod; assumption.
Qed.

Lemma sts_both_mod : forall s c f g k dlt,
  (forall v, f v k = (v k + dlt) mod sts_M64) -> (forall v, g v k = (v k + dlt) mod sts_M64) ->
  sts_glob s k = sts_sum (sts_clients s) k mod sts_M64 ->
  sts_glob (sts_both s c f g) k = sts_sum (sts_clients (sts_both s c f g)) k mod sts_M64.
Proof.
  intros s c f g k dlt Hf Hg H. unfold sts_both; simpl.
  rewrite Hf, H. rewrite N.add_mod_idemp_l by apply sts_M64_nz.
  rewrite (sts_sum_upd_mod g k dlt) by assumption. reflexivity.
Qed.
Lemma sts_both_same : forall s c f g k,
  (forall v, f v k = v k) -> (forall v, g v k = v k) ->
  sts_glob s k = sts_sum (sts_clients s) k mod sts_M64 ->
  sts_glob (sts_both s c f g) k = sts_sum (sts_clients (sts_both s c f g)) k mod sts_M64.
Proof.
  intros s c f g k Hf Hg H. unfold sts_both; simpl.
  rewrite Hf, (sts_sum_upd_exact g k 0), N.add_0_r by (intros; rewrite Hg; lia). exact H.
Qed.

Lemma sts_gauge_sum_step : forall s e k, sts_is_gauge k = true ->
  sts_glob s k = sts_sum (sts_clients s) k mod sts_M64 ->
  sts_glob (sts_step s e) k = sts_sum (sts_clients (sts_step s e)) k mod sts_M64.
Proof.
  intros s e k Hk H.
  assert (Hgk : k = StsQueued \/ k = StsInflight) by (destruct k; try discriminate; auto).
  destruct e; cbn [sts_step]; try exact H.
  - apply sts_both_same; try exact H; intros; rewrite sts_packet_add_at; unfold sts_pdelta; destruct Hgk as [-> | ->]; eqdec; lia.
  - apply sts_both_same; try exact H; intros; rewrite sts_packet_add_at; unfold sts_pdelta; destruct Hgk as [-> | ->]; eqdec; lia.
  - apply sts_both_same; try exact H; intros; rewrite sts_add_at; destruct Hgk as [-> | ->]; eqdec; lia.
  - apply sts_both_same; try exact H; intros; rewrite sts_add_at; destruct Hgk as [-> | ->]; eqdec; lia.
  - apply sts_both_same; try exact H; intros; unfold sts_dropped_add; rewrite sts_add_at; destruct Hgk as [-> | ->]; eqdec; lia.
  - destruct Hgk as [-> | ->].
    + apply sts_both_same; try exact H; intros; apply sts_wadd_other; discriminate.
    + apply (sts_both_mod _ _ _ _ _ delta); try exact H; intros; apply sts_wadd_same.
  - destruct (_ =? 0).
    + apply sts_both_same; try exact H; reflexivity.
    + destruct Hgk as [-> | ->].
      * apply sts_both_same; try exact H; intros; unfold sts_wsub; apply sts_wadd_other; discriminate.
      * apply (sts_both_mod _ _ _ _ _ (sts_neg delta)); try exact H; intros; unfold sts_wsub; apply sts_wadd_same.
  - destruct Hgk as [-> | ->].
    + apply (sts_both_mod _ _ _ _ _ delta); try exact H; intros; apply sts_wadd_same.
    + apply sts_both_same; try exact H; intros; apply sts_wadd_other; discriminate.
  - destruct (_ =? 0).
    + apply sts_both_same; try exact H; reflexivity.
    + destruct Hgk as [-> | ->].
      * apply (sts_both_mod _ _ _ _ _ (sts_neg delta)); try exact H; intros; unfold sts_wsub; apply sts_wadd_same.
      * apply sts_both_same; try exact H; intros; unfold sts_wsub; apply sts_wadd_other; discriminate.
  - (* terminated: the entry's share leaves the global gauge *)
    change (sts_term_glob s c k = sts_sum (sts_del c (sts_clients s)) k mod sts_M64).
    rewrite sts_term_glob_gauge; [|assumption|rewrite H; apply N.mod_upper_bound, sts_M64_nz].
    rewrite H. pose proof (sts_sum_del c (sts_clients s) k) as Hd.
    rewrite sts_mod_sub by lia. f_equal. lia.
Qed.

(* QueuedCurrent / InflightCurrent: global = sum over the live sessions' entries (uint64 arithmetic), for ALL histories *)
Theorem sts_gauge_live_sum : forall evs k, sts_is_gauge k = true ->
  sts_glob (sts_run evs) k = sts_sum (sts_clients (sts_run evs)) k mod sts_M64.
Proof.
  intros evs k Hk. unfold sts_run.
  apply (sts_run_from_ind (fun s => sts_glob s k = sts_sum (sts_clients s) k mod sts_M64)); [|reflexivity].
  intros; apply sts_gauge_sum_step; assumption.
Qed.

(* ---------- the view: copy() hands out every field ---------- *)
Theorem sts_view_exact : forall evs k, stv_glob (sts_view_of (sts_run evs)) k = sts_glob (sts_run evs) k.
Proof. reflexivity. Qed.
Lemma sts_val_copy : forall c l k,
  sts_val c (map (fun e => (fst e, sts_copy (snd e))) l) k = sts_val c l k.
Proof.
  intros c l k. unfold sts_val. induction l as [|[x v] r IH]; simpl; [reflexivity|].
  destruct (c =? x); [reflexivity | exact IH].
Qed.
Theorem sts_view_client_exact : forall evs c k,
  sts_val c (stv_clients (sts_view_of (sts_run evs))) k = sts_val c (sts_clients (sts_run evs)) k.
Proof. intros. simpl. apply sts_val_copy. Qed.


Lemma sts_nodup_step : forall s e, sts_nodup (sts_clients s) -> sts_nodup (sts_clients (sts_step s e)).
Proof.
  intros s e H. destruct e; cbn [sts_step]; try exact H;
    try (destruct (_ =? 0)); simpl; try apply sts_nodup_upd; try apply sts_nodup_del; exact H.
Qed.

(* ---------- per-client gauges: the ideal (unbounded, signed) reading of the calls ---------- *)
Definition sts_gauge_delta (gk : sts_ctr) (e : sts_event) : option (N * Z) :=
  match e, gk with
  | StsAddQueueLen c d, StsQueued => Some (c, Z.of_N d)
  | StsDecQueueLen c d, StsQueued => Some (c, (- Z.of_N d)%Z)
  | StsAddInflight c d, StsInflight => Some (c, Z.of_N d)
  | StsDecInflight c d, StsInflight => Some (c, (- Z.of_N d)%Z)
  | _, _ => None
  end.
(* adds minus decs since the client's entry was (re)created *)
Definition sts_ideal_step (gk : sts_ctr) (id : N -> Z) (e : sts_event) : N -> Z :=
  match e with
  | StsSessionTerminated c _ => fun c' => if c =? c' then 0%Z else id c'
  | _ => match sts_gauge_delta gk e with
         | Some (c, d) => fun c' => if c =? c' then (id c' + d)%Z else id c'
         | None => id
         end
  end.
Definition sts_ideal_run (gk : sts_ctr) (id : N -> Z) (evs : list sts_event) : N -> Z := fold_left (sts_ideal_step gk) evs id.
(* well-formed: no decrement below zero (each dec is preceded by its add), no overflow *)
Fixpoint sts_ideal_wf (gk : sts_ctr) (id : N -> Z) (evs : list sts_event) : Prop :=
  match evs with
  | [] => True
  | e :: r => let id' := sts_ideal_step gk id e in
              (forall c, (0 <= id' c < Z.of_N sts_M64)%Z) /\ sts_ideal_wf gk id' r
  end.

Lemma sts_client_gauge_step : forall gk, (gk = StsQueued \/ gk = StsInflight) -> forall s id e,
  sts_nodup (sts_clients s) ->
  (forall c, Z.of_N (sts_val c (sts_clients s) gk) = id c) ->
  (forall c, (0 <= id c < Z.of_N sts_M64)%Z) ->
  (forall c, (0 <= sts_ideal_step gk id e c < Z.of_N sts_M64)%Z) ->
  forall c, Z.of_N (sts_val c (sts_clients (sts_step s e)) gk) = sts_ideal_step gk id e c.
Proof.
  intros gk Hgk s id e Hnd Hv Hb Hb' c0.
  assert (Hsame : forall c (g : sts_vec -> sts_vec), (forall v, g v gk = v gk) ->
            Z.of_N (sts_val c0 (sts_upd c g (sts_clients s)) gk) = id c0).
  { intros c g Hg. rewrite sts_val_upd. destruct (c =? c0) eqn:E; [rewrite Hg; apply N.eqb_eq in E; subst|]; apply Hv. }
  destruct e; cbn [sts_step sts_both sts_clients sts_set_conn].
  - unfold sts_ideal_step; destruct Hgk as [-> | ->]; simpl; apply Hsame; intros; rewrite sts_packet_add_at; unfold sts_pdelta; eqdec; lia.
  - unfold sts_ideal_step; destruct Hgk as [-> | ->]; simpl; apply Hsame; intros; rewrite sts_packet_add_at; unfold sts_pdelta; eqdec; lia.
  - unfold sts_ideal_step; destruct Hgk as [-> | ->]; simpl; apply Hsame; intros; rewrite sts_add_at; eqdec; lia.
  - unfold sts_ideal_step; destruct Hgk as [-> | ->]; simpl; apply Hsame; intros; rewrite sts_add_at; eqdec; lia.
  - unfold sts_ideal_step; destruct Hgk as [-> | ->]; simpl; apply Hsame; intros; unfold sts_dropped_add; rewrite sts_add_at; eqdec; lia.
  - (* addInflight *)
    destruct Hgk as [-> | ->].
    + unfold sts_ideal_step; simpl. apply Hsame; intros; apply sts_wadd_other; discriminate.
    + specialize (Hb' c0). unfold sts_ideal_step in *; simpl in *. rewrite sts_val_upd.
      destruct (N.eqb_spec c c0); subst; [|apply Hv]. 
      rewrite sts_wadd_same. rewrite sts_wadd_small; [rewrite N2Z.inj_add, Hv; reflexivity|].
      rewrite <- Hv in Hb'. unfold sts_M64 in *. lia.
  - (* decInflight *)
    destruct Hgk as [-> | ->].
    + unfold sts_ideal_step; simpl. destruct (_ =? 0); simpl; apply Hsame; intros; try reflexivity;
        unfold sts_wsub; apply sts_wadd_other; discriminate.
    + pose proof (Hb' c) as Hc. pose proof (Hb c) as Hc0. unfold sts_ideal_step in *; simpl in *.
      rewrite N.eqb_refl in Hc. rewrite <- Hv in Hc, Hc0.
      destruct (N.eqb_spec (sts_val c (sts_clients s) StsInflight) 0) as [E|E]; simpl; rewrite sts_val_upd.
      * destruct (N.eqb_spec c c0); subst; [|apply Hv]. rewrite <- Hv. rewrite E in *. simpl in *. lia.
      * destruct (N.eqb_spec c c0); subst; [|apply Hv]. unfold sts_wsub. rewrite sts_wadd_same.
        rewrite sts_wsub_exact by (unfold sts_M64; lia). rewrite <- Hv. lia.
  - (* addQueueLen *)
    destruct Hgk as [-> | ->].
    + specialize (Hb' c0). unfold sts_ideal_step in *; simpl in *. rewrite sts_val_upd.
      destruct (N.eqb_spec c c0); subst; [|apply Hv]. 
      rewrite sts_wadd_same. rewrite sts_wadd_small; [rewrite N2Z.inj_add, Hv; reflexivity|].
      rewrite <- Hv in Hb'. unfold sts_M64 in *. lia.
    + unfold sts_ideal_step; simpl. apply Hsame; intros; apply sts_wadd_other; discriminate.
  - (* decQueueLen *)
    destruct Hgk as [-> | ->].
    + pose proof (Hb' c) as Hc. pose proof (Hb c) as Hc0. unfold sts_ideal_step in *; simpl in *.
      rewrite N.eqb_refl in Hc. rewrite <- Hv in Hc, Hc0.
      destruct (N.eqb_spec (sts_val c (sts_clients s) StsQueued) 0) as [E|E]; simpl; rewrite sts_val_upd.
      * destruct (N.eqb_spec c c0); subst; [|apply Hv]. rewrite <- Hv. rewrite E in *. simpl in *. lia.
      * destruct (N.eqb_spec c c0); subst; [|apply Hv]. unfold sts_wsub. rewrite sts_wadd_same.
        rewrite sts_wsub_exact by (unfold sts_M64; lia). rewrite <- Hv. lia.
    + unfold sts_ideal_step; simpl. destruct (_ =? 0); simpl; apply Hsame; intros; try reflexivity;
        unfold sts_wsub; apply sts_wadd_other; discriminate.
  - unfold sts_ideal_step; destruct Hgk as [-> | ->]; simpl; apply Hv.
  - unfold sts_ideal_step; destruct Hgk as [-> | ->]; simpl; apply Hv.
  - unfold sts_ideal_step; destruct Hgk as [-> | ->]; simpl; apply Hv.
  - (* terminated *)
    unfold sts_ideal_step. simpl. rewrite sts_val_del by assumption.
    destruct (c =? c0); [reflexivity | apply Hv].
Qed.

Theorem sts_client_gauge_exact_from : forall gk, (gk = StsQueued \/ gk = StsInflight) -> forall evs s id,
  sts_nodup (sts_clients s) ->
  (forall c, Z.of_N (sts_val c (sts_clients s) gk) = id c) ->
  (forall c, (0 <= id c < Z.of_N sts_M64)%Z) ->
  sts_ideal_wf gk id evs ->
  forall c, Z.of_N (sts_val c (sts_clients (sts_run_from s evs)) gk) = sts_ideal_run gk id evs c.
Proof.
  intros gk Hgk. induction evs as [|e r IH]; intros s id Hnd Hv Hb Hwf c; simpl.
  - apply Hv.
  - destruct Hwf as [Hb' Hwf]. apply IH; auto.
    + apply sts_nodup_step; assumption.
    + intros. apply sts_client_gauge_step; auto.
Qed.

(* a per-client gauge is exactly adds - decs, hence never wraps, whenever no call decrements below zero *)
Theorem sts_client_gauge_exact : forall gk evs, (gk = StsQueued \/ gk = StsInflight) ->
  sts_ideal_wf gk (fun _ => 0%Z) evs ->
  forall c, Z.of_N (sts_val c (sts_clients (sts_run evs)) gk) = sts_ideal_run gk (fun _ => 0%Z) evs c /\
            (0 <= sts_ideal_run gk (fun _ => 0%Z) evs c)%Z.
Proof.
  intros gk evs Hgk Hwf c.
  assert (E : Z.of_N (sts_val c (sts_clients (sts_run evs)) gk) = sts_ideal_run gk (fun _ => 0%Z) evs c).
  { unfold sts_run. apply sts_client_gauge_exact_from; auto.
    - exact I.
    - intros; unfold sts_M64; lia. }
  split; [exact E | rewrite <- E; lia].
Qed.




(* ---------- the global gauge on well-formed histories: exactly the total of adds - decs - shares of ended sessions,
   hence never wrapped ---------- *)
Definition sts_H63 : Z := 9223372036854775808%Z.
(* the ideal total: every add / dec of a client moves it; a terminated client takes its balance with it *)
Definition sts_total_step (gk : sts_ctr) (id : N -> Z) (tot : Z) (e : sts_event) : Z :=
  match e with
  | StsSessionTerminated c _ => (tot - id c)%Z
  | _ => match sts_gauge_delta gk e with Some (_, d) => (tot + d)%Z | None => tot end
  end.
(* well-formed: no client balance below zero (each dec preceded by its add) and the total below 2^63 at every prefix *)
Fixpoint sts_gauge_wf (gk : sts_ctr) (id : N -> Z) (tot : Z) (evs : list sts_event) : Prop :=
  match evs with
  | [] => True
  | e :: r => let id' := sts_ideal_step gk id e in let tot' := sts_total_step gk id tot e in
              (forall c, (0 <= id' c < Z.of_N sts_M64)%Z) /\ (0 <= tot' < sts_H63)%Z /\ sts_gauge_wf gk id' tot' r
  end.
Fixpoint sts_total_run (gk : sts_ctr) (id : N -> Z) (tot : Z) (evs : list sts_event) : Z :=
  match evs with [] => tot | e :: r => sts_total_run gk (sts_ideal_step gk id e) (sts_total_step gk id tot e) r end.

Lemma sts_glob_gauge_step : forall gk, (gk = StsQueued \/ gk = StsInflight) -> forall s id tot e,
  (forall c, Z.of_N (sts_val c (sts_clients s) gk) = id c) ->
  (forall c, (0 <= id c < Z.of_N sts_M64)%Z) ->
  Z.of_N (sts_glob s gk) = tot -> (0 <= tot < sts_H63)%Z ->
  (forall c, (0 <= sts_ideal_step gk id e c < Z.of_N sts_M64)%Z) ->
  (0 <= sts_total_step gk id tot e < sts_H63)%Z ->
  Z.of_N (sts_glob (sts_step s e) gk) = sts_total_step gk id tot e.
Proof.
  intros gk Hgk s id tot e Hv Hb Hg Ht Hb' Ht'.
  assert (Hlt : sts_glob s gk < sts_M64) by (unfold sts_M64, sts_H63 in *; lia).
  destruct e; cbn [sts_step sts_both sts_glob sts_set_conn].
  - unfold sts_total_step; destruct Hgk as [-> | ->]; simpl; rewrite sts_packet_add_at; unfold sts_pdelta; eqdec; lia.
  - unfold sts_total_step; destruct Hgk as [-> | ->]; simpl; rewrite sts_packet_add_at; unfold sts_pdelta; eqdec; lia.
  - unfold sts_total_step; destruct Hgk as [-> | ->]; simpl; rewrite sts_add_at; eqdec; lia.
  - unfold sts_total_step; destruct Hgk as [-> | ->]; simpl; rewrite sts_add_at; eqdec; lia.
  - unfold sts_total_step; destruct Hgk as [-> | ->]; simpl; unfold sts_dropped_add; rewrite sts_add_at; eqdec; lia.
  - (* addInflight *)
    unfold sts_total_step in *; destruct Hgk as [-> | ->]; simpl in *.
    + rewrite sts_wadd_other by discriminate. exact Hg.
    + rewrite sts_wadd_same, sts_wadd_small by (unfold sts_M64, sts_H63 in *; lia). lia.
  - (* decInflight *)
    unfold sts_total_step in *; destruct Hgk as [-> | ->]; simpl in *.
    + destruct (_ =? 0); simpl; [exact Hg|]. unfold sts_wsub. rewrite sts_wadd_other by discriminate. exact Hg.
    + pose proof (Hb' c) as Hc. unfold sts_ideal_step in Hc; simpl in Hc. rewrite N.eqb_refl, <- Hv in Hc.
      destruct (N.eqb_spec (sts_val c (sts_clients s) StsInflight) 0) as [E|E]; simpl.
      * rewrite E in Hc. simpl in Hc. lia.
      * unfold sts_wsub. rewrite sts_wadd_same, sts_wsub_exact by (unfold sts_M64, sts_H63 in *; lia). lia.
  - (* addQueueLen *)
    unfold sts_total_step in *; destruct Hgk as [-> | ->]; simpl in *.
    + rewrite sts_wadd_same, sts_wadd_small by (unfold sts_M64, sts_H63 in *; lia). lia.
    + rewrite sts_wadd_other by discriminate. exact Hg.
  - (* decQueueLen *)
    unfold sts_total_step in *; destruct Hgk as [-> | ->]; simpl in *.
    + pose proof (Hb' c) as Hc. unfold sts_ideal_step in Hc; simpl in Hc. rewrite N.eqb_refl, <- Hv in Hc.
      destruct (N.eqb_spec (sts_val c (sts_clients s) StsQueued) 0) as [E|E]; simpl.
      * rewrite E in Hc. simpl in Hc. lia.
      * unfold sts_wsub. rewrite sts_wadd_same, sts_wsub_exact by (unfold sts_M64, sts_H63 in *; lia). lia.
    + destruct (_ =? 0); simpl; [exact Hg|]. unfold sts_wsub. rewrite sts_wadd_other by discriminate. exact Hg.
  - unfold sts_total_step; destruct Hgk as [-> | ->]; simpl; exact Hg.
  - unfold sts_total_step; destruct Hgk as [-> | ->]; simpl; exact Hg.
  - unfold sts_total_step; destruct Hgk as [-> | ->]; simpl; exact Hg.
  - (* terminated *)
    change (Z.of_N (sts_term_glob s c gk) = sts_total_step gk id tot (StsSessionTerminated c r)).
    unfold sts_total_step in *. rewrite <- Hv in *.
    rewrite sts_term_glob_gauge by (destruct Hgk as [-> | ->]; auto).
    rewrite sts_wsub_exact by (unfold sts_M64, sts_H63 in *; lia). lia.
Qed.

Theorem sts_global_gauge_exact_from : forall gk, (gk = StsQueued \/ gk = StsInflight) -> forall evs s id tot,
  sts_nodup (sts_clients s) ->
  (forall c, Z.of_N (sts_val c (sts_clients s) gk) = id c) ->
  (forall c, (0 <= id c < Z.of_N sts_M64)%Z) ->
  Z.of_N (sts_glob s gk) = tot -> (0 <= tot < sts_H63)%Z ->
  sts_gauge_wf gk id tot evs ->
  Z.of_N (sts_glob (sts_run_from s evs) gk) = sts_total_run gk id tot evs /\ (0 <= sts_total_run gk id tot evs < sts_H63)%Z.
Proof.
  intros gk Hgk. induction evs as [|e r IH]; intros s id tot Hnd Hv Hb Hg Ht Hwf; simpl.
  - split; assumption.
  - destruct Hwf as [Hb' [Ht' Hwf]]. apply IH; auto.
    + apply sts_nodup_step; assumption.
    + intros. apply sts_client_gauge_step; auto.
    + apply sts_glob_gauge_step; auto.
Qed.

(* for well-formed histories the global gauge IS the ideal total, a number below 2^63: it never wraps *)
Theorem sts_global_gauge_no_wrap : forall gk evs, (gk = StsQueued \/ gk = StsInflight) ->
  sts_gauge_wf gk (fun _ => 0%Z) 0%Z evs ->
  Z.of_N (sts_glob (sts_run evs) gk) = sts_total_run gk (fun _ => 0%Z) 0%Z evs /\
  (Z.of_N (sts_glob (sts_run evs) gk) < sts_H63)%Z.
Proof.
  intros gk evs Hgk Hwf.
  assert (H1 : forall c : N, Z.of_N (sts_val c (sts_clients sts_init) gk) = (fun _ : N => 0%Z) c) by reflexivity.
  assert (H2 : forall c : N, (0 <= (fun _ : N => 0%Z) c < Z.of_N sts_M64)%Z) by (intros; unfold sts_M64; lia).
  assert (H3 : (0 <= 0 < sts_H63)%Z) by (unfold sts_H63; lia).
  destruct (sts_global_gauge_exact_from gk Hgk evs sts_init (fun _ => 0%Z) 0%Z I H1 H2 eq_refl H3 Hwf) as [A B].
  unfold sts_run. split; [exact A | rewrite A; apply B].
Qed.



(* ---------- the model driven by the broker's reporting discipline against the ground truth: counters ---------- *)
Definition c20_msg_key (d : sts_dir) (q : sts_qos) : sts_ctr := match d with StsRx => StsMsgRecv q | StsTx => StsMsgSent q end.
Definition c20_pkt_delta (d : sts_dir) (t : sts_ptype) (q : sts_qos) (sz : N) (k : sts_ctr) : N :=
  sts_pdelta d t sz k + match t with StsPublish => if sts_ctr_eq_dec (c20_msg_key d q) k then 1 else 0 | _ => 0 end.
Lemma c20_pkt_at : forall v d t q sz k, c20_pkt v d t q sz k = v k + c20_pkt_delta d t q sz k.
Proof.
  intros. unfold c20_pkt, c20_pkt_delta, c20_msg_key.
  destruct t; rewrite ?sts_add_at, sts_packet_add_at; destruct d; lia.
Qed.

Record c20_rel1 (ms : sts_state) (ts : c20_state) : Prop := {
  r1_nd_m : sts_nodup (sts_clients ms);
  r1_nd_t : sts_nodup (c20_live ts);
  r1_val : forall c k, sts_exact k = true -> sts_val c (sts_clients ms) k = sts_val c (c20_live ts) k;
  r1_gone : forall k, sts_exact k = true -> sts_gone ms k = c20_ended ts k;
  r1_glob : forall k, sts_exact k = true -> sts_glob ms k = sts_sum (c20_live ts) k + c20_ended ts k
}.

(* one statsManager call that changes client c's entry by g and the global block by f, against a truth update h *)
Lemma c20_rel1_both : forall ms ts c f g h (dg : sts_ctr -> N),
  c20_rel1 ms ts ->
  (forall v k, sts_exact k = true -> g v k = v k + dg k) ->
  (forall v k, sts_exact k = true -> f v k = v k + dg k) ->
  (forall v k, sts_exact k = true -> h v k = v k + dg k) ->
  c20_rel1 (sts_both ms c f g) (c20_on_client ts c h).
Proof.
  intros ms ts c f g h dg [A B C D E] Hg Hf Hh.
  constructor; simpl.
  - apply sts_nodup_upd; assumption.
  - apply sts_nodup_upd; assumption.
  - intros c' k Hk. rewrite !sts_val_upd. destruct (c =? c'); [|apply C; assumption].
    rewrite Hg, Hh by auto. rewrite C by assumption. reflexivity.
  - exact D.
  - intros k Hk. rewrite Hf by assumption. rewrite (sts_sum_upd_exact h k (dg k)) by (intros; apply Hh; assumption).
    rewrite E by assumption. lia.
Qed.
(* the truth's entry changes at fields outside the counters (gauges), the model is not called or called on gauges only *)
Lemma c20_rel1_truth_only : forall ms ts c h,
  c20_rel1 ms ts -> (forall v k, sts_exact k = true -> h v k = v k) -> c20_rel1 ms (c20_on_client ts c h).
Proof.
  intros ms ts c h [A B C D E] Hh.
  constructor; simpl; auto.
  - apply sts_nodup_upd; assumption.
  - intros c' k Hk. rewrite sts_val_upd. destruct (c =? c') eqn:Ec; [|apply C; assumption].
    apply N.eqb_eq in Ec; subst. rewrite Hh by auto. apply C; assumption.
  - intros k Hk. rewrite (sts_sum_upd_exact h k 0) by (intros; rewrite Hh by assumption; lia). rewrite E by assumption. lia.
Qed.
Lemma c20_rel1_model_only : forall ms ts c f g,
  c20_rel1 ms ts -> (forall v k, sts_exact k = true -> f v k = v k) -> (forall v k, sts_exact k = true -> g v k = v k) ->
  c20_rel1 (sts_both ms c f g) ts.
Proof.
  intros ms ts c f g [A B C D E] Hf Hg.
  constructor; simpl; auto.
  - apply sts_nodup_upd; assumption.
  - intros c' k Hk. rewrite sts_val_upd. destruct (c =? c') eqn:Ec; [|apply C; assumption].
    apply N.eqb_eq in Ec; subst. rewrite Hg by assumption. apply C; assumption.
  - intros k Hk. rewrite Hf by assumption. apply E; assumption.
Qed.
Lemma c20_rel1_conn : forall ms ts cv, c20_rel1 ms ts -> c20_rel1 (sts_set_conn ms cv) ts.
Proof. intros ms ts cv [A B C D E]. constructor; simpl; auto. Qed.

Lemma c20_gauge_key_not_ok : forall k, sts_exact k = true -> k <> StsQueued /\ k <> StsInflight.
Proof. intros k H; split; intro; subst; discriminate. Qed.

Lemma c20_rel1_gauge_calls : forall ms ts c (evs : list sts_event),
  (forall e, In e evs -> exists d, e = StsAddInflight c d \/ e = StsDecInflight c d \/ e = StsAddQueueLen c d \/ e = StsDecQueueLen c d) ->
  c20_rel1 ms ts -> c20_rel1 (sts_run_from ms evs) ts.
Proof.
  intros ms ts c evs. revert ms. induction evs as [|e r IH]; intros ms He H; simpl; [exact H|].
  apply IH; [intros; apply He; right; assumption|].
  destruct (He e (or_introl eq_refl)) as [d [-> | [-> | [-> | ->]]]]; cbn [sts_step];
    try (destruct (_ =? 0)); apply c20_rel1_model_only; try exact H; intros v k Hk; try reflexivity;
    unfold sts_wsub; apply sts_wadd_other; apply c20_gauge_key_not_ok in Hk; destruct Hk; congruence.
Qed.

Lemma c20_rel1_end : forall ms ts c r cnt on off,
  c20_rel1 ms ts -> c20_rel1 (sts_step ms (StsSessionTerminated c r)) (c20_end_session ts c cnt on off).
Proof.
  intros ms ts c r cnt on off [A B C D E].
  constructor; cbn [sts_step sts_clients sts_gone sts_glob c20_end_session c20_live c20_ended].
  - apply sts_nodup_del; assumption.
  - apply sts_nodup_del; assumption.
  - intros c' k Hk. rewrite !sts_val_del by assumption. destruct (c =? c'); [reflexivity | apply C; assumption].
  - intros k Hk. rewrite D, C by assumption. reflexivity.
  - intros k Hk. fold (sts_term_glob ms c). rewrite sts_term_glob_counter by assumption.
    rewrite E by assumption. pose proof (sts_sum_del c (c20_live ts) k). lia.
Qed.

Lemma sts_upd_upd : forall c g1 g2 l, sts_upd c g2 (sts_upd c g1 l) = sts_upd c (fun v => g2 (g1 v)) l.
Proof.
  intros c g1 g2 l. induction l as [|[x v] r IH]; simpl.
  - rewrite N.eqb_refl. reflexivity.
  - destruct (c =? x) eqn:E; simpl; rewrite E; [reflexivity | rewrite IH; reflexivity].
Qed.

(* a PUBLISH: messageReceived / messageSent, then packetReceived / packetSent *)
Lemma c20_rel1_publish : forall ms ts c d q sz, c20_rel1 ms ts ->
  c20_rel1 (sts_both (sts_both ms c (fun v => sts_add v (c20_msg_key d q) 1) (fun v => sts_add v (c20_msg_key d q) 1)) c
              (fun v => sts_packet_add v d StsPublish sz) (fun v => sts_packet_add v d StsPublish sz))
           (c20_on_client ts c (fun v => c20_pkt v d StsPublish q sz)).
Proof.
  intros ms ts c d q sz H.
  replace (sts_both (sts_both ms c (fun v => sts_add v (c20_msg_key d q) 1) (fun v => sts_add v (c20_msg_key d q) 1)) c
             (fun v => sts_packet_add v d StsPublish sz) (fun v => sts_packet_add v d StsPublish sz))
    with (sts_both ms c (fun v => sts_packet_add (sts_add v (c20_msg_key d q) 1) d StsPublish sz)
                        (fun v => sts_packet_add (sts_add v (c20_msg_key d q) 1) d StsPublish sz))
    by (unfold sts_both; simpl; rewrite sts_upd_upd; reflexivity).
  apply (c20_rel1_both _ _ _ _ _ _ (c20_pkt_delta d StsPublish q sz)); [exact H | | | ];
    intros v k Hk; rewrite ?c20_pkt_at, ?sts_packet_add_at, ?sts_add_at; unfold c20_pkt_delta; lia.
Qed.

Lemma c20_rel1_step : forall ms ts e, c20_rel1 ms ts ->
  c20_rel1 (sts_run_from ms (c20_calls e)) (c20_step ts e).
Proof.
  intros ms ts e H.
  destruct e; cbn [c20_calls c20_step].
  - (* received *)
    destruct t; simpl;
      try (match goal with |- c20_rel1 (sts_both _ _ (fun v => sts_packet_add v StsRx ?t _) _) _ =>
                 apply (c20_rel1_both _ _ _ _ _ _ (c20_pkt_delta StsRx t q sz)) end; [exact H | | | ];
           intros v k Hk; rewrite ?c20_pkt_at, ?sts_packet_add_at; unfold c20_pkt_delta; lia).
    apply (c20_rel1_publish ms ts c StsRx q sz H).
  - (* sent *)
    destruct t; simpl;
      try (match goal with |- c20_rel1 (sts_both _ _ (fun v => sts_packet_add v StsTx ?t _) _) _ =>
                 apply (c20_rel1_both _ _ _ _ _ _ (c20_pkt_delta StsTx t q sz)) end; [exact H | | | ];
           intros v k Hk; rewrite ?c20_pkt_at, ?sts_packet_add_at; unfold c20_pkt_delta; lia).
    apply (c20_rel1_publish ms ts c StsTx q sz H).
  - (* a PUBLISH over the receive quota is reported like any other *)
    simpl. apply (c20_rel1_publish ms ts c StsRx q sz H).
  - (* dropped *)
    simpl. apply (c20_rel1_both _ _ _ _ _ _ (fun k' => if sts_ctr_eq_dec (StsDropped q k) k' then 1 else 0)); [exact H | | | ];
      intros v k' Hk; unfold sts_dropped_add; rewrite sts_add_at; reflexivity.
  - (* queue *)
    apply c20_rel1_truth_only.
    + apply (c20_rel1_gauge_calls _ _ c); [|exact H].
      unfold sts_notify_queue. intros e He. destruct (0 <? dq)%Z; [|destruct (dq <? 0)%Z]; simpl in He; try tauto;
        destruct He as [<- | []]; eexists; eauto.
    + intros v k Hk. unfold c20_gauge_add. apply c20_gauge_key_not_ok in Hk. destruct Hk.
      destruct (sts_ctr_eq_dec StsQueued k); congruence.
  - (* in flight *)
    apply c20_rel1_truth_only.
    + apply (c20_rel1_gauge_calls _ _ c); [|exact H].
      unfold sts_notify_inflight. intros e He. destruct (0 <? di)%Z; [|destruct (di <? 0)%Z]; simpl in He; try tauto;
        destruct He as [<- | []]; eexists; eauto.
    + intros v k Hk. unfold c20_gauge_add. apply c20_gauge_key_not_ok in Hk. destruct Hk.
      destruct (sts_ctr_eq_dec StsInflight k); congruence.
  - (* connected *)
    simpl. destruct H as [A B C D E]. constructor; simpl; auto.
  - (* disconnected *)
    destruct kept.
    + simpl. destruct H as [A B C D E]. constructor; simpl; auto.
    + unfold sts_run_from; cbn [fold_left app].
      remember (sts_step ms (StsSessionTerminated c StsRNormal)) as ms1 eqn:E1.
      cbn [sts_step]. apply c20_rel1_conn. subst ms1. apply c20_rel1_end. exact H.
  - (* ended *)
    unfold sts_run_from; cbn [fold_left]. apply c20_rel1_end. exact H.
Qed.

Lemma c20_rel1_run : forall log ms ts, c20_rel1 ms ts ->
  c20_rel1 (sts_run_from ms (flat_map c20_calls log)) (fold_left c20_step log ts).
Proof.
  induction log as [|e r IH]; intros ms ts H; simpl; [exact H|].
  rewrite sts_run_from_app. apply IH. apply c20_rel1_step; assumption.
Qed.
Lemma c20_rel1_init : c20_rel1 sts_init c20_init.
Proof. constructor; simpl; auto. Qed.

(* MAIN: for EVERY log, what GetGlobalStats / GetClientStats hand out equals the truth on every counter: packets and
   bytes per type and direction (Auth included), totals, messages received / sent per QoS, dropped per QoS and reason *)
Theorem c20_counters_global : forall log k, sts_exact k = true ->
  stv_glob (c20_model log) k = stv_glob (c20_truth log) k.
Proof.
  intros log k Hk. pose proof (c20_rel1_run log _ _ c20_rel1_init) as [A B C D E].
  unfold c20_model, c20_truth, c20_run, sts_run, sts_view_of, c20_view; cbn [stv_glob].
  unfold sts_copy. rewrite E by assumption.
  destruct k; try reflexivity; discriminate.
Qed.
Theorem c20_counters_client : forall log c k, sts_exact k = true ->
  sts_val c (stv_clients (c20_model log)) k = sts_val c (stv_clients (c20_truth log)) k.
Proof.
  intros log c k Hk. pose proof (c20_rel1_run log _ _ c20_rel1_init) as [A B C D E].
  unfold c20_model, c20_truth, c20_run, sts_run, sts_view_of, c20_view; cbn [stv_clients].
  rewrite sts_val_copy. apply C; assumption.
Qed.



(* ---------- connection counters and session gauges against the truth ---------- *)
Lemma c20_in_remove : forall x c l, In x (c20_remove c l) <-> In x l /\ x <> c.
Proof.
  intros x c l. induction l as [|y r IH]; simpl; [tauto|].
  destruct (N.eqb_spec c y); subst; simpl; rewrite IH; intuition congruence.
Qed.
Lemma c20_remove_notin : forall c l, ~ In c l -> c20_remove c l = l.
Proof.
  intros c l. induction l as [|y r IH]; simpl; intros H; [reflexivity|].
  destruct (N.eqb_spec c y); subst; [tauto|]. rewrite IH; tauto.
Qed.
Lemma c20_nodup_remove : forall c l, NoDup l -> NoDup (c20_remove c l).
Proof.
  intros c l H. induction H as [|y r Hy Hr IH]; simpl; [constructor|].
  destruct (c =? y); [assumption|]. constructor; [rewrite c20_in_remove; tauto | assumption].
Qed.
Lemma c20_remove_len : forall c l, NoDup l -> In c l -> S (length (c20_remove c l)) = length l.
Proof.
  intros c l H. induction H as [|y r Hy Hr IH]; simpl; intros Hin; [tauto|].
  destruct (N.eqb_spec c y); subst.
  - rewrite c20_remove_notin by assumption. reflexivity.
  - simpl. rewrite IH; [reflexivity|]. destruct Hin; congruence.
Qed.

Lemma sts_cadd_at : forall v k d k', sts_cadd v k d k' = v k' + (if sts_cctr_eq_dec k k' then d else 0).
Proof. intros. unfold sts_cadd. destruct (sts_cctr_eq_dec k k'); lia. Qed.
Lemma sts_cwadd_other : forall v k d k', k <> k' -> sts_cwadd v k d k' = v k'.
Proof. intros. unfold sts_cwadd. destruct (sts_cctr_eq_dec k k'); congruence. Qed.
Lemma sts_cwadd_same : forall v k d, sts_cwadd v k d k = (v k + d) mod sts_M64.
Proof. intros. unfold sts_cwadd. destruct (sts_cctr_eq_dec k k); congruence. Qed.

Lemma sts_neg1 : sts_neg 1 = sts_M64 - 1. Proof. reflexivity. Qed.
Lemma sts_mod_inc : forall x n, x = n mod sts_M64 -> (x + 1) mod sts_M64 = (n + 1) mod sts_M64.
Proof. intros x n ->. apply N.add_mod_idemp_l, sts_M64_nz. Qed.
Lemma sts_mod_dec : forall x n, x = (n + 1) mod sts_M64 -> (x + sts_neg 1) mod sts_M64 = n mod sts_M64.
Proof.
  intros x n ->. rewrite sts_neg1, N.add_mod_idemp_l by apply sts_M64_nz.
  replace (n + 1 + (sts_M64 - 1)) with (n + 1 * sts_M64) by (unfold sts_M64; lia).
  apply N.mod_add, sts_M64_nz.
Qed.

Lemma sts_mod_dec_inc : forall x n, x = n mod sts_M64 -> ((x + sts_neg 1) mod sts_M64 + 1) mod sts_M64 = n mod sts_M64.
Proof.
  intros x n ->. rewrite N.add_mod_idemp_l by apply sts_M64_nz. rewrite sts_neg1, <- N.add_assoc.
  replace (sts_M64 - 1 + 1) with (1 * sts_M64) by reflexivity.
  rewrite N.mod_add by apply sts_M64_nz. apply N.mod_mod, sts_M64_nz.
Qed.

Definition c20_conn_gauge (k : sts_cctr) : bool := match k with StsActive | StsInactive => true | _ => false end.

Definition c20_life_ok_step (ts : c20_state) (e : c20_gevent) : Prop :=
  match e with
  | C20Connected c true => ~ In c (c20_online ts) /\ ~ In c (c20_offline ts)
  | C20Connected c false => ~ In c (c20_online ts) /\ In c (c20_offline ts)
  | C20Disconnected c _ => In c (c20_online ts)
  | C20Ended c _ => In c (c20_offline ts)
  | _ => True
  end.
Fixpoint c20_life_ok_from (ts : c20_state) (log : list c20_gevent) : Prop :=
  match log with [] => True | e :: r => c20_life_ok_step ts e /\ c20_life_ok_from (c20_step ts e) r end.
(* sessions are created when absent, resumed when offline, disconnected when online, ended when offline *)
Definition c20_life_ok (log : list c20_gevent) : Prop := c20_life_ok_from c20_init log.

Record c20_rel2 (ms : sts_state) (ts : c20_state) : Prop := {
  r2_cnt : forall k, c20_conn_gauge k = false -> sts_conn ms k = c20_cnt ts k;
  r2_act : sts_conn ms StsActive = N.of_nat (length (c20_online ts)) mod sts_M64;
  r2_ina : sts_conn ms StsInactive = N.of_nat (length (c20_offline ts)) mod sts_M64;
  r2_nd_on : NoDup (c20_online ts);
  r2_nd_off : NoDup (c20_offline ts);
  r2_disj : forall c, In c (c20_online ts) -> ~ In c (c20_offline ts)
}.

Ltac ceq := repeat match goal with |- context [sts_cctr_eq_dec ?a ?b] => destruct (sts_cctr_eq_dec a b); try discriminate end.

Lemma c20_conn_keep : forall ms e,
  match e with C20Connected _ _ | C20Disconnected _ _ | C20Ended _ _ => False | _ => True end ->
  sts_conn (sts_run_from ms (c20_calls e)) = sts_conn ms.
Proof.
  intros ms e He. destruct e; try destruct He; cbn [c20_calls].
  - destruct t; reflexivity.
  - destruct t; reflexivity.
  - reflexivity.
  - reflexivity.
  - unfold sts_notify_queue. destruct (0 <? dq)%Z; [reflexivity|]. destruct (dq <? 0)%Z; [|reflexivity].
    simpl. destruct (_ =? 0); reflexivity.
  - unfold sts_notify_inflight. destruct (0 <? di)%Z; [reflexivity|]. destruct (di <? 0)%Z; [|reflexivity].
    simpl. destruct (_ =? 0); reflexivity.
Qed.

Lemma of_nat_S : forall n, N.of_nat (S n) = N.of_nat n + 1. Proof. intros. lia. Qed.

Lemma c20_rel2_step : forall ms ts e, c20_life_ok_step ts e -> c20_rel2 ms ts ->
  c20_rel2 (sts_run_from ms (c20_calls e)) (c20_step ts e).
Proof.
  intros ms ts e Hok H.
  destruct e;
    try (destruct H as [A B C D E F]; constructor; rewrite ?c20_conn_keep by exact I; simpl; auto; fail).
  - (* connected *)
    destruct H as [A B C D E F]. simpl in Hok.
    assert (Hon : ~ In c (c20_online ts)) by (destruct created; tauto).
    constructor; cbn [c20_calls c20_step sts_run_from fold_left sts_step sts_set_conn sts_conn c20_cnt c20_online c20_offline].
    + intros k Hk. destruct created.
      * rewrite sts_cwadd_other by (intro; subst; discriminate). rewrite !sts_cadd_at, A by assumption. reflexivity.
      * rewrite sts_cwadd_other by (intro; subst; discriminate).
        rewrite sts_cwadd_other by (intro; subst; discriminate). rewrite !sts_cadd_at, A by assumption. reflexivity.
    + rewrite sts_cwadd_same. rewrite c20_remove_notin by assumption. cbn [length]. rewrite of_nat_S.
      apply sts_mod_inc. destruct created.
      * rewrite !sts_cadd_at. ceq. rewrite B. lia.
      * rewrite sts_cwadd_other by discriminate. rewrite sts_cadd_at. ceq. rewrite B. lia.
    + rewrite sts_cwadd_other by discriminate. destruct created.
      * rewrite !sts_cadd_at. ceq. rewrite c20_remove_notin by tauto. rewrite C. lia.
      * rewrite sts_cwadd_same, sts_cadd_at. ceq. rewrite N.add_0_r.
        apply sts_mod_dec. rewrite C. f_equal. rewrite <- of_nat_S. f_equal. symmetry. apply c20_remove_len; tauto.
    + constructor; [rewrite c20_in_remove; tauto | apply c20_nodup_remove; assumption].
    + apply c20_nodup_remove; assumption.
    + intros x [<- | Hx]; rewrite c20_in_remove; [tauto|]. rewrite c20_in_remove in Hx. intros [Hy _]. apply (F x); tauto.
  - (* disconnected *)
    destruct H as [A B C D E F]. simpl in Hok. pose proof (F c Hok) as Hoff.
    destruct kept.
    + constructor; cbn [c20_calls c20_step app sts_run_from fold_left sts_step sts_set_conn sts_conn c20_cnt c20_online c20_offline].
      * intros k Hk. unfold sts_inactive. rewrite !sts_cwadd_other by (intro; subst; discriminate). rewrite !sts_cadd_at, A by assumption. reflexivity.
      * unfold sts_inactive. rewrite sts_cwadd_other by discriminate. rewrite sts_cwadd_same, sts_cadd_at. ceq. rewrite N.add_0_r.
        apply sts_mod_dec. rewrite B. f_equal. rewrite <- of_nat_S. f_equal. symmetry. apply c20_remove_len; assumption.
      * unfold sts_inactive. rewrite sts_cwadd_same. rewrite sts_cwadd_other by discriminate. rewrite sts_cadd_at. ceq. rewrite N.add_0_r.
        rewrite c20_remove_notin by assumption. cbn [length]. rewrite of_nat_S. apply sts_mod_inc. exact C.
      * apply c20_nodup_remove; assumption.
      * constructor; [rewrite c20_in_remove; tauto | apply c20_nodup_remove; assumption].
      * intros x Hx [<- | Hy]; rewrite c20_in_remove in *; [tauto|]. apply (F x); tauto.
    + constructor; cbn [c20_calls c20_step app sts_run_from fold_left sts_step sts_set_conn sts_conn c20_cnt c20_online c20_offline c20_end_session sts_term_ctr].
      * intros k Hk. unfold sts_inactive. rewrite !sts_cwadd_other by (intro; subst; discriminate). rewrite !sts_cadd_at.
        rewrite sts_cwadd_other by (intro; subst; discriminate). rewrite !sts_cadd_at, A by assumption. lia.
      * unfold sts_inactive. rewrite sts_cwadd_other by discriminate. rewrite sts_cwadd_same, sts_cadd_at. ceq. rewrite N.add_0_r.
        rewrite sts_cwadd_other by discriminate. rewrite sts_cadd_at. ceq. rewrite N.add_0_r.
        apply sts_mod_dec. rewrite B. f_equal. rewrite <- of_nat_S. f_equal. symmetry. apply c20_remove_len; assumption.
      * unfold sts_inactive. rewrite sts_cwadd_same. rewrite sts_cwadd_other by discriminate. rewrite sts_cadd_at. ceq. rewrite N.add_0_r.
        rewrite sts_cwadd_same, sts_cadd_at. ceq. rewrite N.add_0_r. rewrite c20_remove_notin by assumption.
        apply sts_mod_dec_inc. exact C.
      * apply c20_nodup_remove; assumption.
      * apply c20_nodup_remove; assumption.
      * intros x Hx Hy. rewrite c20_in_remove in *. apply (F x); tauto.
  - (* ended *)
    destruct H as [A B C D E F]. simpl in Hok.
    constructor; cbn [c20_calls c20_step sts_run_from fold_left sts_step sts_conn c20_cnt c20_online c20_offline c20_end_session].
    + intros k Hk. rewrite sts_cwadd_other by (intro; subst; discriminate). rewrite !sts_cadd_at, A by assumption. reflexivity.
    + rewrite sts_cwadd_other by discriminate. rewrite sts_cadd_at. destruct (sts_cctr_eq_dec (sts_term_ctr r) StsActive) as [E0|_]; [destruct r; discriminate|].
      rewrite N.add_0_r. rewrite c20_remove_notin; [exact B|]. intro Hin. exact (F c Hin Hok).
    + rewrite sts_cwadd_same, sts_cadd_at. destruct (sts_cctr_eq_dec (sts_term_ctr r) StsInactive) as [E0|_]; [destruct r; discriminate|].
      rewrite N.add_0_r. apply sts_mod_dec. rewrite C. f_equal. rewrite <- of_nat_S. f_equal. symmetry. apply c20_remove_len; assumption.
    + apply c20_nodup_remove; assumption.
    + apply c20_nodup_remove; assumption.
    + intros x Hx Hy. rewrite c20_in_remove in *. apply (F x); tauto.
Qed.

Lemma c20_rel2_run : forall log ms ts, c20_life_ok_from ts log -> c20_rel2 ms ts ->
  c20_rel2 (sts_run_from ms (flat_map c20_calls log)) (fold_left c20_step log ts).
Proof.
  induction log as [|e r IH]; intros ms ts Hok H; simpl; [exact H|].
  destruct Hok as [H1 H2]. rewrite sts_run_from_app. apply IH; [assumption|]. apply c20_rel2_step; assumption.
Qed.
Lemma c20_rel2_init : c20_rel2 sts_init c20_init.
Proof. constructor; simpl; auto; try constructor. Qed.

(* connection counters equal the truth; ActiveCurrent / InactiveCurrent equal the number of online / offline sessions
   (as a uint64) *)
Theorem c20_connection_stats : forall log k, c20_life_ok log ->
  stv_conn (c20_model log) k = if c20_conn_gauge k then stv_conn (c20_truth log) k mod sts_M64 else stv_conn (c20_truth log) k.
Proof.
  intros log k Hok. pose proof (c20_rel2_run log _ _ Hok c20_rel2_init) as [A B C D E F].
  unfold c20_model, c20_truth, c20_run, sts_run, sts_view_of, c20_view; simpl.
  destruct k; simpl; try (apply A; reflexivity); assumption.
Qed.






(* ---------- queued / in-flight gauges against the queue contents of the truth ---------- *)
Definition c20_gauge_ok_step (gk : sts_ctr) (ts : c20_state) (e : c20_gevent) : Prop :=
  match e, gk with
  | C20Queue c d, StsQueued | C20Inflight c d, StsInflight =>
      (0 <= Z.of_N (sts_val c (c20_live ts) gk) + d < Z.of_N sts_M64)%Z
  | _, _ => True
  end.
Fixpoint c20_gauge_ok_from (gk : sts_ctr) (ts : c20_state) (log : list c20_gevent) : Prop :=
  match log with [] => True | e :: r => c20_gauge_ok_step gk ts e /\ c20_gauge_ok_from gk (c20_step ts e) r end.
(* the log never takes more out of a queue than it holds *)
Definition c20_gauge_ok (gk : sts_ctr) (log : list c20_gevent) : Prop := c20_gauge_ok_from gk c20_init log.

Lemma sts_sum_upd_gen : forall c g l k, sts_sum (sts_upd c g l) k + sts_val c l k = sts_sum l k + g (sts_val c l) k.
Proof.
  intros c g l k. unfold sts_val. induction l as [|[x v] r IH]; simpl.
  - change (sts_zero k) with 0. lia.
  - destruct (c =? x); simpl; [lia|]. destruct (sts_get c r); lia.
Qed.

Record c20_rel3 (gk : sts_ctr) (ms : sts_state) (ts : c20_state) : Prop := {
  r3_nd_m : sts_nodup (sts_clients ms);
  r3_nd_t : sts_nodup (c20_live ts);
  r3_val : forall c, sts_val c (sts_clients ms) gk = sts_val c (c20_live ts) gk;
  r3_lt : forall c, sts_val c (c20_live ts) gk < sts_M64;
  r3_sum : sts_sum (sts_clients ms) gk = sts_sum (c20_live ts) gk
}.

(* both entries of client c are updated and agree afterwards *)
Lemma c20_rel3_upd : forall gk ms ts c f g h, c20_rel3 gk ms ts ->
  g (sts_val c (sts_clients ms)) gk = h (sts_val c (c20_live ts)) gk ->
  h (sts_val c (c20_live ts)) gk < sts_M64 ->
  c20_rel3 gk (sts_both ms c f g) (c20_on_client ts c h).
Proof.
  intros gk ms ts c f g h [A B C D E] Hgh Hlt. constructor; simpl.
  - apply sts_nodup_upd; assumption.
  - apply sts_nodup_upd; assumption.
  - intros c'. rewrite !sts_val_upd. destruct (c =? c'); [exact Hgh | apply C].
  - intros c'. rewrite sts_val_upd. destruct (c =? c'); [exact Hlt | apply D].
  - pose proof (sts_sum_upd_gen c g (sts_clients ms) gk). pose proof (sts_sum_upd_gen c h (c20_live ts) gk).
    pose proof (C c). lia.
Qed.
Lemma c20_rel3_same : forall gk ms ts c f g h, c20_rel3 gk ms ts ->
  (forall v, g v gk = v gk) -> (forall v, h v gk = v gk) ->
  c20_rel3 gk (sts_both ms c f g) (c20_on_client ts c h).
Proof.
  intros gk ms ts c f g h H Hg Hh. apply c20_rel3_upd; [exact H | rewrite Hg, Hh; apply (r3_val _ _ _ H) | rewrite Hh; apply (r3_lt _ _ _ H)].
Qed.
Lemma c20_rel3_model_only : forall gk ms ts c f g, c20_rel3 gk ms ts ->
  g (sts_val c (sts_clients ms)) gk = sts_val c (sts_clients ms) gk -> c20_rel3 gk (sts_both ms c f g) ts.
Proof.
  intros gk ms ts c f g [A B C D E] Hg. constructor; simpl; auto.
  - apply sts_nodup_upd; assumption.
  - intros c'. rewrite sts_val_upd. destruct (c =? c') eqn:Ec; [apply N.eqb_eq in Ec; subst; rewrite Hg|]; apply C.
  - pose proof (sts_sum_upd_gen c g (sts_clients ms) gk). lia.
Qed.
Lemma c20_rel3_truth_only : forall gk ms ts c h, c20_rel3 gk ms ts ->
  h (sts_val c (c20_live ts)) gk = sts_val c (c20_live ts) gk -> c20_rel3 gk ms (c20_on_client ts c h).
Proof.
  intros gk ms ts c h [A B C D E] Hh. constructor; simpl; auto.
  - apply sts_nodup_upd; assumption.
  - intros c'. rewrite sts_val_upd. destruct (c =? c') eqn:Ec; [apply N.eqb_eq in Ec; subst; rewrite Hh|]; apply C.
  - intros c'. rewrite sts_val_upd. destruct (c =? c') eqn:Ec; [apply N.eqb_eq in Ec; subst; rewrite Hh|]; apply D.
  - pose proof (sts_sum_upd_gen c h (c20_live ts) gk). lia.
Qed.
Lemma c20_rel3_end : forall gk ms ts c r cnt on off,
  c20_rel3 gk ms ts -> c20_rel3 gk (sts_step ms (StsSessionTerminated c r)) (c20_end_session ts c cnt on off).
Proof.
  intros gk ms ts c r cnt on off [A B C D E].
  constructor; cbn [sts_step sts_clients c20_end_session c20_live].
  - apply sts_nodup_del; assumption.
  - apply sts_nodup_del; assumption.
  - intros c'. rewrite !sts_val_del by assumption. destruct (c =? c'); [reflexivity | apply C].
  - intros c'. rewrite sts_val_del by assumption. destruct (c =? c'); [reflexivity | apply D].
  - pose proof (sts_sum_del c (sts_clients ms) gk). pose proof (sts_sum_del c (c20_live ts) gk). pose proof (C c). lia.
Qed.
Lemma c20_rel3_conn : forall gk ms ts cv, c20_rel3 gk ms ts -> c20_rel3 gk (sts_set_conn ms cv) ts.
Proof. intros gk ms ts cv [A B C D E]. constructor; simpl; auto. Qed.

(* the gauge's own events *)
Lemma c20_rel3_gauge : forall gk ms ts c (d : Z), (gk = StsQueued \/ gk = StsInflight) -> c20_rel3 gk ms ts ->
  (0 <= Z.of_N (sts_val c (c20_live ts) gk) + d < Z.of_N sts_M64)%Z ->
  c20_rel3 gk (sts_run_from ms (match gk with StsQueued => sts_notify_queue c d | _ => sts_notify_inflight c d end))
              (c20_on_client ts c (fun v => c20_gauge_add v gk d)).
Proof.
  intros gk ms ts c d Hgk H Hd. pose proof (r3_val _ _ _ H c) as Cc. pose proof (r3_lt _ _ _ H c) as Dc.
  assert (Ht : c20_gauge_add (sts_val c (c20_live ts)) gk d gk = Z.to_N (Z.of_N (sts_val c (c20_live ts) gk) + d)).
  { unfold c20_gauge_add. destruct (sts_ctr_eq_dec gk gk); [reflexivity|congruence]. }
  assert (Hlt : Z.to_N (Z.of_N (sts_val c (c20_live ts) gk) + d) < sts_M64) by (unfold sts_M64 in *; lia).
  destruct Hgk as [-> | ->].
  - unfold sts_notify_queue. destruct (Z.ltb_spec 0 d); [|destruct (Z.ltb_spec d 0)]; cbn [sts_run_from fold_left sts_step].
    + apply c20_rel3_upd; [exact H | | rewrite Ht; exact Hlt].
      rewrite Ht, sts_wadd_same, Cc. rewrite sts_wadd_small by (unfold sts_M64 in *; lia). lia.
    + assert (Hnz : sts_val c (sts_clients ms) StsQueued =? 0 = false) by (apply N.eqb_neq; rewrite Cc; lia).
      rewrite Hnz. apply c20_rel3_upd; [exact H | | rewrite Ht; exact Hlt].
      rewrite Ht. unfold sts_wsub. rewrite sts_wadd_same, Cc. rewrite sts_wsub_exact by (unfold sts_M64 in *; lia). lia.
    + assert (d = 0%Z) by lia. subst d. apply c20_rel3_truth_only; [exact H|]. rewrite Ht. lia.
  - unfold sts_notify_inflight. destruct (Z.ltb_spec 0 d); [|destruct (Z.ltb_spec d 0)]; cbn [sts_run_from fold_left sts_step].
    + apply c20_rel3_upd; [exact H | | rewrite Ht; exact Hlt].
      rewrite Ht, sts_wadd_same, Cc. rewrite sts_wadd_small by (unfold sts_M64 in *; lia). lia.
    + assert (Hnz : sts_val c (sts_clients ms) StsInflight =? 0 = false) by (apply N.eqb_neq; rewrite Cc; lia).
      rewrite Hnz. apply c20_rel3_upd; [exact H | | rewrite Ht; exact Hlt].
      rewrite Ht. unfold sts_wsub. rewrite sts_wadd_same, Cc. rewrite sts_wsub_exact by (unfold sts_M64 in *; lia). lia.
    + assert (d = 0%Z) by lia. subst d. apply c20_rel3_truth_only; [exact H|]. rewrite Ht. lia.
Qed.

(* the other gauge's events leave this gauge alone *)
Lemma c20_rel3_other_calls : forall gk ms ts c h (evs : list sts_event),
  (forall e, In e evs -> exists d, (gk = StsQueued /\ (e = StsAddInflight c d \/ e = StsDecInflight c d)) \/
                                   (gk = StsInflight /\ (e = StsAddQueueLen c d \/ e = StsDecQueueLen c d))) ->
  (forall v, h v gk = v gk) ->
  c20_rel3 gk ms ts -> c20_rel3 gk (sts_run_from ms evs) (c20_on_client ts c h).
Proof.
  intros gk ms ts c h evs He Hh H.
  assert (G : forall ms, c20_rel3 gk ms ts -> c20_rel3 gk (sts_run_from ms evs) ts).
  { clear H ms. induction evs as [|e r IH]; intros ms H; simpl; [exact H|].
    apply IH; [intros; apply He; right; assumption|].
    destruct (He e (or_introl eq_refl)) as [d [[-> [-> | ->]] | [-> [-> | ->]]]]; cbn [sts_step];
      try (destruct (_ =? 0)); apply c20_rel3_model_only; try exact H; try reflexivity;
      unfold sts_wsub; apply sts_wadd_other; discriminate. }
  apply c20_rel3_truth_only; [apply G; exact H | apply Hh].
Qed.

Lemma c20_rel3_step : forall gk ms ts e, (gk = StsQueued \/ gk = StsInflight) ->
  c20_gauge_ok_step gk ts e -> c20_rel3 gk ms ts ->
  c20_rel3 gk (sts_run_from ms (c20_calls e)) (c20_step ts e).
Proof.
  intros gk ms ts e Hgk Hok H.
  assert (Hp : forall v d t sz, sts_packet_add v d t sz gk = v gk)
    by (intros; rewrite sts_packet_add_at; unfold sts_pdelta; destruct Hgk as [-> | ->]; eqdec; lia).
  assert (Ha : forall v k, sts_exact k = true -> sts_add v k 1 gk = v gk).
  { intros v k Hk. rewrite sts_add_at. destruct (sts_ctr_eq_dec k gk); [subst; destruct Hgk as [-> | ->]; discriminate | lia]. }
  assert (Hpub : forall d q sz c,
            c20_rel3 gk (sts_both (sts_both ms c (fun v => sts_add v (c20_msg_key d q) 1) (fun v => sts_add v (c20_msg_key d q) 1)) c
                           (fun v => sts_packet_add v d StsPublish sz) (fun v => sts_packet_add v d StsPublish sz))
                        (c20_on_client ts c (fun v => c20_pkt v d StsPublish q sz))).
  { intros d q sz c. apply c20_rel3_same.
    - apply c20_rel3_model_only; [exact H | apply Ha; destruct d; reflexivity].
    - intros; apply Hp.
    - intros; unfold c20_pkt. rewrite Ha, Hp by (destruct d; reflexivity). reflexivity. }
  destruct e; cbn [c20_calls c20_step].
  - destruct t; cbn [app sts_run_from fold_left sts_step]; try (apply c20_rel3_same; [exact H | intros; apply Hp | intros; unfold c20_pkt; apply Hp]).
    apply (Hpub StsRx).
  - destruct t; cbn [app sts_run_from fold_left sts_step]; try (apply c20_rel3_same; [exact H | intros; apply Hp | intros; unfold c20_pkt; apply Hp]).
    apply (Hpub StsTx).
  - cbn [sts_run_from fold_left sts_step]. apply (Hpub StsRx).
  - unfold sts_notify_dropped; cbn [sts_run_from fold_left sts_step]. apply c20_rel3_same; try exact H; intros;
      unfold sts_dropped_add; apply Ha; reflexivity.
  - (* queue *)
    destruct Hgk as [-> | ->].
    + apply (c20_rel3_gauge StsQueued); auto.
    + apply c20_rel3_other_calls; try exact H.
      * unfold sts_notify_queue. intros e He. destruct (0 <? dq)%Z; [|destruct (dq <? 0)%Z]; simpl in He; try tauto;
          destruct He as [<- | []]; eexists; right; split; eauto.
      * intros. unfold c20_gauge_add. destruct (sts_ctr_eq_dec StsQueued StsInflight); [discriminate | reflexivity].
  - (* in flight *)
    destruct Hgk as [-> | ->].
    + apply c20_rel3_other_calls; try exact H.
      * unfold sts_notify_inflight. intros e He. destruct (0 <? di)%Z; [|destruct (di <? 0)%Z]; simpl in He; try tauto;
          destruct He as [<- | []]; eexists; left; split; eauto.
      * intros. unfold c20_gauge_add. destruct (sts_ctr_eq_dec StsInflight StsQueued); [discriminate | reflexivity].
    + apply (c20_rel3_gauge StsInflight); auto.
  - cbn [sts_run_from fold_left sts_step]. apply c20_rel3_conn, c20_rel3_conn.
    destruct H as [A B C D E]. constructor; simpl; auto.
  - destruct kept.
    + cbn [app sts_run_from fold_left sts_step]. apply c20_rel3_conn. destruct H as [A B C D E]. constructor; simpl; auto.
    + unfold sts_run_from; cbn [fold_left app].
      remember (sts_step ms (StsSessionTerminated c StsRNormal)) as ms1 eqn:E1.
      cbn [sts_step]. apply c20_rel3_conn. subst ms1. apply c20_rel3_end. exact H.
  - unfold sts_run_from; cbn [fold_left]. apply c20_rel3_end. exact H.
Qed.

Lemma c20_rel3_run : forall gk log ms ts, (gk = StsQueued \/ gk = StsInflight) ->
  c20_gauge_ok_from gk ts log -> c20_rel3 gk ms ts ->
  c20_rel3 gk (sts_run_from ms (flat_map c20_calls log)) (fold_left c20_step log ts).
Proof.
  intros gk. induction log as [|e r IH]; intros ms ts Hgk Hok H; simpl; [exact H|].
  destruct Hok as [H1 H2]. rewrite sts_run_from_app. apply IH; auto. apply c20_rel3_step; assumption.
Qed.
Lemma c20_rel3_init : forall gk, c20_rel3 gk sts_init c20_init.
Proof. intros. constructor; simpl; auto; intros; reflexivity. Qed.

(* per client, QueuedCurrent / InflightCurrent equal the contents of the session's queue *)
Theorem c20_client_gauges : forall gk log c, (gk = StsQueued \/ gk = StsInflight) -> c20_gauge_ok gk log ->
  sts_val c (stv_clients (c20_model log)) gk = sts_val c (stv_clients (c20_truth log)) gk.
Proof.
  intros gk log c Hgk Hok.
  pose proof (c20_rel3_run gk log _ _ Hgk Hok (c20_rel3_init gk)) as [A B C D E].
  unfold c20_model, c20_truth, c20_run, sts_run, sts_view_of, c20_view; cbn [stv_clients].
  rewrite sts_val_copy. apply C.
Qed.
(* globally they equal the contents of all live sessions' queues (as uint64) *)
Theorem c20_global_gauges : forall gk log, (gk = StsQueued \/ gk = StsInflight) -> c20_gauge_ok gk log ->
  stv_glob (c20_model log) gk = stv_glob (c20_truth log) gk mod sts_M64.
Proof.
  intros gk log Hgk Hok.
  pose proof (c20_rel3_run gk log _ _ Hgk Hok (c20_rel3_init gk)) as [A B C D E].
  assert (Hg : sts_is_gauge gk = true) by (destruct Hgk as [-> | ->]; reflexivity).
  pose proof (sts_gauge_live_sum (flat_map c20_calls log) gk Hg) as S.
  unfold c20_model, c20_truth, c20_run, sts_view_of, c20_view; cbn [stv_glob]. unfold sts_copy.
  rewrite S. unfold sts_run. rewrite E.
  destruct Hgk as [-> | ->]; reflexivity.
Qed.
