(* The poll loop of one connection of the broker model (Model/Broker.v): poll_once / poll_conn,
   write_publish, the window installed by handle_connect and the acknowledgement handlers.
   Properties C03 (outbound QoS 1/2: replay first, unique ids, bounded window) and the
   outbound half of C13 (maximum packet size, topic aliases), for ALL states. *)
From Coq Require Import List NArith ZArith Bool Arith Lia ZifyN ZifyNat ZifyBool.
Import ListNotations.
From GM Require Import Base.Topic Base.Msg Model.SubTrie Model.RetTrie Model.Queue Model.Limiter
                       Model.TopicMatch Model.Broker Oracle.C03O Proofs.TopicP Proofs.LimiterP Proofs.QueueP.
From GM Require Model.CodecBase Model.CodecProps Model.CodecPackets.     (* the wire size of a packet *)
From GM Require Proofs.CodecBaseP Proofs.CodecStrP Proofs.CodecSizeP Proofs.CodecMsgP.   (* ... and the size lemmas of the codec slice *)
Open Scope N_scope.

(* ------------------------------------------------------------------ *)
(* 0. association lists, projections of the record setters             *)
(* ------------------------------------------------------------------ *)

Lemma aget_aset_eq {V} k (v : V) l : aget k (aset k v l) = Some v.
Proof.
  induction l as [|[k' v'] r IH]; cbn [aset aget].
  - now rewrite str_eqb_refl.
  - destruct (str_eqb k k') eqn:E; cbn [aget]; [now rewrite str_eqb_refl|now rewrite E].
Qed.

Lemma aget_aset_ne {V} k k' (v : V) l : k' <> k -> aget k' (aset k v l) = aget k' l.
Proof.
  intros Hne. induction l as [|[k0 v0] r IH]; cbn [aset aget].
  - apply str_eqb_neq in Hne. now rewrite Hne.
  - destruct (str_eqb k k0) eqn:E; cbn [aget].
    + apply str_eqb_eq in E. subst k0. apply str_eqb_neq in Hne. now rewrite Hne.
    + now rewrite IH.
Qed.

Lemma nget_nset_eq {V} k (v : V) l : nget k (nset k v l) = Some v.
Proof.
  induction l as [|[k' v'] r IH]; cbn [nset nget].
  - now rewrite N.eqb_refl.
  - destruct (k =? k') eqn:E; cbn [nget]; [now rewrite N.eqb_refl|now rewrite E].
Qed.

Lemma nget_nset_ne {V} k k' (v : V) l : k' <> k -> nget k' (nset k v l) = nget k' l.
Proof.
  intros Hne. induction l as [|[k0 v0] r IH]; cbn [nset nget].
  - apply N.eqb_neq in Hne. now rewrite Hne.
  - destruct (k =? k0) eqn:E; cbn [nget].
    + apply N.eqb_eq in E. subst k0. apply N.eqb_neq in Hne. now rewrite Hne.
    + now rewrite IH.
Qed.

(* the setters used by the poll loop, the ack handlers and add_to_queue *)
Lemma upd_conn_conns c k s : b_conns (upd_conn c k s) = nset c k (b_conns s). Proof. reflexivity. Qed.
Lemma upd_conn_queues c k s : b_queues (upd_conn c k s) = b_queues s. Proof. reflexivity. Qed.
Lemma upd_conn_online c k s : b_online (upd_conn c k s) = b_online s. Proof. reflexivity. Qed.
Lemma upd_conn_now c k s : b_now (upd_conn c k s) = b_now s. Proof. reflexivity. Qed.
Lemma upd_conn_tag c k s : b_tag (upd_conn c k s) = b_tag s. Proof. reflexivity. Qed.
Lemma upd_conn_cfg c k s : b_cfg (upd_conn c k s) = b_cfg s. Proof. reflexivity. Qed.
Lemma set_queues_conns q s : b_conns (set_queues q s) = b_conns s. Proof. reflexivity. Qed.
Lemma set_queues_queues q s : b_queues (set_queues q s) = q. Proof. reflexivity. Qed.
Lemma set_queues_online q s : b_online (set_queues q s) = b_online s. Proof. reflexivity. Qed.
Lemma set_queues_now q s : b_now (set_queues q s) = b_now s. Proof. reflexivity. Qed.
Lemma set_queues_tag q s : b_tag (set_queues q s) = b_tag s. Proof. reflexivity. Qed.
Lemma set_queues_cfg q s : b_cfg (set_queues q s) = b_cfg s. Proof. reflexivity. Qed.
Lemma set_picks_tag_conns p t s : b_conns (set_picks_tag p t s) = b_conns s. Proof. reflexivity. Qed.
Lemma set_picks_tag_queues p t s : b_queues (set_picks_tag p t s) = b_queues s. Proof. reflexivity. Qed.
Lemma set_picks_tag_online p t s : b_online (set_picks_tag p t s) = b_online s. Proof. reflexivity. Qed.
Lemma set_picks_tag_now p t s : b_now (set_picks_tag p t s) = b_now s. Proof. reflexivity. Qed.
Lemma set_picks_tag_tag p t s : b_tag (set_picks_tag p t s) = t. Proof. reflexivity. Qed.
Lemma set_picks_tag_cfg p t s : b_cfg (set_picks_tag p t s) = b_cfg s. Proof. reflexivity. Qed.

Lemma nget_upd_eq c k s : nget c (b_conns (upd_conn c k s)) = Some k.
Proof. rewrite upd_conn_conns. apply nget_nset_eq. Qed.
Lemma nget_upd_ne c c' k s : c' <> c -> nget c' (b_conns (upd_conn c k s)) = nget c' (b_conns s).
Proof. intros H. rewrite upd_conn_conns. now apply nget_nset_ne. Qed.

(* set_lim_held changes the limiter, the held ids and the drained flag only *)
Lemma slh_lim l h d k : k_lim (set_lim_held l h d k) = l. Proof. reflexivity. Qed.
Lemma slh_held l h d k : k_held (set_lim_held l h d k) = h. Proof. reflexivity. Qed.
Lemma slh_drained l h d k : k_drained (set_lim_held l h d k) = d. Proof. reflexivity. Qed.
Lemma slh_cid l h d k : k_cid (set_lim_held l h d k) = k_cid k. Proof. reflexivity. Qed.
Lemma slh_v l h d k : k_v (set_lim_held l h d k) = k_v k. Proof. reflexivity. Qed.
Lemma slh_phase l h d k : k_phase (set_lim_held l h d k) = k_phase k. Proof. reflexivity. Qed.
Lemma slh_maxinf l h d k : k_max_inflight (set_lim_held l h d k) = k_max_inflight k. Proof. reflexivity. Qed.
Lemma slh_maxpkt l h d k : k_client_max_packet (set_lim_held l h d k) = k_client_max_packet k. Proof. reflexivity. Qed.
Lemma slh_amax l h d k : k_client_alias_max (set_lim_held l h d k) = k_client_alias_max k. Proof. reflexivity. Qed.
Lemma slh_alias l h d k : k_alias_out (set_lim_held l h d k) = k_alias_out k. Proof. reflexivity. Qed.

(* the fields of a connection that the poll loop never changes *)
Definition same_static (k k' : conn) : Prop :=
  k_cid k' = k_cid k /\ k_v k' = k_v k /\ k_phase k' = k_phase k /\ k_max_inflight k' = k_max_inflight k /\
  k_client_max_packet k' = k_client_max_packet k /\ k_client_alias_max k' = k_client_alias_max k.

Lemma same_static_refl k : same_static k k.
Proof. unfold same_static; auto 10. Qed.
Lemma same_static_trans a b c : same_static a b -> same_static b c -> same_static a c.
Proof. unfold same_static. intros (?&?&?&?&?&?) (?&?&?&?&?&?). repeat split; congruence. Qed.
Lemma same_static_slh l h d k : same_static k (set_lim_held l h d k).
Proof. unfold same_static; auto 10. Qed.

(* ------------------------------------------------------------------ *)
(* 1. the session queue: shape invariant without reference to a history *)
(* ------------------------------------------------------------------ *)

(* an in-flight entry carries a packet id; a queued one is a PUBLISH without id and DUP=0 *)
Definition idok (e : elem) : Prop := 1 <= e_id e <= MAXPID.
Definition quedok (e : elem) : Prop :=
  match e_body e with QPub m => m_pid m = 0 /\ m_dup m = false | QRel _ => False end.

(* ghost tags: PUBLISH entries carry distinct non-zero tags below the broker's counter, PUBREL entries tag 0 *)
Definition tag_ok (b : N) (e : elem) : Prop :=
  if is_pub e then e_tag e <> 0 /\ e_tag e < b else e_tag e = 0.

Record QInv (q : queue) (b : N) (inf que : list elem) : Prop := {
  qi_l : q_l q = inf ++ que;
  qi_inf : Forall idok inf;
  qi_que : Forall quedok que;
  qi_cur : (q_cur q <= length inf)%nat;
  qi_dr : q_drained q = true -> q_cur q = length inf;
  qi_nd : NoDup (map e_id inf);
  qi_tags : Forall (tag_ok b) (inf ++ que);
  qi_tnd : NoDup (pub_tags (inf ++ que)) }.

Lemma quedok_pub0 e : quedok e -> is_pub0 e = true.
Proof. unfold quedok, is_pub0. destruct (e_body e); [intros [H _]; now apply N.eqb_eq|tauto]. Qed.
Lemma quedok_id e : quedok e -> e_id e = 0.
Proof. intros H. apply is_pub0_id. now apply quedok_pub0. Qed.
Lemma quedok_is_pub e : quedok e -> is_pub e = true.
Proof. unfold quedok, is_pub. destruct (e_body e); tauto. Qed.
Lemma idok_nz e : idok e -> e_id e <> 0.
Proof. unfold idok. lia. Qed.

Lemma Forall_quedok_pub0 que : Forall quedok que -> Forall (fun e => is_pub0 e = true) que.
Proof. intros H. eapply Forall_impl; [|exact H]. apply quedok_pub0. Qed.
Lemma Forall_idok_nz inf : Forall idok inf -> Forall (fun e => e_id e <> 0) inf.
Proof. intros H. eapply Forall_impl; [|exact H]. apply idok_nz. Qed.

(* where an element of inf ++ que sits is decided by its id *)
Lemma nth_split_id inf que i d : Forall idok inf -> Forall quedok que ->
  nth_error (inf ++ que) i = Some d ->
  (e_id d <> 0 -> (i < length inf)%nat /\ nth_error inf i = Some d) /\
  (e_id d = 0 -> (length inf <= i)%nat /\ nth_error que (i - length inf) = Some d).
Proof.
  intros Hi Hq Hn. destruct (Nat.ltb_spec i (length inf)) as [Hlt|Hge].
  - rewrite nth_error_app1 in Hn by exact Hlt. split; [auto|].
    intros H0. apply nth_error_In in Hn. rewrite Forall_forall in Hi. apply Hi, idok_nz in Hn. contradiction.
  - rewrite nth_error_app2 in Hn by exact Hge. split; [|auto].
    intros Hnz. apply nth_error_In in Hn. rewrite Forall_forall in Hq. apply Hq, quedok_id in Hn. contradiction.
Qed.

Lemma pub_tags_app a b : pub_tags (a ++ b) = pub_tags a ++ pub_tags b.
Proof. unfold pub_tags. now rewrite filter_app, map_app. Qed.

Lemma pub_tags_remove_nth l : forall i, subseq (pub_tags (remove_nth i l)) (pub_tags l).
Proof.
  unfold pub_tags. induction l as [|x r IH]; intros [|i]; cbn [remove_nth filter map]; try constructor.
  - destruct (is_pub x); cbn [map]; [constructor|]; apply subseq_refl.
  - destruct (is_pub x); cbn [map]; [constructor|]; apply IH.
Qed.

Lemma tag_ok_mono b b' e : b <= b' -> tag_ok b e -> tag_ok b' e.
Proof. unfold tag_ok. destruct (is_pub e); [|auto]. intros H [H1 H2]. split; [auto|lia]. Qed.

(* in-place changes of bodies that keep tag and kind *)
Definition same_tag (e e' : elem) : Prop := e_tag e' = e_tag e /\ is_pub e' = is_pub e.

Lemma same_tag_refl e : same_tag e e. Proof. split; reflexivity. Qed.

Lemma pub_tags_same l l' : Forall2 same_tag l l' -> pub_tags l' = pub_tags l.
Proof.
  unfold pub_tags. intros H. induction H as [|e e' l l' [Ht Hp] H IH]; [reflexivity|].
  cbn [filter]. rewrite Hp. destruct (is_pub e); cbn [map]; [rewrite Ht|]; now rewrite IH.
Qed.

Lemma tag_ok_same b l l' : Forall2 same_tag l l' -> Forall (tag_ok b) l -> Forall (tag_ok b) l'.
Proof.
  intros H. induction H as [|e e' l l' [Ht Hp] H IH]; intros Hf; [constructor|].
  inversion Hf as [|? ? He Hl]; subst. constructor; [|auto].
  unfold tag_ok in *. rewrite Hp, Ht. exact He.
Qed.

Lemma Forall2_same_tag_refl l : Forall2 same_tag l l.
Proof. induction l; constructor; auto using same_tag_refl. Qed.

Lemma Forall2_map_r {A} (P : A -> A -> Prop) (f : A -> A) l : (forall x, In x l -> P x (f x)) -> Forall2 P l (map f l).
Proof. induction l as [|x r IH]; intros H; cbn [map]; constructor; [apply H; now left|apply IH; intros y Hy; apply H; now right]. Qed.

Lemma Forall2_app_inv_same {A} (P : A -> A -> Prop) a b a' b' :
  Forall2 P a a' -> Forall2 P b b' -> Forall2 P (a ++ b) (a' ++ b').
Proof. intros H1 H2. now apply Forall2_app. Qed.

(* ---- Add ---- *)
Lemma nth_error_skipn' {A} (l : list A) : forall n k, nth_error (skipn n l) k = nth_error l (n + k).
Proof. induction l as [|x r IH]; intros [|n] k; cbn [skipn nth_error Nat.add]; auto. now destruct k. Qed.

Lemma fei_some now : forall l i j, first_expired_inflight now l i = Some j ->
  exists k d, j = (i + k)%nat /\ nth_error l k = Some d /\ e_id d <> 0.
Proof.
  induction l as [|e r IH]; intros i j H; cbn [first_expired_inflight] in H; [discriminate|].
  destruct (e_id e =? 0) eqn:E0; [discriminate|].
  destruct (expired now e) eqn:Ex.
  - inversion H; subst. exists 0%nat, e. split; [lia|]. split; [reflexivity|]. lia.
  - destruct (IH _ _ H) as (k & d & -> & Hn & Hd). exists (S k), d. split; [lia|]. split; auto.
Qed.

Lemma add_scan_some now (P : nat -> Prop) : forall l i q0 j r,
  add_scan now l i q0 = SVictim j r ->
  (forall j0, q0 = Some j0 -> P j0) ->
  (forall k e, nth_error l k = Some e -> e_id e = 0 -> P (i + k)%nat) ->
  P j /\ (r = DExpired \/ r = DFull).
Proof.
  induction l as [|e l IH]; intros i q0 j r H Hq Hl; cbn [add_scan] in H.
  - destruct q0 as [j0|]; [|discriminate]. inversion H; subst. split; [now apply Hq|now right].
  - assert (Hl' : forall k e0, nth_error l k = Some e0 -> e_id e0 = 0 -> P (S i + k)%nat).
    { intros k e0 Hn H0. replace (S i + k)%nat with (i + S k)%nat by lia. apply (Hl (S k) e0); auto. }
    destruct (e_body e) as [m|p] eqn:Eb.
    + destruct ((m_pid m =? 0) && expired now e) eqn:E1.
      * inversion H; subst. split; [|now left]. replace j with (j + 0)%nat by lia. apply (Hl 0%nat e); [reflexivity|].
        unfold e_id. rewrite Eb. lia.
      * destruct ((m_pid m =? 0) && (m_qos m =? 0) && match q0 with None => true | Some _ => false end) eqn:E2.
        -- eapply IH; [exact H| |exact Hl']. intros j0 Hj0. inversion Hj0; subst.
           replace j0 with (j0 + 0)%nat by lia. apply (Hl 0%nat e); [reflexivity|]. unfold e_id. rewrite Eb. lia.
        -- eapply IH; [exact H|exact Hq|exact Hl'].
    + eapply IH; [exact H|exact Hq|exact Hl'].
Qed.

Lemma first_queued_some : forall l i j, first_queued l i = Some j ->
  exists k d, j = (i + k)%nat /\ nth_error l k = Some d /\ e_id d = 0.
Proof.
  induction l as [|e r IH]; intros i j H; cbn [first_queued] in H; [discriminate|].
  destruct (e_id e =? 0) eqn:E0.
  - inversion H; subst. exists 0%nat, e. split; [lia|]. split; [reflexivity|]. lia.
  - destruct (IH _ _ H) as (k & d & -> & Hn & Hd). exists (S k), d. split; [lia|]. split; auto.
Qed.

(* the victim of a full queue: either an in-flight entry (only for reason DExpiredInflight) or a queued one *)
Lemma add_victim_spec now e q i r :
  add_victim now e q = VOld i r ->
  (r = DExpiredInflight /\ exists d, nth_error (q_l q) i = Some d /\ e_id d <> 0) \/
  (r <> DExpiredInflight /\ (q_cur q <= i)%nat /\ forall d, nth_error (q_l q) i = Some d -> e_id d = 0).
Proof.
  unfold add_victim. intros H.
  destruct (first_expired_inflight now (q_l q) 0) as [j|] eqn:Ef.
  - inversion H; subst. left. split; [reflexivity|].
    destruct (fei_some _ _ _ _ Ef) as (k & d & -> & Hn & Hd). exists d. split; auto.
  - right. destruct (q_drained q && (q_cur q =? length (q_l q))%nat); [discriminate|].
    set (P := fun j => (q_cur q <= j)%nat /\ forall d, nth_error (q_l q) j = Some d -> e_id d = 0).
    destruct (add_scan now (skipn (q_cur q) (q_l q)) (q_cur q) None) as [|j r0] eqn:Es.
    + destruct (e_body e) as [m|p]; [|discriminate].
      destruct (m_qos m =? 0); [discriminate|].
      destruct (first_queued (skipn (q_cur q) (q_l q)) (q_cur q)) as [j|] eqn:Eq; [|discriminate].
      inversion H; subst. split; [discriminate|].
      destruct (first_queued_some _ _ _ Eq) as (k & d & -> & Hn & Hd).
      rewrite nth_error_skipn' in Hn. split; [lia|]. intros d' Hd'. congruence.
    + inversion H; subst.
      destruct (add_scan_some now P _ _ _ _ _ Es) as [[Hp1 Hp2] Hr].
      * intros j0 Hj0; discriminate.
      * intros k e0 Hn H0. rewrite nth_error_skipn' in Hn. split; [lia|]. intros d' Hd'. congruence.
      * split; [destruct Hr; subst; discriminate|]. split; assumption.
Qed.

Lemma pub_tags_lt b l t : Forall (tag_ok b) l -> In t (pub_tags l) -> t <> 0 /\ t < b.
Proof.
  unfold pub_tags. intros Hf Hin. apply in_map_iff in Hin. destruct Hin as (e & <- & He).
  apply filter_In in He. destruct He as [He Hp]. rewrite Forall_forall in Hf. apply Hf in He.
  unfold tag_ok in He. now rewrite Hp in He.
Qed.

Lemma tags_snoc b L e : Forall (tag_ok b) L -> NoDup (pub_tags L) -> quedok e -> e_tag e = b -> b <> 0 ->
  Forall (tag_ok (b + 1)) (L ++ [e]) /\ NoDup (pub_tags (L ++ [e])).
Proof.
  intros Hf Hn He Ht Hb. split.
  - apply Forall_app. split.
    + eapply Forall_impl; [|exact Hf]. intros x. apply tag_ok_mono. lia.
    + constructor; [|constructor]. unfold tag_ok. rewrite (quedok_is_pub _ He). lia.
  - rewrite pub_tags_app. unfold pub_tags at 2. cbn [filter]. rewrite (quedok_is_pub _ He). cbn [map].
    apply NoDup_snoc; [exact Hn|]. intros Hin. apply (pub_tags_lt b) in Hin; [lia|exact Hf].
Qed.

Lemma tags_remove b L i : Forall (tag_ok b) L -> NoDup (pub_tags L) ->
  Forall (tag_ok b) (remove_nth i L) /\ NoDup (pub_tags (remove_nth i L)).
Proof.
  intros Hf Hn. split; [now apply Forall_remove_nth|].
  eapply subseq_NoDup; [apply pub_tags_remove_nth|exact Hn].
Qed.

Lemma add_victim_new now e q r : add_victim now e q = VNew r -> r = DFull.
Proof.
  unfold add_victim. intros H.
  destruct (first_expired_inflight now (q_l q) 0); [discriminate|].
  destruct (q_drained q && (q_cur q =? length (q_l q))%nat); [now inversion H|].
  destruct (add_scan now (skipn (q_cur q) (q_l q)) (q_cur q) None); [|discriminate].
  destruct (e_body e); [|discriminate]. destruct (m_qos m =? 0); [now inversion H|].
  destruct (first_queued (skipn (q_cur q) (q_l q)) (q_cur q)); [discriminate|now inversion H].
Qed.

Definition qstat (q q' : queue) : Prop :=
  q_limit q' = q_limit q /\ q_v5 q' = q_v5 q /\ q_ifexp q' = q_ifexp q /\ q_closed q' = q_closed q.
Lemma qstat_refl q : qstat q q. Proof. unfold qstat; auto. Qed.
Lemma qstat_q_set l c d q : qstat q (q_set l c d q). Proof. unfold qstat; auto. Qed.
Lemma qstat_trans a b c : qstat a b -> qstat b c -> qstat a c.
Proof. unfold qstat. intros (?&?&?&?) (?&?&?&?). repeat split; congruence. Qed.

Definition no_inflight_drop (pool : list elem) (ev : qev) : Prop :=
  match ev with EvDropped d DExpiredInflight => False | EvDropped d _ => In d pool | _ => True end.

Lemma QInv_mono q b b' inf que : b <= b' -> QInv q b inf que -> QInv q b' inf que.
Proof.
  intros Hb [H1 H2 H3 H4 H5 H6 H7 H8]. constructor; auto.
  eapply Forall_impl; [|exact H7]. intros x. now apply tag_ok_mono.
Qed.

Lemma q_add_inv now e q b inf que q' evs :
  QInv q b inf que -> quedok e -> e_tag e = b -> b <> 0 ->
  q_add now e q = QOk (q', evs) ->
  qstat q q' /\ q_drained q' = q_drained q /\
  ((exists que', QInv q' (b + 1) inf que' /\ q_cur q' = q_cur q /\ Forall (no_inflight_drop (e :: que)) evs) \/
   (exists i d que', nth_error inf i = Some d /\ QInv q' (b + 1) (remove_nth i inf) que' /\
       q_cur q' = (if (i <? q_cur q)%nat then (q_cur q - 1)%nat else q_cur q) /\
       evs = [EvInflight (-1); EvDropped d DExpiredInflight])).
Proof.
  intros HI He Ht Hb Hadd. destruct HI as [Hl Hinf Hque Hcur Hdr Hnd Htags Htnd].
  unfold q_add in Hadd.
  assert (Hque' : Forall quedok (que ++ [e])) by (apply Forall_app; split; [exact Hque|constructor; [exact He|constructor]]).
  destruct (q_max q <=? length (q_l q))%nat eqn:Efull.
  - destruct (add_victim now e q) as [|r|i r] eqn:Ev; [discriminate| |].
    + inversion Hadd; subst q' evs. split; [apply qstat_refl|]. split; [reflexivity|]. left. exists que.
      split; [|split; [reflexivity|]].
      * apply QInv_mono with (b := b); [lia|]. constructor; auto.
      * apply add_victim_new in Ev. subst r. constructor; [|constructor]. cbn. now left.
    + destruct (nth_error (q_l q) i) as [d|] eqn:En; [|discriminate].
      inversion Hadd; subst q' evs. clear Hadd.
      split; [apply qstat_q_set|]. split; [reflexivity|].
      destruct (tags_remove b (inf ++ que) i Htags Htnd) as [Htr Htr'].
      destruct (tags_snoc b _ e Htr Htr' He Ht Hb) as [Hts Hts'].
      rewrite Hl in En. pose proof (nth_split_id inf que i d Hinf Hque En) as [Hin Hout].
      destruct (add_victim_spec _ _ _ _ _ Ev) as [[-> (d' & Hd' & Hnz)]|(Hr & Hci & H0)].
      * (* an expired in-flight entry *)
        rewrite Hl in Hd'. rewrite En in Hd'. inversion Hd'; subst d'.
        destruct (Hin Hnz) as [Hlt Hni]. right. exists i, d, (que ++ [e]).
        split; [exact Hni|]. split; [|split; reflexivity].
        rewrite Hl in *. rewrite remove_nth_app1 in * by exact Hlt.
        rewrite <- app_assoc in *.
        constructor; cbn [q_l q_cur q_drained q_set]; auto.
        -- now apply Forall_remove_nth.
        -- rewrite remove_nth_length by exact Hlt.
           destruct (i <? q_cur q)%nat eqn:Eic; [apply Nat.ltb_lt in Eic|apply Nat.ltb_ge in Eic]; lia.
        -- intros Hd. specialize (Hdr Hd). rewrite remove_nth_length by exact Hlt.
           destruct (i <? q_cur q)%nat eqn:Eic; [apply Nat.ltb_lt in Eic|apply Nat.ltb_ge in Eic]; lia.
        -- rewrite map_remove_nth. eapply subseq_NoDup; [apply subseq_remove_nth|exact Hnd].
      * (* a queued entry *)
        rewrite Hl in H0. specialize (H0 d En). destruct (Hout H0) as [Hge Hnq].
        left. exists (remove_nth (i - length inf) que ++ [e]).
        assert (Hi : i = (length inf + (i - length inf))%nat) by lia.
        assert (Ecur : (i <? q_cur q)%nat = false) by (apply Nat.ltb_ge; lia).
        rewrite Ecur. split; [|split; [reflexivity|]].
        -- rewrite Hl in *. rewrite Hi in Hts, Hts'. rewrite remove_nth_app2 in Hts, Hts'.
           rewrite <- app_assoc in Hts, Hts'.
           constructor; cbn [q_l q_cur q_drained q_set]; auto.
           ++ rewrite Hi at 1. rewrite remove_nth_app2. now rewrite <- app_assoc.
           ++ apply Forall_app. split; [now apply Forall_remove_nth|constructor; [exact He|constructor]].
        -- assert (Hdin : In d (e :: que)) by (right; eapply nth_error_In; exact Hnq).
           destruct r; cbn; try (constructor; [exact Hdin|constructor]). congruence.
  - inversion Hadd; subst q' evs. split; [apply qstat_q_set|]. split; [reflexivity|]. left. exists (que ++ [e]).
    destruct (tags_snoc b _ e Htags Htnd He Ht Hb) as [Hts Hts'].
    split; [|split; [reflexivity|constructor; [exact I|constructor]]].
    rewrite <- app_assoc in Hts, Hts'.
    constructor; cbn [q_l q_cur q_drained q_set]; auto. rewrite Hl. now rewrite <- app_assoc.
Qed.

(* ---- Remove, Replace ---- *)
Lemma find_id_some pid : forall l n i j, find_id pid l n i = Some j ->
  exists k d, j = (i + k)%nat /\ (k < n)%nat /\ nth_error l k = Some d /\ e_id d = pid.
Proof.
  induction l as [|e r IH]; intros [|n] i j H; cbn [find_id] in H; try discriminate.
  destruct (e_id e =? pid) eqn:E.
  - inversion H; subst. exists 0%nat, e. repeat split; [lia|lia|]. now apply N.eqb_eq.
  - destruct (IH _ _ _ H) as (k & d & -> & Hk & Hn & Hd). exists (S k), d. repeat split; [lia|lia|auto|auto].
Qed.

Lemma find_id_none pid : forall l n i, find_id pid l n i = None -> ~ In pid (map e_id (firstn n l)).
Proof.
  induction l as [|e r IH]; intros [|n] i H; cbn [find_id firstn map] in *; auto.
  destruct (e_id e =? pid) eqn:E; [discriminate|]. apply N.eqb_neq in E.
  intros [Hin|Hin]; [contradiction|]. eapply IH; eauto.
Qed.

Lemma Forall_replace_nth {A} (P : A -> Prop) y (l : list A) : Forall P l -> P y -> forall i, Forall P (replace_nth i y l).
Proof.
  intros H Hy. induction H as [|x r Hx H IH]; intros [|i]; cbn [replace_nth]; constructor; auto.
Qed.

Lemma pub_tags_replace_rel l e : is_pub e = false -> forall i, subseq (pub_tags (replace_nth i e l)) (pub_tags l).
Proof.
  unfold pub_tags. intros He. induction l as [|x r IH]; intros [|i]; cbn [replace_nth filter map]; try constructor.
  - rewrite He. destruct (is_pub x); cbn [map]; [constructor|]; apply subseq_refl.
  - destruct (is_pub x); cbn [map]; [constructor|]; apply IH.
Qed.

Lemma map_replace_nth_id (l : list elem) e : forall i d, nth_error l i = Some d -> e_id e = e_id d ->
  map e_id (replace_nth i e l) = map e_id l.
Proof.
  induction l as [|x r IH]; intros [|i] d Hn He; cbn [replace_nth map nth_error] in *; try discriminate.
  - inversion Hn; subst. now rewrite He.
  - f_equal. eapply IH; eauto.
Qed.

Lemma firstn_app_le {A} (a b : list A) n : (n <= length a)%nat -> firstn n (a ++ b) = firstn n a.
Proof. intros H. rewrite firstn_app. replace (n - length a)%nat with 0%nat by lia. cbn [firstn]. apply app_nil_r. Qed.

Lemma q_remove_inv pid q b inf que : QInv q b inf que ->
  qstat q (fst (q_remove pid q)) /\ q_drained (fst (q_remove pid q)) = q_drained q /\
  ((exists i d, (i < q_cur q)%nat /\ nth_error inf i = Some d /\ e_id d = pid /\
                QInv (fst (q_remove pid q)) b (remove_nth i inf) que /\
                q_cur (fst (q_remove pid q)) = (q_cur q - 1)%nat) \/
   (fst (q_remove pid q) = q /\ ~ In pid (map e_id (firstn (q_cur q) inf)))).
Proof.
  intros [Hl Hinf Hque Hcur Hdr Hnd Htags Htnd]. unfold q_remove.
  destruct (find_id pid (q_l q) (q_cur q) 0) as [i|] eqn:Ef; cbn [fst].
  - split; [apply qstat_q_set|]. split; [reflexivity|]. left.
    destruct (find_id_some _ _ _ _ _ Ef) as (k & d & -> & Hk & Hn & Hd). cbn [Nat.add].
    assert (Hlt : (k < length inf)%nat) by lia.
    rewrite Hl in Hn. rewrite nth_error_app1 in Hn by exact Hlt.
    exists k, d. split; [exact Hk|]. split; [exact Hn|]. split; [exact Hd|]. split; [|reflexivity].
    destruct (tags_remove b (inf ++ que) k Htags Htnd) as [Htr Htr'].
    rewrite Hl. rewrite remove_nth_app1 in * by exact Hlt.
    constructor; cbn [q_l q_cur q_drained q_set]; auto.
    + now apply Forall_remove_nth.
    + rewrite remove_nth_length by exact Hlt. lia.
    + intros Hd'. specialize (Hdr Hd'). rewrite remove_nth_length by exact Hlt. lia.
    + rewrite map_remove_nth. eapply subseq_NoDup; [apply subseq_remove_nth|exact Hnd].
  - split; [apply qstat_refl|]. split; [reflexivity|]. right. split; [reflexivity|].
    apply find_id_none in Ef. rewrite Hl in Ef. now rewrite firstn_app_le in Ef by exact Hcur.
Qed.

Lemma q_replace_inv e pid q b inf que : QInv q b inf que -> e_body e = QRel pid -> e_tag e = 0 ->
  qstat q (fst (q_replace e q)) /\ q_drained (fst (q_replace e q)) = q_drained q /\
  q_cur (fst (q_replace e q)) = q_cur q /\
  ((exists i d, (i < q_cur q)%nat /\ nth_error inf i = Some d /\ e_id d = pid /\
                QInv (fst (q_replace e q)) b (replace_nth i e inf) que /\
                map e_id (replace_nth i e inf) = map e_id inf) \/
   (fst (q_replace e q) = q /\ ~ In pid (map e_id (firstn (q_cur q) inf)))).
Proof.
  intros [Hl Hinf Hque Hcur Hdr Hnd Htags Htnd] Hb Ht. unfold q_replace.
  assert (Hid : e_id e = pid) by (unfold e_id; now rewrite Hb).
  assert (Hp : is_pub e = false) by (unfold is_pub; now rewrite Hb).
  rewrite Hid.
  destruct (find_id pid (q_l q) (q_cur q) 0) as [i|] eqn:Ef; cbn [fst].
  - split; [apply qstat_q_set|]. split; [reflexivity|]. split; [reflexivity|]. left.
    destruct (find_id_some _ _ _ _ _ Ef) as (k & d & -> & Hk & Hn & Hd). cbn [Nat.add].
    assert (Hlt : (k < length inf)%nat) by lia.
    rewrite Hl in Hn. rewrite nth_error_app1 in Hn by exact Hlt.
    assert (Hmap : map e_id (replace_nth k e inf) = map e_id inf)
      by (eapply map_replace_nth_id; [exact Hn|congruence]).
    exists k, d. split; [exact Hk|]. split; [exact Hn|]. split; [exact Hd|]. split; [|exact Hmap].
    assert (Hde : idok e).
    { unfold idok. rewrite Hid, <- Hd. rewrite Forall_forall in Hinf. apply Hinf. eapply nth_error_In; eauto. }
    rewrite Hl. rewrite replace_nth_app1 by exact Hlt.
    constructor; cbn [q_l q_cur q_drained q_set]; auto.
    + now apply Forall_replace_nth.
    + rewrite replace_nth_length. exact Hcur.
    + rewrite replace_nth_length. exact Hdr.
    + now rewrite Hmap.
    + rewrite <- replace_nth_app1 by exact Hlt. apply Forall_replace_nth; [exact Htags|].
      unfold tag_ok. now rewrite Hp.
    + rewrite <- replace_nth_app1 by exact Hlt.
      eapply subseq_NoDup; [apply pub_tags_replace_rel; exact Hp|exact Htnd].
  - split; [apply qstat_refl|]. split; [reflexivity|]. split; [reflexivity|]. right. split; [reflexivity|].
    apply find_id_none in Ef. rewrite Hl in Ef. now rewrite firstn_app_le in Ef by exact Hcur.
Qed.

(* ---- ReadInflight and the DUP marking of pollInflights ---- *)
Definition dupmark (rs : list elem) (e : elem) : elem :=
  match e_body e with
  | QPub m => if existsb (fun r => e_tag r =? e_tag e) rs then with_body (QPub (as_dup m)) e else e
  | QRel _ => e
  end.

Lemma etouch_id now ifexp e : e_id (etouch now ifexp e) = e_id e.
Proof. unfold etouch. destruct (ifexp =? 0); reflexivity. Qed.
Lemma etouch_body now ifexp e : e_body (etouch now ifexp e) = e_body e.
Proof. unfold etouch. destruct (ifexp =? 0); reflexivity. Qed.
Lemma etouch_tag now ifexp e : e_tag (etouch now ifexp e) = e_tag e.
Proof. unfold etouch. destruct (ifexp =? 0); reflexivity. Qed.
Lemma etouch_at now ifexp e : e_at (etouch now ifexp e) = e_at e.
Proof. unfold etouch. destruct (ifexp =? 0); reflexivity. Qed.
Lemma etouch_same_tag now ifexp e : same_tag e (etouch now ifexp e).
Proof. unfold same_tag, is_pub. now rewrite etouch_tag, etouch_body. Qed.
Lemma etouch_idok now ifexp e : idok e -> idok (etouch now ifexp e).
Proof. unfold idok. now rewrite etouch_id. Qed.

Lemma dupmark_id rs e : e_id (dupmark rs e) = e_id e.
Proof.
  unfold dupmark, e_id. destruct (e_body e) as [m|p] eqn:Eb; [|now rewrite Eb].
  destruct (existsb _ rs); cbn [e_body with_body as_dup m_pid]; [reflexivity|now rewrite Eb].
Qed.
Lemma dupmark_same_tag rs e : same_tag e (dupmark rs e).
Proof.
  unfold dupmark, same_tag, is_pub. destruct (e_body e) as [m|p] eqn:Eb; [|now rewrite Eb].
  destruct (existsb _ rs); cbn [e_body e_tag with_body]; [auto|now rewrite Eb].
Qed.
Lemma dupmark_idok rs e : idok e -> idok (dupmark rs e).
Proof. unfold idok. now rewrite dupmark_id. Qed.

Lemma map_id_map (f : elem -> elem) l : (forall e, e_id (f e) = e_id e) -> map e_id (map f l) = map e_id l.
Proof. intros H. rewrite map_map. apply map_ext. exact H. Qed.

Lemma pub_tags_In l e : In e l -> is_pub e = true -> In (e_tag e) (pub_tags l).
Proof. intros Hin Hp. unfold pub_tags. apply in_map. apply filter_In. auto. Qed.

Lemma NoDup_app_disj {A} (a b : list A) x : NoDup (a ++ b) -> In x a -> In x b -> False.
Proof.
  induction a as [|y a IH]; cbn [app In]; intros Hn Ha Hb; [contradiction|].
  inversion Hn as [|? ? Hy Hn']; subst. destruct Ha as [->|Ha]; [|eauto].
  apply Hy. apply in_or_app. now right.
Qed.

(* the queued entries are not touched by the marking: their tags differ from those of the in-flight ones *)
Lemma dupmark_que b inf que rs e :
  Forall (tag_ok b) (inf ++ que) -> NoDup (pub_tags (inf ++ que)) -> Forall quedok que ->
  (forall r, In r rs -> exists x, In x inf /\ e_tag r = e_tag x /\ is_pub r = is_pub x) ->
  In e que -> dupmark rs e = e.
Proof.
  intros Htags Htnd Hque Hrs Hin. unfold dupmark.
  destruct (e_body e) as [m|p] eqn:Eb; [|reflexivity].
  destruct (existsb (fun r => e_tag r =? e_tag e) rs) eqn:Ex; [|reflexivity].
  exfalso. apply existsb_exists in Ex. destruct Ex as (r & Hr & Ht). apply N.eqb_eq in Ht.
  destruct (Hrs r Hr) as (x & Hx & Htx & Hpx).
  rewrite Forall_forall in Hque. pose proof (quedok_is_pub _ (Hque e Hin)) as Hpe.
  rewrite Forall_forall in Htags.
  destruct (is_pub x) eqn:Epx.
  - rewrite pub_tags_app in Htnd. eapply (NoDup_app_disj _ _ (e_tag e) Htnd).
    + rewrite <- Ht, Htx. now apply pub_tags_In.
    + now apply pub_tags_In.
  - assert (Hx0 : tag_ok b x) by (apply Htags; apply in_or_app; now left).
    assert (He0 : tag_ok b e) by (apply Htags; apply in_or_app; now right).
    unfold tag_ok in Hx0, He0. rewrite Epx in Hx0. rewrite Hpe in He0. destruct He0. congruence.
Qed.

Lemma map_id_eq {A} (f : A -> A) l : (forall x, In x l -> f x = x) -> map f l = l.
Proof. induction l as [|x r IH]; intros H; cbn [map]; [reflexivity|]. rewrite H by now left. f_equal. apply IH. intros y Hy. apply H. now right. Qed.

Lemma Forall_firstn' {A} (P : A -> Prop) l : Forall P l -> forall n, Forall P (firstn n l).
Proof. intros H. induction H; intros [|n]; cbn [firstn]; auto. Qed.

Lemma In_firstn {A} (x : A) l : forall n, In x (firstn n l) -> In x l.
Proof. induction l as [|y r IH]; intros [|n]; cbn [firstn In]; try tauto. intros [H|H]; [now left|right; eauto]. Qed.
Lemma In_skipn {A} (x : A) l : forall n, In x (skipn n l) -> In x l.
Proof. induction l as [|y r IH]; intros [|n]; cbn [skipn In]; try tauto. intros H. right; eauto. Qed.

Lemma q_replay_inv now n q b inf que q' rs :
  QInv q b inf que -> q_read_inflight now n q = (q', rs) ->
  exists m,
    let mid := skipn (q_cur q) inf in
    let inf' := firstn (q_cur q) inf ++ map (etouch now (q_ifexp q)) (firstn m mid) ++ skipn m mid in
    rs = map (etouch now (q_ifexp q)) (firstn m mid) /\
    q_cur q' = (q_cur q + length (firstn m mid))%nat /\
    (1 <= n -> mid <> [] -> 1 <= m)%nat /\
    qstat q q' /\
    QInv q' b inf' que /\
    QInv (q_set (map (dupmark rs) (q_l q')) (q_cur q') (q_drained q') q') b (map (dupmark rs) inf') que.
Proof.
  intros HI Hr. pose proof HI as [Hl Hinf Hque Hcur Hdr Hnd Htags Htnd].
  unfold q_read_inflight in Hr.
  assert (Hsplit : inf = firstn (q_cur q) inf ++ skipn (q_cur q) inf) by (symmetry; apply firstn_skipn).
  assert (Hlenpre : length (firstn (q_cur q) inf) = q_cur q) by (rewrite firstn_length; lia).
  destruct ((length (q_l q) =? 0)%nat || (q_cur q =? length (q_l q))%nat) eqn:E0.
  - inversion Hr; subst q' rs. clear Hr. exists 0%nat. cbn zeta.
    assert (Hc : q_cur q = length inf /\ que = []).
    { rewrite Hl, app_length in E0. destruct que; cbn [length] in *; [split; [lia|reflexivity]|lia]. }
    destruct Hc as [Hc ->].
    assert (Hmid : skipn (q_cur q) inf = []) by (apply skipn_all2; lia).
    rewrite Hmid. cbn [firstn skipn map length]. rewrite !app_nil_r in *.
    assert (Hpre : firstn (q_cur q) inf = inf) by (apply firstn_all2; lia).
    rewrite Hpre.
    split; [reflexivity|]. split; [cbn [q_cur q_set]; lia|]. split; [congruence|]. split; [apply qstat_q_set|].
    assert (Hdm : map (dupmark []) inf = inf).
    { apply map_id_eq. intros x _. unfold dupmark. destruct (e_body x); reflexivity. }
    split.
    + constructor; cbn [q_l q_cur q_drained q_set]; rewrite ?app_nil_r; auto; lia.
    + cbn [q_l q_cur q_drained q_set]. rewrite Hl, Hdm. constructor; cbn [q_l q_cur q_drained q_set]; rewrite ?app_nil_r; auto; lia.
  - set (n' := Nat.min n (length (q_l q))) in Hr.
    set (pre := firstn (q_cur q) inf) in *. set (mid := skipn (q_cur q) inf) in *.
    assert (Hl' : q_l q = pre ++ mid ++ que) by (rewrite Hl, Hsplit at 1; now rewrite <- app_assoc).
    assert (Hmidnz : Forall (fun e => e_id e <> 0) mid).
    { apply Forall_idok_nz. unfold mid. now apply Forall_skipn'. }
    pose proof (rif_loop_spec now (q_ifexp q) que (Forall_quedok_pub0 _ Hque) n' mid pre [] Hmidnz) as Hspec.
    rewrite <- Hl', Hlenpre in Hspec. rewrite Hspec in Hr. cbn [app] in Hr.
    inversion Hr; subst q' rs. clear Hr. exists n'. cbn zeta. fold pre mid.
    set (tm := map (etouch now (q_ifexp q)) (firstn n' mid)).
    assert (Hinf' : Forall idok (pre ++ tm ++ skipn n' mid)).
    { apply Forall_app. split; [unfold pre; now apply Forall_firstn'|]. apply Forall_app. split.
      - unfold tm. apply Forall_forall. intros x Hx. apply in_map_iff in Hx. destruct Hx as (y & <- & Hy).
        apply etouch_idok. apply In_firstn in Hy. unfold mid in Hy. apply In_skipn in Hy.
        rewrite Forall_forall in Hinf. now apply Hinf.
      - apply Forall_skipn'. unfold mid. now apply Forall_skipn'. }
    assert (Hids : map e_id (pre ++ tm ++ skipn n' mid) = map e_id inf).
    { rewrite Hsplit at 1. rewrite !map_app. f_equal. unfold tm.
      rewrite map_id_map by apply etouch_id. rewrite <- map_app. now rewrite firstn_skipn. }
    assert (Hst : Forall2 same_tag (inf ++ que) ((pre ++ tm ++ skipn n' mid) ++ que)).
    { apply Forall2_app; [|apply Forall2_same_tag_refl]. rewrite Hsplit at 1.
      apply Forall2_app; [apply Forall2_same_tag_refl|]. rewrite <- (firstn_skipn n' mid) at 1.
      apply Forall2_app; [|apply Forall2_same_tag_refl]. unfold tm. apply Forall2_map_r.
      intros x _. apply etouch_same_tag. }
    assert (Hlen : length (pre ++ tm ++ skipn n' mid) = length inf).
    { rewrite <- (map_length e_id), Hids. apply map_length. }
    assert (Hlf : (length (firstn n' mid) <= length mid)%nat) by (rewrite firstn_length; lia).
    assert (Hlm : (q_cur q + length mid = length inf)%nat).
    { rewrite Hsplit at 1. rewrite app_length. lia. }
    assert (HQ' : QInv (q_set (pre ++ tm ++ skipn n' mid ++ que) (q_cur q + length (firstn n' mid))
                              (q_drained q || (length mid <? n')%nat && negb (isnil que)) q) b (pre ++ tm ++ skipn n' mid) que).
    { constructor; cbn [q_l q_cur q_drained q_set]; auto.
      - now rewrite <- !app_assoc.
      - rewrite Hlen. lia.
      - intros Hd. rewrite Hlen. apply orb_true_iff in Hd. destruct Hd as [Hd|Hd]; [specialize (Hdr Hd)|].
        + assert (length mid = 0)%nat by lia. lia.
        + apply andb_true_iff in Hd. destruct Hd as [Hd _]. apply Nat.ltb_lt in Hd.
          rewrite firstn_all2 by lia. lia.
      - now rewrite Hids.
      - eapply tag_ok_same; [exact Hst|exact Htags].
      - rewrite (pub_tags_same _ _ Hst). exact Htnd. }
    split; [reflexivity|]. split; [reflexivity|]. split.
    { intros Hn1 Hmid. unfold n'. rewrite Hl, app_length in *.
      destruct (length inf + length que)%nat eqn:El; [|lia].
      assert (length inf = 0)%nat by lia. destruct inf; [|discriminate]. unfold mid in Hmid.
      rewrite skipn_nil in Hmid. congruence. }
    split; [apply qstat_q_set|]. split; [exact HQ'|].
    destruct HQ' as [Hl2 Hinf2 Hque2 Hcur2 Hdr2 Hnd2 Htags2 Htnd2]. cbn [q_l q_cur q_drained q_set] in *.
    assert (Hdq : map (dupmark tm) que = que).
    { apply map_id_eq. intros e He. eapply (dupmark_que b _ que tm e Htags2 Htnd2 Hque); [|exact He].
      intros r Hr. unfold tm in Hr. apply in_map_iff in Hr. destruct Hr as (y & <- & Hy).
      exists (etouch now (q_ifexp q) y). split; [|split; reflexivity].
      apply in_or_app. right. apply in_or_app. left. unfold tm. now apply in_map. }
    assert (Hst2 : Forall2 same_tag ((pre ++ tm ++ skipn n' mid) ++ que) (map (dupmark tm) (pre ++ tm ++ skipn n' mid) ++ que)).
    { apply Forall2_app; [|apply Forall2_same_tag_refl]. apply Forall2_map_r. intros x _. apply dupmark_same_tag. }
    constructor; cbn [q_l q_cur q_drained q_set]; auto.
    + rewrite Hl2, map_app, Hdq. reflexivity.
    + apply Forall_forall. intros x Hx. apply in_map_iff in Hx. destruct Hx as (y & <- & Hy).
      apply dupmark_idok. rewrite Forall_forall in Hinf2. now apply Hinf2.
    + now rewrite map_length.
    + rewrite map_length. exact Hdr2.
    + rewrite map_id_map by apply dupmark_id. exact Hnd2.
    + eapply tag_ok_same; [exact Hst2|exact Htags2].
    + rewrite (pub_tags_same _ _ Hst2). exact Htnd2.
Qed.

(* ---- Read ---- *)
Definition sent12 (e : elem) : bool := match e_body e with QPub m => negb (m_qos m =? 0) | QRel _ => false end.

(* what Read hands to the poll loop: a queued PUBLISH within the size limit, unchanged (QoS 0) or with one of
   the offered packet ids *)
Definition read_from (limit : N) (v5 : bool) (que : list elem) (pids : list N) (r : elem) : Prop :=
  exists v m, In v que /\ e_body v = QPub m /\ msg_total_bytes v5 m <= limit /\ e_at r = e_at v /\ e_tag r = e_tag v /\
    ((m_qos m = 0 /\ r = v) \/ (m_qos m <> 0 /\ exists p, In p pids /\ e_body r = QPub (set_pid p m))).

Definition read_drop (que : list elem) (ev : qev) : Prop :=
  exists d, In d que /\ (ev = EvDropped d DExpired \/ ev = EvDropped d DExceedsMax).

Lemma subseq_pub_tags a b : subseq a b -> subseq (pub_tags a) (pub_tags b).
Proof.
  unfold pub_tags. intros H. induction H as [|x l m H IH|x l m H IH]; cbn [filter map]; [constructor| |].
  - destruct (is_pub x); cbn [map]; [constructor|]; exact IH.
  - destruct (is_pub x); cbn [map]; [constructor|]; exact IH.
Qed.

Lemma hand_same_tag now ifexp p m v : e_body v = QPub m -> same_tag v (hand now ifexp p m v).
Proof. intros Hb. unfold same_tag, hand, is_pub. rewrite Hb. destruct (ifexp =? 0); cbn; auto. Qed.
Lemma hand_body now ifexp p m v : e_body (hand now ifexp p m v) = QPub (set_pid p m).
Proof. unfold hand. destruct (ifexp =? 0); reflexivity. Qed.
Lemma hand_at now ifexp p m v : e_at (hand now ifexp p m v) = e_at v.
Proof. unfold hand. destruct (ifexp =? 0); reflexivity. Qed.
Lemma hand_tag now ifexp p m v : e_tag (hand now ifexp p m v) = e_tag v.
Proof. unfold hand. destruct (ifexp =? 0); reflexivity. Qed.
Lemma hand_id now ifexp p m v : e_id (hand now ifexp p m v) = p.
Proof. unfold e_id. now rewrite hand_body. Qed.

Lemma read_from_weaken limit v5 que que' pids pids' r :
  (forall x, In x que -> In x que') -> (forall x, In x pids -> In x pids') ->
  read_from limit v5 que pids r -> read_from limit v5 que' pids' r.
Proof.
  intros Hq Hp (v & m & Hv & Hb & Hs & Ha & Ht & Hc). exists v, m. repeat split; auto.
  destruct Hc as [Hc|(Hc & p & Hp' & Hb')]; [now left|right]. split; [exact Hc|]. exists p. auto.
Qed.

Lemma read_loop_inv now limit v5 ifexp : forall n que inf pids dq di evs rs l' cur' dq' di' evs' rs',
  Forall quedok que ->
  read_loop now n pids (inf ++ que) (length inf) limit v5 ifexp dq di evs rs = Some (l', cur', dq', di', evs', rs') ->
  exists inf2 que2 rs2 evs2 sub,
    l' = (inf ++ inf2) ++ que2 /\ cur' = length (inf ++ inf2) /\ rs' = rs ++ rs2 /\ evs' = evs ++ evs2 /\
    subseq que2 que /\ subseq sub que /\ Forall2 same_tag sub (inf2 ++ que2) /\
    map e_id inf2 = firstn (length inf2) pids /\
    inf2 = filter sent12 rs2 /\
    Forall (read_from limit v5 que pids) rs2 /\
    Forall (read_drop que) evs2.
Proof.
  induction n as [|n IH]; intros que inf pids dq di evs rs l' cur' dq' di' evs' rs' Hque H; cbn [read_loop] in H.
  - inversion H; subst. exists [], que, [], [], que. rewrite !app_nil_r. cbn [length firstn map filter app].
    repeat split; auto using subseq_refl, Forall2_same_tag_refl.
  - rewrite nth_error_mid in H. destruct que as [|v que]; cbn [hd_error] in H.
    + inversion H; subst. exists [], [], [], [], []. rewrite !app_nil_r. cbn [length firstn map filter app].
      repeat split; auto using subseq_refl, Forall2_same_tag_refl.
    + inversion Hque as [|? ? Hv Hque']; subst.
      assert (Hsub : forall x, In x que -> In x (v :: que)) by (intros x Hx; now right).
      assert (Hdrop : forall ev evs2, read_drop (v :: que) ev -> Forall (read_drop que) evs2 -> Forall (read_drop (v :: que)) (ev :: evs2)).
      { intros ev evs2 Hev Hf. constructor; [exact Hev|]. eapply Forall_impl; [|exact Hf].
        intros a (d & Hd & Ha). exists d. split; [now right|exact Ha]. }
      assert (Hrf : forall pp rs2, Forall (read_from limit v5 que pp) rs2 -> (forall x, In x pp -> In x pids) ->
                                   Forall (read_from limit v5 (v :: que) pids) rs2).
      { intros pp rs2 Hf Hpp. eapply Forall_impl; [|exact Hf]. intros a. now apply read_from_weaken. }
      destruct (expired now v) eqn:Eexp.
      { rewrite remove_nth_mid in H.
        destruct (IH _ _ _ _ _ _ _ _ _ _ _ _ _ Hque' H) as (inf2 & que2 & rs2 & evs2 & sub & -> & -> & -> & -> & Hs1 & Hs2 & Hst & Hids & Hf & Hrs & Hev).
        exists inf2, que2, rs2, (EvDropped v DExpired :: evs2), sub.
        repeat split; auto; try (now constructor); try (now rewrite <- !app_assoc).
        - eapply Hrf; [exact Hrs|auto].
        - apply Hdrop; [|exact Hev]. exists v. split; [now left|now left]. }
      unfold quedok in Hv. destruct (e_body v) as [m|p] eqn:Eb; [|contradiction]. destruct Hv as [Hpid Hdup].
      destruct (limit <? msg_total_bytes v5 m) eqn:Esz.
      { rewrite remove_nth_mid in H.
        destruct (IH _ _ _ _ _ _ _ _ _ _ _ _ _ Hque' H) as (inf2 & que2 & rs2 & evs2 & sub & -> & -> & -> & -> & Hs1 & Hs2 & Hst & Hids & Hf & Hrs & Hev).
        exists inf2, que2, rs2, (EvDropped v DExceedsMax :: evs2), sub.
        repeat split; auto; try (now constructor); try (now rewrite <- !app_assoc).
        - eapply Hrf; [exact Hrs|auto].
        - apply Hdrop; [|exact Hev]. exists v. split; [now left|now right]. }
      destruct (m_qos m =? 0) eqn:Eq0.
      { rewrite remove_nth_mid in H.
        destruct (IH _ _ _ _ _ _ _ _ _ _ _ _ _ Hque' H) as (inf2 & que2 & rs2 & evs2 & sub & -> & -> & -> & -> & Hs1 & Hs2 & Hst & Hids & Hf & Hrs & Hev).
        exists inf2, que2, (v :: rs2), evs2, sub.
        repeat split; auto; try (now constructor); try (now rewrite <- !app_assoc).
        - cbn [filter]. unfold sent12 at 1. rewrite Eb, Eq0. exact Hf.
        - constructor; [|eapply Hrf; [exact Hrs|auto]].
          exists v, m. repeat split; auto; [now left|lia|]. left. split; [lia|reflexivity].
        - eapply Forall_impl; [|exact Hev]. intros a (d & Hd & Ha). exists d. split; [now right|exact Ha]. }
      destruct pids as [|p pids]; [discriminate|].
      rewrite replace_nth_mid in H.
      change (with_body (QPub (set_pid p m)) v) with (with_body (QPub (set_pid p m)) v) in H.
      set (v' := if ifexp =? 0 then with_body (QPub (set_pid p m)) v
                 else with_expiry (Some (now + ifexp)) (with_body (QPub (set_pid p m)) v)) in H.
      assert (Hv' : v' = hand now ifexp p m v) by reflexivity.
      replace (inf ++ v' :: que) with ((inf ++ [v']) ++ que) in H by (rewrite <- app_assoc; reflexivity).
      replace (S (length inf)) with (length (inf ++ [v'])) in H by (rewrite app_length; cbn [length]; lia).
      destruct (IH _ _ _ _ _ _ _ _ _ _ _ _ _ Hque' H) as (inf2 & que2 & rs2 & evs2 & sub & -> & -> & -> & -> & Hs1 & Hs2 & Hst & Hids & Hf & Hrs & Hev).
      exists (v' :: inf2), que2, (v' :: rs2), evs2, (v :: sub).
      repeat split; auto; try (now constructor); try (now rewrite <- !app_assoc).
      * constructor; [|exact Hst]. rewrite Hv'. now apply hand_same_tag.
      * cbn [map length firstn]. rewrite Hids. f_equal. rewrite Hv'. apply hand_id.
      * cbn [filter]. unfold sent12 at 1. rewrite Hv', hand_body. cbn [m_qos set_pid]. rewrite Eq0. cbn [negb].
        now rewrite <- Hf.
      * constructor; [|eapply Hrf; [exact Hrs|intros x Hx; now right]].
        exists v, m. rewrite Hv', hand_at, hand_tag, hand_body. repeat split; auto; [now left|lia|].
        right. split; [lia|]. exists p. split; [now left|reflexivity].
      * eapply Forall_impl; [|exact Hev]. intros a (d & Hd & Ha). exists d. split; [now right|exact Ha].
Qed.

Lemma NoDup_app_intro {A} (a b : list A) : NoDup a -> NoDup b -> (forall x, In x a -> In x b -> False) -> NoDup (a ++ b).
Proof.
  induction a as [|x a IH]; cbn [app]; intros Ha Hb Hd; [exact Hb|].
  inversion Ha as [|? ? Hx Ha']; subst. constructor.
  - intros Hin. apply in_app_or in Hin. destruct Hin as [Hin|Hin]; [contradiction|]. apply (Hd x); [now left|exact Hin].
  - apply IH; auto. intros y Hy. apply Hd. now right.
Qed.

Lemma NoDup_firstn {A} (l : list A) : NoDup l -> forall n, NoDup (firstn n l).
Proof. intros H n. eapply subseq_NoDup; [|exact H]. revert n. induction l as [|x r IH]; intros [|n]; cbn [firstn]; try constructor.
  - apply subseq_nil.
  - inversion H; subst. auto. Qed.

Lemma Forall_subseq {A} (P : A -> Prop) a b : subseq a b -> Forall P b -> Forall P a.
Proof. intros Hs Hf. apply Forall_forall. intros x Hx. rewrite Forall_forall in Hf. apply Hf. eapply subseq_in; eauto. Qed.

Lemma q_read_inv now pids q b inf que q' rs evs :
  QInv q b inf que -> q_read now pids q = QOk (q', rs, evs) ->
  Forall (fun p => 1 <= p <= MAXPID) pids -> NoDup pids -> (forall p, In p pids -> ~ In p (map e_id inf)) ->
  exists inf2 que2,
    QInv q' b (inf ++ inf2) que2 /\ qstat q q' /\ q_drained q' = true /\
    q_cur q = length inf /\ q_cur q' = length (inf ++ inf2) /\
    map e_id inf2 = firstn (length inf2) pids /\ inf2 = filter sent12 rs /\
    Forall (read_from (q_limit q) (q_v5 q) que pids) rs /\
    subseq que2 que /\
    exists evs2 dq di, evs = evs2 ++ [EvQueue dq; EvInflight di] /\ Forall (read_drop que) evs2.
Proof.
  intros [Hl Hinf Hque Hcur Hdr Hnd Htags Htnd] Hr Hrange Hndp Hdisj. unfold q_read in Hr.
  destruct (q_drained q) eqn:Ed; cbn [negb] in Hr; [|discriminate]. specialize (Hdr eq_refl).
  destruct (q_closed q); [discriminate|].
  destruct (q_cur q =? length (q_l q))%nat; [discriminate|].
  rewrite Hl, Hdr in Hr.
  destruct (read_loop now (Nat.min (length (inf ++ que)) (length pids)) pids (inf ++ que) (length inf) (q_limit q)
                      (q_v5 q) (q_ifexp q) 0 0 [] []) as [[[[[[l' cur'] dq'] di'] evs'] rs']|] eqn:Erl; [|discriminate].
  inversion Hr; subst q' rs evs. clear Hr.
  destruct (read_loop_inv _ _ _ _ _ _ _ _ _ _ _ _ _ _ _ _ _ _ Hque Erl)
    as (inf2 & que2 & rs2 & evs2 & sub & -> & -> & -> & -> & Hs1 & Hs2 & Hst & Hids & Hf & Hrs & Hev).
  cbn [app] in *. exists inf2, que2.
  assert (Hst' : Forall2 same_tag (inf ++ sub) ((inf ++ inf2) ++ que2)).
  { rewrite <- app_assoc. apply Forall2_app; [apply Forall2_same_tag_refl|exact Hst]. }
  assert (Hss : subseq (inf ++ sub) (inf ++ que)) by (apply subseq_app; [apply subseq_refl|exact Hs2]).
  split.
  { constructor; cbn [q_l q_cur q_drained q_set]; auto.
    - apply Forall_app. split; [exact Hinf|]. apply Forall_forall. intros x Hx. unfold idok.
      assert (Hin : In (e_id x) (firstn (length inf2) pids)) by (rewrite <- Hids; now apply in_map).
      apply In_firstn in Hin. rewrite Forall_forall in Hrange. now apply Hrange.
    - eapply Forall_subseq; eauto.
    - rewrite map_app. apply NoDup_app_intro; [exact Hnd|rewrite Hids; now apply NoDup_firstn|].
      intros x Hx1 Hx2. rewrite Hids in Hx2. apply In_firstn in Hx2. eapply Hdisj; eauto.
    - eapply tag_ok_same; [exact Hst'|]. eapply Forall_subseq; eauto.
    - rewrite (pub_tags_same _ _ Hst'). eapply subseq_NoDup; [apply subseq_pub_tags; exact Hss|exact Htnd]. }
  split; [apply qstat_q_set|]. split; [reflexivity|]. split; [exact Hdr|]. split; [reflexivity|].
  split; [exact Hids|]. split; [exact Hf|]. split; [exact Hrs|]. split; [exact Hs1|].
  exists evs2, dq', di'. split; [reflexivity|exact Hev].
Qed.

(* ------------------------------------------------------------------ *)
(* 2. limiter facts in the form the poll loop needs                    *)
(* ------------------------------------------------------------------ *)

Lemma lim_release_locked id l : LimInv l ->
  forall i, In i (l_locked (lim_release id l)) <-> In i (l_locked l) /\ i <> id.
Proof.
  intros Hinv i. destruct (release_inv id l Hinv) as (_ & _ & _ & _ & _ & Hl). rewrite Hl. apply In_delN.
Qed.

Lemma lim_release_noop id l : ~ In id (l_locked l) -> lim_release id l = l.
Proof. intros H. unfold lim_release. apply memN_notIn in H. now rewrite H. Qed.

Lemma lim_batch_locked ids : forall l, LimInv l ->
  LimInv (lim_batch_release ids l) /\ l_limit (lim_batch_release ids l) = l_limit l /\
  l_used (lim_batch_release ids l) <= l_used l /\
  forall i, In i (l_locked (lim_batch_release ids l)) <-> In i (l_locked l) /\ ~ In i ids.
Proof.
  induction ids as [|id ids IH]; intros l Hinv; cbn [lim_batch_release fold_left].
  - split; [exact Hinv|]. split; [reflexivity|]. split; [lia|]. intros i. cbn [In]. tauto.
  - destruct (release_inv id l Hinv) as (Hi & Hlim & _ & Hu & _ & _).
    destruct (IH _ Hi) as (Hi' & Hlim' & Hu' & Hl'). fold (lim_batch_release ids (lim_release id l)).
    split; [exact Hi'|]. split; [congruence|]. split; [lia|].
    intros i. rewrite Hl'. rewrite (lim_release_locked id l Hinv). cbn [In]. split.
    + intros [[H1 H2] H3]. split; [exact H1|]. intros [H|H]; [congruence|contradiction].
    + intros [H1 H2]. split; [split; [exact H1|]|]; intros H; apply H2; [now left|now right].
Qed.

(* a successful poll: the new ids are fresh and are exactly what is added to the locked set *)
Lemma lim_poll_ids l max l' ids : LimInv l -> l_limit l <= MAXPID -> lim_poll max l = (l', PIds ids) ->
  LimInv l' /\ l_limit l' = l_limit l /\ NoDup ids /\
  (forall i, In i ids -> 1 <= i <= MAXPID /\ ~ In i (l_locked l)) /\
  (forall i, In i (l_locked l') <-> In i ids \/ In i (l_locked l)) /\
  l_used l' <= l_limit l /\ l_used l < l_limit l.
Proof.
  intros Hinv Hlim Hp.
  destruct (lim_poll_cases l max Hinv Hlim) as [(_ & _ & H)|[(_ & H)|[(_ & _ & _ & H)|(Hu & He & Hm & l2 & ids2 & H & Hn)]]];
    try (rewrite H in Hp; discriminate).
  rewrite H in Hp. inversion Hp; subst l2 ids2. clear Hp H.
  assert (Hpre : l_used l + N.of_nat (N.to_nat (N.min max (l_limit l - l_used l))) <= l_limit l) by lia.
  destruct (poll_n_spec _ _ _ _ _ Hinv Hpre Hlim Hn) as (Hi' & Hl' & _ & Hu' & new & Hids & Hlen & Hnd & Hfresh & Hlocked).
  cbn [app] in Hids. subst new.
  split; [exact Hi'|]. split; [exact Hl'|]. split; [exact Hnd|]. split; [exact Hfresh|].
  split; [exact Hlocked|]. split; lia.
Qed.

Lemma NoDup_same_length {A} (a b : list A) : NoDup a -> NoDup b -> (forall x, In x a <-> In x b) -> length a = length b.
Proof.
  intros Ha Hb H. apply Nat.le_antisymm; apply NoDup_incl_length; auto; intros x Hx; now apply H.
Qed.

Lemma LimInv_used l (ids : list N) : LimInv l -> NoDup ids -> (forall i, In i (l_locked l) <-> In i ids) ->
  l_used l = N.of_nat (length ids).
Proof.
  intros (Hnd & _ & _ & Hu & _) Hn H. rewrite Hu. f_equal. now apply NoDup_same_length.
Qed.

(* ------------------------------------------------------------------ *)
(* 3. write_publish                                                    *)
(* ------------------------------------------------------------------ *)

(* the part of a connection the invariant speaks about *)
Definition cq_eq (k k' : conn) : Prop :=
  k_lim k' = k_lim k /\ k_held k' = k_held k /\ k_drained k' = k_drained k /\ same_static k k' /\
  am_max (k_alias_out k') = am_max (k_alias_out k).

Lemma cq_eq_refl k : cq_eq k k.
Proof. unfold cq_eq. auto using same_static_refl. Qed.
Lemma cq_eq_trans a b c : cq_eq a b -> cq_eq b c -> cq_eq a c.
Proof.
  unfold cq_eq. intros (?&?&?&?&?) (?&?&?&?&?). repeat split; try congruence.
  all: eapply same_static_trans; eauto.
Qed.

Lemma wp_frame c k m : cq_eq k (fst (write_publish c k m)).
Proof.
  unfold write_publish.
  destruct ((k_v k =? 5) && (0 <? k_client_alias_max k) && (msg_total_bytes true m + 5 <=? k_client_max_packet k)); [|apply cq_eq_refl].
  pose proof (am_check_max (m_topic m) (k_alias_out k)) as Hmx.
  destruct (am_check (m_topic m) (k_alias_out k)) as [am' [a ex|]]; cbn [fst snd] in *; [|apply cq_eq_refl].
  unfold cq_eq, same_static; cbn. auto 10.
Qed.

(* the packet written for message m, up to the alias rewriting (the topic is left out when the
   alias is already known to the client: section 8 shows that it then resolves to m_topic m) *)
Definition is_pub_of (c : N) (m : msg) (o : out) : Prop :=
  exists topic props,
    o = OSend c (KPublish (m_dup m) (m_qos m) (m_retained m) topic (m_payload m) (m_pid m) props) /\
    (topic = m_topic m \/ topic = []).

Lemma p_alias_app a b : p_alias (a ++ b) = match p_alias a with Some x => Some x | None => p_alias b end.
Proof. induction a as [|x a IH]; cbn [app p_alias]; [reflexivity|]. destruct x; auto. Qed.

Lemma p_alias_map_none {A} (f : A -> prop) l : (forall x, match f x with PAlias _ => False | _ => True end) -> p_alias (map f l) = None.
Proof. intros H. induction l as [|x r IH]; cbn [map p_alias]; [reflexivity|]. specialize (H x). destruct (f x); auto; contradiction. Qed.

Lemma msg_props_no_alias v5 m : p_alias (msg_props v5 m) = None.
Proof.
  unfold msg_props. destruct v5; [|reflexivity].
  rewrite !p_alias_app.
  destruct (m_pfmt m =? 1); cbn [p_alias];
  destruct (m_expiry m =? 0); cbn [p_alias];
  destruct (m_ctype m); cbn [p_alias];
  destruct (m_resp m); cbn [p_alias];
  destruct (m_corr m); cbn [p_alias];
  rewrite p_alias_map_none by (intros; exact I); rewrite p_alias_map_none by (intros; exact I); reflexivity.
Qed.

Definition out_alias (o : out) : option N :=
  match o with OSend _ (KPublish _ _ _ _ _ _ props) => p_alias props | _ => None end.

(* a packet that carries a Topic Alias was checked against the client's Maximum Packet Size with the margin of
   the property (5 bytes) *)
Definition alias_fits (L : N) (m : msg) (o : out) : Prop :=
  out_alias o = None \/ (exists a, out_alias o = Some a) /\ msg_total_bytes true m + 5 <= L.

Lemma wp_out_fits c k m : Forall (alias_fits (k_client_max_packet k) m) (snd (write_publish c k m)).
Proof.
  unfold write_publish.
  destruct ((k_v k =? 5) && (0 <? k_client_alias_max k) && (msg_total_bytes true m + 5 <=? k_client_max_packet k)) eqn:Ea.
  - apply andb_true_iff in Ea as [_ Ea]. apply N.leb_le in Ea.
    destruct (am_check (m_topic m) (k_alias_out k)) as [am' [a ex|]]; cbn [snd]; [|constructor].
    constructor; [|constructor]. unfold alias_fits. cbn [out_alias].
    rewrite p_alias_app, msg_props_no_alias. destruct (a =? 0); cbn [p_alias]; [now left|right; eauto].
  - cbn [snd]. constructor; [|constructor]. left. cbn [out_alias]. apply msg_props_no_alias.
Qed.

(* x is what write_publish writes for m on the connection, at some point of a turn (the alias table moves on) *)
Definition written_by (c : N) (k : conn) (m : msg) (x : out) : Prop :=
  exists k0, same_static k k0 /\ In x (snd (write_publish c k0 m)).

(* with the alias manager sized as the client asked, exactly one PUBLISH is written *)
Lemma wp_out c k m : am_max (k_alias_out k) = k_client_alias_max k ->
  exists o, snd (write_publish c k m) = [o] /\ is_pub_of c m o.
Proof.
  intros Ham. unfold write_publish.
  destruct ((k_v k =? 5) && (0 <? k_client_alias_max k) && (msg_total_bytes true m + 5 <=? k_client_max_packet k)) eqn:Ea.
  - pose proof (am_check_no_panic (m_topic m) (k_alias_out k)) as Hnp.
    destruct (am_check (m_topic m) (k_alias_out k)) as [am' [a ex|]] eqn:Ec; cbn [fst snd] in *.
    + eexists. split; [reflexivity|]. unfold is_pub_of. do 2 eexists. split; [reflexivity|].
      destruct ex; [now right|now left].
    + exfalso. apply Hnp; [lia|reflexivity].
  - eexists. split; [reflexivity|]. unfold is_pub_of. do 2 eexists. split; [reflexivity|]. now left.
Qed.

(* ------------------------------------------------------------------ *)
(* 4. the invariant relating the limiter and the queue of a connection *)
(* ------------------------------------------------------------------ *)

Definition held_ids (k : conn) : list N := match k_held k with Some ids => ids | None => [] end.

(* the ids of the in-flight entries: the entries before the cursor *)
Definition inflight_ids (q : queue) : list N := map e_id (firstn (q_cur q) (q_l q)).

(* w = true adds the window clause; it holds on connections whose replay fits the window *)
Record CQ (w : bool) (k : conn) (q : queue) (b : N) (inf que : list elem) : Prop := {
  cq_q : QInv q b inf que;
  cq_lim : LimInv (k_lim k);
  cq_limit : l_limit (k_lim k) = k_max_inflight k;
  cq_max : k_max_inflight k <= MAXPID;
  cq_nd : NoDup (map e_id inf ++ held_ids k);
  cq_locked : forall i, In i (l_locked (k_lim k)) <-> In i (map e_id (firstn (q_cur q) inf) ++ held_ids k);
  cq_replay : k_drained k = false -> k_held k = None;
  cq_size : q_limit q = k_client_max_packet k;
  cq_v5 : q_v5 q = (k_v k =? 5);
  cq_am : am_max (k_alias_out k) = k_client_alias_max k;
  cq_done : k_drained k = true -> 1 <= k_max_inflight k -> q_cur q = length inf;
  cq_win : w = true -> if k_drained k then l_used (k_lim k) <= l_limit (k_lim k)
                       else N.of_nat (length inf) <= l_limit (k_lim k) }.

Lemma held_ids_eq k k' : k_held k' = k_held k -> held_ids k' = held_ids k.
Proof. unfold held_ids. now intros ->. Qed.

Lemma CQ_ext w k k' q b inf que : cq_eq k k' -> CQ w k q b inf que -> CQ w k' q b inf que.
Proof.
  intros (Hl & Hh & Hd & (Hcid & Hv & Hph & Hmi & Hmp & Ham) & Hamx) [H1 H2 H3 H4 H5 H6 H7 H8 H9 H10 H11 H12].
  pose proof (held_ids_eq _ _ Hh) as Hh'.
  constructor; rewrite ?Hl, ?Hh', ?Hh, ?Hd, ?Hmi, ?Hmp, ?Hv, ?Ham, ?Hamx; auto.
Qed.

Lemma inflight_ids_inf q b inf que : QInv q b inf que -> inflight_ids q = map e_id (firstn (q_cur q) inf).
Proof. intros H. unfold inflight_ids. rewrite (qi_l _ _ _ _ H). rewrite firstn_app_le by apply (qi_cur _ _ _ _ H). reflexivity. Qed.

Lemma subseq_app_l {A} (a b : list A) : subseq a (a ++ b).
Proof. rewrite <- (app_nil_r a) at 1. apply subseq_app; [apply subseq_refl|apply subseq_nil]. Qed.
Lemma subseq_app_r {A} (a b : list A) : subseq b (a ++ b).
Proof. change b with ([] ++ b) at 1. apply subseq_app; [apply subseq_nil|apply subseq_refl]. Qed.
Lemma NoDup_app_l {A} (a b : list A) : NoDup (a ++ b) -> NoDup a.
Proof. apply subseq_NoDup, subseq_app_l. Qed.
Lemma NoDup_app_r {A} (a b : list A) : NoDup (a ++ b) -> NoDup b.
Proof. apply subseq_NoDup, subseq_app_r. Qed.

(* the in-flight prefix and the held ids are duplicate-free together *)
Lemma NoDup_prefix_held (ids held : list N) n : NoDup (ids ++ held) -> NoDup (firstn n ids ++ held).
Proof.
  intros Hn. rewrite <- (firstn_skipn n ids), <- app_assoc in Hn.
  apply NoDup_app_intro.
  - now apply NoDup_app_l in Hn.
  - apply NoDup_app_r in Hn. now apply NoDup_app_r in Hn.
  - intros x Hx1 Hx2. eapply (NoDup_app_disj _ _ x Hn); [exact Hx1|]. apply in_or_app. now right.
Qed.

(* the limiter counts exactly the in-flight entries and the held ids *)
Lemma CQ_used w k q b inf que : CQ w k q b inf que ->
  l_used (k_lim k) = N.of_nat (q_cur q + length (held_ids k)).
Proof.
  intros H. pose proof (cq_q _ _ _ _ _ _ H) as HQ.
  assert (Hnd : NoDup (map e_id (firstn (q_cur q) inf) ++ held_ids k)).
  { rewrite <- firstn_map. apply NoDup_prefix_held. apply (cq_nd _ _ _ _ _ _ H). }
  rewrite (LimInv_used _ _ (cq_lim _ _ _ _ _ _ H) Hnd (cq_locked _ _ _ _ _ _ H)).
  rewrite app_length, map_length, firstn_length. pose proof (qi_cur _ _ _ _ HQ). f_equal. lia.
Qed.

(* ------------------------------------------------------------------ *)
(* 5. the branches of poll_once on the pair (connection, queue)        *)
(* ------------------------------------------------------------------ *)

(* pollInflights: one retransmission *)
Definition replay_step (c now : N) (acc : conn * list out) (e : elem) : conn * list out :=
  let '(k0, o0) := acc in
  match e_body e with
  | QPub m =>
      let k1 := set_lim_held (lim_mark (m_pid m) (k_lim k0)) (k_held k0) (k_drained k0) k0 in
      let '(k2, o2) := write_publish c k1 (aged (k_v k0 =? 5) now e (as_dup m)) in (k2, o0 ++ o2)
  | QRel p => (set_lim_held (lim_mark p (k_lim k0)) (k_held k0) (k_drained k0) k0, o0 ++ [OSend c (KPubrel p 0 [])])
  end.

(* a first transmission *)
Definition send_step (c : N) (acc : conn * list out) (e : elem) : conn * list out :=
  let '(k0, o0) := acc in
  match e_body e with
  | QPub m => let '(k1, o1) := write_publish c k0 m in (k1, o0 ++ o1)
  | QRel _ => (k0, o0)
  end.

Definition age_elem (v5 : bool) (now : N) (e : elem) : elem :=
  match e_body e with QPub m => with_body (QPub (aged v5 now e m)) e | QRel _ => e end.

(* the retransmission of an in-flight entry: DUP=1, same id, QoS, payload, RETAIN and topic (or the
   topic replaced by its alias); a PUBREL for an entry whose PUBREC was received *)
Definition is_retrans (c : N) (e : elem) (o : out) : Prop :=
  match e_body e with
  | QPub m => exists topic props,
                o = OSend c (KPublish true (m_qos m) (m_retained m) topic (m_payload m) (m_pid m) props) /\
                (topic = m_topic m \/ topic = [])
  | QRel p => o = OSend c (KPubrel p 0 [])
  end.

Lemma aged_fields v5 now e m :
  m_dup (aged v5 now e m) = m_dup m /\ m_qos (aged v5 now e m) = m_qos m /\ m_retained (aged v5 now e m) = m_retained m /\
  m_topic (aged v5 now e m) = m_topic m /\ m_payload (aged v5 now e m) = m_payload m /\ m_pid (aged v5 now e m) = m_pid m.
Proof. unfold aged. destruct (v5 && negb (m_expiry m =? 0)); cbn; auto 10. Qed.

Lemma replay_fold_spec c now : forall rs k o,
  LimInv (k_lim k) -> Forall idok rs -> NoDup (map e_id rs) ->
  (forall i, In i (map e_id rs) -> ~ In i (l_locked (k_lim k))) ->
  am_max (k_alias_out k) = k_client_alias_max k ->
  exists k' o2, fold_left (replay_step c now) rs (k, o) = (k', o ++ o2) /\
    LimInv (k_lim k') /\ l_limit (k_lim k') = l_limit (k_lim k) /\
    l_used (k_lim k') = l_used (k_lim k) + N.of_nat (length rs) /\
    (forall i, In i (l_locked (k_lim k')) <-> In i (map e_id rs) \/ In i (l_locked (k_lim k))) /\
    k_held k' = k_held k /\ k_drained k' = k_drained k /\ same_static k k' /\
    am_max (k_alias_out k') = am_max (k_alias_out k) /\
    Forall2 (is_retrans c) rs o2.
Proof.
  induction rs as [|e rs IH]; intros k o Hinv Hok Hnd Hfresh Ham; cbn [fold_left].
  - exists k, []. rewrite app_nil_r. cbn [length map In].
    split; [reflexivity|]. split; [exact Hinv|]. split; [reflexivity|]. split; [lia|]. split; [tauto|].
    split; [reflexivity|]. split; [reflexivity|]. split; [apply same_static_refl|]. split; [reflexivity|constructor].
  - inversion Hok as [|? ? He Hok']; subst. cbn [map] in Hnd. inversion Hnd as [|? ? Hnin Hnd']; subst.
    assert (Hfe : ~ In (e_id e) (l_locked (k_lim k))) by (apply Hfresh; now left).
    destruct (mark_inv (e_id e) (k_lim k) Hinv He Hfe) as (Hinv1 & Hu1 & Hl1).
    (* the connection after the step *)
    assert (Hstep : exists k1 o1, replay_step c now (k, o) e = (k1, o ++ [o1]) /\ is_retrans c e o1 /\
              k_lim k1 = lim_mark (e_id e) (k_lim k) /\ k_held k1 = k_held k /\ k_drained k1 = k_drained k /\
              same_static k k1 /\ am_max (k_alias_out k1) = am_max (k_alias_out k)).
    { unfold replay_step, is_retrans, e_id. destruct (e_body e) as [m|p] eqn:Eb.
      - set (k1 := set_lim_held (lim_mark (m_pid m) (k_lim k)) (k_held k) (k_drained k) k).
        set (m' := aged (k_v k =? 5) now e (as_dup m)).
        pose proof (wp_frame c k1 m') as (F1 & F2 & F3 & F4 & F5).
        destruct (wp_out c k1 m' Ham) as (o1 & Ho1 & topic & props & -> & Htp).
        destruct (write_publish c k1 m') as [k2 o2]. cbn [fst snd] in *. subst o2.
        exists k2. eexists. split; [reflexivity|].
        destruct (aged_fields (k_v k =? 5) now e (as_dup m)) as (A1 & A2 & A3 & A4 & A5 & A6). fold m' in A1, A2, A3, A4, A5, A6.
        split.
        + exists topic, props. rewrite A1, A2, A3, A5, A6. cbn [as_dup m_dup m_qos m_retained m_payload m_pid].
          split; [reflexivity|]. rewrite A4 in Htp. exact Htp.
        + repeat split; try (rewrite ?F1, ?F2, ?F3, ?F5; reflexivity).
          all: destruct F4 as (?&?&?&?&?&?); auto.
      - eexists. eexists. split; [reflexivity|]. split; [reflexivity|]. repeat split. }
    destruct Hstep as (k1 & o1 & Hs & Hr1 & Hk1 & Hh1 & Hd1 & Hss1 & Ha1).
    rewrite Hs.
    assert (Hfresh1 : forall i, In i (map e_id rs) -> ~ In i (l_locked (k_lim k1))).
    { intros i Hi. rewrite Hk1, Hl1. intros [Hx|Hx]; [subst i; contradiction|]. eapply Hfresh; [right; exact Hi|exact Hx]. }
    assert (Ham1 : am_max (k_alias_out k1) = k_client_alias_max k1).
    { destruct Hss1 as (_&_&_&_&_&Hc). now rewrite Ha1, Hc. }
    rewrite <- Hk1 in Hinv1.
    destruct (IH k1 (o ++ [o1]) Hinv1 Hok' Hnd' Hfresh1 Ham1) as (k' & o2 & Hf & Hi' & Hlim' & Hu' & Hl' & Hh' & Hd' & Hss' & Ha' & Hr').
    exists k', (o1 :: o2). rewrite Hf, <- app_assoc. cbn [app]. split; [reflexivity|].
    split; [exact Hi'|]. split; [rewrite Hlim', Hk1; reflexivity|].
    split; [rewrite Hu', Hk1, Hu1; cbn [length]; lia|].
    split.
    { intros i. rewrite Hl', Hk1, Hl1. cbn [map In]. intuition. }
    split; [congruence|]. split; [congruence|]. split; [eapply same_static_trans; eauto|].
    split; [congruence|]. constructor; auto.
Qed.

Lemma send_fold_spec c kb : forall rs k o, same_static kb k -> am_max (k_alias_out k) = k_client_alias_max k ->
  exists k' o2, fold_left (send_step c) rs (k, o) = (k', o ++ o2) /\ cq_eq k k' /\
    Forall2 (fun e x => match e_body e with
                        | QPub m => is_pub_of c m x /\ alias_fits (k_client_max_packet kb) m x /\ written_by c kb m x
                        | QRel _ => False
                        end) (filter is_pub rs) o2.
Proof.
  induction rs as [|e rs IH]; intros k o Hkb Ham; cbn [fold_left filter].
  - exists k, []. rewrite app_nil_r. split; [reflexivity|]. split; [apply cq_eq_refl|constructor].
  - unfold send_step at 2. unfold is_pub at 1. destruct (e_body e) as [m|p] eqn:Eb.
    + pose proof (wp_frame c k m) as Hf. destruct (wp_out c k m Ham) as (o1 & Ho1 & Hp1).
      pose proof (wp_out_fits c k m) as Hfit.
      destruct (write_publish c k m) as [k1 o1'] eqn:Ew. cbn [fst snd] in *. subst o1'.
      inversion Hfit as [|? ? Hfit1 _]; subst.
      assert (Ham1 : am_max (k_alias_out k1) = k_client_alias_max k1).
      { destruct Hf as (_ & _ & _ & (_&_&_&_&_&Hc) & Ha). now rewrite Ha, Hc. }
      assert (HL : k_client_max_packet k = k_client_max_packet kb) by (destruct Hkb as (_&_&_&_&HL&_); exact HL).
      assert (Hkb1 : same_static kb k1) by (destruct Hf as (_ & _ & _ & Hss & _); eapply same_static_trans; eauto).
      destruct (IH k1 (o ++ [o1]) Hkb1 Ham1) as (k' & o2 & Hfold & Hcq & Hall).
      exists k', (o1 :: o2). rewrite Hfold, <- app_assoc. split; [reflexivity|].
      split; [eapply cq_eq_trans; eauto|]. constructor; [|exact Hall].
      rewrite Eb. split; [exact Hp1|]. split; [now rewrite <- HL|].
      exists k. split; [exact Hkb|]. rewrite Ew. now left.
    + apply IH; assumption.
Qed.

(* list facts about prefixes and removal *)
Lemma ids_remove {A} (f : A -> N) l : NoDup (map f l) -> forall i d, nth_error l i = Some d ->
  forall x, In x (map f (remove_nth i l)) <-> In x (map f l) /\ x <> f d.
Proof.
  induction l as [|y r IH]; intros Hn [|i] d Hd x; cbn [nth_error remove_nth map In] in *; try discriminate.
  - inversion Hd; subst. inversion Hn as [|? ? Hy Hn']; subst. split.
    + intros H. split; [now right|]. intros ->. contradiction.
    + intros [[H|H] Hne]; [congruence|exact H].
  - inversion Hn as [|? ? Hy Hn']; subst. rewrite (IH Hn' i d Hd x). split.
    + intros [H|[H1 H2]]; [|tauto]. split; [now left|]. intros Hx. apply Hy. rewrite H, Hx. apply in_map. eapply nth_error_In; exact Hd.
    + tauto.
Qed.

Lemma firstn_remove_nth_lt {A} (l : list A) : forall i n, (i < n)%nat ->
  firstn (n - 1) (remove_nth i l) = remove_nth i (firstn n l).
Proof.
  induction l as [|y r IH]; intros i n H.
  - destruct i, n; cbn [firstn remove_nth]; try lia; now rewrite ?firstn_nil.
  - destruct n as [|n]; [lia|]. replace (S n - 1)%nat with n by lia. destruct i as [|i]; cbn [firstn remove_nth].
    + reflexivity.
    + destruct n as [|n]; [lia|]. change (firstn (S n) (y :: remove_nth i r)) with (y :: firstn n (remove_nth i r)).
      f_equal. rewrite <- (IH i (S n)) by lia. now replace (S n - 1)%nat with n by lia.
Qed.

Lemma firstn_remove_nth_ge {A} (l : list A) : forall i n, (n <= i)%nat -> firstn n (remove_nth i l) = firstn n l.
Proof.
  induction l as [|y r IH]; intros [|i] [|n] H; cbn [firstn remove_nth]; try lia; try reflexivity.
  f_equal. apply IH. lia.
Qed.

Lemma nth_error_firstn {A} (l : list A) : forall i n, (i < n)%nat -> nth_error (firstn n l) i = nth_error l i.
Proof. induction l as [|y r IH]; intros [|i] [|n] H; cbn [firstn nth_error]; try lia; try reflexivity. apply IH. lia. Qed.

Lemma not_in_prefix {A} (f : A -> N) l : NoDup (map f l) -> forall i n d, nth_error l i = Some d -> (n <= i)%nat ->
  ~ In (f d) (map f (firstn n l)).
Proof.
  induction l as [|y r IH]; intros Hn [|i] [|n] d Hd Hle; cbn [nth_error firstn map In] in *; try discriminate; try lia; try tauto.
  inversion Hn as [|? ? Hy Hn']; subst. intros [H|H].
  - apply Hy. rewrite H. apply in_map. eapply nth_error_In; exact Hd.
  - eapply (IH Hn' i n d Hd); [lia|exact H].
Qed.

Lemma in_prefix {A} (f : A -> N) (l : list A) i n d : nth_error l i = Some d -> (i < n)%nat -> In (f d) (map f (firstn n l)).
Proof. intros Hd Hlt. apply in_map. eapply nth_error_In. rewrite nth_error_firstn by exact Hlt. exact Hd. Qed.

Ltac slh := cbn [set_lim_held k_lim k_held k_drained k_max_inflight k_client_max_packet k_v k_alias_out
                 k_client_alias_max k_cid k_phase] in *.

Lemma held_ids_slh l h d k : held_ids (set_lim_held l h d k) = match h with Some ids => ids | None => [] end.
Proof. reflexivity. Qed.

(* ---- PUBACK / PUBCOMP / PUBREC with an error code: Remove + release ---- *)
Lemma CQ_remove w k q b inf que pid :
  CQ w k q b inf que -> ~ In pid (held_ids k) ->
  exists inf',
    CQ w (set_lim_held (lim_release pid (k_lim k)) (k_held k) (k_drained k) k) (fst (q_remove pid q)) b inf' que /\
    (inf' = inf /\ fst (q_remove pid q) = q /\ ~ In pid (inflight_ids q) \/
     exists i d, (i < q_cur q)%nat /\ nth_error inf i = Some d /\ e_id d = pid /\ inf' = remove_nth i inf).
Proof.
  intros H Hnh. pose proof H as [HQ Hlim Hlimit Hmax Hnd Hlocked Hrep Hsize Hv5 Ham Hdone Hwin].
  destruct (q_remove_inv pid q b inf que HQ) as (Hqs & Hqd & [(i & d & Hi & Hn & Hd & HQ' & Hc')|(Hq' & Hnin)]).
  - exists (remove_nth i inf). split; [|right; exists i, d; auto].
    destruct (release_inv pid (k_lim k) Hlim) as (Hi' & Hl' & _ & Hu' & _ & _).
    pose proof (qi_cur _ _ _ _ HQ) as Hcur.
    assert (Hlt : (i < length inf)%nat) by lia.
    assert (Hndp : NoDup (map e_id (firstn (q_cur q) inf))).
    { rewrite <- firstn_map. apply NoDup_firstn. now apply NoDup_app_l in Hnd. }
    assert (Hnp : nth_error (firstn (q_cur q) inf) i = Some d) by (now rewrite nth_error_firstn).
    destruct Hqs as (Hq1 & Hq2 & _ & _).
    constructor; slh; rewrite ?held_ids_slh; fold (held_ids k); auto; try congruence.
    + rewrite map_remove_nth. eapply subseq_NoDup; [|exact Hnd].
      apply subseq_app; [apply subseq_remove_nth|apply subseq_refl].
    + intros x. rewrite (lim_release_locked pid _ Hlim), Hlocked, Hc', firstn_remove_nth_lt by exact Hi.
      rewrite !in_app_iff. rewrite (ids_remove e_id _ Hndp i d Hnp x), Hd. split.
      * intros [[Hx|Hx] Hne]; [left; auto|right; exact Hx].
      * intros [[Hx Hne]|Hx]; [split; [now left|exact Hne]|]. split; [now right|]. intros ->. contradiction.
    + intros Hd1 Hm1. rewrite Hc', (Hdone Hd1 Hm1), remove_nth_length by exact Hlt. reflexivity.
    + intros Hw. specialize (Hwin Hw). destruct (k_drained k); [lia|].
      rewrite remove_nth_length by exact Hlt. lia.
  - exists inf. split; [|left; split; [reflexivity|]; split; [exact Hq'|]].
    + rewrite Hq'. eapply CQ_ext; [|exact H].
      assert (Hnl : ~ In pid (l_locked (k_lim k))).
      { rewrite Hlocked, in_app_iff. tauto. }
      rewrite (lim_release_noop _ _ Hnl). unfold cq_eq, same_static. slh. auto 10.
    + now rewrite (inflight_ids_inf _ _ _ _ HQ).
Qed.

(* ---- PUBREC without error: Replace by a PUBREL entry with the same id ---- *)
Lemma CQ_replace w k q b inf que e pid :
  CQ w k q b inf que -> e_body e = QRel pid -> e_tag e = 0 ->
  exists inf', CQ w k (fst (q_replace e q)) b inf' que /\ map e_id inf' = map e_id inf /\
    (inf' = inf /\ fst (q_replace e q) = q \/
     exists i d, (i < q_cur q)%nat /\ nth_error inf i = Some d /\ e_id d = pid /\ inf' = replace_nth i e inf).
Proof.
  intros H Hb Ht. pose proof H as [HQ Hlim Hlimit Hmax Hnd Hlocked Hrep Hsize Hv5 Ham Hdone Hwin].
  destruct (q_replace_inv e pid q b inf que HQ Hb Ht) as (Hqs & Hqd & Hc' & [(i & d & Hi & Hn & Hd & HQ' & Hmap)|(Hq' & Hnin)]).
  - exists (replace_nth i e inf). split; [|split; [exact Hmap|right; exists i, d; auto]].
    destruct Hqs as (Hq1 & Hq2 & _ & _).
    constructor; auto; try congruence.
    + intros x. rewrite Hlocked, Hc'. rewrite <- !firstn_map. rewrite Hmap. reflexivity.
    + intros Hd1 Hm1. rewrite Hc', replace_nth_length. auto.
    + intros Hw. specialize (Hwin Hw). destruct (k_drained k); [exact Hwin|]. now rewrite replace_nth_length.
  - exists inf. rewrite Hq'. auto.
Qed.

(* ---- Add, with the release of the ids of expired in-flight entries (queueNotifier) ---- *)
Definition rel_fold (evs : list qev) (l : lim) : lim :=
  fold_left (fun l e => match e with EvDropped el DExpiredInflight => lim_release (e_id el) l | _ => l end) evs l.

Lemma rel_fold_noop pool evs : Forall (no_inflight_drop pool) evs -> forall l, rel_fold evs l = l.
Proof.
  unfold rel_fold. intros H. induction H as [|ev evs Hev H IH]; intros l; cbn [fold_left]; [reflexivity|].
  destruct ev as [d r| |]; try apply IH. destruct r; try apply IH. contradiction.
Qed.

Lemma CQ_add w k q b inf que now e q' evs :
  CQ w k q b inf que -> quedok e -> e_tag e = b -> b <> 0 -> q_add now e q = QOk (q', evs) ->
  exists inf' que',
    CQ w (set_lim_held (rel_fold evs (k_lim k)) (k_held k) (k_drained k) k) q' (b + 1) inf' que' /\
    (inf' = inf /\ q_cur q' = q_cur q /\ Forall (no_inflight_drop (e :: que)) evs \/
     exists i d, nth_error inf i = Some d /\ inf' = remove_nth i inf /\ evs = [EvInflight (-1); EvDropped d DExpiredInflight]).
Proof.
  intros H He Ht Hb Hadd. pose proof H as [HQ Hlim Hlimit Hmax Hnd Hlocked Hrep Hsize Hv5 Ham Hdone Hwin].
  destruct (q_add_inv now e q b inf que q' evs HQ He Ht Hb Hadd)
    as ((Hq1 & Hq2 & _ & _) & Hqd & [(que' & HQ' & Hc' & Hev)|(i & d & que' & Hn & HQ' & Hc' & Hev)]).
  - exists inf, que'. split; [|left; auto].
    rewrite (rel_fold_noop _ _ Hev).
    constructor; slh; rewrite ?held_ids_slh; fold (held_ids k); auto; try congruence.
    + intros x. rewrite Hc'. apply Hlocked.
    + rewrite Hc'. exact Hdone.
  - exists (remove_nth i inf), que'. split; [|right; exists i, d; auto].
    subst evs. unfold rel_fold. cbn [fold_left].
    destruct (release_inv (e_id d) (k_lim k) Hlim) as (Hi' & Hl' & _ & Hu' & _ & _).
    pose proof (qi_cur _ _ _ _ HQ) as Hcur.
    assert (Hlt : (i < length inf)%nat) by (eapply nth_error_lt; eauto).
    assert (Hndi : NoDup (map e_id inf)) by (now apply NoDup_app_l in Hnd).
    assert (Hndp : NoDup (map e_id (firstn (q_cur q) inf))) by (rewrite <- firstn_map; now apply NoDup_firstn).
    assert (Hnh : ~ In (e_id d) (held_ids k)).
    { intros Hin. eapply (NoDup_app_disj _ _ (e_id d) Hnd); [|exact Hin]. apply in_map. eapply nth_error_In; eauto. }
    constructor; slh; rewrite ?held_ids_slh; fold (held_ids k); auto; try congruence.
    + rewrite map_remove_nth. eapply subseq_NoDup; [|exact Hnd].
      apply subseq_app; [apply subseq_remove_nth|apply subseq_refl].
    + intros x. rewrite (lim_release_locked _ _ Hlim), Hlocked, Hc', !in_app_iff.
      destruct (i <? q_cur q)%nat eqn:Ei; [apply Nat.ltb_lt in Ei|apply Nat.ltb_ge in Ei].
      * rewrite firstn_remove_nth_lt by exact Ei.
        assert (Hnp : nth_error (firstn (q_cur q) inf) i = Some d) by (now rewrite nth_error_firstn).
        rewrite (ids_remove e_id _ Hndp i d Hnp x). split.
        -- intros [[Hx|Hx] Hne]; [left; auto|right; exact Hx].
        -- intros [[Hx Hne]|Hx]; [split; [now left|exact Hne]|]. split; [now right|]. intros ->. contradiction.
      * rewrite firstn_remove_nth_ge by exact Ei.
        pose proof (not_in_prefix e_id inf Hndi i (q_cur q) d Hn Ei) as Hnp. split; [tauto|].
        intros Hx. split; [exact Hx|]. intros ->. tauto.
    + intros Hd1 Hm1. specialize (Hdone Hd1 Hm1). rewrite Hc', remove_nth_length by exact Hlt.
      assert (Ei : (i <? q_cur q)%nat = true) by (apply Nat.ltb_lt; lia). rewrite Ei. lia.
    + intros Hw. specialize (Hwin Hw). destruct (k_drained k); [lia|].
      rewrite remove_nth_length by exact Hlt. lia.
Qed.

(* ---- the poll loop takes packet ids from the limiter ---- *)
Lemma CQ_pollids w k q b inf que max l' ids :
  CQ w k q b inf que -> k_drained k = true -> k_held k = None ->
  lim_poll max (k_lim k) = (l', PIds ids) ->
  CQ w (set_lim_held l' (Some ids) true k) q b inf que /\
  NoDup ids /\ (forall i, In i ids -> 1 <= i <= MAXPID /\ ~ In i (inflight_ids q)).
Proof.
  intros H Hd Hh Hp. pose proof H as [HQ Hlim Hlimit Hmax Hnd Hlocked Hrep Hsize Hv5 Ham Hdone Hwin].
  assert (Hlm : l_limit (k_lim k) <= MAXPID) by lia.
  destruct (lim_poll_ids _ _ _ _ Hlim Hlm Hp) as (Hi' & Hl' & Hndi & Hfresh & Hlk & Hu' & Hroom).
  assert (Hm1 : 1 <= k_max_inflight k) by lia.
  specialize (Hdone Hd Hm1).
  assert (Hhe : held_ids k = []) by (unfold held_ids; now rewrite Hh).
  rewrite Hhe, app_nil_r in *.
  assert (Hpre : firstn (q_cur q) inf = inf) by (apply firstn_all2; lia).
  rewrite Hpre in *.
  split; [|split; [exact Hndi|]].
  - constructor; slh; rewrite ?held_ids_slh; auto; try congruence.
    + apply NoDup_app_intro; auto. intros x Hx1 Hx2. apply Hfresh in Hx2. destruct Hx2 as [_ Hx2]. apply Hx2. now apply Hlocked.
    + intros x. rewrite Hlk, in_app_iff, Hpre, Hlocked. tauto.
  - intros i Hi. destruct (Hfresh i Hi) as [Hr Hn]. split; [exact Hr|].
    rewrite (inflight_ids_inf _ _ _ _ HQ), Hpre. intros Hin. apply Hn. now apply Hlocked.
Qed.

(* ---- Read with the held ids: first transmissions ---- *)
Lemma firstn_skipn_in {A} (l : list A) n x : In x l <-> In x (firstn n l) \/ In x (skipn n l).
Proof. rewrite <- in_app_iff. now rewrite firstn_skipn. Qed.

Lemma CQ_read w k q b inf que now ids q' rs evs :
  CQ w k q b inf que -> k_drained k = true -> k_held k = Some ids ->
  q_read now ids q = QOk (q', rs, evs) ->
  let used := length (filter sent12 rs) in
  exists inf2 que2,
    CQ w (set_lim_held (lim_batch_release (skipn used ids) (k_lim k)) None true k) q' b (inf ++ inf2) que2 /\
    q_cur q = length inf /\ q_cur q' = length (inf ++ inf2) /\
    map e_id inf2 = firstn used ids /\ inf2 = filter sent12 rs /\
    Forall (read_from (k_client_max_packet k) (k_v k =? 5) que ids) rs /\
    subseq que2 que /\
    exists evs2 dq di, evs = evs2 ++ [EvQueue dq; EvInflight di] /\ Forall (read_drop que) evs2.
Proof.
  intros H Hd Hh Hr used. pose proof H as [HQ Hlim Hlimit Hmax Hnd Hlocked Hrep Hsize Hv5 Ham Hdone Hwin].
  assert (Hhe : held_ids k = ids) by (unfold held_ids; now rewrite Hh).
  rewrite Hhe in *.
  assert (Hrange : Forall (fun p => 1 <= p <= MAXPID) ids).
  { apply Forall_forall. intros p Hp. destruct Hlim as (_ & _ & Hr' & _). apply Hr'. apply Hlocked. apply in_or_app. now right. }
  assert (Hndi : NoDup ids) by (now apply NoDup_app_r in Hnd).
  assert (Hdisj : forall p, In p ids -> ~ In p (map e_id inf)).
  { intros p Hp Hin. eapply (NoDup_app_disj _ _ p Hnd); eauto. }
  destruct (q_read_inv now ids q b inf que q' rs evs HQ Hr Hrange Hndi Hdisj)
    as (inf2 & que2 & HQ' & (Hq1 & Hq2 & _ & _) & Hqd & Hc & Hc' & Hids & Hf & Hrs & Hsub & Hevs).
  exists inf2, que2.
  assert (Hused : used = length inf2) by (unfold used; now rewrite Hf).
  rewrite <- Hused in Hids.
  destruct (lim_batch_locked (skipn used ids) (k_lim k) Hlim) as (Hi' & Hl' & Hu' & Hlk').
  assert (Hpre : firstn (q_cur q) inf = inf) by (apply firstn_all2; lia).
  rewrite Hpre in *.
  split; [|repeat split; auto; try (rewrite <- Hsize, <- Hv5; exact Hrs)].
  constructor; slh; rewrite ?held_ids_slh, ?app_nil_r; auto; try congruence.
  - apply (qi_nd _ _ _ _ HQ').
  - intros x. rewrite Hlk', Hlocked, Hc'. rewrite firstn_all2 by lia. rewrite map_app, Hids, !in_app_iff.
    rewrite (firstn_skipn_in ids used x). split.
    + intros [[Hx|[Hx|Hx]] Hn]; [now left|now right|contradiction].
    + intros [Hx|Hx]; (split; [tauto|]); intros Hs.
      * eapply Hdisj; [|exact Hx]. eapply In_skipn; exact Hs.
      * assert (Hnd' : NoDup (firstn used ids ++ skipn used ids)) by (now rewrite firstn_skipn).
        eapply (NoDup_app_disj _ _ x Hnd'); eauto.
  - intros Hw. specialize (Hwin Hw). rewrite Hd in Hwin. lia.
Qed.

(* ---- pollInflights: the retransmissions after a reconnect ---- *)

(* what a retransmission shows of an entry *)
Definition rkey (e : elem) : (N * bool * str * str * N) + N :=
  match e_body e with
  | QPub m => inl (m_qos m, m_retained m, m_topic m, m_payload m, m_pid m)
  | QRel p => inr p
  end.

Lemma is_retrans_rkey c e e' o : rkey e = rkey e' -> is_retrans c e o -> is_retrans c e' o.
Proof.
  unfold rkey, is_retrans. destruct (e_body e) as [m|p], (e_body e') as [m'|p']; intros Hk; inversion Hk; subst; auto.
Qed.

Lemma rkey_id e e' : rkey e = rkey e' -> e_id e = e_id e'.
Proof. unfold rkey, e_id. destruct (e_body e), (e_body e'); intros H; inversion H; auto. Qed.

Lemma rkey_etouch now ifexp e : rkey (etouch now ifexp e) = rkey e.
Proof. unfold rkey. now rewrite etouch_body. Qed.

Lemma rkey_dupmark rs e : rkey (dupmark rs e) = rkey e.
Proof.
  unfold rkey, dupmark. destruct (e_body e) as [m|p] eqn:Eb; [|now rewrite Eb].
  destruct (existsb _ rs); [reflexivity|now rewrite Eb].
Qed.

Lemma map_rkey_ids l l' : map rkey l' = map rkey l -> map e_id l' = map e_id l.
Proof.
  revert l'. induction l as [|x l IH]; intros [|y l'] H; cbn [map] in *; try discriminate; [reflexivity|].
  inversion H. f_equal; [now apply rkey_id|now apply IH].
Qed.

Lemma firstn_app_exact {A} (a b : list A) n : n = length a -> firstn n (a ++ b) = a.
Proof. intros ->. rewrite firstn_app, Nat.sub_diag, firstn_all. cbn [firstn]. apply app_nil_r. Qed.

Lemma firstn_length_firstn {A} (l : list A) m : firstn (length (firstn m l)) l = firstn m l.
Proof.
  rewrite firstn_length. destruct (Nat.le_ge_cases m (length l)) as [H|H].
  - now rewrite Nat.min_l.
  - rewrite Nat.min_r by exact H. now rewrite !firstn_all2 by lia.
Qed.

Lemma firstn_add {A} (l : list A) : forall a b, firstn (a + b) l = firstn a l ++ firstn b (skipn a l).
Proof.
  induction l as [|x r IH]; intros a b.
  - now rewrite skipn_nil, !firstn_nil.
  - destruct a as [|a]; cbn [Nat.add firstn skipn app]; [reflexivity|]. f_equal. apply IH.
Qed.

Lemma CQ_replay w k q b inf que c now q' rs :
  CQ w k q b inf que -> k_drained k = false ->
  q_read_inflight now (N.to_nat (k_max_inflight k)) q = (q', rs) ->
  map rkey rs = firstn (length rs) (skipn (q_cur q) (map rkey inf)) /\
  q_cur q' = (q_cur q + length rs)%nat /\
  ((rs = [] /\ (1 <= k_max_inflight k -> q_cur q = length inf) /\
    CQ w (set_lim_held (k_lim k) (k_held k) true k) q' b inf que) \/
   (rs <> [] /\ exists k' o inf',
      fold_left (replay_step c now) rs (k, []) = (k', o) /\ Forall2 (is_retrans c) rs o /\
      map rkey inf' = map rkey inf /\ k_drained k' = false /\ same_static k k' /\
      CQ w k' (q_set (map (dupmark rs) (q_l q')) (q_cur q') (q_drained q') q') b inf' que)).
Proof.
  intros H Hd Hr. pose proof H as [HQ Hlim Hlimit Hmax Hnd Hlocked Hrep Hsize Hv5 Ham Hdone Hwin].
  destruct (q_replay_inv now _ q b inf que q' rs HQ Hr) as (m & Hrs & Hc' & Hm1 & (Hq1 & Hq2 & _ & _) & HQ' & HQ'').
  cbn zeta in *. set (mid := skipn (q_cur q) inf) in *. set (pre := firstn (q_cur q) inf) in *.
  set (tm := map (etouch now (q_ifexp q)) (firstn m mid)) in *.
  pose proof (qi_cur _ _ _ _ HQ) as Hcur.
  assert (Hlenpre : length pre = q_cur q) by (unfold pre; rewrite firstn_length; lia).
  assert (Hlentm : length tm = length (firstn m mid)) by (unfold tm; apply map_length).
  assert (Hhe : held_ids k = []) by (unfold held_ids; now rewrite (Hrep Hd)).
  assert (Hrk : map rkey rs = firstn (length rs) (skipn (q_cur q) (map rkey inf))).
  { rewrite Hrs. unfold tm. rewrite map_map, (map_ext _ rkey) by (intros; apply rkey_etouch).
    rewrite map_length. rewrite skipn_map, firstn_map. fold mid. f_equal. symmetry. apply firstn_length_firstn. }
  split; [exact Hrk|]. split; [rewrite Hc', Hrs; unfold tm; now rewrite map_length|].
  destruct rs as [|r0 rs0] eqn:Ers.
  - left. split; [reflexivity|].
    assert (Hfm : firstn m mid = []) by (destruct (firstn m mid); [reflexivity|discriminate]).
    assert (Hinf' : pre ++ tm ++ skipn m mid = inf).
    { assert (Hsm : skipn m mid = mid) by (rewrite <- (firstn_skipn m mid) at 2; now rewrite Hfm).
      unfold tm. rewrite Hfm, Hsm. cbn [map app]. unfold pre, mid. apply firstn_skipn. }
    rewrite Hinf' in *. rewrite Hfm in Hc'. cbn [length] in Hc'. rewrite Nat.add_0_r in Hc'.
    assert (Hall : 1 <= k_max_inflight k -> q_cur q = length inf).
    { intros Hk1. destruct mid as [|x mid'] eqn:Emid.
      - unfold mid in Emid. assert (length (skipn (q_cur q) inf) = 0%nat) by now rewrite Emid.
        rewrite skipn_length in *. lia.
      - assert (1 <= m)%nat by (apply Hm1; [lia|discriminate]). destruct m; [lia|discriminate]. }
    split; [exact Hall|].
    constructor; slh; rewrite ?held_ids_slh; fold (held_ids k); auto; try congruence.
    + intros x. rewrite Hc'. apply Hlocked.
    + intros _ Hk1. rewrite Hc'. now apply Hall.
    + intros Hw. specialize (Hwin Hw). rewrite Hd in Hwin.
      rewrite (CQ_used _ _ _ _ _ _ H), Hhe. cbn [length]. lia.
  - right. split; [discriminate|]. rewrite <- Ers in *. clear Ers r0 rs0.
    assert (Hin_mid : forall x, In x (firstn m mid) -> In x inf).
    { intros x Hx. apply In_firstn in Hx. unfold mid in Hx. now apply In_skipn in Hx. }
    assert (Hok : Forall idok rs).
    { rewrite Hrs. apply Forall_forall. intros x Hx. unfold tm in Hx. apply in_map_iff in Hx. destruct Hx as (y & <- & Hy).
      apply etouch_idok. pose proof (qi_inf _ _ _ _ HQ) as Hi. rewrite Forall_forall in Hi. auto. }
    assert (Hids_rs : map e_id rs = firstn m (skipn (q_cur q) (map e_id inf))).
    { rewrite Hrs. unfold tm. rewrite map_id_map by apply etouch_id. rewrite skipn_map, firstn_map. reflexivity. }
    assert (Hndi : NoDup (map e_id inf)) by (now apply NoDup_app_l in Hnd).
    assert (Hnd_rs : NoDup (map e_id rs)).
    { rewrite Hids_rs. apply NoDup_firstn. eapply subseq_NoDup; [|exact Hndi].
      rewrite <- (firstn_skipn (q_cur q) (map e_id inf)) at 2. apply subseq_app_r. }
    assert (Hfresh : forall i, In i (map e_id rs) -> ~ In i (l_locked (k_lim k))).
    { intros i Hi Hl. rewrite Hlocked, Hhe, app_nil_r in Hl. unfold pre in Hl. rewrite <- firstn_map in Hl. rewrite Hids_rs in Hi. apply In_firstn in Hi.
      rewrite <- (firstn_skipn (q_cur q) (map e_id inf)) in Hndi. eapply (NoDup_app_disj _ _ i Hndi); eauto. }
    destruct (replay_fold_spec c now rs k [] Hlim Hok Hnd_rs Hfresh Ham)
      as (k' & o & Hfold & Hi' & Hl' & Hu' & Hlk' & Hh' & Hd' & Hss' & Ha' & Hret).
    cbn [app] in Hfold.
    exists k', o, (map (dupmark rs) (pre ++ tm ++ skipn m mid)).
    assert (Hrk' : map rkey (map (dupmark rs) (pre ++ tm ++ skipn m mid)) = map rkey inf).
    { rewrite map_map, (map_ext _ rkey) by (intros; apply rkey_dupmark).
      rewrite !map_app. unfold tm. rewrite map_map, (map_ext (fun x => rkey (etouch now (q_ifexp q) x)) rkey) by (intros; apply rkey_etouch).
      rewrite <- (map_app rkey (firstn m mid)), firstn_skipn. rewrite <- map_app. unfold pre, mid. now rewrite firstn_skipn. }
    pose proof (map_rkey_ids _ _ Hrk') as Hids'.
    split; [exact Hfold|]. split; [exact Hret|]. split; [exact Hrk'|]. split; [congruence|]. split; [exact Hss'|].
    destruct Hss' as (_ & Hsv & _ & Hsm & Hsp & Hsa).
    assert (Hhe' : held_ids k' = []) by (unfold held_ids; now rewrite Hh', (Hrep Hd)).
    constructor; cbn [q_l q_cur q_drained q_limit q_v5 q_set]; rewrite ?Hhe', ?app_nil_r; auto; try congruence.
    + intros x. rewrite Hlk', Hlocked, Hhe, app_nil_r, Hc'.
      rewrite <- !firstn_map, Hids'.
      assert (Hsplit : firstn (q_cur q + length (firstn m mid)) (map e_id inf) = firstn (q_cur q) (map e_id inf) ++ map e_id rs).
      { rewrite firstn_add. f_equal. rewrite Hids_rs, skipn_map. fold mid.
        replace (length (firstn m mid)) with (length (firstn m (map e_id mid))) by (now rewrite !firstn_length, map_length).
        apply firstn_length_firstn. }
      rewrite Hsplit, in_app_iff. unfold pre. rewrite <- firstn_map. tauto.
    + intros _. rewrite Hh'. now apply Hrep.
    + intros Hw. specialize (Hwin Hw). rewrite Hd in Hwin. rewrite Hd', Hd, Hl'.
      rewrite <- (map_length e_id), Hids', map_length. exact Hwin.
Qed.

(* ------------------------------------------------------------------ *)
(* 6. poll_once on states                                              *)
(* ------------------------------------------------------------------ *)

(* poll_once written with the named branch functions *)
Lemma poll_once_eq c s :
  poll_once c s =
  match nget c (b_conns s) with
  | None => None
  | Some k =>
      match k_phase k with
      | PhConnected | PhZombie =>
          match aget (k_cid k) (b_queues s) with
          | None => None
          | Some q =>
              if negb (k_drained k) then
                let '(q', rs) := q_read_inflight (b_now s) (N.to_nat (k_max_inflight k)) q in
                let s1 := set_queues (aset (k_cid k) q' (b_queues s)) s in
                match rs with
                | [] => Some (upd_conn c (set_lim_held (k_lim k) (k_held k) true k) s1, [])
                | _ =>
                    let '(k', o) := fold_left (replay_step c (b_now s)) rs (k, []) in
                    Some (upd_conn c k' (set_queues (aset (k_cid k)
                            (q_set (map (dupmark rs) (q_l q')) (q_cur q') (q_drained q') q') (b_queues s1)) s1), o)
                end
              else
                match k_held k with
                | None =>
                    match lim_poll (if k_max_inflight k <? 100 then k_max_inflight k else 100) (k_lim k) with
                    | (l', PIds ids) => Some (upd_conn c (set_lim_held l' (Some ids) true k) s, [])
                    | _ => None
                    end
                | Some ids =>
                    match q_read (b_now s) ids q with
                    | QOk (q', rs, evs) =>
                        let used := length (filter sent12 rs) in
                        let l' := lim_batch_release (skipn used ids) (k_lim k) in
                        let '(k', o) := fold_left (send_step c) (map (age_elem (k_v k =? 5) (b_now s)) rs)
                                                  (set_lim_held l' None true k, []) in
                        Some (upd_conn c k' (set_queues (aset (k_cid k) q' (b_queues s)) s), drops_of (k_cid k) evs ++ o)
                    | _ => None
                    end
                end
          end
      | _ => None
      end
  end.
Proof. reflexivity. Qed.

(* the invariant of the connection on socket c: it is the registered connection of its client id,
   its limiter and the session queue are related by CQ *)
Definition PollInv (w : bool) (s : st) (c : N) : Prop :=
  exists k q inf que,
    nget c (b_conns s) = Some k /\ aget (k_cid k) (b_queues s) = Some q /\
    aget (k_cid k) (b_online s) = Some c /\
    (forall cid', aget cid' (b_online s) = Some c -> cid' = k_cid k) /\
    b_tag s <> 0 /\ CQ w k q (b_tag s) inf que.

Definition sent_as (c : N) (k : conn) (now : N) (r : elem) (x : out) : Prop :=
  exists m, e_body r = QPub m /\ is_pub_of c (aged (k_v k =? 5) now r m) x /\
            alias_fits (k_client_max_packet k) (aged (k_v k =? 5) now r m) x /\
            written_by c k (aged (k_v k =? 5) now r m) x.

Lemma read_from_body L v5 que ids r : read_from L v5 que ids r -> exists m, e_body r = QPub m.
Proof. intros (v & m & _ & Hb & _ & _ & _ & [[_ ->]|(_ & p & _ & Hb')]); eauto. Qed.

Lemma filter_all {A} (f : A -> bool) l : (forall x, In x l -> f x = true) -> filter f l = l.
Proof. induction l as [|x r IH]; intros H; cbn [filter]; [reflexivity|]. rewrite H by now left. f_equal. apply IH. intros y Hy. apply H. now right. Qed.

Lemma Forall2_map_l {A B C} (P : B -> C -> Prop) (f : A -> B) l m : Forall2 (fun x y => P (f x) y) l m -> Forall2 P (map f l) m.
Proof. intros H. induction H; cbn [map]; constructor; auto. Qed.
Lemma Forall2_map_l_inv {A B C} (P : B -> C -> Prop) (f : A -> B) l : forall m, Forall2 P (map f l) m -> Forall2 (fun x y => P (f x) y) l m.
Proof. induction l as [|x l IH]; intros m H; cbn [map] in H; inversion H; subst; constructor; auto. Qed.

Lemma Forall2_impl_in {A B} (P Q : A -> B -> Prop) l m : (forall x y, In x l -> P x y -> Q x y) -> Forall2 P l m -> Forall2 Q l m.
Proof. intros Hi H. induction H; constructor; [apply Hi; [now left|assumption]|]. apply IHForall2. intros a b' Ha. apply Hi. now right. Qed.

(* the four ways a turn of the poll loop can go, with what it writes *)
Inductive poll_case (w : bool) (c : N) (s : st) (k : conn) (q : queue) (inf que : list elem) (s' : st) (o : list out) : Prop :=
| PC_replay_done :
    k_drained k = false -> o = [] ->
    (1 <= k_max_inflight k -> q_cur q = length inf) ->
    (exists k' q', nget c (b_conns s') = Some k' /\ k_drained k' = true /\ same_static k k' /\
                   aget (k_cid k) (b_queues s') = Some q' /\ q_cur q' = q_cur q /\ CQ w k' q' (b_tag s') inf que) ->
    poll_case w c s k q inf que s' o
| PC_replay_batch rs :
    k_drained k = false -> rs <> [] -> Forall2 (is_retrans c) rs o ->
    map rkey rs = firstn (length rs) (skipn (q_cur q) (map rkey inf)) ->
    (exists k' q' inf', nget c (b_conns s') = Some k' /\ k_drained k' = false /\ same_static k k' /\
                        aget (k_cid k) (b_queues s') = Some q' /\ q_cur q' = (q_cur q + length rs)%nat /\
                        map rkey inf' = map rkey inf /\ CQ w k' q' (b_tag s') inf' que) ->
    poll_case w c s k q inf que s' o
| PC_ids ids :
    k_drained k = true -> k_held k = None -> o = [] ->
    NoDup ids -> (forall i, In i ids -> 1 <= i <= MAXPID /\ ~ In i (inflight_ids q)) ->
    (exists k', nget c (b_conns s') = Some k' /\ k_held k' = Some ids /\ k_drained k' = true /\ same_static k k' /\
                CQ w k' q (b_tag s') inf que) ->
    aget (k_cid k) (b_queues s') = Some q ->
    poll_case w c s k q inf que s' o
| PC_send ids rs evs pubs q' :
    k_drained k = true -> k_held k = Some ids -> q_read (b_now s) ids q = QOk (q', rs, evs) ->
    o = drops_of (k_cid k) evs ++ pubs ->
    Forall (read_from (k_client_max_packet k) (k_v k =? 5) que ids) rs ->
    Forall2 (sent_as c k (b_now s)) rs pubs ->
    (exists evs2 dq di, evs = evs2 ++ [EvQueue dq; EvInflight di] /\ Forall (read_drop que) evs2) ->
    q_cur q = length inf ->
    (exists k' inf2 que2, nget c (b_conns s') = Some k' /\ k_held k' = None /\ k_drained k' = true /\ same_static k k' /\
                          aget (k_cid k) (b_queues s') = Some q' /\ q_cur q' = length (inf ++ inf2) /\
                          inf2 = filter sent12 rs /\ map e_id inf2 = firstn (length inf2) ids /\
                          CQ w k' q' (b_tag s') (inf ++ inf2) que2) ->
    poll_case w c s k q inf que s' o.

Lemma age_elem_body v5 now r m : e_body r = QPub m -> e_body (age_elem v5 now r) = QPub (aged v5 now r m).
Proof. intros H. unfold age_elem. now rewrite H. Qed.

Theorem poll_once_cases w c s s' o k q inf que :
  nget c (b_conns s) = Some k -> aget (k_cid k) (b_queues s) = Some q -> CQ w k q (b_tag s) inf que ->
  poll_once c s = Some (s', o) ->
  b_online s' = b_online s /\ b_tag s' = b_tag s /\ b_now s' = b_now s /\
  (forall c2, c2 <> c -> nget c2 (b_conns s') = nget c2 (b_conns s)) /\
  (forall cid2, cid2 <> k_cid k -> aget cid2 (b_queues s') = aget cid2 (b_queues s)) /\
  poll_case w c s k q inf que s' o.
Proof.
  intros Hk Hq H Hp. rewrite poll_once_eq, Hk in Hp.
  assert (Hph : exists ph, k_phase k = ph) by eauto. destruct Hph as [ph Hph].
  assert (Hp' : (if negb (k_drained k) then
                let '(q', rs) := q_read_inflight (b_now s) (N.to_nat (k_max_inflight k)) q in
                let s1 := set_queues (aset (k_cid k) q' (b_queues s)) s in
                match rs with
                | [] => Some (upd_conn c (set_lim_held (k_lim k) (k_held k) true k) s1, [])
                | _ =>
                    let '(k', o) := fold_left (replay_step c (b_now s)) rs (k, []) in
                    Some (upd_conn c k' (set_queues (aset (k_cid k)
                            (q_set (map (dupmark rs) (q_l q')) (q_cur q') (q_drained q') q') (b_queues s1)) s1), o)
                end
              else
                match k_held k with
                | None =>
                    match lim_poll (if k_max_inflight k <? 100 then k_max_inflight k else 100) (k_lim k) with
                    | (l', PIds ids) => Some (upd_conn c (set_lim_held l' (Some ids) true k) s, [])
                    | _ => None
                    end
                | Some ids =>
                    match q_read (b_now s) ids q with
                    | QOk (q', rs, evs) =>
                        let used := length (filter sent12 rs) in
                        let l' := lim_batch_release (skipn used ids) (k_lim k) in
                        let '(k', o) := fold_left (send_step c) (map (age_elem (k_v k =? 5) (b_now s)) rs)
                                                  (set_lim_held l' None true k, []) in
                        Some (upd_conn c k' (set_queues (aset (k_cid k) q' (b_queues s)) s), drops_of (k_cid k) evs ++ o)
                    | _ => None
                    end
                end) = Some (s', o)).
  { rewrite Hq in Hp. destruct (k_phase k); try discriminate; exact Hp. }
  clear Hp Hph ph.
  destruct (k_drained k) eqn:Hd; cbn [negb] in Hp'.
  - destruct (k_held k) as [ids|] eqn:Hh.
    + (* first transmissions *)
      destruct (q_read (b_now s) ids q) as [[[q' rs] evs]| | |] eqn:Hr; try discriminate.
      cbn zeta in Hp'.
      destruct (CQ_read w k q (b_tag s) inf que (b_now s) ids q' rs evs H Hd Hh Hr)
        as (inf2 & que2 & HCQ & Hc & Hc' & Hids & Hf & Hrs & Hsub & Hevs).
      set (used := length (filter sent12 rs)) in *.
      set (k1 := set_lim_held (lim_batch_release (skipn used ids) (k_lim k)) None true k) in *.
      assert (Ham1 : am_max (k_alias_out k1) = k_client_alias_max k1) by apply (cq_am _ _ _ _ _ _ HCQ).
      destruct (send_fold_spec c k (map (age_elem (k_v k =? 5) (b_now s)) rs) k1 [] (same_static_slh _ _ _ k) Ham1)
        as (k' & pubs & Hfold & Hcq & Hall).
      rewrite Hfold in Hp'. cbn [app] in Hp'. inversion Hp'; subst s' o. clear Hp'.
      pose proof Hcq as (Hl' & Hh' & Hd' & Hss' & Ha').
      assert (Hcid : k_cid k' = k_cid k) by (destruct Hss' as (Hx & _); exact Hx).
      split; [reflexivity|]. split; [reflexivity|]. split; [reflexivity|].
      split; [intros c2 Hc2; rewrite nget_upd_ne by exact Hc2; reflexivity|].
      split; [intros cid2 Hc2; rewrite upd_conn_queues, set_queues_queues; now apply aget_aset_ne|].
      eapply (PC_send w c s k q inf que _ _ ids rs evs pubs q'); auto.
      * (* the PUBLISH packets *)
        assert (Hfil : filter is_pub (map (age_elem (k_v k =? 5) (b_now s)) rs) = map (age_elem (k_v k =? 5) (b_now s)) rs).
        { apply filter_all. intros x Hx. apply in_map_iff in Hx. destruct Hx as (r & <- & Hr').
          rewrite Forall_forall in Hrs. destruct (read_from_body _ _ _ _ _ (Hrs r Hr')) as (m & Hm).
          unfold is_pub. now rewrite (age_elem_body _ _ _ _ Hm). }
        rewrite Hfil in Hall. apply Forall2_map_l_inv in Hall.
        eapply Forall2_impl_in; [|exact Hall]. intros r x Hr' Hx. cbn beta in Hx.
        rewrite Forall_forall in Hrs. destruct (read_from_body _ _ _ _ _ (Hrs r Hr')) as (m & Hm).
        rewrite (age_elem_body _ _ _ _ Hm) in Hx. exists m. auto.
      * exists k', inf2, que2. rewrite nget_upd_eq, upd_conn_queues, set_queues_queues, aget_aset_eq.
        split; [reflexivity|]. split; [now rewrite Hh'|]. split; [now rewrite Hd'|].
        split; [eapply same_static_trans; [apply same_static_slh|exact Hss']|].
        split; [reflexivity|]. split; [exact Hc'|]. split; [exact Hf|].
        split; [rewrite Hids; unfold used; now rewrite <- Hf|].
        rewrite upd_conn_tag, set_queues_tag. eapply CQ_ext; [exact Hcq|exact HCQ].
    + (* taking ids *)
      destruct (lim_poll (if k_max_inflight k <? 100 then k_max_inflight k else 100) (k_lim k)) as [l' [| | |ids]] eqn:Hpoll;
        try discriminate.
      inversion Hp'; subst s' o. clear Hp'.
      destruct (CQ_pollids w k q (b_tag s) inf que _ l' ids H Hd Hh Hpoll) as (HCQ & Hnd & Hfresh).
      split; [reflexivity|]. split; [reflexivity|]. split; [reflexivity|].
      split; [intros c2 Hc2; rewrite nget_upd_ne by exact Hc2; reflexivity|].
      split; [intros cid2 Hc2; now rewrite upd_conn_queues|].
      eapply (PC_ids w c s k q inf que _ _ ids); auto.
      exists (set_lim_held l' (Some ids) true k). rewrite nget_upd_eq.
      split; [reflexivity|]. split; [reflexivity|]. split; [reflexivity|]. split; [apply same_static_slh|exact HCQ].
  - (* retransmissions *)
    destruct (q_read_inflight (b_now s) (N.to_nat (k_max_inflight k)) q) as [q' rs] eqn:Hr.
    destruct (CQ_replay w k q (b_tag s) inf que c (b_now s) q' rs H Hd Hr)
      as (Hrk & Hc' & [(-> & Hall & HCQ)|(Hne & k' & o' & inf' & Hfold & Hret & Hrk' & Hd' & Hss' & HCQ)]).
    + cbn zeta in Hp'. inversion Hp'; subst s' o. clear Hp'.
      split; [reflexivity|]. split; [reflexivity|]. split; [reflexivity|].
      split; [intros c2 Hc2; rewrite nget_upd_ne by exact Hc2; reflexivity|].
      split; [intros cid2 Hc2; rewrite upd_conn_queues, set_queues_queues; now apply aget_aset_ne|].
      eapply PC_replay_done; auto.
      exists (set_lim_held (k_lim k) (k_held k) true k), q'.
      rewrite nget_upd_eq, upd_conn_queues, set_queues_queues, aget_aset_eq.
      split; [reflexivity|]. split; [reflexivity|]. split; [apply same_static_slh|]. split; [reflexivity|].
      split; [cbn [length] in Hc'; lia|exact HCQ].
    + cbn zeta in Hp'. rewrite Hfold in Hp'.
      destruct rs as [|r0 rs0] eqn:Ers; [congruence|]. rewrite <- Ers in *.
      assert (Hp2 : Some (upd_conn c k' (set_queues (aset (k_cid k)
                            (q_set (map (dupmark rs) (q_l q')) (q_cur q') (q_drained q') q')
                            (b_queues (set_queues (aset (k_cid k) q' (b_queues s)) s)))
                            (set_queues (aset (k_cid k) q' (b_queues s)) s)), o') = Some (s', o)).
      { rewrite Ers in *. exact Hp'. }
      clear Hp'. inversion Hp2; subst s' o. clear Hp2.
      split; [reflexivity|]. split; [reflexivity|]. split; [reflexivity|].
      split; [intros c2 Hc2; rewrite nget_upd_ne by exact Hc2; reflexivity|].
      split; [intros cid2 Hc2; rewrite upd_conn_queues, !set_queues_queues; rewrite !aget_aset_ne by exact Hc2; reflexivity|].
      eapply (PC_replay_batch w c s k q inf que _ _ rs); auto.
      exists k', (q_set (map (dupmark rs) (q_l q')) (q_cur q') (q_drained q') q'), inf'.
      rewrite nget_upd_eq, upd_conn_queues, !set_queues_queues, aget_aset_eq.
      split; [reflexivity|]. split; [exact Hd'|]. split; [exact Hss'|]. split; [reflexivity|].
      split; [exact Hc'|]. split; [exact Hrk'|exact HCQ].
Qed.

Lemma poll_case_next w c s k q inf que s' o : poll_case w c s k q inf que s' o ->
  exists k' q' inf' que', nget c (b_conns s') = Some k' /\ same_static k k' /\
    aget (k_cid k) (b_queues s') = Some q' /\ CQ w k' q' (b_tag s') inf' que'.
Proof.
  intros [Hd Ho Hall (k' & q' & H1 & H2 & H3 & H4 & H5 & H6)
         |rs Hd Hne Hret Hrk (k' & q' & inf' & H1 & H2 & H3 & H4 & H5 & H6 & H7)
         |ids Hd Hh Ho Hnd Hfr (k' & H1 & H2 & H3 & H4 & H5) Hq
         |ids rs evs pubs q' Hd Hh Hr Ho Hrs Hpubs Hevs Hc (k' & inf2 & que2 & H1 & H2 & H3 & H4 & H5 & H6 & H7 & H8 & H9)].
  - exists k', q', inf, que. auto.
  - exists k', q', inf', que. auto.
  - exists k', q, inf, que. auto.
  - exists k', q', (inf ++ inf2), que2. auto.
Qed.

(* Target 2 (poll loop): the invariant is preserved by every turn of the poll loop, in the replay
   phase (k_drained = false) and afterwards *)
Theorem poll_once_inv w c s s' o : PollInv w s c -> poll_once c s = Some (s', o) -> PollInv w s' c.
Proof.
  intros (k & q & inf & que & Hk & Hq & Hon & Huniq & Htag & HCQ) Hp.
  destruct (poll_once_cases w c s s' o k q inf que Hk Hq HCQ Hp) as (Ho & Ht & _ & _ & _ & Hcase).
  destruct (poll_case_next _ _ _ _ _ _ _ _ _ Hcase) as (k' & q' & inf' & que' & Hk' & (Hcid & _) & Hq' & HCQ').
  exists k', q', inf', que'. rewrite Hcid, Ho, Ht in *. auto 10.
Qed.

(* the other attached connections are not disturbed *)
Theorem poll_once_frame w w2 c c2 s s' o :
  PollInv w s c -> PollInv w2 s c2 -> c2 <> c -> poll_once c s = Some (s', o) -> PollInv w2 s' c2.
Proof.
  intros (k & q & inf & que & Hk & Hq & Hon & Huniq & Htag & HCQ) (k2 & q2 & inf2 & que2 & Hk2 & Hq2 & Hon2 & Huniq2 & _ & HCQ2) Hne Hp.
  destruct (poll_once_cases w c s s' o k q inf que Hk Hq HCQ Hp) as (Ho & Ht & _ & Hconns & Hqueues & _).
  exists k2, q2, inf2, que2. rewrite Ho, Ht, (Hconns c2 Hne).
  assert (Hcid : k_cid k2 <> k_cid k).
  { intros E. rewrite E in Hon2. congruence. }
  rewrite (Hqueues _ Hcid). auto 10.
Qed.

(* ------------------------------------------------------------------ *)
(* 7. the acknowledgement handlers and add_to_queue on states          *)
(* ------------------------------------------------------------------ *)

Lemma CQ_mono w k q b b' inf que : b <= b' -> CQ w k q b inf que -> CQ w k q b' inf que.
Proof. intros Hb [H1 H2 H3 H4 H5 H6 H7 H8 H9 H10 H11 H12]. constructor; auto. eapply QInv_mono; eauto. Qed.

Lemma queue_op_some cid f s q : aget cid (b_queues s) = Some q ->
  queue_op cid f s = set_queues (aset cid (f q) (b_queues s)) s.
Proof. intros H. unfold queue_op. now rewrite H. Qed.

(* PUBACK, PUBCOMP, PUBREC with an error code (v5) *)
Theorem ack_remove_inv w c s k pid :
  PollInv w s c -> nget c (b_conns s) = Some k -> ~ In pid (held_ids k) ->
  PollInv w (release_id c pid (queue_op (k_cid k) (fun q => fst (q_remove pid q)) s)) c.
Proof.
  intros (k0 & q & inf & que & Hk & Hq & Hon & Huniq & Htag & HCQ) Hk' Hnh.
  rewrite Hk in Hk'. inversion Hk'; subst k0. clear Hk'.
  rewrite (queue_op_some _ _ _ _ Hq). unfold release_id. rewrite set_queues_conns, Hk.
  destruct (CQ_remove w k q (b_tag s) inf que pid HCQ Hnh) as (inf' & HCQ' & _).
  exists (set_lim_held (lim_release pid (k_lim k)) (k_held k) (k_drained k) k), (fst (q_remove pid q)), inf', que.
  rewrite nget_upd_eq, upd_conn_queues, set_queues_queues. rewrite slh_cid, aget_aset_eq.
  split; [reflexivity|]. split; [reflexivity|]. split; [exact Hon|]. split; [exact Huniq|]. split; [exact Htag|exact HCQ'].
Qed.

(* PUBREC: the entry becomes a PUBREL entry with the same id *)
Theorem ack_replace_inv w c s k pid now :
  PollInv w s c -> nget c (b_conns s) = Some k ->
  PollInv w (queue_op (k_cid k) (fun q => fst (q_replace {| e_tag := 0; e_at := now; e_expiry := None; e_body := QRel pid |} q)) s) c.
Proof.
  intros (k0 & q & inf & que & Hk & Hq & Hon & Huniq & Htag & HCQ) Hk'.
  rewrite Hk in Hk'. inversion Hk'; subst k0. clear Hk'.
  rewrite (queue_op_some _ _ _ _ Hq).
  set (e := {| e_tag := 0; e_at := now; e_expiry := None; e_body := QRel pid |}).
  destruct (CQ_replace w k q (b_tag s) inf que e pid HCQ eq_refl eq_refl) as (inf' & HCQ' & _).
  exists k, (fst (q_replace e q)), inf', que.
  rewrite set_queues_conns, set_queues_queues, aget_aset_eq.
  split; [exact Hk|]. split; [reflexivity|]. split; [exact Hon|]. split; [exact Huniq|]. split; [exact Htag|exact HCQ'].
Qed.

Definition is_ack (p : pkt) : option N :=
  match p with KPuback pid _ _ | KPubrec pid _ _ | KPubcomp pid _ _ => Some pid | _ => None end.

(* Target 2 (ack handlers): PUBACK / PUBREC / PUBCOMP for an id the poll loop does not hold *)
Theorem handle_ack_inv w c s k p pid s' o :
  PollInv w s c -> nget c (b_conns s) = Some k -> is_ack p = Some pid -> ~ In pid (held_ids k) ->
  handle_packet c k p s = HOk s' o -> PollInv w s' c.
Proof.
  intros HP Hk Hack Hnh Hh. destruct p; cbn [is_ack] in Hack; try discriminate; inversion Hack; subst pid0; cbn [handle_packet] in Hh.
  - inversion Hh; subst. now apply ack_remove_inv.
  - destruct ((k_v k =? 5) && (128 <=? code)); inversion Hh; subst.
    + now apply ack_remove_inv.
    + now apply ack_replace_inv.
  - inversion Hh; subst. now apply ack_remove_inv.
Qed.

Lemma str_dec (a b : str) : {a = b} + {a <> b}.
Proof. destruct (str_eqb a b) eqn:E; [left; now apply str_eqb_eq|right; now apply str_eqb_neq]. Qed.

(* release_dropped written with set_lim_held and rel_fold *)
Lemma release_dropped_eq cid evs s :
  release_dropped cid evs s =
  match aget cid (b_online s) with
  | None => s
  | Some c => match nget c (b_conns s) with
              | None => s
              | Some k => upd_conn c (set_lim_held (rel_fold evs (k_lim k)) (k_held k) (k_drained k) k) s
              end
  end.
Proof. reflexivity. Qed.

(* Target 2 (add_to_queue incl. release_dropped): a message without packet id (every message the
   broker itself builds; see api_pid_breaks_shape for the API) *)
Theorem add_to_queue_inv w c s cid m sb ids s' o :
  PollInv w s c -> m_pid m = 0 -> add_to_queue cid m sb ids s = (s', o) -> PollInv w s' c.
Proof.
  intros HP Hpid Hadd. pose proof HP as (k & q & inf & que & Hk & Hq & Hon & Huniq & Htag & HCQ).
  unfold add_to_queue in Hadd.
  destruct (aget cid (b_queues s)) as [q0|] eqn:Hq0; [|inversion Hadd; subst; exact HP].
  destruct (negb (c_queue_qos0 (b_cfg s)) && negb (ahas cid (b_online s)) && (m_qos m =? 0)); [inversion Hadd; subst; exact HP|].
  set (qos := if s_qos sb <? m_qos m then s_qos sb else m_qos m) in Hadd.
  set (m' := with_qos_etc m qos (filter (fun i => negb (i =? 0)) ids) (m_retained m && s_rap sb)) in Hadd.
  match type of Hadd with context [q_add ?n ?e0 q0] => set (e := e0) in Hadd; set (now := n) in Hadd end.
  destruct (q_add now e q0) as [[q' evs]| | |] eqn:Hqa; try (inversion Hadd; subst; exact HP).
  inversion Hadd; subst s' o. clear Hadd.
  assert (He : quedok e) by (unfold quedok, e; cbn; auto).
  assert (Het : e_tag e = b_tag s) by reflexivity.
  rewrite release_dropped_eq. rewrite set_picks_tag_online, set_queues_online, set_picks_tag_conns, set_queues_conns.
  destruct (str_dec cid (k_cid k)) as [->|Hne].
  - (* the queue of this connection *)
    rewrite Hq in Hq0. inversion Hq0; subst q0. rewrite Hon, Hk.
    destruct (CQ_add w k q (b_tag s) inf que now e q' evs HCQ He Het Htag Hqa) as (inf' & que' & HCQ' & _).
    exists (set_lim_held (rel_fold evs (k_lim k)) (k_held k) (k_drained k) k), q', inf', que'.
    rewrite nget_upd_eq, upd_conn_queues, set_picks_tag_queues, set_queues_queues, slh_cid, aget_aset_eq.
    rewrite upd_conn_online, upd_conn_tag, set_picks_tag_online, set_picks_tag_tag, set_queues_online.
    split; [reflexivity|]. split; [reflexivity|]. split; [exact Hon|]. split; [exact Huniq|]. split; [lia|exact HCQ'].
  - (* another session: only the tag counter moves, and possibly another connection's limiter *)
    assert (HCQ' : CQ w k q (b_tag s + 1) inf que) by (eapply CQ_mono; [|exact HCQ]; lia).
    assert (Hgoal : forall s2, b_conns s2 = b_conns s \/ (exists c0 k0, c0 <> c /\ b_conns s2 = nset c0 k0 (b_conns s)) ->
                               b_queues s2 = aset cid q' (b_queues s) -> b_online s2 = b_online s -> b_tag s2 = b_tag s + 1 ->
                               PollInv w s2 c).
    { intros s2 Hc2 Hq2 Ho2 Ht2. exists k, q, inf, que. rewrite Hq2, Ho2, Ht2.
      rewrite aget_aset_ne by (intros E; apply Hne; now symmetry).
      split; [|split; [exact Hq|split; [exact Hon|split; [exact Huniq|split; [lia|exact HCQ']]]]].
      destruct Hc2 as [->|(c0 & k0 & Hc0 & ->)]; [exact Hk|]. rewrite nget_nset_ne by (intros E; apply Hc0; now symmetry). exact Hk. }
    destruct (aget cid (b_online s)) as [c0|] eqn:Hon0; [|apply Hgoal; auto].
    destruct (nget c0 (b_conns s)) as [k0|] eqn:Hk0; [|apply Hgoal; auto].
    apply Hgoal; auto. right. exists c0. eexists. split; [|reflexivity].
    intros ->. apply Hne. now apply Huniq.
Qed.

(* ------------------------------------------------------------------ *)
(* 8. deliver as a sequence of add_to_queue                            *)
(* ------------------------------------------------------------------ *)

Lemma fold_pair_inv {A} (P : st -> Prop) (f : st * list out -> A -> st * list out) :
  (forall s o a, P s -> P (fst (f (s, o) a))) -> forall l s o, P s -> P (fst (fold_left f l (s, o))).
Proof.
  intros Hf. induction l as [|a l IH]; intros s o Hs; cbn [fold_left]; [exact Hs|].
  specialize (Hf s o a Hs). destruct (f (s, o) a) as [s1 o1]. now apply IH.
Qed.

Lemma take_pick_inv (P : st -> Prop) n s :
  (forall s, P s -> P (count_pick s)) -> (forall r s, P s -> P (set_picks_tag r (b_tag s) s)) ->
  P s -> P (snd (take_pick n s)).
Proof. intros H1 H2 Hs. unfold take_pick. destruct (b_picks s); cbn [snd]; auto. Qed.

Lemma deliver_inv (P : st -> Prop) src m :
  (forall cid sb ids s, P s -> P (fst (add_to_queue cid m sb ids s))) ->
  (forall s, P s -> P (count_pick s)) -> (forall r s, P s -> P (set_picks_tag r (b_tag s) s)) ->
  forall s, P s -> P (fst (fst (deliver src m s))).
Proof.
  intros Hadd Hcp Hsp s Hs. unfold deliver.
  set (ents := filter (fun e => negb (s_nl (snd e) && str_eqb (fst e) src)) _).
  set (plain := filter (fun e => is_empty (s_share (snd e))) ents).
  set (shared := filter (fun e => negb (is_empty (s_share (snd e)))) ents).
  match goal with |- context [if c_onlyonce (b_cfg s) then (s, []) else fold_left ?f plain (s, [])] => set (F1 := f) end.
  assert (H1 : P (fst (if c_onlyonce (b_cfg s) then (s, []) else fold_left F1 plain (s, [])))).
  { destruct (c_onlyonce (b_cfg s)); [exact Hs|]. apply fold_pair_inv; [|exact Hs].
    intros s0 o0 a Hs0. unfold F1. specialize (Hadd (fst a) (snd a) [s_id (snd a)] s0 Hs0).
    destruct (add_to_queue (fst a) m (snd a) [s_id (snd a)] s0). exact Hadd. }
  destruct (if c_onlyonce (b_cfg s) then (s, []) else fold_left F1 plain (s, [])) as [s1 o1]. cbn [fst] in H1.
  match goal with |- context [fold_left ?f (group_shared shared []) (s1, o1)] => set (F2 := f) end.
  assert (H2 : P (fst (fold_left F2 (group_shared shared []) (s1, o1)))).
  { apply fold_pair_inv; [|exact H1]. intros s0 o0 g Hs0. unfold F2.
    assert (Hp : P (snd (match snd g with [_] => (0%nat, s0) | _ => take_pick (length (snd g)) s0 end))).
    { destruct (snd g) as [|x [|y r]]; try (now apply take_pick_inv). exact Hs0. }
    destruct (match snd g with [_] => (0%nat, s0) | _ => take_pick (length (snd g)) s0 end) as [i s0']. cbn [snd] in Hp.
    destruct (nth_error (snd g) i) as [[c0 sb]|]; [|exact Hp].
    specialize (Hadd c0 sb [s_id sb] s0' Hp). destruct (add_to_queue c0 m sb [s_id sb] s0'). exact Hadd. }
  destruct (fold_left F2 (group_shared shared []) (s1, o1)) as [s2 o2]. cbn [fst] in H2.
  destruct (c_onlyonce (b_cfg s)); [|exact H2].
  match goal with |- context [fold_left ?f (group_by_client plain []) (s2, o2)] => set (F3 := f) end.
  assert (H3 : P (fst (fold_left F3 (group_by_client plain []) (s2, o2)))).
  { apply fold_pair_inv; [|exact H2]. intros s0 o0 g Hs0. unfold F3.
    set (best := filter (fun x => s_qos x =? max_qos_of (snd g)) (snd g)).
    assert (Hp : P (snd (match best with [_] => (0%nat, s0) | _ => take_pick (length best) s0 end))).
    { destruct best as [|x [|y r]]; try (now apply take_pick_inv). exact Hs0. }
    destruct (match best with [_] => (0%nat, s0) | _ => take_pick (length best) s0 end) as [i s0']. cbn [snd] in Hp.
    destruct (nth_error best i) as [sb|]; [|exact Hp].
    specialize (Hadd (fst g) sb (map s_id (snd g)) s0' Hp). destruct (add_to_queue (fst g) m sb (map s_id (snd g)) s0'). exact Hadd. }
  destruct (fold_left F3 (group_by_client plain []) (s2, o2)) as [s3 o3]. exact H3.
Qed.

(* Target 2, lifted: delivering a message (deliverMessage) keeps the invariant of every connection *)
Theorem deliver_PollInv w c src m s : PollInv w s c -> m_pid m = 0 -> PollInv w (fst (fst (deliver src m s))) c.
Proof.
  intros HP Hm. apply (deliver_inv (fun s => PollInv w s c)); auto.
  intros cid sb ids s0 H0. destruct (add_to_queue cid m sb ids s0) as [s' o] eqn:E. cbn [fst].
  eapply add_to_queue_inv; eauto.
Qed.

(* a connection whose limiter holds no id is not touched at all by deliveries *)
Lemma slh_same k : set_lim_held (k_lim k) (k_held k) (k_drained k) k = k.
Proof. destruct k; reflexivity. Qed.

Lemma rel_fold_empty evs l : l_locked l = [] -> rel_fold evs l = l.
Proof.
  unfold rel_fold. revert l. induction evs as [|ev evs IH]; intros l Hl; cbn [fold_left]; [reflexivity|].
  destruct ev as [d r| |]; try now apply IH. destruct r; try now apply IH.
  rewrite lim_release_noop by (rewrite Hl; tauto). now apply IH.
Qed.

Lemma add_to_queue_conn_fresh c k cid m sb ids s :
  l_locked (k_lim k) = [] -> nget c (b_conns s) = Some k -> nget c (b_conns (fst (add_to_queue cid m sb ids s))) = Some k.
Proof.
  intros Hl Hk. unfold add_to_queue.
  destruct (aget cid (b_queues s)) as [q0|]; [|exact Hk].
  destruct (negb (c_queue_qos0 (b_cfg s)) && negb (ahas cid (b_online s)) && (m_qos m =? 0)); [exact Hk|].
  match goal with |- context [q_add ?n ?e0 q0] => destruct (q_add n e0 q0) as [[q' evs]| | |] end; try exact Hk.
  cbn [fst]. rewrite release_dropped_eq. rewrite set_picks_tag_online, set_queues_online, set_picks_tag_conns, set_queues_conns.
  destruct (aget cid (b_online s)) as [c0|]; [|exact Hk].
  destruct (nget c0 (b_conns s)) as [k0|] eqn:Hk0; [|exact Hk].
  destruct (N.eq_dec c0 c) as [->|Hne].
  - rewrite Hk in Hk0. inversion Hk0; subst k0. rewrite (rel_fold_empty _ _ Hl), slh_same. apply nget_upd_eq.
  - rewrite nget_upd_ne by (intros E; apply Hne; now symmetry). exact Hk.
Qed.

Lemma deliver_conn_fresh c k src m s :
  l_locked (k_lim k) = [] -> nget c (b_conns s) = Some k -> nget c (b_conns (fst (fst (deliver src m s)))) = Some k.
Proof.
  intros Hl Hk. apply (deliver_inv (fun s => nget c (b_conns s) = Some k)); auto.
  intros cid sb ids s0 H0. now apply add_to_queue_conn_fresh.
Qed.

Lemma send_will_conn_fresh c k cid m s :
  l_locked (k_lim k) = [] -> nget c (b_conns s) = Some k -> nget c (b_conns (fst (send_will cid m s))) = Some k.
Proof.
  intros Hl Hk. unfold send_will. destruct (will_action cid s) as [|code| |t p q]; try exact Hk.
  - pose proof (deliver_conn_fresh c k cid m (retain_update m s) Hl) as H.
    destruct (deliver cid m (retain_update m s)) as [[s' o] b]. cbn [fst] in *. apply H.
    unfold retain_update. destruct (m_retained m); exact Hk.
  - set (m' := with_topic_payload_qos t p q m).
    pose proof (deliver_conn_fresh c k cid m' (retain_update m' s) Hl) as H.
    destruct (deliver cid m' (retain_update m' s)) as [[s' o] b]. cbn [fst] in *. apply H.
    unfold retain_update. destruct (m_retained m'); exact Hk.
Qed.

(* ------------------------------------------------------------------ *)
(* 9. the window installed by handle_connect                           *)
(* ------------------------------------------------------------------ *)

Definition connect_window (cfg_ : cfg) (cn : connect) : N :=
  if cn_ver cn =? 5 then
    match p_recvmax (cn_props cn) with
    | Some r => if r <? c_max_inflight cfg_ then r else c_max_inflight cfg_
    | None => c_max_inflight cfg_
    end
  else c_max_inflight cfg_.

Definition connect_maxpkt (cn : connect) : N := if cn_ver cn =? 5 then opt_or (p_maxpkt (cn_props cn)) U32MAX else U32MAX.
Definition connect_aliasmax (cn : connect) : N := if cn_ver cn =? 5 then opt_or (p_aliasmax (cn_props cn)) 0 else 0.

(* the connection record a successful CONNECT installs *)
Definition fresh_attached (cfg_ : cfg) (cn : connect) (k : conn) : Prop :=
  k_phase k = PhConnected /\ k_v k = cn_ver cn /\
  k_max_inflight k = connect_window cfg_ cn /\ k_lim k = lim_new (k_max_inflight k) /\
  k_held k = None /\ k_drained k = false /\
  k_client_max_packet k = connect_maxpkt cn /\ k_client_alias_max k = connect_aliasmax cn /\
  k_alias_out k = am_new (k_client_alias_max k).

Theorem handle_connect_conn c cn s s' o k :
  handle_connect c cn s = (s', o) -> nget c (b_conns s') = Some k -> k_phase k = PhConnected ->
  fresh_attached (b_cfg s) cn k.
Proof.
  intros H Hk Hph. unfold handle_connect in H. cbv zeta in H.
  destruct (negb (c_allow_zero_len (b_cfg s)) && is_empty (cn_cid cn)) eqn:E1.
  { inversion H; subst s' o. rewrite nget_upd_eq in Hk. inversion Hk; subst k. discriminate Hph. }
  destruct (negb ((if (cn_ver cn =? 5) && match p_authmethod (cn_props cn) with Some _ => true | None => false end
                   then 128 else auth_code cn s) =? 0)) eqn:E2.
  { inversion H; subst s' o. rewrite nget_upd_eq in Hk. inversion Hk; subst k. discriminate Hph. }
  set (cid := if is_empty (cn_cid cn) then AUTO_PREFIX ++ dec_str (b_auto s + 1) else cn_cid cn) in H.
  set (s0 := if is_empty (cn_cid cn) then set_auto (b_auto s + 1) s else s) in H.
  destruct (match aget cid (b_online s0) with Some oldc => conn_gone oldc s0 | None => (s0, []) end) as [s1 odup] eqn:E3.
  match type of H with (let (_, _) := ?X in _) = _ => destruct X as [[s2 owill] resume] eqn:E4 end.
  match type of H with (let (_, _) := ?X in _) = _ => destruct X as [wdelay expiry] eqn:E5 end.
  match type of H with (let (_, _) := ?X in _) = _ => destruct X as [sf ow] eqn:E6 end.
  inversion H; subst s' o. clear H.
  match type of E6 with fold_left ?F owill (?sx, []) = _ => set (F6 := F) in E6; set (s4 := sx) in E6 end.
  match goal with s4 := context [upd_conn c ?k0 _] |- _ => set (kinst := k0) in * end.
  assert (Hk4 : nget c (b_conns s4) = Some kinst) by (unfold s4; apply nget_upd_eq).
  assert (Hlk : l_locked (k_lim kinst) = []) by reflexivity.
  assert (Hkf : nget c (b_conns sf) = Some kinst).
  { replace sf with (fst (fold_left F6 owill (s4, []))) by now rewrite E6.
    apply (fold_pair_inv (fun s => nget c (b_conns s) = Some kinst)); [|exact Hk4].
    intros sa oa cw Ha. unfold F6. pose proof (send_will_conn_fresh c kinst (fst cw) (snd cw) sa Hlk Ha) as Hs.
    destruct (send_will (fst cw) (snd cw) sa). exact Hs. }
  rewrite Hkf in Hk. inversion Hk; subst k. clear Hk.
  unfold fresh_attached, connect_window, connect_maxpkt, connect_aliasmax, kinst. cbn.
  repeat split; reflexivity.
Qed.

(* Target 1 *)
Theorem window_at_connect c cn s s' o k :
  handle_connect c cn s = (s', o) -> nget c (b_conns s') = Some k -> k_phase k = PhConnected ->
  k_max_inflight k <= c_max_inflight (b_cfg s) /\
  (cn_ver cn = 5 -> forall r, p_recvmax (cn_props cn) = Some r -> k_max_inflight k <= r) /\
  (k_max_inflight k = N.min (c_max_inflight (b_cfg s))
                            (if cn_ver cn =? 5 then opt_or (p_recvmax (cn_props cn)) (c_max_inflight (b_cfg s))
                             else c_max_inflight (b_cfg s))) /\
  l_limit (k_lim k) = k_max_inflight k /\ l_used (k_lim k) = 0 /\ l_locked (k_lim k) = [] /\
  k_held k = None /\ k_drained k = false.
Proof.
  intros H Hk Hph. destruct (handle_connect_conn c cn s s' o k H Hk Hph) as (_ & Hv & Hw & Hl & Hh & Hd & _).
  rewrite Hl. cbn [l_limit l_used l_locked lim_new]. rewrite Hw. unfold connect_window, opt_or.
  repeat split; auto.
  - destruct (cn_ver cn =? 5); [|lia]. destruct (p_recvmax (cn_props cn)) as [r|]; [|lia].
    destruct (r <? c_max_inflight (b_cfg s)) eqn:E; lia.
  - intros H5 r Hr. rewrite H5, Hr. cbn. destruct (r <? c_max_inflight (b_cfg s)) eqn:E; lia.
  - destruct (cn_ver cn =? 5); [|lia]. destruct (p_recvmax (cn_props cn)) as [r|]; [|lia].
    destruct (r <? c_max_inflight (b_cfg s)) eqn:E; lia.
Qed.

(* Target 2 (establishment): the connection a successful CONNECT installs, attached to a well-shaped
   session queue that was just initialised (cursor 0), satisfies the invariant in its replay-phase form;
   the window clause needs the in-flight entries of the session to fit the new window *)
Lemma QInv_init q b inf que v5 limit : QInv q b inf que -> QInv (q_init false v5 limit q) b inf que.
Proof.
  intros [H1 H2 H3 H4 H5 H6 H7 H8]. constructor; cbn [q_init q_l q_cur q_drained]; auto; [lia|discriminate].
Qed.

Lemma QInv_new b max ifexp v5 limit : QInv (q_init true v5 limit (q_new max ifexp)) b [] [].
Proof. constructor; cbn; auto; try constructor; discriminate. Qed.

Lemma QInv_close q b inf que : QInv q b inf que -> QInv (q_close q) b inf que.
Proof. intros [H1 H2 H3 H4 H5 H6 H7 H8]. constructor; auto. Qed.

Theorem CQ_at_connect w cfg_ cn k q b inf que :
  fresh_attached cfg_ cn k -> c_max_inflight cfg_ <= MAXPID ->
  QInv q b inf que -> q_cur q = 0%nat -> q_limit q = k_client_max_packet k -> q_v5 q = (k_v k =? 5) ->
  (w = true -> N.of_nat (length inf) <= k_max_inflight k) ->
  CQ w k q b inf que.
Proof.
  intros (Hph & Hv & Hw & Hl & Hh & Hd & Hmp & Ham & Hao) Hmax HQ Hc Hlim Hv5 Hwin.
  assert (Hmi : k_max_inflight k <= MAXPID).
  { rewrite Hw. unfold connect_window. destruct (cn_ver cn =? 5); [|exact Hmax].
    destruct (p_recvmax (cn_props cn)) as [r|]; [|exact Hmax]. destruct (r <? c_max_inflight cfg_) eqn:E; lia. }
  assert (Hhe : held_ids k = []) by (unfold held_ids; now rewrite Hh).
  constructor; rewrite ?Hl, ?Hhe, ?Hc, ?Hd, ?Hao, ?app_nil_r; cbn [lim_new l_limit l_locked l_used am_new am_max firstn map]; auto.
  - apply lim_inv_init.
  - apply (qi_nd _ _ _ _ HQ).
  - tauto.
  - discriminate.
Qed.

(* ------------------------------------------------------------------ *)
(* 10. C03: ids, window                                                *)
(* ------------------------------------------------------------------ *)

(* Target 3, first half: the ids of the in-flight entries are pairwise distinct and in 1..65535 *)
Theorem C03_ids_distinct_nonzero w s c k q :
  PollInv w s c -> nget c (b_conns s) = Some k -> aget (k_cid k) (b_queues s) = Some q ->
  NoDup (inflight_ids q) /\ (forall i, In i (inflight_ids q) -> 1 <= i <= MAXPID) /\ ~ In 0 (inflight_ids q) /\
  (forall i, In i (inflight_ids q) -> In i (l_locked (k_lim k))).
Proof.
  intros (k0 & q0 & inf & que & Hk & Hq & _ & _ & _ & HCQ) Hk' Hq'.
  rewrite Hk in Hk'. inversion Hk'; subst k0. rewrite Hq in Hq'. inversion Hq'; subst q0. clear Hk' Hq'.
  pose proof (cq_q _ _ _ _ _ _ HCQ) as HQ. rewrite (inflight_ids_inf _ _ _ _ HQ).
  assert (Hr : forall i, In i (map e_id (firstn (q_cur q) inf)) -> 1 <= i <= MAXPID).
  { intros i Hi. apply in_map_iff in Hi. destruct Hi as (e & <- & He). apply In_firstn in He.
    pose proof (qi_inf _ _ _ _ HQ) as Hf. rewrite Forall_forall in Hf. now apply Hf. }
  split; [|split; [exact Hr|split]].
  - rewrite <- firstn_map. apply NoDup_firstn. pose proof (cq_nd _ _ _ _ _ _ HCQ) as Hn. now apply NoDup_app_l in Hn.
  - intros H0. apply Hr in H0. lia.
  - intros i Hi. apply (cq_locked _ _ _ _ _ _ HCQ). apply in_or_app. now left.
Qed.

(* the packet ids of the QoS>0 PUBLISH packets written to socket c *)
Definition out_pids (c : N) (o : list out) : list N :=
  flat_map (fun x => match x with
                     | OSend c' (KPublish _ qos _ _ _ pid _) => if (c' =? c) && negb (qos =? 0) then [pid] else []
                     | _ => []
                     end) o.

Lemma out_pids_app c a b : out_pids c (a ++ b) = out_pids c a ++ out_pids c b.
Proof. unfold out_pids. apply flat_map_app. Qed.

Lemma out_pids_drops c cid evs : out_pids c (drops_of cid evs) = [].
Proof.
  unfold drops_of, out_pids. induction evs as [|e evs IH]; cbn [flat_map]; [reflexivity|].
  rewrite flat_map_app, IH, app_nil_r. destruct e as [el r| |]; try reflexivity.
  destruct (e_body el); reflexivity.
Qed.

Lemma sent_as_pids c k now rs pubs : Forall2 (sent_as c k now) rs pubs ->
  out_pids c pubs = map e_id (filter sent12 rs).
Proof.
  intros H. induction H as [|r x rs pubs (m & Hb & (topic & props & -> & _) & _) H IH]; [reflexivity|].
  match goal with |- out_pids c (?a :: pubs) = _ => change (a :: pubs) with ([a] ++ pubs) end.
  rewrite out_pids_app, IH.
  assert (Hs : sent12 r = negb (m_qos m =? 0)) by (unfold sent12; now rewrite Hb).
  cbn [filter]. rewrite Hs.
  destruct (aged_fields (k_v k =? 5) now r m) as (_ & Aq & _ & _ & _ & Ap). unfold out_pids. cbn [flat_map]. rewrite N.eqb_refl, Aq, Ap. cbn [andb].
  destruct (m_qos m =? 0); cbn [negb app map]; [reflexivity|]. f_equal. unfold e_id. now rewrite Hb.
Qed.

(* Target 3, second half: after the replay, the ids of the QoS>0 PUBLISH packets a turn of the poll loop
   writes are exactly the ids by which the in-flight part of the queue grows; with the first half
   (applied to the new state): they are non-zero, distinct from each other and from all ids in flight *)
Theorem C03_new_ids w s c k q s' o :
  PollInv w s c -> nget c (b_conns s) = Some k -> aget (k_cid k) (b_queues s) = Some q -> k_drained k = true ->
  poll_once c s = Some (s', o) ->
  exists q', aget (k_cid k) (b_queues s') = Some q' /\ inflight_ids q' = inflight_ids q ++ out_pids c o /\
             NoDup (inflight_ids q ++ out_pids c o) /\ (forall i, In i (out_pids c o) -> 1 <= i <= MAXPID).
Proof.
  intros HP Hk Hq Hd Hp. pose proof HP as (k0 & q0 & inf & que & Hk0 & Hq0 & _ & _ & _ & HCQ).
  rewrite Hk in Hk0. inversion Hk0; subst k0. rewrite Hq in Hq0. inversion Hq0; subst q0. clear Hk0 Hq0.
  pose proof (poll_once_inv w c s s' o HP Hp) as HP'.
  destruct (poll_once_cases w c s s' o k q inf que Hk Hq HCQ Hp) as (_ & _ & _ & _ & _ & Hcase).
  assert (Hfin : forall q', aget (k_cid k) (b_queues s') = Some q' -> inflight_ids q' = inflight_ids q ++ out_pids c o ->
            exists q', aget (k_cid k) (b_queues s') = Some q' /\ inflight_ids q' = inflight_ids q ++ out_pids c o /\
             NoDup (inflight_ids q ++ out_pids c o) /\ (forall i, In i (out_pids c o) -> 1 <= i <= MAXPID)).
  { intros q' Hq' Hids. exists q'. split; [exact Hq'|]. split; [exact Hids|].
    destruct (poll_case_next _ _ _ _ _ _ _ _ _ Hcase) as (k' & q'' & _ & _ & Hk' & (Hcid & _) & Hq'' & _).
    rewrite Hq' in Hq''. inversion Hq''; subst q''. rewrite <- Hcid in Hq'.
    destruct (C03_ids_distinct_nonzero w s' c k' q' HP' Hk' Hq') as (Hnd & Hr & _). rewrite Hids in *.
    split; [exact Hnd|]. intros i Hi. apply Hr. apply in_or_app. now right. }
  destruct Hcase as [Hd' _ _ _|rs Hd' _ _ _ _|ids _ Hh Ho _ _ _ Hq'|ids rs evs pubs q' _ Hh Hr Ho Hrs Hpubs Hevs Hc
                       (k' & inf2 & que2 & Hk' & _ & _ & _ & Hq' & Hc' & Hf & Hids & HCQ')]; try congruence.
  - apply (Hfin q Hq'). subst o. cbn. now rewrite app_nil_r.
  - apply (Hfin q' Hq'). subst o. rewrite out_pids_app, out_pids_drops. cbn [app].
    rewrite (sent_as_pids _ _ _ _ _ Hpubs), <- Hf.
    pose proof (cq_q _ _ _ _ _ _ HCQ) as HQ. pose proof (cq_q _ _ _ _ _ _ HCQ') as HQ'.
    rewrite (inflight_ids_inf _ _ _ _ HQ), (inflight_ids_inf _ _ _ _ HQ'), Hc, Hc', !firstn_all, map_app. reflexivity.
Qed.

Lemma filter_len_le {A} (f : A -> bool) l : (length (filter f l) <= length l)%nat.
Proof. induction l as [|x r IH]; cbn [filter length]; [lia|]. destruct (f x); cbn [length]; lia. Qed.

(* Target 4: the window.  On a connection whose replay fits the window (w = true) the in-flight entries
   (and the ids the poll loop holds) never outnumber min(Receive Maximum, max_inflight) *)
Theorem C03_window s c k q :
  PollInv true s c -> nget c (b_conns s) = Some k -> aget (k_cid k) (b_queues s) = Some q ->
  N.of_nat (length (inflight_ids q)) <= k_max_inflight k /\
  N.of_nat (length (filter is_pub (firstn (q_cur q) (q_l q)))) <= k_max_inflight k /\
  (k_drained k = true -> N.of_nat (length (inflight_ids q) + length (held_ids k)) <= k_max_inflight k) /\
  l_used (k_lim k) <= l_limit (k_lim k).
Proof.
  intros (k0 & q0 & inf & que & Hk & Hq & _ & _ & _ & HCQ) Hk' Hq'.
  rewrite Hk in Hk'. inversion Hk'; subst k0. rewrite Hq in Hq'. inversion Hq'; subst q0. clear Hk' Hq'.
  pose proof (cq_q _ _ _ _ _ _ HCQ) as HQ. pose proof (qi_cur _ _ _ _ HQ) as Hcur.
  pose proof (CQ_used _ _ _ _ _ _ HCQ) as Hu. pose proof (cq_win _ _ _ _ _ _ HCQ eq_refl) as Hw.
  pose proof (cq_limit _ _ _ _ _ _ HCQ) as Hl.
  assert (Hlen : length (inflight_ids q) = q_cur q).
  { unfold inflight_ids. rewrite map_length, firstn_length, (qi_l _ _ _ _ HQ), app_length. lia. }
  assert (Hfl : (length (filter is_pub (firstn (q_cur q) (q_l q))) <= q_cur q)%nat).
  { etransitivity; [apply filter_len_le|]. rewrite firstn_length. lia. }
  assert (Hused : l_used (k_lim k) <= l_limit (k_lim k)).
  { destruct (k_drained k) eqn:Hd; [exact Hw|].
    rewrite Hu. unfold held_ids. rewrite (cq_replay _ _ _ _ _ _ HCQ Hd). cbn [length]. lia. }
  rewrite Hlen. repeat split; try lia.
Qed.

(* ------------------------------------------------------------------ *)
(* 11. first transmissions: DUP=0, size                                *)
(* ------------------------------------------------------------------ *)

Lemma In_drops_of cid evs x : In x (drops_of cid evs) -> exists m r, x = ODropped cid m r.
Proof.
  unfold drops_of. intros H. apply in_flat_map in H. destruct H as (e & _ & He).
  destruct e as [el r| |]; try contradiction. destruct (e_body el); [|contradiction].
  destruct He as [<-|[]]. eauto.
Qed.

Lemma Forall2_in_r {A B} (P : A -> B -> Prop) l m y : Forall2 P l m -> In y m -> exists x, In x l /\ P x y.
Proof.
  intros H. induction H as [|a b l m Hab H IH]; intros Hin; [contradiction|].
  destruct Hin as [<-|Hin]; [exists a; split; [now left|exact Hab]|].
  destruct (IH Hin) as (x & Hx & Hp). exists x. split; [now right|exact Hp].
Qed.

Lemma total_bytes_set_pid v5 p m : msg_total_bytes v5 (set_pid p m) = msg_total_bytes v5 m.
Proof. reflexivity. Qed.

Lemma total_bytes_aged v5 v5' now e m : msg_total_bytes v5 (aged v5' now e m) = msg_total_bytes v5 m.
Proof.
  unfold aged. destruct (v5' && negb (m_expiry m =? 0)) eqn:E; [|reflexivity].
  apply andb_true_iff in E. destruct E as [_ E]. apply negb_true_iff in E.
  unfold msg_total_bytes. cbn [with_expiry_val m_payload m_topic m_qos m_pfmt m_ctype m_corr m_subids m_expiry m_resp m_uprops].
  assert (Hr : (remaining (m_expiry m) ((now - e_at e) / 1000) =? 0) = false).
  { unfold remaining. destruct ((now - e_at e) / 1000 <? m_expiry m) eqn:E2; lia. }
  now rewrite Hr, E.
Qed.

(* what a turn of the poll loop writes once the replay is done: drop reports, and PUBLISH packets for
   queued (never sent) messages *)
Definition first_send (c : N) (L : N) (v5 : bool) (que : list elem) (ids : list N) (x : out) : Prop :=
  exists v m0 m', In v que /\ e_body v = QPub m0 /\ msg_total_bytes v5 m0 <= L /\
    is_pub_of c m' x /\ m_dup m' = m_dup m0 /\ msg_total_bytes v5 m' = msg_total_bytes v5 m0 /\
    m_topic m' = m_topic m0 /\ m_payload m' = m_payload m0 /\ m_qos m' = m_qos m0 /\ m_retained m' = m_retained m0 /\
    (m_qos m0 = 0 /\ m_pid m' = m_pid m0 \/ m_qos m0 <> 0 /\ In (m_pid m') ids) /\
    alias_fits L m' x.

Theorem poll_once_send_spec w s c k q inf que s' o :
  nget c (b_conns s) = Some k -> aget (k_cid k) (b_queues s) = Some q -> CQ w k q (b_tag s) inf que ->
  k_drained k = true -> poll_once c s = Some (s', o) ->
  forall x, In x o ->
    (exists m r, x = ODropped (k_cid k) m r) \/
    first_send c (k_client_max_packet k) (k_v k =? 5) que (held_ids k) x.
Proof.
  intros Hk Hq HCQ Hd Hp x Hx.
  destruct (poll_once_cases w c s s' o k q inf que Hk Hq HCQ Hp) as (_ & _ & _ & _ & _ & Hcase).
  destruct Hcase as [Hd' _ _ _|rs Hd' _ _ _ _|ids _ Hh Ho _ _ _ Hq'|ids rs evs pubs q' _ Hh Hr Ho Hrs Hpubs Hevs Hc _]; try congruence.
  - subst o. contradiction.
  - subst o. apply in_app_or in Hx. destruct Hx as [Hx|Hx]; [left; eapply In_drops_of; eauto|right].
    destruct (Forall2_in_r _ _ _ _ Hpubs Hx) as (r & Hr' & m & Hb & Hpub & Hfit & _).
    rewrite Forall_forall in Hrs. destruct (Hrs r Hr') as (v & m0 & Hv & Hbv & Hsz & _ & _ & Hcs).
    destruct (aged_fields (k_v k =? 5) (b_now s) r m) as (A1 & A2 & A3 & A4 & A5 & A6).
    assert (Hhe : held_ids k = ids) by (unfold held_ids; now rewrite Hh).
    exists v, m0, (aged (k_v k =? 5) (b_now s) r m). rewrite total_bytes_aged, A1, A2, A3, A4, A5, A6, Hhe.
    destruct Hcs as [[H0 ->]|(Hn0 & p & Hp' & Hbr)].
    + rewrite Hbv in Hb. inversion Hb; subst m. repeat split; auto.
    + rewrite Hbr in Hb. inversion Hb; subst m. cbn [set_pid m_dup m_topic m_payload m_qos m_retained m_pid].
      rewrite total_bytes_set_pid. repeat split; auto.
Qed.

(* Target 5, last clause: a first transmission carries DUP=0 *)
Theorem C03_first_dup0 w s c k s' o dup qos ret topic payload pid props c' :
  PollInv w s c -> nget c (b_conns s) = Some k -> k_drained k = true -> poll_once c s = Some (s', o) ->
  In (OSend c' (KPublish dup qos ret topic payload pid props)) o -> dup = false.
Proof.
  intros (k0 & q & inf & que & Hk0 & Hq & _ & _ & _ & HCQ) Hk Hd Hp Hin.
  rewrite Hk in Hk0. inversion Hk0; subst k0. clear Hk0.
  destruct (poll_once_send_spec w s c k q inf que s' o Hk Hq HCQ Hd Hp _ Hin) as [(m & r & Hx)|Hx]; [discriminate|].
  destruct Hx as (v & m0 & m' & Hv & Hb & _ & (t & ps & Hx & _) & Hdup & _).
  inversion Hx; subst. rewrite Hdup.
  pose proof (qi_que _ _ _ _ (cq_q _ _ _ _ _ _ HCQ)) as Hque. rewrite Forall_forall in Hque.
  specialize (Hque v Hv). unfold quedok in Hque. rewrite Hb in Hque. tauto.
Qed.

(* Target 7: every PUBLISH written for a queued message is within the client's Maximum Packet Size, measured
   (as the broker does) on the message as it sits in the queue: without the Topic Alias property *)
Theorem C13_out_size w s c k s' o x :
  PollInv w s c -> nget c (b_conns s) = Some k -> k_drained k = true -> poll_once c s = Some (s', o) ->
  In x o -> (forall cid m r, x <> ODropped cid m r) ->
  exists m, is_pub_of c m x /\ msg_total_bytes (k_v k =? 5) m <= k_client_max_packet k.
Proof.
  intros (k0 & q & inf & que & Hk0 & Hq & _ & _ & _ & HCQ) Hk Hd Hp Hin Hnd.
  rewrite Hk in Hk0. inversion Hk0; subst k0. clear Hk0.
  destruct (poll_once_send_spec w s c k q inf que s' o Hk Hq HCQ Hd Hp _ Hin) as [(m & r & Hx)|Hx]; [exfalso; eapply Hnd; eauto|].
  destruct Hx as (v & m0 & m' & Hv & Hb & Hsz & Hpub & _ & Hsz' & _).
  exists m'. split; [exact Hpub|]. now rewrite Hsz'.
Qed.

(* ... and the Topic Alias property is added only when it cannot push the packet over that maximum: a packet
   written for a queued message either carries no alias and the message measures at most the maximum, or it
   carries one and the message as a v5 packet plus the margin of the property (5 bytes: 3 for the property, one
   for a longer Property Length, one for a longer Remaining Length) measures at most the maximum *)
Theorem C13_out_size_with_alias w s c k s' o x :
  PollInv w s c -> nget c (b_conns s) = Some k -> k_drained k = true -> poll_once c s = Some (s', o) ->
  In x o -> (forall cid m r, x <> ODropped cid m r) ->
  exists m, is_pub_of c m x /\
    (out_alias x = None /\ msg_total_bytes (k_v k =? 5) m <= k_client_max_packet k \/
     (exists a, out_alias x = Some a) /\ msg_total_bytes true m + 5 <= k_client_max_packet k).
Proof.
  intros (k0 & q & inf & que & Hk0 & Hq & _ & _ & _ & HCQ) Hk Hd Hp Hin Hnd.
  rewrite Hk in Hk0. inversion Hk0; subst k0. clear Hk0.
  destruct (poll_once_send_spec w s c k q inf que s' o Hk Hq HCQ Hd Hp _ Hin) as [(m & r & Hx)|Hx]; [exfalso; eapply Hnd; eauto|].
  destruct Hx as (v & m0 & m' & Hv & Hb & Hsz & Hpub & _ & Hsz' & _ & _ & _ & _ & _ & Hfit).
  exists m'. split; [exact Hpub|]. destruct Hfit as [Hn|Hs]; [left|right; exact Hs].
  split; [exact Hn|]. now rewrite Hsz'.
Qed.

(* ------------------------------------------------------------------ *)
(* 12. C03: an in-flight entry stays until it is acknowledged          *)
(* ------------------------------------------------------------------ *)

(* the in-flight part of a queue: the leading entries that carry a packet id *)
Fixpoint q_inf_of (l : list elem) : list elem :=
  match l with [] => [] | e :: r => if e_id e =? 0 then [] else e :: q_inf_of r end.
Fixpoint q_que_of (l : list elem) : list elem :=
  match l with [] => [] | e :: r => if e_id e =? 0 then l else q_que_of r end.
Definition q_inf (q : queue) : list elem := q_inf_of (q_l q).

Lemma q_inf_of_app inf que : Forall idok inf -> Forall quedok que -> q_inf_of (inf ++ que) = inf /\ q_que_of (inf ++ que) = que.
Proof.
  intros Hi Hq. induction Hi as [|e inf He Hi IH]; cbn [app q_inf_of q_que_of].
  - destruct Hq as [|e que He Hq]; [auto|]. cbn [q_inf_of q_que_of]. rewrite (quedok_id _ He). cbn. auto.
  - apply idok_nz in He. apply N.eqb_neq in He. rewrite He. destruct IH as [-> ->]. auto.
Qed.

Lemma q_inf_eq q b inf que : QInv q b inf que -> q_inf q = inf.
Proof. intros H. unfold q_inf. rewrite (qi_l _ _ _ _ H). apply q_inf_of_app; [apply (qi_inf _ _ _ _ H)|apply (qi_que _ _ _ _ H)]. Qed.

(* (a) the poll loop never removes an in-flight entry; it re-sends them and appends new ones *)
Theorem C03_until_acked_poll w s c k q s' o :
  PollInv w s c -> nget c (b_conns s) = Some k -> aget (k_cid k) (b_queues s) = Some q ->
  poll_once c s = Some (s', o) ->
  exists q' l, aget (k_cid k) (b_queues s') = Some q' /\ map rkey (q_inf q') = map rkey (q_inf q) ++ l.
Proof.
  intros (k0 & q0 & inf & que & Hk0 & Hq0 & _ & _ & _ & HCQ) Hk Hq Hp.
  rewrite Hk in Hk0. inversion Hk0; subst k0. rewrite Hq in Hq0. inversion Hq0; subst q0. clear Hk0 Hq0.
  destruct (poll_once_cases w c s s' o k q inf que Hk Hq HCQ Hp) as (_ & _ & _ & _ & _ & Hcase).
  rewrite (q_inf_eq _ _ _ _ (cq_q _ _ _ _ _ _ HCQ)).
  destruct Hcase as [_ _ _ (k' & q' & _ & _ & _ & Hq' & _ & HCQ')
                    |rs _ _ _ _ (k' & q' & inf' & _ & _ & _ & Hq' & _ & Hrk & HCQ')
                    |ids _ _ _ _ _ _ Hq'
                    |ids rs evs pubs q' _ _ _ _ _ _ _ _ (k' & inf2 & que2 & _ & _ & _ & _ & Hq' & _ & _ & _ & HCQ')].
  - exists q', []. rewrite (q_inf_eq _ _ _ _ (cq_q _ _ _ _ _ _ HCQ')), app_nil_r. auto.
  - exists q', []. rewrite (q_inf_eq _ _ _ _ (cq_q _ _ _ _ _ _ HCQ')), app_nil_r. auto.
  - exists q, []. rewrite (q_inf_eq _ _ _ _ (cq_q _ _ _ _ _ _ HCQ)), app_nil_r. auto.
  - exists q', (map rkey inf2). rewrite (q_inf_eq _ _ _ _ (cq_q _ _ _ _ _ _ HCQ')), map_app. auto.
Qed.

Lemma ack_state_queue c pid cid f s q : aget cid (b_queues s) = Some q ->
  aget cid (b_queues (release_id c pid (queue_op cid f s))) = Some (f q).
Proof.
  intros Hq. rewrite (queue_op_some _ _ _ _ Hq). unfold release_id. rewrite set_queues_conns.
  destruct (nget c (b_conns s)); [rewrite upd_conn_queues|]; rewrite set_queues_queues; apply aget_aset_eq.
Qed.

(* (b) PUBACK / PUBCOMP / PUBREC(error, v5) with packet id pid remove exactly the entry with that id among those
   already (re)sent on this connection, or nothing; PUBREC turns it into a PUBREL entry with the same id *)
Theorem C03_until_acked_ack w s c k q p pid s' o :
  PollInv w s c -> nget c (b_conns s) = Some k -> aget (k_cid k) (b_queues s) = Some q ->
  is_ack p = Some pid -> handle_packet c k p s = HOk s' o ->
  exists q', aget (k_cid k) (b_queues s') = Some q' /\
    (q_inf q' = q_inf q \/
     exists i d, (i < q_cur q)%nat /\ nth_error (q_inf q) i = Some d /\ e_id d = pid /\
       ((q_inf q' = remove_nth i (q_inf q) /\
         match p with KPubrec _ code _ => (k_v k =? 5) && (128 <=? code) = true | _ => True end) \/
        (exists e, q_inf q' = replace_nth i e (q_inf q) /\ e_body e = QRel pid /\
         match p with KPubrec _ code _ => (k_v k =? 5) && (128 <=? code) = false | _ => False end))).
Proof.
  intros (k0 & q0 & inf & que & Hk0 & Hq0 & _ & _ & _ & HCQ) Hk Hq Hack Hh.
  rewrite Hk in Hk0. inversion Hk0; subst k0. rewrite Hq in Hq0. inversion Hq0; subst q0. clear Hk0 Hq0.
  pose proof (cq_q _ _ _ _ _ _ HCQ) as HQ. rewrite (q_inf_eq _ _ _ _ HQ).
  assert (Hrem : forall s1, s1 = release_id c pid (queue_op (k_cid k) (fun q => fst (q_remove pid q)) s) ->
            exists q', aget (k_cid k) (b_queues s1) = Some q' /\
              (q_inf q' = inf \/ exists i d, (i < q_cur q)%nat /\ nth_error inf i = Some d /\ e_id d = pid /\ q_inf q' = remove_nth i inf)).
  { intros s1 ->. exists (fst (q_remove pid q)). split; [exact (ack_state_queue c pid (k_cid k) (fun q => fst (q_remove pid q)) s q Hq)|].
    destruct (q_remove_inv pid q (b_tag s) inf que HQ) as (_ & _ & [(i & d & Hi & Hn & Hd & HQ' & _)|(Hq' & _)]).
    - right. exists i, d. rewrite (q_inf_eq _ _ _ _ HQ'). auto.
    - left. rewrite Hq'. apply (q_inf_eq _ _ _ _ HQ). }
  destruct p; cbn [is_ack] in Hack; try discriminate; inversion Hack; subst pid0; cbn [handle_packet] in Hh.
  - inversion Hh; subst s' o. destruct (Hrem _ eq_refl) as (q' & Hq' & [H|(i & d & H1 & H2 & H3 & H4)]); exists q'; (split; [exact Hq'|]); [now left|].
    right. exists i, d. auto 10.
  - destruct ((k_v k =? 5) && (128 <=? code)) eqn:Ec; inversion Hh; subst s' o.
    + destruct (Hrem _ eq_refl) as (q' & Hq' & [H|(i & d & H1 & H2 & H3 & H4)]); exists q'; (split; [exact Hq'|]); [now left|].
      right. exists i, d. auto 10.
    + set (e := {| e_tag := 0; e_at := b_now s; e_expiry := None; e_body := QRel pid |}).
      exists (fst (q_replace e q)). rewrite (queue_op_some _ _ _ _ Hq), set_queues_queues, aget_aset_eq. split; [reflexivity|].
      destruct (q_replace_inv e pid q (b_tag s) inf que HQ eq_refl eq_refl) as (_ & _ & _ & [(i & d & Hi & Hn & Hd & HQ' & _)|(Hq' & _)]).
      * right. exists i, d. rewrite (q_inf_eq _ _ _ _ HQ'). split; [exact Hi|]. split; [exact Hn|]. split; [exact Hd|].
        right. exists e. auto.
      * left. rewrite Hq'. apply (q_inf_eq _ _ _ _ HQ).
  - inversion Hh; subst s' o. destruct (Hrem _ eq_refl) as (q' & Hq' & [H|(i & d & H1 & H2 & H3 & H4)]); exists q'; (split; [exact Hq'|]); [now left|].
    right. exists i, d. auto 10.
Qed.

Lemma fei_expired now : forall l i j, first_expired_inflight now l i = Some j ->
  exists k d, j = (i + k)%nat /\ nth_error l k = Some d /\ expired now d = true.
Proof.
  induction l as [|e r IH]; intros i j H; cbn [first_expired_inflight] in H; [discriminate|].
  destruct (e_id e =? 0) eqn:E0; [discriminate|].
  destruct (expired now e) eqn:Ex.
  - inversion H; subst. exists 0%nat, e. split; [lia|]. split; [reflexivity|exact Ex].
  - destruct (IH _ _ H) as (k & d & -> & Hn & Hd). exists (S k), d. split; [lia|]. split; auto.
Qed.

(* Add drops an in-flight entry only when it has expired (inflight_expiry) *)
Lemma q_add_inflight_drop_expired now e q q' d evs0 evs1 :
  q_add now e q = QOk (q', evs0 ++ EvDropped d DExpiredInflight :: evs1) -> expired now d = true.
Proof.
  unfold q_add. destruct (q_max q <=? length (q_l q))%nat.
  - destruct (add_victim now e q) as [|r|i r] eqn:Ev; [discriminate| |].
    + apply add_victim_new in Ev. subst r. intros H. inversion H as [[Hq He]].
      destruct evs0 as [|x [|y z]]; cbn in He; inversion He.
    + destruct (nth_error (q_l q) i) as [d0|] eqn:En; [|discriminate]. intros H. inversion H as [[Hq He]]. clear H.
      unfold add_victim in Ev. destruct (first_expired_inflight now (q_l q) 0) as [j|] eqn:Ef.
      * inversion Ev; subst j r. destruct (fei_expired _ _ _ _ Ef) as (k & d1 & Hk & Hn & Hx). cbn [Nat.add] in Hk. subst k.
        rewrite En in Hn. inversion Hn; subst d1.
        destruct evs0 as [|x [|y z]]; cbn in He; inversion He; subst; try exact Hx.
        destruct z; discriminate.
      * exfalso. destruct (q_drained q && (q_cur q =? length (q_l q))%nat); [discriminate|].
        destruct (add_scan now (skipn (q_cur q) (q_l q)) (q_cur q) None) as [|j r0] eqn:Es.
        -- destruct (e_body e); [|discriminate]. destruct (m_qos m =? 0); [discriminate|].
           destruct (first_queued (skipn (q_cur q) (q_l q)) (q_cur q)); [|discriminate].
           inversion Ev; subst. destruct evs0 as [|x [|y z]]; cbn in He; inversion He.
        -- inversion Ev; subst.
           destruct (add_scan_some now (fun _ => True) _ _ _ _ _ Es) as [_ Hr]; auto.
           destruct Hr; subst r; destruct evs0 as [|x [|y z]]; cbn in He; inversion He.
  - intros H. inversion H as [[Hq He]]. destruct evs0 as [|x [|y z]]; cbn in He; inversion He.
Qed.

(* (c) a delivery removes an in-flight entry only when it has expired, and reports the drop *)
Theorem C03_until_acked_add w s c k q cid m sb ids s' o :
  PollInv w s c -> nget c (b_conns s) = Some k -> aget (k_cid k) (b_queues s) = Some q -> m_pid m = 0 ->
  add_to_queue cid m sb ids s = (s', o) ->
  exists q', aget (k_cid k) (b_queues s') = Some q' /\
    (q_inf q' = q_inf q \/
     exists i d, nth_error (q_inf q) i = Some d /\ q_inf q' = remove_nth i (q_inf q) /\ expired (b_now s) d = true /\
                 o = match e_body d with QPub m0 => [ODropped (k_cid k) m0 DExpiredInflight] | QRel _ => [] end).
Proof.
  intros (k0 & q0 & inf & que & Hk0 & Hq0 & Hon & Huniq & Htag & HCQ) Hk Hq Hpid Hadd.
  rewrite Hk in Hk0. inversion Hk0; subst k0. rewrite Hq in Hq0. inversion Hq0; subst q0. clear Hk0 Hq0.
  pose proof (cq_q _ _ _ _ _ _ HCQ) as HQ. rewrite (q_inf_eq _ _ _ _ HQ).
  assert (Hsame : exists q', aget (k_cid k) (b_queues s) = Some q' /\ (q_inf q' = inf \/
     exists i d, nth_error inf i = Some d /\ q_inf q' = remove_nth i inf /\ expired (b_now s) d = true /\
                 o = match e_body d with QPub m0 => [ODropped (k_cid k) m0 DExpiredInflight] | QRel _ => [] end)).
  { exists q. split; [exact Hq|left; apply (q_inf_eq _ _ _ _ HQ)]. }
  unfold add_to_queue in Hadd.
  destruct (aget cid (b_queues s)) as [q0|] eqn:Hq0; [|inversion Hadd; subst; exact Hsame].
  destruct (negb (c_queue_qos0 (b_cfg s)) && negb (ahas cid (b_online s)) && (m_qos m =? 0)); [inversion Hadd; subst; exact Hsame|].
  set (qos := if s_qos sb <? m_qos m then s_qos sb else m_qos m) in Hadd.
  set (m' := with_qos_etc m qos (filter (fun i => negb (i =? 0)) ids) (m_retained m && s_rap sb)) in Hadd.
  match type of Hadd with context [q_add ?n ?e0 q0] => set (e := e0) in Hadd; set (now := n) in Hadd end.
  destruct (q_add now e q0) as [[q' evs]| | |] eqn:Hqa; try (inversion Hadd; subst; exact Hsame).
  inversion Hadd; subst s' o. clear Hadd Hsame.
  assert (He : quedok e) by (unfold quedok, e; cbn; auto).
  assert (Hqs : forall s1, b_queues (release_dropped cid evs s1) = b_queues s1).
  { intros s1. rewrite release_dropped_eq. destruct (aget cid (b_online s1)); [|reflexivity]. destruct (nget n (b_conns s1)); reflexivity. }
  rewrite Hqs, set_picks_tag_queues, set_queues_queues.
  destruct (str_dec cid (k_cid k)) as [->|Hne].
  - rewrite Hq in Hq0. inversion Hq0; subst q0. exists q'. rewrite aget_aset_eq. split; [reflexivity|].
    destruct (q_add_inv now e q (b_tag s) inf que q' evs HQ He eq_refl Htag Hqa)
      as (_ & _ & [(que' & HQ' & _ & _)|(i & d & que' & Hn & HQ' & _ & Hev)]).
    + left. apply (q_inf_eq _ _ _ _ HQ').
    + right. exists i, d. rewrite (q_inf_eq _ _ _ _ HQ'). split; [exact Hn|]. split; [reflexivity|].
      subst evs. split; [apply (q_add_inflight_drop_expired now e q q' d [EvInflight (-1)] [] Hqa)|].
      unfold drops_of. cbn [flat_map app]. destruct (e_body d); reflexivity.
  - exists q. rewrite aget_aset_ne by (intros E; apply Hne; now symmetry). split; [exact Hq|left; apply (q_inf_eq _ _ _ _ HQ)].
Qed.

(* ------------------------------------------------------------------ *)
(* 13. C03: after a reconnect the retransmissions come first           *)
(* ------------------------------------------------------------------ *)

Definition retrans_of_key (c : N) (key : (N * bool * str * str * N) + N) (o : out) : Prop :=
  match key with
  | inl (qos, ret, topic, payload, pid) =>
      exists t ps, o = OSend c (KPublish true qos ret t payload pid ps) /\ (t = topic \/ t = [])
  | inr p => o = OSend c (KPubrel p 0 [])
  end.

Lemma is_retrans_key c e o : is_retrans c e o <-> retrans_of_key c (rkey e) o.
Proof. unfold is_retrans, retrans_of_key, rkey. destruct (e_body e); reflexivity. Qed.

Lemma Forall2_retrans_keys c l o : Forall2 (is_retrans c) l o <-> Forall2 (retrans_of_key c) (map rkey l) o.
Proof.
  split.
  - intros H. induction H; cbn [map]; constructor; auto. now apply is_retrans_key.
  - revert o. induction l as [|e l IH]; intros o H; cbn [map] in H; inversion H; subst; constructor; auto.
    now apply is_retrans_key.
Qed.

Lemma poll_conn_S_connected f c s k : nget c (b_conns s) = Some k -> k_phase k = PhConnected ->
  poll_conn (S f) c s = match poll_once c s with
                        | Some (s', o) => let '(s'', o') := poll_conn f c s' in (s'', o ++ o')
                        | None => (s, [])
                        end.
Proof. intros Hk Hph. cbn [poll_conn]. rewrite Hk, Hph. reflexivity. Qed.

Definition all_dup0 (o : list out) : Prop :=
  forall c' dup qos ret t pl pid ps, In (OSend c' (KPublish dup qos ret t pl pid ps)) o -> dup = false.

(* once the replay is over, everything the poll loop writes is a first transmission *)
Lemma poll_conn_dup0 w c : forall fuel s k,
  PollInv w s c -> nget c (b_conns s) = Some k -> k_phase k = PhConnected -> k_drained k = true ->
  all_dup0 (snd (poll_conn fuel c s)).
Proof.
  induction fuel as [|f IH]; intros s k HP Hk Hph Hd; [intros ? ? ? ? ? ? ? ? []|].
  rewrite (poll_conn_S_connected f c s k Hk Hph).
  destruct (poll_once c s) as [[s' o]|] eqn:Hp; [|intros ? ? ? ? ? ? ? ? []].
  pose proof HP as (k0 & q & inf & que & Hk0 & Hq & _ & _ & _ & HCQ).
  rewrite Hk in Hk0. inversion Hk0; subst k0. clear Hk0.
  pose proof (poll_once_inv w c s s' o HP Hp) as HP'.
  destruct (poll_once_cases w c s s' o k q inf que Hk Hq HCQ Hp) as (_ & _ & _ & _ & _ & Hcase).
  assert (Hnext : exists k', nget c (b_conns s') = Some k' /\ k_phase k' = PhConnected /\ k_drained k' = true).
  { destruct Hcase as [Hd' _ _ _|rs Hd' _ _ _ _|ids _ _ _ _ _ (k' & Hk' & _ & Hd' & (_ & _ & Hph' & _) & _) _
                      |ids rs evs pubs q' _ _ _ _ _ _ _ _ (k' & inf2 & que2 & Hk' & _ & Hd' & (_ & _ & Hph' & _) & _)]; try congruence.
    - exists k'. rewrite Hph'. auto.
    - exists k'. rewrite Hph'. auto. }
  destruct Hnext as (k' & Hk' & Hph' & Hd').
  specialize (IH s' k' HP' Hk' Hph' Hd').
  destruct (poll_conn f c s') as [s'' o'] eqn:Hpc. cbn [snd] in *.
  intros c' dup qos ret t pl pid ps Hin. apply in_app_or in Hin. destruct Hin as [Hin|Hin].
  - eapply (C03_first_dup0 w s c k s' o); eauto.
  - eapply IH; eauto.
Qed.

Lemma poll_once_replay_some c s k q : nget c (b_conns s) = Some k -> k_phase k = PhConnected ->
  aget (k_cid k) (b_queues s) = Some q -> k_drained k = false -> exists s' o, poll_once c s = Some (s', o).
Proof.
  intros Hk Hph Hq Hd. rewrite poll_once_eq, Hk, Hph, Hq, Hd. cbn [negb].
  destruct (q_read_inflight (b_now s) (N.to_nat (k_max_inflight k)) q) as [q' rs].
  destruct rs as [|r rs]; [eauto|]. cbn zeta.
  destruct (fold_left (replay_step c (b_now s)) (r :: rs) (k, [])) as [k' o]. eauto.
Qed.

Lemma skipn_add {A} (l : list A) : forall a b, skipn a (skipn b l) = skipn (b + a) l.
Proof.
  induction l as [|x r IH]; intros a b.
  - now rewrite !skipn_nil.
  - destruct b as [|b]; cbn [skipn Nat.add]; [reflexivity|]. apply IH.
Qed.

Lemma replay_run w c : forall fuel s k q inf que,
  nget c (b_conns s) = Some k -> aget (k_cid k) (b_queues s) = Some q -> CQ w k q (b_tag s) inf que ->
  PollInv w s c -> k_phase k = PhConnected -> k_drained k = false -> 1 <= k_max_inflight k ->
  (length inf - q_cur q < fuel)%nat ->
  exists o1 o2, snd (poll_conn fuel c s) = o1 ++ o2 /\
    Forall2 (retrans_of_key c) (skipn (q_cur q) (map rkey inf)) o1 /\ all_dup0 o2.
Proof.
  induction fuel as [|f IH]; intros s k q inf que Hk Hq HCQ HP Hph Hd Hm Hfuel; [lia|].
  rewrite (poll_conn_S_connected f c s k Hk Hph).
  destruct (poll_once_replay_some c s k q Hk Hph Hq Hd) as (s' & o & Hp). rewrite Hp.
  pose proof (poll_once_inv w c s s' o HP Hp) as HP'.
  destruct (poll_once_cases w c s s' o k q inf que Hk Hq HCQ Hp) as (_ & _ & _ & _ & _ & Hcase).
  destruct Hcase as [_ Ho Hall (k' & q' & Hk' & Hd' & (_ & _ & Hph' & _) & Hq' & Hc' & HCQ')
                    |rs _ Hne Hret Hrk (k' & q' & inf' & Hk' & Hd' & (Hcid & _ & Hph' & Hmi' & _) & Hq' & Hc' & Hrk' & HCQ')
                    |ids Hd' _ _ _ _ _ _|ids rs evs pubs q' Hd' _ _ _ _ _ _ _ _]; try congruence.
  - (* the replay is over *)
    subst o. rewrite Hph in Hph'.
    pose proof (poll_conn_dup0 w c f s' k' HP' Hk' Hph' Hd') as Hdup.
    destruct (poll_conn f c s') as [s'' o'']. cbn [snd app] in *.
    exists [], o''. split; [reflexivity|]. split; [|exact Hdup].
    rewrite skipn_all2 by (rewrite map_length, (Hall Hm); lia). constructor.
  - (* one batch of retransmissions *)
    rewrite Hph in Hph'. rewrite <- Hcid in Hq'.
    assert (Hlen : length inf' = length inf) by (rewrite <- (map_length rkey inf'), Hrk'; apply map_length).
    assert (Hrs1 : (1 <= length rs)%nat) by (destruct rs; [congruence|cbn; lia]).
    assert (Hrs2 : (length rs <= length inf - q_cur q)%nat).
    { apply (f_equal (@length _)) in Hrk. rewrite map_length, firstn_length, skipn_length, map_length in Hrk. lia. }
    assert (Hfuel' : (length inf' - q_cur q' < f)%nat) by lia.
    rewrite <- Hmi' in Hm.
    destruct (IH s' k' q' inf' que Hk' Hq' HCQ' HP' Hph' Hd' Hm Hfuel') as (o1 & o2 & Ho & Hf1 & Hf2).
    destruct (poll_conn f c s') as [s'' o'']. cbn [snd] in *. subst o''.
    exists (o ++ o1), o2. split; [now rewrite app_assoc|]. split; [|exact Hf2].
    rewrite <- (firstn_skipn (length rs) (skipn (q_cur q) (map rkey inf))).
    apply Forall2_app.
    + rewrite <- Hrk. now apply Forall2_retrans_keys.
    + rewrite skipn_add. rewrite Hrk', Hc' in Hf1. exact Hf1.
Qed.

(* Target 5: on the connection that resumes a session, the poll loop first retransmits every in-flight
   entry not yet replayed, in queue order: a PUBLISH with DUP=1 and the entry's id, QoS, RETAIN, payload and
   topic (or its alias), or a PUBREL for an entry whose PUBREC had arrived; everything written afterwards
   carries DUP=0 *)
Theorem C03_replay_first w s c k q fuel :
  PollInv w s c -> nget c (b_conns s) = Some k -> aget (k_cid k) (b_queues s) = Some q ->
  k_phase k = PhConnected -> k_drained k = false -> 1 <= k_max_inflight k ->
  (length (q_inf q) - q_cur q < fuel)%nat ->
  exists o1 o2, snd (poll_conn fuel c s) = o1 ++ o2 /\
    Forall2 (is_retrans c) (skipn (q_cur q) (q_inf q)) o1 /\ all_dup0 o2.
Proof.
  intros HP Hk Hq Hph Hd Hm Hfuel. pose proof HP as (k0 & q0 & inf & que & Hk0 & Hq0 & _ & _ & _ & HCQ).
  rewrite Hk in Hk0. inversion Hk0; subst k0. rewrite Hq in Hq0. inversion Hq0; subst q0. clear Hk0 Hq0.
  rewrite (q_inf_eq _ _ _ _ (cq_q _ _ _ _ _ _ HCQ)) in *.
  destruct (replay_run w c fuel s k q inf que Hk Hq HCQ HP Hph Hd Hm Hfuel) as (o1 & o2 & Ho & H1 & H2).
  exists o1, o2. split; [exact Ho|]. split; [|exact H2].
  apply Forall2_retrans_keys. now rewrite <- skipn_map.
Qed.

(* ------------------------------------------------------------------ *)
(* 14. C13: outbound topic aliases over the PUBLISH packets of one connection *)
(* ------------------------------------------------------------------ *)

Fixpoint wp_run (c : N) (k : conn) (ms : list msg) : conn * list out :=
  match ms with
  | [] => (k, [])
  | m :: r => let '(k1, o1) := write_publish c k m in
              let '(k2, o2) := wp_run c k1 r in (k2, o1 ++ o2)
  end.

(* the client: a Topic Alias must be in 1..M; with an empty topic it is looked up, otherwise it is (re)bound *)
Definition client_alias_step (M : N) (tb : atable) (o : out) : option (atable * str) :=
  match o with
  | OSend _ (KPublish _ _ _ topic _ _ props) =>
      match p_alias props with
      | None => match topic with [] => None | _ => Some (tb, topic) end
      | Some a =>
          if (1 <=? a) && (a <=? M) then
            match topic with
            | [] => match at_get a tb with Some t => Some (tb, t) | None => None end
            | _ => Some (at_set a topic tb, topic)
            end
          else None
      end
  | _ => None
  end.

Fixpoint client_resolve (M : N) (tb : atable) (os : list out) : option (list str) :=
  match os with
  | [] => Some []
  | o :: r => match client_alias_step M tb o with
              | Some (tb', t) => match client_resolve M tb' r with Some ts => Some (t :: ts) | None => None end
              | None => None
              end
  end.

(* the packet of message m carries a Topic Alias exactly when it fits the client's Maximum Packet Size with
   the margin of the property; otherwise it is sent plain, with its topic *)
Definition alias_used (k : conn) (m : msg) (o : out) : Prop :=
  if msg_total_bytes true m + 5 <=? k_client_max_packet k
  then exists a, out_alias o = Some a /\ 1 <= a <= k_client_alias_max k
  else out_alias o = None.

Lemma wp_alias_step c k m tb :
  k_v k = 5 -> 1 <= k_client_alias_max k <= MAXPID -> am_max (k_alias_out k) = k_client_alias_max k ->
  AliasInv (k_alias_out k) -> AliasSim (k_alias_out k) tb -> m_topic m <> [] ->
  exists o tb', snd (write_publish c k m) = [o] /\ alias_used k m o /\
    client_alias_step (k_client_alias_max k) tb o = Some (tb', m_topic m) /\
    AliasInv (k_alias_out (fst (write_publish c k m))) /\ AliasSim (k_alias_out (fst (write_publish c k m))) tb'.
Proof.
  intros Hv HM Ham Hinv Hsim Ht. unfold write_publish, alias_used.
  assert (Hc : (k_v k =? 5) && (0 <? k_client_alias_max k) = true) by (rewrite Hv; cbn; lia).
  rewrite Hc. cbn [andb].
  destruct (msg_total_bytes true m + 5 <=? k_client_max_packet k).
  2:{ (* no room for the property: the packet is sent plain; the client's table is not touched *)
      eexists. exists tb. cbn [fst snd]. split; [reflexivity|]. cbn [out_alias client_alias_step].
      rewrite msg_props_no_alias. split; [reflexivity|]. split; [|split; assumption].
      destruct (m_topic m); [congruence|reflexivity]. }
  assert (HM' : 1 <= am_max (k_alias_out k) <= MAXPID) by lia.
  destruct (alias_step_sim (m_topic m) (k_alias_out k) tb Hinv HM' Hsim) as (tb' & Hstep & Hsim').
  pose proof (am_check_inv (m_topic m) (k_alias_out k) Hinv ltac:(lia)) as Hinv'.
  destruct (am_check (m_topic m) (k_alias_out k)) as [am' [a ex|]] eqn:Ec; cbn [fst snd] in *; [|discriminate].
  unfold alias_step in Hstep. rewrite Ham in Hstep.
  destruct ((1 <=? a) && (a <=? k_client_alias_max k)) eqn:Er; [|discriminate].
  assert (Ha0 : (a =? 0) = false) by lia. rewrite Ha0.
  eexists. exists tb'. split; [reflexivity|]. cbn [out_alias client_alias_step k_alias_out].
  rewrite p_alias_app, msg_props_no_alias. cbn [p_alias]. rewrite Er.
  split; [exists a; split; [reflexivity|lia]|]. split; [|split; assumption].
  destruct ex.
  - destruct (at_get a tb) as [t0|]; [|discriminate]. destruct (str_eqb t0 (m_topic m)) eqn:Et; [|discriminate].
    apply str_eqb_eq in Et. inversion Hstep; subst. reflexivity.
  - inversion Hstep; subst. destruct (m_topic m); [congruence|reflexivity].
Qed.

Lemma alias_used_static k k' m o :
  k_client_max_packet k' = k_client_max_packet k -> k_client_alias_max k' = k_client_alias_max k ->
  alias_used k' m o -> alias_used k m o.
Proof. unfold alias_used. now intros -> ->. Qed.

(* Target 8: the PUBLISH packets written on one v5 connection whose client announced Topic Alias Maximum M >= 1:
   one packet per message; it carries an alias in 1..M when the packet with the property still fits the client's
   Maximum Packet Size (margin 5), and is sent plain otherwise; a client that replays them resolves every packet
   to the message's topic *)
Theorem C13_out_alias_gen c : forall ms k tb,
  k_v k = 5 -> 1 <= k_client_alias_max k <= MAXPID -> am_max (k_alias_out k) = k_client_alias_max k ->
  AliasInv (k_alias_out k) -> AliasSim (k_alias_out k) tb -> Forall (fun m => m_topic m <> []) ms ->
  client_resolve (k_client_alias_max k) tb (snd (wp_run c k ms)) = Some (map m_topic ms) /\
  Forall2 (alias_used k) ms (snd (wp_run c k ms)).
Proof.
  induction ms as [|m ms IH]; intros k tb Hv HM Ham Hinv Hsim Hts; cbn [wp_run map].
  - split; [reflexivity|constructor].
  - inversion Hts as [|? ? Ht Hts']; subst.
    destruct (wp_alias_step c k m tb Hv HM Ham Hinv Hsim Ht) as (o & tb' & Ho & Hu & Hstep & Hinv' & Hsim').
    pose proof (wp_frame c k m) as (_ & _ & _ & (_ & Hv' & _ & _ & Hcmp & Hcam) & Hamx).
    destruct (write_publish c k m) as [k1 o1]. cbn [fst snd] in *. subst o1.
    assert (Ham1 : am_max (k_alias_out k1) = k_client_alias_max k1) by congruence.
    rewrite <- Hcam in HM.
    destruct (IH k1 tb' ltac:(congruence) HM Ham1 Hinv' Hsim' Hts') as (Hres & Hall).
    destruct (wp_run c k1 ms) as [k2 o2]. cbn [snd app] in *.
    split.
    + cbn [client_resolve]. rewrite Hstep. rewrite <- Hcam. now rewrite Hres.
    + constructor; [exact Hu|]. eapply Forall2_impl_in; [|exact Hall].
      intros m' o' _. now apply alias_used_static.
Qed.

Lemma alias_sim_init max : AliasSim (am_new max) [].
Proof. intros a t. cbn. split; [discriminate|tauto]. Qed.

Theorem C13_out_alias_conn c ms k :
  k_v k = 5 -> 1 <= k_client_alias_max k <= 65535 -> k_alias_out k = am_new (k_client_alias_max k) ->
  Forall (fun m => m_topic m <> []) ms ->
  client_resolve (k_client_alias_max k) [] (snd (wp_run c k ms)) = Some (map m_topic ms) /\
  Forall2 (alias_used k) ms (snd (wp_run c k ms)).
Proof.
  intros Hv HM Hao Hts. apply C13_out_alias_gen; auto.
  - rewrite Hao. reflexivity.
  - rewrite Hao. apply alias_inv_init.
  - rewrite Hao. apply alias_sim_init.
Qed.

(* ------------------------------------------------------------------ *)
(* 15. a decision procedure for the invariant (for the witnesses)      *)
(* ------------------------------------------------------------------ *)

Fixpoint nodupNb (l : list N) : bool := match l with [] => true | x :: r => negb (memN x r) && nodupNb r end.
Lemma nodupNb_sound l : nodupNb l = true -> NoDup l.
Proof.
  induction l as [|x r IH]; cbn [nodupNb]; intros H; [constructor|].
  apply andb_true_iff in H. destruct H as [H1 H2]. constructor; [|auto].
  apply negb_true_iff in H1. now apply memN_notIn.
Qed.

Definition idokb (e : elem) : bool := (1 <=? e_id e) && (e_id e <=? MAXPID).
Definition quedokb (e : elem) : bool := match e_body e with QPub m => (m_pid m =? 0) && negb (m_dup m) | QRel _ => false end.
Definition tag_okb (b : N) (e : elem) : bool := if is_pub e then negb (e_tag e =? 0) && (e_tag e <? b) else e_tag e =? 0.

Lemma q_split l : l = q_inf_of l ++ q_que_of l.
Proof. induction l as [|e r IH]; cbn [q_inf_of q_que_of]; [reflexivity|]. destruct (e_id e =? 0); cbn [app]; [reflexivity|now f_equal]. Qed.

Definition qinv_b (q : queue) (b : N) : bool :=
  let inf := q_inf_of (q_l q) in let que := q_que_of (q_l q) in
  forallb idokb inf && forallb quedokb que && (q_cur q <=? length inf)%nat &&
  (if q_drained q then (q_cur q =? length inf)%nat else true) &&
  nodupNb (map e_id inf) && forallb (tag_okb b) (q_l q) && nodupNb (pub_tags (q_l q)).

Lemma forallb_Forall {A} (f : A -> bool) (P : A -> Prop) l : (forall x, f x = true -> P x) -> forallb f l = true -> Forall P l.
Proof. intros H Hf. apply Forall_forall. intros x Hx. apply H. rewrite forallb_forall in Hf. now apply Hf. Qed.

Lemma qinv_b_sound q b : qinv_b q b = true -> QInv q b (q_inf_of (q_l q)) (q_que_of (q_l q)).
Proof.
  unfold qinv_b. intros H. repeat (apply andb_true_iff in H; destruct H as [H ?]).
  constructor.
  - apply q_split.
  - eapply forallb_Forall; [|exact H]. unfold idokb, idok. intros x Hx. lia.
  - eapply forallb_Forall; [|exact H5]. unfold quedokb, quedok. intros x Hx. destruct (e_body x); [|discriminate].
    apply andb_true_iff in Hx. destruct Hx as [Hx1 Hx2]. apply negb_true_iff in Hx2. split; [lia|exact Hx2].
  - apply Nat.leb_le. exact H4.
  - intros Hd. rewrite Hd in H3. now apply Nat.eqb_eq.
  - now apply nodupNb_sound.
  - rewrite <- q_split. eapply forallb_Forall; [|exact H1]. unfold tag_okb, tag_ok. intros x Hx.
    destruct (is_pub x); [|lia]. apply andb_true_iff in Hx. destruct Hx as [Hx1 Hx2]. apply negb_true_iff in Hx1. lia.
  - rewrite <- q_split. now apply nodupNb_sound.
Qed.

Definition liminv_b (l : lim) : bool :=
  nodupNb (l_locked l) && negb (memN 0 (l_locked l)) && forallb (fun i => (1 <=? i) && (i <=? MAXPID)) (l_locked l) &&
  (l_used l =? N.of_nat (length (l_locked l))) && (1 <=? l_free l) && (l_free l <=? MAXPID).

Lemma liminv_b_sound l : liminv_b l = true -> LimInv l.
Proof.
  unfold liminv_b, LimInv. intros H. repeat (apply andb_true_iff in H; destruct H as [H ?]).
  split; [now apply nodupNb_sound|]. split; [apply negb_true_iff in H4; now apply memN_notIn|].
  split; [|split; lia]. intros i Hi. rewrite forallb_forall in H3. specialize (H3 i Hi). lia.
Qed.

Definition cq_b (w : bool) (k : conn) (q : queue) (b : N) : bool :=
  let inf := q_inf_of (q_l q) in
  let pre := map e_id (firstn (q_cur q) inf) ++ held_ids k in
  qinv_b q b && liminv_b (k_lim k) && (l_limit (k_lim k) =? k_max_inflight k) && (k_max_inflight k <=? MAXPID) &&
  nodupNb (map e_id inf ++ held_ids k) &&
  forallb (fun i => memN i pre) (l_locked (k_lim k)) && forallb (fun i => memN i (l_locked (k_lim k))) pre &&
  (k_drained k || match k_held k with None => true | Some _ => false end) &&
  (q_limit q =? k_client_max_packet k) && Bool.eqb (q_v5 q) (k_v k =? 5) &&
  (am_max (k_alias_out k) =? k_client_alias_max k) &&
  (negb (k_drained k && (1 <=? k_max_inflight k)) || (q_cur q =? length inf)%nat) &&
  (negb w || (if k_drained k then l_used (k_lim k) <=? l_limit (k_lim k) else N.of_nat (length inf) <=? l_limit (k_lim k))).

Lemma cq_b_sound w k q b : cq_b w k q b = true -> CQ w k q b (q_inf_of (q_l q)) (q_que_of (q_l q)).
Proof.
  unfold cq_b. intros H. remember (qinv_b q b) as qb eqn:Eqb. remember (liminv_b (k_lim k)) as lb eqn:Elb.
  repeat (apply andb_true_iff in H; destruct H as [H ?]). subst qb lb.
  constructor.
  - now apply qinv_b_sound.
  - now apply liminv_b_sound.
  - lia.
  - lia.
  - now apply nodupNb_sound.
  - intros i. split; intros Hi.
    + rewrite forallb_forall in H7. apply memN_In. now apply H7.
    + rewrite forallb_forall in H6. apply memN_In. now apply H6.
  - intros Hd. rewrite Hd in H5. cbn [orb] in H5. destruct (k_held k); [discriminate|reflexivity].
  - lia.
  - now apply eqb_prop.
  - lia.
  - intros Hd Hm. rewrite Hd in H1. assert (Hm' : (1 <=? k_max_inflight k) = true) by lia. rewrite Hm' in H1.
    cbn in H1. now apply Nat.eqb_eq.
  - intros ->. cbn [negb orb] in H0. destruct (k_drained k); lia.
Qed.

Lemma aget_In {V} k (v : V) l : aget k l = Some v -> In (k, v) l.
Proof.
  induction l as [|[k' v'] r IH]; cbn [aget]; [discriminate|].
  destruct (str_eqb k k') eqn:E; intros H; [apply str_eqb_eq in E; inversion H; subst; now left|right; auto].
Qed.

Definition pollinv_b (w : bool) (s : st) (c : N) : bool :=
  match nget c (b_conns s) with
  | Some k =>
      match aget (k_cid k) (b_queues s) with
      | Some q =>
          match aget (k_cid k) (b_online s) with Some c' => c' =? c | None => false end &&
          forallb (fun kv => negb (snd kv =? c) || str_eqb (fst kv) (k_cid k)) (b_online s) &&
          negb (b_tag s =? 0) && cq_b w k q (b_tag s)
      | None => false
      end
  | None => false
  end.

Theorem pollinv_b_sound w s c : pollinv_b w s c = true -> PollInv w s c.
Proof.
  unfold pollinv_b, PollInv. destruct (nget c (b_conns s)) as [k|] eqn:Ek; [|discriminate].
  destruct (aget (k_cid k) (b_queues s)) as [q|] eqn:Eq; [|discriminate].
  intros H. remember (cq_b w k q (b_tag s)) as cb eqn:Ecb.
  repeat (apply andb_true_iff in H; destruct H as [H ?]). subst cb.
  exists k, q, (q_inf_of (q_l q)), (q_que_of (q_l q)).
  split; [reflexivity|]. split; [exact Eq|].
  split; [destruct (aget (k_cid k) (b_online s)); [apply N.eqb_eq in H; now subst|discriminate]|].
  split.
  { intros cid' Hc. apply aget_In in Hc. rewrite forallb_forall in H2. specialize (H2 _ Hc). cbn [fst snd] in H2.
    rewrite N.eqb_refl in H2. cbn in H2. now apply str_eqb_eq. }
  split; [apply negb_true_iff in H1; now apply N.eqb_neq|now apply cq_b_sound].
Qed.

(* ------------------------------------------------------------------ *)
(* 16. witnesses: the hypotheses are satisfiable, and what is false    *)
(* ------------------------------------------------------------------ *)

Definition wx_cfg (ifexp : N) (maxq : nat) : cfg :=
  {| c_onlyonce := false; c_max_inflight := 10; c_max_queued := maxq; c_queue_qos0 := true;
     c_session_expiry := 3600; c_message_expiry := 0; c_recv_max := 100; c_alias_max := 10; c_max_packet := 0;
     c_max_qos := 2; c_retain_avail := true; c_wildcard := true; c_subid := true; c_shared := true;
     c_max_keepalive := 60; c_allow_zero_len := true; c_inflight_expiry := ifexp |}.
Definition wx_connect (v : N) (cid : str) (clean : bool) (props : list prop) : connect :=
  {| cn_ver := v; cn_cid := cid; cn_clean := clean; cn_keepalive := 0; cn_user := None; cn_pass := None;
     cn_will := None; cn_props := props |}.
Definition wx_T : str := [116].      (* "t" *)
Definition wx_S : str := [115].      (* "s": the subscriber, socket 1 *)
Definition wx_P : str := [112].      (* "p": the publisher, socket 2 *)
Definition wx_sub (q : N) : event :=
  ESend 1 (KSubscribe 1 [] [{| tq_name := wx_T; tq_qos := q; tq_nl := false; tq_rap := false; tq_rh := 0 |}]).
Definition wx_pub (q pid : N) (pl : str) : event := ESend 2 (KPublish false q false wx_T pl pid []).
Definition wx_init : st := st_init (wx_cfg 0 100) no_hooks [].
(* "s" (v5, Receive Maximum 2, persistent session) subscribed to "t" with QoS 2; "p" connected *)
Definition wx_pre : list event :=
  [EConnect 1 (wx_connect 5 wx_S false [PSei 100; PRecvMax 2]); wx_sub 2; EConnect 2 (wx_connect 4 wx_P true [])].
Definition wx_s0 : st := fst (run wx_init wx_pre).
(* a message has just been queued for "s"; its poll loop has not run yet *)
Definition wx_s1 : st := fst (step_event wx_s0 (wx_pub 1 11 [1])).
(* two messages in flight (ids 1 and 3), one queued behind the full window *)
Definition wx_s2 : st := fst (run wx_s0 [wx_pub 1 11 [1]; wx_pub 2 12 [2]; wx_pub 1 13 [3]]).
(* the connection is gone, the session stays; then "s" comes back: before its poll loop runs *)
Definition wx_s3 : st := fst (run wx_s2 [EClose 1]).
Definition wx_s4 (recvmax : N) : st := fst (step_event wx_s3 (EConnect 1 (wx_connect 5 wx_S false [PSei 100; PRecvMax recvmax]))).

Example wx_window_at_connect :
  exists s' o k, handle_connect 1 (wx_connect 5 wx_S false [PSei 100; PRecvMax 2]) wx_init = (s', o) /\
                 nget 1 (b_conns s') = Some k /\ k_phase k = PhConnected /\ k_max_inflight k = 2.
Proof. do 3 eexists. vm_compute. repeat split. Qed.

Example wx_pollinv_reachable : pollinv_b true wx_s0 1 = true /\ pollinv_b true wx_s1 1 = true /\ pollinv_b true wx_s2 1 = true.
Proof. vm_compute. repeat split. Qed.

(* poll_once_inv, C03_new_ids, C03_first_dup0, C13_out_size: a turn that takes ids, then one that sends *)
Example wx_poll_turns :
  exists k, nget 1 (b_conns wx_s1) = Some k /\ k_drained k = true /\
  option_map snd (poll_once 1 wx_s1) = Some [OSend 1 (KPublish false 1 false wx_T [1] 1 [])].
Proof. eexists. vm_compute. repeat split. Qed.

(* handle_ack_inv, C03_until_acked_ack: PUBREC 3 turns the QoS 2 entry into a PUBREL entry; PUBACK 1 removes *)
Example wx_ack :
  exists k s' o, nget 1 (b_conns wx_s2) = Some k /\ ~ In 3 (held_ids k) /\
    handle_packet 1 k (KPubrec 3 0 []) wx_s2 = HOk s' o /\ o = [OSend 1 (KPubrel 3 0 [])] /\
    option_map (fun q => map rkey (q_inf q)) (aget wx_S (b_queues s')) = Some [inl (1, false, wx_T, [1], 1); inr 3].
Proof. do 3 eexists. vm_compute. repeat split. intros []. Qed.

(* add_to_queue_inv / deliver_PollInv *)
Example wx_add :
  pollinv_b true wx_s0 1 = true /\
  option_map (fun q => length (q_l q)) (aget wx_S (b_queues (fst (fst (deliver wx_P (msg_of_publish false false 1 false wx_T [1] 11 []) wx_s0))))) = Some 1%nat.
Proof. vm_compute. split; reflexivity. Qed.

(* C03_window is tight: two entries in flight, window 2, a third message waits *)
Example wx_window :
  pollinv_b true wx_s2 1 = true /\
  option_map (fun q => (inflight_ids q, length (q_l q))) (aget wx_S (b_queues wx_s2)) = Some ([1; 3], 3%nat) /\
  option_map k_max_inflight (nget 1 (b_conns wx_s2)) = Some 2.
Proof. vm_compute. repeat split. Qed.

(* kf_replay_exceeds_smaller_recvmax: the session comes back with Receive Maximum 1; both in-flight messages are
   retransmitted; the invariant without the window clause holds, the window clause does not *)
Example C03_window_refuted :
  let s := fst (poll_conn 400 1 (wx_s4 1)) in
  snd (poll_conn 400 1 (wx_s4 1)) = [OSend 1 (KPublish true 1 false wx_T [1] 1 []); OSend 1 (KPublish true 2 false wx_T [2] 3 [])] /\
  option_map k_max_inflight (nget 1 (b_conns s)) = Some 1 /\
  option_map inflight_ids (aget wx_S (b_queues s)) = Some [1; 3] /\
  pollinv_b false (wx_s4 1) 1 = true /\ pollinv_b false s 1 = true /\ pollinv_b true s 1 = false.
Proof. vm_compute. repeat split. Qed.

(* C03_replay_first: the hypotheses hold right after the CONNECT that resumes the session *)
Example wx_replay_first :
  pollinv_b true (wx_s4 2) 1 = true /\
  (exists k q, nget 1 (b_conns (wx_s4 2)) = Some k /\ aget (k_cid k) (b_queues (wx_s4 2)) = Some q /\
               k_phase k = PhConnected /\ k_drained k = false /\ k_max_inflight k = 2 /\
               (length (q_inf q) - q_cur q = 2)%nat) /\
  snd (poll_conn 400 1 (wx_s4 2)) = [OSend 1 (KPublish true 1 false wx_T [1] 1 []); OSend 1 (KPublish true 2 false wx_T [2] 3 [])].
Proof. split; [vm_compute; reflexivity|]. split; [do 2 eexists; vm_compute; repeat split|vm_compute; reflexivity]. Qed.

(* C03_until_acked_add: inflight_expiry = 1 s, queue of 2: after 5 s a third message evicts the expired
   in-flight entry with id 1, the drop is reported and its id is released *)
Definition wx_e0 : st :=
  fst (run (st_init (wx_cfg 1 2) no_hooks []) (wx_pre ++ [wx_pub 1 11 [1]; wx_pub 1 12 [2]; EAdvance 5000])).
Definition wx_sub1 : sub := {| s_share := []; s_filter := wx_T; s_id := 0; s_qos := 1; s_nl := false; s_rap := false; s_rh := 0 |}.

Example wx_expired_inflight :
  pollinv_b true wx_e0 1 = true /\ option_map inflight_ids (aget wx_S (b_queues wx_e0)) = Some [1; 3] /\
  let '(s', o) := add_to_queue wx_S (msg_of_publish false false 1 false wx_T [3] 13 []) wx_sub1 [0] wx_e0 in
  map (fun x => match x with ODropped cid m r => Some (cid, m_pid m, r) | _ => None end) o = [Some (wx_S, 1, DExpiredInflight)] /\
  option_map inflight_ids (aget wx_S (b_queues s')) = Some [3] /\
  option_map (fun k => l_locked (k_lim k)) (nget 1 (b_conns s')) = Some [3] /\ pollinv_b true s' 1 = true.
Proof. vm_compute. repeat split. Qed.

(* ---- C13: the size of the packet on the wire ---- *)
Definition wire_props (ps : list prop) : CodecProps.props :=
  fold_left (fun acc p =>
               match p with
               | PPfmt n => CodecProps.set_single 1 (CodecProps.PVByte n) acc
               | PMsgExpiry n => CodecProps.set_single 2 (CodecProps.PVU32 n) acc
               | PCtype x => CodecProps.set_single 3 (CodecProps.PVStr x) acc
               | PResp x => CodecProps.set_single 8 (CodecProps.PVStr x) acc
               | PCorr x => CodecProps.set_single 9 (CodecProps.PVStr x) acc
               | PAlias n => CodecProps.set_single 35 (CodecProps.PVU16 n) acc
               | PSubId n => {| CodecProps.pr_single := CodecProps.pr_single acc;
                                CodecProps.pr_subid := CodecProps.pr_subid acc ++ [n];
                                CodecProps.pr_user := CodecProps.pr_user acc |}
               | PUser a b => {| CodecProps.pr_single := CodecProps.pr_single acc;
                                 CodecProps.pr_subid := CodecProps.pr_subid acc;
                                 CodecProps.pr_user := CodecProps.pr_user acc ++ [(a, b)] |}
               | _ => acc
               end) ps CodecProps.props_empty.

(* the number of bytes of a v5 PUBLISH as the codec model (packets.Publish.Pack) writes it *)
Definition wire_len (o : out) : option N :=
  match o with
  | OSend _ (KPublish dup qos ret topic payload pid props) =>
      match CodecPackets.pack (CodecPackets.BPublish 5 dup qos ret topic pid payload (Some (wire_props props))) with
      | CodecBase.Ok bs => Some (len bs)
      | _ => None
      end
  | _ => None
  end.

(* "s" announces Maximum Packet Size 11 and Topic Alias Maximum 2 *)
Definition wx_a0 : st :=
  fst (run wx_init [EConnect 1 (wx_connect 5 wx_S false [PSei 100; PMaxPkt 11; PAliasMax 2]); wx_sub 1;
                    EConnect 2 (wx_connect 4 wx_P true [])]).
Definition wx_m11 : msg := msg_of_publish true false 1 false wx_T [1; 2; 3] 11 [].

(* without alias the size the broker computes is the size on the wire *)
Example wx_total_bytes_is_wire_len :
  msg_total_bytes true wx_m11 = 11 /\ wire_len (OSend 1 (KPublish false 1 false wx_T [1; 2; 3] 1 [])) = Some 11.
Proof. vm_compute. split; reflexivity. Qed.

(* kf_alias_pushes_over_max_size, after the repair (C13_out_size_with_alias is the general statement).  The
   message measures 11 bytes.  Maximum Packet Size 11: it is not dropped and - formerly sent with the Topic Alias
   property as 14 and 13 bytes - it is now sent plain, 11 bytes on the wire both times.  Maximum 16 = 11 + the
   margin: the alias is used, 14 bytes for the first use and 13 for the second (topic left out).  Maximum 15: sent
   plain although 14 bytes would have fitted - the margin is the worst case of the property, not its actual cost *)
Definition wx_a1 (mx : N) : st :=
  fst (run wx_init [EConnect 1 (wx_connect 5 wx_S false [PSei 100; PMaxPkt mx; PAliasMax 2]); wx_sub 1;
                    EConnect 2 (wx_connect 4 wx_P true [])]).
Definition wx_sent1 (s : st) : list out :=
  filter (fun x => match x with OSend 1 _ => true | _ => false end)
         (concat (snd (run s [wx_pub 1 11 [1; 2; 3]; wx_pub 1 12 [1; 2; 3]]))).
Example C13_alias_margin_examples :
  wx_a1 11 = wx_a0 /\ option_map k_client_max_packet (nget 1 (b_conns wx_a0)) = Some 11 /\
  wx_sent1 wx_a0 = [OSend 1 (KPublish false 1 false wx_T [1; 2; 3] 1 []); OSend 1 (KPublish false 1 false wx_T [1; 2; 3] 11 [])] /\
  map wire_len (wx_sent1 wx_a0) = [Some 11; Some 11] /\
  wx_sent1 (wx_a1 16) =
    [OSend 1 (KPublish false 1 false wx_T [1; 2; 3] 1 [PAlias 1]); OSend 1 (KPublish false 1 false [] [1; 2; 3] 11 [PAlias 1])] /\
  map wire_len (wx_sent1 (wx_a1 16)) = [Some 14; Some 13] /\
  map wire_len (wx_sent1 (wx_a1 15)) = [Some 11; Some 11].
Proof. vm_compute. repeat split. Qed.

(* C13_out_size is about first transmissions only: a session that comes back with a smaller Maximum Packet Size
   is sent its in-flight messages again whatever their size (ReadInflight has no size filter), while a new
   message of the same size is dropped *)
Definition wx_big : str := [1; 2; 3; 4; 5; 6; 7; 8; 9; 10; 11; 12; 13; 14; 15; 16; 17; 18; 19; 20].
Definition wx_o0 : st :=
  fst (run wx_init [EConnect 1 (wx_connect 5 wx_S false [PSei 100]); wx_sub 1; EConnect 2 (wx_connect 4 wx_P true []);
                    wx_pub 1 11 wx_big; EClose 1]).
Example C13_replay_oversize_refuted :
  let o := concat (snd (run wx_o0 [EConnect 1 (wx_connect 5 wx_S false [PSei 100; PMaxPkt 12]); wx_pub 1 12 wx_big])) in
  map (fun x => match x with
                | OSend 1 (KPublish dup _ _ _ _ _ _) => Some (inl (dup, wire_len x))
                | ODropped _ _ r => Some (inr r)
                | _ => None
                end) o =
  [None; Some (inl (true, Some 28)); None; Some (inr DExceedsMax)].
Proof. vm_compute. reflexivity. Qed.

(* C13_out_alias_conn: five messages on three topics through a table of two aliases *)
Example wx_alias_run :
  exists k, nget 1 (b_conns wx_a0) = Some k /\ k_v k = 5 /\ k_client_alias_max k = 2 /\ k_alias_out k = am_new 2 /\
  let ms := map (fun t => msg_of_publish true false 0 false t [] 0 []) [[97]; [98]; [97]; [99]; [98]] in
  map (fun o => match o with OSend _ (KPublish _ _ _ t _ _ ps) => (t, p_alias ps) | _ => ([], None) end) (snd (wp_run 1 k ms)) =
    [([97], Some 1); ([98], Some 2); ([], Some 1); ([99], Some 1); ([], Some 2)] /\
  client_resolve 2 [] (snd (wp_run 1 k ms)) = Some [[97]; [98]; [97]; [99]; [98]].
Proof. eexists. vm_compute. repeat split. Qed.

(* ---- the extra hypotheses are needed ---- *)

(* handle_ack_inv needs "pid is not held by the poll loop": the poll loop of an idle connection holds ids 1 and 2;
   a client that acknowledges them although they were never sent makes the limiter forget them, and ends up
   with three messages in flight under Receive Maximum 2 *)
Example held_ack_breaks_inv :
  option_map held_ids (nget 1 (b_conns wx_s0)) = Some [1; 2] /\ pollinv_b true wx_s0 1 = true /\
  let s := fst (run wx_s0 [ESend 1 (KPuback 1 0 []); ESend 1 (KPuback 2 0 []);
                           wx_pub 1 11 [1]; wx_pub 1 12 [2]; wx_pub 1 13 [3]; wx_pub 1 14 [4]]) in
  pollinv_b false (fst (run wx_s0 [ESend 1 (KPuback 1 0 [])])) 1 = false /\
  option_map k_max_inflight (nget 1 (b_conns s)) = Some 2 /\
  option_map inflight_ids (aget wx_S (b_queues s)) = Some [1; 3; 5] /\
  option_map (fun k => l_used (k_lim k)) (nget 1 (b_conns s)) = Some 2.
Proof. vm_compute. repeat split. Qed.

(* add_to_queue_inv needs m_pid m = 0: a message handed to the publish API with a packet id keeps it in the
   queue, behind entries without id *)
Example api_pid_breaks_shape :
  let m := set_pid 7 (msg_of_publish false false 1 false wx_T [9] 0 []) in
  let s := fst (run wx_s0 [wx_pub 1 11 [1]; wx_pub 1 12 [2]; wx_pub 1 13 [3]; EApiPublish m]) in
  option_map (fun q => map e_id (q_l q)) (aget wx_S (b_queues s)) = Some [1; 3; 0; 7] /\ pollinv_b false s 1 = false.
Proof. vm_compute. split; reflexivity. Qed.

(* ------------------------------------------------------------------ *)
(* 17. the invariant is established by CONNECT                          *)
(* ------------------------------------------------------------------ *)

Lemma aget_aset_In {V} k k' (v v' : V) l : aget k' (aset k v l) = Some v' -> (k' = k /\ v' = v) \/ In (k', v') l.
Proof.
  destruct (str_dec k' k) as [->|Hne].
  - rewrite aget_aset_eq. intros H. inversion H. now left.
  - rewrite aget_aset_ne by exact Hne. intros H. right. now apply aget_In.
Qed.

Lemma In_adel {V} (x : str * V) k l : In x (adel k l) -> In x l.
Proof.
  induction l as [|[k' v'] r IH]; cbn [adel]; [tauto|]. destruct (str_eqb k k'); cbn [In]; [tauto|].
  intros [H|H]; [now left|right; auto].
Qed.

(* the state handle_connect builds once the session tables are settled (s3) *)
Lemma connect_end w c cid kinst se s3 q3 inf que cfg_ cn :
  fresh_attached cfg_ cn kinst -> k_cid kinst = cid -> c_max_inflight cfg_ <= MAXPID ->
  (forall cid', ~ In (cid', c) (b_online s3)) -> b_tag s3 <> 0 ->
  aget cid (b_queues s3) = Some q3 -> QInv q3 (b_tag s3) inf que -> q_cur q3 = 0%nat ->
  q_limit q3 = k_client_max_packet kinst -> q_v5 q3 = (k_v kinst =? 5) ->
  (w = true -> N.of_nat (length inf) <= k_max_inflight kinst) ->
  PollInv w (set_tables (aset cid se (b_sessions s3)) (aset cid c (b_online s3)) (adel cid (b_offline s3)) (b_wills s3)
                        (b_queues s3) (b_unacks s3) (upd_conn c kinst s3)) c.
Proof.
  intros Hfa Hcid Hmax Hnc Htag Hq HQ Hc Hlim Hv5 Hwin.
  exists kinst, q3, inf, que. cbn [set_tables b_conns b_queues b_online b_tag upd_conn]. rewrite Hcid.
  split; [apply nget_nset_eq|]. split; [exact Hq|]. split; [apply aget_aset_eq|].
  split.
  { intros cid' H. apply aget_aset_In in H. destruct H as [[H _]|H]; [exact H|]. exfalso. eapply Hnc; eauto. }
  split; [exact Htag|]. eapply CQ_at_connect; eauto.
Qed.

(* Target 2 (establishment, on states): a successful CONNECT without take-over of a live connection and without
   a pending will of a discarded session leaves the new connection in the invariant, whether the session is
   resumed (its queue must have the queue shape) or created.  Socket c must not be registered already. *)
Theorem connect_establishes w c cn s s' o k :
  handle_connect c cn s = (s', o) -> nget c (b_conns s') = Some k -> k_phase k = PhConnected ->
  aget (k_cid k) (b_online s) = None -> aget (k_cid k) (b_wills s) = None ->
  (forall cid', ~ In (cid', c) (b_online s)) ->
  (forall q, aget (k_cid k) (b_queues s) = Some q ->
             exists inf que, QInv q (b_tag s) inf que /\ (w = true -> N.of_nat (length inf) <= k_max_inflight k)) ->
  c_max_inflight (b_cfg s) <= MAXPID -> b_tag s <> 0 ->
  PollInv w s' c.
Proof.
  intros H Hk Hph Hon Hwl Hnc Hqs Hmax Htag.
  pose proof (handle_connect_conn c cn s s' o k H Hk Hph) as Hfa.
  unfold handle_connect in H. cbv zeta in H.
  destruct (negb (c_allow_zero_len (b_cfg s)) && is_empty (cn_cid cn)) eqn:E1.
  { inversion H; subst s' o. rewrite nget_upd_eq in Hk. inversion Hk; subst k. discriminate Hph. }
  destruct (negb ((if (cn_ver cn =? 5) && match p_authmethod (cn_props cn) with Some _ => true | None => false end
                   then 128 else auth_code cn s) =? 0)) eqn:E2.
  { inversion H; subst s' o. rewrite nget_upd_eq in Hk. inversion Hk; subst k. discriminate Hph. }
  set (cid := if is_empty (cn_cid cn) then AUTO_PREFIX ++ dec_str (b_auto s + 1) else cn_cid cn) in H.
  set (s0 := if is_empty (cn_cid cn) then set_auto (b_auto s + 1) s else s) in H.
  assert (Hs0 : b_online s0 = b_online s /\ b_queues s0 = b_queues s /\ b_wills s0 = b_wills s /\ b_tag s0 = b_tag s /\
                b_sessions s0 = b_sessions s).
  { unfold s0. destruct (is_empty (cn_cid cn)); repeat split. }
  destruct Hs0 as (Ho0 & Hq0 & Hw0 & Ht0 & Hse0).
  (* the client id of the installed connection is cid *)
  assert (Hkcid : k_cid k = cid).
  { destruct (match aget cid (b_online s0) with Some oldc => conn_gone oldc s0 | None => (s0, []) end) as [s1 odup].
    match type of H with (let (_, _) := ?X in _) = _ => destruct X as [[s2 owill] resume] end.
    match type of H with (let (_, _) := ?X in _) = _ => destruct X as [wdelay expiry] end.
    match type of H with (let (_, _) := ?X in _) = _ => destruct X as [sf ow] eqn:E6 end.
    inversion H; subst s' o.
    match type of E6 with fold_left ?F owill (?sx, []) = _ => set (F6 := F) in E6; set (s4 := sx) in E6 end.
    match goal with s4 := context [upd_conn c ?k0 _] |- _ => set (kinst := k0) in * end.
    assert (Hkf : nget c (b_conns sf) = Some kinst).
    { replace sf with (fst (fold_left F6 owill (s4, []))) by now rewrite E6.
      apply (fold_pair_inv (fun s => nget c (b_conns s) = Some kinst)); [|unfold s4; apply nget_upd_eq].
      intros sa oa cw Ha. unfold F6. pose proof (send_will_conn_fresh c kinst (fst cw) (snd cw) sa eq_refl Ha) as Hs.
      destruct (send_will (fst cw) (snd cw) sa). exact Hs. }
    rewrite Hkf in Hk. inversion Hk. reflexivity. }
  rewrite Hkcid in *. rewrite <- Ho0 in Hon. rewrite Hon in H.
  set (cmax := if cn_ver cn =? 5 then opt_or (p_maxpkt (cn_props cn)) U32MAX else U32MAX) in H.
  assert (Hfin : forall s2 (resume : bool),
            (forall x, In x (b_online s2) -> In x (b_online s)) -> b_tag s2 = b_tag s ->
            (resume = true -> exists q inf que, aget cid (b_queues s2) = Some (q_init false (cn_ver cn =? 5) cmax q) /\
                                                QInv q (b_tag s) inf que /\ (w = true -> N.of_nat (length inf) <= k_max_inflight k)) ->
            forall se,
            PollInv w (let s3 := if resume then s2 else
                          set_tables (b_sessions s2) (b_online s2) (b_offline s2) (b_wills s2)
                            (aset cid (q_init true (cn_ver cn =? 5) cmax (q_new (c_max_queued (b_cfg s)) (c_inflight_expiry (b_cfg s) * 1000))) (b_queues s2))
                            (aset cid [] (b_unacks s2)) s2 in
                        set_tables (aset cid se (b_sessions s3)) (aset cid c (b_online s3)) (adel cid (b_offline s3)) (b_wills s3)
                                   (b_queues s3) (b_unacks s3) (upd_conn c k s3)) c).
  { intros s2 resume Hsub Ht2 Hres se. cbn zeta.
    destruct Hfa as (Hf1 & Hf2 & Hf3 & Hf4 & Hf5 & Hf6 & Hf7 & Hf8 & Hf9).
    assert (Hfa' : fresh_attached (b_cfg s) cn k) by (unfold fresh_attached; auto 10).
    destruct resume.
    - destruct (Hres eq_refl) as (q & inf & que & Hq & HQ & Hw).
      apply (connect_end w c cid k se s2 (q_init false (cn_ver cn =? 5) cmax q) inf que (b_cfg s) cn Hfa' Hkcid Hmax).
      + intros cid' Hin. eapply Hnc. apply Hsub. exact Hin.
      + congruence.
      + exact Hq.
      + rewrite Ht2. now apply QInv_init.
      + reflexivity.
      + cbn [q_init q_limit]. rewrite Hf7. reflexivity.
      + cbn [q_init q_v5]. now rewrite Hf2.
      + exact Hw.
    - match goal with |- PollInv w (set_tables _ _ _ _ _ _ (upd_conn c k ?sx)) c => set (s3 := sx) end.
      apply (connect_end w c cid k se s3 (q_init true (cn_ver cn =? 5) cmax (q_new (c_max_queued (b_cfg s)) (c_inflight_expiry (b_cfg s) * 1000)))
                         [] [] (b_cfg s) cn Hfa' Hkcid Hmax).
      + intros cid' Hin. eapply Hnc. apply Hsub. exact Hin.
      + unfold s3. cbn [set_tables b_tag]. congruence.
      + unfold s3. cbn [set_tables b_queues]. apply aget_aset_eq.
      + apply QInv_new.
      + reflexivity.
      + cbn [q_init q_limit]. rewrite Hf7. reflexivity.
      + cbn [q_init q_v5]. now rewrite Hf2.
      + intros _. cbn [length]. lia. }
  cbv beta iota in H.
  (* walk through the cases of the session lookup *)
  destruct (aget cid (b_sessions s0)) as [seold|] eqn:Eold.
  - destruct (negb (session_expired cid seold s0) && negb (cn_clean cn)) eqn:Eres.
    + destruct (aget cid (b_queues s0)) as [qold|] eqn:Eqo.
      * destruct (aget cid (b_unacks s0)) as [uold|] eqn:Euo.
        -- (* resumed *)
           match type of H with (let (_, _) := ?X in _) = _ => destruct X as [wdelay expiry] end.
           cbn [fold_left] in H. inversion H; subst s' o. clear H.
           cbn [set_tables b_conns upd_conn] in Hk; rewrite nget_nset_eq in Hk; inversion Hk; subst k.
           rewrite Hq0 in Eqo. destruct (Hqs qold Eqo) as (inf & que & HQ & Hw).
           match goal with |- PollInv w (set_tables (aset cid ?se _) _ _ _ _ _ (upd_conn c _ ?sx)) c =>
             refine (Hfin sx true _ _ _ se) end.
           ++ cbn [set_tables b_online]. intros x Hx. now rewrite <- Ho0.
           ++ exact Ht0.
           ++ intros _. exists qold, inf, que. cbn [set_tables b_queues]. rewrite aget_aset_eq. auto.
        -- match type of H with (let (_, _) := ?X in _) = _ => destruct X as [wdelay expiry] end.
           cbn [fold_left] in H. inversion H; subst s' o. clear H.
           cbn [set_tables b_conns upd_conn] in Hk; rewrite nget_nset_eq in Hk; inversion Hk; subst k.
           match goal with |- PollInv w (set_tables (aset cid ?se _) _ _ _ _ _ _) c =>
             refine (Hfin s0 false _ _ _ se) end; [intros x Hx; now rewrite <- Ho0|exact Ht0|discriminate].
      * match type of H with (let (_, _) := ?X in _) = _ => destruct X as [wdelay expiry] end.
        cbn [fold_left] in H. inversion H; subst s' o. clear H.
           cbn [set_tables b_conns upd_conn] in Hk; rewrite nget_nset_eq in Hk; inversion Hk; subst k.
        match goal with |- PollInv w (set_tables (aset cid ?se _) _ _ _ _ _ _) c =>
          refine (Hfin s0 false _ _ _ se) end; [intros x Hx; now rewrite <- Ho0|exact Ht0|discriminate].
    + (* the old session is discarded; no will is pending *)
      assert (Hwr : aget cid (b_wills (remove_session cid s0)) = None) by (cbn; now rewrite Hw0).
      rewrite Hwr in H.
      match type of H with (let (_, _) := ?X in _) = _ => destruct X as [wdelay expiry] end.
      cbn [fold_left] in H. inversion H; subst s' o. clear H.
           cbn [set_tables b_conns upd_conn] in Hk; rewrite nget_nset_eq in Hk; inversion Hk; subst k.
      match goal with |- PollInv w (set_tables (aset cid ?se _) _ _ _ _ _ _) c =>
        refine (Hfin (remove_session cid s0) false _ _ _ se) end; [|exact Ht0|discriminate].
      cbn. intros x Hx. apply In_adel in Hx. now rewrite <- Ho0.
  - match type of H with (let (_, _) := ?X in _) = _ => destruct X as [wdelay expiry] end.
    cbn [fold_left] in H. inversion H; subst s' o. clear H.
           cbn [set_tables b_conns upd_conn] in Hk; rewrite nget_nset_eq in Hk; inversion Hk; subst k.
    match goal with |- PollInv w (set_tables (aset cid ?se _) _ _ _ _ _ _) c =>
      refine (Hfin s0 false _ _ _ se) end; [intros x Hx; now rewrite <- Ho0|exact Ht0|discriminate].
Qed.

Example wx_connect_establishes :
  aget wx_S (b_online wx_s3) = None /\ aget wx_S (b_wills wx_s3) = None /\
  forallb (fun kv => negb (snd kv =? 1)) (b_online wx_s3) = true /\
  option_map (fun q => (qinv_b q (b_tag wx_s3), length (q_inf q))) (aget wx_S (b_queues wx_s3)) = Some (true, 2%nat) /\
  pollinv_b true (wx_s4 2) 1 = true.
Proof. vm_compute. repeat split. Qed.

(* ------------------------------------------------------------------ *)
(* 18. poll_conn and poll_all keep the invariant of every attached connection *)
(* ------------------------------------------------------------------ *)

Definition attached (k : conn) : Prop := k_phase k = PhConnected \/ k_phase k = PhZombie.
Definition AllPoll (w : bool) (s : st) : Prop :=
  forall c k, nget c (b_conns s) = Some k -> attached k -> PollInv w s c.

Lemma poll_once_detached c s k : nget c (b_conns s) = Some k -> ~ attached k -> poll_once c s = None.
Proof. intros Hk Hn. rewrite poll_once_eq, Hk. unfold attached in Hn. destruct (k_phase k); try reflexivity; tauto. Qed.

Lemma poll_once_absent c s : nget c (b_conns s) = None -> poll_once c s = None.
Proof. intros Hk. now rewrite poll_once_eq, Hk. Qed.

Lemma attached_dec k : {attached k} + {~ attached k}.
Proof. unfold attached. destruct (k_phase k); (left; tauto) || (right; intros [H|H]; discriminate). Qed.

Lemma poll_once_AllPoll w c s s' o : AllPoll w s -> poll_once c s = Some (s', o) -> AllPoll w s'.
Proof.
  intros HA Hp. destruct (nget c (b_conns s)) as [k|] eqn:Hk; [|rewrite (poll_once_absent c s Hk) in Hp; discriminate].
  destruct (attached_dec k) as [Hat|Hna]; [|rewrite (poll_once_detached c s k Hk Hna) in Hp; discriminate].
  pose proof (HA c k Hk Hat) as HP.
  pose proof HP as (k0 & q & inf & que & Hk0 & Hq & _ & _ & _ & HCQ).
  rewrite Hk in Hk0. inversion Hk0; subst k0. clear Hk0.
  destruct (poll_once_cases w c s s' o k q inf que Hk Hq HCQ Hp) as (_ & _ & _ & Hconns & _ & _).
  intros c2 k2 Hk2 Hat2. destruct (N.eq_dec c2 c) as [->|Hne].
  - eapply poll_once_inv; eauto.
  - rewrite (Hconns c2 Hne) in Hk2. eapply poll_once_frame; eauto.
Qed.

Lemma poll_conn_AllPoll w c : forall fuel s, AllPoll w s -> AllPoll w (fst (poll_conn fuel c s)).
Proof.
  induction fuel as [|f IH]; intros s HA; cbn [poll_conn]; [exact HA|].
  destruct (poll_once c s) as [[s' o]|] eqn:Hp; [|exact HA].
  pose proof (IH s' (poll_once_AllPoll w c s s' o HA Hp)) as H.
  destruct (poll_conn f c s') as [s'' o']. exact H.
Qed.

(* Target 2, at the level of step: whatever an event did, running all poll loops to quiescence keeps the
   invariant of every attached connection *)
Theorem poll_all_AllPoll w s : AllPoll w s -> AllPoll w (fst (poll_all s)).
Proof.
  unfold poll_all. intros HA.
  apply (fold_pair_inv (AllPoll w)); [|exact HA].
  intros s0 o0 ck H0. pose proof (poll_conn_AllPoll w (fst ck) 400 s0 H0) as H.
  destruct (poll_conn 400 (fst ck) s0). exact H.
Qed.

Example wx_all_poll :
  forallb (fun ck => match k_phase (snd ck) with
                     | PhConnected | PhZombie => pollinv_b true wx_s1 (fst ck)
                     | _ => true
                     end) (b_conns wx_s1) = true /\ length (b_conns wx_s1) = 2%nat.
Proof. vm_compute. split; reflexivity. Qed.

(* ------------------------------------------------------------------ *)
(* 19. the invariant, spelled out (for Props/C03w.v)                    *)
(* ------------------------------------------------------------------ *)

Lemma PollInv_unfold w s c : PollInv w s c <->
  exists k q inf que,
    nget c (b_conns s) = Some k /\ aget (k_cid k) (b_queues s) = Some q /\
    aget (k_cid k) (b_online s) = Some c /\ (forall cid', aget cid' (b_online s) = Some c -> cid' = k_cid k) /\
    b_tag s <> 0 /\ CQ w k q (b_tag s) inf que.
Proof. reflexivity. Qed.

Lemma CQ_limiter_is_queue w k q b inf que : CQ w k q b inf que ->
  LimInv (k_lim k) /\ l_limit (k_lim k) = k_max_inflight k /\
  (forall i, In i (l_locked (k_lim k)) <-> In i (map e_id (firstn (q_cur q) inf) ++ held_ids k)) /\
  NoDup (map e_id inf ++ held_ids k) /\
  l_used (k_lim k) = N.of_nat (q_cur q + length (held_ids k)) /\
  (w = true -> k_drained k = true -> l_used (k_lim k) <= l_limit (k_lim k)).
Proof.
  intros H. split; [apply (cq_lim _ _ _ _ _ _ H)|]. split; [apply (cq_limit _ _ _ _ _ _ H)|].
  split; [apply (cq_locked _ _ _ _ _ _ H)|]. split; [apply (cq_nd _ _ _ _ _ _ H)|].
  split; [apply (CQ_used _ _ _ _ _ _ H)|]. intros Hw Hd. pose proof (cq_win _ _ _ _ _ _ H Hw) as Hwin. now rewrite Hd in Hwin.
Qed.

Example wx_invariant_reachable :
  PollInv true wx_s0 1 /\ PollInv true wx_s1 1 /\ PollInv true wx_s2 1 /\ PollInv true (wx_s4 2) 1 /\ PollInv false (wx_s4 1) 1.
Proof. repeat split; apply pollinv_b_sound; vm_compute; reflexivity. Qed.

(* ------------------------------------------------------------------ *)
(* 20. corollaries                                                     *)
(* ------------------------------------------------------------------ *)

(* Target 5 in one piece: after the CONNECT that resumes a session (no take-over), the poll loop of the new
   connection first retransmits the in-flight entries of the stored queue, in order *)
Theorem C03_replay_after_connect w c cn s s' o k q' fuel :
  handle_connect c cn s = (s', o) -> nget c (b_conns s') = Some k -> k_phase k = PhConnected ->
  aget (k_cid k) (b_online s) = None -> aget (k_cid k) (b_wills s) = None ->
  (forall cid', ~ In (cid', c) (b_online s)) ->
  (forall q, aget (k_cid k) (b_queues s) = Some q ->
             exists inf que, QInv q (b_tag s) inf que /\ (w = true -> N.of_nat (length inf) <= k_max_inflight k)) ->
  c_max_inflight (b_cfg s) <= MAXPID -> b_tag s <> 0 ->
  aget (k_cid k) (b_queues s') = Some q' -> 1 <= k_max_inflight k -> (length (q_inf q') - q_cur q' < fuel)%nat ->
  exists o1 o2, snd (poll_conn fuel c s') = o1 ++ o2 /\
    Forall2 (is_retrans c) (skipn (q_cur q') (q_inf q')) o1 /\ all_dup0 o2.
Proof.
  intros H Hk Hph Hon Hwl Hnc Hqs Hmax Htag Hq' Hm Hfuel.
  pose proof (connect_establishes w c cn s s' o k H Hk Hph Hon Hwl Hnc Hqs Hmax Htag) as HP.
  destruct (handle_connect_conn c cn s s' o k H Hk Hph) as (_ & _ & _ & _ & _ & Hd & _).
  eapply C03_replay_first; eauto.
Qed.

(* C13: dropping an oversize message (or anything else the poll loop does) leaves the connection up *)
Theorem poll_once_conn_stays w c s s' o k :
  PollInv w s c -> nget c (b_conns s) = Some k -> poll_once c s = Some (s', o) ->
  exists k', nget c (b_conns s') = Some k' /\ same_static k k'.
Proof.
  intros (k0 & q & inf & que & Hk0 & Hq & _ & _ & _ & HCQ) Hk Hp.
  rewrite Hk in Hk0. inversion Hk0; subst k0. clear Hk0.
  destruct (poll_once_cases w c s s' o k q inf que Hk Hq HCQ Hp) as (_ & _ & _ & _ & _ & Hcase).
  destruct (poll_case_next _ _ _ _ _ _ _ _ _ Hcase) as (k' & q' & inf' & que' & Hk' & Hss & _). eauto.
Qed.

(* C13: what the size filter drops is reported, and only queued (never sent) messages are dropped by it *)
Theorem C13_oversize_dropped w s c k q s' o cid m r :
  PollInv w s c -> nget c (b_conns s) = Some k -> aget (k_cid k) (b_queues s) = Some q ->
  poll_once c s = Some (s', o) -> In (ODropped cid m r) o ->
  cid = k_cid k /\ (r = DExpired \/ r = DExceedsMax) /\
  exists d, In d (skipn (length (q_inf q)) (q_l q)) /\ e_body d = QPub m.
Proof.
  intros (k0 & q0 & inf & que & Hk0 & Hq0 & _ & _ & _ & HCQ) Hk Hq Hp Hin.
  rewrite Hk in Hk0. inversion Hk0; subst k0. rewrite Hq in Hq0. inversion Hq0; subst q0. clear Hk0 Hq0.
  pose proof (cq_q _ _ _ _ _ _ HCQ) as HQ.
  destruct (poll_once_cases w c s s' o k q inf que Hk Hq HCQ Hp) as (_ & _ & _ & _ & _ & Hcase).
  assert (Hque : skipn (length (q_inf q)) (q_l q) = que).
  { rewrite (q_inf_eq _ _ _ _ HQ), (qi_l _ _ _ _ HQ). rewrite skipn_app, skipn_all, Nat.sub_diag. reflexivity. }
  rewrite Hque.
  destruct Hcase as [_ Ho _ _|rs _ _ Hret _ _|ids _ _ Ho _ _ _ _|ids rs evs pubs q' _ _ _ Ho Hrs Hpubs (evs2 & dq & di & Hevs & Hdrops) _ _].
  - subst o. contradiction.
  - exfalso. destruct (Forall2_in_r _ _ _ _ Hret Hin) as (e & _ & He). unfold is_retrans in He.
    destruct (e_body e); [destruct He as (t & ps & He & _); discriminate|discriminate].
  - subst o. contradiction.
  - subst o. apply in_app_or in Hin. destruct Hin as [Hin|Hin].
    + unfold drops_of in Hin. apply in_flat_map in Hin. destruct Hin as (ev & Hev & Hx).
      subst evs. apply in_app_or in Hev. destruct Hev as [Hev|Hev];
        [|cbn [In] in Hev; destruct Hev as [Hev|[Hev|Hev]]; try contradiction; subst ev; contradiction].
      rewrite Forall_forall in Hdrops. destruct (Hdrops ev Hev) as (d & Hd & [-> | ->]); cbn in Hx;
        destruct (e_body d) as [m0|p] eqn:Eb; try contradiction; destruct Hx as [Hx|[]]; inversion Hx; subst;
        (split; [reflexivity|]); (split; [auto|]); exists d; auto.
    + exfalso. destruct (Forall2_in_r _ _ _ _ Hpubs Hin) as (e & _ & m0 & _ & (t & ps & Hx & _) & _). discriminate.
Qed.

(* ------------------------------------------------------------------ *)
(* 18. C13 on the wire: the encoded size of what write_publish writes  *)
(* ------------------------------------------------------------------ *)
(* wire_len (section 16) encodes a PUBLISH with the codec model (Model/CodecPackets.v).  msg_total_bytes is the
   encoded size of the message without alias (Proofs/CodecMsgP.v); here: the packet write_publish writes, with or
   without the Topic Alias property, measures at most msg_total_bytes + 5 and so stays within the client's maximum *)
Import CodecBaseP CodecStrP.

Definition wp_step (acc : CodecProps.props) (p : prop) : CodecProps.props :=
  match p with
  | PPfmt n => CodecProps.set_single 1 (CodecProps.PVByte n) acc
  | PMsgExpiry n => CodecProps.set_single 2 (CodecProps.PVU32 n) acc
  | PCtype x => CodecProps.set_single 3 (CodecProps.PVStr x) acc
  | PResp x => CodecProps.set_single 8 (CodecProps.PVStr x) acc
  | PCorr x => CodecProps.set_single 9 (CodecProps.PVStr x) acc
  | PAlias n => CodecProps.set_single 35 (CodecProps.PVU16 n) acc
  | PSubId n => {| CodecProps.pr_single := CodecProps.pr_single acc;
                   CodecProps.pr_subid := CodecProps.pr_subid acc ++ [n];
                   CodecProps.pr_user := CodecProps.pr_user acc |}
  | PUser a b => {| CodecProps.pr_single := CodecProps.pr_single acc;
                    CodecProps.pr_subid := CodecProps.pr_subid acc;
                    CodecProps.pr_user := CodecProps.pr_user acc ++ [(a, b)] |}
  | _ => acc
  end.

Lemma wire_props_eq ps : wire_props ps = fold_left wp_step ps CodecProps.props_empty.
Proof. reflexivity. Qed.

Lemma fold_subid l : forall acc,
  fold_left wp_step (map PSubId l) acc =
  {| CodecProps.pr_single := CodecProps.pr_single acc; CodecProps.pr_subid := CodecProps.pr_subid acc ++ l;
     CodecProps.pr_user := CodecProps.pr_user acc |}.
Proof.
  induction l as [|x l IH]; intros acc; cbn [map fold_left].
  - rewrite app_nil_r. now destruct acc.
  - rewrite IH. cbn [wp_step CodecProps.pr_single CodecProps.pr_subid CodecProps.pr_user]. now rewrite <- app_assoc.
Qed.

Lemma fold_user (l : list (str * str)) : forall acc,
  fold_left wp_step (map (fun kv => PUser (fst kv) (snd kv)) l) acc =
  {| CodecProps.pr_single := CodecProps.pr_single acc; CodecProps.pr_subid := CodecProps.pr_subid acc;
     CodecProps.pr_user := CodecProps.pr_user acc ++ l |}.
Proof.
  induction l as [|[a b] l IH]; intros acc; cbn [map fold_left].
  - rewrite app_nil_r. now destruct acc.
  - rewrite IH. cbn [wp_step CodecProps.pr_single CodecProps.pr_subid CodecProps.pr_user fst snd]. now rewrite <- app_assoc.
Qed.

(* the codec-side property block of the properties write_publish attaches: that of the message, plus the
   three bytes of the Topic Alias property *)
Lemma wire_props_len m extra :
  (extra = [] \/ exists a, extra = [PAlias a]) ->
  len (CodecProps.props_body (wire_props (msg_props true m ++ extra))) =
  CodecMsgP.msg_props_len m + (match extra with [] => 0 | _ => 3 end).
Proof.
  intros Hex. rewrite wire_props_eq. unfold msg_props. rewrite <- !app_assoc, !fold_left_app.
  rewrite fold_user, fold_subid.
  unfold CodecMsgP.msg_props_len. rewrite CodecMsgP.fold_subids, CodecMsgP.fold_uprops.
  unfold CodecProps.props_body.
  destruct Hex as [->|[a ->]];
  destruct (m_pfmt m =? 1); destruct (m_expiry m =? 0); destruct (m_ctype m) as [|c1 ct];
    destruct (m_resp m) as [|r1 rt]; destruct (m_corr m) as [|k1 kt];
    cbn [fold_left wp_step app CodecProps.set_single CodecProps.pr_single CodecProps.pr_subid CodecProps.pr_user CodecProps.props_empty
         CodecProps.ps_set N.ltb N.compare Pos.compare Pos.compare_cont N.eqb Pos.eqb filter fst andb
         CodecProps.pack_singles flat_map CodecProps.pack_single];
    repeat first [rewrite len_app | rewrite len_put32 | rewrite len_put16 | rewrite len_put_bin | rewrite len_cons | rewrite len_nil];
    cbn [N.eqb]; try lia;
    repeat match goal with |- context [?a + ?b =? 0] => replace (a + b =? 0) with false by lia end; lia.
Qed.

Definition fh_len (rl : N) : N := if rl <? 128 then 2 else if rl <? 16384 then 3 else if rl <? 2097152 then 4 else 5.

(* the size of a v5 PUBLISH as the codec model writes it *)
Lemma wire_len_formula c dup qos ret topic payload pid props n :
  wire_len (OSend c (KPublish dup qos ret topic payload pid props)) = Some n ->
  let pl := len (CodecProps.props_body (wire_props props)) in
  let rl := 2 + len topic + (if (qos =? 1) || (qos =? 2) then 2 else 0) + (varlen pl + pl) + len payload in
  rl < 268435456 /\ n = fh_len rl + rl.
Proof.
  unfold wire_len, CodecPackets.pack, CodecPackets.pack_full. intros H.
  destruct (CodecPackets.pack_body _) as [[[t fl] bytes]| | |] eqn:Epb; cbn [CodecBase.bind] in H; try discriminate.
  destruct (CodecPackets.pack_fixhdr _) as [l| | |] eqn:Eh; cbn [CodecBase.bind] in H; try discriminate.
  injection H as <-.
  apply CodecMsgP.pack_body_publish_len in Epb. cbn [N.eqb Pos.eqb] in Epb. rewrite CodecMsgP.len_props_pack in Epb.
  apply CodecSizeP.pack_fixhdr_len in Eh. cbn [CodecPackets.fh_rl] in Eh. destruct Eh as [Hlt Hl].
  cbv zeta. rewrite <- Epb. split; [exact Hlt|]. rewrite len_app, Hl. reflexivity.
Qed.

Ltac Zify.zify_post_hook ::= Z.div_mod_to_equations.

Lemma mtb_eq m :
  msg_total_bytes true m =
  (let pl := CodecMsgP.msg_props_len m in
   let rl := len (m_payload m) + 2 + len (m_topic m) + (if 0 <? m_qos m then 2 else 0) + pl + varlen pl in
   ((if rl <=? 127 then 2 else if rl <=? 16383 then 3 else if rl <=? 2097151 then 4 else 5) + rl) mod 4294967296).
Proof. reflexivity. Qed.

Lemma qos_pid_bytes q : q <= 2 -> (if (q =? 1) || (q =? 2) then 2 else 0) = (if 0 <? q then 2 else 0).
Proof. intros H. destruct (N.eqb_spec q 0) as [->|E]; [reflexivity|].
  replace ((q =? 1) || (q =? 2)) with true by lia. replace (0 <? q) with true by lia. reflexivity. Qed.

(* sizes: T' is the topic written (the topic or nothing), d the bytes of the alias property (3 or 0) *)
Lemma size_arith P T T' Q pl d n :
  T' <= T -> T <= 65535 -> d <= 3 ->
  let rl' := 2 + T' + Q + (varlen (pl + d) + (pl + d)) + P in
  rl' < 268435456 -> n = fh_len rl' + rl' ->
  let rl := P + 2 + T + Q + pl + varlen pl in
  let tb := ((if rl <=? 127 then 2 else if rl <=? 16383 then 3 else if rl <=? 2097151 then 4 else 5) + rl) mod 4294967296 in
  n <= tb + 5 /\ (d = 0 -> T' = T -> n = tb).
Proof.
  cbv zeta. unfold fh_len, varlen. intros H1 H2 H3 H4 ->.
  repeat match goal with |- context [if ?b then _ else _] => destruct b eqn:? end; lia.
Qed.

(* C13 on the wire: a v5 PUBLISH written by write_publish for a message that measures at most the client's
   Maximum Packet Size (what the queue's size filter guarantees for first transmissions: C13_out_size) is at
   most that many bytes as the codec model encodes it - with or without the Topic Alias property *)
Theorem C13_wire_size c k m o n :
  k_v k = 5 -> m_qos m <= 2 -> len (m_topic m) <= 65535 ->
  msg_total_bytes true m <= k_client_max_packet k ->
  In o (snd (write_publish c k m)) -> wire_len o = Some n -> n <= k_client_max_packet k.
Proof.
  intros Hv Hq Ht Hsz Hin Hw. unfold write_publish in Hin. rewrite Hv in Hin. cbn [N.eqb Pos.eqb andb] in Hin.
  rewrite mtb_eq in Hsz. cbv zeta in Hsz.
  destruct ((0 <? k_client_alias_max k) && (msg_total_bytes true m + 5 <=? k_client_max_packet k)) eqn:Ea.
  - apply andb_true_iff in Ea as [_ Ea]. apply N.leb_le in Ea. rewrite mtb_eq in Ea. cbv zeta in Ea.
    destruct (am_check (m_topic m) (k_alias_out k)) as [am' [a ex|]]; cbn [snd] in Hin; [|destruct Hin].
    destruct Hin as [<-|[]]. apply wire_len_formula in Hw. cbv zeta in Hw. destruct Hw as [Hlt Hn].
    rewrite (qos_pid_bytes _ Hq) in Hlt, Hn.
    assert (Hpl : exists d, d <= 3 /\ len (CodecProps.props_body (wire_props (msg_props true m ++ (if a =? 0 then [] else [PAlias a]))))
                                 = CodecMsgP.msg_props_len m + d).
    { destruct (a =? 0); [exists 0|exists 3]; (split; [lia|]); rewrite wire_props_len; eauto. }
    destruct Hpl as (d & Hd & Hpl). rewrite Hpl in Hlt, Hn.
    assert (HT : len (if ex then [] else m_topic m) <= len (m_topic m)) by (destruct ex; [unfold len; cbn; lia|lia]).
    destruct (size_arith (len (m_payload m)) (len (m_topic m)) (len (if ex then [] else m_topic m))
                (if 0 <? m_qos m then 2 else 0) (CodecMsgP.msg_props_len m) d n HT Ht Hd Hlt Hn) as [Hle _].
    lia.
  - cbn [snd] in Hin. destruct Hin as [<-|[]]. apply wire_len_formula in Hw. cbv zeta in Hw. destruct Hw as [Hlt Hn].
    rewrite (qos_pid_bytes _ Hq) in Hlt, Hn.
    pose proof (wire_props_len m [] (or_introl eq_refl)) as Hpl. rewrite app_nil_r in Hpl. rewrite Hpl in Hlt, Hn.
    rewrite N.add_0_r in Hlt, Hn.
    destruct (size_arith (len (m_payload m)) (len (m_topic m)) (len (m_topic m))
                (if 0 <? m_qos m then 2 else 0) (CodecMsgP.msg_props_len m) 0 n (N.le_refl _) Ht ltac:(lia)) as [_ Heq].
    + cbv zeta. rewrite N.add_0_r. exact Hlt.
    + rewrite N.add_0_r. exact Hn.
    + rewrite (Heq eq_refl eq_refl). exact Hsz.
Qed.

(* the messages in a session queue are what the decoder lets in: QoS at most 2, a topic of at most 65535 bytes *)
Definition queued_wf (q : queue) : Prop :=
  forall e m, In e (q_l q) -> e_body e = QPub m -> m_qos m <= 2 /\ len (m_topic m) <= 65535.

(* ... and at the level of the poll loop: every PUBLISH a turn writes for a queued message of a v5 connection is,
   as the codec model encodes it, within the client's Maximum Packet Size *)
Theorem C13_out_wire_size w s c k q s' o x n :
  PollInv w s c -> nget c (b_conns s) = Some k -> k_v k = 5 -> k_drained k = true ->
  aget (k_cid k) (b_queues s) = Some q -> queued_wf q ->
  poll_once c s = Some (s', o) -> In x o -> wire_len x = Some n -> n <= k_client_max_packet k.
Proof.
  intros (k0 & q0 & inf & que & Hk0 & Hq0 & _ & _ & _ & HCQ) Hk Hv Hd Hq Hwf Hp Hx Hw.
  rewrite Hk in Hk0. inversion Hk0; subst k0. rewrite Hq in Hq0. inversion Hq0; subst q0. clear Hk0 Hq0.
  destruct (poll_once_cases w c s s' o k q inf que Hk Hq HCQ Hp) as (_ & _ & _ & _ & _ & Hcase).
  destruct Hcase as [Hd' _ _ _|rs Hd' _ _ _ _|ids _ Hh Ho _ _ _ Hq'|ids rs evs pubs q' _ Hh Hr Ho Hrs Hpubs Hevs Hc _]; try congruence.
  - subst o. contradiction.
  - subst o. apply in_app_or in Hx. destruct Hx as [Hx|Hx].
    { apply In_drops_of in Hx. destruct Hx as (m & r & ->). discriminate. }
    destruct (Forall2_in_r _ _ _ _ Hpubs Hx) as (r & Hr' & m & Hb & _ & _ & k0 & Hss & Hin).
    rewrite Forall_forall in Hrs. destruct (Hrs r Hr') as (v & m0 & Hvq & Hbv & Hsz & _ & _ & Hcs).
    assert (Hin_q : In v (q_l q)) by (rewrite (qi_l _ _ _ _ (cq_q _ _ _ _ _ _ HCQ)); apply in_or_app; now right).
    destruct (Hwf v m0 Hin_q Hbv) as [Hq2 Ht].
    destruct Hss as (_ & Hv0 & _ & _ & HL0 & _).
    destruct (aged_fields (k_v k =? 5) (b_now s) r m) as (_ & A2 & _ & A4 & _ & _).
    rewrite Hv in Hsz. cbn [N.eqb Pos.eqb] in Hsz.
    assert (Hm : m_qos m = m_qos m0 /\ m_topic m = m_topic m0 /\ msg_total_bytes true m = msg_total_bytes true m0).
    { destruct Hcs as [[_ ->]|(_ & p & _ & Hbr)].
      - rewrite Hbv in Hb. now inversion Hb.
      - rewrite Hbr in Hb. inversion Hb; subst m. auto. }
    destruct Hm as (M1 & M2 & M3).
    rewrite <- HL0. apply (C13_wire_size c k0 (aged (k_v k =? 5) (b_now s) r m) x n); try assumption.
    + congruence.
    + now rewrite A2, M1.
    + now rewrite A4, M2.
    + now rewrite total_bytes_aged, M3, HL0.
Qed.
