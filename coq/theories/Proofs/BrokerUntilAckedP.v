(* C03, the at-least-once clause over whole steps and runs of the broker model (Model/Broker.v):
   an in-flight entry of a session queue leaves the in-flight part only by (a) the client's final
   acknowledgement, (b) the in-flight expiry applied by a full-queue Add (reported as
   ODropped .. DExpiredInflight; silently for a PUBREL entry), (c) the end of the session; otherwise it is
   still in flight after the step (a PUBREC turns a PUBLISH entry into a PUBREL entry with the same id).
   Combined with the replay theorem of Proofs/BrokerPollP.v: it is retransmitted after every resuming
   CONNECT, before any first transmission.
   The per-operation facts are in Proofs/BrokerPollP.v (the C03_until_acked lemmas), the invariant over runs in
   Proofs/BrokerPollGlobalP.v (GInv, run_wb); this file tracks the in-flight part of one queue through
   every handler of step_event, together with the outputs (the drop notifications). *)
From Coq Require Import List NArith ZArith Bool Arith Lia ZifyN ZifyNat ZifyBool.
Import ListNotations.
From GM Require Import Base.Topic Base.Msg Model.SubTrie Model.RetTrie Model.Queue Model.Limiter
                       Model.TopicMatch Model.Broker Proofs.TopicP Proofs.SubTrieP Proofs.LimiterP Proofs.QueueP
                       Proofs.BrokerBasicP Proofs.BrokerInvP Proofs.BrokerPollP Proofs.BrokerPollGlobalP.
From GM Require Proofs.BrokerQos2P.
Open Scope N_scope.

(* ------------------------------------------------------------------ *)
(* 1. the in-flight part of a list of entries (no invariant needed)    *)
(* ------------------------------------------------------------------ *)

Lemma q_inf_of_nz l d : In d (q_inf_of l) -> e_id d <> 0.
Proof.
  induction l as [|x r IH]; cbn [q_inf_of]; [intros []|].
  destruct (e_id x =? 0) eqn:E; [intros []|]. apply N.eqb_neq in E.
  intros [<-|H]; [exact E|now apply IH].
Qed.

Lemma q_inf_of_app_in a b d : In d (q_inf_of a) -> In d (q_inf_of (a ++ b)).
Proof.
  induction a as [|x r IH]; cbn [q_inf_of app]; [intros []|].
  destruct (e_id x =? 0); [intros []|]. intros [<-|H]; [now left|right; now apply IH].
Qed.

Lemma q_inf_of_remove_nth l : forall i d,
  In d (q_inf_of l) -> In d (q_inf_of (remove_nth i l)) \/ nth_error l i = Some d.
Proof.
  induction l as [|x r IH]; intros i d; cbn [q_inf_of]; [intros []|].
  destruct (e_id x =? 0) eqn:E; [intros []|].
  destruct i as [|i]; cbn [remove_nth nth_error].
  - intros [<-|H]; [now right|now left].
  - cbn [q_inf_of]. rewrite E. intros [<-|H]; [left; now left|].
    destruct (IH i d H) as [H1|H1]; [left; now right|now right].
Qed.

(* an entry is replaced by one with the same packet id *)
Lemma q_inf_of_replace_nth e l : forall i d0 d,
  nth_error l i = Some d0 -> e_id e = e_id d0 -> In d (q_inf_of l) ->
  In d (q_inf_of (replace_nth i e l)) \/ (d = d0 /\ In e (q_inf_of (replace_nth i e l))).
Proof.
  induction l as [|x r IH]; intros i d0 d; cbn [q_inf_of]; [intros _ _ []|].
  destruct (e_id x =? 0) eqn:E; [intros _ _ []|].
  destruct i as [|i]; cbn [replace_nth nth_error q_inf_of].
  - intros Hn He. inversion Hn; subst d0. rewrite He, E.
    intros [<-|H]; [right; split; [reflexivity|now left]|left; now right].
  - rewrite E. intros Hn He [<-|H]; [left; now left|].
    destruct (IH i d0 d Hn He H) as [H1|[H1 H2]]; [left; now right|right; split; [exact H1|now right]].
Qed.

(* ------------------------------------------------------------------ *)
(* 2. the queue operations on the in-flight part                       *)
(* ------------------------------------------------------------------ *)

Lemma q_inf_close q : q_inf (q_close q) = q_inf q. Proof. reflexivity. Qed.
Lemma q_inf_init_keep v5 lim q : q_inf (q_init false v5 lim q) = q_inf q. Proof. reflexivity. Qed.
Lemma q_inf_init_clean v5 lim q : q_inf (q_init true v5 lim q) = []. Proof. reflexivity. Qed.

Lemma q_inf_nz q d : In d (q_inf q) -> e_id d <> 0.
Proof. apply q_inf_of_nz. Qed.

(* Add: an in-flight entry stays, or it is the expired entry the full queue sacrifices *)
Lemma q_add_keeps now e q q' evs d :
  q_add now e q = QOk (q', evs) -> In d (q_inf q) ->
  In d (q_inf q') \/ (expired now d = true /\ In (EvDropped d DExpiredInflight) evs).
Proof.
  intros Hadd Hd. pose proof Hadd as Hadd0. unfold q_add in Hadd. unfold q_inf in *.
  destruct (q_max q <=? length (q_l q))%nat.
  - destruct (add_victim now e q) as [|r|i r] eqn:Ev; [discriminate| |].
    + inversion Hadd; subst q' evs. now left.
    + destruct (nth_error (q_l q) i) as [d0|] eqn:En; [|discriminate].
      inversion Hadd; subst q' evs. clear Hadd. cbn [q_l q_set].
      destruct (q_inf_of_remove_nth (q_l q) i d Hd) as [H|H]; [left; now apply q_inf_of_app_in|].
      rewrite En in H. inversion H; subst d0. clear H.
      destruct (add_victim_spec _ _ _ _ _ Ev) as [[-> _]|(_ & _ & H0)].
      * right. split; [|apply in_or_app; right; now left].
        apply (q_add_inflight_drop_expired now e q _ d [EvInflight (-1)] [] Hadd0).
      * exfalso. apply (q_inf_of_nz _ _ Hd). now apply H0.
  - inversion Hadd; subst q' evs. left. cbn [q_l q_set]. now apply q_inf_of_app_in.
Qed.

(* Remove(pid) *)
Lemma q_remove_keeps pid q d : In d (q_inf q) -> In d (q_inf (fst (q_remove pid q))) \/ e_id d = pid.
Proof.
  intros Hd. unfold q_remove. destruct (find_id pid (q_l q) (q_cur q) 0) as [i|] eqn:Ef; cbn [fst]; [|now left].
  destruct (find_id_some _ _ _ _ _ Ef) as (k & d0 & -> & _ & Hn & Hid). cbn [Nat.add].
  unfold q_inf in *. cbn [q_l q_set].
  destruct (q_inf_of_remove_nth (q_l q) k d Hd) as [H|H]; [now left|].
  right. congruence.
Qed.

(* Replace(e): the entry with the id of e becomes e *)
Lemma q_replace_keeps e q d :
  In d (q_inf q) ->
  In d (q_inf (fst (q_replace e q))) \/ (e_id d = e_id e /\ In e (q_inf (fst (q_replace e q)))).
Proof.
  intros Hd. unfold q_replace. destruct (find_id (e_id e) (q_l q) (q_cur q) 0) as [i|] eqn:Ef; cbn [fst]; [|now left].
  destruct (find_id_some _ _ _ _ _ Ef) as (k & d0 & -> & _ & Hn & Hid). cbn [Nat.add].
  unfold q_inf in *. cbn [q_l q_set].
  destruct (q_inf_of_replace_nth e (q_l q) k d0 d Hn (eq_sym Hid) Hd) as [H|[-> H]]; [now left|right; auto].
Qed.

Lemma drops_of_in cid evs d m r : In (EvDropped d r) evs -> e_body d = QPub m -> In (ODropped cid m r) (drops_of cid evs).
Proof.
  intros Hin Hb. unfold drops_of. apply in_flat_map. exists (EvDropped d r). split; [exact Hin|]. rewrite Hb. now left.
Qed.

(* ------------------------------------------------------------------ *)
(* 3. the tracking relation                                            *)
(* ------------------------------------------------------------------ *)

(* (b): the entry was dropped because it had expired in flight; the drop of a PUBLISH entry is reported,
   the drop of a PUBREL entry is silent (drops_of has no output for it) *)
Definition xdrop (cid : str) (now : N) (o : list out) (d : elem) : Prop :=
  expired now d = true /\
  match e_body d with QPub m => In (ODropped cid m DExpiredInflight) o | QRel _ => True end.

Definition dsub (cid : str) (o o' : list out) : Prop :=
  forall m, In (ODropped cid m DExpiredInflight) o -> In (ODropped cid m DExpiredInflight) o'.

Lemma dsub_refl cid o : dsub cid o o. Proof. intros m H. exact H. Qed.
Lemma dsub_app_l cid o o' : dsub cid o (o ++ o'). Proof. intros m H. apply in_or_app. now left. Qed.
Lemma dsub_app_r cid o o' : dsub cid o' (o ++ o'). Proof. intros m H. apply in_or_app. now right. Qed.
Lemma dsub_cons cid x o : dsub cid o (x :: o). Proof. intros m H. now right. Qed.
Lemma dsub_filter cid (f : out -> bool) o :
  (forall cid' m r, f (ODropped cid' m r) = true) -> dsub cid o (filter f o).
Proof. intros Hf m H. apply filter_In. split; [exact H|apply Hf]. Qed.

Lemma xdrop_mono cid now o o' d : dsub cid o o' -> xdrop cid now o d -> xdrop cid now o' d.
Proof. intros Hs [H1 H2]. split; [exact H1|]. destruct (e_body d); [now apply Hs|exact I]. Qed.

(* the queue table Q' descends from Q as far as client id cid is concerned: no queue appears for cid, and the
   in-flight entries of its queue stay (the same elements) unless dropped as expired *)
Definition qkeep (cid : str) (now : N) (o : list out) (Q Q' : list (str * queue)) : Prop :=
  (NoDup (keys Q) -> NoDup (keys Q')) /\
  (aget cid Q = None -> aget cid Q' = None) /\
  (NoDup (keys Q) -> forall q q' d, aget cid Q = Some q -> aget cid Q' = Some q' -> In d (q_inf q) ->
     In d (q_inf q') \/ xdrop cid now o d).

Lemma qkeep_refl cid now o Q : qkeep cid now o Q Q.
Proof.
  split; [auto|]. split; [auto|]. intros _ q q' d Hq Hq' Hd. rewrite Hq in Hq'. inversion Hq'; subst. now left.
Qed.

Lemma qkeep_trans cid now o1 o2 Q Q1 Q2 :
  qkeep cid now o1 Q Q1 -> qkeep cid now o2 Q1 Q2 -> qkeep cid now (o1 ++ o2) Q Q2.
Proof.
  intros (A1 & A2 & A3) (B1 & B2 & B3). split; [auto|]. split; [auto|].
  intros Hnd q q2 d Hq Hq2 Hd. destruct (aget cid Q1) as [q1|] eqn:Hq1.
  - destruct (A3 Hnd q q1 d Hq eq_refl Hd) as [H|H]; [|right; eapply xdrop_mono; [apply dsub_app_l|exact H]].
    destruct (B3 (A1 Hnd) q1 q2 d eq_refl Hq2 H) as [H'|H']; [now left|right; eapply xdrop_mono; [apply dsub_app_r|exact H']].
  - rewrite (B2 eq_refl) in Hq2. discriminate.
Qed.

Lemma qkeep_weaken cid now o o' Q Q' : dsub cid o o' -> qkeep cid now o Q Q' -> qkeep cid now o' Q Q'.
Proof.
  intros Hs (A1 & A2 & A3). split; [auto|]. split; [auto|]. intros Hnd q q' d Hq Hq' Hd.
  destruct (A3 Hnd q q' d Hq Hq' Hd) as [H|H]; [now left|right; eapply xdrop_mono; eauto].
Qed.

Lemma qkeep_aset cid now o cid' q0 q1 Q :
  aget cid' Q = Some q0 ->
  (cid' = cid -> forall d, In d (q_inf q0) -> In d (q_inf q1) \/ xdrop cid now o d) ->
  qkeep cid now o Q (aset cid' q1 Q).
Proof.
  intros Hq0 Hk. split; [apply NoDup_aset|]. split.
  - intros Hn. destruct (str_dec cid cid') as [->|Hne]; [congruence|]. now rewrite aget_aset_ne.
  - intros _ q q' d Hq Hq' Hd. destruct (str_dec cid cid') as [->|Hne].
    + rewrite aget_aset_eq in Hq'. inversion Hq'; subst q'. rewrite Hq0 in Hq. inversion Hq; subst q0. now apply Hk.
    + rewrite aget_aset_ne in Hq' by exact Hne. rewrite Hq in Hq'. inversion Hq'; subst. now left.
Qed.

(* a queue installed for another client id (CONNECT of another client) *)
Lemma qkeep_aset_other cid now o cid' q1 Q : cid' <> cid -> qkeep cid now o Q (aset cid' q1 Q).
Proof.
  intros Hne. assert (Hne' : cid <> cid') by (intros E; apply Hne; now symmetry).
  split; [apply NoDup_aset|]. split.
  - intros Hn. now rewrite aget_aset_ne.
  - intros _ q q' d Hq Hq' Hd. rewrite aget_aset_ne in Hq' by exact Hne'. rewrite Hq in Hq'. inversion Hq'; subst. now left.
Qed.

Lemma qkeep_adel cid now o cid' Q : qkeep cid now o Q (adel cid' Q).
Proof.
  split; [apply NoDup_adel|]. split.
  - intros Hn. destruct (str_dec cid cid') as [->|Hne]; [now rewrite BrokerQos2P.adel_absent|].
    now rewrite BrokerQos2P.aget_adel_other.
  - intros Hnd q q' d Hq Hq' Hd. destruct (str_dec cid cid') as [->|Hne].
    + rewrite BrokerQos2P.aget_adel_same in Hq' by exact Hnd. discriminate.
    + rewrite BrokerQos2P.aget_adel_other in Hq' by exact Hne. rewrite Hq in Hq'. inversion Hq'; subst. now left.
Qed.

(* the same on states: the clock does not move, the queue table descends *)
Record keeps (cid : str) (s s' : st) (o : list out) : Prop := {
  kp_now : b_now s' = b_now s;
  kp_q : qkeep cid (b_now s) o (b_queues s) (b_queues s') }.

Lemma keeps_refl cid s o : keeps cid s s o.
Proof. split; [reflexivity|apply qkeep_refl]. Qed.

Lemma keeps_trans cid s s1 s2 o1 o2 : keeps cid s s1 o1 -> keeps cid s1 s2 o2 -> keeps cid s s2 (o1 ++ o2).
Proof.
  intros [A1 A2] [B1 B2]. split; [congruence|]. rewrite A1 in B2. eapply qkeep_trans; eauto.
Qed.

Lemma keeps_weaken cid s s' o o' : dsub cid o o' -> keeps cid s s' o -> keeps cid s s' o'.
Proof. intros Hs [A1 A2]. split; [exact A1|eapply qkeep_weaken; eauto]. Qed.

(* a stage that touches neither the clock nor the queue table *)
Lemma keeps_same cid s s' o : b_now s' = b_now s -> b_queues s' = b_queues s -> keeps cid s s' o.
Proof. intros H1 H2. split; [exact H1|]. rewrite H2. apply qkeep_refl. Qed.

(* stage, then a stage whose outputs are appended: the shape `let '(s', o') := f s0 in (s', o0 ++ o')` *)
Lemma keeps_step cid s s0 o0 (r : st * list out) :
  keeps cid s s0 o0 -> keeps cid s0 (fst r) (snd r) -> keeps cid s (fst r) (o0 ++ snd r).
Proof. apply keeps_trans. Qed.

Lemma keeps_nil cid s s' o : keeps cid s s' [] -> keeps cid s s' o.
Proof. apply keeps_weaken. intros m []. Qed.

Lemma keeps_trans_nil_l cid s s1 s2 o : keeps cid s s1 [] -> keeps cid s1 s2 o -> keeps cid s s2 o.
Proof. intros H1 H2. exact (keeps_trans cid s s1 s2 [] o H1 H2). Qed.

Lemma keeps_trans_nil_r cid s s1 s2 o : keeps cid s s1 o -> keeps cid s1 s2 [] -> keeps cid s s2 o.
Proof. intros H1 H2. pose proof (keeps_trans cid s s1 s2 o [] H1 H2) as H. now rewrite app_nil_r in H. Qed.

(* ------------------------------------------------------------------ *)
(* 4. delivery                                                         *)
(* ------------------------------------------------------------------ *)

Lemma release_dropped_now cid evs s : b_now (release_dropped cid evs s) = b_now s.
Proof. apply (fr_now _ _ (release_dropped_frame cid evs s)). Qed.

(* what add_to_queue and replay_retained do with the result of Add *)
Lemma enq_keeps cid cid' q0 e q' evs s :
  aget cid' (b_queues s) = Some q0 -> q_add (b_now s) e q0 = QOk (q', evs) ->
  keeps cid s (enq cid' q' evs s) (drops_of cid' evs).
Proof.
  intros Hq0 Hqa. unfold enq. split.
  - now rewrite release_dropped_now.
  - rewrite release_dropped_queues. cbn [set_picks_tag set_queues b_queues].
    apply (qkeep_aset cid _ _ cid' q0 q' _ Hq0). intros -> d Hd.
    destruct (q_add_keeps _ _ _ _ _ d Hqa Hd) as [H|[H1 H2]]; [now left|right].
    split; [exact H1|]. destruct (e_body d) as [m|p] eqn:Eb; [|exact I]. eapply drops_of_in; eauto.
Qed.

Lemma add_to_queue_keeps cid cid' m sb ids s :
  keeps cid s (fst (add_to_queue cid' m sb ids s)) (snd (add_to_queue cid' m sb ids s)).
Proof.
  unfold add_to_queue. destruct (aget cid' (b_queues s)) as [q0|] eqn:Hq0; [|apply keeps_refl].
  destruct (negb (c_queue_qos0 (b_cfg s)) && negb (ahas cid' (b_online s)) && (m_qos m =? 0)); [apply keeps_refl|].
  match goal with |- context [q_add ?n ?e0 q0] => set (e := e0) end.
  destruct (q_add (b_now s) e q0) as [[q' evs]| | |] eqn:Hqa; try apply keeps_refl.
  cbn [fst snd]. exact (enq_keeps cid cid' q0 e q' evs s Hq0 Hqa).
Qed.

Lemma fold_acc_inv {A} (P : st * list out -> Prop) (f : st * list out -> A -> st * list out) :
  (forall acc a, P acc -> P (f acc a)) -> forall l acc, P acc -> P (fold_left f l acc).
Proof. intros Hf. induction l as [|a l IH]; intros acc Ha; cbn [fold_left]; [exact Ha|]. apply IH, Hf, Ha. Qed.

(* deliver as a sequence of add_to_queue, with the outputs *)
Lemma deliver_acc_inv (P : st * list out -> Prop) src m :
  (forall cid sb ids s o, P (s, o) -> P (fst (add_to_queue cid m sb ids s), o ++ snd (add_to_queue cid m sb ids s))) ->
  (forall s o, P (s, o) -> P (count_pick s, o)) -> (forall r s o, P (s, o) -> P (set_picks_tag r (b_tag s) s, o)) ->
  forall s, P (s, []) -> P (fst (deliver src m s)).
Proof.
  intros Hadd Hcp Hsp s Hs. unfold deliver.
  assert (Hpick : forall n s0 o0, P (s0, o0) -> P (snd (take_pick n s0), o0)).
  { intros n s0 o0 H0. unfold take_pick. destruct (b_picks s0); cbn [snd]; auto. }
  set (ents := filter (fun e => negb (s_nl (snd e) && str_eqb (fst e) src)) _).
  set (plain := filter (fun e => is_empty (s_share (snd e))) ents).
  set (shared := filter (fun e => negb (is_empty (s_share (snd e)))) ents).
  match goal with |- context [if c_onlyonce (b_cfg s) then (s, []) else fold_left ?f plain (s, [])] => set (F1 := f) end.
  assert (H1 : P (if c_onlyonce (b_cfg s) then (s, []) else fold_left F1 plain (s, []))).
  { destruct (c_onlyonce (b_cfg s)); [exact Hs|]. apply fold_acc_inv; [|exact Hs].
    intros [s0 o0] a H0. unfold F1. specialize (Hadd (fst a) (snd a) [s_id (snd a)] s0 o0 H0).
    destruct (add_to_queue (fst a) m (snd a) [s_id (snd a)] s0). exact Hadd. }
  destruct (if c_onlyonce (b_cfg s) then (s, []) else fold_left F1 plain (s, [])) as [s1 o1].
  match goal with |- context [fold_left ?f (group_shared shared []) (s1, o1)] => set (F2 := f) end.
  assert (H2 : P (fold_left F2 (group_shared shared []) (s1, o1))).
  { apply fold_acc_inv; [|exact H1]. intros [s0 o0] g H0. unfold F2.
    assert (Hp : P (snd (match snd g with [_] => (0%nat, s0) | _ => take_pick (length (snd g)) s0 end), o0)).
    { destruct (snd g) as [|x [|y r]]; try (now apply Hpick). exact H0. }
    destruct (match snd g with [_] => (0%nat, s0) | _ => take_pick (length (snd g)) s0 end) as [i s0']. cbn [snd] in Hp.
    destruct (nth_error (snd g) i) as [[c0 sb]|]; [|exact Hp].
    specialize (Hadd c0 sb [s_id sb] s0' o0 Hp). destruct (add_to_queue c0 m sb [s_id sb] s0'). exact Hadd. }
  destruct (fold_left F2 (group_shared shared []) (s1, o1)) as [s2 o2].
  destruct (c_onlyonce (b_cfg s)); [|exact H2].
  match goal with |- context [fold_left ?f (group_by_client plain []) (s2, o2)] => set (F3 := f) end.
  assert (H3 : P (fold_left F3 (group_by_client plain []) (s2, o2))).
  { apply fold_acc_inv; [|exact H2]. intros [s0 o0] g H0. unfold F3.
    set (best := filter (fun x => s_qos x =? max_qos_of (snd g)) (snd g)).
    assert (Hp : P (snd (match best with [_] => (0%nat, s0) | _ => take_pick (length best) s0 end), o0)).
    { destruct best as [|x [|y r]]; try (now apply Hpick). exact H0. }
    destruct (match best with [_] => (0%nat, s0) | _ => take_pick (length best) s0 end) as [i s0']. cbn [snd] in Hp.
    destruct (nth_error best i) as [sb|]; [|exact Hp].
    specialize (Hadd (fst g) sb (map s_id (snd g)) s0' o0 Hp). destruct (add_to_queue (fst g) m sb (map s_id (snd g)) s0'). exact Hadd. }
  destruct (fold_left F3 (group_by_client plain []) (s2, o2)) as [s3 o3]. exact H3.
Qed.

Lemma deliver_keeps cid src m s : keeps cid s (fst (fst (deliver src m s))) (snd (fst (deliver src m s))).
Proof.
  apply (deliver_acc_inv (fun acc => keeps cid s (fst acc) (snd acc))).
  - intros cid' sb ids s0 o0 H0. cbn [fst snd] in *. eapply keeps_trans; [exact H0|apply add_to_queue_keeps].
  - intros s0 o0 H0. cbn [fst snd] in *. eapply keeps_trans_nil_r; [exact H0|]. now apply keeps_same.
  - intros r s0 o0 H0. cbn [fst snd] in *. eapply keeps_trans_nil_r; [exact H0|]. now apply keeps_same.
  - apply keeps_refl.
Qed.

(* ------------------------------------------------------------------ *)
(* 5. wills, the end of a connection                                   *)
(* ------------------------------------------------------------------ *)

Lemma retain_update_keeps cid m s o : keeps cid s (retain_update m s) o.
Proof. unfold retain_update. destruct (m_retained m); [now apply keeps_same|apply keeps_refl]. Qed.

Lemma send_will_keeps cid cid' m s : keeps cid s (fst (send_will cid' m s)) (snd (send_will cid' m s)).
Proof.
  unfold send_will. destruct (will_action cid' s) as [|code| |t p q]; try apply keeps_refl.
  - pose proof (deliver_keeps cid cid' m (retain_update m s)) as H.
    destruct (deliver cid' m (retain_update m s)) as [[s' o] b]. cbn [fst snd] in *.
    eapply keeps_trans_nil_l; [apply retain_update_keeps|exact H].
  - set (m' := with_topic_payload_qos t p q m).
    pose proof (deliver_keeps cid cid' m' (retain_update m' s)) as H.
    destruct (deliver cid' m' (retain_update m' s)) as [[s' o] b]. cbn [fst snd] in *.
    eapply keeps_trans_nil_l; [apply retain_update_keeps|exact H].
Qed.

Lemma release_will_keeps cid cid' s : keeps cid s (fst (release_will cid' s)) (snd (release_will cid' s)).
Proof.
  unfold release_will. destruct (aget cid' (b_wills s)) as [[w t]|]; [|apply keeps_refl].
  eapply keeps_trans_nil_l; [|apply send_will_keeps]. now apply keeps_same.
Qed.

(* folds whose body appends the outputs of a stage *)
Lemma fold_keeps {A} cid (f : st * list out -> A -> st * list out) (l : list A) :
  (forall s0 o0 x, exists r, f (s0, o0) x = (fst r, o0 ++ snd r) /\ keeps cid s0 (fst r) (snd r)) ->
  forall s, keeps cid s (fst (fold_left f l (s, []))) (snd (fold_left f l (s, []))).
Proof.
  intros Hf s. apply (fold_acc_inv (fun acc => keeps cid s (fst acc) (snd acc))); [|apply keeps_refl].
  intros [s0 o0] x H0. destruct (Hf s0 o0 x) as (r & -> & Hr). cbn [fst snd] in *. eapply keeps_trans; eauto.
Qed.

Lemma fire_wills_keeps cid s : keeps cid s (fst (fire_wills s)) (snd (fire_wills s)).
Proof.
  unfold fire_wills. apply fold_keeps. intros s0 o0 [cid' [m at_]]. cbv beta iota zeta.
  destruct (at_ <=? b_rt s0); [|exists (s0, []); cbn [fst snd]; rewrite app_nil_r; split; [reflexivity|apply keeps_refl]].
  destruct (aget cid' (b_wills s0)); [|exists (s0, []); cbn [fst snd]; rewrite app_nil_r; split; [reflexivity|apply keeps_refl]].
  match goal with |- context [send_will cid' m ?S] => pose proof (send_will_keeps cid cid' m S) as H; set (s1 := S) in *;
    exists (send_will cid' m s1); destruct (send_will cid' m s1) as [s2 o2] end.
  cbn [fst snd] in *. split; [reflexivity|]. eapply keeps_trans_nil_l; [|exact H]. now apply keeps_same.
Qed.

Lemma hc_wills_keeps cid l s : keeps cid s (fst (hc_wills l s)) (snd (hc_wills l s)).
Proof.
  unfold hc_wills. apply fold_keeps. intros s0 o0 cw. cbv beta iota.
  exists (send_will (fst cw) (snd cw) s0). pose proof (send_will_keeps cid (fst cw) (snd cw) s0) as H.
  destruct (send_will (fst cw) (snd cw) s0) as [s2 o2]. cbn [fst snd] in *. auto.
Qed.

Lemma remove_session_keeps cid cid' s o : keeps cid s (remove_session cid' s) o.
Proof. split; [reflexivity|]. cbn [remove_session set_subs set_tables b_queues]. apply qkeep_adel. Qed.

Lemma ur_will_keeps cid cid' k se expiry store s :
  keeps cid s (fst (ur_will cid' k se expiry store s)) (snd (ur_will cid' k se expiry store s)).
Proof.
  unfold ur_will. destruct (se_will se) as [w|]; [|apply keeps_refl].
  destruct (k_clean_will k); [apply keeps_refl|]. cbv zeta.
  match goal with |- context [if ?b then (set_tables _ _ _ _ _ _ _, []) else _] => destruct b end.
  - cbn [fst snd]. now apply keeps_same.
  - apply send_will_keeps.
Qed.

Lemma unregister_keeps cid c k s : keeps cid s (fst (unregister c k s)) (snd (unregister c k s)).
Proof.
  rewrite unregister_eq. cbv zeta. destruct (aget (k_cid k) (b_sessions s)) as [se|].
  - match goal with |- context [ur_will ?a ?b ?c ?d ?e s] =>
      pose proof (ur_will_keeps cid a b c d e s) as H; destruct (ur_will a b c d e s) as [s1 o1] end.
    cbn [fst snd] in H.
    match goal with |- context [if ?b then _ else _] => destruct b end; cbn [fst snd].
    + eapply keeps_trans_nil_r; [exact H|]. now apply keeps_same.
    + eapply keeps_trans_nil_r; [exact H|]. apply remove_session_keeps.
  - cbn [fst snd]. apply remove_session_keeps.
Qed.

Lemma closed_q_keeps cid cid' s o : keeps cid s (closed_q cid' s) o.
Proof.
  unfold closed_q. destruct (aget cid' (b_queues s)) as [q|] eqn:Hq; [|apply keeps_refl].
  split; [reflexivity|]. cbn [set_queues b_queues]. apply (qkeep_aset cid _ _ cid' q _ _ Hq).
  intros _ d Hd. left. now rewrite q_inf_close.
Qed.

Lemma conn_gone_keeps cid c s : keeps cid s (fst (conn_gone c s)) (snd (conn_gone c s)).
Proof.
  destruct (nget c (b_conns s)) as [k|] eqn:Hk; [|unfold conn_gone; rewrite Hk; apply keeps_refl].
  destruct (battached (k_phase k)) eqn:Ha.
  - rewrite (conn_gone_att c k s Hk Ha). cbn [fst snd].
    eapply keeps_weaken; [apply dsub_cons|].
    eapply keeps_trans_nil_l; [|apply unregister_keeps].
    eapply keeps_trans_nil_l; [apply (closed_q_keeps cid (k_cid k))|]. now apply keeps_same.
  - unfold conn_gone. rewrite Hk. destruct (k_phase k); try discriminate; cbn [fst snd];
      try apply keeps_refl; now apply keeps_same.
Qed.

Lemma fail_conn_keeps cid c code br s : keeps cid s (fst (fail_conn c code br s)) (snd (fail_conn c code br s)).
Proof.
  unfold fail_conn. destruct (nget c (b_conns s)) as [k|]; [|apply keeps_refl].
  destruct (k_phase k); try apply keeps_refl.
  match goal with |- context [if ?b then _ else _] => destruct b end.
  - pose proof (conn_gone_keeps cid c s) as H. destruct (conn_gone c s) as [s' o]. cbn [fst snd] in *.
    eapply keeps_weaken; [apply dsub_app_r|exact H].
  - cbn [fst snd]. now apply keeps_same.
Qed.

(* ------------------------------------------------------------------ *)
(* 6. the packet handlers (everything but the acknowledgements)        *)
(* ------------------------------------------------------------------ *)

Lemma bump_quota_keeps cid c s o (b : conn -> bool) :
  keeps cid s (match nget c (b_conns s) with
               | Some k1 => if b k1 then upd_conn c (set_quota (k_quota k1 + 1) k1) s else s
               | None => s
               end) o.
Proof. destruct (nget c (b_conns s)) as [k1|]; [|apply keeps_refl]. destruct (b k1); [now apply keeps_same|apply keeps_refl]. Qed.

Lemma hp_dupcheck_keeps cid c k v5 qos pid s o : keeps cid s (fst (hp_dupcheck c k v5 qos pid s)) o.
Proof.
  unfold hp_dupcheck. destruct (qos =? 2); [|apply keeps_refl]. cbv zeta.
  destruct (unack_set pid (opt_or (aget (k_cid k) (b_unacks s)) [])) as [u' ex]. cbn [fst].
  apply keeps_nil. set (S1 := set_unacks _ s). apply (keeps_trans_nil_l cid s S1); [now apply keeps_same|].
  destruct (ex && v5); [|apply keeps_refl].
  apply (bump_quota_keeps cid c S1 [] (fun k1 => k_quota k1 <? k_recv_max k1)).
Qed.

Lemma hp_deliver_keeps cid k m isdup action s :
  keeps cid s (fst (fst (fst (hp_deliver k m isdup action s)))) (snd (fst (fst (hp_deliver k m isdup action s)))).
Proof.
  unfold hp_deliver. destruct isdup; [apply keeps_refl|].
  destruct action as [|code| |t p q]; try apply keeps_refl.
  - pose proof (deliver_keeps cid (k_cid k) m (retain_update m s)) as H.
    destruct (deliver (k_cid k) m (retain_update m s)) as [[s' o] b]. cbn [fst snd] in *.
    eapply keeps_trans_nil_l; [apply retain_update_keeps|exact H].
  - cbv zeta. set (m' := rewrite_msg t p q m).
    pose proof (deliver_keeps cid (k_cid k) m' (retain_update m' s)) as H.
    destruct (deliver (k_cid k) m' (retain_update m' s)) as [[s' o] b]. cbn [fst snd] in *.
    eapply keeps_trans_nil_l; [apply retain_update_keeps|exact H].
Qed.

Lemma hp_finish_keeps cid c k v5 qos pid o matched err s :
  keeps cid s (hres_st (hp_finish c k v5 qos pid o matched err s)) [] /\
  dsub cid o (hres_out (hp_finish c k v5 qos pid o matched err s)).
Proof.
  unfold hp_finish. cbv zeta. cbn [hres_st hres_out]. split; [|apply dsub_app_l].
  match goal with |- context [if ?b then set_unacks ?u s else s] =>
    assert (F1 : keeps cid s (if b then set_unacks u s else s) [])
      by (destruct b; [now apply keeps_same|apply keeps_refl]);
    set (s1 := if b then set_unacks u s else s) in * end.
  eapply keeps_trans_nil_l; [exact F1|].
  match goal with |- context [if ?v && ?x && _ then _ else _] =>
    apply (bump_quota_keeps cid c s1 [] (fun k1 => v && x && (k_quota k1 <? k_recv_max k1))) end.
Qed.

Lemma handle_publish_keeps cid c k dup qos retain topic payload pid props s :
  keeps cid s (hres_st (handle_publish c k dup qos retain topic payload pid props s))
              (hres_out (handle_publish c k dup qos retain topic payload pid props s)).
Proof.
  rewrite handle_publish_eq. cbv zeta.
  destruct (negb (k_retain_avail k) && retain); [apply keeps_refl|].
  destruct (hp_alias k (k_v k =? 5) topic props _) as [[[k' m']|]|code]; try apply keeps_refl.
  pose proof (hp_dupcheck_keeps cid c k' (k_v k =? 5) qos pid (upd_conn c k' s) []) as F1.
  destruct (hp_dupcheck c k' (k_v k =? 5) qos pid (upd_conn c k' s)) as [s1 isdup]. cbn [fst] in F1.
  pose proof (hp_deliver_keeps cid k' m' isdup (hp_action m' s1) s1) as F2.
  destruct (hp_deliver k' m' isdup (hp_action m' s1) s1) as [[[s2 o] matched] err]. cbn [fst snd] in F2.
  destruct (hp_finish_keeps cid c k' (k_v k =? 5) qos pid o matched err s2) as [F3 D3].
  eapply keeps_weaken; [exact D3|].
  apply (keeps_trans_nil_l cid s (upd_conn c k' s)); [now apply keeps_same|].
  eapply keeps_trans_nil_l; [exact F1|]. eapply keeps_trans_nil_r; [exact F2|exact F3].
Qed.

Lemma replay_retained_keeps cid c k sb s : keeps cid s (fst (replay_retained c k sb s)) (snd (replay_retained c k sb s)).
Proof.
  unfold replay_retained. apply fold_keeps. intros s0 o0 m. cbv beta iota zeta.
  destruct (aget (k_cid k) (b_queues s0)) as [q|] eqn:Hq;
    [|exists (s0, []); cbn [fst snd]; rewrite app_nil_r; split; [reflexivity|apply keeps_refl]].
  match goal with |- context [q_add ?n ?e0 q] => set (e := e0) end.
  destruct (q_add (b_now s0) e q) as [[q' evs]| | |] eqn:Hqa;
    try (exists (s0, []); cbn [fst snd]; rewrite app_nil_r; split; [reflexivity|apply keeps_refl]).
  exists (enq (k_cid k) q' evs s0, drops_of (k_cid k) evs). cbn [fst snd]. split; [reflexivity|].
  exact (enq_keeps cid (k_cid k) q e q' evs s0 Hq Hqa).
Qed.

Lemma hs_body_keeps cid c k v5 subid all acc t s :
  keeps cid s (fst (fst acc)) (snd (fst acc)) ->
  keeps cid s (fst (fst (hs_body c k v5 subid all acc t))) (snd (fst (hs_body c k v5 subid all acc t))).
Proof.
  destruct acc as [[s0 o0] cs]. cbn [fst snd]. intros H0. unfold hs_body. cbv zeta.
  match goal with |- context [if ?b <? 128 then _ else _] => destruct (b <? 128) end; [|exact H0].
  match goal with |- context [db_subscribe ?a ?b ?d] => destruct (db_subscribe a b d) as [d' existed]; set (sb := b) in * end.
  match goal with |- context [if ?b then replay_retained c k sb ?S else _] =>
    destruct b; [pose proof (replay_retained_keeps cid c k sb S) as H1;
                 destruct (replay_retained c k sb S) as [s2 o2]|] end; cbn [fst snd] in *.
  - eapply keeps_trans; [exact H0|]. apply (keeps_trans_nil_l cid s0 (set_subs d' s0)); [now apply keeps_same|exact H1].
  - rewrite app_nil_r. eapply keeps_trans_nil_r; [exact H0|]. now apply keeps_same.
Qed.

Lemma handle_subscribe_keeps cid c k pid props topics s :
  keeps cid s (hres_st (handle_subscribe c k pid props topics s)) (hres_out (handle_subscribe c k pid props topics s)).
Proof.
  rewrite handle_subscribe_eq. cbv zeta.
  match goal with |- context [if ?b then HErr s [] (Some 161) else _] => destruct b end; [apply keeps_refl|].
  destruct (h_sub_all (b_hooks s)); [apply keeps_refl|].
  match goal with |- context [fold_left ?f topics ?a] =>
    assert (H : keeps cid s (fst (fst (fold_left f topics a))) (snd (fst (fold_left f topics a))));
    [|destruct (fold_left f topics a) as [[s' o] codes]] end.
  { generalize topics at 2 4. intros l.
    assert (G : forall acc, keeps cid s (fst (fst acc)) (snd (fst acc)) ->
              keeps cid s (fst (fst (fold_left (hs_body c k (k_v k =? 5)
                  (if (k_v k =? 5) && k_subid k then match p_subids props with i :: _ => i | [] => 0 end else 0) topics) l acc)))
                (snd (fst (fold_left (hs_body c k (k_v k =? 5)
                  (if (k_v k =? 5) && k_subid k then match p_subids props with i :: _ => i | [] => 0 end else 0) topics) l acc)))).
    { induction l as [|t r IH]; intros acc Ha; cbn [fold_left]; [exact Ha|]. apply IH. now apply hs_body_keeps. }
    apply G. cbn [fst snd]. apply keeps_refl. }
  cbn [hres_st hres_out fst snd] in *. eapply keeps_weaken; [apply dsub_app_l|exact H].
Qed.

(* everything but PUBACK / PUBREC / PUBCOMP *)
Lemma handle_packet_keeps cid c k p s :
  is_ack p = None -> keeps cid s (hres_st (handle_packet c k p s)) (hres_out (handle_packet c k p s)).
Proof.
  intros Hna. destruct p; cbn [is_ack] in Hna; try discriminate; cbn [handle_packet]; try apply keeps_refl.
  - (* PUBLISH *)
    destruct (has_wild topic); [apply keeps_refl|].
    match goal with |- context [if ?b then HErrRead s (Some 148) else _] => destruct b end; [apply keeps_refl|].
    match goal with |- context [if ?b then HErrRead s (Some 130) else _] => destruct b end; [apply keeps_refl|].
    match goal with |- context [if ?b then HErrRead s (Some 147) else _] => destruct b end; [apply keeps_refl|].
    eapply keeps_trans_nil_l; [|apply handle_publish_keeps]. now apply keeps_same.
  - (* PUBREL *)
    cbv zeta. cbn [hres_st hres_out]. apply keeps_nil.
    match goal with |- keeps cid s (match nget c (b_conns ?S) with _ => _ end) _ =>
      apply (keeps_trans_nil_l cid s S); [now apply keeps_same|];
      apply (bump_quota_keeps cid c S [] (fun k1 => (k_v k =? 5) && (k_quota k1 <? k_recv_max k1))) end.
  - (* SUBSCRIBE *)
    match goal with |- context [if ?b then handle_subscribe _ _ _ _ _ _ else _] => destruct b end; [|apply keeps_refl].
    apply handle_subscribe_keeps.
  - (* UNSUBSCRIBE *)
    unfold handle_unsubscribe. cbn [hres_st hres_out]. now apply keeps_same.
  - (* DISCONNECT *)
    destruct (k_v k =? 5).
    + cbv zeta. destruct (aget (k_cid k) (b_sessions s)) as [se|]; [|apply keeps_refl].
      match goal with |- context [if ?b then HErr s [] None else _] => destruct b end; [apply keeps_refl|].
      cbn [hres_st hres_out]. apply keeps_same; destruct (p_sei props) as [x|]; try reflexivity; destruct (x =? 0); reflexivity.
    + cbn [hres_st hres_out]. now apply keeps_same.
Qed.

Lemma send_unconnected_keeps cid c k p s : keeps cid s (fst (send_unconnected c k p s)) (snd (send_unconnected c k p s)).
Proof.
  unfold send_unconnected. destruct (k_phase k); try apply keeps_refl.
  - cbn [fst snd]. now apply keeps_same.
  - destruct p; try apply keeps_refl. destruct ((k_v k =? 5) && (0 <? qos)); [|apply keeps_refl].
    destruct (k_quota k =? 0); [apply conn_gone_keeps|]. cbn [fst snd]. now apply keeps_same.
  - destruct p; try apply keeps_refl. destruct ((k_v k =? 5) && (0 <? qos)); [|apply keeps_refl]. apply conn_gone_keeps.
Qed.

(* ------------------------------------------------------------------ *)
(* 7. the acknowledgements                                             *)
(* ------------------------------------------------------------------ *)

(* (a) the acknowledgement that completes the exchange: PUBACK, PUBCOMP, (v5) PUBREC with a code >= 128 *)
Definition final_ack (v : N) (p : pkt) : option N :=
  match p with
  | KPuback pid _ _ | KPubcomp pid _ _ => Some pid
  | KPubrec pid code _ => if (v =? 5) && (128 <=? code) then Some pid else None
  | _ => None
  end.

(* a PUBREC that continues the exchange: the PUBLISH entry becomes a PUBREL entry *)
Definition pubrec_ok (v : N) (p : pkt) : option N :=
  match p with
  | KPubrec pid code _ => if (v =? 5) && (128 <=? code) then None else Some pid
  | _ => None
  end.

Lemma is_ack_split v p pid : is_ack p = Some pid -> final_ack v p = Some pid \/ pubrec_ok v p = Some pid.
Proof.
  destruct p; cbn [is_ack final_ack pubrec_ok]; try discriminate; intros H; auto.
  destruct ((v =? 5) && (128 <=? code)); auto.
Qed.

Lemma queue_op_queue cid cid' f s q :
  aget cid (b_queues s) = Some q ->
  aget cid (b_queues (queue_op cid' f s)) = Some (if str_eqb cid cid' then f q else q).
Proof.
  intros Hq. unfold queue_op. destruct (str_eqb_spec cid cid') as [<-|Hne].
  - rewrite Hq. cbn [set_queues b_queues]. apply aget_aset_eq.
  - destruct (aget cid' (b_queues s)); [|exact Hq]. cbn [set_queues b_queues]. now rewrite aget_aset_ne.
Qed.

Lemma release_id_queues c pid s : b_queues (release_id c pid s) = b_queues s.
Proof. unfold release_id. destruct (nget c (b_conns s)); reflexivity. Qed.
Lemma release_id_now c pid s : b_now (release_id c pid s) = b_now s.
Proof. unfold release_id. destruct (nget c (b_conns s)); reflexivity. Qed.
Lemma queue_op_now cid f s : b_now (queue_op cid f s) = b_now s.
Proof. unfold queue_op. destruct (aget cid (b_queues s)); reflexivity. Qed.

(* an acknowledgement is handled without error, without a drop, and the entry it names is the only one to go *)
Lemma ack_track cid c k p pid s q d :
  is_ack p = Some pid -> aget cid (b_queues s) = Some q -> In d (q_inf q) ->
  exists s1 o1 q1, handle_packet c k p s = HOk s1 o1 /\ b_now s1 = b_now s /\ b_online s1 = b_online s /\
    aget cid (b_queues s1) = Some q1 /\
    (In d (q_inf q1) \/
     (cid = k_cid k /\ e_id d = pid /\
      (final_ack (k_v k) p = Some pid \/
       (pubrec_ok (k_v k) p = Some pid /\ exists d1, In d1 (q_inf q1) /\ rkey d1 = inr pid)))).
Proof.
  intros Hack Hq Hd.
  assert (Hrem : forall s1, s1 = release_id c pid (queue_op (k_cid k) (fun q => fst (q_remove pid q)) s) ->
            b_now s1 = b_now s /\ b_online s1 = b_online s /\
            exists q1, aget cid (b_queues s1) = Some q1 /\ (In d (q_inf q1) \/ (cid = k_cid k /\ e_id d = pid))).
  { intros s1 ->. rewrite release_id_now, queue_op_now. split; [reflexivity|]. split.
    { rewrite (fr_on _ _ (release_id_frame c pid _)). apply (fr_on _ _ (queue_op_frame _ _ s)). }
    rewrite release_id_queues, (queue_op_queue cid (k_cid k) _ s q Hq). eexists. split; [reflexivity|].
    destruct (str_eqb_spec cid (k_cid k)) as [E|E]; [|now left].
    destruct (q_remove_keeps pid q d Hd) as [H|H]; [now left|right; auto]. }
  destruct p; cbn [is_ack] in Hack; try discriminate; inversion Hack; subst pid0; cbn [handle_packet final_ack pubrec_ok].
  - destruct (Hrem _ eq_refl) as (E1 & E2 & q1 & Hq1 & H). do 3 eexists. split; [reflexivity|]. split; [exact E1|].
    split; [exact E2|]. split; [exact Hq1|]. destruct H as [H|[H1 H2]]; [now left|right; auto].
  - destruct ((k_v k =? 5) && (128 <=? code)) eqn:Ec.
    + destruct (Hrem _ eq_refl) as (E1 & E2 & q1 & Hq1 & H). do 3 eexists. split; [reflexivity|]. split; [exact E1|].
      split; [exact E2|]. split; [exact Hq1|]. destruct H as [H|[H1 H2]]; [now left|right; auto].
    + set (e := {| e_tag := 0; e_at := b_now s; e_expiry := None; e_body := QRel pid |}).
      do 3 eexists. split; [reflexivity|]. rewrite queue_op_now. split; [reflexivity|].
      split; [apply (fr_on _ _ (queue_op_frame _ _ s))|].
      rewrite (queue_op_queue cid (k_cid k) _ s q Hq). split; [reflexivity|].
      destruct (str_eqb_spec cid (k_cid k)) as [E|E]; [|now left].
      destruct (q_replace_keeps e q d Hd) as [H|[H1 H2]]; [now left|right].
      split; [exact E|]. split; [exact H1|]. right. split; [reflexivity|]. exists e. split; [exact H2|reflexivity].
  - destruct (Hrem _ eq_refl) as (E1 & E2 & q1 & Hq1 & H). do 3 eexists. split; [reflexivity|]. split; [exact E1|].
    split; [exact E2|]. split; [exact Hq1|]. destruct H as [H|[H1 H2]]; [now left|right; auto].
Qed.

(* ------------------------------------------------------------------ *)
(* 8. CONNECT                                                          *)
(* ------------------------------------------------------------------ *)

Lemma hc_auto_keeps cid cn s o : keeps cid s (hc_auto cn s) o.
Proof. unfold hc_auto. destruct (is_empty (cn_cid cn)); [now apply keeps_same|apply keeps_refl]. Qed.

Lemma hc_takeover_keeps cid cid' s : keeps cid s (fst (hc_takeover cid' s)) (snd (hc_takeover cid' s)).
Proof. unfold hc_takeover. destruct (aget cid' (b_online s)); [apply conn_gone_keeps|apply keeps_refl]. Qed.

(* resuming keeps the entries of the queue (Init(cleanStart = false)); discarding the session removes the queue *)
Lemma hc_old_keeps cid cid' v5 cmax r0 s o : keeps cid s (fst (fst (hc_old cid' v5 cmax r0 s))) o.
Proof.
  unfold hc_old. destruct (aget cid' (b_sessions s)) as [se|]; [|apply keeps_refl].
  destruct r0.
  - destruct (aget cid' (b_queues s)) as [q|] eqn:Eq; [|apply keeps_refl].
    destruct (aget cid' (b_unacks s)) as [u|]; [|apply keeps_refl].
    cbn [fst snd]. split; [reflexivity|]. cbn [set_tables b_queues].
    apply (qkeep_aset cid _ _ cid' q _ _ Eq). intros _ d Hd. left. now rewrite q_inf_init_keep.
  - cbv zeta. destruct (aget cid' (b_wills (remove_session cid' s))) as [[w t]|]; cbn [fst snd].
    + apply keeps_nil. apply (keeps_trans_nil_l cid s (remove_session cid' s)); [apply remove_session_keeps|now apply keeps_same].
    + apply remove_session_keeps.
Qed.

(* the fresh queue of a new session: only the client that connects is concerned *)
Lemma hc_fresh_keeps cid cid' v5 cmax cf resume s o :
  cid <> cid' \/ resume = true -> keeps cid s (hc_fresh cid' v5 cmax cf resume s) o.
Proof.
  intros H. unfold hc_fresh. destruct resume; [apply keeps_refl|]. destruct H as [H|H]; [|discriminate].
  split; [reflexivity|]. cbn [set_tables b_queues]. apply qkeep_aset_other. intros E. apply H. now symmetry.
Qed.

(* the Session Present flag of the CONNACK *)
Definition hc_resumed (cn : connect) (s : st) : bool :=
  let cid := hc_cid cn s in
  let s1 := fst (hc_takeover cid (hc_auto cn s)) in
  snd (hc_old cid (cn_ver cn =? 5) (hc_cmax cn) (hc_resume0 cid cn s1) s1).

Lemma hc_accept_out c cn s :
  In (OSend c (KConnack (hc_resumed cn s) 0 (hc_props (hc_cid cn s) cn (b_cfg s)))) (snd (hc_accept c cn s)) /\
  aget (hc_cid cn s) (b_online (fst (hc_accept c cn s))) = Some c.
Proof.
  unfold hc_accept, hc_resumed. cbv zeta. set (cid := hc_cid cn s).
  destruct (hc_takeover cid (hc_auto cn s)) as [s1 o_dup]. cbn [fst].
  destruct (hc_old cid (cn_ver cn =? 5) (hc_cmax cn) (hc_resume0 cid cn s1) s1) as [[s2 o_will] resume]. cbn [snd].
  destruct (hc_wd_exp cn (b_cfg s)) as [wd ex].
  match goal with |- context [hc_wills o_will ?S] =>
    pose proof (hc_wills_quiet o_will S) as [F5 _]; set (s4 := S) in *; destruct (hc_wills o_will s4) as [s5 o_w] end.
  cbn [fst snd] in *. split.
  - apply in_or_app. right. now left.
  - rewrite (fr_on _ _ F5). unfold s4, hc_register. cbn [set_tables b_online]. apply aget_aset_eq.
Qed.

Lemma hc_accept_keeps cid c cn s :
  cid <> hc_cid cn s \/ hc_resumed cn s = true ->
  keeps cid s (fst (hc_accept c cn s)) (snd (hc_accept c cn s)).
Proof.
  unfold hc_accept, hc_resumed. cbv zeta. set (cidt := hc_cid cn s). intros Hc.
  pose proof (hc_takeover_keeps cid cidt (hc_auto cn s)) as K1.
  destruct (hc_takeover cidt (hc_auto cn s)) as [s1 o_dup]. cbn [fst snd] in *.
  pose proof (hc_old_keeps cid cidt (cn_ver cn =? 5) (hc_cmax cn) (hc_resume0 cidt cn s1) s1 []) as K2.
  destruct (hc_old cidt (cn_ver cn =? 5) (hc_cmax cn) (hc_resume0 cidt cn s1) s1) as [[s2 o_will] resume].
  cbn [fst snd] in *.
  pose proof (hc_fresh_keeps cid cidt (cn_ver cn =? 5) (hc_cmax cn) (b_cfg s) resume s2 [] Hc) as K3.
  set (s3 := hc_fresh cidt (cn_ver cn =? 5) (hc_cmax cn) (b_cfg s) resume s2) in *.
  destruct (hc_wd_exp cn (b_cfg s)) as [wd ex].
  match goal with |- context [hc_wills o_will ?S] =>
    pose proof (hc_wills_keeps cid o_will S) as K5; set (s4 := S) in *; destruct (hc_wills o_will s4) as [s5 o_w] end.
  cbn [fst snd] in *.
  assert (K4 : keeps cid s3 s4 []) by (now apply keeps_same).
  apply (keeps_trans_nil_l cid s (hc_auto cn s)); [apply hc_auto_keeps|].
  eapply keeps_trans; [exact K1|]. eapply keeps_weaken; [apply dsub_app_r|].
  eapply keeps_trans_nil_l; [exact K2|]. eapply keeps_trans_nil_l; [exact K3|]. eapply keeps_trans_nil_l; [exact K4|exact K5].
Qed.

(* a CONNECT keeps the queue of cid, or it is a CONNECT of cid answered with Session Present = 0 *)
Lemma handle_connect_track cid c cn s :
  keeps cid s (fst (handle_connect c cn s)) (snd (handle_connect c cn s)) \/
  (exists props, aget cid (b_online (fst (handle_connect c cn s))) = Some c /\
                 In (OSend c (KConnack false 0 props)) (snd (handle_connect c cn s))).
Proof.
  rewrite handle_connect_eq.
  destruct (negb (c_allow_zero_len (b_cfg s)) && is_empty (cn_cid cn)); [left; cbn [fst snd]; now apply keeps_same|].
  destruct (negb (hc_code cn s =? 0)); [left; cbn [fst snd]; now apply keeps_same|].
  destruct (str_dec cid (hc_cid cn s)) as [E|E]; [|left; apply hc_accept_keeps; now left].
  destruct (hc_resumed cn s) eqn:Er; [left; apply hc_accept_keeps; now right|].
  right. destruct (hc_accept_out c cn s) as [H1 H2]. rewrite Er in H1. subst cid. eauto.
Qed.

(* ------------------------------------------------------------------ *)
(* 9. the event part of a step                                         *)
(* ------------------------------------------------------------------ *)

Definition ev_packet (e : event) : option (N * pkt) :=
  match e with ESend c p | ESendSz c p _ => Some (c, p) | _ => None end.

(* the packet p arrives on the socket c that the session of cid is attached to *)
Definition on_socket_of (s : st) (cid : str) (c : N) (k : conn) : Prop :=
  nget c (b_conns s) = Some k /\ k_phase k = PhConnected /\ k_cid k = cid /\ aget cid (b_online s) = Some c.

(* (a) *)
Definition acked_by (s : st) (e : event) (cid : str) (pid : N) : Prop :=
  exists c p k, ev_packet e = Some (c, p) /\ on_socket_of s cid c k /\ final_ack (k_v k) p = Some pid.

Definition pubrec_by (s : st) (e : event) (cid : str) (pid : N) : Prop :=
  exists c p k, ev_packet e = Some (c, p) /\ on_socket_of s cid c k /\ pubrec_ok (k_v k) p = Some pid.

(* (c), when the queue is there again after the step: a CONNECT of cid answered with Session Present = 0 *)
Definition sess_restart (cid : str) (e : event) (s' : st) (o : list out) : Prop :=
  exists c cn props, e = EConnect c cn /\ aget cid (b_online s') = Some c /\ In (OSend c (KConnack false 0 props)) o.

(* the entry d is still in flight as d' *)
Definition still_inflight (s : st) (e : event) (cid : str) (d d' : elem) : Prop :=
  rkey d' = rkey d \/ (rkey d' = inr (e_id d) /\ pubrec_by s e cid (e_id d)).

Definition track_res (s : st) (e : event) (cid : str) (d : elem) (s1 : st) (o1 : list out) : Prop :=
  (exists q1 d1, aget cid (b_queues s1) = Some q1 /\ In d1 (q_inf q1) /\ still_inflight s e cid d d1) \/
  acked_by s e cid (e_id d) \/
  xdrop cid (b_now s1) o1 d \/
  aget cid (b_queues s1) = None \/
  sess_restart cid e s1 o1.

Lemma keeps_conclude cid s0 s1 o1 s e q d :
  keeps cid s0 s1 o1 -> b_queues s0 = b_queues s -> NoDup (keys (b_queues s)) ->
  aget cid (b_queues s) = Some q -> In d (q_inf q) -> track_res s e cid d s1 o1.
Proof.
  intros [Hnow (_ & _ & H3)] Hqs Hnd Hq Hd. rewrite Hqs in H3. unfold track_res.
  destruct (aget cid (b_queues s1)) as [q1|] eqn:Hq1; [|right; right; right; now left].
  destruct (H3 Hnd q q1 d Hq eq_refl Hd) as [H|H].
  - left. exists q1, d. split; [reflexivity|]. split; [exact H|now left].
  - right. right. left. now rewrite Hnow.
Qed.

Lemma step_send_track s c p cid q d :
  J false s -> NoDup (keys (b_queues s)) -> aget cid (b_queues s) = Some q -> In d (q_inf q) ->
  forall e, ev_packet e = Some (c, p) ->
  track_res s e cid d (fst (step_event s (ESend c p))) (snd (step_event s (ESend c p))).
Proof.
  intros HJ Hnd Hq Hd e He. cbn [step_event].
  destruct (nget c (b_conns s)) as [k|] eqn:Hk; [|apply (keeps_conclude cid s s [] s e q d); auto using keeps_refl].
  assert (Hun : track_res s e cid d (fst (send_unconnected c k p s)) (snd (send_unconnected c k p s))).
  { apply (keeps_conclude cid s _ _ s e q d); auto. apply send_unconnected_keeps. }
  destruct (k_phase k) eqn:Ep; try exact Hun. clear Hun.
  destruct (is_ack p) as [pid|] eqn:Hack.
  - destruct (ack_track cid c k p pid s q d Hack Hq Hd) as (s1 & o1 & q1 & -> & Hnow & Hon & Hq1 & H).
    cbn [fst snd]. destruct H as [H|(Ecid & Eid & H)].
    + left. exists q1, d. split; [exact Hq1|]. split; [exact H|now left].
    + assert (Hsock : on_socket_of s cid c k).
      { split; [exact Hk|]. split; [exact Ep|]. split; [now symmetry|].
        destruct (j_poll _ _ HJ c k Hk (or_introl Ep)) as (k0 & _ & _ & _ & Hk0 & _ & Hon0 & _).
        rewrite Hk in Hk0. inversion Hk0; subst k0. now rewrite Ecid. }
      destruct H as [H|[H (d1 & Hd1 & Hr)]].
      * right. left. exists c, p, k. rewrite Eid. auto.
      * left. exists q1, d1. split; [exact Hq1|]. split; [exact Hd1|]. right. rewrite Eid. split; [exact Hr|].
        exists c, p, k. auto.
  - pose proof (handle_packet_keeps cid c k p s Hack) as K.
    destruct (handle_packet c k p s) as [s' o|s' o code|s' code]; cbn [hres_st hres_out fst snd] in *.
    + apply (keeps_conclude cid s _ _ s e q d); auto.
    + pose proof (fail_conn_keeps cid c code false s') as K2. destruct (fail_conn c code false s') as [s'' o'].
      cbn [fst snd] in *. apply (keeps_conclude cid s _ _ s e q d); auto. eapply keeps_trans; eauto.
    + apply (keeps_conclude cid s _ _ s e q d); auto. eapply keeps_trans_nil_l; [exact K|apply fail_conn_keeps].
Qed.

Lemma expire_keeps cid : forall (l : list (str * N)) s o, keeps cid s (fold_left (fun s0 cd => remove_session (fst cd) s0) l s) o.
Proof.
  induction l as [|cd r IH]; intros s o; cbn [fold_left]; [apply keeps_refl|].
  apply keeps_nil. eapply keeps_trans_nil_l; [apply (remove_session_keeps cid (fst cd) s)|apply IH].
Qed.

Lemma step_event_track s e cid q d :
  BInv s -> J false s -> aget cid (b_queues s) = Some q -> In d (q_inf q) ->
  track_res s e cid d (fst (step_event s e)) (snd (step_event s e)).
Proof.
  intros HI HJ Hq Hd. pose proof (bi_nd_q _ _ HI) as Hnd.
  assert (HK : forall s1 o1, keeps cid s s1 o1 -> track_res s e cid d s1 o1)
    by (intros s1 o1 K; apply (keeps_conclude cid s s1 o1 s e q d); auto).
  destruct e as [c cn|c|c p|c p n|c|m|cid'|ms| |ms|].
  - (* EConnect *)
    cbn [step_event]. pose proof (conn_gone_keeps cid c s) as K0. destruct (conn_gone c s) as [s0 o0]. cbn [fst snd] in K0.
    destruct (handle_connect_track cid c cn s0) as [K1|(props & H1 & H2)];
      destruct (handle_connect c cn s0) as [s1 o1]; cbn [fst snd] in *.
    + apply HK. eapply keeps_trans; [|exact K1]. eapply keeps_weaken; [|exact K0]. now apply dsub_filter.
    + right. right. right. right. exists c, cn, props. split; [reflexivity|]. split; [exact H1|]. apply in_or_app. now right.
  - (* EOpen *)
    cbn [step_event]. pose proof (conn_gone_keeps cid c s) as K0. destruct (conn_gone c s) as [s0 o0]. cbn [fst snd] in *.
    apply HK. eapply keeps_trans_nil_r; [exact K0|now apply keeps_same].
  - (* ESend *)
    now apply (step_send_track s c p cid q d HJ Hnd Hq Hd).
  - (* ESendSz *)
    destruct (step_event_sz s c p n) as [E|(k & Hk & Hp & _ & [[code E]|[E|[q0 E]]])]; rewrite E.
    + now apply (step_send_track s c p cid q d HJ Hnd Hq Hd).
    + apply HK, fail_conn_keeps.
    + apply HK, fail_conn_keeps.
    + apply HK. eapply keeps_trans_nil_l; [|apply fail_conn_keeps]. now apply keeps_same.
  - (* EClose *)
    cbn [step_event]. pose proof (conn_gone_keeps cid c s) as K0. destruct (conn_gone c s) as [s0 o0]. cbn [fst snd] in *.
    apply HK. eapply keeps_weaken; [|exact K0]. now apply dsub_filter.
  - (* EApiPublish *)
    cbn [step_event]. pose proof (deliver_keeps cid [] m s) as K0. destruct (deliver [] m s) as [[s' o] b]. cbn [fst snd] in *.
    now apply HK.
  - (* ETerminate *)
    cbn [step_event]. destruct (aget cid' (b_online s)) as [c|].
    + destruct (nget c (b_conns s)) as [k|]; [|apply HK, keeps_refl].
      apply HK. eapply keeps_trans_nil_l; [|apply conn_gone_keeps]. now apply keeps_same.
    + destruct (ahas cid' (b_offline s)); [|apply HK, keeps_refl].
      apply HK. eapply keeps_trans_nil_l; [apply (remove_session_keeps cid cid' s)|apply release_will_keeps].
  - (* EAdvance *)
    cbn [step_event fst snd]. left. exists q, d. split; [exact Hq|]. split; [exact Hd|now left].
  - (* EExpireCheck *)
    cbn [step_event]. apply HK.
    match goal with |- context [fold_left ?f ?l (?S, [])] => set (s1 := S); set (F := f); set (L := l) end.
    apply (keeps_trans_nil_l cid s s1); [apply expire_keeps|].
    apply fold_keeps. intros s0 o0 cd. exists (release_will (fst cd) s0).
    pose proof (release_will_keeps cid (fst cd) s0) as H. unfold F. destruct (release_will (fst cd) s0). cbn [fst snd] in *. auto.
  - (* ESleep *)
    cbn [step_event]. set (s0 := set_time (b_now s + ms) (b_rt s + ms) s).
    match goal with |- context [fold_left ?f (b_conns s0) (s0, [])] =>
      assert (K1 : keeps cid s0 (fst (fold_left f (b_conns s0) (s0, []))) (snd (fold_left f (b_conns s0) (s0, []))));
      [|destruct (fold_left f (b_conns s0) (s0, [])) as [s1 o1]] end.
    { apply fold_keeps. intros sa oa ck.
      assert (Hno : exists r : st * list out, (sa, oa) = (fst r, oa ++ snd r) /\ keeps cid sa (fst r) (snd r))
        by (exists (sa, []); cbn [fst snd]; rewrite app_nil_r; split; [reflexivity|apply keeps_refl]).
      destruct (k_phase (snd ck)); try exact Hno;
        (match goal with |- context [if ?b then _ else _] => destruct b end; [|exact Hno]);
        exists (conn_gone (fst ck) sa); pose proof (conn_gone_keeps cid (fst ck) sa) as H;
        destruct (conn_gone (fst ck) sa); cbn [fst snd] in *; auto. }
    cbn [fst snd] in K1. pose proof (fire_wills_keeps cid s1) as K2. destruct (fire_wills s1) as [s2 o2]. cbn [fst snd] in *.
    apply (keeps_conclude cid s0 s2 (o1 ++ o2) s _ q d); auto. eapply keeps_trans; eauto.
  - (* EInspect *)
    cbn [step_event fst snd]. apply HK, keeps_refl.
Qed.

(* ------------------------------------------------------------------ *)
(* 10. the poll loops of the step                                      *)
(* ------------------------------------------------------------------ *)

Lemma poll_once_none w c s s' o cid :
  AllPoll w s -> poll_once c s = Some (s', o) -> aget cid (b_queues s) = None -> aget cid (b_queues s') = None.
Proof.
  intros HA Hp Hn.
  destruct (nget c (b_conns s)) as [k|] eqn:Hk; [|rewrite (poll_once_absent c s Hk) in Hp; discriminate].
  destruct (attached_dec k) as [Hat|Hna]; [|rewrite (poll_once_detached c s k Hk Hna) in Hp; discriminate].
  pose proof (HA c k Hk Hat) as (k0 & q & inf & que & Hk0 & Hq & _ & _ & _ & HCQ).
  rewrite Hk in Hk0. inversion Hk0; subst k0. clear Hk0.
  destruct (poll_once_cases w c s s' o k q inf que Hk Hq HCQ Hp) as (_ & _ & _ & _ & Hqueues & _).
  rewrite Hqueues; [exact Hn|]. intros ->. congruence.
Qed.

Lemma poll_conn_none w c cid : forall fuel s, AllPoll w s -> aget cid (b_queues s) = None ->
  AllPoll w (fst (poll_conn fuel c s)) /\ aget cid (b_queues (fst (poll_conn fuel c s))) = None.
Proof.
  induction fuel as [|f IH]; intros s HA Hn; cbn [poll_conn]; [auto|].
  destruct (poll_once c s) as [[s' o]|] eqn:Hp; [|auto].
  pose proof (poll_once_AllPoll w c s s' o HA Hp) as HA'. pose proof (poll_once_none w c s s' o cid HA Hp Hn) as Hn'.
  destruct (IH s' HA' Hn') as [H1 H2]. destruct (poll_conn f c s') as [s'' o']. auto.
Qed.

Lemma poll_all_none w s cid : AllPoll w s -> aget cid (b_queues s) = None -> aget cid (b_queues (fst (poll_all s))) = None.
Proof.
  intros HA Hn. unfold poll_all.
  apply (fold_pair_inv (fun s0 => AllPoll w s0 /\ aget cid (b_queues s0) = None)); [|auto].
  intros s0 o0 ck [H0 N0]. destruct (poll_conn_none w (fst ck) cid 400 s0 H0 N0) as [H1 N1].
  destruct (poll_conn 400 (fst ck) s0) as [s1 o1]. auto.
Qed.

Lemma inflight_ext_in s s' cid q d :
  inflight_ext s s' -> aget cid (b_queues s) = Some q -> In d (q_inf q) ->
  exists q' d', aget cid (b_queues s') = Some q' /\ In d' (q_inf q') /\ rkey d' = rkey d /\
                (length (q_inf q) <= length (q_inf q'))%nat.
Proof.
  intros HE Hq Hd. destruct (HE cid q Hq) as (q' & l & Hq' & E).
  assert (Hin : In (rkey d) (map rkey (q_inf q'))) by (rewrite E; apply in_or_app; left; now apply in_map).
  apply in_map_iff in Hin. destruct Hin as (d' & Hr & Hd'). exists q', d'. repeat split; auto.
  apply (f_equal (@length _)) in E. rewrite app_length, !map_length in E. lia.
Qed.

(* the alternatives (a), (b), (c) are stable under the poll phase *)
Definition track_bad (s : st) (e : event) (cid : str) (d : elem) (s1 : st) (o1 : list out) : Prop :=
  acked_by s e cid (e_id d) \/ xdrop cid (b_now s1) o1 d \/ aget cid (b_queues s1) = None \/ sess_restart cid e s1 o1.

Lemma track_bad_poll s e cid d s1 o1 :
  AllPoll false s1 -> track_bad s e cid d s1 o1 ->
  track_bad s e cid d (fst (poll_all s1)) (o1 ++ snd (poll_all s1)).
Proof.
  intros HA. pose proof (BrokerQos2P.poll_all_frame s1) as [F _]. unfold track_bad.
  intros [H|[H|[H|(c & cn & props & H1 & H2 & H3)]]].
  - now left.
  - right. left. rewrite (BrokerQos2P.df_now _ _ F). eapply xdrop_mono; [apply dsub_app_l|exact H].
  - right. right. left. now apply (poll_all_none false).
  - right. right. right. exists c, cn, props. split; [exact H1|]. rewrite (BrokerQos2P.df_online _ _ F).
    split; [exact H2|]. apply in_or_app. now left.
Qed.

(* ------------------------------------------------------------------ *)
(* 11. Theorem 1: an in-flight entry leaves only by (a), (b), (c)      *)
(* ------------------------------------------------------------------ *)

Theorem inflight_leaves_only_by s e s' o cid q d :
  GInv false s -> wb false s e = true -> step s e = (s', o) ->
  aget cid (b_queues s) = Some q -> In d (q_inf q) ->
  (exists q' d', aget cid (b_queues s') = Some q' /\ In d' (q_inf q') /\ still_inflight s e cid d d') \/
  acked_by s e cid (e_id d) \/
  xdrop cid (b_now s') o d \/
  aget cid (b_queues s') = None \/
  sess_restart cid e s' o.
Proof.
  intros [HI HJ] Hwb Hstep Hq Hd.
  pose proof (step_event_J false s e HI HJ Hwb) as HJ1.
  pose proof (step_event_track s e cid q d HI HJ Hq Hd) as HT.
  unfold step in Hstep. destruct (step_event s e) as [s1 o1]. cbn [fst snd] in *.
  pose proof (poll_all_inflight_ext false s1 (j_poll _ _ HJ1)) as HE.
  pose proof (track_bad_poll s e cid d s1 o1 (j_poll _ _ HJ1)) as HB.
  destruct (poll_all s1) as [s2 o2]. cbn [fst snd] in *. inversion Hstep; subst s' o. clear Hstep.
  destruct HT as [(q1 & d1 & Hq1 & Hd1 & Hs)|HT]; [|right; apply HB; exact HT].
  left. destruct (inflight_ext_in s1 s2 cid q1 d1 HE Hq1 Hd1) as (q2 & d2 & Hq2 & Hd2 & Hr & _).
  exists q2, d2. split; [exact Hq2|]. split; [exact Hd2|]. unfold still_inflight in *. rewrite Hr. exact Hs.
Qed.

(* the form of the task statement: the queue of cid exists before and after the step *)
Corollary inflight_leaves_only_by_both s e s' o cid q q' d :
  GInv false s -> wb false s e = true -> step s e = (s', o) ->
  aget cid (b_queues s) = Some q -> aget cid (b_queues s') = Some q' -> In d (q_inf q) ->
  (exists d', In d' (q_inf q') /\ still_inflight s e cid d d') \/
  acked_by s e cid (e_id d) \/ xdrop cid (b_now s') o d \/ sess_restart cid e s' o.
Proof.
  intros HG Hwb Hs Hq Hq' Hd.
  destruct (inflight_leaves_only_by s e s' o cid q d HG Hwb Hs Hq Hd) as [(q2 & d2 & H1 & H2 & H3)|[H|[H|[H|H]]]]; auto.
  - left. rewrite Hq' in H1. inversion H1; subst q2. eauto.
  - congruence.
Qed.

(* ------------------------------------------------------------------ *)
(* 12. along a run: undisturbed entries stay in flight                 *)
(* ------------------------------------------------------------------ *)

(* one of (a), (b), (c) happens to the in-flight entry with packet id pid of cid's queue in the step of e *)
Definition disturbed (cid : str) (pid : N) (s : st) (e : event) : Prop :=
  acked_by s e cid pid \/
  (exists q d, aget cid (b_queues s) = Some q /\ In d (q_inf q) /\ e_id d = pid /\
               xdrop cid (b_now (fst (step s e))) (snd (step s e)) d) \/
  aget cid (b_queues (fst (step s e))) = None \/
  sess_restart cid e (fst (step s e)) (snd (step s e)).

Fixpoint undisturbed (cid : str) (pid : N) (s : st) (es : list event) : Prop :=
  match es with
  | [] => True
  | e :: r => ~ disturbed cid pid s e /\ undisturbed cid pid (fst (step s e)) r
  end.

Lemma undisturbed_app cid pid : forall a s b,
  undisturbed cid pid s (a ++ b) <-> undisturbed cid pid s a /\ undisturbed cid pid (fst (run s a)) b.
Proof.
  induction a as [|e r IH]; intros s b; cbn [app undisturbed run fst]; [tauto|].
  rewrite IH. destruct (step s e) as [s1 o1]. cbn [fst]. destruct (run s1 r) as [s2 os]. cbn [fst]. tauto.
Qed.

Lemma still_inflight_id s e cid d d' : still_inflight s e cid d d' -> e_id d' = e_id d.
Proof.
  intros [H|[H _]]; [now apply rkey_id|]. unfold rkey, e_id in *. destruct (e_body d'); inversion H. reflexivity.
Qed.

Theorem undisturbed_stays_inflight cid : forall es s q d,
  GInv false s -> run_wb false s es = true -> aget cid (b_queues s) = Some q -> In d (q_inf q) ->
  undisturbed cid (e_id d) s es ->
  exists q' d', aget cid (b_queues (fst (run s es))) = Some q' /\ In d' (q_inf q') /\
                (rkey d' = rkey d \/ rkey d' = inr (e_id d)).
Proof.
  induction es as [|e r IH]; intros s q d HG Hwb Hq Hd Hu; cbn [run fst].
  - exists q, d. auto.
  - cbn [run_wb] in Hwb. apply andb_true_iff in Hwb. destruct Hwb as [Hwb1 Hwb2].
    cbn [undisturbed] in Hu. destruct Hu as [Hnd Hu].
    pose proof (step_GInv false s e HG Hwb1) as HG1.
    destruct (step s e) as [s1 o1] eqn:Hstep. cbn [fst snd] in *.
    destruct (inflight_leaves_only_by s e s1 o1 cid q d HG Hwb1 Hstep Hq Hd) as [(q1 & d1 & Hq1 & Hd1 & Hs)|Hbad].
    + pose proof (still_inflight_id _ _ _ _ _ Hs) as Eid. rewrite <- Eid in Hu.
      destruct (IH s1 q1 d1 HG1 Hwb2 Hq1 Hd1 Hu) as (q' & d' & Hq' & Hd' & Hk).
      destruct (run s1 r) as [s2 os]. cbn [fst] in *. exists q', d'. split; [exact Hq'|]. split; [exact Hd'|].
      rewrite Eid in Hk. destruct Hs as [Hs|[Hs _]]; destruct Hk as [Hk|Hk]; rewrite ?Hs in Hk; auto.
    + exfalso. apply Hnd. unfold disturbed. rewrite Hstep. cbn [fst snd].
      destruct Hbad as [H|[H|[H|H]]]; auto. right. left. exists q, d. auto.
Qed.

(* ------------------------------------------------------------------ *)
(* 13. the step of a resuming CONNECT retransmits what is in flight    *)
(* ------------------------------------------------------------------ *)

(* no first transmission (DUP = 0 PUBLISH) to socket c *)
Definition all_dup1_to (c : N) (o : list out) : Prop :=
  forall dup qos ret t pl pid ps, In (OSend c (KPublish dup qos ret t pl pid ps)) o -> dup = true.

Definition notto (c : N) (x : out) : Prop := match x with OSend c' _ => c' <> c | _ => True end.

Lemma okout_notto c c2 o : c2 <> c -> Forall (okout c2) o -> Forall (notto c) o.
Proof. intros Hne. apply Forall_impl. intros [c' p|c'|cid m r]; cbn; auto. now intros ->. Qed.

Lemma notto_dup1 c o : Forall (notto c) o -> all_dup1_to c o.
Proof. intros H dup qos ret t pl pid ps Hin. rewrite Forall_forall in H. apply H in Hin. cbn in Hin. congruence. Qed.

Lemma all_dup1_app c a b : all_dup1_to c a -> all_dup1_to c b -> all_dup1_to c (a ++ b).
Proof. intros Ha Hb dup qos ret t pl pid ps Hin. apply in_app_or in Hin. destruct Hin; eauto. Qed.

Lemma retrans_dup1 c l o : Forall2 (is_retrans c) l o -> all_dup1_to c o.
Proof.
  intros H. induction H as [|e x l o Hx H IH]; [intros ? ? ? ? ? ? ? []|].
  intros dup qos ret t pl pid ps [Hin|Hin]; [|eapply IH; eauto]. subst x. unfold is_retrans in Hx.
  destruct (e_body e) as [m|p]; [|discriminate]. destruct Hx as (topic & props & Hx & _). now inversion Hx.
Qed.

(* the event part of a CONNECT writes one CONNACK and nothing else *)
Lemma handle_connect_one_connack c cn s :
  exists sp code props, forall x, In x (snd (handle_connect c cn s)) -> nosend x \/ x = OSend c (KConnack sp code props).
Proof.
  rewrite handle_connect_eq.
  destruct (negb (c_allow_zero_len (b_cfg s)) && is_empty (cn_cid cn)); [do 3 eexists; intros x [<-|[]]; right; reflexivity|].
  destruct (negb (hc_code cn s =? 0)); [do 3 eexists; intros x [<-|[]]; right; reflexivity|].
  unfold hc_accept. cbv zeta.
  pose proof (hc_takeover_nosend (hc_cid cn s) (hc_auto cn s)) as H1.
  destruct (hc_takeover (hc_cid cn s) (hc_auto cn s)) as [s1 o_dup].
  destruct (hc_old _ _ _ _ s1) as [[s2 o_will] resume]. destruct (hc_wd_exp cn (b_cfg s)) as [wd ex].
  match goal with |- context [hc_wills o_will ?S] =>
    pose proof (hc_wills_quiet o_will S) as [_ H5]; destruct (hc_wills o_will S) as [s5 o_w] end.
  cbn [snd] in *. do 3 eexists. intros x Hin. apply in_app_or in Hin. destruct Hin as [Hin|[<-|Hin]].
  - left. rewrite Forall_forall in H1. now apply H1.
  - right. reflexivity.
  - left. apply isdrop_nosend in H5. rewrite Forall_forall in H5. now apply H5.
Qed.

Lemma handle_connect_out c cn s x :
  In x (snd (handle_connect c cn s)) -> nosend x \/ exists sp code props, x = OSend c (KConnack sp code props).
Proof.
  destruct (handle_connect_one_connack c cn s) as (sp & code & props & H). intros Hin.
  destruct (H x Hin) as [H1|H1]; [now left|right; eauto].
Qed.

(* ... and the poll loops write no CONNACK: the Session Present flag of the step is well defined *)
Lemma step_connect_connack_unique s c cn c1 sp1 code1 props1 c2 sp2 code2 props2 :
  In (OSend c1 (KConnack sp1 code1 props1)) (snd (step s (EConnect c cn))) ->
  In (OSend c2 (KConnack sp2 code2 props2)) (snd (step s (EConnect c cn))) -> sp1 = sp2.
Proof.
  unfold step. cbn [step_event]. pose proof (conn_gone_nosend c s) as H0. destruct (conn_gone c s) as [s0 o0].
  destruct (handle_connect_one_connack c cn s0) as (sp & code & props & H1). destruct (handle_connect c cn s0) as [s1 o1].
  pose proof (BrokerQos2P.poll_all_frame s1) as [_ H2]. destruct (poll_all s1) as [s2 o2]. cbn [snd] in *.
  assert (G : forall c' sp' code' props', In (OSend c' (KConnack sp' code' props'))
                ((filter (fun x => match x with OClose c'0 => negb (c'0 =? c) | _ => true end) o0 ++ o1) ++ o2) -> sp' = sp).
  { intros c' sp' code' props' Hin. apply in_app_or in Hin. destruct Hin as [Hin|Hin].
    - apply in_app_or in Hin. destruct Hin as [Hin|Hin].
      + apply filter_In in Hin. destruct Hin as [Hin _]. rewrite Forall_forall in H0. destruct (H0 _ Hin).
      + destruct (H1 _ Hin) as [H|H]; [destruct H|]. now inversion H.
    - rewrite Forall_forall in H2. destruct (H2 _ Hin). }
  intros Ha Hb. rewrite (G _ _ _ _ Ha), (G _ _ _ _ Hb). reflexivity.
Qed.

Lemma step_event_connect_dup1 s c cn c' : all_dup1_to c' (snd (step_event s (EConnect c cn))).
Proof.
  cbn [step_event]. pose proof (conn_gone_nosend c s) as H0. destruct (conn_gone c s) as [s0 o0].
  pose proof (handle_connect_out c cn s0) as H1. destruct (handle_connect c cn s0) as [s1 o1]. cbn [snd] in *.
  intros dup qos ret t pl pid ps Hin. apply in_app_or in Hin. destruct Hin as [Hin|Hin].
  - apply filter_In in Hin. destruct Hin as [Hin _]. rewrite Forall_forall in H0. destruct (H0 _ Hin).
  - destruct (H1 _ Hin) as [H|(sp & code & props & H)]; [destruct H|discriminate].
Qed.

(* the poll loop of socket c2 writes to c2 only *)
Lemma poll_conn_okout c2 : forall fuel s, Forall (okout c2) (snd (poll_conn fuel c2 s)).
Proof.
  induction fuel as [|f IH]; intros s; cbn [poll_conn]; [constructor|].
  destruct (poll_once c2 s) as [[s' o]|] eqn:E; [|constructor].
  apply BrokerInvP.poll_once_frame in E as (_ & Ho & _).
  specialize (IH s'). destruct (poll_conn f c2 s') as [s'' o'']. cbn [snd] in *.
  apply Forall_app. split; [|exact IH].
  destruct (nget c2 (b_conns s)) as [k|]; [|exact Ho]. destruct (k_phase k); try exact Ho. now apply Forall_filter.
Qed.

(* what the poll loops of the other sockets leave alone: the connection on socket c and the queue of its client *)
Definition untouched (c : N) (k : conn) (cid : str) (q : queue) (s : st) : Prop :=
  AllPoll false s /\ nget c (b_conns s) = Some k /\ aget cid (b_queues s) = Some q /\ aget cid (b_online s) = Some c.

Lemma poll_once_untouched c k cid q c2 s s' o :
  c2 <> c -> untouched c k cid q s -> poll_once c2 s = Some (s', o) -> untouched c k cid q s'.
Proof.
  intros Hne (HA & Hk & Hq & Hon) Hp.
  destruct (nget c2 (b_conns s)) as [k2|] eqn:Hk2; [|rewrite (poll_once_absent c2 s Hk2) in Hp; discriminate].
  destruct (attached_dec k2) as [Hat|Hna]; [|rewrite (poll_once_detached c2 s k2 Hk2 Hna) in Hp; discriminate].
  pose proof (HA c2 k2 Hk2 Hat) as (k0 & q2 & inf & que & Hk0 & Hq2 & Hon2 & _ & _ & HCQ).
  rewrite Hk2 in Hk0. inversion Hk0; subst k0. clear Hk0.
  destruct (poll_once_cases false c2 s s' o k2 q2 inf que Hk2 Hq2 HCQ Hp) as (Ho & _ & _ & Hconns & Hqueues & _).
  split; [eapply poll_once_AllPoll; eauto|]. split; [rewrite Hconns; [exact Hk|now apply not_eq_sym]|].
  split; [|now rewrite Ho]. rewrite Hqueues; [exact Hq|]. intros ->. rewrite Hon in Hon2. inversion Hon2. now apply Hne.
Qed.

Lemma poll_conn_untouched c k cid q c2 : c2 <> c -> forall fuel s,
  untouched c k cid q s -> untouched c k cid q (fst (poll_conn fuel c2 s)).
Proof.
  intros Hne. induction fuel as [|f IH]; intros s HU; cbn [poll_conn]; [exact HU|].
  destruct (poll_once c2 s) as [[s' o]|] eqn:Hp; [|exact HU].
  specialize (IH s' (poll_once_untouched c k cid q c2 s s' o Hne HU Hp)). destruct (poll_conn f c2 s'). exact IH.
Qed.

Notation poll_body := (fun (acc : st * list out) (ck : N * conn) =>
                         let '(s0, o0) := acc in let '(s', o') := poll_conn 400 (fst ck) s0 in (s', o0 ++ o')).

Lemma poll_fold_acc : forall (L : list (N * conn)) s0 o0,
  fold_left poll_body L (s0, o0) = (fst (fold_left poll_body L (s0, [])), o0 ++ snd (fold_left poll_body L (s0, []))).
Proof.
  induction L as [|ck L IH]; intros s0 o0; cbn [fold_left]; [cbn [fst snd]; now rewrite app_nil_r|].
  destruct (poll_conn 400 (fst ck) s0) as [s1 o1]. rewrite (IH s1 (o0 ++ o1)), (IH s1 ([] ++ o1)). cbn [fst snd app].
  now rewrite app_assoc.
Qed.

Lemma poll_fold_untouched c k cid q : forall (L : list (N * conn)) s0,
  (forall x, In x L -> fst x <> c) -> untouched c k cid q s0 ->
  untouched c k cid q (fst (fold_left poll_body L (s0, []))) /\ Forall (notto c) (snd (fold_left poll_body L (s0, []))).
Proof.
  induction L as [|ck L IH]; intros s0 HL HU; cbn [fold_left]; [split; [exact HU|constructor]|].
  assert (Hne : fst ck <> c) by (apply HL; now left).
  pose proof (poll_conn_untouched c k cid q (fst ck) Hne 400 s0 HU) as HU1.
  pose proof (poll_conn_okout (fst ck) 400 s0) as HO1.
  destruct (poll_conn 400 (fst ck) s0) as [s1 o1]. cbn [fst snd app] in *.
  rewrite poll_fold_acc. cbn [fst snd].
  destruct (IH s1 (fun x Hx => HL x (or_intror Hx)) HU1) as [H1 H2]. split; [exact H1|].
  apply Forall_app. split; [eapply okout_notto; eauto|exact H2].
Qed.

Lemma nget_split {V} c (k : V) : forall l, nget c l = Some k ->
  exists l1 l2, l = l1 ++ (c, k) :: l2 /\ forall x, In x l1 -> fst x <> c.
Proof.
  induction l as [|[c0 k0] r IH]; cbn [nget]; [discriminate|].
  destruct (N.eqb_spec c c0) as [->|Hne].
  - intros [= ->]. exists [], r. split; [reflexivity|intros x []].
  - intros H. destruct (IH H) as (l1 & l2 & -> & Hl). exists ((c0, k0) :: l1), l2. split; [reflexivity|].
    intros x [<-|Hx]; [cbn; now apply not_eq_sym|now apply Hl].
Qed.

Lemma Forall2_in_split {A B} (R : A -> B -> Prop) l o d :
  Forall2 R l o -> In d l -> exists o1 x o2 l1, o = o1 ++ x :: o2 /\ R d x /\ Forall2 R l1 o1.
Proof.
  intros H Hin. apply in_split in Hin. destruct Hin as (l1 & l2 & ->).
  apply Forall2_app_inv_l in H. destruct H as (o1 & o2' & H1 & H2 & ->).
  inversion H2 as [|? x ? o2 Hx H3]; subst. exists o1, x, o2, l1. auto.
Qed.

(* a fresh connection has replayed nothing yet: every in-flight entry is still to be replayed *)
Lemma fresh_nothing_replayed w k q b inf que :
  CQ w k q b inf que -> l_locked (k_lim k) = [] -> skipn (q_cur q) inf = inf.
Proof.
  intros HCQ Hl. pose proof (cq_locked _ _ _ _ _ _ HCQ) as Hlk. rewrite Hl in Hlk.
  destruct (firstn (q_cur q) inf) as [|x r] eqn:E.
  - rewrite <- (firstn_skipn (q_cur q) inf) at 2. now rewrite E.
  - exfalso. apply (proj2 (Hlk (e_id x))). cbn [map app]. now left.
Qed.

Lemma poll_all_split s c k :
  nget c (b_conns s) = Some k ->
  exists L1 L2, b_conns s = L1 ++ (c, k) :: L2 /\ (forall x, In x L1 -> fst x <> c) /\
    let sa := fst (fold_left poll_body L1 (s, [])) in
    let oa := snd (fold_left poll_body L1 (s, [])) in
    let ob := snd (poll_conn 400 c sa) in
    exists oc, snd (poll_all s) = oa ++ ob ++ oc.
Proof.
  intros Hk. destruct (nget_split c k _ Hk) as (L1 & L2 & E & HL). exists L1, L2. split; [exact E|]. split; [exact HL|].
  cbv zeta. unfold poll_all. rewrite E, fold_left_app. cbn [fold_left].
  destruct (fold_left poll_body L1 (s, [])) as [sa oa]. cbn [fst snd].
  destruct (poll_conn 400 c sa) as [sb ob]. cbn [snd]. rewrite poll_fold_acc. cbn [snd].
  eexists. now rewrite <- app_assoc.
Qed.

(* the step of a successful CONNECT: the poll loop of the new connection first retransmits, in queue order, everything
   that is in flight in the session queue once the event part is over (q1); nothing written to the new socket before
   is a first transmission; the in-flight part of the queue after the step (q') starts with those entries *)
Lemma resume_step_replay s c cn s' o k' :
  GInv false s -> wb false s (EConnect c cn) = true -> step s (EConnect c cn) = (s', o) ->
  nget c (b_conns s') = Some k' -> k_phase k' = PhConnected -> 1 <= k_max_inflight k' ->
  (forall q', aget (k_cid k') (b_queues s') = Some q' -> (length (q_inf q') < 400)%nat) ->
  exists q1 q' pre rs post,
    aget (k_cid k') (b_queues (fst (step_event s (EConnect c cn)))) = Some q1 /\
    aget (k_cid k') (b_queues s') = Some q' /\
    (exists l, map rkey (q_inf q') = map rkey (q_inf q1) ++ l) /\
    o = pre ++ rs ++ post /\ Forall2 (is_retrans c) (q_inf q1) rs /\ all_dup1_to c pre.
Proof.
  intros [HI HJ] Hwb Hstep Hk' Hph' Hwin' Hlen. set (cid := k_cid k') in *.
  pose proof (step_event_J false s _ HI HJ Hwb) as HJ1.
  pose proof (step_event_connect_dup1 s c cn c) as Hdup1.
  assert (Hhc : exists s0, fst (step_event s (EConnect c cn)) = fst (handle_connect c cn s0)).
  { cbn [step_event]. destruct (conn_gone c s) as [s0 o0]. exists s0. destruct (handle_connect c cn s0). auto. }
  destruct Hhc as (s0 & Hs1).
  unfold step in Hstep. destruct (step_event s (EConnect c cn)) as [s1 o1]. cbn [fst snd] in *.
  pose proof (poll_all_inflight_ext false s1 (j_poll _ _ HJ1)) as HE.
  pose proof (BrokerQos2P.poll_all_frame s1) as [F _].
  destruct (poll_all s1) as [s2 o2] eqn:Hpa. cbn [fst snd] in *. inversion Hstep; subst s' o. clear Hstep.
  (* the new connection as CONNECT installed it *)
  pose proof (BrokerQos2P.df_cstat _ _ F c) as Ecs. unfold BrokerQos2P.cstat in Ecs. rewrite Hk' in Ecs.
  destruct (nget c (b_conns s1)) as [k1|] eqn:Hk1; cbn [option_map] in Ecs; [|discriminate].
  assert (Eks : BrokerQos2P.kstat k' = BrokerQos2P.kstat k1) by congruence. unfold BrokerQos2P.kstat in Eks.
  assert (Hph1 : k_phase k1 = PhConnected) by congruence.
  assert (Hcid1 : k_cid k1 = cid) by (unfold cid; congruence).
  assert (Hwin1 : 1 <= k_max_inflight k1) by (replace (k_max_inflight k1) with (k_max_inflight k') by congruence; exact Hwin').
  assert (Hfa : fresh_attached (b_cfg s0) cn k1).
  { destruct (handle_connect c cn s0) as [sx ox] eqn:Ehc. cbn [fst] in Hs1. subst sx.
    exact (handle_connect_conn c cn s0 s1 ox k1 Ehc Hk1 Hph1). }
  destruct Hfa as (_ & _ & _ & Hlim1 & _ & Hdr1 & _).
  assert (Hat1 : pattached k1) by (left; exact Hph1).
  pose proof (j_poll _ _ HJ1 c k1 Hk1 Hat1) as (k0 & q1 & inf & que & Hk0 & Hq1 & Hon0 & _ & _ & HCQ).
  rewrite Hk1 in Hk0. inversion Hk0; subst k0. clear Hk0. rewrite Hcid1 in Hq1, Hon0.
  (* the poll loops before the one of socket c *)
  destruct (poll_all_split s1 c k1 Hk1) as (L1 & L2 & EL & HL & oc & Ho2). cbv zeta in Ho2.
  rewrite Hpa in Ho2. cbn [snd] in Ho2.
  assert (HU : untouched c k1 cid q1 s1) by (split; [apply (j_poll _ _ HJ1)|auto]).
  destruct (poll_fold_untouched c k1 cid q1 L1 s1 HL HU) as [(HAa & Hka & Hqa & Hona) Hoa].
  set (sa := fst (fold_left poll_body L1 (s1, []))) in *. set (oa := snd (fold_left poll_body L1 (s1, []))) in *.
  pose proof (HAa c k1 Hka Hat1) as HPa.
  pose proof HPa as (k0 & q0 & infa & quea & Hk0 & Hq0 & _ & _ & _ & HCQa).
  rewrite Hka in Hk0. inversion Hk0; subst k0. clear Hk0. rewrite Hcid1, Hqa in Hq0. inversion Hq0; subst q0. clear Hq0.
  assert (Hsk : skipn (q_cur q1) (q_inf q1) = q_inf q1).
  { rewrite (q_inf_eq _ _ _ _ (cq_q _ _ _ _ _ _ HCQa)). apply (fresh_nothing_replayed _ _ _ _ _ _ HCQa). now rewrite Hlim1. }
  (* the replay *)
  destruct (HE cid q1 Hq1) as (q2 & l & Hq2 & El).
  assert (Hfuel : (length (q_inf q1) - q_cur q1 < 400)%nat).
  { specialize (Hlen q2 Hq2). apply (f_equal (@length _)) in El. rewrite app_length, !map_length in El. lia. }
  rewrite <- Hcid1 in Hqa.
  destruct (C03_replay_first false sa c k1 q1 400 HPa Hka Hqa Hph1 Hdr1 Hwin1 Hfuel) as (or1 & or2 & Hob & Hret & _).
  rewrite Hsk in Hret.
  exists q1, q2, (o1 ++ oa), or1, (or2 ++ oc). split; [exact Hq1|]. split; [exact Hq2|]. split; [eauto|]. split; [|split].
  - rewrite Ho2, Hob. now rewrite <- !app_assoc.
  - exact Hret.
  - apply all_dup1_app; [exact Hdup1|now apply notto_dup1].
Qed.

(* an entry that none of (a), (b), (c) hits in a step is in flight already when the event part is over *)
Lemma undisturbed_event_part s e cid q d :
  GInv false s -> wb false s e = true -> aget cid (b_queues s) = Some q -> In d (q_inf q) ->
  ~ disturbed cid (e_id d) s e ->
  exists q1 d1, aget cid (b_queues (fst (step_event s e))) = Some q1 /\ In d1 (q_inf q1) /\ still_inflight s e cid d d1.
Proof.
  intros [HI HJ] Hwb Hq Hd Hnd.
  pose proof (step_event_J false s e HI HJ Hwb) as HJ1.
  pose proof (step_event_track s e cid q d HI HJ Hq Hd) as HT.
  unfold disturbed, step in Hnd. destruct (step_event s e) as [s1 o1]. cbn [fst snd] in *.
  pose proof (track_bad_poll s e cid d s1 o1 (j_poll _ _ HJ1)) as HB.
  destruct (poll_all s1) as [s2 o2]. cbn [fst snd] in *.
  destruct HT as [HT|HT]; [exact HT|].
  exfalso. apply Hnd. destruct (HB HT) as [H|[H|[H|H]]]; auto. right. left. exists q, d. auto.
Qed.

(* the step of a CONNECT that resumes the session of cid (the entry d survives the step: not (a), (b), (c)):
   the outputs contain the retransmission of d, and nothing written to the new socket before it is a first
   transmission *)
Lemma resume_step_retransmits s c cn cid q d s' o k' :
  GInv false s -> wb false s (EConnect c cn) = true -> step s (EConnect c cn) = (s', o) ->
  aget cid (b_queues s) = Some q -> In d (q_inf q) -> ~ disturbed cid (e_id d) s (EConnect c cn) ->
  nget c (b_conns s') = Some k' -> k_phase k' = PhConnected -> k_cid k' = cid -> 1 <= k_max_inflight k' ->
  (forall q', aget cid (b_queues s') = Some q' -> (length (q_inf q') < 400)%nat) ->
  exists pre x post, o = pre ++ x :: post /\ retrans_of_key c (rkey d) x /\ all_dup1_to c pre.
Proof.
  intros HG Hwb Hstep Hq Hd Hnd Hk' Hph' Hcid' Hwin' Hlen. rewrite <- Hcid' in Hlen.
  destruct (resume_step_replay s c cn s' o k' HG Hwb Hstep Hk' Hph' Hwin' Hlen)
    as (q1 & q' & pre & rs & post & Hq1 & _ & _ & Ho & Hret & Hpre).
  destruct (undisturbed_event_part s (EConnect c cn) cid q d HG Hwb Hq Hd Hnd) as (q1' & d1 & Hq1' & Hd1 & Hs).
  assert (Hr1 : rkey d1 = rkey d).
  { destruct Hs as [Hs|[_ (c0 & p0 & k0 & He & _)]]; [exact Hs|discriminate]. }
  rewrite Hcid', Hq1' in Hq1. inversion Hq1; subst q1'.
  destruct (Forall2_in_split _ _ _ d1 Hret Hd1) as (ra & x & rb & l1 & -> & Hx & Hra).
  exists (pre ++ ra), x, (rb ++ post). split; [|split].
  - rewrite Ho. now rewrite <- !app_assoc.
  - apply is_retrans_key in Hx. now rewrite Hr1 in Hx.
  - apply all_dup1_app; [exact Hpre|eapply retrans_dup1; eauto].
Qed.

(* ------------------------------------------------------------------ *)
(* 14. Theorem 2: retransmitted after every resuming CONNECT until acknowledged *)
(* ------------------------------------------------------------------ *)

Theorem retransmitted_until_acked s es c cn cid q d s' o k' :
  GInv false s -> run_wb false s (es ++ [EConnect c cn]) = true ->
  aget cid (b_queues s) = Some q -> In d (q_inf q) ->
  undisturbed cid (e_id d) s (es ++ [EConnect c cn]) ->
  step (fst (run s es)) (EConnect c cn) = (s', o) ->
  nget c (b_conns s') = Some k' -> k_phase k' = PhConnected -> k_cid k' = cid -> 1 <= k_max_inflight k' ->
  (forall q', aget cid (b_queues s') = Some q' -> (length (q_inf q') < 400)%nat) ->
  exists key pre x post,
    (key = rkey d \/ key = inr (e_id d)) /\
    o = pre ++ x :: post /\ retrans_of_key c key x /\ all_dup1_to c pre.
Proof.
  intros HG Hwb Hq Hd Hu Hstep Hk' Hph' Hcid' Hwin' Hlen.
  rewrite run_wb_app in Hwb. apply andb_true_iff in Hwb. destruct Hwb as [Hwb1 Hwb2].
  cbn [run_wb] in Hwb2. rewrite andb_true_r in Hwb2.
  apply undisturbed_app in Hu. destruct Hu as [Hu1 Hu2]. cbn [undisturbed] in Hu2. destruct Hu2 as [Hu2 _].
  destruct (undisturbed_stays_inflight cid es s q d HG Hwb1 Hq Hd Hu1) as (qN & dN & HqN & HdN & Hkey).
  pose proof (run_GInv false es s HG Hwb1) as HGN.
  assert (Eid : e_id dN = e_id d).
  { destruct Hkey as [H|H]; [now apply rkey_id|]. unfold rkey, e_id in *. destruct (e_body dN); inversion H. reflexivity. }
  rewrite <- Eid in Hu2.
  destruct (resume_step_retransmits _ c cn cid qN dN s' o k' HGN Hwb2 Hstep HqN HdN Hu2 Hk' Hph' Hcid' Hwin' Hlen)
    as (pre & x & post & Ho & Hx & Hpre).
  exists (rkey dN), pre, x, post. auto.
Qed.

(* the same with the Session Present flag spelled out: for the CONNECT step itself, (a) cannot apply, (c) is
   "Session Present = 0" or "no queue", and what is left of (b) is asked for *)
Corollary retransmitted_at_session_present s es c cn cid q d s' o k' props :
  GInv false s -> run_wb false s (es ++ [EConnect c cn]) = true ->
  aget cid (b_queues s) = Some q -> In d (q_inf q) ->
  undisturbed cid (e_id d) s es ->
  step (fst (run s es)) (EConnect c cn) = (s', o) ->
  In (OSend c (KConnack true 0 props)) o ->
  (forall q0 d0, aget cid (b_queues (fst (run s es))) = Some q0 -> In d0 (q_inf q0) -> e_id d0 = e_id d ->
                 ~ xdrop cid (b_now s') o d0) ->
  nget c (b_conns s') = Some k' -> k_phase k' = PhConnected -> k_cid k' = cid -> 1 <= k_max_inflight k' ->
  (forall q', aget cid (b_queues s') = Some q' -> (length (q_inf q') < 400)%nat) ->
  exists key pre x post,
    (key = rkey d \/ key = inr (e_id d)) /\
    o = pre ++ x :: post /\ retrans_of_key c key x /\ all_dup1_to c pre.
Proof.
  intros HG Hwb Hq Hd Hu Hstep Hsp Hnx Hk' Hph' Hcid' Hwin' Hlen.
  apply (retransmitted_until_acked s es c cn cid q d s' o k'); auto.
  apply undisturbed_app. split; [exact Hu|]. cbn [undisturbed]. split; [|exact I].
  pose proof Hwb as Hwb0. rewrite run_wb_app in Hwb0. apply andb_true_iff in Hwb0. destruct Hwb0 as [Hwb1 Hwb2].
  cbn [run_wb] in Hwb2. rewrite andb_true_r in Hwb2.
  pose proof (run_GInv false es s HG Hwb1) as HGN. pose proof (step_GInv false _ _ HGN Hwb2) as HG'.
  unfold disturbed. rewrite Hstep in *. cbn [fst snd] in *.
  intros [H|[H|[H|H]]].
  - destruct H as (c0 & p0 & k0 & He & _). discriminate.
  - destruct H as (q0 & d0 & Hq0 & Hd0 & Hid & Hx). now apply (Hnx q0 d0).
  - destruct HG' as [_ HJ']. destruct (j_poll _ _ HJ' c k' Hk' (or_introl Hph')) as (k0 & q0 & _ & _ & Hk0 & Hq0 & _).
    rewrite Hk' in Hk0. inversion Hk0; subst k0. rewrite Hcid' in Hq0. congruence.
  - destruct H as (c0 & cn0 & props0 & He & _ & Hin). inversion He; subst c0 cn0.
    assert (Eo : o = snd (step (fst (run s es)) (EConnect c cn))) by now rewrite Hstep.
    rewrite Eo in Hsp, Hin. pose proof (step_connect_connack_unique _ _ _ _ _ _ _ _ _ _ _ Hsp Hin). discriminate.
Qed.

(* "in original order": the retransmissions of the step of a successful CONNECT are those of a prefix of the
   in-flight part of the session queue as it is after the step, in queue order *)
Theorem resume_replays_in_order s c cn s' o k' q' :
  GInv false s -> wb false s (EConnect c cn) = true -> step s (EConnect c cn) = (s', o) ->
  nget c (b_conns s') = Some k' -> k_phase k' = PhConnected -> 1 <= k_max_inflight k' ->
  aget (k_cid k') (b_queues s') = Some q' -> (length (q_inf q') < 400)%nat ->
  exists n pre rs post,
    o = pre ++ rs ++ post /\ Forall2 (retrans_of_key c) (firstn n (map rkey (q_inf q'))) rs /\ all_dup1_to c pre /\
    exists q1, aget (k_cid k') (b_queues (fst (step_event s (EConnect c cn)))) = Some q1 /\ n = length (q_inf q1).
Proof.
  intros HG Hwb Hstep Hk' Hph' Hwin' Hq' Hlen.
  assert (Hlen' : forall q0, aget (k_cid k') (b_queues s') = Some q0 -> (length (q_inf q0) < 400)%nat)
    by (intros q0 H0; rewrite Hq' in H0; inversion H0; subst; exact Hlen).
  destruct (resume_step_replay s c cn s' o k' HG Hwb Hstep Hk' Hph' Hwin' Hlen')
    as (q1 & q2 & pre & rs & post & Hq1 & Hq2 & (l & El) & Ho & Hret & Hpre).
  rewrite Hq' in Hq2. inversion Hq2; subst q2.
  exists (length (q_inf q1)), pre, rs, post. split; [exact Ho|]. split; [|split; [exact Hpre|eauto]].
  rewrite El, firstn_app_exact by (now rewrite map_length). now apply Forall2_retrans_keys.
Qed.

(* ---- the definitions, spelled out (for Props/C03u.v) ---- *)
Lemma xdrop_unfold cid now o d :
  xdrop cid now o d <->
  expired now d = true /\ match e_body d with QPub m => In (ODropped cid m DExpiredInflight) o | QRel _ => True end.
Proof. reflexivity. Qed.

Lemma ev_packet_iff e c p : ev_packet e = Some (c, p) <-> e = ESend c p \/ exists n, e = ESendSz c p n.
Proof.
  split.
  - destruct e; cbn [ev_packet]; try discriminate; intros [= -> ->]; [now left|right; eauto].
  - intros [->|[n ->]]; reflexivity.
Qed.

Lemma acked_by_unfold s e cid pid :
  acked_by s e cid pid <->
  exists c p k, (e = ESend c p \/ exists n, e = ESendSz c p n) /\
    nget c (b_conns s) = Some k /\ k_phase k = PhConnected /\ k_cid k = cid /\ aget cid (b_online s) = Some c /\
    match p with
    | KPuback pid' _ _ | KPubcomp pid' _ _ => pid' = pid
    | KPubrec pid' code _ => pid' = pid /\ k_v k = 5 /\ 128 <= code
    | _ => False
    end.
Proof.
  unfold acked_by, on_socket_of. split.
  - intros (c & p & k & He & (H1 & H2 & H3 & H4) & Hf). exists c, p, k. apply ev_packet_iff in He.
    repeat split; auto. destruct p; cbn [final_ack] in Hf; try discriminate; try (now inversion Hf).
    destruct ((k_v k =? 5) && (128 <=? code)) eqn:E; [|discriminate]. apply andb_true_iff in E. destruct E as [E1 E2].
    inversion Hf. split; [reflexivity|]. split; [now apply N.eqb_eq|now apply N.leb_le].
  - intros (c & p & k & He & H1 & H2 & H3 & H4 & Hf). exists c, p, k. apply ev_packet_iff in He.
    repeat split; auto. destruct p; try (now destruct Hf); cbn [final_ack]; try (now subst).
    destruct Hf as (Hp & H5 & H6). subst pid0. apply N.eqb_eq in H5. apply N.leb_le in H6. now rewrite H5, H6.
Qed.

Lemma pubrec_by_unfold s e cid pid :
  pubrec_by s e cid pid <->
  exists c code props k, (e = ESend c (KPubrec pid code props) \/ exists n, e = ESendSz c (KPubrec pid code props) n) /\
    nget c (b_conns s) = Some k /\ k_phase k = PhConnected /\ k_cid k = cid /\ aget cid (b_online s) = Some c /\
    (k_v k =? 5) && (128 <=? code) = false.
Proof.
  unfold pubrec_by, on_socket_of. split.
  - intros (c & p & k & He & (H1 & H2 & H3 & H4) & Hf). apply ev_packet_iff in He.
    destruct p; cbn [pubrec_ok] in Hf; try discriminate.
    destruct ((k_v k =? 5) && (128 <=? code)) eqn:E; [discriminate|]. inversion Hf; subst pid0.
    exists c, code, props, k. repeat split; auto.
  - intros (c & code & props & k & He & H1 & H2 & H3 & H4 & Hf). exists c, (KPubrec pid code props), k.
    apply ev_packet_iff in He. repeat split; auto. cbn [pubrec_ok]. now rewrite Hf.
Qed.

Lemma sess_restart_unfold cid e s' o :
  sess_restart cid e s' o <->
  exists c cn props, e = EConnect c cn /\ aget cid (b_online s') = Some c /\ In (OSend c (KConnack false 0 props)) o.
Proof. reflexivity. Qed.

Lemma still_inflight_unfold s e cid d d' :
  still_inflight s e cid d d' <-> rkey d' = rkey d \/ (rkey d' = inr (e_id d) /\ pubrec_by s e cid (e_id d)).
Proof. reflexivity. Qed.

Lemma disturbed_unfold cid pid s e :
  disturbed cid pid s e <->
  acked_by s e cid pid \/
  (exists q d, aget cid (b_queues s) = Some q /\ In d (q_inf q) /\ e_id d = pid /\
               xdrop cid (b_now (fst (step s e))) (snd (step s e)) d) \/
  aget cid (b_queues (fst (step s e))) = None \/
  sess_restart cid e (fst (step s e)) (snd (step s e)).
Proof. reflexivity. Qed.

Lemma undisturbed_unfold cid pid s es :
  undisturbed cid pid s es <->
  match es with [] => True | e :: r => ~ disturbed cid pid s e /\ undisturbed cid pid (fst (step s e)) r end.
Proof. destruct es; reflexivity. Qed.

Lemma all_dup1_to_unfold c o :
  all_dup1_to c o <-> forall dup qos ret t pl pid ps, In (OSend c (KPublish dup qos ret t pl pid ps)) o -> dup = true.
Proof. reflexivity. Qed.

(* ------------------------------------------------------------------ *)
(* 15. executable checks of the hypotheses (for witnesses)             *)
(* ------------------------------------------------------------------ *)

(* necessary conditions of the four alternatives, computable *)
Definition acked_by_b (s : st) (e : event) (cid : str) (pid : N) : bool :=
  match ev_packet e with
  | Some (c, p) =>
      match nget c (b_conns s) with
      | Some k => match k_phase k with
                  | PhConnected => str_eqb (k_cid k) cid &&
                                   match final_ack (k_v k) p with Some x => x =? pid | None => false end
                  | _ => false
                  end
      | None => false
      end
  | None => false
  end.

Definition expired_b (cid : str) (pid : N) (s : st) (now : N) : bool :=
  match aget cid (b_queues s) with
  | Some q => existsb (fun d => (e_id d =? pid) && expired now d) (q_inf q)
  | None => false
  end.

Definition restart_b (e : event) (o : list out) : bool :=
  match e with
  | EConnect c _ => existsb (fun x => match x with OSend c' (KConnack false 0 _) => c' =? c | _ => false end) o
  | _ => false
  end.

Definition disturbed_b (cid : str) (pid : N) (s : st) (e : event) : bool :=
  let s' := fst (step s e) in
  acked_by_b s e cid pid || expired_b cid pid s (b_now s') ||
  match aget cid (b_queues s') with None => true | Some _ => false end ||
  restart_b e (snd (step s e)).

Fixpoint undisturbed_b (cid : str) (pid : N) (s : st) (es : list event) : bool :=
  match es with
  | [] => true
  | e :: r => negb (disturbed_b cid pid s e) && undisturbed_b cid pid (fst (step s e)) r
  end.

Lemma disturbed_b_complete cid pid s e : disturbed cid pid s e -> disturbed_b cid pid s e = true.
Proof.
  unfold disturbed, disturbed_b. cbv zeta. intros [H|[H|[H|H]]].
  - destruct H as (c & p & k & He & (Hk & Hph & Hcid & _) & Hf). unfold acked_by_b. rewrite He, Hk, Hph, Hcid, Hf.
    now rewrite str_eqb_refl, N.eqb_refl.
  - destruct H as (q & d & Hq & Hd & Hid & Hx & _). unfold expired_b. rewrite Hq.
    assert (E : existsb (fun d0 => (e_id d0 =? pid) && expired (b_now (fst (step s e))) d0) (q_inf q) = true).
    { apply existsb_exists. exists d. split; [exact Hd|]. rewrite Hx. now rewrite (proj2 (N.eqb_eq _ _) Hid). }
    rewrite E. now rewrite orb_true_r.
  - rewrite H. now rewrite orb_true_r.
  - destruct H as (c & cn & props & -> & _ & Hin). unfold restart_b.
    assert (E : existsb (fun x => match x with OSend c' (KConnack false 0 _) => c' =? c | _ => false end)
                        (snd (step s (EConnect c cn))) = true).
    { apply existsb_exists. exists (OSend c (KConnack false 0 props)). split; [exact Hin|apply N.eqb_refl]. }
    rewrite E. now rewrite orb_true_r.
Qed.

Lemma undisturbed_b_sound cid pid : forall es s, undisturbed_b cid pid s es = true -> undisturbed cid pid s es.
Proof.
  induction es as [|e r IH]; intros s H; cbn [undisturbed_b undisturbed] in *; [exact I|].
  apply andb_true_iff in H. destruct H as [H1 H2]. split; [|now apply IH].
  intros Hd. apply disturbed_b_complete in Hd. rewrite Hd in H1. discriminate.
Qed.

(* ------------------------------------------------------------------ *)
(* 16. witnesses                                                       *)
(* ------------------------------------------------------------------ *)

Definition ux_cn : connect := wx_connect 5 wx_S false [PSei 100; PRecvMax 2].

(* "s" (persistent session, window 2) has one QoS 1 message in flight, packet id 1 *)
Definition ux_s : st := fst (run wx_init (wx_pre ++ [wx_pub 1 11 [1]])).
Definition ux_d : elem :=
  {| e_tag := 1; e_at := 1000000000000; e_expiry := None;
     e_body := QPub {| m_dup := false; m_qos := 1; m_retained := false; m_topic := wx_T; m_payload := [1]; m_pid := 1;
                       m_ctype := []; m_corr := []; m_expiry := 0; m_pfmt := 0; m_resp := []; m_subids := [];
                       m_uprops := [] |} |}.

Lemma ux_GInv es : run_wb false wx_init es = true -> GInv false (fst (run wx_init es)).
Proof. intros H. apply reachable_GInv; [vm_compute; discriminate|exact H]. Qed.

Example ux_state :
  GInv false ux_s /\ option_map q_inf (aget wx_S (b_queues ux_s)) = Some [ux_d] /\ e_id ux_d = 1 /\
  rkey ux_d = inl (1, false, wx_T, [1], 1).
Proof. split; [apply ux_GInv; vm_compute; reflexivity|vm_compute; auto]. Qed.

(* Theorem 1, first alternative: another message is delivered, the entry stays *)
Example ux_step_kept :
  wb false ux_s (wx_pub 1 12 [2]) = true /\ disturbed_b wx_S 1 ux_s (wx_pub 1 12 [2]) = false /\
  option_map (fun q => map rkey (q_inf q)) (aget wx_S (b_queues (fst (step ux_s (wx_pub 1 12 [2]))))) =
    Some [inl (1, false, wx_T, [1], 1); inl (1, false, wx_T, [2], 3)].
Proof. vm_compute. auto. Qed.

(* (a): the PUBACK removes it *)
Example ux_step_acked :
  wb false ux_s (ESend 1 (KPuback 1 0 [])) = true /\ acked_by_b ux_s (ESend 1 (KPuback 1 0 [])) wx_S 1 = true /\
  option_map q_inf (aget wx_S (b_queues (fst (step ux_s (ESend 1 (KPuback 1 0 [])))))) = Some [].
Proof. vm_compute. auto. Qed.

(* a PUBREC turns a QoS 2 entry into a PUBREL entry with the same id: still in flight *)
Example ux_step_pubrec :
  let s := fst (run wx_init (wx_pre ++ [wx_pub 2 11 [1]])) in
  let e := ESend 1 (KPubrec 1 0 []) in
  wb false s e = true /\ disturbed_b wx_S 1 s e = false /\
  option_map (fun q => map rkey (q_inf q)) (aget wx_S (b_queues s)) = Some [inl (2, false, wx_T, [1], 1)] /\
  option_map (fun q => map rkey (q_inf q)) (aget wx_S (b_queues (fst (step s e)))) = Some [inr 1].
Proof. vm_compute. auto. Qed.

(* (b), reported: inflight_expiry 1 s, a queue of 2; after 5 s a third message evicts the expired entry with id 1 *)
Example ux_step_expired_reported :
  let e := wx_pub 1 13 [3] in
  run_wb false (st_init (wx_cfg 1 2) no_hooks []) (wx_pre ++ [wx_pub 1 11 [1]; wx_pub 1 12 [2]; EAdvance 5000; e]) = true /\
  expired_b wx_S 1 wx_e0 (b_now (fst (step wx_e0 e))) = true /\
  map (fun x => match x with ODropped cid m r => Some (cid, m_pid m, r) | _ => None end) (snd (step wx_e0 e)) =
    [Some (wx_S, 1, DExpiredInflight); None; None] /\
  option_map (fun q => map e_id (q_inf q)) (aget wx_S (b_queues wx_e0)) = Some [1; 3] /\
  option_map (fun q => map e_id (q_inf q)) (aget wx_S (b_queues (fst (step wx_e0 e)))) = Some [3; 4].
Proof. vm_compute. auto 10. Qed.

(* (b), silent: the entry is a PUBREL entry (PUBREC received), re-armed by the replay after a reconnect; once it
   has expired, a delivery into the full queue drops it and nothing is reported *)
Definition ux_silent_run : list event :=
  wx_pre ++ [wx_pub 2 11 [1]; ESend 1 (KPubrec 1 0 []); EClose 1; EConnect 1 ux_cn; EAdvance 5000; wx_pub 1 12 [2]].
Definition ux_silent : st := fst (run (st_init (wx_cfg 1 2) no_hooks []) ux_silent_run).

Example ux_step_expired_silent :
  let e := wx_pub 1 13 [3] in
  run_wb false (st_init (wx_cfg 1 2) no_hooks []) (ux_silent_run ++ [e]) = true /\
  option_map (fun q => map rkey (q_inf q)) (aget wx_S (b_queues ux_silent)) = Some [inr 1; inl (1, false, wx_T, [2], 2)] /\
  expired_b wx_S 1 ux_silent (b_now (fst (step ux_silent e))) = true /\
  snd (step ux_silent e) = [OSend 2 (KPuback 13 0 []); OSend 1 (KPublish false 1 false wx_T [3] 3 [])] /\
  option_map (fun q => map rkey (q_inf q)) (aget wx_S (b_queues (fst (step ux_silent e)))) =
    Some [inl (1, false, wx_T, [2], 2); inl (1, false, wx_T, [3], 3)].
Proof. vm_compute. auto 10. Qed.

(* (c): the client comes back with Clean Start: CONNACK with Session Present = 0, the queue is new *)
Example ux_step_clean_start :
  let e := EConnect 1 (wx_connect 5 wx_S true [PSei 100; PRecvMax 2]) in
  wb false ux_s e = true /\ restart_b e (snd (step ux_s e)) = true /\
  option_map q_inf (aget wx_S (b_queues (fst (step ux_s e)))) = Some [].
Proof. vm_compute. auto. Qed.

(* (c): the connection closes with Session Expiry 0 (a v3 clean session): the queue is gone *)
Example ux_step_session_gone :
  let s := fst (run wx_init [EConnect 1 (wx_connect 4 wx_S true []); wx_sub 1; EConnect 2 (wx_connect 4 wx_P true []);
                             wx_pub 1 11 [1]]) in
  wb false s (EClose 1) = true /\ option_map (fun q => map e_id (q_inf q)) (aget wx_S (b_queues s)) = Some [1] /\
  aget wx_S (b_queues (fst (step s (EClose 1)))) = None.
Proof. vm_compute. auto. Qed.

(* Theorem 2: two reconnects, then the PUBACK.  The connection closes, the session is resumed (the message is sent
   again, DUP = 1, id 1), the connection closes again, the session is resumed again (sent again); the PUBACK
   arrives; a third reconnect retransmits nothing *)
Definition ux_round : list event := [EClose 1; EConnect 1 ux_cn].
Definition ux_retrans : out := OSend 1 (KPublish true 1 false wx_T [1] 1 []).

Example ux_two_reconnects :
  run_wb false ux_s (ux_round ++ ux_round ++ [ESend 1 (KPuback 1 0 [])] ++ ux_round) = true /\
  undisturbed_b wx_S 1 ux_s (ux_round ++ ux_round) = true /\
  disturbed_b wx_S 1 (fst (run ux_s (ux_round ++ ux_round))) (ESend 1 (KPuback 1 0 [])) = true /\
  map (filter (fun x => match x with OSend 1 (KConnack _ _ _) => false | _ => true end))
      (snd (run ux_s (ux_round ++ ux_round ++ [ESend 1 (KPuback 1 0 [])] ++ ux_round))) =
    [[]; [ux_retrans]; []; [ux_retrans]; []; []; []].
Proof. vm_compute. auto. Qed.

(* the hypotheses of Theorem 2 hold at the first and at the second reconnect: the theorem applies *)
Example ux_theorem2_applies (es : list event) :
  es = [EClose 1] \/ es = ux_round ++ [EClose 1] ->
  exists key pre x post,
    (key = rkey ux_d \/ key = inr (e_id ux_d)) /\
    snd (step (fst (run ux_s es)) (EConnect 1 ux_cn)) = pre ++ x :: post /\
    retrans_of_key 1 key x /\ all_dup1_to 1 pre.
Proof.
  intros Hes.
  assert (H : run_wb false ux_s (es ++ [EConnect 1 ux_cn]) = true /\
              undisturbed_b wx_S (e_id ux_d) ux_s (es ++ [EConnect 1 ux_cn]) = true /\
              (exists k', nget 1 (b_conns (fst (step (fst (run ux_s es)) (EConnect 1 ux_cn)))) = Some k' /\
                          k_phase k' = PhConnected /\ k_cid k' = wx_S /\ 1 <= k_max_inflight k') /\
              (forall q', aget wx_S (b_queues (fst (step (fst (run ux_s es)) (EConnect 1 ux_cn)))) = Some q' ->
                          (length (q_inf q') < 400)%nat)).
  { destruct Hes as [->| ->]; (split; [vm_compute; reflexivity|]); (split; [vm_compute; reflexivity|]);
      (split; [eexists; vm_compute; repeat split; discriminate|]);
      intros q' Hq'; vm_compute in Hq'; inversion Hq'; subst q'; vm_compute; repeat constructor. }
  destruct H as (Hwb & Hu & (k' & Hk' & Hph & Hcid & Hwin) & Hlen).
  destruct ux_state as (HG & Hq & _).
  destruct (aget wx_S (b_queues ux_s)) as [q|] eqn:Eq; [|discriminate]. cbn [option_map] in Hq. inversion Hq as [Hq0].
  eapply (retransmitted_until_acked ux_s es 1 ux_cn wx_S q ux_d); eauto.
  - rewrite Hq0. now left.
  - now apply undisturbed_b_sound.
  - apply surjective_pairing.
Qed.

(* the window hypothesis of Theorem 2 cannot be dropped in the model: a client that announces Receive Maximum 0
   (the decoder of the broker refuses that value; the model's CONNECT does not look) is sent nothing again *)
Example ux_window_zero_no_replay :
  let cn0 := wx_connect 5 wx_S false [PSei 100; PRecvMax 0] in
  run_wb false ux_s [EClose 1; EConnect 1 cn0] = true /\ undisturbed_b wx_S 1 ux_s [EClose 1; EConnect 1 cn0] = true /\
  filter (fun x => match x with OSend 1 (KConnack _ _ _) => false | _ => true end)
         (snd (step (fst (run ux_s [EClose 1])) (EConnect 1 cn0))) = [] /\
  option_map k_max_inflight (nget 1 (b_conns (fst (run ux_s [EClose 1; EConnect 1 cn0])))) = Some 0.
Proof. vm_compute. auto. Qed.
