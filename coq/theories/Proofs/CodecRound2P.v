(* Pack / ReadPacket round trip for SUBSCRIBE and UNSUBSCRIBE, and what their Unpack establishes. *)
From Coq Require Import List NArith ZArith Bool Lia ZifyN ZifyNat ZifyBool Sorted.
Import ListNotations.
From GM Require Import Base.Topic Base.Msg Model.CodecBase Model.CodecProps Model.CodecPackets
  Proofs.CodecBaseP Proofs.CodecStrP Proofs.CodecTotalP Proofs.CodecPropsP Proofs.CodecPropsInvP Proofs.CodecRoundP
  Proofs.CodecReencP.
Open Scope N_scope.

Ltac Zify.zify_post_hook ::= Z.div_mod_to_equations.

Definition impl_filter (s : str) : bool := match valid_topic_filter_impl true s with Ok true => true | _ => false end.
Definition impl_v5 (s : str) : bool := match valid_v5_topic_impl s with Ok true => true | _ => false end.
Lemma impl_filter_true : forall s, impl_filter s = true -> valid_topic_filter_impl true s = Ok true.
Proof. intros s H. unfold impl_filter in H. destruct (valid_topic_filter_impl true s) as [[|]| | |]; congruence. Qed.
Lemma impl_v5_true : forall s, impl_v5 s = true -> valid_v5_topic_impl s = Ok true.
Proof. intros s H. unfold impl_v5 in H. destruct (valid_v5_topic_impl s) as [[|]| | |]; congruence. Qed.

(* ---------------------------------------------------------------- SUBSCRIBE *)
Definition subtopic_inv (v : N) (t : subtopic) : Prop :=
  istr_ok (st_name t) = true /\ st_qos t <= 2 /\
  if v =? 5 then impl_v5 (st_name t) = true /\ st_rh t <= 2
                 /\ (st_nl t && has_prefix SHARE_PREFIX (st_name t)) = false
  else impl_filter (st_name t) = true /\ st_rh t = 0 /\ st_nl t = false /\ st_rap t = false.

Definition sub_opts5 (t : subtopic) : N :=
  N.lor (N.lor (N.lor (st_qos t) (b2n (st_nl t) 4)) (b2n (st_rap t) 8)) ((st_rh t * 16) mod 256).
Definition enc_sub (v : N) (t : subtopic) : list N :=
  put_bin (st_name t) ++ [if v =? 5 then sub_opts5 t else st_qos t].

Lemma sub_opts5_rt : forall q rh nl rap, q <= 2 -> rh <= 3 ->
  let o := N.lor (N.lor (N.lor q (b2n nl 4)) (b2n rap 8)) ((rh * 16) mod 256) in
  N.land o 3 = q /\ N.land 3 (N.shiftr o 4) = rh /\ bit o 2 = nl /\ bit o 3 = rap /\ N.land 3 (N.shiftr o 6) = 0.
Proof.
  intros q rh nl rap Hq Hr.
  assert (Hq' : q = 0 \/ q = 1 \/ q = 2) by lia. assert (Hr' : rh = 0 \/ rh = 1 \/ rh = 2 \/ rh = 3) by lia.
  destruct Hq' as [ -> | [ -> | -> ] ]; destruct Hr' as [ -> | [ -> | [ -> | -> ] ] ]; destruct nl, rap;
    vm_compute; repeat split.
Qed.

Lemma sub_loop_rt : forall v topics fuel acc,
  topics <> [] -> (forall t, In t topics -> subtopic_inv v t) ->
  (length (flat_map (enc_sub v) topics) < fuel)%nat ->
  sub_topics_loop fuel v acc (flat_map (enc_sub v) topics) = Ok (acc ++ topics).
Proof.
  induction topics as [|t ts IH]; intros fuel acc Hne Hinv Hf; [congruence|].
  destruct fuel; [lia|]. cbn [sub_topics_loop flat_map]. unfold enc_sub at 1. rewrite <- app_assoc.
  destruct (Hinv t (or_introl eq_refl)) as (Hname & Hq & Hrest).
  rewrite istr_ok_rt by assumption. cbn [bind app].
  assert (Hvalid : (if v =? 5 then valid_v5_topic_impl (st_name t) else valid_topic_filter_impl true (st_name t)) = Ok true).
  { destruct (v =? 5); [apply impl_v5_true|apply impl_filter_true]; tauto. }
  rewrite Hvalid. cbn [bind negb read_byte remap].
  assert (Hrec : forall acc', ts <> [] -> sub_topics_loop fuel v acc' (flat_map (enc_sub v) ts) = Ok (acc' ++ ts)).
  { intros acc' Hts. apply IH; [assumption|intros; apply Hinv; right; assumption|].
    cbn [flat_map] in Hf. rewrite app_length in Hf. unfold enc_sub in Hf at 1. rewrite app_length in Hf.
    cbn [length] in Hf. lia. }
  assert (Hend : forall acc' (X : res (list subtopic)), X = sub_topics_loop fuel v acc' (flat_map (enc_sub v) ts) ->
            match flat_map (enc_sub v) ts with [] => Ok acc' | _ :: _ => X end = Ok (acc' ++ ts)).
  { intros acc' X ->. destruct ts as [|t2 ts2]; [cbn; now rewrite app_nil_r|].
    rewrite Hrec by discriminate. cbn [flat_map]. unfold enc_sub at 1, put_bin, put16. cbn [app]. reflexivity. }
  destruct (N.eqb_spec v 5) as [->|Hv]; cbn [N.eqb Pos.eqb negb andb] in *.
  - destruct Hrest as (_ & Hrh & Hnls).
    destruct (sub_opts5_rt (st_qos t) (st_rh t) (st_nl t) (st_rap t) Hq ltac:(lia)) as (E1 & E2 & E3 & E4 & E5).
    unfold sub_opts5. rewrite E1, E2, E3, E4, E5. cbn [st_qos st_rh st_nl N.eqb negb].
    replace (2 <? st_rh t) with false by lia.
    replace (2 <? st_qos t) with false by lia. rewrite Hnls.
    replace {| st_name := st_name t; st_qos := st_qos t; st_rh := st_rh t; st_nl := st_nl t; st_rap := st_rap t |}
      with t by (destruct t; reflexivity).
    rewrite (Hend (acc ++ [t]) _ eq_refl). rewrite <- app_assoc. reflexivity.
  - destruct Hrest as (_ & Hrh & Hnl & Hrap). replace (v =? 5) with false by lia. cbn [st_qos st_nl negb andb].
    replace (2 <? st_qos t) with false by lia.
    assert (E6 : N.land 3 (N.shiftr (st_qos t) 6) = 0).
    { assert (Hq' : st_qos t = 0 \/ st_qos t = 1 \/ st_qos t = 2) by lia.
      destruct Hq' as [ -> | [ -> | -> ] ]; reflexivity. }
    rewrite E6. cbn [N.eqb negb].
    replace {| st_name := st_name t; st_qos := st_qos t; st_rh := 0; st_nl := false; st_rap := false |}
      with t by (destruct t; cbn in *; subst; reflexivity).
    rewrite (Hend (acc ++ [t]) _ eq_refl). rewrite <- app_assoc. reflexivity.
Qed.

Definition subscribe_inv (v : N) (b : body) : Prop :=
  match b with
  | BSubscribe ver pid topics pr =>
      ver = v /\ 0 < pid < 65536 /\ topics <> [] /\ (forall t, In t topics -> subtopic_inv v t) /\ oprops_inv v SUBSCRIBE pr
  | _ => False
  end.

Lemma pack_subscribe_topics : forall v topics,
  (if v =? 5 then
     flat_map (fun t => put_bin (st_name t) ++
                        [N.lor (N.lor (N.lor (st_qos t) (b2n (st_nl t) 4)) (b2n (st_rap t) 8)) ((st_rh t * 16) mod 256)]) topics
   else flat_map (fun t => put_bin (st_name t) ++ [st_qos t]) topics)
  = flat_map (enc_sub v) topics.
Proof. intros. unfold enc_sub, sub_opts5. destruct (v =? 5); reflexivity. Qed.

Lemma rt_subscribe : forall v pid topics pr ty fl bytes,
  subscribe_inv v (BSubscribe v pid topics pr) ->
  pack_body (BSubscribe v pid topics pr) = Ok (ty, fl, bytes) -> len bytes < BIG ->
  ty = SUBSCRIBE /\ fl = 2 /\ parse_subscribe v bytes = Ok (BSubscribe v pid topics pr).
Proof.
  intros v pid topics pr ty fl bytes (_ & Hp & Hne & Hts & Hpr) Hpack Hlen.
  cbn [pack_body] in Hpack. apply ok3_inj in Hpack. destruct Hpack as (<- & <- & <-).
  split; [reflexivity|]. split; [reflexivity|].
  assert (Hbytes : put16 pid ++ (if v =? 5 then props_pack pr ++
              flat_map (fun t => put_bin (st_name t) ++
                        [N.lor (N.lor (N.lor (st_qos t) (b2n (st_nl t) 4)) (b2n (st_rap t) 8)) ((st_rh t * 16) mod 256)]) topics
            else flat_map (fun t => put_bin (st_name t) ++ [st_qos t]) topics)
          = put16 pid ++ (if v =? 5 then props_pack pr else []) ++ flat_map (enc_sub v) topics).
  { rewrite <- pack_subscribe_topics. destruct (v =? 5); reflexivity. }
  rewrite Hbytes in *. clear Hbytes.
  unfold parse_subscribe. rewrite read_uint16_put16 by lia. cbn [bind]. replace (pid =? 0) with false by lia.
  unfold oprops_inv in Hpr. destruct (v =? 5) eqn:Ev.
  - destruct Hpr as [p [-> Hinv]].
    rewrite props_rt; [|assumption|unfold BIG in Hlen; rewrite !len_app in Hlen; lia].
    cbn [bind]. rewrite sub_loop_rt; [reflexivity|assumption|assumption|lia].
  - subst pr. cbn [app bind]. rewrite sub_loop_rt; [reflexivity|assumption|assumption|lia].
Qed.

(* what Subscribe.Unpack establishes *)
Lemma land3_le : forall x, N.land 3 x <= 3.
Proof. intros. rewrite N.land_comm. change 3 with (N.ones 2). rewrite N.land_ones. cbn. lia. Qed.

Lemma sub_loop_inv : forall fuel v acc b ts,
  sub_topics_loop fuel v acc b = Ok ts -> bytes_ok b ->
  exists new, ts = acc ++ new /\ new <> [] /\ (forall t, In t new -> subtopic_inv v t).
Proof.
  induction fuel; intros v acc b ts H Hb; [discriminate|]. cbn [sub_topics_loop] in H.
  destruct (read_utf8_string true b) as [[tf b1]| | |] eqn:E1; cbn [bind] in H; try discriminate.
  apply read_utf8_string_inv in E1; [|assumption]. destruct E1 as (Hl & _ & Hb1 & Hu).
  destruct (if v =? 5 then valid_v5_topic_impl tf else valid_topic_filter_impl true tf) as [[|]| | |] eqn:Evalid;
    cbn [bind negb] in H; try discriminate.
  destruct (read_byte b1) as [[opts b2]| | |] eqn:E2; cbn [remap bind] in H; try discriminate.
  apply read_byte_inv in E2; [|assumption]. destruct E2 as (Ho & Hb2 & _).
  cbv zeta in H.
  set (t := if v =? 5 then _ else _) in H.
  destruct ((v =? 5) && (2 <? st_rh t)) eqn:C0; [discriminate|].
  destruct (negb (v =? 5) && (2 <? st_qos t)) eqn:C1; [discriminate|].
  destruct (negb (N.land 3 (N.shiftr opts 6) =? 0)) eqn:C2; [discriminate|].
  destruct (2 <? st_qos t) eqn:C3; [discriminate|].
  destruct (st_nl t && has_prefix SHARE_PREFIX tf) eqn:C4; [discriminate|].
  assert (Ht : subtopic_inv v t).
  { unfold subtopic_inv. subst t. destruct (v =? 5) eqn:Ev; cbn [st_name st_qos st_rh st_nl st_rap andb] in *.
    - split; [unfold istr_ok; rewrite Hu by reflexivity; lia|]. split; [lia|]. split.
      + unfold impl_v5. rewrite Evalid. reflexivity.
      + split; [lia|exact C4].
    - split; [unfold istr_ok; rewrite Hu by reflexivity; lia|]. split; [lia|]. split.
      + unfold impl_filter. rewrite Evalid. reflexivity.
      + auto. }
  destruct b2 as [|x b2'].
  - inversion H; subst. exists [t]. split; [reflexivity|]. split; [discriminate|]. intros t' [<-|[]]. exact Ht.
  - apply IHfuel in H; [|assumption]. destruct H as [new (-> & Hne & Hnew)].
    exists (t :: new). split; [rewrite <- app_assoc; reflexivity|]. split; [discriminate|].
    intros t' [<-|Hin]; [exact Ht|now apply Hnew].
Qed.

Lemma parse_subscribe_inv : forall v b body,
  parse_subscribe v b = Ok body -> bytes_ok b ->
  subscribe_inv v body /\ exists pid ts pr, body = BSubscribe v pid ts pr.
Proof.
  intros v b body H Hb. unfold parse_subscribe in H.
  destruct (read_uint16 b) as [[pid b1]| | |] eqn:E1; cbn [bind] in H; try discriminate.
  apply read_uint16_inv in E1; [|assumption]. destruct E1 as [Hp Hb1].
  destruct (N.eqb_spec pid 0) as [Hz|Hz]; [discriminate|].
  destruct (if v =? 5 then _ else _) as [[pr b3]| | |] eqn:E3; cbn [bind] in H; try discriminate.
  apply oprops_dec in E3; [|assumption]. destruct E3 as [Hpr Hb3].
  destruct (sub_topics_loop _ _ _ _) as [ts| | |] eqn:El; cbn [bind] in H; try discriminate.
  apply sub_loop_inv in El; [|assumption]. destruct El as [new (-> & Hne & Hnew)]. cbn [app] in *.
  inversion H; subst. split; [|eauto]. cbn [subscribe_inv].
  split; [reflexivity|]. split; [lia|]. split; [assumption|]. split; assumption.
Qed.

(* ---------------------------------------------------------------- UNSUBSCRIBE *)
Definition unsub_inv (v : N) (t : str) : Prop :=
  istr_ok t = true /\ (if v =? 5 then impl_v5 t else impl_filter t) = true.

Lemma unsub_loop_rt : forall v topics fuel acc,
  topics <> [] -> (forall t, In t topics -> unsub_inv v t) ->
  (length (flat_map put_bin topics) < fuel)%nat ->
  unsub_topics_loop fuel v acc (flat_map put_bin topics) = Ok (acc ++ topics).
Proof.
  induction topics as [|t ts IH]; intros fuel acc Hne Hinv Hf; [congruence|].
  destruct fuel; [lia|]. cbn [unsub_topics_loop flat_map].
  destruct (Hinv t (or_introl eq_refl)) as (Hname & Hfil).
  rewrite istr_ok_rt by assumption. cbn [bind].
  assert (Hvalid : (if v =? 5 then valid_v5_topic_impl t else valid_topic_filter_impl true t) = Ok true).
  { destruct (v =? 5); [apply impl_v5_true|apply impl_filter_true]; assumption. }
  rewrite Hvalid. cbn [bind negb].
  destruct ts as [|t2 ts2].
  - cbn [flat_map]. reflexivity.
  - assert (Hnz : exists x y, flat_map put_bin (t2 :: ts2) = x :: y).
    { cbn [flat_map]. unfold put_bin at 1, put16. cbn [app]. eauto. }
    destruct Hnz as [x [y Hxy]]. rewrite Hxy. rewrite <- Hxy.
    rewrite IH; [rewrite <- app_assoc; reflexivity|discriminate|intros; apply Hinv; right; assumption|].
    cbn [flat_map] in Hf. rewrite app_length in Hf. unfold put_bin in Hf at 1. rewrite app_length in Hf.
    cbn [length put16] in Hf. cbn [flat_map]. lia.
Qed.

Definition unsubscribe_inv (v : N) (b : body) : Prop :=
  match b with
  | BUnsubscribe ver pid topics pr =>
      ver = v /\ 0 < pid < 65536 /\ topics <> [] /\ (forall t, In t topics -> unsub_inv v t) /\ oprops_inv v UNSUBSCRIBE pr
  | _ => False
  end.

Lemma rt_unsubscribe : forall v pid topics pr ty fl bytes,
  unsubscribe_inv v (BUnsubscribe v pid topics pr) ->
  pack_body (BUnsubscribe v pid topics pr) = Ok (ty, fl, bytes) -> len bytes < BIG ->
  ty = UNSUBSCRIBE /\ fl = 2 /\ parse_unsubscribe v bytes = Ok (BUnsubscribe v pid topics pr).
Proof.
  intros v pid topics pr ty fl bytes (_ & Hp & Hne & Hts & Hpr) Hpack Hlen.
  cbn [pack_body] in Hpack. apply ok3_inj in Hpack. destruct Hpack as (<- & <- & <-).
  split; [reflexivity|]. split; [reflexivity|].
  unfold parse_unsubscribe. rewrite read_uint16_put16 by lia. cbn [bind]. replace (pid =? 0) with false by lia.
  unfold oprops_inv in Hpr. destruct (v =? 5) eqn:Ev.
  - destruct Hpr as [p [-> Hinv]].
    rewrite props_rt; [|assumption|unfold BIG in Hlen; rewrite !len_app in Hlen; lia].
    cbn [bind]. rewrite unsub_loop_rt; [reflexivity|assumption|assumption|lia].
  - subst pr. cbn [app bind]. rewrite unsub_loop_rt; [reflexivity|assumption|assumption|lia].
Qed.

Lemma unsub_loop_inv : forall fuel v acc b ts,
  unsub_topics_loop fuel v acc b = Ok ts -> bytes_ok b ->
  exists new, ts = acc ++ new /\ new <> [] /\ (forall t, In t new -> unsub_inv v t).
Proof.
  induction fuel; intros v acc b ts H Hb; [discriminate|]. cbn [unsub_topics_loop] in H.
  destruct (read_utf8_string true b) as [[tf b1]| | |] eqn:E1; cbn [bind] in H; try discriminate.
  apply read_utf8_string_inv in E1; [|assumption]. destruct E1 as (Hl & _ & Hb1 & Hu).
  destruct (if v =? 5 then valid_v5_topic_impl tf else valid_topic_filter_impl true tf) as [[|]| | |] eqn:Evalid;
    cbn [bind negb] in H; try discriminate.
  assert (Ht : unsub_inv v tf).
  { split; [unfold istr_ok; rewrite Hu by reflexivity; lia|].
    destruct (v =? 5); [unfold impl_v5|unfold impl_filter]; rewrite Evalid; reflexivity. }
  destruct b1 as [|x b1'].
  - inversion H; subst. exists [tf]. split; [reflexivity|]. split; [discriminate|]. intros t' [<-|[]]. exact Ht.
  - apply IHfuel in H; [|assumption]. destruct H as [new (-> & Hne & Hnew)].
    exists (tf :: new). split; [rewrite <- app_assoc; reflexivity|]. split; [discriminate|].
    intros t' [<-|Hin]; [exact Ht|now apply Hnew].
Qed.

Lemma parse_unsubscribe_inv : forall v b body,
  parse_unsubscribe v b = Ok body -> bytes_ok b ->
  unsubscribe_inv v body /\ exists pid ts pr, body = BUnsubscribe v pid ts pr.
Proof.
  intros v b body H Hb. unfold parse_unsubscribe in H.
  destruct (read_uint16 b) as [[pid b1]| | |] eqn:E1; cbn [bind] in H; try discriminate.
  apply read_uint16_inv in E1; [|assumption]. destruct E1 as [Hp Hb1].
  destruct (N.eqb_spec pid 0) as [Hz|Hz]; [discriminate|].
  destruct (if v =? 5 then _ else _) as [[pr b3]| | |] eqn:E3; cbn [bind] in H; try discriminate.
  apply oprops_dec in E3; [|assumption]. destruct E3 as [Hpr Hb3].
  destruct (unsub_topics_loop _ _ _ _) as [ts| | |] eqn:El; cbn [bind] in H; try discriminate.
  apply unsub_loop_inv in El; [|assumption]. destruct El as [new (-> & Hne & Hnew)]. cbn [app] in *.
  inversion H; subst. split; [|eauto]. cbn [unsubscribe_inv].
  split; [reflexivity|]. split; [lia|]. split; [assumption|]. split; assumption.
Qed.
