(* Laws of the abstract session store (Model/SessStore.v), for all histories: the key invariant (one entry per
   client id), Get answers the last Set unless removed since, operations on one id leave every other id alone,
   SetSessionExpiry changes the expiry of an existing session only, Iterate lists exactly the stored ids, each once. *)
From Coq Require Import List NArith Bool Arith.
Import ListNotations.
From GM Require Import Base.Topic Base.Msg Model.SubTrie Model.SessStore Proofs.TopicP Proofs.SubTrieP.
Open Scope N_scope.

Definition ss_inv (st : sstore) : Prop := NoDup (map fst st) /\ forall c s, aget c st = Some s -> ss_cid s = c.

Lemma ss_inv_nil : ss_inv []. 
Proof. split; [constructor|]. intros c s H. discriminate. Qed.

Lemma ss_step_inv st o : ss_inv st -> ss_inv (fst (ss_step st o)).
Proof.
  intros [Hn Hk]. destruct o as [s|c|c|c e| |]; cbn [ss_step fst]; try (split; assumption).
  - split; [now apply NoDup_aset|]. intros c s' H. rewrite aget_aset in H.
    destruct (str_eqb c (ss_cid s)) eqn:E; [|now apply Hk].
    injection H as <-. symmetry. now apply str_eqb_eq.
  - split; [now apply NoDup_adel|]. intros c' s' H.
    rewrite aget_adel in H by assumption. destruct (str_eqb c' c); [discriminate|now apply Hk].
  - destruct (aget c st) as [s|] eqn:Eg; [|split; assumption].
    split; [now apply NoDup_aset|]. intros c' s' H. rewrite aget_aset in H.
    destruct (str_eqb c' c) eqn:E; [|now apply Hk].
    injection H as <-. cbn [with_expiry_s ss_cid]. apply str_eqb_eq in E. subst c'. now apply Hk.
Qed.

Lemma ss_run_inv ops : forall st, ss_inv st -> ss_inv (fst (ss_run st ops)).
Proof.
  induction ops as [|o r IH]; intros st H; cbn [ss_run]; [exact H|].
  pose proof (ss_step_inv st o H) as H1. destruct (ss_step st o) as [st1 x]. cbn [fst] in H1.
  specialize (IH st1 H1). destruct (ss_run st1 r) as [st2 xs]. exact IH.
Qed.

(* what one operation does to what Get answers *)
Lemma ss_get_after st o c : ss_inv st ->
  aget c (fst (ss_step st o)) =
  match o with
  | SsSet s => if str_eqb c (ss_cid s) then Some s else aget c st
  | SsRemove c' => if str_eqb c c' then None else aget c st
  | SsSetExpiry c' e => if str_eqb c c' then option_map (with_expiry_s e) (aget c st) else aget c st
  | _ => aget c st
  end.
Proof.
  intros [Hn Hk]. destruct o as [s|c'|c'|c' e| |]; cbn [ss_step fst]; try reflexivity.
  - apply aget_aset.
  - now apply aget_adel.
  - destruct (str_eqb c c') eqn:E.
    + apply str_eqb_eq in E. subst c'. destruct (aget c st) as [s|] eqn:Eg; cbn [option_map].
      * apply aget_aset_same.
      * exact Eg.
    + destruct (aget c' st) as [s|]; [|reflexivity]. apply aget_aset_other. intros ->. rewrite str_eqb_refl in E. discriminate.
Qed.

(* Iterate lists exactly what Get finds, each client id once *)
Lemma ss_iterate_exact st : ss_inv st ->
  NoDup (map ss_cid (map snd st)) /\ forall s, In s (map snd st) <-> aget (ss_cid s) st = Some s.
Proof.
  intros [Hn Hk]. split.
  - assert (E : map ss_cid (map snd st) = map fst st).
    { rewrite map_map. apply map_ext_in. intros [c s] Hin. cbn [fst snd]. apply Hk. now apply In_aget. }
    rewrite E. exact Hn.
  - intros s. split.
    + intros H. apply in_map_iff in H. destruct H as [[c s'] [E Hin]]. cbn [snd] in E. subst s'.
      pose proof (In_aget _ _ _ Hn Hin) as Hg. rewrite (Hk _ _ Hg). exact Hg.
    + intros H. apply aget_In in H. apply in_map_iff. exists (ss_cid s, s). split; [reflexivity|exact H].
Qed.

(* the oracle accepts the machine's own answers *)
Lemma sess_eqb_refl s : sess_eqb s s = true.
Proof.
  unfold sess_eqb. rewrite str_eqb_refl, !N.eqb_refl.
  destruct (ss_will s) as [m|]; cbn [optmsg_eqb andb]; [|reflexivity].
  assert (H : msg_eqb m m = true).
  { unfold msg_eqb. rewrite !Bool.eqb_reflx, !N.eqb_refl, !str_eqb_refl.
    assert (L1 : forall l, list_eqb N.eqb l l = true) by (induction l as [|x l IH]; cbn; [reflexivity|now rewrite N.eqb_refl, IH]).
    assert (L2 : forall l : list (str * str), list_eqb (fun x y => str_eqb (fst x) (fst y) && str_eqb (snd x) (snd y)) l l = true)
      by (induction l as [|x l IH]; cbn; [reflexivity|now rewrite !str_eqb_refl, IH]).
    now rewrite L1, L2. }
  now rewrite H.
Qed.

Lemma iter_covers_refl l : iter_covers l l = true.
Proof.
  unfold iter_covers. apply forallb_forall. intros s H. apply existsb_exists. exists s. split; [exact H|apply sess_eqb_refl].
Qed.

Lemma ssout_eqb_refl x : ssout_eqb x x = true.
Proof.
  destruct x as [|[s|]|l]; cbn [ssout_eqb]; try reflexivity; [apply sess_eqb_refl|].
  now rewrite Nat.eqb_refl, iter_covers_refl.
Qed.

Lemma ss_ok_run ops : forall st, ss_ok st ops (snd (ss_run st ops)) = true.
Proof.
  induction ops as [|o r IH]; intros st; cbn [ss_run]; [reflexivity|].
  destruct (ss_step st o) as [st1 x] eqn:E. specialize (IH st1). destruct (ss_run st1 r) as [st2 xs]. cbn [snd] in *.
  cbn [ss_ok]. rewrite E. now rewrite ssout_eqb_refl, IH.
Qed.
