(* C03 over whole runs of the broker model (Model/Broker.v): the invariant PollInv of Proofs/BrokerPollP.v
   (packet id limiter = in-flight part of the session queue, ids distinct and non-zero, bounded window) holds
   for every attached connection of every state reached by a well-behaved run.
   The global invariant GInv joins the structural invariant BInv (Proofs/BrokerInvP.v), AllPoll, the queue
   shape QInv of every stored queue (so that a resume finds what connect needs), and "stored messages carry
   no packet id" for retained messages and wills. *)
From Coq Require Import List NArith ZArith Bool Arith Lia ZifyN ZifyNat ZifyBool.
Import ListNotations.
From GM Require Import Base.Topic Base.Msg Model.SubTrie Model.RetTrie Model.Queue Model.Limiter
                       Model.TopicMatch Model.Broker Proofs.TopicP Proofs.SubTrieP Proofs.LimiterP Proofs.QueueP
                       Proofs.BrokerBasicP Proofs.BrokerInvP Proofs.BrokerPollP.
From GM Require Proofs.BrokerQos2P.
Open Scope N_scope.

(* `attached` is BrokerPollP.attached (conn -> Prop); the boolean on phases is BrokerInvP.attached *)
Notation pattached := BrokerPollP.attached.
Notation battached := BrokerInvP.attached.

(* ------------------------------------------------------------------ *)
(* 0. small facts                                                      *)
(* ------------------------------------------------------------------ *)

Lemma pattached_b k : pattached k <-> battached (k_phase k) = true.
Proof. unfold BrokerPollP.attached, BrokerInvP.attached. destruct (k_phase k); split; intros H; try tauto; try discriminate; destruct H; discriminate. Qed.

Lemma in_aset' {V} (k : str) (v : V) l x : In x (aset k v l) -> x = (k, v) \/ In x l.
Proof. apply BrokerInvP.in_aset. Qed.

Lemma aget_None_notin {V} k (v : V) l : aget k l = None -> ~ In (k, v) l.
Proof.
  induction l as [|[k0 v0] r IH]; cbn [aget In]; [tauto|].
  destruct (str_eqb_spec k k0) as [E|E]; [discriminate|]. intros H [H1|H1]; [congruence|now apply IH].
Qed.

(* the parts of a connection record the invariant CQ reads (and the client id) *)
Definition cqe (k k' : conn) : Prop :=
  k_cid k' = k_cid k /\ k_lim k' = k_lim k /\ k_held k' = k_held k /\ k_drained k' = k_drained k /\
  k_max_inflight k' = k_max_inflight k /\ k_client_max_packet k' = k_client_max_packet k /\ k_v k' = k_v k /\
  k_client_alias_max k' = k_client_alias_max k /\ am_max (k_alias_out k') = am_max (k_alias_out k).

Lemma cqe_refl k : cqe k k.
Proof. unfold cqe. auto 10. Qed.

Lemma CQ_cqe w k k' q b inf que : cqe k k' -> CQ w k q b inf que -> CQ w k' q b inf que.
Proof.
  intros (Hc & Hl & Hh & Hd & Hmi & Hmp & Hv & Ham & Hamx) [H1 H2 H3 H4 H5 H6 H7 H8 H9 H10 H11 H12].
  pose proof (held_ids_eq _ _ Hh) as Hh'.
  constructor; rewrite ?Hl, ?Hh', ?Hh, ?Hd, ?Hmi, ?Hmp, ?Hv, ?Ham, ?Hamx; auto.
Qed.

Lemma cqe_set_quota q k : cqe k (set_quota q k). Proof. unfold cqe; cbn; auto 10. Qed.
Lemma cqe_set_alias_in a k : cqe k (set_alias_in a k). Proof. unfold cqe; cbn; auto 10. Qed.
Lemma cqe_set_disc cw sei k : cqe k (set_disc cw sei k). Proof. unfold cqe; cbn; auto 10. Qed.
Lemma cqe_set_force k : cqe k (set_force k). Proof. unfold cqe; cbn; auto 10. Qed.
Lemma cqe_set_zombie k : cqe k (set_phase PhZombie k). Proof. unfold cqe; cbn; auto 10. Qed.

Lemma CQ_close w k q b inf que : CQ w k q b inf que -> CQ w k (q_close q) b inf que.
Proof.
  intros [H1 H2 H3 H4 H5 H6 H7 H8 H9 H10 H11 H12]. constructor; auto. now apply QInv_close.
Qed.

(* ------------------------------------------------------------------ *)
(* 1. the invariant                                                    *)
(* ------------------------------------------------------------------ *)

(* every stored queue has the queue shape (for the tag counter of the state) *)
Definition QS (s : st) : Prop :=
  forall cid q, In (cid, q) (b_queues s) -> exists inf que, QInv q (b_tag s) inf que.

(* stored messages carry no packet id: retained messages, the wills of the sessions, delayed wills *)
Definition ret_pz (d : rdb) : Prop := forall m, In m (rdb_all d) -> m_pid m = 0.
Definition sess_pz (l : list (str * session)) : Prop :=
  forall cid se w, In (cid, se) l -> se_will se = Some w -> m_pid w = 0.
Definition wills_pz (l : list (str * (msg * N))) : Prop :=
  forall cid w t, In (cid, (w, t)) l -> m_pid w = 0.
Definition PZ (s : st) : Prop := ret_pz (b_ret s) /\ sess_pz (b_sessions s) /\ wills_pz (b_wills s).

(* the window of an attached connection never exceeds the configured max_inflight *)
Definition KW (s : st) : Prop :=
  forall c k, nget c (b_conns s) = Some k -> pattached k -> k_max_inflight k <= c_max_inflight (b_cfg s).

Record J (w : bool) (s : st) : Prop := {
  j_poll : AllPoll w s;
  j_qs : QS s;
  j_pz : PZ s;
  j_tag : b_tag s <> 0;
  j_cfg : c_max_inflight (b_cfg s) <= MAXPID;
  j_kw : KW s }.

Lemma KW_same s s' : b_conns s' = b_conns s -> b_cfg s' = b_cfg s -> KW s -> KW s'.
Proof. unfold KW. now intros -> ->. Qed.

Lemma KW_upd_conn c k k' s :
  KW s -> nget c (b_conns s) = Some k -> k_max_inflight k' = k_max_inflight k -> (pattached k' -> pattached k) ->
  KW (upd_conn c k' s).
Proof.
  intros HK Hk He Hat c2 k2 Hk2 Hat2. rewrite upd_conn_cfg. destruct (N.eq_dec c2 c) as [->|Hne].
  - rewrite nget_upd_eq in Hk2. inversion Hk2; subst k2. rewrite He. eapply HK; eauto.
  - rewrite nget_upd_ne in Hk2 by exact Hne. eapply HK; eauto.
Qed.

Lemma KW_upd_detached c k' s : KW s -> ~ pattached k' -> KW (upd_conn c k' s).
Proof.
  intros HK Hn c2 k2 Hk2 Hat2. rewrite upd_conn_cfg. destruct (N.eq_dec c2 c) as [->|Hne].
  - rewrite nget_upd_eq in Hk2. inversion Hk2; subst k2. contradiction.
  - rewrite nget_upd_ne in Hk2 by exact Hne. eapply HK; eauto.
Qed.

Definition GInv (w : bool) (s : st) : Prop := BInv s /\ J w s.

(* PollInv reads only these parts of the state *)
Lemma PollInv_same w s s' c :
  b_conns s' = b_conns s -> b_queues s' = b_queues s -> b_online s' = b_online s -> b_tag s' = b_tag s ->
  PollInv w s c -> PollInv w s' c.
Proof. unfold PollInv. now intros -> -> -> ->. Qed.

Lemma AllPoll_same w s s' :
  b_conns s' = b_conns s -> b_queues s' = b_queues s -> b_online s' = b_online s -> b_tag s' = b_tag s ->
  AllPoll w s -> AllPoll w s'.
Proof.
  intros Hc Hq Ho Ht HA c k Hk Hat. rewrite Hc in Hk. eapply PollInv_same; eauto.
Qed.

Lemma QS_same s s' : b_queues s' = b_queues s -> b_tag s' = b_tag s -> QS s -> QS s'.
Proof. unfold QS. now intros -> ->. Qed.

Lemma PZ_same s s' :
  b_ret s' = b_ret s -> b_sessions s' = b_sessions s -> b_wills s' = b_wills s -> PZ s -> PZ s'.
Proof. unfold PZ. now intros -> -> ->. Qed.

Lemma J_same w s s' :
  b_conns s' = b_conns s -> b_queues s' = b_queues s -> b_online s' = b_online s -> b_tag s' = b_tag s ->
  b_ret s' = b_ret s -> b_sessions s' = b_sessions s -> b_wills s' = b_wills s -> b_cfg s' = b_cfg s ->
  J w s -> J w s'.
Proof.
  intros Hc Hq Ho Ht Hr Hs Hw Hcf [H1 H2 H3 H4 H5 H6]. constructor.
  - eapply AllPoll_same; eauto.
  - eapply QS_same; eauto.
  - eapply PZ_same; eauto.
  - now rewrite Ht.
  - now rewrite Hcf.
  - eapply KW_same; eauto.
Qed.

(* a connection record is rewritten without touching what CQ reads *)
Lemma PollInv_upd_self w c k k' s :
  PollInv w s c -> nget c (b_conns s) = Some k -> cqe k k' -> PollInv w (upd_conn c k' s) c.
Proof.
  intros (k0 & q & inf & que & Hk0 & Hq & Hon & Hun & Htag & HCQ) Hk He.
  rewrite Hk in Hk0. inversion Hk0; subst k0. clear Hk0.
  pose proof He as (Hcid & _).
  exists k', q, inf, que. rewrite nget_upd_eq, upd_conn_queues, upd_conn_online, upd_conn_tag, Hcid.
  split; [reflexivity|]. split; [exact Hq|]. split; [exact Hon|]. split; [exact Hun|]. split; [exact Htag|].
  eapply CQ_cqe; eauto.
Qed.

Lemma PollInv_upd_other w c c2 k' s : c2 <> c -> PollInv w s c2 -> PollInv w (upd_conn c k' s) c2.
Proof.
  intros Hne (k0 & q & inf & que & Hk0 & Hq & Hon & Hun & Htag & HCQ).
  exists k0, q, inf, que. rewrite nget_upd_ne by exact Hne. rewrite upd_conn_queues, upd_conn_online, upd_conn_tag. auto 10.
Qed.

Lemma AllPoll_upd_conn w c k k' s :
  AllPoll w s -> nget c (b_conns s) = Some k -> cqe k k' -> (pattached k' -> pattached k) -> AllPoll w (upd_conn c k' s).
Proof.
  intros HA Hk He Hat c2 k2 Hk2 Hat2. destruct (N.eq_dec c2 c) as [->|Hne].
  - rewrite nget_upd_eq in Hk2. inversion Hk2; subst k2. eapply PollInv_upd_self; eauto.
  - rewrite nget_upd_ne in Hk2 by exact Hne. apply PollInv_upd_other; [exact Hne|]. eapply HA; eauto.
Qed.

Lemma AllPoll_upd_detached w c k' s : AllPoll w s -> ~ pattached k' -> AllPoll w (upd_conn c k' s).
Proof.
  intros HA Hn c2 k2 Hk2 Hat2. destruct (N.eq_dec c2 c) as [->|Hne].
  - rewrite nget_upd_eq in Hk2. inversion Hk2; subst k2. contradiction.
  - rewrite nget_upd_ne in Hk2 by exact Hne. apply PollInv_upd_other; [exact Hne|]. eapply HA; eauto.
Qed.

Lemma J_upd_conn w c k k' s :
  J w s -> nget c (b_conns s) = Some k -> cqe k k' -> (pattached k' -> pattached k) -> J w (upd_conn c k' s).
Proof.
  intros [H1 H2 H3 H4 H5 H6] Hk He Hat. constructor; auto; [eapply AllPoll_upd_conn; eauto|].
  eapply KW_upd_conn; eauto. apply He.
Qed.

Lemma J_upd_detached w c k' s : J w s -> ~ pattached k' -> J w (upd_conn c k' s).
Proof. intros [H1 H2 H3 H4 H5 H6] Hn. constructor; auto; [now apply AllPoll_upd_detached|now apply KW_upd_detached]. Qed.

(* the receive-quota bump of the PUBLISH / PUBREL handlers *)
Lemma J_bump_quota w c s (b : conn -> bool) :
  J w s -> J w (match nget c (b_conns s) with
                | Some k1 => if b k1 then upd_conn c (set_quota (k_quota k1 + 1) k1) s else s
                | None => s
                end).
Proof.
  intros HJ. destruct (nget c (b_conns s)) as [k1|] eqn:E; [|exact HJ]. destruct (b k1); [|exact HJ].
  eapply J_upd_conn; eauto using cqe_set_quota.
Qed.

(* closing the queue store of a session *)
Lemma J_closed_q w cid s : J w s -> J w (closed_q cid s).
Proof.
  intros [HA HQ HP HT HC HK]. unfold closed_q. destruct (aget cid (b_queues s)) as [q|] eqn:Eq; [|constructor; auto].
  constructor; auto.
  - intros c k Hk Hat. rewrite set_queues_conns in Hk.
    destruct (HA c k Hk Hat) as (k0 & q0 & inf & que & Hk0 & Hq0 & Hon & Hun & Htag & HCQ).
    destruct (str_dec (k_cid k0) cid) as [E|E].
    + exists k0, (q_close q), inf, que. rewrite set_queues_conns, set_queues_queues, set_queues_online, set_queues_tag.
      rewrite E, aget_aset_eq. rewrite E, Eq in Hq0. inversion Hq0; subst q0.
      rewrite <- E. split; [exact Hk0|]. split; [reflexivity|]. split; [exact Hon|]. split; [exact Hun|].
      split; [exact Htag|]. now apply CQ_close.
    + exists k0, q0, inf, que. rewrite set_queues_conns, set_queues_queues, set_queues_online, set_queues_tag.
      rewrite aget_aset_ne by exact E. auto 10.
  - intros cid' q' Hin. rewrite set_queues_queues in Hin. rewrite set_queues_tag.
    apply in_aset' in Hin. destruct Hin as [Hin|Hin].
    + inversion Hin; subst. destruct (HQ cid q (aget_In _ _ _ Eq)) as (inf & que & H). exists inf, que. now apply QInv_close.
    + eauto.
Qed.

(* ------------------------------------------------------------------ *)
(* 2. adding to a session queue (addMsgToQueueLocked, the retained replay) *)
(* ------------------------------------------------------------------ *)

(* what add_to_queue and replay_retained do once Add has succeeded *)
Definition enq (cid : str) (q' : queue) (evs : list qev) (s : st) : st :=
  release_dropped cid evs (set_picks_tag (b_picks s) (b_tag s + 1) (set_queues (aset cid q' (b_queues s)) s)).

Lemma release_dropped_proj cid evs s :
  b_queues (release_dropped cid evs s) = b_queues s /\ b_online (release_dropped cid evs s) = b_online s /\
  b_tag (release_dropped cid evs s) = b_tag s /\ b_ret (release_dropped cid evs s) = b_ret s /\
  b_sessions (release_dropped cid evs s) = b_sessions s /\ b_wills (release_dropped cid evs s) = b_wills s /\
  b_cfg (release_dropped cid evs s) = b_cfg s.
Proof.
  rewrite release_dropped_eq. destruct (aget cid (b_online s)) as [c|]; [|auto 10].
  destruct (nget c (b_conns s)); auto 10.
Qed.

Lemma enq_proj cid q' evs s :
  b_queues (enq cid q' evs s) = aset cid q' (b_queues s) /\ b_online (enq cid q' evs s) = b_online s /\
  b_tag (enq cid q' evs s) = b_tag s + 1 /\ b_ret (enq cid q' evs s) = b_ret s /\
  b_sessions (enq cid q' evs s) = b_sessions s /\ b_wills (enq cid q' evs s) = b_wills s /\
  b_cfg (enq cid q' evs s) = b_cfg s.
Proof.
  unfold enq. destruct (release_dropped_proj cid evs (set_picks_tag (b_picks s) (b_tag s + 1) (set_queues (aset cid q' (b_queues s)) s)))
    as (H1 & H2 & H3 & H4 & H5 & H6 & H7).
  rewrite H1, H2, H3, H4, H5, H6, H7. auto 10.
Qed.

Lemma enq_AllPoll w cid q e q' evs now s :
  AllPoll w s -> b_tag s <> 0 -> aget cid (b_queues s) = Some q -> quedok e -> e_tag e = b_tag s ->
  q_add now e q = QOk (q', evs) -> AllPoll w (enq cid q' evs s).
Proof.
  intros HA Htag Hq He Het Hqa c2 k2 Hk2 Hat2.
  destruct (enq_proj cid q' evs s) as (Pq & Po & Pt & _).
  (* a connection of another client: only the tag counter moves *)
  assert (Hoth : forall k0, nget c2 (b_conns s) = Some k0 -> pattached k0 -> nget c2 (b_conns (enq cid q' evs s)) = Some k0 ->
                            (aget cid (b_online s) = Some c2 -> False) -> PollInv w (enq cid q' evs s) c2).
  { intros k0 Hk0 Hat0 Hk0' Hnc.
    destruct (HA c2 k0 Hk0 Hat0) as (k1 & q1 & inf & que & Hk1 & Hq1 & Hon & Hun & _ & HCQ).
    rewrite Hk0 in Hk1. inversion Hk1; subst k1. clear Hk1.
    assert (Hne : k_cid k0 <> cid) by (intros E; apply Hnc; now rewrite <- E).
    exists k0, q1, inf, que. rewrite Pq, Po, Pt. rewrite aget_aset_ne by exact Hne.
    split; [exact Hk0'|]. split; [exact Hq1|]. split; [exact Hon|]. split; [exact Hun|]. split; [lia|].
    eapply CQ_mono; [|exact HCQ]. lia. }
  unfold enq in Hk2 |- *. rewrite release_dropped_eq in Hk2.
  rewrite set_picks_tag_online, set_queues_online, set_picks_tag_conns, set_queues_conns in Hk2.
  fold (enq cid q' evs s).
  assert (Hconns : b_conns (enq cid q' evs s) =
                   match aget cid (b_online s) with
                   | None => b_conns s
                   | Some c => match nget c (b_conns s) with
                               | None => b_conns s
                               | Some k => nset c (set_lim_held (rel_fold evs (k_lim k)) (k_held k) (k_drained k) k) (b_conns s)
                               end
                   end).
  { unfold enq. rewrite release_dropped_eq. rewrite set_picks_tag_online, set_queues_online, set_picks_tag_conns, set_queues_conns.
    destruct (aget cid (b_online s)) as [c0|]; [|reflexivity]. destruct (nget c0 (b_conns s)); reflexivity. }
  destruct (aget cid (b_online s)) as [c0|] eqn:Hon0.
  - destruct (nget c0 (b_conns s)) as [k0|] eqn:Hk0.
    + rewrite upd_conn_conns, set_picks_tag_conns, set_queues_conns in Hk2.
      destruct (N.eq_dec c2 c0) as [->|Hne].
      * rewrite nget_nset_eq in Hk2. inversion Hk2; subst k2. clear Hk2.
        assert (Hat0 : pattached k0) by exact Hat2.
        destruct (HA c0 k0 Hk0 Hat0) as (k1 & q1 & inf & que & Hk1 & Hq1 & Hon & Hun & _ & HCQ).
        rewrite Hk0 in Hk1. inversion Hk1; subst k1. clear Hk1.
        assert (Ec : cid = k_cid k0) by (now apply Hun). subst cid.
        rewrite Hq in Hq1. inversion Hq1; subst q1. clear Hq1.
        destruct (CQ_add w k0 q (b_tag s) inf que now e q' evs HCQ He Het Htag Hqa) as (inf' & que' & HCQ' & _).
        exists (set_lim_held (rel_fold evs (k_lim k0)) (k_held k0) (k_drained k0) k0), q', inf', que'.
        rewrite Hconns, Pq, Po, Pt, nget_nset_eq, slh_cid, aget_aset_eq.
        split; [reflexivity|]. split; [reflexivity|]. split; [exact Hon|]. split; [exact Hun|]. split; [lia|exact HCQ'].
      * rewrite nget_nset_ne in Hk2 by exact Hne. apply (Hoth k2 Hk2 Hat2).
        -- rewrite Hconns. now rewrite nget_nset_ne by exact Hne.
        -- intros E. congruence.
    + rewrite set_picks_tag_conns, set_queues_conns in Hk2. apply (Hoth k2 Hk2 Hat2).
      * now rewrite Hconns.
      * intros E. congruence.
  - rewrite set_picks_tag_conns, set_queues_conns in Hk2. apply (Hoth k2 Hk2 Hat2).
    + now rewrite Hconns.
    + intros E. discriminate.
Qed.

Lemma enq_QS cid q e q' evs now s :
  QS s -> b_tag s <> 0 -> aget cid (b_queues s) = Some q -> quedok e -> e_tag e = b_tag s ->
  q_add now e q = QOk (q', evs) -> QS (enq cid q' evs s).
Proof.
  intros HQ Htag Hq He Het Hqa cid' q1 Hin.
  destruct (enq_proj cid q' evs s) as (Pq & _ & Pt & _). rewrite Pq in Hin. rewrite Pt.
  apply in_aset' in Hin. destruct Hin as [Hin|Hin].
  - inversion Hin; subst cid' q1. destruct (HQ cid q (aget_In _ _ _ Hq)) as (inf & que & HI).
    destruct (q_add_inv now e q (b_tag s) inf que q' evs HI He Het Htag Hqa) as (_ & _ & [(que' & HI' & _)|(i & d & que' & _ & HI' & _)]); eauto.
  - destruct (HQ cid' q1 Hin) as (inf & que & HI). exists inf, que. eapply QInv_mono; [|exact HI]. lia.
Qed.

Lemma enq_J w cid q e q' evs now s :
  J w s -> aget cid (b_queues s) = Some q -> quedok e -> e_tag e = b_tag s ->
  q_add now e q = QOk (q', evs) -> J w (enq cid q' evs s).
Proof.
  intros [HA HQ HP HT HC HK] Hq He Het Hqa.
  destruct (enq_proj cid q' evs s) as (_ & _ & Pt & Pr & Ps & Pw & Pc).
  constructor.
  - eapply enq_AllPoll; eauto.
  - eapply enq_QS; eauto.
  - eapply PZ_same; eauto.
  - rewrite Pt. lia.
  - now rewrite Pc.
  - unfold enq. rewrite release_dropped_eq. rewrite set_picks_tag_online, set_queues_online, set_picks_tag_conns, set_queues_conns.
    assert (HK1 : KW (set_picks_tag (b_picks s) (b_tag s + 1) (set_queues (aset cid q' (b_queues s)) s)))
      by (eapply KW_same; [..|exact HK]; reflexivity).
    destruct (aget cid (b_online s)) as [c0|]; [|exact HK1]. destruct (nget c0 (b_conns s)) as [k0|] eqn:Hk0; [|exact HK1].
    eapply KW_upd_conn; [exact HK1|exact Hk0|reflexivity|]. intros H; exact H.
Qed.

Lemma add_to_queue_J w cid m sb ids s : J w s -> m_pid m = 0 -> J w (fst (add_to_queue cid m sb ids s)).
Proof.
  intros HJ Hpid. unfold add_to_queue.
  destruct (aget cid (b_queues s)) as [q0|] eqn:Hq0; [|exact HJ].
  destruct (negb (c_queue_qos0 (b_cfg s)) && negb (ahas cid (b_online s)) && (m_qos m =? 0)); [exact HJ|].
  match goal with |- context [q_add ?n ?e0 q0] => set (e := e0); set (now := n) end.
  destruct (q_add now e q0) as [[q' evs]| | |] eqn:Hqa; try exact HJ.
  cbn [fst]. apply (enq_J w cid q0 e q' evs now s HJ Hq0); auto.
  unfold quedok, e; cbn. auto.
Qed.

Lemma J_count_pick w s : J w s -> J w (count_pick s).
Proof. apply J_same; reflexivity. Qed.
Lemma J_set_picks w r s : J w s -> J w (set_picks_tag r (b_tag s) s).
Proof. apply J_same; reflexivity. Qed.

Lemma deliver_J w src m s : J w s -> m_pid m = 0 -> J w (fst (fst (deliver src m s))).
Proof.
  intros HJ Hpid. apply (deliver_inv (J w)); auto using J_count_pick, J_set_picks.
  intros cid sb ids s0 H0. now apply add_to_queue_J.
Qed.

(* ------------------------------------------------------------------ *)
(* 3. stored messages carry no packet id                               *)
(* ------------------------------------------------------------------ *)

Definition ch_msgs (ch : list (level * rnode)) : list msg :=
  flat_map (fun p : level * rnode => let '(_, c) := p in r_traverse c) ch.

Lemma traverse_unfold n :
  r_traverse n = (match r_msg n with Some x => [x] | None => [] end) ++ ch_msgs (r_children n).
Proof. destruct n; reflexivity. Qed.

Lemma in_ch_msgs m ch : In m (ch_msgs ch) <-> exists lv c, In (lv, c) ch /\ In m (r_traverse c).
Proof.
  unfold ch_msgs. rewrite in_flat_map. split.
  - intros ([lv c] & H1 & H2). eauto.
  - intros (lv & c & H1 & H2). exists (lv, c). auto.
Qed.

Lemma in_traverse_child m n lv c : In (lv, c) (r_children n) -> In m (r_traverse c) -> In m (r_traverse n).
Proof. intros H1 H2. rewrite traverse_unfold. apply in_or_app. right. apply in_ch_msgs. eauto. Qed.

Lemma in_traverse_msg m n : r_msg n = Some m -> In m (r_traverse n).
Proof. intros H. rewrite traverse_unfold, H. now left. Qed.

Lemma in_traverse_add m m0 : forall p n, In m (r_traverse (r_add p m0 n)) -> m = m0 \/ In m (r_traverse n).
Proof.
  induction p as [|lv rest IH]; intros n H; cbn [r_add] in H; rewrite traverse_unfold in H; cbn [r_msg r_children] in H.
  - apply in_app_or in H. destruct H as [[H|[]]|H]; [now left|right].
    rewrite traverse_unfold. apply in_or_app. now right.
  - apply in_app_or in H. destruct H as [H|H].
    + right. rewrite traverse_unfold. apply in_or_app. now left.
    + apply in_ch_msgs in H. destruct H as (lv' & c' & Hin & Hm). apply in_aset' in Hin. destruct Hin as [Hin|Hin].
      * inversion Hin; subst lv' c'. apply IH in Hm. destruct Hm as [Hm|Hm]; [now left|right].
        unfold r_child in Hm. destruct (aget lv (r_children n)) as [x|] eqn:E.
        -- eapply in_traverse_child; [eapply aget_In; exact E|exact Hm].
        -- destruct Hm.
      * right. exact (in_traverse_child m n lv' c' Hin Hm).
Qed.

Lemma in_traverse_remove m : forall p n, In m (r_traverse (r_remove p n)) -> In m (r_traverse n).
Proof.
  induction p as [|lv rest IH]; intros n H; cbn [r_remove] in H; [exact H|].
  unfold r_child in H. destruct (aget lv (r_children n)) as [ch|] eqn:E; [|exact H].
  assert (Hch : In (lv, ch) (r_children n)) by (eapply aget_In; exact E).
  assert (Hgen : forall X, (In m (r_traverse X) -> In m (r_traverse ch)) ->
                 In m (r_traverse (RNode (r_msg n) (aset lv X (r_children n)))) -> In m (r_traverse n)).
  { intros X HX H0. rewrite traverse_unfold in H0. cbn [r_msg r_children] in H0. apply in_app_or in H0. destruct H0 as [H0|H0].
    - rewrite traverse_unfold. apply in_or_app. now left.
    - apply in_ch_msgs in H0. destruct H0 as (lv' & c' & Hin & Hm). apply in_aset' in Hin. destruct Hin as [Hin|Hin].
      + inversion Hin; subst lv' c'. eapply in_traverse_child; [exact Hch|auto].
      + exact (in_traverse_child m n lv' c' Hin Hm). }
  destruct rest as [|a r'].
  - destruct (r_children ch) as [|x xs] eqn:Ec.
    + rewrite traverse_unfold in H. cbn [r_msg r_children] in H. apply in_app_or in H. destruct H as [H|H].
      * rewrite traverse_unfold. apply in_or_app. now left.
      * apply in_ch_msgs in H. destruct H as (lv' & c' & Hin & Hm). apply In_adel in Hin. exact (in_traverse_child m n lv' c' Hin Hm).
    + apply (Hgen (RNode None (x :: xs))); [|exact H]. intros H0. rewrite traverse_unfold in H0. cbn [r_msg r_children app] in H0.
      rewrite traverse_unfold, Ec. apply in_or_app. now right.
  - apply (Hgen (r_remove (a :: r') ch)); [|exact H]. apply IH.
Qed.

Lemma in_match_traverse m : forall fs n, In m (r_match fs n) -> In m (r_traverse n).
Proof.
  induction fs as [|f rest IH]; intros n H; cbn [r_match] in H; [destruct H|].
  assert (Hsub : forall v, In m (match rest with [] => opt_list (r_msg v) | _ :: _ => r_match rest v end) -> In m (r_traverse v)).
  { intros v Hv. destruct rest as [|a r'].
    - unfold opt_list in Hv. destruct (r_msg v) as [x|] eqn:E; [|destruct Hv]. destruct Hv as [<-|[]]. now apply in_traverse_msg.
    - now apply IH. }
  destruct (is_hash f); [exact H|]. destruct (is_plus f).
  - apply in_flat_map in H. destruct H as ([lv v] & Hin & Hv). eapply in_traverse_child; [exact Hin|now apply Hsub].
  - unfold r_child in H. destruct (aget f (r_children n)) as [v|] eqn:E; [|destruct H].
    eapply in_traverse_child; [eapply aget_In; exact E|now apply Hsub].
Qed.

Lemma ret_pz_init : ret_pz rdb_init.
Proof. intros m H. destruct H. Qed.

Lemma rdb_all_set m name T d :
  In m (rdb_all (rdb_set name T d)) -> In m (r_traverse T) \/ In m (rdb_all d).
Proof.
  unfold rdb_all, rdb_set. destruct (starts_dollar name); cbn [r_user r_sys]; intros H; apply in_app_or in H;
    destruct H as [H|H]; auto; right; apply in_or_app; auto.
Qed.

Lemma in_trie_all m name d : In m (r_traverse (rdb_trie name d)) -> In m (rdb_all d).
Proof. unfold rdb_trie, rdb_all. intros H. apply in_or_app. destruct (starts_dollar name); auto. Qed.

Lemma ret_pz_step d (o : rop) : ret_pz d -> (forall m, o = RetTrie.RAdd m -> m_pid m = 0) -> ret_pz (rdb_step d o).
Proof.
  intros Hd Ho m Hin. destruct o as [m0|t|]; cbn [rdb_step] in Hin.
  - apply rdb_all_set in Hin. destruct Hin as [Hin|Hin]; [|now apply Hd].
    apply in_traverse_add in Hin. destruct Hin as [->|Hin]; [now apply Ho|]. apply Hd. eapply in_trie_all; eauto.
  - apply rdb_all_set in Hin. destruct Hin as [Hin|Hin]; [|now apply Hd].
    apply in_traverse_remove in Hin. apply Hd. eapply in_trie_all; eauto.
  - destruct Hin.
Qed.

Lemma ret_pz_matched d f m : ret_pz d -> In m (rdb_matched f d) -> m_pid m = 0.
Proof. intros Hd Hin. apply Hd. unfold rdb_matched in Hin. apply in_match_traverse in Hin. eapply in_trie_all; eauto. Qed.

Lemma retain_update_J w m s : J w s -> m_pid m = 0 -> J w (retain_update m s).
Proof.
  intros [HA HQ (HP1 & HP2 & HP3) HT HC HK] Hpid. unfold retain_update. destruct (m_retained m); [|constructor; auto; repeat split; auto].
  constructor; [eapply AllPoll_same; eauto; reflexivity|exact HQ| |exact HT|exact HC|exact HK].
  split; [|split; auto]. rewrite BrokerQos2P.b_ret_set_ret. apply ret_pz_step; [exact HP1|].
    unfold retain_op. intros m1 E. destruct (m_payload m); inversion E; subst; exact Hpid.
Qed.

(* the will of a session that ends (sendWillLocked) *)
Lemma send_will_J w cid m s : J w s -> m_pid m = 0 -> J w (fst (send_will cid m s)).
Proof.
  intros HJ Hpid. unfold send_will. destruct (will_action cid s) as [|code| |t p q]; try exact HJ.
  - pose proof (deliver_J w cid m (retain_update m s) (retain_update_J w m s HJ Hpid) Hpid) as H.
    destruct (deliver cid m (retain_update m s)) as [[s' o] b]. exact H.
  - set (m' := with_topic_payload_qos t p q m).
    assert (Hp' : m_pid m' = 0) by exact Hpid.
    pose proof (deliver_J w cid m' (retain_update m' s) (retain_update_J w m' s HJ Hp') Hp') as H.
    destruct (deliver cid m' (retain_update m' s)) as [[s' o] b]. exact H.
Qed.

(* changes of the will table *)
Lemma wills_pz_adel cid l : wills_pz l -> wills_pz (adel cid l).
Proof. intros H c w t Hin. apply In_adel in Hin. eauto. Qed.
Lemma wills_pz_aset cid w t l : wills_pz l -> m_pid w = 0 -> wills_pz (aset cid (w, t) l).
Proof. intros H Hw c w' t' Hin. apply in_aset' in Hin. destruct Hin as [Hin|Hin]; [inversion Hin; subst; exact Hw|eauto]. Qed.
Lemma sess_pz_adel cid l : sess_pz l -> sess_pz (adel cid l).
Proof. intros H c se w Hin. apply In_adel in Hin. eauto. Qed.
Lemma sess_pz_aset cid se l : sess_pz l -> (forall w, se_will se = Some w -> m_pid w = 0) -> sess_pz (aset cid se l).
Proof. intros H Hs c se' w' Hin. apply in_aset' in Hin. destruct Hin as [Hin|Hin]; [inversion Hin; subst; apply Hs|eauto]. Qed.

Lemma J_set_wills w wl s : J w s -> wills_pz wl ->
  J w (set_tables (b_sessions s) (b_online s) (b_offline s) wl (b_queues s) (b_unacks s) s).
Proof.
  intros [HA HQ (HP1 & HP2 & HP3) HT HC HK] Hw.
  constructor; [eapply AllPoll_same; eauto; reflexivity|exact HQ| |exact HT|exact HC|exact HK].
  repeat split; auto.
Qed.

Lemma J_wills_pz w s : J w s -> wills_pz (b_wills s).
Proof. intros [_ _ (_ & _ & H) _ _]. exact H. Qed.
Lemma J_sess_pz w s : J w s -> sess_pz (b_sessions s).
Proof. intros [_ _ (_ & H & _) _ _]. exact H. Qed.
Lemma J_ret_pz w s : J w s -> ret_pz (b_ret s).
Proof. intros [_ _ (H & _ & _) _ _]. exact H. Qed.

Lemma release_will_J w cid s : J w s -> J w (fst (release_will cid s)).
Proof.
  intros HJ. unfold release_will. destruct (aget cid (b_wills s)) as [[wm t]|] eqn:E; [|exact HJ].
  apply send_will_J.
  - apply J_set_wills; [exact HJ|]. apply wills_pz_adel. now apply (J_wills_pz w).
  - eapply (J_wills_pz w s HJ). eapply aget_In; exact E.
Qed.

(* ------------------------------------------------------------------ *)
(* 4. the end of a connection: unregister, conn_gone, fail_conn        *)
(* ------------------------------------------------------------------ *)

(* the registration tables change, the connections do not *)
Lemma AllPoll_tables w s s' :
  AllPoll w s -> b_conns s' = b_conns s -> b_tag s' = b_tag s ->
  (forall c k, nget c (b_conns s) = Some k -> pattached k ->
     aget (k_cid k) (b_queues s') = aget (k_cid k) (b_queues s) /\
     aget (k_cid k) (b_online s') = aget (k_cid k) (b_online s)) ->
  (forall cid' c k, nget c (b_conns s) = Some k -> pattached k ->
     aget cid' (b_online s') = Some c -> aget cid' (b_online s) = Some c) ->
  AllPoll w s'.
Proof.
  intros HA Hc Ht H1 H2 c k Hk Hat. rewrite Hc in Hk.
  destruct (HA c k Hk Hat) as (k0 & q & inf & que & Hk0 & Hq & Hon & Hun & Htag & HCQ).
  rewrite Hk in Hk0. inversion Hk0; subst k0. clear Hk0.
  destruct (H1 c k Hk Hat) as [E1 E2].
  exists k, q, inf, que. rewrite Hc, Ht, E1, E2.
  split; [exact Hk|]. split; [exact Hq|]. split; [exact Hon|]. split; [|split; [exact Htag|exact HCQ]].
  intros cid' Hc'. apply Hun. eapply H2; eauto.
Qed.

(* no attached connection belongs to client id cid *)
Definition NoAtt (cid : str) (s : st) : Prop :=
  forall c k, nget c (b_conns s) = Some k -> pattached k -> k_cid k <> cid.

Lemma NoAtt_offline w cid s : AllPoll w s -> aget cid (b_online s) = None -> NoAtt cid s.
Proof.
  intros HA Hoff c k Hk Hat E. destruct (HA c k Hk Hat) as (k0 & q & inf & que & Hk0 & _ & Hon & _).
  rewrite Hk in Hk0. inversion Hk0; subst k0. rewrite E in Hon. congruence.
Qed.

Lemma NoAtt_closed w cid c0 k0 s :
  AllPoll w s -> aget cid (b_online s) = Some c0 -> nget c0 (b_conns s) = Some k0 -> ~ pattached k0 -> NoAtt cid s.
Proof.
  intros HA Hon0 Hk0 Hn c k Hk Hat E. destruct (HA c k Hk Hat) as (k1 & q & inf & que & Hk1 & _ & Hon & _).
  rewrite Hk in Hk1. inversion Hk1; subst k1. rewrite E, Hon0 in Hon. inversion Hon; subst c0.
  rewrite Hk in Hk0. inversion Hk0; subst k0. contradiction.
Qed.

Lemma aget_adel_Some {V} k k' (v : V) l : NoDup (map fst l) -> aget k' (adel k l) = Some v -> k' <> k /\ aget k' l = Some v.
Proof.
  intros Hnd H. rewrite aget_adel in H by exact Hnd. destruct (str_eqb_spec k' k) as [E|E]; [discriminate|]. auto.
Qed.

Lemma remove_session_J w cid s :
  J w s -> NoDup (map fst (b_online s)) -> NoAtt cid s -> J w (remove_session cid s).
Proof.
  intros [HA HQ (HP1 & HP2 & HP3) HT HC HK] Hnd Hna.
  constructor; [| | |exact HT|exact HC|exact HK].
  - apply (AllPoll_tables w s); [exact HA|reflexivity|reflexivity| |].
    + intros c k Hk Hat. pose proof (Hna c k Hk Hat) as Hne. cbn [remove_session set_subs set_tables b_queues b_online].
      rewrite !BrokerQos2P.aget_adel_other by exact Hne. auto.
    + intros cid' c k Hk Hat H. cbn [remove_session set_subs set_tables b_online] in H.
      apply aget_adel_Some in H; [tauto|exact Hnd].
  - intros cid' q Hin. cbn [remove_session set_subs set_tables b_queues] in Hin. apply In_adel in Hin.
    destruct (HQ cid' q Hin) as (inf & que & HI). exists inf, que. exact HI.
  - split; [exact HP1|]. split; [|exact HP3]. cbn [remove_session set_subs set_tables b_sessions]. now apply sess_pz_adel.
Qed.

Lemma store_tables_J w cid se expiry s :
  J w s -> NoDup (map fst (b_online s)) -> NoAtt cid s -> (forall w0, se_will se = Some w0 -> m_pid w0 = 0) ->
  J w (store_tables cid se expiry s).
Proof.
  intros [HA HQ (HP1 & HP2 & HP3) HT HC HK] Hnd Hna Hse.
  constructor; [| | |exact HT|exact HC|exact HK].
  - apply (AllPoll_tables w s); [exact HA|reflexivity|reflexivity| |].
    + intros c k Hk Hat. pose proof (Hna c k Hk Hat) as Hne. cbn [store_tables set_tables b_queues b_online].
      rewrite BrokerQos2P.aget_adel_other by exact Hne. auto.
    + intros cid' c k Hk Hat H. cbn [store_tables set_tables b_online] in H.
      apply aget_adel_Some in H; [tauto|exact Hnd].
  - exact HQ.
  - split; [exact HP1|]. split; [|exact HP3]. cbn [store_tables set_tables b_sessions]. apply sess_pz_aset; [exact HP2|exact Hse].
Qed.

Lemma ur_will_J w cid k se expiry store s :
  J w s -> (forall w0, se_will se = Some w0 -> m_pid w0 = 0) -> J w (fst (ur_will cid k se expiry store s)).
Proof.
  intros HJ Hse. unfold ur_will. destruct (se_will se) as [wm|]; [|exact HJ].
  destruct (k_clean_will k); [exact HJ|]. cbv zeta.
  match goal with |- context [if ?b then (set_tables _ _ _ _ _ _ _, []) else _] => destruct b end.
  - cbn [fst]. apply J_set_wills; [exact HJ|]. apply wills_pz_aset; [now apply (J_wills_pz w)|now apply Hse].
  - apply send_will_J; [exact HJ|now apply Hse].
Qed.

Lemma not_attached_closed k : ~ pattached (set_phase PhClosed k).
Proof. intros [H|H]; discriminate. Qed.

Lemma kview_phase k k' : kview k' = kview k -> k_phase k' = k_phase k.
Proof. unfold kview. congruence. Qed.

Lemma conn_gone_J w c s : NoDup (map fst (b_online s)) -> J w s -> J w (fst (conn_gone c s)).
Proof.
  intros Hnd HJ. destruct (nget c (b_conns s)) as [k|] eqn:Hk; [|unfold conn_gone; now rewrite Hk].
  destruct (battached (k_phase k)) eqn:Ha.
  - rewrite (conn_gone_att c k s Hk Ha). cbn [fst].
    set (k' := set_phase PhClosed k). set (cid := k_cid k).
    set (s0 := upd_conn c k' (closed_q cid s)).
    assert (HJ0 : J w s0) by (apply J_upd_detached; [now apply J_closed_q|apply not_attached_closed]).
    assert (Hat : pattached k) by (now apply pattached_b).
    destruct (j_poll w s HJ c k Hk Hat) as (k1 & q & inf & que & Hk1 & _ & Hon & _).
    rewrite Hk in Hk1. inversion Hk1; subst k1. clear Hk1.
    assert (Hon0 : aget cid (b_online s0) = Some c) by (unfold s0; rewrite upd_conn_online, closed_q_online; exact Hon).
    assert (Hk0 : nget c (b_conns s0) = Some k') by (unfold s0; apply nget_upd_eq).
    assert (Hnd0 : NoDup (map fst (b_online s0))) by (unfold s0; rewrite upd_conn_online, closed_q_online; exact Hnd).
    rewrite unregister_eq. cbv zeta. change (k_cid k') with cid.
    destruct (aget cid (b_sessions s0)) as [se|] eqn:Es.
    + assert (Hse : forall w0, se_will se = Some w0 -> m_pid w0 = 0).
      { intros w0 Hw0. eapply (J_sess_pz w s0 HJ0); [eapply aget_In; exact Es|exact Hw0]. }
      match goal with |- context [ur_will cid k' se ?ex ?st s0] =>
        pose proof (ur_will_J w cid k' se ex st s0 HJ0 Hse) as HJ1;
        destruct (ur_will_quiet cid k' se ex st s0) as [F _];
        destruct (ur_will cid k' se ex st s0) as [s1 o1] eqn:Eu end.
      cbn [fst] in HJ1, F.
      assert (Hon1 : aget cid (b_online s1) = Some c) by (rewrite (fr_on _ _ F); exact Hon0).
      assert (Hnd1 : NoDup (map fst (b_online s1))) by (rewrite (fr_on _ _ F); exact Hnd0).
      assert (Hna : NoAtt cid s1).
      { pose proof (fr_pv _ _ F c) as Hpv. rewrite (pv_of _ _ _ Hk0) in Hpv. apply pv_some in Hpv. destruct Hpv as (k1 & Hk1 & Hv).
        apply (NoAtt_closed w cid c k1 s1 (j_poll w s1 HJ1) Hon1 Hk1).
        apply kview_phase in Hv. intros [H|H]; rewrite Hv in H; discriminate. }
      match goal with |- context [if ?b then _ else _] => destruct b end; cbn [fst].
      * now apply store_tables_J.
      * now apply remove_session_J.
    + cbn [fst]. apply remove_session_J; [exact HJ0|exact Hnd0|].
      apply (NoAtt_closed w cid c k' s0 (j_poll w s0 HJ0) Hon0 Hk0). apply not_attached_closed.
  - unfold conn_gone. rewrite Hk. destruct (k_phase k) eqn:Ep; try discriminate; cbn [fst]; try exact HJ;
      (apply J_upd_detached; [exact HJ|apply not_attached_closed]).
Qed.

Lemma fail_conn_J w c code br s : NoDup (map fst (b_online s)) -> J w s -> J w (fst (fail_conn c code br s)).
Proof.
  intros Hnd HJ. unfold fail_conn. destruct (nget c (b_conns s)) as [k|] eqn:Hk; [|exact HJ].
  destruct (k_phase k) eqn:Ep; try exact HJ.
  match goal with |- context [if ?b then _ else _] => destruct b end.
  - pose proof (conn_gone_J w c s Hnd HJ) as H. destruct (conn_gone c s) as [s' o]. exact H.
  - cbn [fst]. eapply J_upd_conn; [exact HJ|exact Hk|apply cqe_set_zombie|]. intros _. left. exact Ep.
Qed.

(* ------------------------------------------------------------------ *)
(* 5. CONNECT                                                          *)
(* ------------------------------------------------------------------ *)

(* the session queue as CONNECT leaves it for the new connection: well-shaped, cursor at 0, limits installed *)
Definition QReady (cid : str) (v5 : bool) (cmax : N) (s : st) (inf : list elem) : Prop :=
  exists q que, aget cid (b_queues s) = Some q /\ QInv q (b_tag s) inf que /\ q_cur q = 0%nat /\
                q_limit q = cmax /\ q_v5 q = v5.

(* the window side condition (w = true): what CONNECT left in flight fits the window of the new connection *)
Definition cwin (s' : st) (c : N) : bool :=
  match nget c (b_conns s') with
  | Some k => match k_phase k with
              | PhConnected => match aget (k_cid k) (b_queues s') with
                               | Some q => N.of_nat (length (q_inf q)) <=? k_max_inflight k
                               | None => true
                               end
              | _ => true
              end
  | None => true
  end.

Lemma J_set_queue_offline w cid q' inf que u s :
  J w s -> aget cid (b_online s) = None -> QInv q' (b_tag s) inf que ->
  J w (set_tables (b_sessions s) (b_online s) (b_offline s) (b_wills s) (aset cid q' (b_queues s)) u s).
Proof.
  intros HJ Hoff HI. pose proof HJ as [HA HQ HP HT HC HK].
  constructor; [| |exact HP|exact HT|exact HC|exact HK].
  - apply (AllPoll_tables w s); [exact HA|reflexivity|reflexivity| |].
    + intros c k Hk Hat. pose proof (NoAtt_offline w cid s HA Hoff c k Hk Hat) as Hne.
      cbn [set_tables b_queues b_online]. rewrite aget_aset_ne by exact Hne. auto.
    + intros cid' c k Hk Hat H. exact H.
  - intros cid' q Hin. cbn [set_tables b_queues b_tag] in *. apply in_aset' in Hin. destruct Hin as [Hin|Hin].
    + inversion Hin; subst. eauto.
    + eauto.
Qed.

Lemma hc_old_J w cid v5 cmax r0 s :
  J w s -> NoDup (map fst (b_online s)) -> aget cid (b_online s) = None ->
  J w (fst (fst (hc_old cid v5 cmax r0 s))) /\
  Forall (fun cw => m_pid (snd cw) = 0) (snd (fst (hc_old cid v5 cmax r0 s))) /\
  (snd (hc_old cid v5 cmax r0 s) = true ->
   snd (fst (hc_old cid v5 cmax r0 s)) = [] /\ exists inf, QReady cid v5 cmax (fst (fst (hc_old cid v5 cmax r0 s))) inf).
Proof.
  intros HJ Hnd Hoff. unfold hc_old. destruct (aget cid (b_sessions s)) as [se|] eqn:Es.
  2:{ cbn [fst snd]. split; [exact HJ|]. split; [constructor|discriminate]. }
  destruct r0.
  - destruct (aget cid (b_queues s)) as [q|] eqn:Eq; [|cbn [fst snd]; split; [exact HJ|]; split; [constructor|discriminate]].
    destruct (aget cid (b_unacks s)) as [u|] eqn:Eu; [|cbn [fst snd]; split; [exact HJ|]; split; [constructor|discriminate]].
    cbn [fst snd].
    destruct (j_qs w s HJ cid q (aget_In _ _ _ Eq)) as (inf & que & HI).
    pose proof (QInv_init q (b_tag s) inf que v5 cmax HI) as HI'.
    split; [|split; [constructor|]].
    + pose proof (J_set_queue_offline w cid (q_init false v5 cmax q) inf que (b_unacks s) s HJ Hoff HI') as H1.
      pose proof (J_set_wills w (adel cid (b_wills s)) _ H1) as H2. cbn [set_tables b_sessions b_online b_offline b_queues b_unacks] in H2.
      apply H2. apply wills_pz_adel. now apply (J_wills_pz w).
    + intros _. split; [reflexivity|]. exists inf, (q_init false v5 cmax q), que.
      cbn [set_tables b_queues b_tag]. rewrite aget_aset_eq. auto.
  - cbv zeta.
    assert (HJ1 : J w (remove_session cid s)).
    { apply remove_session_J; [exact HJ|exact Hnd|]. eapply NoAtt_offline; [apply (j_poll w s HJ)|exact Hoff]. }
    destruct (aget cid (b_wills (remove_session cid s))) as [[wm t]|] eqn:Ew; cbn [fst snd].
    + split; [|split; [|discriminate]].
      * apply J_set_wills; [exact HJ1|]. apply wills_pz_adel. now apply (J_wills_pz w).
      * constructor; [|constructor]. cbn [snd]. eapply (J_wills_pz w _ HJ1). eapply aget_In; exact Ew.
    + split; [exact HJ1|]. split; [constructor|discriminate].
Qed.

Lemma hc_fresh_J w cid v5 cmax cf resume s :
  J w s -> aget cid (b_online s) = None ->
  J w (hc_fresh cid v5 cmax cf resume s) /\
  (resume = false -> QReady cid v5 cmax (hc_fresh cid v5 cmax cf resume s) []).
Proof.
  intros HJ Hoff. unfold hc_fresh. destruct resume; [split; [exact HJ|discriminate]|].
  pose proof (QInv_new (b_tag s) (c_max_queued cf) (c_inflight_expiry cf * 1000) v5 cmax) as HI.
  split.
  - eapply J_set_queue_offline; eauto.
  - intros _. eexists. exists []. cbn [set_tables b_queues b_tag]. rewrite aget_aset_eq.
    split; [reflexivity|]. split; [exact HI|]. auto.
Qed.

Lemma hc_conn_fresh cid cn cf : fresh_attached cf cn (hc_conn cid cn cf).
Proof. unfold fresh_attached, hc_conn, connect_window, hc_max_inflight, connect_maxpkt, hc_cmax, connect_aliasmax, hc_camax. cbn. auto 10. Qed.

Lemma hc_max_inflight_le cn cf : hc_max_inflight cn cf <= c_max_inflight cf.
Proof.
  unfold hc_max_inflight. destruct (cn_ver cn =? 5); [|lia]. destruct (p_recvmax (cn_props cn)) as [r|]; [|lia].
  destruct (r <? c_max_inflight cf) eqn:E; lia.
Qed.

Lemma hc_register_J w c cid cn cf se s inf :
  J w s -> b_cfg s = cf -> c_max_inflight cf <= MAXPID ->
  (forall cid', ~ In (cid', c) (b_online s)) -> aget cid (b_online s) = None ->
  QReady cid (cn_ver cn =? 5) (hc_cmax cn) s inf ->
  (w = true -> N.of_nat (length inf) <= hc_max_inflight cn cf) ->
  (forall w0, se_will se = Some w0 -> m_pid w0 = 0) ->
  J w (hc_register c cid se (hc_conn cid cn cf) s).
Proof.
  intros HJ Hcf Hmax Hnc Hoff (q & que & Hq & HI & Hcur & Hlim & Hv5) Hwin Hse. pose proof HJ as [HA HQ (HP1 & HP2 & HP3) HT HC HK].
  constructor; [| | |exact HT|exact HC|].
  - intros c2 k2 Hk2 Hat2. destruct (N.eq_dec c2 c) as [->|Hne].
    + unfold hc_register.
      apply (connect_end w c cid (hc_conn cid cn cf) se s q inf que cf cn); auto using hc_conn_fresh.
    + unfold hc_register in Hk2 |- *. cbn [set_tables b_conns] in Hk2. rewrite nget_upd_ne in Hk2 by exact Hne.
      destruct (HA c2 k2 Hk2 Hat2) as (k0 & q0 & inf0 & que0 & Hk0 & Hq0 & Hon & Hun & Htag & HCQ).
      rewrite Hk2 in Hk0. inversion Hk0; subst k0. clear Hk0.
      assert (Hcid : k_cid k2 <> cid) by (intros E; rewrite E in Hon; congruence).
      exists k2, q0, inf0, que0. cbn [set_tables b_conns b_queues b_online b_tag].
      rewrite nget_upd_ne by exact Hne. rewrite ?upd_conn_tag.
      rewrite aget_aset_ne by exact Hcid.
      split; [exact Hk2|]. split; [exact Hq0|]. split; [exact Hon|]. split; [|split; [exact Htag|exact HCQ]].
      intros cid' H. destruct (str_dec cid' cid) as [->|E].
      * rewrite aget_aset_eq in H. congruence.
      * rewrite aget_aset_ne in H by exact E. now apply Hun.
  - exact HQ.
  - split; [exact HP1|]. split; [|exact HP3]. unfold hc_register. cbn [set_tables b_sessions]. now apply sess_pz_aset.
  - intros c2 k2 Hk2 Hat2. unfold hc_register in Hk2 |- *. cbn [set_tables b_conns b_cfg] in Hk2 |- *. rewrite upd_conn_cfg.
    destruct (N.eq_dec c2 c) as [->|Hne].
    + rewrite nget_upd_eq in Hk2. inversion Hk2; subst k2. cbn [hc_conn k_max_inflight]. rewrite Hcf. apply hc_max_inflight_le.
    + rewrite nget_upd_ne in Hk2 by exact Hne. eapply HK; eauto.
Qed.

Lemma hc_wills_J w l s : J w s -> Forall (fun cw => m_pid (snd cw) = 0) l -> J w (fst (hc_wills l s)).
Proof.
  intros HJ Hl. unfold hc_wills. apply (fold_in_inv (J w)); [|exact HJ].
  intros s0 o0 cw Hin H0. rewrite Forall_forall in Hl. pose proof (send_will_J w (fst cw) (snd cw) s0 H0 (Hl cw Hin)) as H.
  destruct (send_will (fst cw) (snd cw) s0). exact H.
Qed.

Lemma not_online_of_cv s c : BInv s -> cv s c = None -> forall cid', ~ In (cid', c) (b_online s).
Proof.
  intros HI Hc cid' Hin. apply In_aget in Hin; [|apply (bi_nd_on _ _ HI)].
  destruct (bi_on _ _ HI cid' c Hin) as [f Hf]; [discriminate|]. congruence.
Qed.

Lemma hc_accept_J w c cn s :
  BInv s -> cv s c = None -> J w s -> (w = true -> cwin (fst (hc_accept c cn s)) c = true) ->
  J w (fst (hc_accept c cn s)).
Proof.
  intros HI Hc HJ Hwin. unfold hc_accept in *. cbv zeta in *. set (cid := hc_cid cn s) in *.
  assert (HI0 : BInv (hc_auto cn s)) by (eapply BInvG_cframe; [apply wframe_cframe, hc_auto_frame|exact HI]).
  assert (Hc0 : cv (hc_auto cn s) c = None)
    by (rewrite (cf_cv _ _ (wframe_cframe _ _ (hc_auto_frame cn s))); exact Hc).
  assert (HJ0 : J w (hc_auto cn s)).
  { unfold hc_auto. destruct (is_empty (cn_cid cn)); [|exact HJ]. eapply J_same; [..|exact HJ]; reflexivity. }
  assert (Hcf0 : b_cfg (hc_auto cn s) = b_cfg s) by (unfold hc_auto; destruct (is_empty (cn_cid cn)); reflexivity).
  destruct (hc_takeover_spec cid c (hc_auto cn s) HI0 Hc0) as (HI1 & Hon1 & Hc1 & Hcf1 & _).
  assert (HJ1 : J w (fst (hc_takeover cid (hc_auto cn s)))).
  { unfold hc_takeover. destruct (aget cid (b_online (hc_auto cn s))); [|exact HJ0].
    apply conn_gone_J; [apply (bi_nd_on _ _ HI0)|exact HJ0]. }
  destruct (hc_takeover cid (hc_auto cn s)) as [s1 o_dup]. cbn [fst] in *.
  apply ahas_false in Hon1.
  destruct (hc_old_spec cid (cn_ver cn =? 5) (hc_cmax cn) (hc_resume0 cid cn s1) c s1 HI1 (ahas_none _ _ Hon1) Hc1)
    as (HI2 & Hon2 & Hc2 & Hcf2 & _).
  destruct (hc_old_J w cid (cn_ver cn =? 5) (hc_cmax cn) (hc_resume0 cid cn s1) s1 HJ1 (bi_nd_on _ _ HI1) Hon1)
    as (HJ2 & Hpz2 & Hres2).
  destruct (hc_old cid (cn_ver cn =? 5) (hc_cmax cn) (hc_resume0 cid cn s1) s1) as [[s2 o_will] resume].
  cbn [fst snd] in *. apply ahas_false in Hon2.
  set (s3 := hc_fresh cid (cn_ver cn =? 5) (hc_cmax cn) (b_cfg s) resume s2) in *.
  pose proof (hc_fresh_frame cid (cn_ver cn =? 5) (hc_cmax cn) (b_cfg s) resume s2) as F3. fold s3 in F3.
  destruct (hc_fresh_J w cid (cn_ver cn =? 5) (hc_cmax cn) (b_cfg s) resume s2 HJ2 Hon2) as [HJ3 Hfr3]. fold s3 in HJ3, Hfr3.
  assert (HI3 : BInv s3) by (eapply BInvG_cframe; [apply wframe_cframe; exact F3|exact HI2]).
  assert (Hc3 : cv s3 c = None) by (now rewrite (cf_cv _ _ (wframe_cframe _ _ F3))).
  assert (Hon3 : aget cid (b_online s3) = None) by (now rewrite (wf_on _ _ F3)).
  assert (Hcf3 : b_cfg s3 = b_cfg s) by (rewrite (wf_cfg _ _ F3); congruence).
  destruct (hc_wd_exp cn (b_cfg s)) as [wd ex].
  match goal with |- context [hc_wills o_will ?S] => set (s4 := S) in * end.
  assert (Hmax : c_max_inflight (b_cfg s) <= MAXPID) by apply (j_cfg w s HJ).
  assert (Hse : forall w0, se_will (hc_session cn wd ex (b_now s3)) = Some w0 -> m_pid w0 = 0).
  { unfold hc_session. cbn [se_will]. intros w0 H. destruct (cn_will cn); inversion H. reflexivity. }
  assert (HJ4 : J w s4).
  { destruct resume.
    - destruct (Hres2 eq_refl) as (Hnil & inf & HR). subst o_will.
      assert (Es3 : s3 = s2) by reflexivity.
      unfold s4. apply (hc_register_J w c cid cn (b_cfg s) _ s3 inf); auto.
      + now apply not_online_of_cv.
      + intros Hw. specialize (Hwin Hw). cbn [hc_wills fold_left fst] in Hwin.
        destruct HR as (q & que & Hq & HQI & _). unfold cwin in Hwin.
        unfold s4, hc_register in Hwin. cbn [set_tables b_conns b_queues] in Hwin.
        rewrite nget_upd_eq in Hwin. cbn [hc_conn k_phase k_cid k_max_inflight] in Hwin.
        rewrite Es3, Hq in Hwin. rewrite (q_inf_eq _ _ _ _ HQI) in Hwin. lia.
    - unfold s4. apply (hc_register_J w c cid cn (b_cfg s) _ s3 []); auto.
      + now apply not_online_of_cv.
      + intros _. cbn [length]. lia. }
  pose proof (hc_wills_J w o_will s4 HJ4 Hpz2) as HJ5.
  destruct (hc_wills o_will s4) as [s5 o_w]. exact HJ5.
Qed.

Lemma not_attached_dead k : ~ pattached (set_phase PhDead k).
Proof. intros [H|H]; discriminate. Qed.

Lemma handle_connect_J w c cn s :
  BInv s -> cv s c = None -> J w s -> (w = true -> cwin (fst (handle_connect c cn s)) c = true) ->
  J w (fst (handle_connect c cn s)).
Proof.
  intros HI Hc HJ Hwin. rewrite handle_connect_eq in *.
  destruct (negb (c_allow_zero_len (b_cfg s)) && is_empty (cn_cid cn)).
  - cbn [fst]. apply J_upd_detached; [exact HJ|apply not_attached_dead].
  - destruct (negb (hc_code cn s =? 0)).
    + cbn [fst]. apply J_upd_detached; [exact HJ|apply not_attached_dead].
    + now apply hc_accept_J.
Qed.

(* ------------------------------------------------------------------ *)
(* 6. the packet handlers                                              *)
(* ------------------------------------------------------------------ *)

Lemma QS_aset cid q' s s' :
  QS s -> b_queues s' = aset cid q' (b_queues s) -> b_tag s' = b_tag s ->
  (exists inf que, QInv q' (b_tag s) inf que) -> QS s'.
Proof.
  intros HQ Eq Et HI cid' q Hin. rewrite Eq in Hin. rewrite Et. apply in_aset' in Hin. destruct Hin as [Hin|Hin].
  - inversion Hin; subst. exact HI.
  - eauto.
Qed.

(* a step that touches one attached connection and the queue of its session only *)
Lemma J_one_conn w c k s s' :
  J w s -> nget c (b_conns s) = Some k -> pattached k ->
  (forall c2, c2 <> c -> nget c2 (b_conns s') = nget c2 (b_conns s)) ->
  (forall cid2, cid2 <> k_cid k -> aget cid2 (b_queues s') = aget cid2 (b_queues s)) ->
  b_online s' = b_online s -> b_tag s' = b_tag s -> b_ret s' = b_ret s -> b_sessions s' = b_sessions s ->
  b_wills s' = b_wills s -> b_cfg s' = b_cfg s ->
  (forall k', nget c (b_conns s') = Some k' -> k_max_inflight k' = k_max_inflight k) ->
  PollInv w s' c -> QS s' -> J w s'.
Proof.
  intros [HA HQ HP HT HC HK] Hk Hat Hco Hqo Eo Et Er Es Ew Ec Hmi HP' HQ'.
  constructor; [|exact HQ'|eapply PZ_same; eauto|now rewrite Et|now rewrite Ec|].
  2:{ intros c2 k2 Hk2 Hat2. rewrite Ec. destruct (N.eq_dec c2 c) as [->|Hne].
      - rewrite (Hmi k2 Hk2). eapply HK; eauto.
      - rewrite (Hco c2 Hne) in Hk2. eapply HK; eauto. }
  intros c2 k2 Hk2 Hat2. destruct (N.eq_dec c2 c) as [->|Hne]; [exact HP'|].
  rewrite (Hco c2 Hne) in Hk2.
  destruct (HA c2 k2 Hk2 Hat2) as (k0 & q0 & inf0 & que0 & Hk0 & Hq0 & Hon & Hun & Htag & HCQ).
  rewrite Hk2 in Hk0. inversion Hk0; subst k0. clear Hk0.
  destruct (HA c k Hk Hat) as (k1 & q1 & inf1 & que1 & Hk1 & _ & Hon1 & _).
  rewrite Hk in Hk1. inversion Hk1; subst k1. clear Hk1.
  assert (Hcid : k_cid k2 <> k_cid k) by (intros E; rewrite E in Hon; congruence).
  exists k2, q0, inf0, que0. rewrite (Hco c2 Hne), (Hqo _ Hcid), Eo, Et. auto 10.
Qed.

Lemma ack_remove_J w c k pid s :
  J w s -> nget c (b_conns s) = Some k -> pattached k -> ~ In pid (held_ids k) ->
  J w (release_id c pid (queue_op (k_cid k) (fun q => fst (q_remove pid q)) s)).
Proof.
  intros HJ Hk Hat Hnh. pose proof (j_poll w s HJ c k Hk Hat) as HP.
  pose proof (ack_remove_inv w c s k pid HP Hk Hnh) as HP'.
  destruct HP as (k0 & q & inf & que & Hk0 & Hq & _ & _ & _ & HCQ).
  rewrite Hk in Hk0. inversion Hk0; subst k0. clear Hk0.
  revert HP'. rewrite (queue_op_some _ _ _ _ Hq). unfold release_id. rewrite set_queues_conns, Hk. intros HP'.
  eapply (J_one_conn w c k s); eauto; try reflexivity.
  - intros c2 Hne. now rewrite nget_upd_ne.
  - intros cid2 Hne. rewrite upd_conn_queues, set_queues_queues. now apply aget_aset_ne.
  - intros k' Hk'. rewrite nget_upd_eq in Hk'. inversion Hk'. reflexivity.
  - eapply (QS_aset (k_cid k) (fst (q_remove pid q)) s); [apply (j_qs w s HJ)|reflexivity|reflexivity|].
    destruct (q_remove_inv pid q (b_tag s) inf que (cq_q _ _ _ _ _ _ HCQ)) as (_ & _ & [(i & d & _ & _ & _ & HI & _)|(E & _)]).
    + eauto.
    + rewrite E. exists inf, que. apply (cq_q _ _ _ _ _ _ HCQ).
Qed.

Lemma ack_replace_J w c k pid now s :
  J w s -> nget c (b_conns s) = Some k -> pattached k ->
  J w (queue_op (k_cid k) (fun q => fst (q_replace {| e_tag := 0; e_at := now; e_expiry := None; e_body := QRel pid |} q)) s).
Proof.
  intros HJ Hk Hat. pose proof (j_poll w s HJ c k Hk Hat) as HP.
  pose proof (ack_replace_inv w c s k pid now HP Hk) as HP'.
  destruct HP as (k0 & q & inf & que & Hk0 & Hq & _ & _ & _ & HCQ).
  rewrite Hk in Hk0. inversion Hk0; subst k0. clear Hk0.
  revert HP'. rewrite (queue_op_some _ _ _ _ Hq). intros HP'.
  set (e := {| e_tag := 0; e_at := now; e_expiry := None; e_body := QRel pid |}) in *.
  eapply (J_one_conn w c k s); eauto; try reflexivity.
  - intros cid2 Hne. rewrite set_queues_queues. now apply aget_aset_ne.
  - intros k' Hk'. rewrite set_queues_conns, Hk in Hk'. inversion Hk'. reflexivity.
  - eapply (QS_aset (k_cid k) (fst (q_replace e q)) s); [apply (j_qs w s HJ)|reflexivity|reflexivity|].
    destruct (q_replace_inv e pid q (b_tag s) inf que (cq_q _ _ _ _ _ _ HCQ) eq_refl eq_refl)
      as (_ & _ & _ & [(i & d & _ & _ & _ & HI & _)|(E & _)]).
    + eauto.
    + rewrite E. exists inf, que. apply (cq_q _ _ _ _ _ _ HCQ).
Qed.

(* the retained messages replayed to a new subscription *)
Lemma replay_retained_J w c k sb s : J w s -> J w (fst (replay_retained c k sb s)).
Proof.
  intros HJ. unfold replay_retained. apply (fold_in_inv (J w)); [|exact HJ].
  intros s0 o0 m Hin H0. cbv beta iota zeta.
  assert (Hpid : m_pid m = 0) by (eapply ret_pz_matched; [apply (J_ret_pz w s HJ)|exact Hin]).
  destruct (aget (k_cid k) (b_queues s0)) as [q|] eqn:Eq; [|exact H0].
  match goal with |- context [q_add ?n ?e0 q] => set (e := e0); set (now := n) end.
  destruct (q_add now e q) as [[q' evs]| | |] eqn:Hqa; try exact H0.
  cbn [fst]. apply (enq_J w (k_cid k) q e q' evs now s0 H0 Eq); auto.
  unfold quedok, e. cbn [e_body]. destruct (s_id sb =? 0); cbn; auto.
Qed.

Lemma hs_body_J w c k v5 subid all acc t : J w (fst (fst acc)) -> J w (fst (fst (hs_body c k v5 subid all acc t))).
Proof.
  destruct acc as [[s0 o0] cs]. cbn [fst]. intros HJ. unfold hs_body. cbv zeta.
  match goal with |- context [if ?b <? 128 then _ else _] => destruct (b <? 128) end; [|exact HJ].
  match goal with |- context [db_subscribe ?a ?b ?d] => destruct (db_subscribe a b d) as [d' existed]; set (sb := b) in * end.
  assert (HJ1 : J w (set_subs d' s0)) by (eapply J_same; [..|exact HJ]; reflexivity).
  match goal with |- context [if ?b then replay_retained c k sb ?S else _] => destruct b end.
  - pose proof (replay_retained_J w c k sb _ HJ1) as H. destruct (replay_retained c k sb (set_subs d' s0)) as [s2 o2]. exact H.
  - exact HJ1.
Qed.

Lemma hs_fold_J w c k v5 subid all topics : forall acc,
  J w (fst (fst acc)) -> J w (fst (fst (fold_left (hs_body c k v5 subid all) topics acc))).
Proof.
  induction topics as [|t r IH]; intros acc H; cbn [fold_left]; [exact H|]. apply IH. now apply hs_body_J.
Qed.

Lemma handle_subscribe_J w c k pid props topics s : J w s -> J w (hres_st (handle_subscribe c k pid props topics s)).
Proof.
  intros HJ. rewrite handle_subscribe_eq. cbv zeta.
  match goal with |- context [if ?b then HErr s [] (Some 161) else _] => destruct b end; [exact HJ|].
  destruct (h_sub_all (b_hooks s)); [exact HJ|].
  match goal with |- context [fold_left (hs_body c k ?v ?sid topics) topics ?a] =>
    pose proof (hs_fold_J w c k v sid topics topics a HJ) as H; destruct (fold_left (hs_body c k v sid topics) topics a) as [[s' o] codes] end.
  exact H.
Qed.

(* PUBLISH *)
Lemma hp_alias_cqe k v5 topic props m0 k2 m :
  hp_alias k v5 topic props m0 = inl (Some (k2, m)) -> cqe k k2 /\ k_phase k2 = k_phase k /\ m_pid m = m_pid m0.
Proof.
  unfold hp_alias. destruct (if v5 then p_alias props else None) as [a|].
  2:{ intros H. inversion H; subst. auto using cqe_refl. }
  destruct ((a =? 0) || (k_server_alias_max k <? a)); [discriminate|].
  destruct topic as [|x t].
  - destruct (nget a (k_alias_in k)) as [[|y n]|]; try discriminate. intros H. inversion H; subst. auto using cqe_refl.
  - intros H. inversion H; subst. split; [apply cqe_set_alias_in|auto].
Qed.

Lemma J_set_unacks w u s : J w s -> J w (set_unacks u s).
Proof. apply J_same; reflexivity. Qed.

Lemma hp_dupcheck_J w c k v5 qos pid s : J w s -> J w (fst (hp_dupcheck c k v5 qos pid s)).
Proof.
  intros HJ. unfold hp_dupcheck. destruct (qos =? 2); [|exact HJ]. cbv zeta.
  destruct (unack_set pid (opt_or (aget (k_cid k) (b_unacks s)) [])) as [u' ex]. cbn [fst].
  destruct (ex && v5); [|now apply J_set_unacks].
  apply (J_bump_quota w c _ (fun k1 => k_quota k1 <? k_recv_max k1)). now apply J_set_unacks.
Qed.

Lemma hp_deliver_J w k m isdup action s :
  J w s -> m_pid m = 0 -> J w (fst (fst (fst (hp_deliver k m isdup action s)))).
Proof.
  intros HJ Hpid. unfold hp_deliver. destruct isdup; [exact HJ|].
  destruct action as [|code| |t p q]; try exact HJ.
  - pose proof (deliver_J w (k_cid k) m (retain_update m s) (retain_update_J w m s HJ Hpid) Hpid) as H.
    destruct (deliver (k_cid k) m (retain_update m s)) as [[s' o] b]. exact H.
  - cbv zeta. set (m' := rewrite_msg t p q m).
    assert (Hp' : m_pid m' = 0) by exact Hpid.
    pose proof (deliver_J w (k_cid k) m' (retain_update m' s) (retain_update_J w m' s HJ Hp') Hp') as H.
    destruct (deliver (k_cid k) m' (retain_update m' s)) as [[s' o] b]. exact H.
Qed.

Lemma hp_finish_J w c k v5 qos pid o matched err s : J w s -> J w (hres_st (hp_finish c k v5 qos pid o matched err s)).
Proof.
  intros HJ. unfold hp_finish. cbv zeta. cbn [hres_st].
  match goal with |- context [if ?b then set_unacks ?u s else s] =>
    assert (H1 : J w (if b then set_unacks u s else s)) by (destruct b; [now apply J_set_unacks|exact HJ]);
    set (s1 := if b then set_unacks u s else s) in * end.
  match goal with |- context [if ?v && ?x && _ then _ else _] =>
    apply (J_bump_quota w c s1 (fun k1 => v && x && (k_quota k1 <? k_recv_max k1))) end.
  exact H1.
Qed.

Lemma handle_publish_J w c k dup qos retain topic payload pid props s :
  J w s -> nget c (b_conns s) = Some k ->
  J w (hres_st (handle_publish c k dup qos retain topic payload pid props s)).
Proof.
  intros HJ Hk. rewrite handle_publish_eq. cbv zeta.
  destruct (negb (k_retain_avail k) && retain); [exact HJ|].
  destruct (hp_alias k (k_v k =? 5) topic props _) as [[[k2 m]|]|code] eqn:EA; try exact HJ.
  apply hp_alias_cqe in EA. destruct EA as (He & Hph & Hpid). cbn [msg_of_publish m_pid] in Hpid.
  assert (HJ1 : J w (upd_conn c k2 s)).
  { eapply J_upd_conn; [exact HJ|exact Hk|exact He|]. unfold BrokerPollP.attached. now rewrite Hph. }
  pose proof (hp_dupcheck_J w c k2 (k_v k =? 5) qos pid _ HJ1) as HJ2.
  destruct (hp_dupcheck c k2 (k_v k =? 5) qos pid (upd_conn c k2 s)) as [s1 isdup]. cbn [fst] in HJ2.
  pose proof (hp_deliver_J w k2 m isdup (hp_action m s1) s1 HJ2 Hpid) as HJ3.
  destruct (hp_deliver k2 m isdup (hp_action m s1) s1) as [[[s2 o] matched] err]. cbn [fst] in HJ3.
  now apply hp_finish_J.
Qed.

Lemma handle_packet_J w c k p s :
  J w s -> nget c (b_conns s) = Some k -> pattached k ->
  (forall pid, is_ack p = Some pid -> ~ In pid (held_ids k)) ->
  J w (hres_st (handle_packet c k p s)).
Proof.
  intros HJ Hk Hat Hack.
  destruct p; cbn [handle_packet]; try exact HJ.
  - (* PUBLISH *)
    destruct (has_wild topic); [exact HJ|].
    match goal with |- context [if ?b then HErrRead s (Some 148) else _] => destruct b end; [exact HJ|].
    match goal with |- context [if ?b then HErrRead s (Some 130) else _] => destruct b end; [exact HJ|].
    match goal with |- context [if ?b then HErrRead s (Some 147) else _] => destruct b end; [exact HJ|].
    match goal with |- context [handle_publish c ?K] => set (k' := K) end.
    assert (He : cqe k k') by (unfold k'; destruct ((k_v k =? 5) && (0 <? qos)); [apply cqe_set_quota|apply cqe_refl]).
    assert (Hph : k_phase k' = k_phase k) by (unfold k'; destruct ((k_v k =? 5) && (0 <? qos)); reflexivity).
    apply handle_publish_J; [|apply nget_upd_eq].
    eapply J_upd_conn; [exact HJ|exact Hk|exact He|]. unfold BrokerPollP.attached. now rewrite Hph.
  - (* PUBACK *)
    cbn [hres_st]. apply ack_remove_J; auto.
  - (* PUBREC *)
    destruct ((k_v k =? 5) && (128 <=? code)); cbn [hres_st].
    + apply ack_remove_J; auto.
    + eapply ack_replace_J; eauto.
  - (* PUBREL *)
    cbv zeta. cbn [hres_st].
    match goal with |- J w (match nget c (b_conns ?S) with _ => _ end) =>
      apply (J_bump_quota w c S (fun k1 => (k_v k =? 5) && (k_quota k1 <? k_recv_max k1))) end.
    now apply J_set_unacks.
  - (* PUBCOMP *)
    cbn [hres_st]. apply ack_remove_J; auto.
  - (* SUBSCRIBE *)
    match goal with |- context [if ?b then handle_subscribe _ _ _ _ _ _ else _] => destruct b end; [|exact HJ].
    now apply handle_subscribe_J.
  - (* UNSUBSCRIBE *)
    unfold handle_unsubscribe. cbn [hres_st]. eapply J_same; [..|exact HJ]; reflexivity.
  - (* DISCONNECT *)
    destruct (k_v k =? 5).
    + cbv zeta. destruct (aget (k_cid k) (b_sessions s)) as [se|] eqn:Es; [|exact HJ].
      match goal with |- context [if ?b then HErr s [] None else _] => destruct b end; [exact HJ|].
      cbn [hres_st].
      match goal with |- J w (upd_conn c ?K ?S) => set (s1 := S) end.
      assert (HJ1 : J w s1).
      { unfold s1. destruct (p_sei props) as [x|]; [|exact HJ]. destruct (x =? 0); [exact HJ|].
        pose proof HJ as [HA HQ (HP1 & HP2 & HP3) HT HC HK].
        constructor; [eapply AllPoll_same; eauto; reflexivity|exact HQ| |exact HT|exact HC|exact HK].
        split; [exact HP1|]. split; [|exact HP3]. cbn [set_tables b_sessions]. apply sess_pz_aset; [exact HP2|].
        cbn [se_will]. intros w0 Hw0. eapply HP2; [eapply aget_In; exact Es|exact Hw0]. }
      eapply J_upd_conn; [exact HJ1| |apply cqe_set_disc|intros H; exact Hat].
      unfold s1. destruct (p_sei props) as [x|]; [|exact Hk]. destruct (x =? 0); exact Hk.
    + cbn [hres_st]. eapply J_upd_conn; [exact HJ|exact Hk|apply cqe_set_disc|intros H; exact Hat].
Qed.

(* ------------------------------------------------------------------ *)
(* 7. events, the poll loops, runs                                     *)
(* ------------------------------------------------------------------ *)

(* well-behaved: (a) an acknowledgement names no packet id that the poll loop of the connection merely holds
   (held_ack_breaks_inv); (b) a message handed to the publish API carries no packet id (api_pid_breaks_shape) *)
Definition ack_ok (s : st) (c : N) (p : pkt) : bool :=
  match is_ack p with
  | Some pid => match nget c (b_conns s) with
                | Some k => match k_phase k with
                            | PhConnected => negb (memN pid (held_ids k))
                            | _ => true
                            end
                | None => true
                end
  | None => true
  end.

Definition ev_ok (s : st) (e : event) : bool :=
  match e with
  | ESend c p => ack_ok s c p
  | ESendSz c p _ => ack_ok s c p
  | EApiPublish m => m_pid m =? 0
  | _ => true
  end.

(* the window side condition: after a CONNECT (before the poll loops run) what the session has in flight fits the
   window of the new connection *)
Definition ev_win (s : st) (e : event) : bool :=
  match e with
  | EConnect c cn => cwin (fst (step_event s e)) c
  | _ => true
  end.

Definition wb (w : bool) (s : st) (e : event) : bool := ev_ok s e && (negb w || ev_win s e).

Fixpoint run_wb (w : bool) (s : st) (es : list event) : bool :=
  match es with
  | [] => true
  | e :: r => wb w s e && run_wb w (fst (step s e)) r
  end.

Lemma BInv_ndo s : BInv s -> NoDup (map fst (b_online s)).
Proof. intros H. apply (bi_nd_on _ _ H). Qed.

Lemma send_unconnected_J w c k p s :
  BInv s -> J w s -> nget c (b_conns s) = Some k -> k_phase k <> PhConnected -> J w (fst (send_unconnected c k p s)).
Proof.
  intros HI HJ Hk Hn. unfold send_unconnected. destruct (k_phase k) eqn:Ep; try exact HJ; try congruence.
  - cbn [fst]. apply J_upd_detached; [exact HJ|apply not_attached_dead].
  - destruct p; try exact HJ.
    destruct ((k_v k =? 5) && (0 <? qos)); [|exact HJ].
    destruct (k_quota k =? 0); [apply conn_gone_J; [now apply BInv_ndo|exact HJ]|].
    cbn [fst]. eapply J_upd_conn; [exact HJ|exact Hk|apply cqe_set_quota|]. intros _. right. exact Ep.
  - destruct p; try exact HJ.
    destruct ((k_v k =? 5) && (0 <? qos)); [|exact HJ]. apply conn_gone_J; [now apply BInv_ndo|exact HJ].
Qed.

Lemma step_send_J w c p s : BInv s -> J w s -> ack_ok s c p = true -> J w (fst (step_event s (ESend c p))).
Proof.
  intros HI HJ Hok. cbn [step_event].
  destruct (nget c (b_conns s)) as [k|] eqn:Hk; [|exact HJ].
  destruct (k_phase k) eqn:Ep; try (apply send_unconnected_J; [exact HI|exact HJ|exact Hk|congruence]).
  assert (Hat : pattached k) by (left; exact Ep).
  assert (Hack : forall pid, is_ack p = Some pid -> ~ In pid (held_ids k)).
  { intros pid Hp. unfold ack_ok in Hok. rewrite Hp, Hk, Ep in Hok. apply negb_true_iff in Hok. now apply memN_notIn. }
  pose proof (handle_packet_J w c k p s HJ Hk Hat Hack) as HJ'.
  destruct (handle_packet_frame c k p s Hk) as [F _].
  assert (Hnd : NoDup (map fst (b_online (hres_st (handle_packet c k p s))))) by (rewrite (wf_on _ _ F); now apply BInv_ndo).
  destruct (handle_packet c k p s) as [s' o|s' o code|s' code]; cbn [hres_st] in *.
  - exact HJ'.
  - pose proof (fail_conn_J w c code false s' Hnd HJ') as H. destruct (fail_conn c code false s') as [s'' o']. exact H.
  - now apply fail_conn_J.
Qed.

Lemma fire_wills_J w s : J w s -> J w (fst (fire_wills s)).
Proof.
  intros HJ. unfold fire_wills. apply (fold_in_inv (J w)); [|exact HJ].
  intros s0 o0 [cid [m at_]] Hin H0. cbv beta iota zeta.
  assert (Hpid : m_pid m = 0) by (eapply (J_wills_pz w s HJ); exact Hin).
  destruct (at_ <=? b_rt s0); [|exact H0].
  destruct (aget cid (b_wills s0)); [|exact H0].
  match goal with |- context [send_will cid m ?S] =>
    assert (H1 : J w S) by (apply J_set_wills; [exact H0|]; apply wills_pz_adel; now apply (J_wills_pz w));
    pose proof (send_will_J w cid m S H1 Hpid) as H2; destruct (send_will cid m S) as [s2 o2] end.
  exact H2.
Qed.

Lemma expire_J w : forall (l : list (str * N)) s0,
  (forall cd, In cd l -> ahas (fst cd) (b_online s0) = false) -> BInv s0 -> J w s0 ->
  J w (fold_left (fun s0 cd => remove_session (fst cd) s0) l s0).
Proof.
  induction l as [|cd r IH]; intros s0 Hl HI HJ; cbn [fold_left]; [exact HJ|]. apply IH.
  - intros cd' Hin. cbn [remove_session set_subs set_tables b_online].
    rewrite ahas_adel by apply (bi_nd_on _ _ HI). rewrite (Hl cd') by now right. apply andb_false_r.
  - apply BInv_remove_offline; [exact HI|]. apply Hl. now left.
  - apply remove_session_J; [exact HJ|now apply BInv_ndo|].
    eapply NoAtt_offline; [apply (j_poll w s0 HJ)|]. apply ahas_false. apply Hl. now left.
Qed.

Lemma not_attached_fresh cid v : ~ pattached (fresh_conn cid v).
Proof. intros [H|H]; discriminate. Qed.

Lemma step_event_connect_fst s c cn :
  fst (step_event s (EConnect c cn)) = fst (handle_connect c cn (fst (conn_gone c s))).
Proof. cbn [step_event]. destruct (conn_gone c s) as [s0 o0]. cbn [fst]. now destruct (handle_connect c cn s0). Qed.

Lemma step_event_J w s e : BInv s -> J w s -> wb w s e = true -> J w (fst (step_event s e)).
Proof.
  intros HI HJ Hwb. unfold wb in Hwb. apply andb_true_iff in Hwb. destruct Hwb as [Hok Hwin].
  pose proof (BInv_ndo s HI) as Hnd.
  destruct e as [c cn|c|c p|c p n|c|m|cid|ms| |ms|].
  - (* EConnect *)
    rewrite step_event_connect_fst. cbn [ev_win] in Hwin. rewrite step_event_connect_fst in Hwin.
    apply handle_connect_J.
    + now apply conn_gone_inv.
    + apply conn_gone_cv_self.
    + now apply conn_gone_J.
    + intros ->. exact Hwin.
  - (* EOpen *)
    cbn [step_event]. pose proof (conn_gone_J w c s Hnd HJ) as H0. destruct (conn_gone c s) as [s0 o0]. cbn [fst] in *.
    apply J_upd_detached; [exact H0|apply not_attached_fresh].
  - (* ESend *)
    now apply step_send_J.
  - (* ESendSz *)
    cbn [ev_ok] in Hok.
    destruct (step_event_sz s c p n) as [E|(k & Hk & Hp & _ & [[code E]|[E|[q E]]])]; rewrite E.
    + now apply step_send_J.
    + now apply fail_conn_J.
    + now apply fail_conn_J.
    + apply fail_conn_J; [exact Hnd|]. eapply J_upd_conn; [exact HJ|exact Hk|apply cqe_set_quota|]. intros _. left. exact Hp.
  - (* EClose *)
    cbn [step_event]. pose proof (conn_gone_J w c s Hnd HJ) as H0. destruct (conn_gone c s) as [s0 o0]. exact H0.
  - (* EApiPublish *)
    cbn [step_event]. cbn [ev_ok] in Hok. apply N.eqb_eq in Hok.
    pose proof (deliver_J w [] m s HJ Hok) as H. destruct (deliver [] m s) as [[s' o] b]. exact H.
  - (* ETerminate *)
    cbn [step_event]. destruct (aget cid (b_online s)) as [c|] eqn:Eo.
    + destruct (nget c (b_conns s)) as [k|] eqn:Hk; [|exact HJ].
      apply conn_gone_J; [exact Hnd|]. eapply J_upd_conn; [exact HJ|exact Hk|apply cqe_set_force|]. intros H; exact H.
    + destruct (ahas cid (b_offline s)); [|exact HJ].
      apply release_will_J. apply remove_session_J; [exact HJ|exact Hnd|].
      eapply NoAtt_offline; [apply (j_poll w s HJ)|exact Eo].
  - (* EAdvance *)
    cbn [step_event fst]. eapply J_same; [..|exact HJ]; reflexivity.
  - (* EExpireCheck *)
    cbn [step_event]. apply (fold_inv (J w)).
    + intros s0 o0 cd H0. pose proof (release_will_J w (fst cd) s0 H0) as H. destruct (release_will (fst cd) s0). exact H.
    + apply expire_J; [|exact HI|exact HJ]. intros [cid dl] Hin. apply filter_In in Hin as [Hin _]. cbn [fst].
      destruct (ahas cid (b_online s)) eqn:E; [|reflexivity].
      apply (bi_disj _ _ HI) in E. assert (ahas cid (b_offline s) = true); [|congruence].
      apply ahas_in_keys. apply in_map_iff. now exists (cid, dl).
  - (* ESleep *)
    cbn [step_event]. set (s0 := set_time (b_now s + ms) (b_rt s + ms) s).
    assert (H0 : BInv s0 /\ J w s0).
    { split; [eapply BInvG_cframe; [apply cframe_set_time|exact HI]|]. eapply J_same; [..|exact HJ]; reflexivity. }
    match goal with |- context [fold_left ?f (b_conns s0) (s0, [])] =>
      pose proof (fold_inv (fun s => BInv s /\ J w s) f (b_conns s0)) as HF;
      destruct (fold_left f (b_conns s0) (s0, [])) as [s1 o1] eqn:E1 end.
    assert (H1 : BInv s1 /\ J w s1).
    { specialize (fun H => HF H s0 [] H0). rewrite E1 in HF. apply HF.
      intros sa oa ck [Ha Hb]. destruct (k_phase (snd ck)); try (split; assumption);
        (match goal with |- context [if ?b then _ else _] => destruct b end; [|split; assumption]);
        pose proof (conn_gone_inv (fst ck) sa Ha) as Hg; pose proof (conn_gone_J w (fst ck) sa (BInv_ndo sa Ha) Hb) as Hg';
        destruct (conn_gone (fst ck) sa) as [sb ob]; split; assumption. }
    destruct H1 as [_ H1]. pose proof (fire_wills_J w s1 H1) as H2. destruct (fire_wills s1) as [s2 o2]. exact H2.
  - (* EInspect *)
    exact HJ.
Qed.

(* the poll loops *)
Lemma poll_once_QS w c s s' o :
  BInv s -> AllPoll w s -> QS s -> poll_once c s = Some (s', o) -> BInv s' /\ QS s' /\ b_tag s' = b_tag s.
Proof.
  intros HI HA HQ Hp.
  assert (HI' : BInv s') by (eapply BInvG_frame; [apply (BrokerInvP.poll_once_frame c s s' o Hp)|exact HI]).
  destruct (nget c (b_conns s)) as [k|] eqn:Hk; [|rewrite (poll_once_absent c s Hk) in Hp; discriminate].
  destruct (attached_dec k) as [Hat|Hna]; [|rewrite (poll_once_detached c s k Hk Hna) in Hp; discriminate].
  destruct (HA c k Hk Hat) as (k0 & q & inf & que & Hk0 & Hq & _ & _ & _ & HCQ).
  rewrite Hk in Hk0. inversion Hk0; subst k0. clear Hk0.
  destruct (poll_once_cases w c s s' o k q inf que Hk Hq HCQ Hp) as (_ & Ht & _ & _ & Hqueues & Hcase).
  destruct (poll_case_next _ _ _ _ _ _ _ _ _ Hcase) as (k' & q' & inf' & que' & _ & _ & Hq' & HCQ').
  split; [exact HI'|]. split; [|exact Ht].
  intros cid' q1 Hin. apply In_aget in Hin; [|apply (bi_nd_q _ _ HI')].
  destruct (str_dec cid' (k_cid k)) as [->|Hne].
  - rewrite Hq' in Hin. inversion Hin; subst q1. exists inf', que'. apply (cq_q _ _ _ _ _ _ HCQ').
  - rewrite (Hqueues _ Hne) in Hin. rewrite Ht. apply (HQ cid' q1). now apply aget_In.
Qed.

Definition PQ (w : bool) (b : N) (s : st) : Prop := BInv s /\ AllPoll w s /\ QS s /\ b_tag s = b.

Lemma poll_conn_PQ w b c : forall fuel s, PQ w b s -> PQ w b (fst (poll_conn fuel c s)).
Proof.
  induction fuel as [|f IH]; intros s HP; cbn [poll_conn]; [exact HP|].
  destruct (poll_once c s) as [[s' o]|] eqn:Hp; [|exact HP].
  destruct HP as (HI & HA & HQ & Ht).
  destruct (poll_once_QS w c s s' o HI HA HQ Hp) as (HI' & HQ' & Ht').
  assert (HP' : PQ w b s') by (split; [exact HI'|split; [eapply poll_once_AllPoll; eauto|split; [exact HQ'|congruence]]]).
  pose proof (IH s' HP') as H. destruct (poll_conn f c s') as [s'' o']. exact H.
Qed.

Lemma poll_all_PQ w b s : PQ w b s -> PQ w b (fst (poll_all s)).
Proof.
  unfold poll_all. intros HP. apply (fold_pair_inv (PQ w b)); [|exact HP].
  intros s0 o0 ck H0. pose proof (poll_conn_PQ w b (fst ck) 400 s0 H0) as H.
  destruct (poll_conn 400 (fst ck) s0). exact H.
Qed.

Lemma poll_all_J w s : BInv s -> J w s -> J w (fst (poll_all s)).
Proof.
  intros HI [HA HQ HP HT HC HK].
  destruct (poll_all_PQ w (b_tag s) s) as (_ & HA' & HQ' & Ht'); [split; [exact HI|split; [exact HA|split; [exact HQ|reflexivity]]]|].
  destruct (BrokerQos2P.poll_all_frame s) as [F _].
  constructor.
  - exact HA'.
  - exact HQ'.
  - eapply PZ_same; [apply (BrokerQos2P.df_ret _ _ F)|apply (BrokerQos2P.df_sessions _ _ F)|apply (BrokerQos2P.df_wills _ _ F)|exact HP].
  - now rewrite Ht'.
  - now rewrite (BrokerQos2P.df_cfg _ _ F).
  - intros c k' Hk' Hat'. rewrite (BrokerQos2P.df_cfg _ _ F).
    pose proof (BrokerQos2P.df_cstat _ _ F c) as E. unfold BrokerQos2P.cstat in E. rewrite Hk' in E.
    destruct (nget c (b_conns s)) as [k|] eqn:Hk; cbn [option_map] in E; [|discriminate].
    assert (Es : BrokerQos2P.kstat k' = BrokerQos2P.kstat k) by congruence.
    unfold BrokerQos2P.kstat in Es.
    assert (E1 : k_max_inflight k' = k_max_inflight k) by congruence.
    assert (E2 : k_phase k' = k_phase k) by congruence.
    rewrite E1. apply (HK c k Hk). unfold BrokerPollP.attached in *. now rewrite <- E2.
Qed.

Theorem step_GInv w s e : GInv w s -> wb w s e = true -> GInv w (fst (step s e)).
Proof.
  intros [HI HJ] Hwb. split; [now apply step_inv|].
  pose proof (step_event_inv s e HI) as HI1. pose proof (step_event_J w s e HI HJ Hwb) as HJ1.
  unfold step. destruct (step_event s e) as [s1 o1]. cbn [fst] in *.
  pose proof (poll_all_J w s1 HI1 HJ1) as H. destruct (poll_all s1) as [s2 o2]. exact H.
Qed.

Theorem run_GInv w : forall es s, GInv w s -> run_wb w s es = true -> GInv w (fst (run s es)).
Proof.
  induction es as [|e r IH]; intros s HG Hwb; cbn [run]; [exact HG|].
  cbn [run_wb] in Hwb. apply andb_true_iff in Hwb. destruct Hwb as [H1 H2].
  pose proof (step_GInv w s e HG H1) as HG1. destruct (step s e) as [s' o]. cbn [fst] in *.
  specialize (IH s' HG1 H2). destruct (run s' r) as [s'' os]. exact IH.
Qed.

Lemma GInv_init w c h p : c_max_inflight c <= MAXPID -> GInv w (st_init c h p).
Proof.
  intros Hc. split; [apply BInv_init|]. constructor.
  - intros c0 k Hk. discriminate.
  - intros cid q Hin. destruct Hin.
  - split; [intros m H; destruct H|split; [intros ? ? ? H; destruct H|intros ? ? ? H; destruct H]].
  - cbn. discriminate.
  - exact Hc.
  - intros c0 k Hk. discriminate.
Qed.

(* ------------------------------------------------------------------ *)
(* 8. the configuration never changes                                  *)
(* ------------------------------------------------------------------ *)

Lemma fail_conn_cfg c code br s : b_cfg (fst (fail_conn c code br s)) = b_cfg s.
Proof.
  unfold fail_conn. destruct (nget c (b_conns s)) as [k|]; [|reflexivity].
  destruct (k_phase k); try reflexivity.
  match goal with |- context [if ?b then _ else _] => destruct b end; [|reflexivity].
  destruct (conn_gone_misc c s) as (H & _). destruct (conn_gone c s) as [s' o]. exact H.
Qed.

Lemma hc_accept_cfg c cn s : BInv s -> cv s c = None -> b_cfg (fst (hc_accept c cn s)) = b_cfg s.
Proof.
  intros HI Hc. unfold hc_accept. cbv zeta. set (cid := hc_cid cn s).
  assert (HI0 : BInv (hc_auto cn s)) by (eapply BInvG_cframe; [apply wframe_cframe, hc_auto_frame|exact HI]).
  assert (Hc0 : cv (hc_auto cn s) c = None)
    by (rewrite (cf_cv _ _ (wframe_cframe _ _ (hc_auto_frame cn s))); exact Hc).
  assert (Hcf0 : b_cfg (hc_auto cn s) = b_cfg s) by (unfold hc_auto; destruct (is_empty (cn_cid cn)); reflexivity).
  destruct (hc_takeover_spec cid c (hc_auto cn s) HI0 Hc0) as (HI1 & Hon1 & Hc1 & Hcf1 & _).
  destruct (hc_takeover cid (hc_auto cn s)) as [s1 o_dup]. cbn [fst] in *.
  destruct (hc_old_spec cid (cn_ver cn =? 5) (hc_cmax cn) (hc_resume0 cid cn s1) c s1 HI1 Hon1 Hc1)
    as (_ & _ & _ & Hcf2 & _).
  destruct (hc_old cid (cn_ver cn =? 5) (hc_cmax cn) (hc_resume0 cid cn s1) s1) as [[s2 o_will] resume].
  cbn [fst snd] in *.
  pose proof (hc_fresh_frame cid (cn_ver cn =? 5) (hc_cmax cn) (b_cfg s) resume s2) as F3.
  destruct (hc_wd_exp cn (b_cfg s)) as [wd ex].
  match goal with |- context [hc_wills o_will ?S] =>
    pose proof (hc_wills_quiet o_will S) as [F5 _]; set (s4 := S) in *; destruct (hc_wills o_will s4) as [s5 o_w] end.
  cbn [fst] in *. rewrite (fr_cfg _ _ F5). unfold s4, hc_register. cbn [set_tables b_cfg]. rewrite upd_conn_cfg, (wf_cfg _ _ F3). congruence.
Qed.

Lemma step_send_cfg c p s : b_cfg (fst (step_event s (ESend c p))) = b_cfg s.
Proof.
  cbn [step_event]. destruct (nget c (b_conns s)) as [k|] eqn:Hk; [|reflexivity].
  destruct (k_phase k) eqn:Ep.
  2:{ destruct (handle_packet_frame c k p s Hk) as [F _].
      destruct (handle_packet c k p s) as [s' o|s' o code|s' code]; cbn [hres_st] in F.
      - exact (wf_cfg _ _ F).
      - pose proof (fail_conn_cfg c code false s') as H. destruct (fail_conn c code false s') as [s'' o']. cbn [fst] in *. rewrite H. exact (wf_cfg _ _ F).
      - rewrite fail_conn_cfg. exact (wf_cfg _ _ F). }
  all: unfold send_unconnected; rewrite Ep; try reflexivity.
  all: destruct p; try reflexivity; destruct ((k_v k =? 5) && (0 <? qos)); try reflexivity.
  - destruct (k_quota k =? 0); [|reflexivity]. apply conn_gone_misc.
  - apply conn_gone_misc.
Qed.

Lemma step_event_cfg s e : BInv s -> b_cfg (fst (step_event s e)) = b_cfg s.
Proof.
  intros HI. destruct e as [c cn|c|c p|c p n|c|m|cid|ms| |ms|].
  - rewrite step_event_connect_fst. destruct (conn_gone_misc c s) as (H0 & _). rewrite <- H0.
    rewrite handle_connect_eq.
    destruct (negb (c_allow_zero_len (b_cfg (fst (conn_gone c s)))) && is_empty (cn_cid cn)); [reflexivity|].
    destruct (negb (hc_code cn (fst (conn_gone c s)) =? 0)); [reflexivity|].
    apply hc_accept_cfg; [now apply conn_gone_inv|apply conn_gone_cv_self].
  - cbn [step_event]. destruct (conn_gone_misc c s) as (H0 & _). destruct (conn_gone c s) as [s0 o0]. exact H0.
  - apply step_send_cfg.
  - destruct (step_event_sz s c p n) as [E|(k & Hk & Hp & _ & [[code E]|[E|[q E]]])]; rewrite E;
      [apply step_send_cfg|apply fail_conn_cfg|apply fail_conn_cfg|now rewrite fail_conn_cfg].
  - cbn [step_event]. destruct (conn_gone_misc c s) as (H0 & _). destruct (conn_gone c s) as [s0 o0]. exact H0.
  - cbn [step_event]. destruct (deliver_quiet [] m s) as [F _]. destruct (deliver [] m s) as [[s' o] b]. exact (fr_cfg _ _ F).
  - cbn [step_event]. destruct (aget cid (b_online s)) as [c|].
    + destruct (nget c (b_conns s)) as [k|]; [|reflexivity].
      destruct (conn_gone_misc c (upd_conn c (set_force k) s)) as (H0 & _). exact H0.
    + destruct (ahas cid (b_offline s)); [|reflexivity].
      destruct (release_will_quiet cid (remove_session cid s)) as [F _]. exact (fr_cfg _ _ F).
  - reflexivity.
  - cbn [step_event]. apply (fold_inv (fun s0 => b_cfg s0 = b_cfg s)).
    + intros s0 o0 cd H0. destruct (release_will_quiet (fst cd) s0) as [F _]. destruct (release_will (fst cd) s0). cbn [fst] in *.
      now rewrite (fr_cfg _ _ F).
    + generalize (filter (fun cd => snd cd <? b_now s) (b_offline s)). intros l.
      assert (G : forall s0, b_cfg s0 = b_cfg s -> b_cfg (fold_left (fun s0 cd => remove_session (fst cd) s0) l s0) = b_cfg s).
      { induction l as [|cd r IH]; intros s0 H0; cbn [fold_left]; [exact H0|]. apply IH. exact H0. }
      now apply G.
  - cbn [step_event]. set (s0 := set_time (b_now s + ms) (b_rt s + ms) s).
    match goal with |- context [fold_left ?f (b_conns s0) (s0, [])] =>
      pose proof (fold_inv (fun s1 => b_cfg s1 = b_cfg s) f (b_conns s0)) as HF;
      destruct (fold_left f (b_conns s0) (s0, [])) as [s1 o1] eqn:E1 end.
    assert (H1 : b_cfg s1 = b_cfg s).
    { specialize (fun H => HF H s0 [] eq_refl). rewrite E1 in HF. apply HF.
      intros sa oa ck Ha. destruct (k_phase (snd ck)); try exact Ha;
        (match goal with |- context [if ?b then _ else _] => destruct b end; [|exact Ha]);
        destruct (conn_gone_misc (fst ck) sa) as (Hg & _); destruct (conn_gone (fst ck) sa) as [sb ob]; cbn [fst] in *; congruence. }
    destruct (fire_wills_quiet s1) as [F _]. destruct (fire_wills s1) as [s2 o2]. cbn [fst] in *. now rewrite (fr_cfg _ _ F).
  - reflexivity.
Qed.

Lemma step_cfg s e : BInv s -> b_cfg (fst (step s e)) = b_cfg s.
Proof.
  intros HI. rewrite (fr_cfg _ _ (step_frame_poll s e)). now apply step_event_cfg.
Qed.

Lemma run_cfg : forall es s, BInv s -> b_cfg (fst (run s es)) = b_cfg s.
Proof.
  induction es as [|e r IH]; intros s HI; cbn [run]; [reflexivity|].
  pose proof (step_cfg s e HI) as H1. pose proof (step_inv s e HI) as HI1. destruct (step s e) as [s' o]. cbn [fst] in *.
  specialize (IH s' HI1). destruct (run s' r) as [s'' os]. cbn [fst] in *. congruence.
Qed.

(* ------------------------------------------------------------------ *)
(* 9. C03 over whole runs                                              *)
(* ------------------------------------------------------------------ *)

Lemma run_wb_app w a : forall s b, run_wb w s (a ++ b) = run_wb w s a && run_wb w (fst (run s a)) b.
Proof.
  induction a as [|e r IH]; intros s b; cbn [app run_wb run fst]; [reflexivity|].
  rewrite IH. destruct (step s e) as [s' o]. cbn [fst]. destruct (run s' r) as [s'' os]. cbn [fst]. now rewrite andb_assoc.
Qed.

Lemma run_wb_weaken : forall es s, run_wb true s es = true -> run_wb false s es = true.
Proof.
  induction es as [|e r IH]; intros s H; cbn [run_wb] in *; [reflexivity|].
  apply andb_true_iff in H. destruct H as [H1 H2]. apply andb_true_iff. split; [|now apply IH].
  unfold wb in *. apply andb_true_iff in H1. destruct H1 as [H1 _]. now rewrite H1.
Qed.

(* the global invariant holds in every state a well-behaved run reaches *)
Theorem reachable_GInv w c h p es :
  c_max_inflight c <= MAXPID -> run_wb w (st_init c h p) es = true -> GInv w (fst (run (st_init c h p) es)).
Proof. intros Hc Hwb. apply run_GInv; [now apply GInv_init|exact Hwb]. Qed.

(* C03_all_runs: every attached socket of the reached state satisfies the invariant of Proofs/BrokerPollP.v *)
Theorem C03_all_runs w c h p es :
  c_max_inflight c <= MAXPID -> run_wb w (st_init c h p) es = true ->
  forall sock k, nget sock (b_conns (fst (run (st_init c h p) es))) = Some k -> pattached k ->
                 PollInv w (fst (run (st_init c h p) es)) sock.
Proof. intros Hc Hwb. destruct (reachable_GInv w c h p es Hc Hwb) as [_ HJ]. apply (j_poll _ _ HJ). Qed.

(* ... and so does every state on the way *)
Theorem C03_all_prefixes w c h p pre post :
  c_max_inflight c <= MAXPID -> run_wb w (st_init c h p) (pre ++ post) = true ->
  AllPoll w (fst (run (st_init c h p) pre)).
Proof.
  intros Hc Hwb. rewrite run_wb_app in Hwb. apply andb_true_iff in Hwb. destruct Hwb as [Hwb _].
  destruct (reachable_GInv w c h p pre Hc Hwb) as [_ HJ]. apply (j_poll _ _ HJ).
Qed.

(* the stored queue of every session - attached or not - has the queue shape: a resume finds what it needs *)
Theorem C03_stored_queues w c h p es :
  c_max_inflight c <= MAXPID -> run_wb w (st_init c h p) es = true ->
  forall cid q, aget cid (b_queues (fst (run (st_init c h p) es))) = Some q ->
    exists inf que, QInv q (b_tag (fst (run (st_init c h p) es))) inf que.
Proof.
  intros Hc Hwb cid q Hq. destruct (reachable_GInv w c h p es Hc Hwb) as [_ HJ].
  apply (j_qs _ _ HJ cid q). now apply aget_In.
Qed.

(* no stored message carries a packet id *)
Theorem C03_stored_pid0 w c h p es :
  c_max_inflight c <= MAXPID -> run_wb w (st_init c h p) es = true ->
  PZ (fst (run (st_init c h p) es)).
Proof. intros Hc Hwb. destruct (reachable_GInv w c h p es Hc Hwb) as [_ HJ]. apply (j_pz _ _ HJ). Qed.

(* corollary 1: ids of the in-flight entries of every attached connection: non-zero, pairwise distinct, locked *)
Theorem C03_ids_all_runs c h p es :
  c_max_inflight c <= MAXPID -> run_wb false (st_init c h p) es = true ->
  forall sock k, nget sock (b_conns (fst (run (st_init c h p) es))) = Some k -> pattached k ->
    exists q, aget (k_cid k) (b_queues (fst (run (st_init c h p) es))) = Some q /\
      NoDup (inflight_ids q) /\ (forall i, In i (inflight_ids q) -> 1 <= i <= MAXPID) /\ ~ In 0 (inflight_ids q) /\
      (forall i, In i (inflight_ids q) -> In i (l_locked (k_lim k))).
Proof.
  intros Hc Hwb sock k Hk Hat. pose proof (C03_all_runs false c h p es Hc Hwb sock k Hk Hat) as HP.
  pose proof HP as (k0 & q & inf & que & Hk0 & Hq & _). rewrite Hk in Hk0. inversion Hk0; subst k0.
  exists q. split; [exact Hq|]. exact (C03_ids_distinct_nonzero false _ sock k q HP Hk Hq).
Qed.

(* corollary 2: the window.  In a run in which no CONNECT leaves more in flight than the new window allows,
   the in-flight entries (and, after the replay, the ids held by the poll loop) never outnumber the window of
   the connection, which is at most the configured max_inflight (and, by window_at_connect, the client's
   Receive Maximum) *)
Theorem C03_window_all_runs c h p es :
  c_max_inflight c <= MAXPID -> run_wb true (st_init c h p) es = true ->
  forall sock k, nget sock (b_conns (fst (run (st_init c h p) es))) = Some k -> pattached k ->
    exists q, aget (k_cid k) (b_queues (fst (run (st_init c h p) es))) = Some q /\
      N.of_nat (length (inflight_ids q)) <= k_max_inflight k /\
      (k_drained k = true -> N.of_nat (length (inflight_ids q) + length (held_ids k)) <= k_max_inflight k) /\
      l_used (k_lim k) <= l_limit (k_lim k) /\
      k_max_inflight k <= c_max_inflight c.
Proof.
  intros Hc Hwb sock k Hk Hat. pose proof (C03_all_runs true c h p es Hc Hwb sock k Hk Hat) as HP.
  pose proof HP as (k0 & q & inf & que & Hk0 & Hq & _). rewrite Hk in Hk0. inversion Hk0; subst k0.
  exists q. split; [exact Hq|].
  destruct (C03_window _ sock k q HP Hk Hq) as (H1 & _ & H3 & H4).
  split; [exact H1|]. split; [exact H3|]. split; [exact H4|].
  destruct (reachable_GInv true c h p es Hc Hwb) as [_ HJ].
  pose proof (j_kw _ _ HJ sock k Hk Hat) as H5. rewrite run_cfg in H5 by apply BInv_init. exact H5.
Qed.

(* ------------------------------------------------------------------ *)
(* 10. witnesses                                                       *)
(* ------------------------------------------------------------------ *)

(* a subscriber with Receive Maximum 2 and a persistent session; QoS 1 and 2 traffic, PUBACK and PUBREC, the
   connection closes, messages are queued for the stored session, the session is resumed (PUBREL and the QoS 1
   message are retransmitted), PUBCOMP, more traffic *)
Definition gx_run : list event :=
  wx_pre ++ [wx_pub 1 11 [1]; wx_pub 2 12 [2]; wx_pub 1 13 [3]; ESend 1 (KPuback 1 0 []); ESend 1 (KPubrec 3 0 []);
             EClose 1; wx_pub 1 14 [4]; wx_pub 2 15 [5];
             EConnect 1 (wx_connect 5 wx_S false [PSei 100; PRecvMax 2]); ESend 1 (KPubcomp 3 0 []); wx_pub 1 16 [6]].

Example gx_well_behaved :
  c_max_inflight (wx_cfg 0 100) <= MAXPID /\ run_wb true wx_init gx_run = true /\ run_wb false wx_init gx_run = true /\
  let s := fst (run wx_init gx_run) in
  pollinv_b true s 1 = true /\ pollinv_b true s 2 = true /\
  option_map inflight_ids (aget wx_S (b_queues s)) = Some [4; 1] /\
  option_map (fun q => length (q_l q)) (aget wx_S (b_queues s)) = Some 4%nat /\
  option_map k_max_inflight (nget 1 (b_conns s)) = Some 2.
Proof. vm_compute. repeat split; discriminate. Qed.

(* what socket 1 is sent after the resume: the PUBREL and the unacknowledged QoS 1 message again, first *)
Example gx_resume_output :
  map (filter (fun x => match x with OSend 1 (KConnack _ _ _) => false | OSend 1 _ => true | _ => false end))
      (skipn 11 (snd (run wx_init gx_run))) =
  [[OSend 1 (KPubrel 3 0 []); OSend 1 (KPublish true 1 false wx_T [3] 4 [])];
   [OSend 1 (KPublish false 1 false wx_T [4] 1 [])]; []].
Proof. vm_compute. reflexivity. Qed.

(* the window side condition cannot be dropped (kf_replay_exceeds_smaller_recvmax): the session comes back with
   Receive Maximum 1 while two messages are in flight; the run is well-behaved for w = false, the invariant
   without the window clause holds, with it it does not: two messages are in flight under window 1 *)
Definition gx_small_window : list event :=
  wx_pre ++ [wx_pub 1 11 [1]; wx_pub 2 12 [2]; wx_pub 1 13 [3]; EClose 1;
             EConnect 1 (wx_connect 5 wx_S false [PSei 100; PRecvMax 1])].

Example C03_window_needs_side_condition :
  run_wb false wx_init gx_small_window = true /\ run_wb true wx_init gx_small_window = false /\
  let s := fst (run wx_init gx_small_window) in
  pollinv_b false s 1 = true /\ pollinv_b true s 1 = false /\
  option_map inflight_ids (aget wx_S (b_queues s)) = Some [1; 3] /\
  option_map k_max_inflight (nget 1 (b_conns s)) = Some 1.
Proof. vm_compute. repeat split. Qed.

(* hypothesis (a) cannot be dropped: a PUBACK for an id the poll loop merely holds *)
Example C03_held_ack_not_well_behaved :
  let es := wx_pre ++ [ESend 1 (KPuback 1 0 [])] in
  run_wb false wx_init es = false /\ run_wb false wx_init wx_pre = true /\
  pollinv_b false (fst (run wx_init es)) 1 = false.
Proof. vm_compute. repeat split. Qed.

(* hypothesis (b) cannot be dropped: a message with a packet id handed to the publish API *)
Example C03_api_pid_not_well_behaved :
  let pre := wx_pre ++ [wx_pub 1 11 [1]; wx_pub 1 12 [2]; wx_pub 1 13 [3]] in
  let es := pre ++ [EApiPublish (set_pid 7 (msg_of_publish false false 1 false wx_T [9] 0 []))] in
  run_wb false wx_init es = false /\ run_wb false wx_init pre = true /\
  pollinv_b false (fst (run wx_init es)) 1 = false.
Proof. vm_compute. repeat split. Qed.

(* the configuration hypothesis cannot be dropped: with max_inflight above 65535 (not representable in the
   implementation: config.MQTT.MaxInflight is a uint16) the window of a connection exceeds the id space *)
Definition gx_bigcfg : cfg :=
  {| c_onlyonce := false; c_max_inflight := 70000; c_max_queued := 100; c_queue_qos0 := true;
     c_session_expiry := 3600; c_message_expiry := 0; c_recv_max := 100; c_alias_max := 10; c_max_packet := 0;
     c_max_qos := 2; c_retain_avail := true; c_wildcard := true; c_subid := true; c_shared := true;
     c_max_keepalive := 60; c_allow_zero_len := true; c_inflight_expiry := 0 |}.

Example C03_max_inflight_bound_needed :
  let es := [EConnect 1 (wx_connect 4 wx_S true [])] in
  run_wb false (st_init gx_bigcfg no_hooks []) es = true /\
  pollinv_b false (fst (run (st_init gx_bigcfg no_hooks []) es)) 1 = false.
Proof. vm_compute. repeat split. Qed.

(* messages received from clients and wills are built without packet id *)
Lemma msg_of_publish_pid0 v5 dup qos retain topic payload pid props :
  m_pid (msg_of_publish v5 dup qos retain topic payload pid props) = 0.
Proof. reflexivity. Qed.
Lemma will_msg_pid0 ws : m_pid (will_msg ws) = 0.
Proof. reflexivity. Qed.

(* ------------------------------------------------------------------ *)
(* 11. hypothesis (a) in its plain form: acknowledge only what is in flight *)
(* ------------------------------------------------------------------ *)

(* the client acknowledges only packet ids that are in flight on its connection.  This implies ack_ok (an id
   in flight is not among the ids the poll loop merely holds); ack_ok is weaker: it also allows acknowledgements
   of unknown ids, which change nothing *)
Definition ack_inflight (s : st) (c : N) (p : pkt) : bool :=
  match is_ack p with
  | Some pid => match nget c (b_conns s) with
                | Some k => match k_phase k with
                            | PhConnected => match aget (k_cid k) (b_queues s) with
                                             | Some q => memN pid (inflight_ids q)
                                             | None => false
                                             end
                            | _ => true
                            end
                | None => true
                end
  | None => true
  end.

Lemma ack_inflight_ok w s c p : J w s -> ack_inflight s c p = true -> ack_ok s c p = true.
Proof.
  intros HJ. unfold ack_inflight, ack_ok. destruct (is_ack p) as [pid|]; [|auto].
  destruct (nget c (b_conns s)) as [k|] eqn:Hk; [|auto]. destruct (k_phase k) eqn:Ep; auto.
  assert (Hat : pattached k) by (left; exact Ep).
  destruct (j_poll w s HJ c k Hk Hat) as (k0 & q & inf & que & Hk0 & Hq & _ & _ & _ & HCQ).
  rewrite Hk in Hk0. inversion Hk0; subst k0. rewrite Hq. intros Hin. apply memN_In in Hin.
  apply negb_true_iff. apply memN_notIn. intros Hh.
  rewrite (inflight_ids_inf _ _ _ _ (cq_q _ _ _ _ _ _ HCQ)) in Hin.
  apply in_map_iff in Hin. destruct Hin as (e & He & Hin). apply In_firstn in Hin.
  eapply (NoDup_app_disj _ _ pid (cq_nd _ _ _ _ _ _ HCQ)); [|exact Hh]. rewrite <- He. now apply in_map.
Qed.

Definition ev_ok_strict (s : st) (e : event) : bool :=
  match e with
  | ESend c p => ack_inflight s c p
  | ESendSz c p _ => ack_inflight s c p
  | EApiPublish m => m_pid m =? 0
  | _ => true
  end.

Definition wb_strict (w : bool) (s : st) (e : event) : bool := ev_ok_strict s e && (negb w || ev_win s e).

Fixpoint run_wb_strict (w : bool) (s : st) (es : list event) : bool :=
  match es with
  | [] => true
  | e :: r => wb_strict w s e && run_wb_strict w (fst (step s e)) r
  end.

Lemma wb_strict_wb w s e : J w s -> wb_strict w s e = true -> wb w s e = true.
Proof.
  intros HJ H. unfold wb_strict, wb in *. apply andb_true_iff in H. destruct H as [H1 H2]. rewrite H2, andb_true_r.
  destruct e; cbn [ev_ok_strict ev_ok] in *; auto; eapply ack_inflight_ok; eauto.
Qed.

Theorem run_wb_strict_wb w : forall es s, GInv w s -> run_wb_strict w s es = true -> run_wb w s es = true.
Proof.
  induction es as [|e r IH]; intros s HG H; cbn [run_wb_strict run_wb] in *; [reflexivity|].
  apply andb_true_iff in H. destruct H as [H1 H2].
  pose proof (wb_strict_wb w s e (proj2 HG) H1) as H1'. rewrite H1'. cbn [andb].
  apply IH; [now apply step_GInv|exact H2].
Qed.

Theorem C03_all_runs_strict w c h p es :
  c_max_inflight c <= MAXPID -> run_wb_strict w (st_init c h p) es = true ->
  AllPoll w (fst (run (st_init c h p) es)).
Proof.
  intros Hc H. pose proof (run_wb_strict_wb w es _ (GInv_init w c h p Hc) H) as Hwb.
  destruct (reachable_GInv w c h p es Hc Hwb) as [_ HJ]. apply (j_poll _ _ HJ).
Qed.

Example gx_strict : run_wb_strict true wx_init gx_run = true.
Proof. vm_compute. reflexivity. Qed.

(* ------------------------------------------------------------------ *)
(* 12. "until acknowledged": the poll loops of a whole step never remove an in-flight entry *)
(* ------------------------------------------------------------------ *)

(* every stored queue keeps its in-flight entries (as the retransmission shows them: rkey), possibly with
   new ones appended *)
Definition inflight_ext (s s' : st) : Prop :=
  forall cid q, aget cid (b_queues s) = Some q ->
    exists q' l, aget cid (b_queues s') = Some q' /\ map rkey (q_inf q') = map rkey (q_inf q) ++ l.

Lemma inflight_ext_refl s : inflight_ext s s.
Proof. intros cid q Hq. exists q, []. now rewrite app_nil_r. Qed.

Lemma inflight_ext_trans a b c : inflight_ext a b -> inflight_ext b c -> inflight_ext a c.
Proof.
  intros H1 H2 cid q Hq. destruct (H1 cid q Hq) as (q1 & l1 & Hq1 & E1). destruct (H2 cid q1 Hq1) as (q2 & l2 & Hq2 & E2).
  exists q2, (l1 ++ l2). split; [exact Hq2|]. now rewrite E2, E1, app_assoc.
Qed.

Lemma poll_once_inflight_ext w c s s' o : AllPoll w s -> poll_once c s = Some (s', o) -> inflight_ext s s'.
Proof.
  intros HA Hp.
  destruct (nget c (b_conns s)) as [k|] eqn:Hk; [|rewrite (poll_once_absent c s Hk) in Hp; discriminate].
  destruct (attached_dec k) as [Hat|Hna]; [|rewrite (poll_once_detached c s k Hk Hna) in Hp; discriminate].
  pose proof (HA c k Hk Hat) as HP.
  pose proof HP as (k0 & q & inf & que & Hk0 & Hq & _ & _ & _ & HCQ).
  rewrite Hk in Hk0. inversion Hk0; subst k0. clear Hk0.
  destruct (poll_once_cases w c s s' o k q inf que Hk Hq HCQ Hp) as (_ & _ & _ & _ & Hqueues & _).
  intros cid q1 Hq1. destruct (str_dec cid (k_cid k)) as [->|Hne].
  - rewrite Hq in Hq1. inversion Hq1; subst q1. exact (C03_until_acked_poll w s c k q s' o HP Hk Hq Hp).
  - exists q1, []. rewrite (Hqueues _ Hne), app_nil_r. auto.
Qed.

Lemma poll_conn_inflight_ext w c : forall fuel s, AllPoll w s ->
  AllPoll w (fst (poll_conn fuel c s)) /\ inflight_ext s (fst (poll_conn fuel c s)).
Proof.
  induction fuel as [|f IH]; intros s HA; cbn [poll_conn]; [split; [exact HA|apply inflight_ext_refl]|].
  destruct (poll_once c s) as [[s' o]|] eqn:Hp; [|split; [exact HA|apply inflight_ext_refl]].
  pose proof (poll_once_AllPoll w c s s' o HA Hp) as HA'. pose proof (poll_once_inflight_ext w c s s' o HA Hp) as E1.
  destruct (IH s' HA') as [HA'' E2]. destruct (poll_conn f c s') as [s'' o']. cbn [fst] in *.
  split; [exact HA''|eapply inflight_ext_trans; eauto].
Qed.

Theorem poll_all_inflight_ext w s : AllPoll w s -> inflight_ext s (fst (poll_all s)).
Proof.
  intros HA. unfold poll_all.
  cut (AllPoll w (fst (fold_left (fun acc ck => let '(s0, o0) := acc in
                                  let '(s', o') := poll_conn 400 (fst ck) s0 in (s', o0 ++ o')) (b_conns s) (s, []))) /\
       inflight_ext s (fst (fold_left (fun acc ck => let '(s0, o0) := acc in
                                  let '(s', o') := poll_conn 400 (fst ck) s0 in (s', o0 ++ o')) (b_conns s) (s, [])))); [tauto|].
  apply (fold_pair_inv (fun s0 => AllPoll w s0 /\ inflight_ext s s0)); [|split; [exact HA|apply inflight_ext_refl]].
  intros s0 o0 ck [H0 E0]. destruct (poll_conn_inflight_ext w (fst ck) 400 s0 H0) as [H1 E1].
  destruct (poll_conn 400 (fst ck) s0) as [s1 o1]. cbn [fst] in *. split; [exact H1|eapply inflight_ext_trans; eauto].
Qed.

(* in every state of a well-behaved run, the poll phase of the next step keeps every in-flight entry *)
Theorem C03_poll_keeps_inflight w c h p es e :
  c_max_inflight c <= MAXPID -> run_wb w (st_init c h p) (es ++ [e]) = true ->
  inflight_ext (fst (step_event (fst (run (st_init c h p) es)) e)) (fst (step (fst (run (st_init c h p) es)) e)).
Proof.
  intros Hc Hwb. rewrite run_wb_app in Hwb. apply andb_true_iff in Hwb. destruct Hwb as [Hwb1 Hwb2].
  cbn [run_wb] in Hwb2. rewrite andb_true_r in Hwb2.
  destruct (reachable_GInv w c h p es Hc Hwb1) as [HI HJ].
  pose proof (step_event_J w _ e HI HJ Hwb2) as HJ1.
  unfold step. destruct (step_event (fst (run (st_init c h p) es)) e) as [s1 o1]. cbn [fst] in *.
  pose proof (poll_all_inflight_ext w s1 (j_poll _ _ HJ1)) as H. destruct (poll_all s1) as [s2 o2]. exact H.
Qed.

Example gx_poll_keeps_inflight :
  let s := fst (step_event (fst (run wx_init (firstn 11 gx_run))) (nth 11 gx_run EInspect)) in
  let s' := fst (step (fst (run wx_init (firstn 11 gx_run))) (nth 11 gx_run EInspect)) in
  option_map (fun q => (q_cur q, map rkey (q_inf q))) (aget wx_S (b_queues s)) =
    Some (0%nat, [inr 3; inl (1, false, wx_T, [3], 4)]) /\
  option_map (fun q => (q_cur q, map rkey (q_inf q))) (aget wx_S (b_queues s')) =
    Some (2%nat, [inr 3; inl (1, false, wx_T, [3], 4)]).
Proof. vm_compute. split; reflexivity. Qed.
