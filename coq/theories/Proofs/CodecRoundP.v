(* Pack followed by ReadPacket: packet by packet, for every value satisfying the invariant
   the decoder establishes (dec_inv).  CONNECT, SUBSCRIBE, UNSUBSCRIBE are in CodecRound2P.v. *)
From Coq Require Import List NArith ZArith Bool Lia ZifyN ZifyNat ZifyBool Sorted.
Import ListNotations.
From GM Require Import Base.Topic Base.Msg Model.CodecBase Model.CodecProps Model.CodecPackets
  Proofs.CodecBaseP Proofs.CodecStrP Proofs.CodecTotalP Proofs.CodecPropsP Proofs.CodecPropsInvP.
Open Scope N_scope.

Ltac Zify.zify_post_hook ::= Z.div_mod_to_equations.

Lemma ok3_inj : forall A B C (a a' : A) (b b' : B) (c c' : C),
  @Ok (A * B * C) (a, b, c) = Ok (a', b', c') -> a = a' /\ b = b' /\ c = c'.
Proof. intros. inversion H. auto. Qed.

(* ---------------------------------------------------------------- finite sweeps *)
Fixpoint below (n : nat) : list N := match n with O => [] | S k => N.of_nat k :: below k end.
Lemma below_in : forall n x, x < N.of_nat n -> In x (below n).
Proof.
  induction n; intros x H; [lia|]. cbn [below].
  destruct (N.eq_dec x (N.of_nat n)); [left; congruence|right; apply IHn; lia].
Qed.
Lemma sweep2 : forall (P : N -> N -> bool) (n m : nat),
  forallb (fun x => forallb (P x) (below m)) (below n) = true ->
  forall x y, x < N.of_nat n -> y < N.of_nat m -> P x y = true.
Proof.
  intros P n m H x y Hx Hy. rewrite forallb_forall in H.
  specialize (H x (below_in _ _ Hx)). rewrite forallb_forall in H. apply H. apply below_in. assumption.
Qed.

(* the first byte of the fixed header: PacketType<<4 | Flags, read back as first>>4, first&15 *)
Lemma hdr_byte : forall t f, t < 16 -> f < 16 ->
  N.shiftr (N.lor ((t * 16) mod 256) f) 4 = t /\ N.land (N.lor ((t * 16) mod 256) f) 15 = f.
Proof.
  intros t f Ht Hf.
  assert (H := sweep2 (fun t f => (N.shiftr (N.lor ((t * 16) mod 256) f) 4 =? t) && (N.land (N.lor ((t * 16) mod 256) f) 15 =? f)) 16 16).
  specialize (H ltac:(vm_compute; reflexivity) t f Ht Hf). cbv beta in H. lia.
Qed.

Definition n_of_bool (b : bool) : N := if b then 1 else 0.
Lemma publish_flags_rt : forall dup qos retain, qos <= 2 -> negb ((qos =? 0) && dup) = true ->
  publish_flags (N.lor (N.lor (b2n dup 8) (b2n retain 1)) ((qos * 2) mod 256)) = Ok (dup, qos, retain)
  /\ N.lor (N.lor (b2n dup 8) (b2n retain 1)) ((qos * 2) mod 256) < 16.
Proof.
  intros dup qos retain Hq Hd.
  assert (Hc : qos = 0 \/ qos = 1 \/ qos = 2) by lia.
  destruct Hc as [ -> | [ -> | -> ] ]; destruct dup, retain; cbn in Hd; try discriminate;
    split; vm_compute; reflexivity.
Qed.

(* ---------------------------------------------------------------- the invariant of decoded packets *)
Definition oprops_inv (v ctx : N) (pr : option props) : Prop :=
  if v =? 5 then exists p, pr = Some p /\ props_inv ctx p else pr = None.

(* reason code + properties of PUBACK..PUBCOMP, PUBREL, AUTH: absent (nil, code 0) or present *)
Definition ack_inv (present_ok : bool) (ctx code : N) (pr : option props) : Prop :=
  (pr = None /\ code = 0) \/ (present_ok = true /\ code < 256 /\ exists p, pr = Some p /\ props_inv ctx p).

(* a PUBLISH has a non-empty topic name, or (v5) a Topic Alias *)
Definition pub_topic_ok (v : N) (topic : str) (pr : option props) : bool :=
  negb ((len topic =? 0)
        && (negb (v =? 5) || match pr with Some p => negb (is_some (ps_get 35 (pr_single p))) | None => true end)).

Definition dec_inv (v : N) (b : body) : Prop :=
  match b with
  | BConnack ver code sp pr => ver = v /\ code < 256 /\ oprops_inv v CONNACK pr
  | BPublish ver dup qos retain topic pid payload pr =>
      ver = v /\ qos <= 2 /\ negb ((qos =? 0) && dup) = true /\ istr_ok topic = true
      /\ (topic = [] \/ impl_name topic = true)
      /\ pid < 65536 /\ (qos = 0 -> pid = 0) /\ (qos <> 0 -> pid <> 0)
      /\ oprops_inv v PUBLISH pr /\ pub_topic_ok v topic pr = true
  | BAck t ver pid code pr =>
      (t = PUBACK \/ t = PUBREC \/ t = PUBCOMP) /\ ver = v /\ pid < 65536 /\ ack_inv (v =? 5) t code pr
  | BPubrel pid code pr => pid < 65536 /\ ack_inv true PUBREL code pr
  | BSuback ver pid payload pr => ver = v /\ pid < 65536 /\ payload <> [] /\ oprops_inv v SUBACK pr
  | BUnsuback ver pid payload pr =>
      ver = v /\ pid < 65536 /\
      if is_v3x v then payload = [] /\ pr = None
      else payload <> [] /\ exists p, pr = Some p /\ props_inv UNSUBACK p
  | BPingreq | BPingresp => True
  | BDisconnect ver code pr =>
      ver = v /\ if v =? 5 then code < 256 /\ exists p, pr = Some p /\ props_inv DISCONNECT p else code = 0 /\ pr = None
  | BAuth code pr => ack_inv true AUTH code pr
  | _ => False       (* CONNECT, SUBSCRIBE, UNSUBSCRIBE: CodecRound2P.v *)
  end.

(* ---------------------------------------------------------------- properties inside a packet body *)
Lemma props_pack_len : forall p, len (props_body p) <= len (props_pack (Some p)).
Proof. intros. unfold props_pack. rewrite len_app. lia. Qed.

Lemma props_rt : forall pt p rest, props_inv pt p -> len (props_pack (Some p)) < 268435456 ->
  props_unpack pt (props_pack (Some p) ++ rest) = Ok (p, rest).
Proof. intros. apply props_unpack_pack; [assumption|]. pose proof (props_pack_len p). lia. Qed.
Lemma props_rt_nil : forall pt p, props_inv pt p -> len (props_pack (Some p)) < 268435456 ->
  props_unpack pt (props_pack (Some p)) = Ok (p, []).
Proof. intros. rewrite <- (app_nil_r (props_pack (Some p))). now apply props_rt. Qed.

(* ---------------------------------------------------------------- packet bodies *)
Definition BIG : N := 268435456.

Lemma rt_publish : forall v dup qos retain topic pid payload pr t fl bytes,
  dec_inv v (BPublish v dup qos retain topic pid payload pr) ->
  pack_body (BPublish v dup qos retain topic pid payload pr) = Ok (t, fl, bytes) -> len bytes < BIG ->
  t = PUBLISH /\ fl < 16 /\ publish_flags fl = Ok (dup, qos, retain)
  /\ parse_publish v dup qos retain bytes = Ok (BPublish v dup qos retain topic pid payload pr).
Proof.
  intros v dup qos retain topic pid payload pr t fl bytes (_ & Hq & Hd & Ht & Hn & Hp & Hp0 & Hp1 & Hpr & Htok) Hpack Hlen.
  unfold pub_topic_ok in Htok. apply negb_true_iff in Htok.
  cbn [pack_body] in Hpack. apply ok3_inj in Hpack; destruct Hpack as (<- & <- & <-).
  destruct (publish_flags_rt dup qos retain Hq Hd) as [Hf Hlt].
  split; [reflexivity|]. split; [assumption|]. split; [assumption|].
  unfold parse_publish. rewrite istr_ok_rt by assumption. cbn [bind].
  assert (Hname : (if len topic =? 0 then Ok true else valid_topic_name_impl true topic) = Ok true).
  { destruct Hn as [->|Hn]; [reflexivity|]. destruct (len topic =? 0); [reflexivity|now apply impl_name_true]. }
  rewrite Hname. cbn [bind negb].
  set (tail := (if v =? 5 then props_pack pr else []) ++ payload).
  assert (Hpid : (if 0 <? qos then
                    do '(i, b') <- read_uint16 ((if (qos =? 1) || (qos =? 2) then put16 pid else []) ++ tail);
                    if i =? 0 then Err PROTOCOL else Ok (i, b')
                  else Ok (0, (if (qos =? 1) || (qos =? 2) then put16 pid else []) ++ tail))
                 = Ok (pid, tail)).
  { destruct (N.eqb_spec qos 0) as [->|Hq0].
    - cbn. rewrite Hp0 by reflexivity. reflexivity.
    - replace (0 <? qos) with true by lia. replace ((qos =? 1) || (qos =? 2)) with true by lia.
      rewrite read_uint16_put16 by assumption. cbn [bind]. specialize (Hp1 Hq0).
      replace (pid =? 0) with false by lia. reflexivity. }
  rewrite Hpid. cbn [bind]. subst tail.
  unfold oprops_inv in Hpr. destruct (v =? 5) eqn:Ev.
  - destruct Hpr as [p [-> Hinv]]. rewrite props_rt; [|assumption|unfold BIG in Hlen; rewrite !len_app in Hlen; lia].
    cbn [bind]. rewrite Htok. reflexivity.
  - subst pr. cbn [app bind]. rewrite Htok. reflexivity.
Qed.

Lemma ack_tail_rt : forall pt code pr tail,
  ack_inv true pt code pr ->
  tail = (if negb (code =? 0) || is_some pr then code :: props_pack pr else []) -> len tail < BIG ->
  (tail = [] /\ pr = None /\ code = 0) \/
  (exists p, pr = Some p /\ tail = code :: props_pack (Some p) /\ read_byte tail = Ok (code, props_pack (Some p))
             /\ props_unpack pt (props_pack (Some p)) = Ok (p, [])).
Proof.
  intros pt code pr tail [[-> ->]|(_ & Hc & p & -> & Hinv)] -> Hlen.
  - left. cbn. auto.
  - right. exists p. cbn [is_some]. rewrite orb_true_r in *. repeat split.
    apply props_rt_nil; [assumption|]. unfold BIG in Hlen. rewrite len_cons in Hlen. lia.
Qed.

Lemma rt_ack : forall v t pid code pr ty fl bytes,
  dec_inv v (BAck t v pid code pr) ->
  pack_body (BAck t v pid code pr) = Ok (ty, fl, bytes) -> len bytes < BIG ->
  ty = t /\ fl = 0 /\ parse_ack t v (len bytes) bytes = Ok (BAck t v pid code pr).
Proof.
  intros v t pid code pr ty fl bytes (Ht & _ & Hp & Hack) Hpack Hlen.
  cbn [pack_body] in Hpack. apply ok3_inj in Hpack; destruct Hpack as (<- & <- & <-).
  split; [reflexivity|]. split; [reflexivity|].
  unfold parse_ack. rewrite read_uint16_put16 by assumption. cbn [bind].
  rewrite len_app, len_put16 in *.
  destruct Hack as [[-> ->]|(Hv & Hc & p & -> & Hinv)].
  - cbn [is_some N.eqb negb orb andb]. rewrite andb_false_r. cbn [len length]. reflexivity.
  - rewrite Hv. cbn [is_some andb]. rewrite orb_true_r. rewrite len_cons.
    replace (2 + (1 + len (props_pack (Some p))) =? 2) with false by lia.
    cbn [read_byte remap bind]. rewrite props_rt_nil; [reflexivity|assumption|].
    unfold BIG in Hlen. rewrite Hv in Hlen. cbn [is_some andb] in Hlen. rewrite orb_true_r, len_cons in Hlen. lia.
Qed.

Lemma rt_pubrel : forall v pid code pr ty fl bytes,
  dec_inv v (BPubrel pid code pr) ->
  pack_body (BPubrel pid code pr) = Ok (ty, fl, bytes) -> len bytes < BIG ->
  ty = PUBREL /\ fl = 2 /\ parse_pubrel (len bytes) bytes = Ok (BPubrel pid code pr).
Proof.
  intros v pid code pr ty fl bytes (Hp & Hack) Hpack Hlen.
  cbn [pack_body] in Hpack. apply ok3_inj in Hpack; destruct Hpack as (<- & <- & <-).
  split; [reflexivity|]. split; [reflexivity|].
  unfold parse_pubrel. rewrite read_uint16_put16 by assumption. cbn [bind].
  rewrite len_app, len_put16 in *.
  destruct Hack as [[-> ->]|(_ & Hc & p & -> & Hinv)].
  - cbn. reflexivity.
  - cbn [is_some]. rewrite orb_true_r in *. rewrite len_cons in *.
    replace (2 + (1 + len (props_pack (Some p))) =? 2) with false by lia.
    cbn [read_byte bind]. rewrite props_rt_nil; [reflexivity|assumption|]. unfold BIG in Hlen. lia.
Qed.

Lemma rt_connack : forall v code sp pr ty fl bytes,
  dec_inv v (BConnack v code sp pr) ->
  pack_body (BConnack v code sp pr) = Ok (ty, fl, bytes) -> len bytes < BIG ->
  ty = CONNACK /\ fl = 0 /\ parse_connack v bytes = Ok (BConnack v code sp pr).
Proof.
  intros v code sp pr ty fl bytes (_ & Hc & Hpr) Hpack Hlen.
  cbn [pack_body] in Hpack. apply ok3_inj in Hpack; destruct Hpack as (<- & <- & <-).
  split; [reflexivity|]. split; [reflexivity|].
  unfold parse_connack. cbn [app].
  assert (Hsp : 0 <? N.land 127 (N.shiftr (b2n sp 1) 1) = false) by (destruct sp; reflexivity).
  rewrite Hsp. cbn [read_byte remap bind].
  assert (Hsp1 : (b2n sp 1 =? 1) = sp) by (destruct sp; reflexivity). rewrite Hsp1.
  unfold oprops_inv in Hpr. destruct (v =? 5).
  - destruct Hpr as [p [-> Hinv]].
    rewrite props_rt_nil; [reflexivity|assumption|unfold BIG in Hlen; cbn [app] in Hlen; rewrite !len_cons in Hlen; lia].
  - subst pr. reflexivity.
Qed.

Lemma rt_suback : forall v pid payload pr ty fl bytes,
  dec_inv v (BSuback v pid payload pr) ->
  pack_body (BSuback v pid payload pr) = Ok (ty, fl, bytes) -> len bytes < BIG ->
  ty = SUBACK /\ fl = 0 /\ parse_suback v bytes = Ok (BSuback v pid payload pr).
Proof.
  intros v pid payload pr ty fl bytes (_ & Hp & Hne & Hpr) Hpack Hlen.
  cbn [pack_body] in Hpack. apply ok3_inj in Hpack; destruct Hpack as (<- & <- & <-).
  split; [reflexivity|]. split; [reflexivity|].
  unfold parse_suback. rewrite read_uint16_put16 by assumption. cbn [remap bind].
  unfold oprops_inv in Hpr. destruct (v =? 5).
  - destruct Hpr as [p [-> Hinv]].
    rewrite props_rt; [|assumption|unfold BIG in Hlen; rewrite !len_app in Hlen; lia].
    cbn [bind]. unfold parse_codes. destruct payload; [congruence|reflexivity].
  - subst pr. cbn [app bind]. unfold parse_codes. destruct payload; [congruence|reflexivity].
Qed.

Lemma rt_unsuback : forall v pid payload pr ty fl bytes,
  (v = 3 \/ v = 4 \/ v = 5) ->
  dec_inv v (BUnsuback v pid payload pr) ->
  pack_body (BUnsuback v pid payload pr) = Ok (ty, fl, bytes) -> len bytes < BIG ->
  ty = UNSUBACK /\ fl = 0 /\ parse_unsuback v bytes = Ok (BUnsuback v pid payload pr).
Proof.
  intros v pid payload pr ty fl bytes Hv (_ & Hp & Hrest) Hpack Hlen.
  cbn [pack_body] in Hpack. apply ok3_inj in Hpack; destruct Hpack as (<- & <- & <-).
  split; [reflexivity|]. split; [reflexivity|].
  unfold parse_unsuback. rewrite read_uint16_put16 by assumption. cbn [bind].
  destruct Hv as [ -> | [ -> | -> ] ]; cbn [is_v3x N.eqb Pos.eqb orb] in *.
  - destruct Hrest as [-> ->]. reflexivity.
  - destruct Hrest as [-> ->]. reflexivity.
  - destruct Hrest as [Hne [p [-> Hinv]]].
    rewrite props_rt; [|assumption|unfold BIG in Hlen; rewrite !len_app in Hlen; lia].
    cbn [bind]. unfold parse_codes. destruct payload; [congruence|reflexivity].
Qed.

Lemma rt_disconnect : forall v code pr ty fl bytes,
  (v = 3 \/ v = 4 \/ v = 5) ->
  dec_inv v (BDisconnect v code pr) ->
  pack_body (BDisconnect v code pr) = Ok (ty, fl, bytes) -> len bytes < BIG ->
  ty = DISCONNECT /\ fl = 0 /\ parse_disconnect v (len bytes) bytes = Ok (BDisconnect v code pr).
Proof.
  intros v code pr ty fl bytes Hv (_ & Hrest) Hpack Hlen.
  destruct Hv as [ -> | [ -> | -> ] ]; cbn [pack_body is_v3x N.eqb Pos.eqb orb] in *.
  - apply ok3_inj in Hpack; destruct Hpack as (<- & <- & <-). destruct Hrest as [-> ->]. repeat split.
  - apply ok3_inj in Hpack; destruct Hpack as (<- & <- & <-). destruct Hrest as [-> ->]. repeat split.
  - destruct Hrest as [Hc [p [-> Hinv]]]. cbn [is_some] in Hpack. rewrite orb_true_r in Hpack.
    apply ok3_inj in Hpack; destruct Hpack as (<- & <- & <-). repeat split.
    unfold parse_disconnect. cbn [N.eqb Pos.eqb]. rewrite len_cons in *.
    replace (1 + len (props_pack (Some p)) =? 0) with false by lia.
    cbn [read_byte remap bind]. rewrite props_rt_nil; [reflexivity|assumption|unfold BIG in Hlen; lia].
Qed.

Lemma rt_auth : forall v code pr ty fl bytes,
  dec_inv v (BAuth code pr) ->
  pack_body (BAuth code pr) = Ok (ty, fl, bytes) -> len bytes < BIG ->
  ty = AUTH /\ fl = 0 /\
  ((bytes = [] /\ code = 0 /\ pr = None) \/ (bytes <> [] /\ parse_auth bytes = Ok (BAuth code pr))).
Proof.
  intros v code pr ty fl bytes Hack Hpack Hlen.
  cbn [pack_body] in Hpack. apply ok3_inj in Hpack; destruct Hpack as (<- & <- & <-).
  split; [reflexivity|]. split; [reflexivity|].
  destruct Hack as [[-> ->]|(_ & Hc & p & -> & Hinv)].
  - left. cbn. auto.
  - right. cbn [is_some]. rewrite orb_true_r in *. split; [discriminate|].
    unfold parse_auth. cbn [read_byte remap bind]. rewrite len_cons in Hlen.
    rewrite props_rt_nil; [reflexivity|assumption|unfold BIG in Hlen; lia].
Qed.
