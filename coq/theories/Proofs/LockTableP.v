(* C15 - the statements over the table generated from the Go source (Gen/LockOrder.v), closed
   by computation.  Nothing here mentions a line number of the source: the statements stay
   meaningful when the source moves, and stop checking when what they say stops being true.

   History: before the repairs 66369ae (overlap delivery queued messages inside the trie's read
   lock) and b236378 (pollInflights wrote to the client while holding the packet-id limiter lock)
   the first and the third group below were `_refuted` + `_partial` pairs; they are now the FULL
   statements. *)
From Coq Require Import List Arith Bool String Relations.
Import ListNotations.
From GM Require Import Gen.LockOrder Model.LockOrder Proofs.LockOrderP.
Local Open Scope string_scope.

Definition seqb : string -> string -> bool := String.eqb.

Lemma seqb_eq a b : seqb a b = true -> a = b.
Proof. apply String.eqb_eq. Qed.

Definition srv_mu : string := "server.server.mu".
Definition trie_mu : string := "persistence/subscription/mem.TrieDB.RWMutex".
Definition limiter_l : string := "server.packetIDLimiter.cond.L".

(* sanity of the table: every class that occurs in an edge or a pair is a declared class *)
Definition mem_str (x : string) (l : list string) : bool := existsb (seqb x) l.

Definition table_wf : bool :=
  forallb (fun e => mem_str (fst e) lock_classes && mem_str (snd e) lock_classes) lock_edges
  && forallb (fun p => mem_str (fst p) lock_classes) blocking_under_lock
  && forallb (fun p => mem_str (fst p) lock_classes) dyncalls_under_lock
  && forallb (fun g => mem_str (gc_guard g) lock_classes) guarded_calls
  && mem_str srv_mu lock_classes && mem_str trie_mu lock_classes && mem_str limiter_l lock_classes
  && negb (Nat.eqb (List.length lock_edges) 0).

Lemma table_wf_ok : table_wf = true.
Proof. vm_compute. reflexivity. Qed.

(* ---------------------------------------------------------------- the order relation *)

Lemma lock_edges_acyclic : acyclicb seqb lock_edges = true.
Proof. vm_compute. reflexivity. Qed.

(* the relation extracted from the source is acyclic: there is a strict order (a ranking)
   compatible with it, it has no cycle, and no run of the lock semantics whose (held class,
   requested class) pairs all lie in it has a cycle in its wait-for graph *)
Theorem lock_order_acyclic :
  (exists f : string -> nat, forall a b, In (a, b) lock_edges -> f a < f b) /\
  (forall x, ~ clos_trans string (edge lock_edges) x x) /\
  (forall (L : Type) (cls : L -> string) (s : lstate L),
      lreach cls (in_relation lock_edges) s -> ~ deadlocked s).
Proof.
  split; [|split].
  - exact (acyclicb_sound seqb lock_edges lock_edges_acyclic).
  - exact (acyclicb_no_cycle seqb lock_edges lock_edges_acyclic).
  - intros L cls s. exact (acyclic_relation_no_deadlock cls seqb lock_edges lock_edges_acyclic s).
Qed.

(* no lock class is requested while an instance of the same class is held - in particular the
   read lock of the subscription trie is not re-acquired (a re-entrant RLock deadlocks as soon as a
   writer is waiting) *)
Lemma no_self_edge : forallb (fun e => negb (seqb (fst e) (snd e))) lock_edges = true.
Proof. vm_compute. reflexivity. Qed.

Theorem no_relock : forall c, ~ In (c, c) lock_edges.
Proof.
  intros c Hin. pose proof no_self_edge as H. rewrite forallb_forall in H. specialize (H (c, c) Hin).
  cbn in H. unfold seqb in H. rewrite String.eqb_refl in H. discriminate.
Qed.

Corollary no_trie_relock : ~ In (trie_mu, trie_mu) lock_edges.
Proof. exact (no_relock trie_mu). Qed.

(* ---------------------------------------------------------------- *Locked helpers *)

Definition is_must (g : guarded_call) : bool := match gc_status g with GMust => true | _ => false end.

Lemma guarded_all_must : forallb is_must guarded_calls = true.
Proof. vm_compute. reflexivity. Qed.

Theorem deliver_under_lock : forall g, In g guarded_calls -> gc_status g = GMust.
Proof.
  intros g Hin. pose proof guarded_all_must as H. rewrite forallb_forall in H. specialize (H g Hin).
  unfold is_must in H. destruct (gc_status g); [reflexivity|discriminate|discriminate].
Qed.

(* non-vacuity: the delivery functions of the statement are among the callees, guarded by srv.mu *)
Definition callee_listed (suffix : string) : bool :=
  existsb (fun g => seqb (gc_callee g) suffix && seqb (gc_guard g) srv_mu) guarded_calls.

Lemma deliver_family_listed :
  callee_listed "server.server.deliverMessage" && callee_listed "server.server.addMsgToQueueLocked"
  && callee_listed "server.server.sendWillLocked" && callee_listed "server.server.sessionTerminatedLocked" = true.
Proof. vm_compute. reflexivity. Qed.

(* ---------------------------------------------------------------- blocking under locks *)

(* the lock classes that can be requested while srv.mu is held, transitively (a certificate:
   behind_closed checks that the set contains srv.mu and is closed under the relation) *)
Definition behind_srv_mu : list string := behind seqb lock_edges (List.length lock_classes) srv_mu.

Lemma behind_closed :
  memb seqb srv_mu behind_srv_mu && closed_setb seqb lock_edges behind_srv_mu = true.
Proof. vm_compute. reflexivity. Qed.

Lemma behind_complete : forall c, clos_refl_trans string (edge lock_edges) srv_mu c -> memb seqb c behind_srv_mu = true.
Proof.
  pose proof behind_closed as H. apply andb_true_iff in H as [H0 Hc].
  intros c P. exact (closed_setb_sound seqb lock_edges behind_srv_mu Hc srv_mu c P H0).
Qed.

Lemma no_blocking_behind : forallb (fun p => negb (memb seqb (fst p) behind_srv_mu)) blocking_under_lock = true.
Proof. vm_compute. reflexivity. Qed.

(* no channel operation, select without default, cond.Wait (other than on its own lock),
   WaitGroup.Wait or Sleep is executed while srv.mu - or any lock that is requested, directly or
   transitively, while srv.mu is held - is held: a goroutine that holds srv.mu never waits
   behind a goroutine that is blocked on something other than a lock *)
Theorem no_blocking_behind_srv_mu :
  forall p, In p blocking_under_lock -> ~ clos_refl_trans string (edge lock_edges) srv_mu (fst p).
Proof.
  intros p Hin P. pose proof no_blocking_behind as H. rewrite forallb_forall in H. specialize (H p Hin).
  rewrite (behind_complete (fst p) P) in H. discriminate.
Qed.

Corollary no_blocking_under_srv_mu : forall p, In p blocking_under_lock -> fst p <> srv_mu.
Proof. intros p Hin E. apply (no_blocking_behind_srv_mu p Hin). rewrite E. apply rt_refl. Qed.

(* non-vacuity of "behind": locks ARE taken under srv.mu, the limiter lock among them *)
Lemma limiter_behind : memb seqb limiter_l behind_srv_mu && memb seqb trie_mu behind_srv_mu = true.
Proof. vm_compute. reflexivity. Qed.

(* observation: code that the translator cannot see (plugin hooks, callbacks) is called while
   srv.mu is held; a hook that calls back into a locking API of the server would self-deadlock *)
Lemma unknown_under_srv_mu : existsb (fun p => seqb (fst p) srv_mu) dyncalls_under_lock = true.
Proof. vm_compute. reflexivity. Qed.

Theorem unknown_code_under_srv_mu : exists p, In p dyncalls_under_lock /\ fst p = srv_mu.
Proof.
  pose proof unknown_under_srv_mu as H. apply existsb_exists in H as [p [Hin H]].
  exists p. split; [exact Hin|]. now apply seqb_eq.
Qed.

(* the executable check is sound (restated for relations between class names) *)
Theorem acyclic_check_sound :
  forall (r : list (string * string)), acyclicb seqb r = true ->
    (forall x, ~ clos_trans string (edge r) x x) /\
    (forall (L : Type) (cls : L -> string) (s : lstate L), lreach cls (in_relation r) s -> ~ deadlocked s).
Proof.
  intros r H. split.
  - exact (acyclicb_no_cycle seqb r H).
  - intros L cls s. exact (acyclic_relation_no_deadlock cls seqb r H s).
Qed.

Theorem no_relock_both : (forall c, ~ In (c, c) lock_edges) /\ ~ In (trie_mu, trie_mu) lock_edges.
Proof. exact (conj no_relock no_trie_relock). Qed.
