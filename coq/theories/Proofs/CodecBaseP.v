(* Lemmas about Model/CodecBase.v: slices, variable byte integers, fixed-width integers,
   strings, and the absence of panics / fuel exhaustion in the byte-level readers. *)
From Coq Require Import List NArith ZArith Bool Lia ZifyN ZifyNat ZifyBool.
Import ListNotations.
From GM Require Import Base.Topic Base.Msg Model.CodecBase.
Open Scope N_scope.

Ltac Zify.zify_post_hook ::= Z.div_mod_to_equations.

(* ---------------------------------------------------------------- len, takeN, dropN, shorter *)
Lemma len_nil : len (@nil N) = 0. Proof. reflexivity. Qed.
Lemma len_cons : forall (x : N) l, len (x :: l) = 1 + len l.
Proof. intros. unfold len. cbn [length]. lia. Qed.
Lemma len_app : forall (a b : list N), len (a ++ b) = len a + len b.
Proof. intros. unfold len. rewrite app_length. lia. Qed.
Lemma len_length : forall (l : list N), N.to_nat (len l) = length l.
Proof. intros. unfold len. lia. Qed.

Lemma takeN_firstn : forall A (l : list A) n, takeN n l = firstn (N.to_nat n) l.
Proof.
  induction l; intros; cbn [takeN].
  - now rewrite firstn_nil.
  - destruct (N.eqb_spec n 0).
    + subst. reflexivity.
    + replace (N.to_nat n) with (S (N.to_nat (N.pred n))) by lia. cbn [firstn]. now rewrite IHl.
Qed.
Lemma dropN_skipn : forall A (l : list A) n, dropN n l = skipn (N.to_nat n) l.
Proof.
  induction l; intros; cbn [dropN].
  - now rewrite skipn_nil.
  - destruct (N.eqb_spec n 0).
    + subst. reflexivity.
    + replace (N.to_nat n) with (S (N.to_nat (N.pred n))) by lia. cbn [skipn]. now rewrite IHl.
Qed.
Lemma take_drop : forall A (l : list A) n, takeN n l ++ dropN n l = l.
Proof. intros. rewrite takeN_firstn, dropN_skipn. apply firstn_skipn. Qed.

Lemma shorter_spec : forall (l : list N) n, shorter l n = (len l <? n).
Proof.
  induction l; intros; cbn [shorter].
  - rewrite len_nil. reflexivity.
  - rewrite len_cons. destruct (N.eqb_spec n 0).
    + subst. symmetry. apply N.ltb_ge. lia.
    + rewrite IHl. destruct (N.ltb_spec (len l) (N.pred n)); destruct (N.ltb_spec (1 + len l) n); lia.
Qed.

Lemma takeN_app_exact : forall (a b : list N), takeN (len a) (a ++ b) = a.
Proof.
  intros. rewrite takeN_firstn, len_length.
  rewrite firstn_app, Nat.sub_diag, firstn_all. cbn. apply app_nil_r.
Qed.
Lemma dropN_app_exact : forall (a b : list N), dropN (len a) (a ++ b) = b.
Proof.
  intros. rewrite dropN_skipn, len_length.
  rewrite skipn_app, Nat.sub_diag, skipn_all. reflexivity.
Qed.
Lemma dropN_length : forall A (l : list A) n, (length (dropN n l) <= length l)%nat.
Proof. intros. rewrite dropN_skipn, skipn_length. lia. Qed.
Lemma dropN_len : forall (l : list N) n, len (dropN n l) = len l - n.
Proof. intros. unfold len. rewrite dropN_skipn, skipn_length. lia. Qed.
Lemma takeN_len : forall (l : list N) n, len (takeN n l) = N.min n (len l).
Proof. intros. unfold len. rewrite takeN_firstn, firstn_length. lia. Qed.
Lemma dropN_0 : forall A (l : list A), dropN 0 l = l.
Proof. destruct l; reflexivity. Qed.
Lemma takeN_0 : forall A (l : list A), takeN 0 l = [].
Proof. destruct l; reflexivity. Qed.

(* ---------------------------------------------------------------- safety predicates *)
(* a result that is a value or an error: neither a panic nor fuel exhaustion *)
Definition safe {A} (r : res A) : Prop := match r with Ok _ | Err _ => True | _ => False end.
(* a reader: safe, and what is left is a suffix no longer than the input *)
Definition safe_rd {A} (b : list N) (r : res (A * list N)) : Prop :=
  match r with Ok (_, rest) => (length rest <= length b)%nat | Err _ => True | _ => False end.
(* a reader that consumes at least one byte *)
Definition safe_rd1 {A} (b : list N) (r : res (A * list N)) : Prop :=
  match r with Ok (_, rest) => (length rest < length b)%nat | Err _ => True | _ => False end.

Lemma safe_rd1_rd : forall A b (r : res (A * list N)), safe_rd1 b r -> safe_rd b r.
Proof. intros A b [[x r]| | |]; cbn; auto. lia. Qed.
Lemma safe_remap : forall A e (r : res A), safe r -> safe (remap e r).
Proof. intros A e [ | | | ]; cbn; auto. Qed.
Lemma safe_rd_remap : forall A e b (r : res (A * list N)), safe_rd b r -> safe_rd b (remap e r).
Proof. intros A e b [[x r]| | |]; cbn; auto. Qed.
Lemma safe_rd1_remap : forall A e b (r : res (A * list N)), safe_rd1 b r -> safe_rd1 b (remap e r).
Proof. intros A e b [[x r]| | |]; cbn; auto. Qed.
Lemma safe_bind : forall A B (r : res A) (f : A -> res B),
  safe r -> (forall a, r = Ok a -> safe (f a)) -> safe (bind r f).
Proof. intros A B [a| | |] f H1 H2; cbn in *; auto. Qed.

(* ---------------------------------------------------------------- byte-level readers *)
Lemma read_byte_safe : forall b, safe_rd1 b (read_byte b).
Proof. destruct b; cbn; auto. Qed.

Lemma read_uint16_safe : forall b, safe_rd1 b (read_uint16 b).
Proof.
  intros. unfold read_uint16. rewrite shorter_spec.
  destruct (N.ltb_spec (len b) 2); [exact I|].
  destruct b as [|x [|y r]]; unfold len in *; cbn in *; try lia.
  rewrite !dropN_0. cbn. lia.
Qed.
Lemma read_uint32_safe : forall b, safe_rd1 b (read_uint32 b).
Proof.
  intros. unfold read_uint32. rewrite shorter_spec.
  destruct (N.ltb_spec (len b) 4); [exact I|].
  destruct b as [|x [|y [|z [|w r]]]]; unfold len in *; cbn in *; try lia.
  rewrite !dropN_0. cbn. lia.
Qed.

Lemma read_vbi_safe : forall b vbi mult, safe_rd b (read_vbi b vbi mult).
Proof.
  induction b; intros; cbn [read_vbi]; cbn; auto.
  destruct (21 <? mult); [exact I|].
  destruct (_ <? _); [exact I|].
  destruct (N.land a 128 =? 0); [destruct (_ && _); cbn; [exact I|lia]|].
  specialize (IHb (N.lor vbi (shl32 (N.land a 127) mult)) ((mult + 7) mod 4294967296)).
  destruct (read_vbi b _ _) as [[v r]| | |]; cbn in *; auto.
Qed.
(* a successful read consumes at least one byte *)
Lemma read_vbi_safe1 : forall b vbi mult, safe_rd1 b (read_vbi b vbi mult).
Proof.
  destruct b; intros; [exact I|]. cbn [read_vbi].
  destruct (21 <? mult); [exact I|].
  destruct (_ <? _); [exact I|].
  destruct (N.land n 128 =? 0); [destruct (_ && _); cbn; [exact I|lia]|].
  pose proof (read_vbi_safe b (N.lor vbi (shl32 (N.land n 127) mult)) ((mult + 7) mod 4294967296)) as Hs.
  destruct (read_vbi b _ _) as [[v r]| | |]; cbn in *; auto. lia.
Qed.
Lemma read_varint_safe : forall b, safe_rd b (read_varint b).
Proof. intros. apply read_vbi_safe. Qed.

(* the value of an accepted variable byte integer is below 2^28 *)
Lemma read_vbi_bound : forall b vbi mult v r,
  read_vbi b vbi mult = Ok (v, r) -> v <= 268435455.
Proof.
  induction b; intros vbi mult v r H; cbn [read_vbi] in H; [discriminate|].
  destruct (21 <? mult); [discriminate|].
  destruct (N.ltb_spec 268435455 (N.lor vbi (shl32 (N.land a 127) mult))); [discriminate|].
  destruct (N.land a 128 =? 0).
  - destruct (_ && _); [discriminate|]. inversion H; subst. assumption.
  - eapply IHb; exact H.
Qed.
Lemma read_varint_bound : forall b v r, read_varint b = Ok (v, r) -> v <= 268435455.
Proof. intros. eapply read_vbi_bound; exact H. Qed.

(* what is left is a suffix of the input *)
Lemma read_vbi_suffix : forall b vbi mult v r, read_vbi b vbi mult = Ok (v, r) -> exists pre, b = pre ++ r.
Proof.
  induction b; intros vbi mult v r H; cbn [read_vbi] in H; [discriminate|].
  destruct (21 <? mult); [discriminate|].
  destruct (_ <? _); [discriminate|].
  destruct (N.land a 128 =? 0).
  + destruct (_ && _); [discriminate|]. inversion H; subst. exists [a]. reflexivity.
  + apply IHb in H. destruct H as [pre ->]. exists (a :: pre). reflexivity.
Qed.

(* a variable byte integer occupies at most four bytes [MQTT-1.5.5-1] *)
Lemma read_vbi_four : forall b vbi mult v r, mult <= 28 ->
  read_vbi b vbi mult = Ok (v, r) -> len r <= len b /\ 7 * (len b - len r) <= 28 - mult.
Proof.
  induction b; intros vbi mult v r Hm H; cbn [read_vbi] in H; [discriminate|].
  destruct (N.ltb_spec 21 mult); [discriminate|].
  destruct (_ <? _); [discriminate|]. rewrite len_cons.
  destruct (N.land a 128 =? 0).
  - destruct (_ && _); [discriminate|]. inversion H; subst. lia.
  - rewrite N.mod_small in H by lia. apply IHb in H; [|lia]. lia.
Qed.
Lemma read_varint_four : forall b v r, read_varint b = Ok (v, r) -> len r <= len b /\ len b - len r <= 4.
Proof. intros b v r H. apply read_vbi_four in H; [|lia]. lia. Qed.

(* ---------------------------------------------------------------- bit facts *)
Lemma testbit_small : forall a m i, a < 2 ^ m -> m <= i -> N.testbit a i = false.
Proof.
  intros a m i Ha Hi. destruct (N.eq_dec a 0) as [->|Hn]; [apply N.bits_0|].
  apply N.bits_above_log2. apply N.log2_lt_pow2; [lia|].
  eapply N.lt_le_trans; [exact Ha|]. apply N.pow_le_mono_r; lia.
Qed.
Lemma lor_disjoint : forall a x m, a < 2 ^ m -> N.lor a (N.shiftl x m) = a + x * 2 ^ m.
Proof.
  intros a x m Ha.
  rewrite <- N.lxor_lor.
  - rewrite <- N.add_nocarry_lxor; [now rewrite N.shiftl_mul_pow2|].
    apply N.bits_inj. intro i. rewrite N.land_spec, N.bits_0.
    destruct (N.lt_ge_cases i m).
    + rewrite N.shiftl_spec_low by assumption. apply andb_false_r.
    + rewrite (testbit_small a m i) by assumption. reflexivity.
  - apply N.bits_inj. intro i. rewrite N.land_spec, N.bits_0.
    destruct (N.lt_ge_cases i m).
    + rewrite N.shiftl_spec_low by assumption. apply andb_false_r.
    + rewrite (testbit_small a m i) by assumption. reflexivity.
Qed.
Lemma land_127 : forall d, N.land d 127 = d mod 128.
Proof. intros. change 127 with (N.ones 7). rewrite N.land_ones. reflexivity. Qed.
Lemma lor_128 : forall b, b < 128 -> N.lor b 128 = b + 128.
Proof. intros. change 128 with (N.shiftl 1 7) at 1. rewrite lor_disjoint by (cbn; lia). cbn. lia. Qed.
Lemma land_128_small : forall d, d < 128 -> N.land d 128 = 0.
Proof.
  intros. apply N.bits_inj. intro i. rewrite N.land_spec, N.bits_0.
  destruct (N.eq_dec i 7) as [->|Hn].
  - rewrite (testbit_small d 7 7); [reflexivity|cbn; lia|lia].
  - change 128 with (2 ^ 7). rewrite N.pow2_bits_false by congruence. apply andb_false_r.
Qed.
Lemma land_128_big : forall b, b < 128 -> N.land (b + 128) 128 = 128.
Proof.
  intros. apply N.bits_inj. intro i. rewrite N.land_spec.
  destruct (N.eq_dec i 7) as [->|Hn].
  - change 128 with (2 ^ 7) at 2 3. rewrite N.pow2_bits_true, andb_true_r.
    rewrite <- lor_128 by assumption. rewrite N.lor_spec.
    change 128 with (2 ^ 7). rewrite N.pow2_bits_true. apply orb_true_r.
  - change 128 with (2 ^ 7) at 2 3. rewrite N.pow2_bits_false by congruence. apply andb_false_r.
Qed.

(* ---------------------------------------------------------------- variable byte integers: round trip *)
(* one step of read_vbi on a continuation byte / a final byte *)
Lemma read_vbi_cont : forall b r vbi mult, b < 128 -> mult <= 21 -> vbi < 2 ^ mult ->
  read_vbi ((b + 128) :: r) vbi mult = read_vbi r (vbi + b * 2 ^ mult) (mult + 7).
Proof.
  intros b r vbi mult Hb Hm Hv. cbn [read_vbi]. replace (21 <? mult) with false by lia.
  rewrite land_127. replace ((b + 128) mod 128) with b by lia.
  unfold shl32. replace (mult <? 32) with true by lia.
  assert (Hs : N.shiftl b mult = b * 2 ^ mult) by apply N.shiftl_mul_pow2.
  assert (Hp : 2 ^ mult <= 2 ^ 21) by (apply N.pow_le_mono_r; lia).
  change (2 ^ 21) with 2097152 in Hp.
  assert (b * 2 ^ mult < 268435456) by nia.
  rewrite (N.mod_small (N.shiftl b mult)) by lia.
  rewrite lor_disjoint by assumption.
  replace (268435455 <? vbi + b * 2 ^ mult) with false by nia.
  rewrite land_128_big by assumption. cbn [N.eqb Pos.eqb].
  rewrite N.mod_small by lia. reflexivity.
Qed.
Lemma read_vbi_last : forall b r vbi mult, b < 128 -> mult <= 21 -> vbi < 2 ^ mult -> (b <> 0 \/ mult = 0) ->
  read_vbi (b :: r) vbi mult = Ok (vbi + b * 2 ^ mult, r).
Proof.
  intros b r vbi mult Hb Hm Hv Hmin. cbn [read_vbi]. replace ((b =? 0) && negb (mult =? 0)) with false by lia. replace (21 <? mult) with false by lia.
  rewrite land_127, N.mod_small by assumption.
  unfold shl32. replace (mult <? 32) with true by lia.
  assert (Hs : N.shiftl b mult = b * 2 ^ mult) by apply N.shiftl_mul_pow2.
  assert (Hp : 2 ^ mult <= 2 ^ 21) by (apply N.pow_le_mono_r; lia).
  change (2 ^ 21) with 2097152 in Hp.
  assert (b * 2 ^ mult < 268435456) by nia.
  rewrite (N.mod_small (N.shiftl b mult)) by lia.
  rewrite lor_disjoint by assumption.
  replace (268435455 <? vbi + b * 2 ^ mult) with false by nia.
  rewrite land_128_small by assumption. reflexivity.
Qed.

(* the bytes DecodeRemainLength writes *)
Definition varint_bytes (n : N) : list N :=
  if n <? 128 then [n]
  else if n <? 16384 then [n mod 128 + 128; n / 128]
  else if n <? 2097152 then [n mod 128 + 128; (n / 128) mod 128 + 128; n / 16384]
  else [n mod 128 + 128; (n / 128) mod 128 + 128; (n / 16384) mod 128 + 128; n / 2097152].

Lemma encode_varint_bytes : forall n, n < 268435456 -> encode_varint n = Ok (varint_bytes n).
Proof.
  intros n Hn. unfold encode_varint, varint_size, varint_bytes.
  destruct (N.ltb_spec n 128).
  { cbn [varint_loop]. replace (0 <? n / 128) with false by lia.
    rewrite N.mod_small by lia. reflexivity. }
  destruct (N.ltb_spec n 16384).
  { cbn [varint_loop]. replace (0 <? n / 128) with true by lia.
    replace (0 <? n / 128 / 128) with false by lia.
    rewrite lor_128 by lia. rewrite (N.mod_small (n / 128)) by lia. reflexivity. }
  destruct (N.ltb_spec n 2097152).
  { cbn [varint_loop]. replace (0 <? n / 128) with true by lia.
    replace (0 <? n / 128 / 128) with true by lia.
    replace (0 <? n / 128 / 128 / 128) with false by lia.
    rewrite !lor_128 by lia. rewrite (N.mod_small (n / 128 / 128)) by lia.
    replace (n / 128 / 128) with (n / 16384) by lia. reflexivity. }
  replace (n <? 268435456) with true by lia.
  cbn [varint_loop]. replace (0 <? n / 128) with true by lia.
  replace (0 <? n / 128 / 128) with true by lia.
  replace (0 <? n / 128 / 128 / 128) with true by lia.
  replace (0 <? n / 128 / 128 / 128 / 128) with false by lia.
  rewrite !lor_128 by lia. rewrite (N.mod_small (n / 128 / 128 / 128)) by lia.
  replace (n / 128 / 128 / 128) with (n / 2097152) by lia.
  replace (n / 128 / 128) with (n / 16384) by lia. reflexivity.
Qed.

(* canonical length *)
Lemma varint_bytes_len : forall n, n < 268435456 ->
  len (varint_bytes n) = if n <? 128 then 1 else if n <? 16384 then 2 else if n <? 2097152 then 3 else 4.
Proof.
  intros. unfold varint_bytes.
  destruct (n <? 128); [reflexivity|]. destruct (n <? 16384); [reflexivity|].
  destruct (n <? 2097152); reflexivity.
Qed.

(* EncodeRemainLength reads back what DecodeRemainLength wrote, and stops there *)
Lemma varint_roundtrip : forall n rest, n < 268435456 ->
  read_varint (varint_bytes n ++ rest) = Ok (n, rest).
Proof.
  intros n rest Hn. unfold read_varint, varint_bytes.
  destruct (N.ltb_spec n 128).
  { cbn [app]. rewrite read_vbi_last by (cbn; lia). f_equal. f_equal. cbn. lia. }
  destruct (N.ltb_spec n 16384).
  { cbn [app]. rewrite read_vbi_cont by (cbn; lia).
    rewrite read_vbi_last by (cbn; lia). f_equal. f_equal. cbn. lia. }
  destruct (N.ltb_spec n 2097152).
  { cbn [app]. rewrite read_vbi_cont by (cbn; lia).
    rewrite read_vbi_cont by (cbn; lia).
    rewrite read_vbi_last by (cbn; lia). f_equal. f_equal. cbn. lia. }
  cbn [app]. rewrite read_vbi_cont by (cbn; lia).
  rewrite read_vbi_cont by (cbn; lia).
  rewrite read_vbi_cont by (cbn; lia).
  rewrite read_vbi_last by (cbn; lia). f_equal. f_equal. cbn. lia.
Qed.

Lemma encode_varint_or_nil_bytes : forall n, n < 268435456 -> encode_varint_or_nil n = varint_bytes n.
Proof. intros. unfold encode_varint_or_nil. now rewrite encode_varint_bytes. Qed.

Lemma encode_varint_safe : forall n, safe (encode_varint n).
Proof.
  intros. destruct (N.ltb_spec n 268435456).
  - rewrite encode_varint_bytes by assumption. exact I.
  - unfold encode_varint, varint_size.
    replace (n <? 128) with false by lia. replace (n <? 16384) with false by lia.
    replace (n <? 2097152) with false by lia. replace (n <? 268435456) with false by lia. exact I.
Qed.

(* ---------------------------------------------------------------- fixed-width integers *)
Lemma len_put16 : forall x, len (put16 x) = 2. Proof. reflexivity. Qed.
Lemma len_put32 : forall x, len (put32 x) = 4. Proof. reflexivity. Qed.
Lemma read_uint16_put16 : forall x rest, x < 65536 -> read_uint16 (put16 x ++ rest) = Ok (x, rest).
Proof.
  intros. unfold read_uint16. rewrite shorter_spec.
  replace (len (put16 x ++ rest) <? 2) with false by (rewrite len_app, len_put16; lia).
  unfold buf_next.
  replace (takeN 2 (put16 x ++ rest)) with (put16 x) by (symmetry; apply (takeN_app_exact (put16 x) rest)).
  replace (dropN 2 (put16 x ++ rest)) with rest by (symmetry; apply (dropN_app_exact (put16 x) rest)).
  unfold put16, be16, bind. f_equal. f_equal. lia.
Qed.
Lemma read_uint32_put32 : forall x rest, x < 4294967296 -> read_uint32 (put32 x ++ rest) = Ok (x, rest).
Proof.
  intros. unfold read_uint32. rewrite shorter_spec.
  replace (len (put32 x ++ rest) <? 4) with false by (rewrite len_app, len_put32; lia).
  unfold buf_next.
  replace (takeN 4 (put32 x ++ rest)) with (put32 x) by (symmetry; apply (takeN_app_exact (put32 x) rest)).
  replace (dropN 4 (put32 x ++ rest)) with rest by (symmetry; apply (dropN_app_exact (put32 x) rest)).
  unfold put32, be32, bind. f_equal. f_equal. lia.
Qed.
