(* Properties.Pack followed by Properties.Unpack gives back the same Properties, for every
   Properties value that satisfies the invariant the decoder itself establishes (props_inv). *)
From Coq Require Import List NArith ZArith Bool Lia ZifyN ZifyNat ZifyBool Sorted.
Import ListNotations.
From GM Require Import Base.Topic Base.Msg Model.CodecBase Model.CodecProps
  Proofs.CodecBaseP Proofs.CodecStrP Proofs.CodecTotalP.
Open Scope N_scope.

Ltac Zify.zify_post_hook ::= Z.div_mod_to_equations.

(* ---------------------------------------------------------------- the invariant *)
Definition impl_utf8 (s : str) : bool := match valid_utf8_impl s with Ok true => true | _ => false end.
Definition impl_name (s : str) : bool := match valid_topic_name_impl true s with Ok true => true | _ => false end.
Definition istr_ok (s : str) : bool := (len s <=? 65535) && impl_utf8 s.

(* a value the decoder can have stored for single-valued property id *)
Definition sval_ok (id : N) (v : pval) : bool :=
  match prop_kind id, v with
  | Some KBool, PVByte o => (o =? 0) || (o =? 1)
  | Some KU16, PVU16 x => (x <? 65536) && negb (((id =? 33) || (id =? 35)) && (x =? 0))
  | Some KU32, PVU32 x => (x <? 4294967296) && negb ((id =? 39) && (x =? 0))
  | Some KStr, PVStr s => istr_ok s && (negb (id =? 8) || impl_name s)
  | Some KBin, PVStr s => len s <=? 65535
  | _, _ => false
  end.

Definition id_lt (a b : N * pval) : Prop := fst a < fst b.

Definition props_inv (pt : N) (p : props) : Prop :=
  StronglySorted id_lt (pr_single p)
  /\ (forall e, In e (pr_single p) -> validate_id pt (fst e) = true /\ sval_ok (fst e) (snd e) = true)
  /\ match pr_subid p with
     | [] => True
     | [v] => validate_id pt 11 = true /\ 1 <= v < 268435456
     | _ => False
     end
  /\ (pr_user p <> [] -> validate_id pt 38 = true)
  /\ (forall kv, In kv (pr_user p) -> istr_ok (fst kv) = true /\ istr_ok (snd kv) = true)
  /\ (is_some (ps_get 22 (pr_single p)) = true -> is_some (ps_get 21 (pr_single p)) = true).

(* ---------------------------------------------------------------- fuel *)
Definition prop_reader (id : N) (p : props) (r : list N) : res (props * list N) :=
  if id =? 11 then read_subid p r
  else if id =? 38 then read_user p r
  else match prop_kind id with Some kd => read_single id kd p r | None => Err MALFORMED end.

Lemma prop_reader_safe : forall id p r, safe_rd r (prop_reader id p r).
Proof.
  intros. unfold prop_reader. destruct (id =? 11); [apply read_subid_safe|].
  destruct (id =? 38); [apply read_user_safe|]. destruct (prop_kind id); [apply read_single_safe|exact I].
Qed.

Lemma props_loop_step : forall fuel pt p id r,
  props_loop (S fuel) pt p (id :: r) =
  if negb (validate_id pt id) then Err PROTOCOL
  else do '(p', r') <- prop_reader id p r; props_loop fuel pt p' r'.
Proof. reflexivity. Qed.

Lemma props_loop_fuel : forall f1 f2 pt p b, (length b < f1)%nat -> (length b < f2)%nat ->
  props_loop f1 pt p b = props_loop f2 pt p b.
Proof.
  induction f1; intros f2 pt p b H1 H2; [lia|]. destruct f2; [lia|].
  destruct b as [|id r]; [reflexivity|]. rewrite !props_loop_step.
  destruct (negb _); [reflexivity|].
  pose proof (prop_reader_safe id p r) as Hs.
  destruct (prop_reader id p r) as [[p' r']| | |]; cbn [bind safe_rd] in Hs |- *; try reflexivity.
  apply IHf1; cbn [length] in *; lia.
Qed.

(* the loop with "enough" fuel *)
Definition props_run (pt : N) (p : props) (b : list N) : res props := props_loop (S (length b)) pt p b.

Lemma props_run_nil : forall pt p, props_run pt p [] = Ok p.
Proof. reflexivity. Qed.
Lemma props_run_cons : forall pt p id r,
  props_run pt p (id :: r) =
  if negb (validate_id pt id) then Err PROTOCOL
  else do '(p', r') <- prop_reader id p r; props_run pt p' r'.
Proof.
  intros. unfold props_run. rewrite props_loop_step. destruct (negb _); [reflexivity|].
  pose proof (prop_reader_safe id p r) as Hs.
  destruct (prop_reader id p r) as [[p' r']| | |]; cbn [bind safe_rd] in Hs |- *; try reflexivity.
  apply props_loop_fuel; cbn [length]; lia.
Qed.

Lemma varint_bytes_cons : forall n, exists a t, varint_bytes n = a :: t.
Proof. intros. unfold varint_bytes. repeat destruct (_ <? _); eauto. Qed.
Lemma varint_app_nonnil : forall n z, varint_bytes n ++ z <> [].
Proof. intros n z. destruct (varint_bytes_cons n) as [a [t ->]]. discriminate. Qed.
Lemma match_nonnil : forall A (l : list N) (x y : A), l <> [] -> match l with [] => x | _ :: _ => y end = y.
Proof. intros A [|a l] x y H; [congruence|reflexivity]. Qed.

(* ---------------------------------------------------------------- sorted association lists *)
Lemma ps_set_snoc : forall id v l, (forall e, In e l -> fst e < id) -> ps_set id v l = l ++ [(id, v)].
Proof.
  induction l as [|[k w] l IH]; intros H; [reflexivity|]. cbn [ps_set app].
  assert (Hk : k < id) by (apply (H (k, w)); left; reflexivity).
  replace (id <? k) with false by lia. replace (id =? k) with false by lia.
  f_equal. apply IH. intros e He. apply H. right. assumption.
Qed.
Lemma ps_get_none : forall id l, (forall e, In e l -> fst e < id) -> ps_get id l = None.
Proof.
  induction l as [|[k w] l IH]; intros H; [reflexivity|]. cbn [ps_get].
  assert (Hk : k < id) by (apply (H (k, w)); left; reflexivity).
  replace (k =? id) with false by lia. apply IH. intros e He. apply H. right. assumption.
Qed.

(* ---------------------------------------------------------------- one single-valued property *)
Lemma impl_utf8_true : forall s, impl_utf8 s = true -> valid_utf8_impl s = Ok true.
Proof. intros s H. unfold impl_utf8 in H. destruct (valid_utf8_impl s) as [[|]| | |]; congruence. Qed.
Lemma impl_name_true : forall s, impl_name s = true -> valid_topic_name_impl true s = Ok true.
Proof. intros s H. unfold impl_name in H. destruct (valid_topic_name_impl true s) as [[|]| | |]; congruence. Qed.
Lemma istr_ok_rt : forall s rest, istr_ok s = true -> read_utf8_string true (put_bin s ++ rest) = Ok (s, rest).
Proof.
  intros s rest H. unfold istr_ok in H. apply andb_prop in H. destruct H as [H1 H2].
  apply read_utf8_string_put_bin; [lia|]. intros _. now apply impl_utf8_true.
Qed.

Lemma pack_single_head : forall id v, exists t, pack_single (id, v) = id :: t.
Proof. intros id [x|x|x|s]; eexists; reflexivity. Qed.

Lemma prop_reader_single : forall id v p rest,
  sval_ok id v = true -> ps_get id (pr_single p) = None ->
  exists t, pack_single (id, v) = id :: t /\ prop_reader id p (t ++ rest) = Ok (set_single id v p, rest).
Proof.
  intros id v p rest Hok Hget. unfold sval_ok in Hok.
  destruct (prop_kind id) as [k|] eqn:Ek; [|discriminate].
  assert (H11 : (id =? 11) = false).
  { destruct (N.eqb_spec id 11); [subst; discriminate|reflexivity]. }
  assert (H38 : (id =? 38) = false).
  { destruct (N.eqb_spec id 38); [subst; discriminate|reflexivity]. }
  unfold prop_reader. rewrite H11, H38, Ek. unfold read_single. rewrite Hget. cbn [is_some].
  destruct k, v; try discriminate.
  - (* KBool *) eexists. split; [reflexivity|]. cbn [app].
    replace (negb (v =? 0) && negb (v =? 1)) with false by lia. reflexivity.
  - (* KU16 *) eexists. split; [reflexivity|].
    rewrite read_uint16_put16 by lia. cbn [remap bind].
    destruct (N.eqb_spec id 33); destruct (N.eqb_spec id 35); destruct (N.eqb_spec v 0);
      cbn [andb orb negb] in *; try lia; try reflexivity; try (rewrite andb_false_r in Hok; discriminate).
  - (* KU32 *) eexists. split; [reflexivity|].
    rewrite read_uint32_put32 by lia. cbn [remap bind].
    destruct (N.eqb_spec id 39); destruct (N.eqb_spec v 0);
      cbn [andb orb negb] in *; try lia; try reflexivity; try (rewrite andb_false_r in Hok; discriminate).
  - (* KStr *) eexists. split; [reflexivity|].
    apply andb_prop in Hok. destruct Hok as [Hs Hn].
    rewrite istr_ok_rt by assumption. cbn [bind].
    destruct (id =? 8); [|reflexivity].
    cbn [negb orb] in Hn. rewrite impl_name_true by assumption. reflexivity.
  - (* KBin *) eexists. split; [reflexivity|].
    rewrite read_utf8_string_put_bin by (try lia; discriminate). reflexivity.
Qed.

(* ---------------------------------------------------------------- segments of the encoding *)
Definition with_singles (p : props) (l : list (N * pval)) : props :=
  {| pr_single := l; pr_subid := pr_subid p; pr_user := pr_user p |}.

Lemma run_singles : forall pt seg p rest,
  StronglySorted id_lt seg ->
  (forall e, In e seg -> validate_id pt (fst e) = true /\ sval_ok (fst e) (snd e) = true) ->
  (forall e e0, In e seg -> In e0 (pr_single p) -> fst e0 < fst e) ->
  props_run pt p (pack_singles seg ++ rest) = props_run pt (with_singles p (pr_single p ++ seg)) rest.
Proof.
  induction seg as [|[id v] seg IH]; intros p rest Hs Hok Hlt.
  - cbn [pack_singles flat_map app]. rewrite app_nil_r. destruct p; reflexivity.
  - unfold pack_singles. cbn [flat_map]. fold (pack_singles seg). rewrite <- app_assoc.
    destruct (Hok (id, v) (or_introl eq_refl)) as [Hv Hsv]. cbn [fst snd] in Hv, Hsv.
    assert (Hget : ps_get id (pr_single p) = None).
    { apply ps_get_none. intros e0 He0. apply (Hlt (id, v) e0); [left; reflexivity|assumption]. }
    destruct (prop_reader_single id v p (pack_singles seg ++ rest) Hsv Hget) as [t [Et Er]].
    rewrite Et. cbn [app]. rewrite props_run_cons, Hv. cbn [negb]. rewrite Er. cbn [bind].
    inversion Hs as [|a l Hs' Hall]; subst.
    rewrite IH.
    + f_equal. unfold set_single, with_singles. cbn [pr_single pr_subid pr_user].
      rewrite ps_set_snoc by (intros e0 He0; apply (Hlt (id, v) e0); [left; reflexivity|assumption]).
      rewrite <- app_assoc. reflexivity.
    + assumption.
    + intros e He. apply Hok. right. assumption.
    + intros e e0 He He0. unfold set_single in He0. cbn [pr_single] in He0.
      rewrite ps_set_snoc in He0 by (intros e1 He1; apply (Hlt (id, v) e1); [left; reflexivity|assumption]).
      apply in_app_or in He0. destruct He0 as [He0|[<-|[]]].
      * apply (Hlt e e0); [right; assumption|assumption].
      * rewrite Forall_forall in Hall. apply (Hall e He).
Qed.

Lemma run_subids : forall pt ids p rest,
  pr_subid p = [] ->
  match ids with [] => True | [v] => validate_id pt 11 = true /\ 1 <= v < 268435456 | _ => False end ->
  props_run pt p (flat_map pack_subid ids ++ rest) =
  props_run pt {| pr_single := pr_single p; pr_subid := ids; pr_user := pr_user p |} rest.
Proof.
  intros pt ids p rest Hp Hi. destruct ids as [|v [|w ids]]; [| |contradiction].
  - cbn [flat_map app]. rewrite <- Hp. destruct p; reflexivity.
  - destruct Hi as [Hv Hr]. cbn [flat_map]. rewrite app_nil_r. unfold pack_subid. cbn [app].
    rewrite props_run_cons, Hv. cbn [negb]. unfold prop_reader. cbn [N.eqb Pos.eqb].
    unfold read_subid. rewrite Hp.
    rewrite encode_varint_or_nil_bytes by lia. rewrite varint_roundtrip by lia. cbn [remap bind].
    replace (v =? 0) with false by lia. reflexivity.
Qed.

Lemma run_users : forall pt us p rest,
  (us <> [] -> validate_id pt 38 = true) ->
  (forall kv, In kv us -> istr_ok (fst kv) = true /\ istr_ok (snd kv) = true) ->
  props_run pt p (flat_map pack_user us ++ rest) =
  props_run pt {| pr_single := pr_single p; pr_subid := pr_subid p; pr_user := pr_user p ++ us |} rest.
Proof.
  induction us as [|[k v] us IH]; intros p rest Hv Hok.
  - cbn [flat_map app]. rewrite app_nil_r. destruct p; reflexivity.
  - cbn [flat_map]. unfold pack_user at 1. cbn [fst snd]. cbn [app]. rewrite <- !app_assoc.
    rewrite props_run_cons, Hv by discriminate. cbn [negb]. unfold prop_reader. cbn [N.eqb Pos.eqb].
    unfold read_user.
    destruct (Hok (k, v) (or_introl eq_refl)) as [Hk Hvv]. cbn [fst snd] in Hk, Hvv.
    rewrite istr_ok_rt by assumption. cbn [remap bind].
    rewrite istr_ok_rt by assumption. cbn [remap bind].
    rewrite IH.
    + cbn [pr_single pr_subid pr_user]. rewrite <- app_assoc. reflexivity.
    + intros _. apply Hv. discriminate.
    + intros kv Hkv. apply Hok. right. assumption.
Qed.

(* ---------------------------------------------------------------- splitting the sorted list at 11 and 38 *)
Lemma filter_none : forall A (f : A -> bool) l, (forall x, In x l -> f x = false) -> filter f l = [].
Proof.
  induction l; intros H; [reflexivity|]. cbn [filter]. rewrite (H a (or_introl eq_refl)).
  apply IHl. intros x Hx. apply H. right. assumption.
Qed.
Lemma filter_all : forall A (f : A -> bool) l, (forall x, In x l -> f x = true) -> filter f l = l.
Proof.
  induction l; intros H; [reflexivity|]. cbn [filter]. rewrite (H a (or_introl eq_refl)).
  f_equal. apply IHl. intros x Hx. apply H. right. assumption.
Qed.

Definition f_lo (e : N * pval) : bool := fst e <? 11.
Definition f_mid (e : N * pval) : bool := (11 <? fst e) && (fst e <? 38).
Definition f_hi (e : N * pval) : bool := 38 <? fst e.

Lemma split3 : forall l, StronglySorted id_lt l -> (forall e, In e l -> fst e <> 11 /\ fst e <> 38) ->
  l = filter f_lo l ++ filter f_mid l ++ filter f_hi l.
Proof.
  induction l as [|[k v] l IH]; intros Hs Hn; [reflexivity|].
  inversion Hs as [|a l' Hs' Hall]; subst. rewrite Forall_forall in Hall.
  destruct (Hn (k, v) (or_introl eq_refl)) as [N1 N2]. cbn [fst] in N1, N2.
  assert (IH' := IH Hs' (fun e He => Hn e (or_intror He))).
  cbn [filter]. unfold f_lo at 1, f_mid at 1, f_hi at 1. cbn [fst].
  destruct (N.ltb_spec k 11).
  - replace (11 <? k) with false by lia. replace (38 <? k) with false by lia. cbn [andb app]. f_equal. exact IH'.
  - replace (11 <? k) with true by lia. destruct (N.ltb_spec k 38).
    + replace (38 <? k) with false by lia. cbn [andb].
      rewrite (filter_none _ f_lo l) by (intros x Hx; specialize (Hall x Hx); unfold id_lt, f_lo in *; cbn [fst] in *; lia).
      cbn [app]. f_equal.
      rewrite (filter_none _ f_lo l) in IH' by (intros x Hx; specialize (Hall x Hx); unfold id_lt, f_lo in *; cbn [fst] in *; lia).
      exact IH'.
    + replace (38 <? k) with true by lia. cbn [andb].
      rewrite (filter_none _ f_lo l) by (intros x Hx; specialize (Hall x Hx); unfold id_lt, f_lo in *; cbn [fst] in *; lia).
      rewrite (filter_none _ f_mid l) by (intros x Hx; specialize (Hall x Hx); unfold id_lt, f_mid in *; cbn [fst] in *; lia).
      cbn [app]. f_equal.
      rewrite (filter_all _ f_hi l) by (intros x Hx; specialize (Hall x Hx); unfold id_lt, f_hi in *; cbn [fst] in *; lia).
      reflexivity.
Qed.

Lemma filter_sorted : forall f l, StronglySorted id_lt l -> StronglySorted id_lt (filter f l).
Proof.
  induction l as [|a l IH]; intros Hs; [constructor|]. inversion Hs as [|a' l' Hs' Hall]; subst.
  cbn [filter]. destruct (f a); [|now apply IH].
  constructor; [now apply IH|]. rewrite Forall_forall in *. intros x Hx. apply Hall.
  apply filter_In in Hx. tauto.
Qed.

Lemma sval_ok_id : forall id v, sval_ok id v = true -> id <> 11 /\ id <> 38.
Proof.
  intros id v H. unfold sval_ok in H. split; intros ->; discriminate.
Qed.

(* ---------------------------------------------------------------- Properties.Unpack (Properties.Pack p) *)
Lemma props_run_body : forall pt p, props_inv pt p -> props_run pt props_empty (props_body p) = Ok p.
Proof.
  intros pt p (Hs & Hok & Hsub & Hu & Huok & Hauth). unfold props_body.
  fold f_lo. fold f_mid. fold f_hi.
  assert (Hn : forall e, In e (pr_single p) -> fst e <> 11 /\ fst e <> 38).
  { intros e He. apply (sval_ok_id _ (snd e)). apply Hok. assumption. }
  assert (Hin : forall f e, In e (filter f (pr_single p)) -> In e (pr_single p)).
  { intros f e He. apply filter_In in He. tauto. }
  rewrite run_singles; [|now apply filter_sorted| intros e He; apply Hok; eauto | intros e e0 _ []].
  cbn [props_empty pr_single app].
  rewrite run_subids; [| reflexivity | exact Hsub].
  cbn [with_singles pr_single pr_subid pr_user].
  rewrite run_singles; [|now apply filter_sorted| intros e He; apply Hok; eauto | ].
  2:{ cbn [pr_single]. intros e e0 He He0. apply filter_In in He. apply filter_In in He0.
      unfold f_lo, f_mid in *. lia. }
  cbn [with_singles pr_single pr_subid pr_user].
  rewrite run_users; [| exact Hu | exact Huok].
  cbn [pr_single pr_subid pr_user app].
  rewrite <- (app_nil_r (pack_singles (filter f_hi (pr_single p)))).
  rewrite run_singles; [|now apply filter_sorted| intros e He; apply Hok; eauto | ].
  2:{ cbn [pr_single]. intros e e0 He He0. apply filter_In in He. apply in_app_or in He0.
      destruct He0 as [He0|He0]; apply filter_In in He0; unfold f_lo, f_mid, f_hi in *; lia. }
  rewrite props_run_nil. cbn [with_singles pr_single pr_subid pr_user].
  rewrite <- app_assoc, <- split3 by assumption. destruct p; reflexivity.
Qed.

Lemma pack_single_len : forall e, 2 <= len (pack_single e).
Proof.
  intros [id [x|x|x|s]]; cbn [pack_single]; rewrite ?len_cons, ?len_put16, ?len_put32, ?len_put_bin; cbn [len length]; lia.
Qed.

(* an empty encoding comes only from the empty Properties *)
Lemma props_body_nil : forall p, (forall e, In e (pr_single p) -> fst e <> 11 /\ fst e <> 38) ->
  props_body p = [] -> p = props_empty.
Proof.
  intros p Hids H. unfold props_body in H.
  apply app_eq_nil in H. destruct H as [H1 H]. apply app_eq_nil in H. destruct H as [H2 H].
  apply app_eq_nil in H. destruct H as [H3 H]. apply app_eq_nil in H. destruct H as [H4 H5].
  destruct p as [sg sb us]. cbn [pr_single pr_subid pr_user] in *.
  assert (sb = []). { destruct sb; [reflexivity|]. cbn in H2. discriminate. }
  assert (us = []). { destruct us as [|[k v] us]; [reflexivity|]. cbn in H4. discriminate. }
  assert (sg = []).
  { destruct sg as [|[k v] sg]; [reflexivity|]. exfalso.
    assert (Hnil : forall f, pack_singles (filter f ((k, v) :: sg)) = [] -> f (k, v) = false).
    { intros f Hf. cbn [filter] in Hf. destruct (f (k, v)); [|reflexivity].
      unfold pack_singles in Hf. cbn [flat_map] in Hf. apply app_eq_nil in Hf. destruct Hf as [Hf _].
      pose proof (pack_single_len (k, v)) as Hl. rewrite Hf in Hl. cbn in Hl. lia. }
    apply Hnil in H1. apply Hnil in H3. apply Hnil in H5. cbn beta iota delta [fst] in H1, H3, H5.
    destruct (Hids (k, v) (or_introl eq_refl)) as [N1 N2]. cbn [fst] in N1, N2. lia. }
  subst. reflexivity.
Qed.

Theorem props_unpack_pack : forall pt p rest,
  props_inv pt p -> len (props_body p) < 268435456 ->
  props_unpack pt (props_pack (Some p) ++ rest) = Ok (p, rest).
Proof.
  intros pt p rest Hinv Hlen. unfold props_pack, props_unpack.
  rewrite encode_varint_or_nil_bytes by assumption. rewrite <- app_assoc.
  rewrite match_nonnil by apply varint_app_nonnil.
  rewrite varint_roundtrip by assumption. cbn [bind].
  destruct (N.eqb_spec (len (props_body p)) 0) as [E|E].
  - assert (Hb : props_body p = []) by (destruct (props_body p); [reflexivity|rewrite len_cons in E; lia]).
    rewrite Hb. cbn [app]. apply props_body_nil in Hb.
    + subst. reflexivity.
    + destruct Hinv as (_ & Hok & _). intros e He. apply (sval_ok_id _ (snd e)). apply Hok. assumption.
  - rewrite shorter_spec. replace (len (props_body p ++ rest) <? len (props_body p)) with false by (rewrite len_app; lia).
    unfold buf_next. rewrite takeN_app_exact, dropN_app_exact.
    fold (props_run pt props_empty (props_body p)). rewrite props_run_body by assumption. cbn [bind].
    destruct Hinv as (_ & _ & _ & _ & _ & Hauth).
    destruct (is_some (ps_get 22 (pr_single p))) eqn:E22; [|reflexivity].
    rewrite Hauth by reflexivity. reflexivity.
Qed.
