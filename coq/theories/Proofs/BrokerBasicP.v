(* First lemmas about the broker model (Model/Broker.v): arithmetic of the forwarded
   Message Expiry Interval, the CONNECT-time window. *)
From Coq Require Import List NArith Bool Lia ZifyN ZifyBool.
Import ListNotations.
From GM Require Import Base.Topic Base.Msg Model.Queue Model.Broker.
Open Scope N_scope.

Lemma remaining_bounds orig waited : 0 < orig -> 1 <= remaining orig waited <= orig.
Proof. unfold remaining. intros H. destruct (waited <? orig) eqn:E; lia. Qed.

Lemma remaining_exact orig waited : waited < orig -> remaining orig waited = orig - waited.
Proof. unfold remaining. intros H. destruct (waited <? orig) eqn:E; lia. Qed.

Lemma remaining_zero_wait orig : 0 < orig -> remaining orig 0 = orig.
Proof. intros H. rewrite remaining_exact by lia. lia. Qed.

(* what a v5 subscriber is given: never absent (0 means absent on the wire), never more than the original *)
Lemma aged_v5_bounds now e m :
  0 < m_expiry m -> 1 <= m_expiry (aged true now e m) <= m_expiry m.
Proof.
  intros H. unfold aged. cbn [andb].
  destruct (m_expiry m =? 0) eqn:E; [lia|]. cbn [negb with_expiry_val m_expiry].
  apply remaining_bounds; exact H.
Qed.

Lemma aged_v5_value now e m :
  0 < m_expiry m -> (now - e_at e) / 1000 < m_expiry m ->
  m_expiry (aged true now e m) = m_expiry m - (now - e_at e) / 1000.
Proof.
  intros H Hw. unfold aged. cbn [andb].
  destruct (m_expiry m =? 0) eqn:E; [lia|]. cbn [negb with_expiry_val m_expiry].
  apply remaining_exact; exact Hw.
Qed.

(* a message published without an interval carries none; nothing but the interval changes *)
Lemma aged_no_expiry v5 now e m : m_expiry m = 0 -> aged v5 now e m = m.
Proof. intros H. unfold aged. rewrite H. cbn. now rewrite andb_false_r. Qed.

Lemma aged_v3 now e m : aged false now e m = m.
Proof. reflexivity. Qed.

Lemma aged_payload v5 now e m : m_payload (aged v5 now e m) = m_payload m /\ m_topic (aged v5 now e m) = m_topic m /\ m_qos (aged v5 now e m) = m_qos m.
Proof. unfold aged. destruct (v5 && negb (m_expiry m =? 0)); cbn; auto. Qed.
