(* First lemmas about the broker model (Model/Broker.v): arithmetic of the forwarded
   Message Expiry Interval, the CONNECT-time window. *)
From Coq Require Import List NArith Bool Lia ZifyN ZifyBool.
Import ListNotations.
From GM Require Import Base.Topic Base.Msg Model.Queue Model.TopicMatch Model.Broker.
Open Scope N_scope.

Lemma remaining_bounds orig waited : 0 < orig -> 1 <= remaining orig waited <= orig.
Proof. unfold remaining. intros H. destruct (waited <? orig) eqn:E; lia. Qed.

Lemma remaining_exact orig waited : waited < orig -> remaining orig waited = orig - waited.
Proof. unfold remaining. intros H. destruct (waited <? orig) eqn:E; lia. Qed.

Lemma remaining_zero_wait orig : 0 < orig -> remaining orig 0 = orig.
Proof. intros H. rewrite remaining_exact by lia. lia. Qed.

(* what a v5 subscriber is given: never absent (0 means absent on the wire), never more than the original *)
Lemma aged_v5_bounds now e m :
  0 < m_expiry m -> 1 <= m_expiry (aged true now e m) <= m_expiry m.
Proof.
  intros H. unfold aged. cbn [andb].
  destruct (m_expiry m =? 0) eqn:E; [lia|]. cbn [negb with_expiry_val m_expiry].
  apply remaining_bounds; exact H.
Qed.

Lemma aged_v5_value now e m :
  0 < m_expiry m -> (now - e_at e) / 1000 < m_expiry m ->
  m_expiry (aged true now e m) = m_expiry m - (now - e_at e) / 1000.
Proof.
  intros H Hw. unfold aged. cbn [andb].
  destruct (m_expiry m =? 0) eqn:E; [lia|]. cbn [negb with_expiry_val m_expiry].
  apply remaining_exact; exact Hw.
Qed.

(* a message published without an interval carries none; nothing but the interval changes *)
Lemma aged_no_expiry v5 now e m : m_expiry m = 0 -> aged v5 now e m = m.
Proof. intros H. unfold aged. rewrite H. cbn. now rewrite andb_false_r. Qed.

Lemma aged_v3 now e m : aged false now e m = m.
Proof. reflexivity. Qed.

Lemma aged_payload v5 now e m : m_payload (aged v5 now e m) = m_payload m /\ m_topic (aged v5 now e m) = m_topic m /\ m_qos (aged v5 now e m) = m_qos m.
Proof. unfold aged. destruct (v5 && negb (m_expiry m =? 0)); cbn; auto. Qed.

(* ================================================================== *)
(* a packet with its observed wire size (ESendSz)                      *)
(* ================================================================== *)

(* not larger than the server's Maximum Packet Size (or a v3 client, or no maximum): the ordinary handler *)
Lemma handle_packet_sz_small c k p n s : too_big k n s = false -> handle_packet_sz c k p n s = handle_packet c k p s.
Proof. unfold handle_packet_sz. now intros ->. Qed.

Lemma set_quota_same k : set_quota (k_quota k) k = k.
Proof. destruct k; reflexivity. Qed.

(* the results of the too-big branch: the read loop's own errors, or 0x95 after at most a quota charge *)
Inductive sz_refused (c : N) (k : conn) (s : st) : hres -> Prop :=
| szr_read code : sz_refused c k s (HErrRead s code)
| szr_plain : sz_refused c k s (HErr s [] (Some 149))
| szr_quota q : sz_refused c k s (HErr (upd_conn c (set_quota q k) s) [] (Some 149)).

(* too big: nothing is handled.  The state is unchanged except, possibly, the sender's receive quota; no output;
   the result is an error *)
Lemma handle_packet_sz_big c k p n s : too_big k n s = true -> sz_refused c k s (handle_packet_sz c k p n s).
Proof.
  unfold handle_packet_sz. intros ->. destruct p; try apply szr_plain.
  - destruct (has_wild topic); [apply szr_read|].
    match goal with |- context [if ?b then HErrRead s (Some 148) else _] => destruct b end; [apply szr_read|].
    match goal with |- context [if ?b then HErrRead s (Some 130) else _] => destruct b end; [apply szr_read|].
    destruct ((0 <? qos) && (k_quota k =? 0)); [apply szr_read|]. cbv zeta.
    destruct (0 <? qos); [apply szr_quota|].
    replace (upd_conn c k s) with (upd_conn c (set_quota (k_quota k) k) s) by now rewrite set_quota_same.
    apply szr_quota.
  - match goal with |- context [if ?b then _ else _] => destruct b end; [apply szr_plain|apply szr_read].
Qed.

(* the step of a sized packet is the step of the packet, or the failure of a connected socket after a refusal *)
Lemma step_event_sz s c p n :
  step_event s (ESendSz c p n) = step_event s (ESend c p) \/
  exists k, nget c (b_conns s) = Some k /\ k_phase k = PhConnected /\ too_big k n s = true /\
    ((exists code, step_event s (ESendSz c p n) = fail_conn c code true s) \/
     step_event s (ESendSz c p n) = fail_conn c (Some 149) false s \/
     exists q, step_event s (ESendSz c p n) = fail_conn c (Some 149) false (upd_conn c (set_quota q k) s)).
Proof.
  cbn [step_event]. destruct (nget c (b_conns s)) as [k|] eqn:Hk; [|now left].
  destruct (k_phase k) eqn:Hp; try now left.
  destruct (too_big k n s) eqn:Hb; [|left; now rewrite handle_packet_sz_small].
  right. exists k. split; [reflexivity|]. split; [exact Hp|]. split; [exact Hb|].
  destruct (handle_packet_sz_big c k p n s Hb) as [code| |q].
  - left. now exists code.
  - right. left. now destruct (fail_conn c (Some 149) false s).
  - right. right. exists q. now destruct (fail_conn c (Some 149) false (upd_conn c (set_quota q k) s)).
Qed.

(* every statement about `ESend c p` applies to the sized packet when it is not too big for socket c *)
Lemma step_sz_small s c p n :
  (forall k, nget c (b_conns s) = Some k -> k_phase k = PhConnected -> too_big k n s = false) ->
  step_event s (ESendSz c p n) = step_event s (ESend c p) /\ step s (ESendSz c p n) = step s (ESend c p).
Proof.
  intros H.
  assert (E : step_event s (ESendSz c p n) = step_event s (ESend c p)).
  { destruct (step_event_sz s c p n) as [E|(k & Hk & Hp & Hb & _)]; [exact E|]. rewrite (H k Hk Hp) in Hb. discriminate. }
  split; [exact E|]. unfold step. now rewrite E.
Qed.
