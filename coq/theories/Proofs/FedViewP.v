(* The subscription view (second half of C16): after the fault-free suffix B's view of A's
   subscriptions equals A's local subscription set.  Sender side: the events of an epoch
   replay to the local topic set (full resynchronisation + hooks).  Receiver side: B's
   store for A is the replay of the events it applied. *)
From Coq Require Import List NArith Bool Arith Lia ZifyN ZifyNat ZifyBool.
Import ListNotations.
From GM Require Import Base.Topic Base.Msg Model.SubTrie Model.SubSpec Model.RetTrie Model.FedQueue Oracle.C16O
  Proofs.TopicP Proofs.SubTrieP Proofs.FedP.
Open Scope N_scope.

(* ------------------------------------------------------------------ *)
(* 1. full topic names                                                 *)
(* ------------------------------------------------------------------ *)

(* what FromTopic produces: a share name without '/', and a non-shared filter that does
   not itself look like a shared one *)
Definition wf_share (g f : str) : bool :=
  no_slash g && (negb (is_empty g) || negb (has_prefix SHARE_PREFIX f)).

Definition wfform (t : str) : Prop := exists g f, wf_share g f = true /\ t = fed_full_topic g f.

Lemma split_full g f : wf_share g f = true -> split_topic (fed_full_topic g f) = (g, f).
Proof.
  unfold wf_share, fed_full_topic, split_topic. intros H. apply andb_true_iff in H as [Hns H].
  destruct g as [|a g].
  - cbn [is_empty negb orb] in *. apply negb_true_iff in H. now rewrite H.
  - cbn [is_empty]. rewrite has_prefix_app.
    replace (skipn 7 (SHARE_PREFIX ++ (a :: g) ++ SLASH :: f)) with ((a :: g) ++ SLASH :: f) by reflexivity.
    now rewrite (cut_slash_app (a :: g) f Hns).
Qed.

Lemma full_inj g f g' f' : wf_share g f = true -> wf_share g' f' = true ->
  fed_full_topic g f = fed_full_topic g' f' -> (g, f) = (g', f').
Proof. intros H H' E. rewrite <- (split_full g f H), <- (split_full g' f' H'). now rewrite E. Qed.

Definition wf_event (e : fevent) : Prop :=
  match e with ESub g f => wf_share g f = true | EUnsub t => wfform t | EMsg _ => True end.

(* the set of full topic names a sequence of events amounts to *)
Definition rm_name (t : str) (l : list str) : list str := filter (fun x => negb (str_eqb x t)) l.
Definition name_step (acc : list str) (e : fevent) : list str :=
  match e with
  | ESub g f => fed_full_topic g f :: acc
  | EUnsub t => rm_name t acc
  | EMsg _ => acc
  end.
Definition names (es : list fevent) : list str := fold_left name_step es [].

Lemma in_rm_name x t l : In x (rm_name t l) <-> In x l /\ x <> t.
Proof.
  unfold rm_name. rewrite filter_In. destruct (str_eqb_spec x t) as [E|E]; cbn [negb]; intuition congruence.
Qed.

Lemma names_snoc es e : names (es ++ [e]) = name_step (names es) e.
Proof. unfold names. now rewrite fold_left_app. Qed.

Lemma names_app es es' : names (es ++ es') = fold_left name_step es' (names es).
Proof. unfold names. now rewrite fold_left_app. Qed.

(* a block of Subscribe / message events adds exactly the subscribed names *)
Definition no_unsub (e : fevent) : Prop := match e with EUnsub _ => False | _ => True end.

Lemma fold_names_subs l : forall acc x, (forall e, In e l -> no_unsub e) ->
  In x (fold_left name_step l acc) <-> In x acc \/ exists g f, In (ESub g f) l /\ x = fed_full_topic g f.
Proof.
  induction l as [|e r IH]; intros acc x H; cbn [fold_left].
  - split; [now left|]. intros [H0|(g & f & [] & _)]. exact H0.
  - rewrite IH by (intros e' He'; apply H; now right).
    pose proof (H e (or_introl eq_refl)) as He. destruct e as [g f|t|m]; cbn [name_step no_unsub] in *; [|contradiction|].
    + cbn [In]. split.
      * intros [[<-|H0]|(g' & f' & Hin & ->)]; [right; exists g, f; split; [now left|reflexivity]|now left|right; exists g', f'; split; [now right|reflexivity]].
      * intros [H0|(g' & f' & [E|Hin] & ->)]; [left; now right|injection E as -> ->; left; now left|right; exists g', f'; now split].
    + split.
      * intros [H0|(g' & f' & Hin & ->)]; [now left|right; exists g', f'; split; [now right|reflexivity]].
      * intros [H0|(g' & f' & [E|Hin] & ->)]; [now left|discriminate|right; exists g', f'; now split].
Qed.

(* a block of Unsubscribe events removes exactly the unsubscribed names *)
Lemma fold_names_unsubs ts : forall acc x,
  In x (fold_left name_step (map EUnsub ts) acc) <-> In x acc /\ ~ In x ts.
Proof.
  induction ts as [|t r IH]; intros acc x; cbn [map fold_left In]; [tauto|].
  rewrite IH. cbn [name_step]. rewrite in_rm_name. intuition congruence.
Qed.

(* ------------------------------------------------------------------ *)
(* 2. the oracle-resolved orders are permutations                      *)
(* ------------------------------------------------------------------ *)

Lemma fevent_eqb_shape a b : fevent_eqb a b = true ->
  match a with EMsg _ => exists m', b = EMsg m' | _ => a = b end.
Proof.
  destruct a as [g f|t|m], b as [g' f'|t'|m']; cbn [fevent_eqb]; try discriminate.
  - intros H. apply andb_true_iff in H as [H1 H2].
    destruct (str_eqb_spec g g'), (str_eqb_spec f f'); try discriminate. now subst.
  - intros H. destruct (str_eqb_spec t t'); [now subst|discriminate].
  - intros _. now exists m'.
Qed.

Lemma fevent_eqb_refl_nm a : match a with EMsg _ => True | _ => fevent_eqb a a = true end.
Proof. destruct a as [g f|t|m]; cbn [fevent_eqb]; [now rewrite !str_eqb_refl|now rewrite str_eqb_refl|exact I]. Qed.

Lemma ev_remove1_sub x l l' : ev_remove1 x l = Some l' -> forall z, In z l' -> In z l.
Proof.
  revert l'. induction l as [|y r IH]; intros l' H z Hz; cbn [ev_remove1] in H; [discriminate|].
  destruct (fevent_eqb x y).
  - injection H as <-. now right.
  - destruct (ev_remove1 x r) as [r'|] eqn:Hr; [|discriminate]. injection H as <-.
    destruct Hz as [<-|Hz]; [now left|right; now apply (IH r' eq_refl)].
Qed.

Lemma ev_remove1_found x l l' : ev_remove1 x l = Some l' -> exists z, In z l /\ fevent_eqb x z = true.
Proof.
  revert l'. induction l as [|y r IH]; intros l' H; cbn [ev_remove1] in H; [discriminate|].
  destruct (fevent_eqb x y) eqn:E; [exists y; split; [now left|exact E]|].
  destruct (ev_remove1 x r) as [r'|] eqn:Hr; [|discriminate].
  destruct (IH r' eq_refl) as (z & Hz & Ez). exists z. split; [now right|exact Ez].
Qed.

Lemma ev_perm_in_rev a : forall b, ev_perm a b = true -> forall y, In y a -> exists z, In z b /\ fevent_eqb y z = true.
Proof.
  induction a as [|x a' IH]; intros b H y Hy; [destruct Hy|]. cbn [ev_perm] in H.
  destruct (ev_remove1 x b) as [b'|] eqn:Hr; [|discriminate].
  destruct Hy as [<-|Hy]; [exact (ev_remove1_found _ _ _ Hr)|].
  destruct (IH b' H y Hy) as (z & Hz & E). exists z. split; [now apply (ev_remove1_sub _ _ _ Hr)|exact E].
Qed.

(* for Subscribe / Unsubscribe events the resolved list has the same elements as the expected one *)
Lemma resolve_in_nm expected given e :
  match e with EMsg _ => False | _ => True end ->
  (In e (fq_resolve expected given) <-> In e expected).
Proof.
  intros Hnm. unfold fq_resolve. destruct (ev_perm expected given) eqn:Hp; [|tauto]. split.
  - intros Hin. destruct (ev_perm_in _ _ Hp e Hin) as (y & Hy & E). apply fevent_eqb_shape in E.
    destruct y as [g f|t|m]; [now subst|now subst|]. destruct E as [m' ->]. destruct Hnm.
  - intros Hin. destruct (ev_perm_in_rev _ _ Hp e Hin) as (z & Hz & E). apply fevent_eqb_shape in E.
    destruct e as [g f|t|m]; [now subst|now subst|destruct Hnm].
Qed.

(* ... and introduces no event of another kind *)
Lemma resolve_kind expected given (P : fevent -> Prop) :
  (forall a b, fevent_eqb a b = true -> P a -> P b) ->
  (forall e, In e expected -> P e) -> forall e, In e (fq_resolve expected given) -> P e.
Proof.
  intros Hresp H e He. unfold fq_resolve in He. destruct (ev_perm expected given) eqn:Hp; [|now apply H].
  destruct (ev_perm_in _ _ Hp e He) as (y & Hy & E). exact (Hresp y e E (H y Hy)).
Qed.

(* ------------------------------------------------------------------ *)
(* 3. the local reference-counted topic set                            *)
(* ------------------------------------------------------------------ *)

Definition tkeys (tp : ltopics) : list str := map fst tp.

Lemma in_tkeys_aset x t n (tp : ltopics) : In x (tkeys (aset t n tp)) <-> x = t \/ In x (tkeys tp).
Proof.
  unfold tkeys. split; [apply in_keys_aset|].
  induction tp as [|[k v] r IH]; cbn [aset map fst In].
  - intros [->|[]]. now left.
  - destruct (str_eqb_spec t k) as [->|Hne]; cbn [map fst In]; [intuition|].
    intros [->|[->|H]]; [right; apply IH; now left|now left|right; apply IH; now right].
Qed.

Lemma in_tkeys_adel x t (tp : ltopics) : NoDup (tkeys tp) -> (In x (tkeys (adel t tp)) <-> In x (tkeys tp) /\ x <> t).
Proof.
  unfold tkeys. induction tp as [|[k v] r IH]; cbn [adel map fst In]; intros Hnd; [tauto|].
  inversion Hnd as [|? ? Hk Hr]; subst. destruct (str_eqb_spec t k) as [->|Hne]; cbn [map fst In].
  - split; [intros H; split; [now right|intros ->; contradiction]|intros [[->|H] Hx]; [congruence|exact H]].
  - rewrite (IH Hr). split; [intros [->|[H Hx]]; [split; [now left|congruence]|split; [now right|exact Hx]]|].
    intros [[->|H] Hx]; [now left|right; now split].
Qed.

Lemma aget_none_keys t (tp : ltopics) : aget t tp = None <-> ~ In t (tkeys tp).
Proof.
  split; [intros H Hin|apply aget_notin].
  unfold tkeys in Hin. apply in_map_iff in Hin as ([k v] & <- & Hin). cbn [fst] in H.
  clear -H Hin. induction tp as [|[k0 v0] r IH]; [destruct Hin|]. cbn [aget] in H.
  destruct (str_eqb_spec k k0) as [->|Hne]; [discriminate|]. destruct Hin as [E|Hin]; [congruence|now apply IH].
Qed.

(* what ls_dec does to the key set *)
Lemma ls_dec_keys t tp x : NoDup (tkeys tp) ->
  (In x (tkeys (ls_dec t tp)) <-> In x (tkeys tp) /\ (x = t -> ahas t (ls_dec t tp) = true)).
Proof.
  intros Hnd. unfold ls_dec. destruct (aget t tp) as [n|] eqn:Hg.
  - destruct (n <=? 1) eqn:Hn.
    + rewrite (in_tkeys_adel _ _ _ Hnd). unfold ahas. rewrite aget_adel by exact Hnd. rewrite str_eqb_refl.
      split; [intros [H Hx]; split; [exact H|congruence]|intros [H Hx]; split; [exact H|intros ->; specialize (Hx eq_refl); discriminate]].
    + rewrite in_tkeys_aset. unfold ahas. rewrite aget_aset_same.
      split; [intros [->|H]; [split; [|reflexivity]; apply aget_in_keys in Hg; exact Hg|now split]|intros [H _]; now right].
  - unfold ahas. rewrite Hg. split; [intros H; split; [exact H|intros ->]|tauto].
    apply aget_none_keys in Hg. contradiction.
Qed.

Lemma ls_dec_nodup t tp : NoDup (tkeys tp) -> NoDup (tkeys (ls_dec t tp)).
Proof.
  intros H. unfold ls_dec, tkeys. destruct (aget t tp) as [n|]; [|exact H].
  destruct (n <=? 1); [now apply NoDup_adel|now apply NoDup_aset].
Qed.

Lemma ls_dec_pos t tp : (forall k n, In (k, n) tp -> 1 <= n) -> forall k n, In (k, n) (ls_dec t tp) -> 1 <= n.
Proof.
  intros H k n Hin. unfold ls_dec in Hin. destruct (aget t tp) as [c|] eqn:Hg; [|now apply (H k n)].
  destruct (c <=? 1) eqn:Hc.
  - apply in_adel_pair in Hin. now apply (H k n).
  - apply in_aset_pair_q in Hin as [E|Hin]; [injection E as _ ->; lia|now apply (H k n)].
Qed.

Lemma ls_dec_all_keys ks : forall tp x, NoDup (tkeys tp) ->
  (In x (tkeys (fst (ls_dec_all ks tp))) <-> In x (tkeys tp) /\ ~ In x (snd (ls_dec_all ks tp))) /\
  NoDup (tkeys (fst (ls_dec_all ks tp))).
Proof.
  induction ks as [|t r IH]; intros tp x Hnd; cbn [ls_dec_all].
  - cbn [fst snd In]. split; [tauto|exact Hnd].
  - destruct (ls_dec_all r (ls_dec t tp)) as [tp'' rm] eqn:Hd.
    destruct (IH (ls_dec t tp) x (ls_dec_nodup t tp Hnd)) as [Hiff Hnd'']. rewrite Hd in Hiff, Hnd''. cbn [fst snd] in *.
    split; [|exact Hnd'']. rewrite Hiff, (ls_dec_keys t tp x Hnd).
    destruct (ahas t (ls_dec t tp)) eqn:Ha.
    + split; [intros [[H _] Hr]; now split|intros [H Hr]; split; [split; [exact H|reflexivity]|exact Hr]].
    + cbn [In]. split.
      * intros [[H Hx] Hr]. split; [exact H|]. intros [->|Hin]; [specialize (Hx eq_refl); discriminate|contradiction].
      * intros [H Hr]. split; [split; [exact H|intros ->; exfalso; apply Hr; now left]|intros Hin; apply Hr; now right].
Qed.

Lemma ls_dec_all_pos ks : forall tp, (forall k n, In (k, n) tp -> 1 <= n) ->
  forall k n, In (k, n) (fst (ls_dec_all ks tp)) -> 1 <= n.
Proof.
  induction ks as [|t r IH]; intros tp H k n Hin; cbn [ls_dec_all] in Hin; [now apply (H k n)|].
  destruct (ls_dec_all r (ls_dec t tp)) as [tp'' rm] eqn:Hd. cbn [fst] in Hin.
  apply (IH (ls_dec t tp) (ls_dec_pos t tp H) k n). now rewrite Hd.
Qed.

Lemma ls_dec_all_sub ks : forall tp x, In x (tkeys (fst (ls_dec_all ks tp))) -> NoDup (tkeys tp) -> In x (tkeys tp).
Proof. intros tp x H Hnd. now apply (proj1 (ls_dec_all_keys ks tp x Hnd)) in H. Qed.

(* ------------------------------------------------------------------ *)
(* 4. the invariant of the two views                                   *)
(* ------------------------------------------------------------------ *)

Definition EN (s : fstate) : list str := names (map snd (Eof s)).
Definition AN (s : fstate) : list str := names (map snd (Aof s)).
(* the full topic names B's store holds for A *)
Definition SNP (sp : spec) (x : str) : Prop :=
  exists g f v, sp_get (NODE_A, g, f) sp = Some v /\ x = fed_full_topic g f.

Record VW (s : fstate) : Prop := {
  vw_nd : NoDup (tkeys (a_topics s));
  vw_pos : forall t n, In (t, n) (a_topics s) -> 1 <= n;
  vw_tform : forall t, In t (tkeys (a_topics s)) -> wfform t;
  vw_iform : forall c ks, In (c, ks) (a_index s) -> forall t, In t ks -> wfform t;
  vw_ev : forall t, In t (emitted s) -> wf_event (snd t);
  (* sender: while B holds A's session, the events of the epoch replay to the local topic set *)
  vw_local : matched s = true -> forall x, In x (tkeys (a_topics s)) <-> In x (EN s);
  vw_fed : fb_fed s = db_run (fb_ops s);
  vw_wf : wf_ops (fb_ops s) = true;
  vw_keys : forall g f v, sp_get (NODE_A, g, f) (spec_run (fb_ops s)) = Some v -> wf_share g f = true;
  (* receiver: B's store for A is the replay of the events it applied in the epoch *)
  vw_view : matched s = true -> forall x, SNP (spec_run (fb_ops s)) x <-> In x (AN s) }.

Definition xcore (s : fstate) :=
  (a_index s, a_topics s, emitted s, a_epoch s, applied s, fb_ops s, fb_fed s,
   option_map p_sid (a_peer s), option_map fs_id (fb_sess s)).

Lemma matched_xcore s s' :
  option_map p_sid (a_peer s) = option_map p_sid (a_peer s') ->
  option_map fs_id (fb_sess s) = option_map fs_id (fb_sess s') -> matched s = matched s'.
Proof.
  unfold matched. intros H1 H2.
  destruct (a_peer s) as [p|], (a_peer s') as [p'|]; try discriminate; cbn [option_map] in H1;
    destruct (fb_sess s) as [se|], (fb_sess s') as [se'|]; try discriminate; cbn [option_map] in H2; try reflexivity.
  congruence.
Qed.

Lemma VW_xcore s s' : xcore s = xcore s' -> VW s -> VW s'.
Proof.
  unfold xcore. intros H. injection H as H1 H2 H3 H4 H5 H6 H7 H8 H9.
  pose proof (matched_xcore s s' H8 H9) as Hm.
  intros [A1 A2 A3 A4 A5 A6 A7 A8 A9 A10]. unfold EN, AN, Eof, Aof in *.
  constructor; unfold EN, AN, Eof, Aof; rewrite <- ?H1, <- ?H2, <- ?H3, <- ?H4, <- ?H5, <- ?H6, <- ?H7, <- ?Hm; assumption.
Qed.

Lemma xcore_set_queue q s : xcore (set_queue q s) = xcore s.
Proof. unfold set_queue, xcore. destruct (a_peer s) as [p|] eqn:Hp; sfields; now rewrite ?Hp. Qed.

Lemma xcore_cut s : xcore (fq_cut s) = xcore s.
Proof.
  unfold fq_cut. destruct (st_up s); [|reflexivity]. sfields.
  destruct (a_peer s) as [p|] eqn:Hp; [|reflexivity]. now rewrite xcore_set_queue.
Qed.

Lemma xcore_send s : xcore (fq_send s) = xcore s.
Proof.
  unfold fq_send. destruct (st_up s); [|reflexivity]. destruct (a_peer s) as [p|] eqn:Hp; [|reflexivity].
  destruct (eq_fetch (p_q p)) as [[| |batch] q']; try reflexivity.
  destruct (forallb _ batch); [|rewrite xcore_cut]; rewrite <- (xcore_set_queue q' s); reflexivity.
Qed.

Lemma xcore_ack_deliver s : xcore (fq_ack_deliver s) = xcore s.
Proof.
  unfold fq_ack_deliver. destruct (st_up s); [|reflexivity]. destruct (s2c s) as [|id rest]; [reflexivity|].
  destruct (a_peer s) as [p|] eqn:Hp; [|reflexivity].
  rewrite xcore_set_queue. reflexivity.
Qed.

(* emitting in the current epoch *)
Lemma Eof_emit1 e s p : a_peer s = Some p -> Eof (emit1 e s) = Eof s ++ [(evq_next (p_q p), e)].
Proof. intros Hp. unfold emit1, Eof. rewrite Hp. sfields. now rewrite proj_app, proj_one_same. Qed.

Lemma EN_emit1 e s : is_some (a_peer s) = true -> EN (emit1 e s) = name_step (EN s) e.
Proof.
  destruct (a_peer s) as [p|] eqn:Hp; [|discriminate]. intros _. unfold EN. rewrite (Eof_emit1 e s p Hp), map_app. cbn [map snd].
  apply names_snoc.
Qed.

Lemma EN_emit_list es : forall s, is_some (a_peer s) = true -> EN (emit_list es s) = fold_left name_step es (EN s).
Proof.
  unfold emit_list. induction es as [|e r IH]; intros s Hp; cbn [fold_left]; [reflexivity|].
  assert (Hp' : is_some (a_peer (emit1 e s)) = true) by (unfold emit1; destruct (a_peer s); [reflexivity|discriminate]).
  rewrite (IH _ Hp'), (EN_emit1 e s Hp). reflexivity.
Qed.

Lemma emit1_nopeer e s : a_peer s = None -> emit1 e s = s.
Proof. intros H. unfold emit1. now rewrite H. Qed.

Lemma matched_some s : matched s = true -> is_some (a_peer s) = true.
Proof. unfold matched. destruct (a_peer s); [reflexivity|discriminate]. Qed.

(* ------------------------------------------------------------------ *)
(* 5. the hooks                                                        *)
(* ------------------------------------------------------------------ *)

Definition ecore (s : fstate) :=
  (a_index s, a_topics s, a_epoch s, applied s, fb_ops s, fb_fed s, option_map p_sid (a_peer s), option_map fs_id (fb_sess s)).

Lemma ecore_emit1 e s : ecore (emit1 e s) = ecore s.
Proof. unfold emit1, ecore. destruct (a_peer s) as [p|] eqn:Hp; sfields; now rewrite ?Hp. Qed.

Lemma ecore_emit_list es : forall s, ecore (emit_list es s) = ecore s.
Proof. unfold emit_list. induction es as [|e r IH]; intros s; cbn [fold_left]; [reflexivity|]. now rewrite IH, ecore_emit1. Qed.

Lemma emitted_emit_list es : forall s t, In t (emitted (emit_list es s)) -> In t (emitted s) \/ In (snd t) es.
Proof.
  unfold emit_list. induction es as [|e r IH]; intros s t Ht; cbn [fold_left] in Ht; [now left|].
  apply IH in Ht as [Ht|Ht]; [|right; now right].
  unfold emit1 in Ht. destruct (a_peer s) as [p|]; [|now left]. sfields.
  apply in_app_or in Ht as [Ht|[<-|[]]]; [now left|right; now left].
Qed.

Lemma VW_emit_gen s ix tp es :
  VW s ->
  NoDup (tkeys tp) -> (forall t n, In (t, n) tp -> 1 <= n) -> (forall t, In t (tkeys tp) -> wfform t) ->
  (forall c ks, In (c, ks) ix -> forall t, In t ks -> wfform t) ->
  (forall e, In e es -> wf_event e) ->
  (matched s = true -> forall x, In x (tkeys tp) <-> In x (fold_left name_step es (EN s))) ->
  VW (emit_list es (set_local ix tp s)).
Proof.
  intros [A1 A2 A3 A4 A5 A6 A7 A8 A9 A10] B1 B2 B3 B4 B5 B6.
  pose proof (ecore_emit_list es (set_local ix tp s)) as Hc. unfold ecore in Hc. sfields.
  injection Hc as C1 C2 C3 C4 C5 C6 C7 C8.
  assert (Hm : matched (emit_list es (set_local ix tp s)) = matched s) by (apply matched_xcore; assumption).
  constructor; rewrite ?C1, ?C2, ?C5, ?C6, ?Hm; try assumption.
  - intros t Ht. apply emitted_emit_list in Ht as [Ht|Ht]; [now apply A5|now apply B5].
  - intros Hmt x. rewrite EN_emit_list by (apply matched_some in Hmt; exact Hmt). now apply B6.
  - intros Hmt x. unfold AN, Aof. rewrite C3, C4. now apply A10.
Qed.

Lemma VW_same_local s s' : xcore s' = xcore (emit_list [] (set_local (a_index s) (a_topics s) s)) -> VW s -> VW s'.
Proof.
  intros Hx H. apply (VW_xcore _ _ (eq_sym Hx)). destruct H as [A1 A2 A3 A4 A5 A6 A7 A8 A9 A10].
  apply VW_emit_gen; try assumption; [constructor; assumption|intros e []].
Qed.

(* QSub *)
Lemma VW_sub s c g f : VW s -> wf_share g f = true ->
  VW (let '(ix, tp, fresh) := ls_subscribe c (fed_full_topic g f) (a_index s) (a_topics s) in
      let s1 := set_local ix tp s in if fresh then emit1 (ESub g f) s1 else s1).
Proof.
  intros H Hwf. pose proof H as [A1 A2 A3 A4 A5 A6 A7 A8 A9 A10].
  set (t := fed_full_topic g f). unfold ls_subscribe.
  assert (Hform : wfform t) by (exists g, f; now split).
  destruct (mem_str t (keys_of_client c (a_index s))) eqn:Hmem.
  - apply (VW_same_local s); [reflexivity|exact H].
  - set (n := match aget t (a_topics s) with Some n => n | None => 0 end + 1).
    assert (B1 : NoDup (tkeys (aset t n (a_topics s)))) by (unfold tkeys; now apply NoDup_aset).
    assert (B2 : forall k m, In (k, m) (aset t n (a_topics s)) -> 1 <= m).
    { intros k m Hin. apply in_aset_pair_q in Hin as [E|Hin]; [injection E as _ ->; subst n; lia|now apply (A2 k m)]. }
    assert (B3 : forall k, In k (tkeys (aset t n (a_topics s))) -> wfform k).
    { intros k Hk. apply in_tkeys_aset in Hk as [->|Hk]; [exact Hform|now apply A3]. }
    assert (B4 : forall c' ks, In (c', ks) (aset c (keys_of_client c (a_index s) ++ [t]) (a_index s)) -> forall k, In k ks -> wfform k).
    { intros c' ks Hin k Hk. apply in_aset_pair_q in Hin as [E|Hin]; [|now apply (A4 c' ks)].
      injection E as _ ->. apply in_app_or in Hk as [Hk|[<-|[]]]; [|exact Hform].
      unfold keys_of_client in Hk. destruct (aget c (a_index s)) as [k0|] eqn:Hg; [|destruct Hk].
      apply aget_In in Hg. now apply (A4 c k0). }
    (* fresh <-> the topic was not there *)
    assert (Hfresh : (n =? 1) = true <-> ~ In t (tkeys (a_topics s))).
    { subst n. rewrite <- aget_none_keys. destruct (aget t (a_topics s)) as [m|] eqn:Hg.
      - apply aget_In in Hg. apply A2 in Hg. split; [intros E; apply N.eqb_eq in E; lia|discriminate].
      - split; reflexivity. }
    destruct (n =? 1) eqn:Hn.
    + apply (VW_emit_gen s _ _ [ESub g f] H B1 B2 B3 B4); [intros e [<-|[]]; exact Hwf|].
      intros Hm x. cbn [fold_left name_step]. rewrite in_tkeys_aset. fold t. cbn [In]. rewrite (A6 Hm x). intuition.
    + apply (VW_emit_gen s _ _ [] H B1 B2 B3 B4); [intros e []|].
      intros Hm x. cbn [fold_left]. rewrite in_tkeys_aset, <- (A6 Hm x).
      assert (In t (tkeys (a_topics s))).
      { destruct (in_dec (list_eq_dec N.eq_dec) t (tkeys (a_topics s))) as [Hi|Hi]; [exact Hi|]. apply Hfresh in Hi. discriminate. }
      split; [intros [->|Hx]; assumption|now right].
Qed.

(* QUnsub *)
Lemma VW_unsub s c t : VW s ->
  VW (let '(ix, tp, gone) := ls_unsubscribe c t (a_index s) (a_topics s) in
      let s1 := set_local ix tp s in if gone then emit1 (EUnsub t) s1 else s1).
Proof.
  intros H. pose proof H as [A1 A2 A3 A4 A5 A6 A7 A8 A9 A10]. unfold ls_unsubscribe.
  destruct (aget c (a_index s)) as [keys|] eqn:Hk; [|apply (VW_same_local s); [reflexivity|exact H]].
  destruct (mem_str t keys) eqn:Hmem; [|apply (VW_same_local s); [reflexivity|exact H]].
  assert (Hform : wfform t) by (apply mem_str_In in Hmem; apply aget_In in Hk; now apply (A4 c keys)).
  set (ix' := match del_str t keys with [] => adel c (a_index s) | _ => aset c (del_str t keys) (a_index s) end).
  assert (B4 : forall c' ks, In (c', ks) ix' -> forall k, In k ks -> wfform k).
  { intros c' ks Hin k Hkk. subst ix'. destruct (del_str t keys) as [|x r] eqn:Hd.
    - apply in_adel_pair in Hin. now apply (A4 c' ks).
    - apply in_aset_pair_q in Hin as [E|Hin]; [|now apply (A4 c' ks)]. injection E as _ ->.
      rewrite <- Hd in Hkk. apply in_del_str in Hkk. apply aget_In in Hk. now apply (A4 c keys). }
  assert (B1 := ls_dec_nodup t _ A1). assert (B2 := ls_dec_pos t _ A2).
  assert (B3 : forall k, In k (tkeys (ls_dec t (a_topics s))) -> wfform k).
  { intros k Hkk. apply (ls_dec_keys t _ k A1) in Hkk as [Hkk _]. now apply A3. }
  destruct (ahas t (ls_dec t (a_topics s))) eqn:Ha; cbn [negb].
  - apply (VW_emit_gen s ix' _ [] H B1 B2 B3 B4); [intros e []|].
    intros Hm x. cbn [fold_left]. rewrite (ls_dec_keys t _ x A1), Ha, <- (A6 Hm x). tauto.
  - apply (VW_emit_gen s ix' _ [EUnsub t] H B1 B2 B3 B4); [intros e [<-|[]]; exact Hform|].
    intros Hm x. cbn [fold_left name_step]. rewrite (ls_dec_keys t _ x A1), Ha, in_rm_name, <- (A6 Hm x).
    split; [intros [Hx Hne]; split; [exact Hx|intros ->; specialize (Hne eq_refl); discriminate]|intros [Hx Hne]; split; [exact Hx|congruence]].
Qed.

Lemma fold_names_unsubs_gen L : (forall e, In e L -> exists t, e = EUnsub t) ->
  forall acc x, In x (fold_left name_step L acc) <-> In x acc /\ forall t, In (EUnsub t) L -> x <> t.
Proof.
  induction L as [|e r IH]; intros H acc x; cbn [fold_left].
  - split; [intros Hx; split; [exact Hx|intros t []]|tauto].
  - destruct (H e (or_introl eq_refl)) as [t ->]. rewrite IH by (intros e' He'; apply H; now right).
    cbn [name_step]. rewrite in_rm_name. split.
    + intros [[Hx Hne] Hr]. split; [exact Hx|]. intros t' [E|Hin]; [injection E as <-; exact Hne|now apply Hr].
    + intros [Hx Hr]. split; [split; [exact Hx|apply Hr; now left]|intros t' Hin; apply Hr; now right].
Qed.

Lemma wf_event_eqb a b : fevent_eqb a b = true -> wf_event a -> wf_event b.
Proof. intros E H. apply fevent_eqb_shape in E. destruct a; [now subst|now subst|destruct E as [m' ->]; exact I]. Qed.

(* QTerm *)
Lemma VW_term s c order : VW s ->
  VW (let '(ix, tp, rm) := ls_unsubscribe_all c (a_index s) (a_topics s) in
      emit_list (fq_resolve (map EUnsub rm) order) (set_local ix tp s)).
Proof.
  intros H. pose proof H as [A1 A2 A3 A4 A5 A6 A7 A8 A9 A10]. unfold ls_unsubscribe_all.
  set (ks := keys_of_client c (a_index s)).
  destruct (ls_dec_all ks (a_topics s)) as [tp' rm] eqn:Hd.
  assert (Hkeys : forall x, (In x (tkeys tp') <-> In x (tkeys (a_topics s)) /\ ~ In x rm) /\ NoDup (tkeys tp')).
  { intros x. pose proof (ls_dec_all_keys ks (a_topics s) x A1) as Hk. now rewrite Hd in Hk. }
  assert (Hrm : forall t, In t rm -> wfform t).
  { intros t Ht. assert (In t ks) by (apply (ls_dec_all_rm ks (a_topics s)); now rewrite Hd).
    subst ks. unfold keys_of_client in H0. destruct (aget c (a_index s)) as [k0|] eqn:Hg; [|destruct H0].
    apply aget_In in Hg. now apply (A4 c k0). }
  apply (VW_emit_gen s _ _ _ H).
  - exact (proj2 (Hkeys [])).
  - intros t n Hin. apply (ls_dec_all_pos ks (a_topics s) A2 t n). now rewrite Hd.
  - intros t Ht. apply (Hkeys t) in Ht as [Ht _]. now apply A3.
  - intros c' ks' Hin. apply in_adel_pair in Hin. now apply (A4 c' ks').
  - apply (resolve_kind _ _ wf_event wf_event_eqb). intros e He. apply in_map_iff in He as (t & <- & Ht). now apply Hrm.
  - intros Hm x.
    assert (HL : forall e, In e (fq_resolve (map EUnsub rm) order) -> exists t, e = EUnsub t).
    { apply (resolve_kind _ _ (fun e => exists t, e = EUnsub t)).
      - intros a b E [t ->]. apply fevent_eqb_shape in E. now exists t.
      - intros e He. apply in_map_iff in He as (t & <- & _). now exists t. }
    rewrite (fold_names_unsubs_gen _ HL), (proj1 (Hkeys x)), (A6 Hm x).
    split; intros [Hx Hr]; (split; [exact Hx|]).
    + intros t Hin Ext. subst t. apply Hr. apply (proj1 (resolve_in_nm (map EUnsub rm) order (EUnsub x) I)) in Hin.
      apply in_map_iff in Hin as (t' & E & Ht'). now injection E as ->.
    + intros Hin. apply (Hr x); [|reflexivity]. apply (proj2 (resolve_in_nm (map EUnsub rm) order (EUnsub x) I)). now apply in_map.
Qed.

(* QMsg *)
Lemma VW_msg s m : VW s -> VW (emit1 (EMsg m) s).
Proof.
  intros H. pose proof H as [A1 A2 A3 A4 A5 A6 A7 A8 A9 A10].
  apply VW_xcore with (s := emit_list [EMsg m] (set_local (a_index s) (a_topics s) s)).
  - unfold emit_list. cbn [fold_left]. unfold emit1, xcore. sfields. destruct (a_peer s); reflexivity.
  - apply VW_emit_gen; try assumption. intros e [<-|[]]. exact I.
Qed.

(* ------------------------------------------------------------------ *)
(* 6. the receiver applies an event                                    *)
(* ------------------------------------------------------------------ *)

Definition ops_of (e : fevent) : list op :=
  match e with
  | ESub g f => [OSub NODE_A (plain_sub g f)]
  | EUnsub t => [OUnsub NODE_A t]
  | EMsg _ => []
  end.

Lemma db_run_snoc ops o : db_run (ops ++ [o]) = db_step (db_run ops) o.
Proof. unfold db_run. now rewrite fold_left_app. Qed.
Lemma spec_run_snoc ops o : spec_run (ops ++ [o]) = spec_step (spec_run ops) o.
Proof. unfold spec_run. now rewrite fold_left_app. Qed.
Lemma wf_ops_snoc ops o : wf_ops (ops ++ [o]) = wf_ops ops && wf_op o.
Proof. unfold wf_ops. rewrite forallb_app. cbn [forallb]. now rewrite andb_true_r. Qed.

Lemma skey_eqb_A g f g' f' : skey_eqb (NODE_A, g, f) (NODE_A, g', f') = true <-> (g, f) = (g', f').
Proof.
  destruct (skey_eqb_spec (NODE_A, g, f) (NODE_A, g', f')) as [E|E]; split; intros H; try reflexivity; try discriminate.
  - now injection E as -> ->.
  - exfalso. apply E. now injection H as -> ->.
Qed.

Ltac dkey :=
  match goal with
  | |- context [skey_eqb ?ka ?kb] => destruct (skey_eqb ka kb) eqn:Ek
  | H : context [skey_eqb ?ka ?kb] |- _ => destruct (skey_eqb ka kb) eqn:Ek
  end.

Lemma VW_apply s s' id e :
  VW s -> matched s = true -> wf_event e ->
  a_index s' = a_index s -> a_topics s' = a_topics s -> emitted s' = emitted s -> a_epoch s' = a_epoch s ->
  option_map p_sid (a_peer s') = option_map p_sid (a_peer s) -> option_map fs_id (fb_sess s') = option_map fs_id (fb_sess s) ->
  applied s' = applied s ++ [(a_epoch s, id, e)] ->
  fb_ops s' = fb_ops s ++ ops_of e -> fb_fed s' = fold_left db_step (ops_of e) (fb_fed s) ->
  VW s'.
Proof.
  intros [A1 A2 A3 A4 A5 A6 A7 A8 A9 A10] Hm Hwe E1 E2 E3 E4 E5 E6 E7 E8 E9.
  assert (Hm' : matched s' = matched s) by now apply matched_xcore.
  assert (HAN : AN s' = name_step (AN s) e).
  { unfold AN, Aof. rewrite E4, E7, proj_snoc_same, map_app. cbn [map snd]. apply names_snoc. }
  assert (HEN : EN s' = EN s) by (unfold EN, Eof; now rewrite E3, E4).
  pose proof (inv_ok _ _ (Inv_run _ A8)) as Hok. destruct Hok as [Hnd _].
  destruct e as [g f|t|m]; cbn [ops_of wf_event name_step fold_left] in *.
  - (* Subscribe *)
    assert (Hwfo : wf_op (OSub NODE_A (plain_sub g f)) = true).
    { cbn [wf_op plain_sub s_share]. unfold wf_share in Hwe. apply andb_true_iff in Hwe as [Hns _]. now rewrite Hns. }
    constructor; rewrite ?E1, ?E2, ?E3, ?Hm', ?HEN; try assumption.
    + rewrite E9, E8, A7. symmetry. apply db_run_snoc.
    + rewrite E8, wf_ops_snoc, A8, Hwfo. reflexivity.
    + intros g' f' v. rewrite E8, spec_run_snoc. cbn [spec_step plain_sub s_share s_filter]. rewrite sp_get_set.
      dkey; [|apply A9].
      apply skey_eqb_A in Ek. injection Ek as -> ->. intros _. exact Hwe.
    + intros _ x. rewrite HAN, E8, spec_run_snoc. cbn [spec_step plain_sub s_share s_filter In]. rewrite <- (A10 Hm x). split.
      * intros (g' & f' & v & Hg & ->). rewrite sp_get_set in Hg.
        dkey.
        -- apply skey_eqb_A in Ek. injection Ek as -> ->. now left.
        -- right. now exists g', f', v.
      * intros [<-|(g' & f' & v & Hg & ->)].
        -- exists g, f, (plain_sub g f). split; [|reflexivity]. rewrite sp_get_set, skey_eqb_refl. reflexivity.
        -- exists g', f'. rewrite sp_get_set. dkey; eexists; (split; [|reflexivity]); [reflexivity|exact Hg].
  - (* Unsubscribe *)
    destruct Hwe as (g0 & f0 & Hwf0 & ->).
    assert (Hspl : split_topic (fed_full_topic g0 f0) = (g0, f0)) by now apply split_full.
    assert (Hstep : spec_run (fb_ops s') = sp_del (NODE_A, g0, f0) (spec_run (fb_ops s))).
    { rewrite E8, spec_run_snoc, spec_step_unsub, Hspl. reflexivity. }
    constructor; rewrite ?E1, ?E2, ?E3, ?Hm', ?HEN; try assumption.
    + rewrite E9, E8, A7. symmetry. apply db_run_snoc.
    + rewrite E8, wf_ops_snoc, A8. reflexivity.
    + intros g' f' v. rewrite Hstep, (sp_get_del _ _ _ Hnd).
      match goal with |- context [skey_eqb ?ka ?kb] => destruct (skey_eqb ka kb) end; [discriminate|apply A9].
    + intros _ x. rewrite HAN, Hstep, in_rm_name, <- (A10 Hm x). split.
      * intros (g' & f' & v & Hg & ->). rewrite (sp_get_del _ _ _ Hnd) in Hg.
        dkey; [discriminate|].
        split; [now exists g', f', v|]. intros Ef. apply (full_inj g' f' g0 f0 (A9 _ _ _ Hg) Hwf0) in Ef.
        apply skey_eqb_A in Ef. congruence.
      * intros [(g' & f' & v & Hg & ->) Hne]. exists g', f', v. split; [|reflexivity]. rewrite (sp_get_del _ _ _ Hnd).
        dkey; [|exact Hg].
        apply skey_eqb_A in Ek. injection Ek as -> ->. now destruct Hne.
  - (* message *)
    rewrite app_nil_r in E8. cbn [fold_left] in E9.
    constructor; rewrite ?E1, ?E2, ?E3, ?E8, ?E9, ?Hm', ?HEN, ?HAN; try assumption.
Qed.

(* one EventStream iteration *)
Lemma VW_deliver b s : INV s -> VW s -> VW (fq_deliver b s).
Proof.
  intros HI H. unfold fq_deliver. destruct (st_up s) eqn:Hup; [|exact H].
  destruct (c2s s) as [|[[ep id] e] rest] eqn:Hcs; [exact H|].
  destruct (fb_sess s) as [se|] eqn:Hse; [|exact H].
  pose proof HI as (Hpre & Hem & Hap & Hc & Hdown & Hsess & Hq).
  destruct (a_peer s) as [p|] eqn:Hp; [|congruence]. destruct Hq as [Hsid (pre & HEq & Hcons & Hnext & Hbad & Hread & Hm)].
  rewrite Hse in Hm. destruct (fs_id se =? p_sid p) eqn:Hid; [|congruence].
  assert (Hep : ep = a_epoch s) by (apply (Hc (ep, id, e)); rewrite Hcs; now left). subst ep.
  assert (Hmat : matched s = true) by (unfold matched; now rewrite Hp, Hse).
  (* the event comes from what A emitted *)
  assert (Hwe : wf_event e).
  { rewrite Hup, Hcs in Hm. destruct Hm as (D & C & U & HD & _ & _ & Hc2 & _).
    destruct C as [|[id' e'] C']; [discriminate|]. cbn [map] in Hc2. injection Hc2 as Hi He _. cbn [fst snd] in Hi, He. subst id' e'.
    assert (HinE : In (id, e) (Eof s)) by (rewrite HD; apply in_or_app; right; now left).
    apply In_proj in HinE as (t & Ht & Hu). destruct H as [_ _ _ _ A5 _ _ _ _ _]. specialize (A5 t Ht).
    destruct t as [[ep' id'] e']. unfold untag in Hu. cbn [fst snd] in Hu. injection Hu as _ <-. exact A5. }
  destruct (lru_set id (fs_seen se)) as [dup seen'].
  destruct dup.
  - (* duplicate: nothing is applied *)
    apply (VW_xcore s); [|exact H].
    destruct b; [|rewrite xcore_cut]; unfold xcore; sfields; now rewrite Hp, Hse.
  - (* applied *)
    apply (VW_apply s _ id e H Hmat Hwe); destruct b;
      try (destruct e; unfold apply_event, fed_op; cbn [ops_of fold_left]; sfields; rewrite ?Hp, ?Hse, ?app_nil_r; reflexivity).
    all: match goal with |- context [fq_cut ?X] => pose proof (xcore_cut X) as Hx; unfold xcore in Hx; injection Hx as X1 X2 X3 X4 X5 X6 X7 X8 X9 end.
    all: sfields; rewrite ?X1, ?X2, ?X3, ?X4, ?X5, ?X6, ?X7, ?X8, ?X9.
    all: destruct e; unfold apply_event, fed_op; cbn [ops_of fold_left]; sfields; rewrite ?Hp, ?Hse, ?app_nil_r; reflexivity.
Qed.

(* ------------------------------------------------------------------ *)
(* 7. sessions come and go                                             *)
(* ------------------------------------------------------------------ *)

Lemma sp_get_del_client g f sp : sp_get (NODE_A, g, f) (sp_del_client NODE_A sp) = None.
Proof.
  unfold sp_del_client. induction sp as [|[[[c g'] f'] v] r IH]; cbn [filter fst]; [reflexivity|].
  destruct (str_eqb_spec NODE_A c) as [<-|Hne]; cbn [negb]; [exact IH|]. cbn [sp_get].
  destruct (skey_eqb_spec (NODE_A, g, f) (c, g', f')) as [E|_]; [congruence|exact IH].
Qed.

(* B forgets everything it holds for A (clean start, node failure) *)
Lemma VW_forget s s' :
  VW s -> a_index s' = a_index s -> a_topics s' = a_topics s -> (forall t, In t (emitted s') -> wf_event (snd t)) ->
  fb_ops s' = fb_ops s ++ [OUnsubAll NODE_A] -> fb_fed s' = db_step (fb_fed s) (OUnsubAll NODE_A) ->
  (matched s' = true -> (forall x, In x (tkeys (a_topics s)) <-> In x (EN s')) /\ AN s' = []) ->
  VW s'.
Proof.
  intros [A1 A2 A3 A4 A5 A6 A7 A8 A9 A10] E1 E2 E3 E8 E9 Hm.
  constructor; rewrite ?E1, ?E2; try assumption.
  - intros Hmt. now apply Hm.
  - rewrite E9, E8, A7. symmetry. apply db_run_snoc.
  - rewrite E8, wf_ops_snoc, A8. reflexivity.
  - intros g f v. rewrite E8, spec_run_snoc. cbn [spec_step]. now rewrite sp_get_del_client.
  - intros Hmt x. rewrite (proj2 (Hm Hmt)). split; [|intros []].
    intros (g & f & v & Hg & _). rewrite E8, spec_run_snoc in Hg. cbn [spec_step] in Hg. now rewrite sp_get_del_client in Hg.
Qed.

(* the peer object is replaced or dropped: nothing is claimed until the next clean start *)
Lemma VW_unmatched s s' :
  VW s -> a_index s' = a_index s -> a_topics s' = a_topics s -> emitted s' = emitted s ->
  fb_ops s' = fb_ops s -> fb_fed s' = fb_fed s -> matched s' = false -> VW s'.
Proof.
  intros [A1 A2 A3 A4 A5 A6 A7 A8 A9 A10] E1 E2 E3 E8 E9 Hm.
  constructor; rewrite ?E1, ?E2, ?E3, ?E8, ?E9; try assumption; rewrite Hm; discriminate.
Qed.

Lemma xcore_hello_tail (fo : bool) next X :
  xcore (let s3 := match a_peer X with Some p2 => set_queue (eq_set_read next (p_q p2)) X | None => X end in
         if fo then s3
         else match a_peer s3 with
              | Some p3 => set_stream true [] [] (set_queue (eq_set_closed false (p_q p3)) s3)
              | None => s3
              end) = xcore X.
Proof.
  cbv zeta. destruct (a_peer X) as [p2|] eqn:Hp.
  - destruct fo; [apply xcore_set_queue|]. rewrite (set_queue_some _ _ p2 Hp). sfields. unfold set_queue, xcore. sfields. now rewrite Hp.
  - destruct fo; [reflexivity|]. now rewrite Hp.
Qed.

(* the full resynchronisation replays to the local topic set *)
Lemma resync_names s order x :
  (forall t, In t (tkeys (a_topics s)) -> wfform t) ->
  (In x (fold_left name_step (resync_events s order) []) <-> In x (tkeys (a_topics s))).
Proof.
  intros Hform. unfold resync_events.
  set (subs := resync_subs (a_topics s)). set (msgs := resync_msgs (a_ret s)).
  set (L1 := fq_resolve subs (firstn (length subs) order)). set (L2 := fq_resolve msgs (skipn (length subs) order)).
  assert (Hsubs : forall e, In e subs -> exists g f, e = ESub g f).
  { intros e He. apply in_map_iff in He as ([t n] & <- & _). destruct (split_topic (fst (t, n))). now eexists _, _. }
  assert (Hmsgs : forall e, In e msgs -> exists m, e = EMsg m).
  { intros e He. apply in_map_iff in He as (m & <- & _). now eexists. }
  assert (Hnu : forall e, In e (L1 ++ L2) -> no_unsub e).
  { intros e He. apply in_app_or in He as [He|He].
    - revert e He. apply (resolve_kind _ _ no_unsub).
      + intros a b E Ha. apply fevent_eqb_shape in E. destruct a; [now subst|destruct Ha|destruct E as [m' ->]; exact I].
      + intros e He. destruct (Hsubs e He) as (g & f & ->). exact I.
    - revert e He. apply (resolve_kind _ _ no_unsub).
      + intros a b E Ha. apply fevent_eqb_shape in E. destruct a; [now subst|destruct Ha|destruct E as [m' ->]; exact I].
      + intros e He. destruct (Hmsgs e He) as (m & ->). exact I. }
  rewrite (fold_names_subs _ [] x Hnu). cbn [In]. split.
  - intros [[]|(g & f & Hin & ->)]. apply in_app_or in Hin as [Hin|Hin].
    + apply (proj1 (resolve_in_nm subs _ (ESub g f) I)) in Hin. apply in_map_iff in Hin as ([t n] & E & Hin). cbn [fst] in E.
      assert (Ht : In t (tkeys (a_topics s))) by (apply in_map_iff; now exists (t, n)).
      destruct (Hform t Ht) as (g0 & f0 & Hwf & ->). rewrite (split_full g0 f0 Hwf) in E. injection E as <- <-. exact Ht.
    + apply (proj1 (resolve_in_nm msgs _ (ESub g f) I)) in Hin. destruct (Hmsgs _ Hin) as (m & E). discriminate.
  - intros Ht. right. pose proof Ht as Ht'. apply in_map_iff in Ht' as ([t n] & <- & Hin). cbn [fst] in *.
    destruct (Hform t Ht) as (g0 & f0 & Hwf & ->). exists g0, f0. split; [|reflexivity].
    apply in_or_app. left. apply (proj2 (resolve_in_nm subs _ (ESub g0 f0) I)).
    apply in_map_iff. exists (fed_full_topic g0 f0, n). split; [|exact Hin]. cbn [fst]. now rewrite (split_full g0 f0 Hwf).
Qed.

Lemma VW_clean_resync s p order (fo : bool) :
  INV s -> VW s -> st_up s = false -> a_peer s = Some p ->
  let s1 := fed_op s (OUnsubAll NODE_A) in
  let s1c := set_server (fb_peer s1) (Some {| fs_id := p_sid p; fs_next := 0; fs_seen := [] |})
                        (fb_fed s1) (fb_ret s1) (fb_ops s1) (applied s1) (published s1) s1 in
  VW (emit_list (resync_events s1c order)
        (set_peer (Some {| p_sid := p_sid p; p_q := eq_clear (p_q p) |}) (a_sidctr s1c) (a_epoch s1c + 1) (emitted s1c) s1c)).
Proof.
  intros HI H Hup Hp. cbv zeta.
  match goal with |- VW (emit_list ?evs ?X) => set (sC := X); set (es := evs) end.
  pose proof H as [A1 A2 A3 A4 A5 A6 A7 A8 A9 A10].
  destruct HI as (_ & Hem & Hap & _).
  pose proof (ecore_emit_list es sC) as Hc. unfold ecore in Hc. injection Hc as C1 C2 C3 C4 C5 C6 C7 C8.
  assert (Hes : es = resync_events s order) by reflexivity.
  apply (VW_forget s).
  - exact H.
  - rewrite C1. reflexivity.
  - rewrite C2. reflexivity.
  - intros t Ht. apply emitted_emit_list in Ht as [Ht|Ht]; [now apply A5|].
    rewrite Hes in Ht. unfold resync_events in Ht. apply in_app_or in Ht as [Ht|Ht]; revert Ht; generalize (snd t);
      apply (resolve_kind _ _ wf_event wf_event_eqb).
    + intros e He. apply in_map_iff in He as ([k n] & <- & Hin). cbn [fst].
      assert (Hk : In k (tkeys (a_topics s))) by (apply in_map_iff; now exists (k, n)).
      destruct (A3 k Hk) as (g0 & f0 & Hwf & ->). now rewrite (split_full g0 f0 Hwf).
    + intros e He. apply in_map_iff in He as (m & <- & _). exact I.
  - rewrite C5. reflexivity.
  - rewrite C6. reflexivity.
  - intros _. split.
    + intros x. rewrite EN_emit_list by reflexivity.
      assert (HE0 : EN sC = []).
      { unfold EN, Eof. subst sC. sfields. unfold fed_op. sfields. rewrite proj_none; [reflexivity|]. intros t Ht. apply Hem in Ht. lia. }
      rewrite HE0, Hes. symmetry. now apply resync_names.
    + unfold AN, Aof. rewrite C3, C4. subst sC. sfields. unfold fed_op. sfields.
      rewrite proj_none; [reflexivity|]. intros t Ht. apply Hap in Ht. lia.
Qed.

Lemma VW_reconnect mode order s :
  INV s -> VW s ->
  (mode = HsLostResp -> is_some (a_peer s) = true -> fb_peer s = true -> matched s = true) ->
  VW (fq_reconnect mode order s).
Proof.
  intros HI0 H0 Hno. unfold fq_reconnect.
  assert (H : VW (fq_cut s)) by (apply (VW_xcore s); [now rewrite xcore_cut|exact H0]).
  pose proof (INV_cut _ HI0) as HI. destruct (kcore_cut s) as (Hk & Hup & _).
  pose proof (kof_kcore _ _ Hk) as Hkk. unfold kof in Hkk. injection Hkk as Hk1 Hk2 Hk3.
  set (s0 := fq_cut s) in *.
  destruct (a_peer s0) as [p|] eqn:Hp; [|exact H].
  destruct mode eqn:Hmode; try exact H.
  all: unfold server_hello; destruct (fb_peer s0) eqn:Hbp; [|exact H].
  all: destruct (fb_sess s0) as [se|] eqn:Hse; [destruct (fs_id se =? p_sid p) eqn:Hid|].
  - apply (VW_xcore s0); [|exact H]. symmetry. apply (xcore_hello_tail false).
  - eapply VW_xcore; [symmetry; apply (xcore_hello_tail false)|]. now apply (VW_clean_resync s0 p order false).
  - eapply VW_xcore; [symmetry; apply (xcore_hello_tail false)|]. now apply (VW_clean_resync s0 p order false).
  - exact H.
  - exfalso. assert (Hm : matched s = true) by (apply Hno; [reflexivity|rewrite <- Hk1; reflexivity|congruence]).
    rewrite <- Hk3 in Hm. unfold matched in Hm. rewrite Hp, Hse in Hm. congruence.
  - exfalso. assert (Hm : matched s = true) by (apply Hno; [reflexivity|rewrite <- Hk1; reflexivity|congruence]).
    rewrite <- Hk3 in Hm. unfold matched in Hm. rewrite Hp, Hse in Hm. congruence.
  - apply (VW_xcore s0); [|exact H]. symmetry. apply (xcore_hello_tail true).
  - eapply VW_xcore; [symmetry; apply (xcore_hello_tail true)|]. now apply (VW_clean_resync s0 p order false).
  - eapply VW_xcore; [symmetry; apply (xcore_hello_tail true)|]. now apply (VW_clean_resync s0 p order false).
Qed.

(* ------------------------------------------------------------------ *)
(* 8. every step, every schedule                                       *)
(* ------------------------------------------------------------------ *)

Lemma IV_deliver_all n : forall s, INV s -> VW s -> VW (fq_deliver_all n s).
Proof.
  induction n as [|n IH]; intros s HI H; cbn [fq_deliver_all]; [exact H|].
  destruct (st_up s && negb (is_nil (c2s s))); [|exact H]. apply IH; [now apply INV_deliver|now apply VW_deliver].
Qed.

Lemma IV_ack_all n : forall s, VW s -> VW (fq_ack_all n s).
Proof.
  induction n as [|n IH]; intros s H; cbn [fq_ack_all]; [exact H|].
  destruct (st_up s && negb (is_nil (s2c s))); [|exact H]. apply IH. apply (VW_xcore s); [now rewrite xcore_ack_deliver|exact H].
Qed.

Lemma IV_drain_loop n : forall s, INV s -> VW s -> VW (fq_drain_loop n s).
Proof.
  induction n as [|n IH]; intros s HI H; cbn [fq_drain_loop]; [exact H|].
  destruct (negb (st_up s) || fq_idle s); [exact H|].
  apply IH; [now apply INV_drain_round|]. unfold fq_drain_round. apply IV_ack_all. apply IV_deliver_all; [now apply INV_send|].
  apply (VW_xcore s); [now rewrite xcore_send|exact H].
Qed.

Definition wf_fqev (ev : fqev) : bool := match ev with QSub _ g f => wf_share g f | _ => true end.

Lemma step_vw s ev order : INV s -> VW s -> snd (kstep (kof s) ev) = false -> wf_fqev ev = true ->
  VW (fq_step s ev order).
Proof.
  intros HI H Hno Hwf. destruct ev; cbn [fq_step kstep fst snd wf_fqev] in *.
  - now apply VW_sub.
  - now apply VW_unsub.
  - now apply VW_term.
  - now apply VW_msg.
  - apply (VW_xcore s); [now rewrite xcore_send|exact H].
  - now apply VW_deliver.
  - apply (VW_xcore s); [now rewrite xcore_ack_deliver|exact H].
  - apply (VW_xcore s); [now rewrite xcore_cut|exact H].
  - apply VW_reconnect; [exact HI|exact H|].
    intros -> Ha Hb. cbn [kof k_apeer k_bpeer k_match] in Hno. rewrite Ha, Hb in Hno. cbn [andb snd] in Hno.
    destruct (matched s); [reflexivity|discriminate].
  - unfold fq_drain. destruct (a_peer s); [now apply IV_drain_loop|exact H].
  - (* QPeerLost *)
    destruct (fb_peer s) eqn:Hb; [|exact H].
    match goal with |- VW (fq_cut ?X) => apply (VW_xcore X); [now rewrite xcore_cut|] end.
    pose proof H as [A1 A2 A3 A4 A5 A6 A7 A8 A9 A10].
    apply (VW_forget s); try reflexivity; try assumption.
    unfold matched, fed_op. sfields. intros Hmt. exfalso. destruct (a_peer s); discriminate Hmt.
  - apply (VW_xcore s); [reflexivity|exact H].
  - (* QDropPeer *)
    destruct (a_peer s) as [p|] eqn:Hp; [|exact H].
    pose proof (xcore_cut s) as Hx. unfold xcore in Hx. injection Hx as X1 X2 X3 X4 X5 X6 X7 X8 X9.
    apply (VW_unmatched s); sfields; try assumption; reflexivity.
  - (* QJoinPeer *)
    destruct (a_peer s) as [p|] eqn:Hp; [exact H|].
    apply (VW_unmatched s); sfields; try reflexivity; try assumption.
    unfold matched. sfields. destruct (fb_sess s) as [se|] eqn:Hse; [|reflexivity].
    destruct HI as (_ & _ & _ & _ & _ & Hsess & _). destruct (Hsess se Hse) as [Hlt _].
    destruct (N.eqb_spec (fs_id se) (a_sidctr s)); [lia|reflexivity].
Qed.

Lemma VW_init ret : VW (fq_init ret).
Proof.
  constructor; unfold fq_init; sfields; try (intros; contradiction); try discriminate; try reflexivity.
  constructor.
Qed.

Lemma run_vw evs : forall s orders, INV s -> VW s -> kscan (kof s) evs = false -> forallb wf_fqev evs = true ->
  INV (fq_run s evs orders) /\ VW (fq_run s evs orders).
Proof.
  induction evs as [|ev r IH]; intros s orders HI H Hk Hwf; cbn [fq_run]; [now split|].
  cbn [kscan] in Hk. destruct (kstep (kof s) ev) as [k' hit] eqn:Hst. apply orb_false_iff in Hk as [Hhit Hk].
  cbn [forallb] in Hwf. apply andb_true_iff in Hwf as [Hw1 Hw2].
  destruct (step_inv s ev (hd [] orders) HI) as [HI' HK]; [rewrite Hst; exact Hhit|].
  apply IH; [exact HI'|apply step_vw; [exact HI|exact H|rewrite Hst; exact Hhit|exact Hw1]|rewrite HK, Hst; exact Hk|exact Hw2].
Qed.

(* ------------------------------------------------------------------ *)
(* 9. the statement                                                    *)
(* ------------------------------------------------------------------ *)

Lemma some_ents_app_v a b : some_ents (a ++ b) = some_ents a ++ some_ents b.
Proof. unfold some_ents. apply map_app. Qed.

(* what the lookup by client returns (the observable `view_of`) is the content of the flat store *)
Lemma view_exact ops : wf_ops ops = true ->
  exists v, view_of (db_run ops) = Some v /\ forall x, In x v <-> SNP (spec_run ops) x.
Proof.
  intros Hwf. assert (HA : NODE_A <> []) by discriminate.
  destruct (sh_lookup_client_exact ops NODE_A Hwf HA) as (lsh & Hsh & _ & Hin1).
  destruct (lookup_client_exact ops NODE_A Hwf HA) as (lpl & Hpl & _ & Hin2).
  pose proof (inv_ok _ _ (Inv_run ops Hwf)) as Hok.
  assert (Hall : db_iterate view_query (db_run ops) = IOk (some_ents (lsh ++ lpl))).
  { revert Hsh Hpl. unfold db_iterate, view_query, q_sh_client, q_client.
    cbn [io_sys io_shared io_nonshared io_topic io_client io_mt andb negb is_empty].
    unfold iterate_shared, iterate_nonshared. cbn [io_sys io_shared io_nonshared io_topic io_client io_mt is_empty negb].
    replace (is_empty NODE_A) with false by reflexivity. cbn [negb].
    destruct (aget NODE_A (sharedI (db_run ops))) as [ks|].
    - intros Hsh Hpl. injection Hsh as Hsh. injection Hpl as Hpl. cbn [app] in Hsh, Hpl. rewrite !app_nil_r in Hsh.
      rewrite Hsh, Hpl, <- some_ents_app_v. reflexivity.
    - intros Hsh Hpl. injection Hsh as Hsh. injection Hpl as Hpl. cbn [app] in Hsh, Hpl.
      rewrite Hpl. cbn [app]. destruct lsh; [reflexivity|discriminate]. }
  unfold view_of. rewrite Hall. eexists. split; [reflexivity|]. intros x. rewrite in_map_iff. split.
  - intros ([c [s|]] & <- & Hin); unfold some_ents in Hin; apply in_map_iff in Hin as ([c' s'] & E & Hin); [|discriminate].
    injection E as <- <-. cbn [snd]. apply in_app_or in Hin as [Hin|Hin].
    + apply Hin1 in Hin as (-> & Hg & Hget). now exists (s_share s'), (s_filter s'), s'.
    + apply Hin2 in Hin as (-> & Hget). destruct (sp_get_good _ _ _ _ _ Hok Hget) as [Hg _].
      exists [], (s_filter s'), s'. split; [exact Hget|now rewrite Hg].
  - intros (g & f & v & Hget & ->). destruct (sp_get_good _ _ _ _ _ Hok Hget) as [Hg Hf].
    exists (NODE_A, Some v). cbn [snd]. split; [now rewrite Hg, Hf|].
    unfold some_ents. apply in_map_iff. exists (NODE_A, v). split; [reflexivity|]. apply in_or_app.
    destruct g as [|a g'].
    + right. apply Hin2. split; [reflexivity|]. now rewrite Hf.
    + left. apply Hin1. split; [reflexivity|]. rewrite Hg, Hf. split; [discriminate|exact Hget].
Qed.

Lemma same_set_iff a b : (forall x, In x a <-> In x b) -> same_set a b = true.
Proof.
  intros H. unfold same_set, subset_str. apply andb_true_iff. split; apply forallb_forall; intros x Hx; apply mem_str_In; now apply H.
Qed.

(* After ANY schedule outside the two known-finding classes whose subscriptions are
   well-formed, once both nodes know each other, the handshake succeeds and both loops run
   to idle: B's view of A's subscriptions (what a lookup by client on the federation tree
   returns) equals A's local subscription set. *)
Lemma fq_view_complete ret evs orders :
  kf_hello_reply_lost evs = false -> kf_event_not_utf8 ret evs = false -> forallb wf_fqev evs = true ->
  let s := fq_run (fq_init ret) (evs ++ EPILOGUE) orders in
  exists v, view_of (fb_fed s) = Some v /\ same_set v (local_of s) = true.
Proof.
  intros Hk1 Hk2 Hwf. cbv zeta.
  (* the invariants hold after the whole run, epilogue included *)
  assert (Hk1' : kscan (kof (fq_init ret)) (evs ++ EPILOGUE) = false).
  { change (kof (fq_init ret)) with {| k_apeer := false; k_bpeer := false; k_match := false |}.
    unfold kf_hello_reply_lost in Hk1. revert Hk1. generalize {| k_apeer := false; k_bpeer := false; k_match := false |}.
    clear Hk2 Hwf. induction evs as [|ev r IH]; intros k Hk.
    - cbn [app]. destruct k as [a b m]. destruct a, b, m; reflexivity.
    - cbn [app kscan] in *. destruct (kstep k ev) as [k' hit]. apply orb_false_iff in Hk as [-> Hk]. cbn [orb]. now apply IH. }
  assert (Hwf' : forallb wf_fqev (evs ++ EPILOGUE) = true) by (rewrite forallb_app, Hwf; reflexivity).
  destruct (run_vw (evs ++ EPILOGUE) (fq_init ret) orders (INV_init ret) (VW_init ret) Hk1' Hwf') as [HI HV].
  destruct (fq_stable_complete ret evs orders Hk1 Hk2) as [Hidle HAE]. cbv zeta in Hidle, HAE.
  set (s := fq_run (fq_init ret) (evs ++ EPILOGUE) orders) in *.
  (* idle: the stream is up, hence B holds A's session *)
  assert (Hm : matched s = true).
  { unfold fq_idle in Hidle. destruct (st_up s) eqn:Hup; [|discriminate].
    destruct HI as (_ & _ & _ & _ & _ & _ & Hq). unfold matched.
    destruct (a_peer s) as [p|]; [|congruence]. destruct Hq as [_ (pre & _ & _ & _ & _ & _ & Hmm)].
    destruct (fb_sess s) as [se|]; [|congruence]. destruct (fs_id se =? p_sid p); [reflexivity|congruence]. }
  destruct HV as [A1 A2 A3 A4 A5 A6 A7 A8 A9 A10].
  destruct (view_exact (fb_ops s) A8) as (v & Hv & Hin). rewrite A7. exists v. split; [exact Hv|].
  apply same_set_iff. intros x. rewrite Hin, (A10 Hm x). unfold local_of. fold (tkeys (a_topics s)). rewrite (A6 Hm x).
  unfold AN, EN, Aof, Eof. now rewrite HAE.
Qed.
