(* C06_reencode: what ReadPacket accepts, Pack re-encodes to bytes that ReadPacket decodes to
   an equal packet (equal in every field except the cached FixHeader). *)
From Coq Require Import List NArith ZArith Bool Lia ZifyN ZifyNat ZifyBool Sorted.
Import ListNotations.
From GM Require Import Base.Topic Base.Msg Model.CodecBase Model.CodecProps Model.CodecPackets
  Proofs.CodecBaseP Proofs.CodecStrP Proofs.CodecTotalP Proofs.CodecPropsP Proofs.CodecPropsInvP Proofs.CodecRoundP.
Open Scope N_scope.

Ltac Zify.zify_post_hook ::= Z.div_mod_to_equations.

(* ---------------------------------------------------------------- what each Unpack establishes *)
Lemma publish_flags_inv : forall f dup qos retain, publish_flags f = Ok (dup, qos, retain) ->
  qos <= 2 /\ negb ((qos =? 0) && dup) = true.
Proof.
  intros f dup qos retain H. unfold publish_flags in H. cbv zeta in H.
  destruct ((N.land (N.shiftr f 1) 3 =? 0) && bit f 3) eqn:E1; [discriminate|].
  destruct (2 <? N.land (N.shiftr f 1) 3) eqn:E2; [discriminate|].
  apply ok3_inj in H. destruct H as (<- & <- & <-). rewrite E1. split; [lia|reflexivity].
Qed.

Lemma oprops_dec : forall v ctx b pr b',
  (if v =? 5 then do '(p, b') <- props_unpack ctx b; Ok (Some p, b') else Ok (None, b)) = Ok (pr, b') ->
  bytes_ok b -> oprops_inv v ctx pr /\ bytes_ok b'.
Proof.
  intros v ctx b pr b' H Hb. unfold oprops_inv. destruct (v =? 5).
  - destruct (props_unpack ctx b) as [[p r]| | |] eqn:E; cbn [bind] in H; try discriminate.
    inversion H; subst. apply props_unpack_inv in E; [|assumption]. destruct E. split; [eauto|assumption].
  - inversion H; subst. auto.
Qed.

Lemma parse_publish_inv : forall v dup qos retain b body,
  qos <= 2 -> negb ((qos =? 0) && dup) = true ->
  parse_publish v dup qos retain b = Ok body -> bytes_ok b ->
  dec_inv v body /\ exists topic pid payload pr, body = BPublish v dup qos retain topic pid payload pr.
Proof.
  intros v dup qos retain b body Hq Hd H Hb. unfold parse_publish in H.
  destruct (read_utf8_string true b) as [[topic b1]| | |] eqn:E1; cbn [bind] in H; try discriminate.
  apply read_utf8_string_inv in E1; [|assumption]. destruct E1 as (Hl & _ & Hb1 & Hu).
  assert (Hname : topic = [] \/ impl_name topic = true /\ True).
  { destruct topic as [|c t]; [left; reflexivity|right]. rewrite len_cons in H.
    replace (1 + len t =? 0) with false in H by lia.
    destruct (valid_topic_name_impl true (c :: t)) as [[|]| | |] eqn:En; cbn [bind negb] in H; try discriminate.
    split; [|exact I]. unfold impl_name. rewrite En. reflexivity. }
  destruct (if len topic =? 0 then Ok true else valid_topic_name_impl true topic) as [[|]| | |];
    cbn [bind negb] in H; try discriminate.
  destruct (if 0 <? qos then _ else _) as [[pid b2]| | |] eqn:E2; cbn [bind] in H; try discriminate.
  assert (Hpid : pid < 65536 /\ (qos = 0 -> pid = 0) /\ (qos <> 0 -> pid <> 0) /\ bytes_ok b2).
  { destruct (N.ltb_spec 0 qos).
    - destruct (read_uint16 b1) as [[i b']| | |] eqn:Er; cbn [bind] in E2; try discriminate.
      apply read_uint16_inv in Er; [|assumption]. destruct Er.
      destruct (N.eqb_spec i 0); [discriminate|]. inversion E2; subst.
      split; [assumption|]. split; [lia|]. split; [intros _; assumption|assumption].
    - inversion E2; subst. split; [lia|]. split; [reflexivity|]. split; [lia|assumption]. }
  destruct Hpid as (Hp & Hp0 & Hp1 & Hb2).
  destruct (if v =? 5 then _ else _) as [[pr b3]| | |] eqn:E3; cbn [bind] in H; try discriminate.
  apply oprops_dec in E3; [|assumption]. destruct E3 as [Hpr Hb3].
  destruct ((len topic =? 0) && _) eqn:Etok; [discriminate|].
  inversion H; subst. split; [|eauto 8].
  cbn [dec_inv]. split; [reflexivity|]. split; [assumption|]. split; [assumption|].
  split; [unfold istr_ok; rewrite Hu by reflexivity; lia|].
  split; [tauto|]. split; [assumption|]. split; [assumption|]. split; [assumption|]. split; [assumption|].
  unfold pub_topic_ok. rewrite Etok. reflexivity.
Qed.

Lemma ack_tail_dec : forall ctx b code pr,
  (do '(code, b) <- remap MALFORMED (read_byte b); do '(p, _) <- props_unpack ctx b; Ok (code, Some p)) = Ok (code, pr) ->
  bytes_ok b -> code < 256 /\ exists p, pr = Some p /\ props_inv ctx p.
Proof.
  intros ctx b code pr H Hb.
  destruct (read_byte b) as [[c b1]| | |] eqn:E1; cbn [remap bind] in H; try discriminate.
  apply read_byte_inv in E1; [|assumption]. destruct E1 as (Hc & Hb1 & _).
  destruct (props_unpack ctx b1) as [[p r]| | |] eqn:E2; cbn [bind] in H; try discriminate.
  apply props_unpack_inv in E2; [|assumption]. inversion H; subst. split; [assumption|]. exists p. tauto.
Qed.

Lemma parse_ack_inv : forall t v rl b body,
  (t = PUBACK \/ t = PUBREC \/ t = PUBCOMP) ->
  parse_ack t v rl b = Ok body -> bytes_ok b -> dec_inv v body /\ exists pid code pr, body = BAck t v pid code pr.
Proof.
  intros t v rl b body Ht H Hb. unfold parse_ack in H.
  destruct (read_uint16 b) as [[pid b1]| | |] eqn:E1; cbn [bind] in H; try discriminate.
  apply read_uint16_inv in E1; [|assumption]. destruct E1 as [Hp Hb1].
  destruct (rl =? 2).
  { inversion H; subst. split; [|eauto]. cbn [dec_inv]. repeat split; auto. left. auto. }
  destruct (v =? 5) eqn:Ev.
  - destruct (read_byte b1) as [[c b2]| | |] eqn:E2; cbn [remap bind] in H; try discriminate.
    apply read_byte_inv in E2; [|assumption]. destruct E2 as (Hc & Hb2 & _).
    destruct (props_unpack t b2) as [[p r]| | |] eqn:E3; cbn [bind] in H; try discriminate.
    apply props_unpack_inv in E3; [|assumption].
    destruct (negb (is_empty r)); [discriminate|].
    inversion H; subst. split; [|eauto]. cbn [dec_inv]. repeat split; auto. right. rewrite Ev. repeat split; auto.
    exists p. tauto.
  - cbn [bind] in H. destruct (negb (is_empty b1)); [discriminate|].
    inversion H; subst. split; [|eauto]. cbn [dec_inv]. repeat split; auto. left. auto.
Qed.

Lemma parse_pubrel_inv : forall v rl b body,
  parse_pubrel rl b = Ok body -> bytes_ok b -> dec_inv v body /\ exists pid code pr, body = BPubrel pid code pr.
Proof.
  intros v rl b body H Hb. unfold parse_pubrel in H.
  destruct (read_uint16 b) as [[pid b1]| | |] eqn:E1; cbn [bind] in H; try discriminate.
  apply read_uint16_inv in E1; [|assumption]. destruct E1 as [Hp Hb1].
  destruct (rl =? 2).
  { inversion H; subst. split; [|eauto]. cbn [dec_inv]. split; auto. left. auto. }
  destruct (read_byte b1) as [[c b2]| | |] eqn:E2; cbn [bind] in H; try discriminate.
  apply read_byte_inv in E2; [|assumption]. destruct E2 as (Hc & Hb2 & _).
  destruct (props_unpack PUBREL b2) as [[p r]| | |] eqn:E3; cbn [bind] in H; try discriminate.
  apply props_unpack_inv in E3; [|assumption].
  destruct (negb (is_empty r)); [discriminate|].
  inversion H; subst. split; [|eauto]. cbn [dec_inv]. split; auto. right. repeat split; auto. exists p. tauto.
Qed.

Lemma parse_connack_inv : forall v b body,
  parse_connack v b = Ok body -> bytes_ok b -> dec_inv v body /\ exists code sp pr, body = BConnack v code sp pr.
Proof.
  intros v b body H Hb. unfold parse_connack in H.
  destruct (match b with [] => (0, []) | x :: r => (x, r) end) as [sp b1] eqn:E0.
  assert (Hb1 : bytes_ok b1).
  { destruct b; inversion E0; subst; [constructor|]. apply bytes_ok_cons in Hb. tauto. }
  destruct (0 <? _); [discriminate|].
  destruct (read_byte b1) as [[c b2]| | |] eqn:E2; cbn [remap bind] in H; try discriminate.
  apply read_byte_inv in E2; [|assumption]. destruct E2 as (Hc & Hb2 & _).
  destruct (if v =? 5 then _ else _) as [[pr b3]| | |] eqn:E3; cbn [bind] in H; try discriminate.
  apply oprops_dec in E3; [|assumption]. destruct E3 as [Hpr Hb3].
  destruct (negb (is_empty b3)); [discriminate|].
  inversion H; subst. split; [|eauto]. cbn [dec_inv]. auto.
Qed.

Lemma parse_suback_inv : forall v b body,
  parse_suback v b = Ok body -> bytes_ok b -> dec_inv v body /\ exists pid payload pr, body = BSuback v pid payload pr.
Proof.
  intros v b body H Hb. unfold parse_suback in H.
  destruct (read_uint16 b) as [[pid b1]| | |] eqn:E1; cbn [remap bind] in H; try discriminate.
  apply read_uint16_inv in E1; [|assumption]. destruct E1 as [Hp Hb1].
  destruct (if v =? 5 then _ else _) as [[pr b3]| | |] eqn:E3; cbn [bind] in H; try discriminate.
  apply oprops_dec in E3; [|assumption]. destruct E3 as [Hpr Hb3].
  unfold parse_codes in H. destruct b3 as [|c cs]; cbn [bind] in H; [discriminate|].
  inversion H; subst. split; [|eauto]. cbn [dec_inv]. repeat split; auto. discriminate.
Qed.

Lemma parse_unsuback_inv : forall v b body,
  parse_unsuback v b = Ok body -> bytes_ok b -> dec_inv v body /\ exists pid payload pr, body = BUnsuback v pid payload pr.
Proof.
  intros v b body H Hb. unfold parse_unsuback in H.
  destruct (read_uint16 b) as [[pid b1]| | |] eqn:E1; cbn [bind] in H; try discriminate.
  apply read_uint16_inv in E1; [|assumption]. destruct E1 as [Hp Hb1].
  destruct (is_v3x v) eqn:Ev.
  { destruct (negb (is_empty b1)); [discriminate|].
    inversion H; subst. split; [|eauto]. cbn [dec_inv]. rewrite Ev. repeat split; auto. }
  destruct (props_unpack UNSUBACK b1) as [[p r]| | |] eqn:E3; cbn [bind] in H; try discriminate.
  apply props_unpack_inv in E3; [|assumption].
  unfold parse_codes in H. destruct r as [|c cs]; cbn [bind] in H; [discriminate|].
  inversion H; subst. split; [|eauto]. cbn [dec_inv]. rewrite Ev. repeat split; auto; [discriminate|].
  exists p. tauto.
Qed.

Lemma parse_disconnect_inv : forall v rl b body,
  parse_disconnect v rl b = Ok body -> bytes_ok b -> dec_inv v body /\ exists code pr, body = BDisconnect v code pr.
Proof.
  intros v rl b body H Hb. unfold parse_disconnect in H.
  destruct (v =? 5) eqn:Ev.
  - destruct (rl =? 0).
    { inversion H; subst. split; [|eauto]. cbn [dec_inv]. rewrite Ev. repeat split; try lia.
      exists props_empty. split; [reflexivity|].
      destruct (props_inv0_empty DISCONNECT) as (A & B & C & D & E).
      split; [exact A|]. split; [exact B|]. split; [exact C|]. split; [exact D|]. split; [exact E|]. cbn. discriminate. }
    destruct (read_byte b) as [[c b2]| | |] eqn:E2; cbn [remap bind] in H; try discriminate.
    apply read_byte_inv in E2; [|assumption]. destruct E2 as (Hc & Hb2 & _).
    destruct (props_unpack DISCONNECT b2) as [[p r]| | |] eqn:E3; cbn [bind] in H; try discriminate.
    apply props_unpack_inv in E3; [|assumption].
    destruct (negb (is_empty r)); [discriminate|].
    inversion H; subst. split; [|eauto]. cbn [dec_inv]. rewrite Ev. repeat split; auto. exists p. tauto.
  - destruct (negb (rl =? 0)); [discriminate|].
    inversion H; subst. split; [|eauto]. cbn [dec_inv]. rewrite Ev. auto.
Qed.

Lemma parse_auth_inv : forall v b body,
  parse_auth b = Ok body -> bytes_ok b -> dec_inv v body /\ exists code pr, body = BAuth code pr.
Proof.
  intros v b body H Hb. unfold parse_auth in H.
  destruct (read_byte b) as [[c b2]| | |] eqn:E2; cbn [remap bind] in H; try discriminate.
  apply read_byte_inv in E2; [|assumption]. destruct E2 as (Hc & Hb2 & _).
  destruct (props_unpack AUTH b2) as [[p r]| | |] eqn:E3; cbn [bind] in H; try discriminate.
  apply props_unpack_inv in E3; [|assumption].
  destruct (negb (is_empty r)); [discriminate|].
  inversion H; subst. split; [|eauto]. cbn [dec_inv]. right. repeat split; auto. exists p. tauto.
Qed.

(* the packet types covered here *)
Definition simple_body (b : body) : bool :=
  match b with BConnect _ | BSubscribe _ _ _ _ | BUnsubscribe _ _ _ _ => false | _ => true end.

Lemma eqb_cases : forall t, t < 16 ->
  t = 0 \/ t = CONNECT \/ t = CONNACK \/ t = PUBLISH \/ t = PUBACK \/ t = PUBREC \/ t = PUBREL \/ t = PUBCOMP
  \/ t = SUBSCRIBE \/ t = SUBACK \/ t = UNSUBSCRIBE \/ t = UNSUBACK \/ t = PINGREQ \/ t = PINGRESP
  \/ t = DISCONNECT \/ t = AUTH.
Proof. intros. unfold CONNECT, CONNACK, PUBLISH, PUBACK, PUBREC, PUBREL, PUBCOMP, SUBSCRIBE, SUBACK, UNSUBSCRIBE, UNSUBACK, PINGREQ, PINGRESP, DISCONNECT, AUTH. lia. Qed.

(* follow a chain of binds / tests in hypothesis H down to its final `Ok _ = Ok _` *)
Ltac inv_chain H :=
  repeat match type of H with
         | bind ?r _ = _ => destruct r as [?| | |]; cbn [bind] in H; try discriminate
         | (if ?c then _ else _) = _ => destruct c; try discriminate
         | match ?x with _ => _ end = _ => destruct x; try discriminate
         end.

(* the decoder establishes dec_inv *)
Lemma parse_body_inv : forall v fh b body,
  parse_body v fh b = Ok body -> bytes_ok b -> simple_body body = true -> dec_inv v body.
Proof.
  intros v fh b body H Hb Hs. unfold parse_body in H.
  destruct (fh_type fh =? CONNECT) eqn:E1.
  { exfalso. unfold parse_connect in H. inv_chain H; inversion H; subst; discriminate. }
  destruct (fh_type fh =? CONNACK). { eapply (parse_connack_inv v); eauto. }
  destruct (fh_type fh =? PUBLISH).
  { destruct (publish_flags (fh_flags fh)) as [[[dup qos] retain]| | |] eqn:Ef; cbn [bind] in H; try discriminate.
    apply publish_flags_inv in Ef. destruct Ef. eapply parse_publish_inv; eauto. }
  destruct ((fh_type fh =? PUBACK) || (fh_type fh =? PUBREC) || (fh_type fh =? PUBCOMP)) eqn:E4.
  { assert (Ht : fh_type fh = PUBACK \/ fh_type fh = PUBREC \/ fh_type fh = PUBCOMP)
      by (unfold PUBACK, PUBREC, PUBCOMP in *; lia).
    destruct (parse_ack_inv _ _ _ _ _ Ht H Hb) as [Hd _]. exact Hd. }
  destruct (fh_type fh =? PUBREL). { eapply parse_pubrel_inv; eauto. }
  destruct (fh_type fh =? SUBSCRIBE).
  { exfalso. unfold parse_subscribe in H. inv_chain H; inversion H; subst; discriminate. }
  destruct (fh_type fh =? SUBACK). { eapply parse_suback_inv; eauto. }
  destruct (fh_type fh =? UNSUBSCRIBE).
  { exfalso. unfold parse_unsubscribe in H. inv_chain H; inversion H; subst; discriminate. }
  destruct (fh_type fh =? UNSUBACK). { eapply parse_unsuback_inv; eauto. }
  destruct (fh_type fh =? DISCONNECT). { eapply parse_disconnect_inv; eauto. }
  destruct (fh_type fh =? AUTH). { eapply parse_auth_inv; eauto. }
  discriminate.
Qed.

(* ---------------------------------------------------------------- reading what Pack wrote *)
Lemma pack_fixhdr_len' : forall fh l, pack_fixhdr fh = Ok l -> fh_rl fh < BIG.
Proof.
  intros fh l H. unfold pack_fixhdr in H. unfold BIG.
  destruct (N.ltb_spec (fh_rl fh) 268435456) as [Hlt|Hge]; [assumption|].
  exfalso. unfold encode_varint, varint_size in H.
  replace (fh_rl fh <? 128) with false in H by lia. replace (fh_rl fh <? 16384) with false in H by lia.
  replace (fh_rl fh <? 2097152) with false in H by lia. replace (fh_rl fh <? 268435456) with false in H by lia.
  discriminate.
Qed.

Lemma takeN_all : forall (l : list N), takeN (len l) l = l.
Proof. intros. rewrite <- (app_nil_r l) at 2. apply takeN_app_exact. Qed.
Lemma dropN_all : forall (l : list N), dropN (len l) l = [].
Proof. intros. rewrite <- (app_nil_r l) at 2. apply dropN_app_exact. Qed.

Lemma read_packet_packed : forall v t fl bytes body h,
  t < 16 -> fl < 16 -> len bytes < BIG ->
  let fh := {| fh_type := t; fh_flags := fl; fh_rl := len bytes |} in
  (precheck fh = Ok PreBody /\ parse_body v fh bytes = Ok body) \/ (precheck fh = Ok (PreNoBody body) /\ bytes = []) ->
  pack_fixhdr fh = Ok h ->
  exists p', read_packet v (h ++ bytes) = Ok (p', []) /\ p_body p' = body.
Proof.
  intros v t fl bytes body h Ht Hf Hlen fh Hcase Hh.
  unfold pack_fixhdr in Hh. cbn [fh_rl fh_type fh_flags fh] in Hh. unfold BIG in Hlen.
  rewrite encode_varint_bytes in Hh by assumption. cbn [bind] in Hh. inversion Hh; subst h; clear Hh.
  destruct (hdr_byte t fl Ht Hf) as [H1 H2].
  unfold read_packet, read_packet_full. cbn [app].
  rewrite varint_roundtrip by assumption. rewrite H1, H2. fold fh.
  destruct Hcase as [[Hp Hb]|[Hp ->]]; rewrite Hp.
  - rewrite shorter_spec. replace (len bytes <? len bytes) with false by lia.
    unfold buf_next. rewrite takeN_all, dropN_all. cbn [fst]. rewrite Hb. cbn [bind].
    eexists. split; reflexivity.
  - cbn [fst]. eexists. split; reflexivity.
Qed.

Lemma read_packet_body : forall v bs p rest,
  read_packet v bs = Ok (p, rest) -> bytes_ok bs ->
  (exists fh b, parse_body v fh b = Ok (p_body p) /\ bytes_ok b)
  \/ p_body p = BPingreq \/ p_body p = BPingresp \/ p_body p = BAuth 0 None.
Proof.
  intros v bs p rest H Hb. unfold read_packet, read_packet_full in H.
  destruct bs as [|first r]; [discriminate|]. apply bytes_ok_cons in Hb. destruct Hb as [_ Hb].
  destruct (read_varint r) as [[rl r1]| | |] eqn:Ev; try discriminate.
  apply read_vbi_bytes in Ev; [|assumption].
  destruct (precheck _) as [[|b]| | |] eqn:Ep; try discriminate.
  - destruct (shorter r1 rl); [discriminate|]. unfold buf_next in H. cbn [fst] in H.
    destruct (parse_body _ _ _) as [b| | |] eqn:Eb; try discriminate. cbn [bind] in H.
    inversion H; subst. left. eexists. eexists. split; [exact Eb|]. auto with cbytes.
  - cbn [fst] in H. inversion H; subst. cbn [p_body]. right.
    unfold precheck in Ep. cbn [fh_type fh_flags fh_rl] in Ep.
    repeat match type of Ep with
           | (if ?c then _ else _) = _ => destruct c; try discriminate
           | bind ?r _ = _ => destruct r; cbn [bind] in Ep; try discriminate
           end; inversion Ep; auto.
Qed.

(* C06_reencode for every packet type except CONNECT, SUBSCRIBE, UNSUBSCRIBE *)
Theorem reencode_simple : forall v bs p rest,
  (v = 3 \/ v = 4 \/ v = 5) -> bytes_ok bs ->
  read_packet v bs = Ok (p, rest) -> simple_body (p_body p) = true ->
  forall bs', pack (p_body p) = Ok bs' ->
  exists p', read_packet v bs' = Ok (p', []) /\ p_body p' = p_body p.
Proof.
  intros v bs p rest Hv Hb Hr Hs bs' Hp.
  assert (Hinv : dec_inv v (p_body p)).
  { destruct (read_packet_body _ _ _ _ Hr Hb) as [[fh [b [Hpb Hbb]]]|[ -> | [ -> | -> ] ]].
    - eapply parse_body_inv; eauto.
    - exact I.
    - exact I.
    - left. auto. }
  unfold pack in Hp. destruct (pack_full (p_body p)) as [[bs0 fh0]| | |] eqn:Ef; cbn [bind] in Hp; try discriminate.
  inversion Hp; subst bs0; clear Hp.
  unfold pack_full in Ef.
  destruct (pack_body (p_body p)) as [[[t fl] bytes]| | |] eqn:Epb; cbn [bind] in Ef; try discriminate.
  destruct (pack_fixhdr _) as [h| | |] eqn:Eh; cbn [bind] in Ef; try discriminate.
  inversion Ef; subst bs' fh0; clear Ef.
  assert (Hlen : len bytes < BIG).
  { apply pack_fixhdr_len' in Eh. exact Eh. }
  destruct (p_body p) as [c|ver code sp pr|ver dup qos retain topic pid payload pr|ta ver pid code pr|pid code pr
                          |ver pid ts pr|ver pid pl pr|ver pid ts pr|ver pid pl pr| | |ver code pr|code pr] eqn:Ebody;
    try discriminate.
  - (* CONNACK *) assert (ver = v) by (destruct Hinv; assumption). subst ver.
    destruct (rt_connack v code sp pr t fl bytes Hinv Epb Hlen) as (-> & -> & Hparse).
    eapply (read_packet_packed v CONNACK 0 bytes _ h); [reflexivity|reflexivity|exact Hlen| |exact Eh].
    left. split; [reflexivity|exact Hparse].
  - (* PUBLISH *) assert (ver = v) by (destruct Hinv; assumption). subst ver.
    destruct (rt_publish v dup qos retain topic pid payload pr t fl bytes Hinv Epb Hlen) as (-> & Hfl & Hpf & Hparse).
    eapply (read_packet_packed v PUBLISH fl bytes _ h); [reflexivity|exact Hfl|exact Hlen| |exact Eh].
    left. split.
    + unfold precheck. cbn [fh_type fh_flags]. cbn [N.eqb Pos.eqb PUBLISH CONNECT CONNACK]. rewrite Hpf. reflexivity.
    + unfold parse_body. cbn [fh_type fh_flags]. cbn [N.eqb Pos.eqb PUBLISH CONNECT CONNACK]. rewrite Hpf. exact Hparse.
  - (* PUBACK / PUBREC / PUBCOMP *)
    assert (ver = v) by (destruct Hinv as (_ & ? & _); assumption). subst ver.
    destruct (rt_ack v ta pid code pr t fl bytes Hinv Epb Hlen) as (-> & -> & Hparse).
    destruct Hinv as (Hta & _).
    eapply (read_packet_packed v ta 0 bytes _ h); [|reflexivity|exact Hlen| |exact Eh].
    + unfold PUBACK, PUBREC, PUBCOMP in Hta. lia.
    + left. destruct Hta as [ -> | [ -> | -> ] ]; (split; [reflexivity|exact Hparse]).
  - (* PUBREL *)
    destruct (rt_pubrel v pid code pr t fl bytes Hinv Epb Hlen) as (-> & -> & Hparse).
    eapply (read_packet_packed v PUBREL 2 bytes _ h); [reflexivity|reflexivity|exact Hlen| |exact Eh].
    left. split; [reflexivity|exact Hparse].
  - (* SUBACK *) assert (ver = v) by (destruct Hinv; assumption). subst ver.
    destruct (rt_suback v pid pl pr t fl bytes Hinv Epb Hlen) as (-> & -> & Hparse).
    eapply (read_packet_packed v SUBACK 0 bytes _ h); [reflexivity|reflexivity|exact Hlen| |exact Eh].
    left. split; [reflexivity|exact Hparse].
  - (* UNSUBACK *) assert (ver = v) by (destruct Hinv; assumption). subst ver.
    destruct (rt_unsuback v pid pl pr t fl bytes Hv Hinv Epb Hlen) as (-> & -> & Hparse).
    eapply (read_packet_packed v UNSUBACK 0 bytes _ h); [reflexivity|reflexivity|exact Hlen| |exact Eh].
    left. split; [reflexivity|exact Hparse].
  - (* PINGREQ *) cbn [pack_body] in Epb. apply ok3_inj in Epb. destruct Epb as (<- & <- & <-).
    eapply (read_packet_packed v PINGREQ 0 [] _ h); [reflexivity|reflexivity|exact Hlen| |exact Eh].
    right. split; reflexivity.
  - (* PINGRESP *) cbn [pack_body] in Epb. apply ok3_inj in Epb. destruct Epb as (<- & <- & <-).
    eapply (read_packet_packed v PINGRESP 0 [] _ h); [reflexivity|reflexivity|exact Hlen| |exact Eh].
    right. split; reflexivity.
  - (* DISCONNECT *) assert (ver = v) by (destruct Hinv; assumption). subst ver.
    destruct (rt_disconnect v code pr t fl bytes Hv Hinv Epb Hlen) as (-> & -> & Hparse).
    eapply (read_packet_packed v DISCONNECT 0 bytes _ h); [reflexivity|reflexivity|exact Hlen| |exact Eh].
    left. split; [reflexivity|exact Hparse].
  - (* AUTH *)
    destruct (rt_auth v code pr t fl bytes Hinv Epb Hlen) as (-> & -> & [(-> & -> & ->)|(Hne & Hparse)]).
    + eapply (read_packet_packed v AUTH 0 [] _ h); [reflexivity|reflexivity|exact Hlen| |exact Eh].
      right. split; reflexivity.
    + eapply (read_packet_packed v AUTH 0 bytes _ h); [reflexivity|reflexivity|exact Hlen| |exact Eh].
      left. split; [|exact Hparse].
      unfold precheck. cbn [fh_type fh_flags fh_rl]. cbn [N.eqb Pos.eqb AUTH].
      destruct bytes; [congruence|]. rewrite len_cons. replace (1 + len bytes =? 0) with false by lia. reflexivity.
Qed.
